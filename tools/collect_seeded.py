#!/usr/bin/env python3
"""Collects the confirmed seeded changes (work/confirm*.log) and the detection results of the final matrix
(work/muttest_final.log, written by tools/matrix.py) into /verif/seeded/<id>/ and /verif/seeded/INDEX.json."""
import glob, json, os, re, subprocess
verdict = {}
for f in sorted(glob.glob("/verif/work/confirm*.log")):
    for l in open(f):
        m = re.match(r"VERDICT (/tmp/mut/(C\d+)/_out/(m\d)): (.*)", l)
        if m:
            verdict[m.group(1)] = (m.group(2) + "-" + m.group(3), m.group(4).strip())
ok = {k: v for k, v in verdict.items() if re.search(r"demo_with_patch_exit=[1-9]\d* tests_exit=0 .* demo_without_patch_exit=0", v[1])}
caught, missed = {}, {}
# detection results: the final matrix only (tools/matrix.py run on the finished machinery)
for f in ["/verif/work/muttest_final.log"]:
    cur = None
    for l in open(f):
        m = re.match(r"### (/tmp/mut/C\d+/_out/m\d)/patch.diff", l)
        if m:
            cur = m.group(1); continue
        m = re.match(r"### /verif/seeded/(C\d+)-(m\d)/patch.diff", l)     # re-runs from the kept copies
        if m:
            cur = f"/tmp/mut/{m.group(1)}/_out/{m.group(2)}"; continue
        m = re.match(r"(C\d+): exit=(-?\d+) violations=(\d+)", l)
        if m and cur:
            if m.group(2) == "1":
                caught.setdefault(cur, {})[m.group(1)] = l.strip()[:300]
                missed.get(cur, {}).pop(m.group(1), None)
            elif m.group(2) == "0" and m.group(1) not in caught.get(cur, {}):
                missed.setdefault(cur, {})[m.group(1)] = True
index = []
for d, (sid, v) in sorted(ok.items(), key=lambda kv: kv[1][0]):
    c = caught.get(d, {})
    mp = os.path.join("/verif/seeded", sid, "meta.json")
    if os.path.isdir(d):
        subprocess.run(["python3", "/verif/tools/keep_seeded.py", d, sid, v] + sorted(c), check=True, capture_output=True)
    elif not os.path.exists(mp):
        continue            # neither the author's directory nor a kept copy
    meta = json.load(open(mp))
    if not os.path.isdir(d):  # an earlier round: the scratch worktree is gone, the kept copy is what there is
        c = dict(meta.get("caught_by_detail", {}), **c)
        meta["caught_by"] = sorted(c)
    meta["caught_by_detail"] = c
    meta["not_caught_by"] = sorted(k for k in missed.get(d, {}) if k not in c)
    json.dump(meta, open(mp, "w"), indent=1)
    index.append({"id": sid, "property": meta["property"], "summary": meta["summary"][:160], "caught_by": sorted(c),
                  "not_caught_by": meta["not_caught_by"]})
json.dump(index, open("/verif/seeded/INDEX.json", "w"), indent=1)
for e in index:
    print(e["id"], "caught by", e["caught_by"] or "-", "| missed by", e["not_caught_by"] or "-")
