#!/bin/bash
# confirm_mutant.sh <dir with patch.diff + demo.sh> : in a persistent scratch worktree (/tmp/mutconfirm)
# checks that the patch applies and builds, that the demo FAILS with it, that the whole test suite
# PASSES with it, and that the demo PASSES without it.  Prints a one-line verdict.
set -u
M=$(readlink -f "$1")
W=/tmp/mutconfirm
if [ ! -d $W ]; then git -C /repo worktree add -q --detach $W HEAD || exit 2; fi
cd $W && git checkout -q --detach $(git -C /repo rev-parse HEAD) && git checkout -q -- . && git clean -fdq -e target
N=$(basename $M)
rm -rf $W/_out; mkdir -p $W/_out/$N; cp -r $M/. $W/_out/$N/
# agents' demo scripts refer to their own worktree path; rewrite to this one
AGENTW=$(grep -rhoE "/tmp/mut/C[0-9]+" $W/_out/$N/demo.sh $W/_out/$N/meta.json 2>/dev/null | head -1)
if [ -n "$AGENTW" ]; then grep -rl "$AGENTW" $W/_out/$N | xargs sed -i "s#$AGENTW#$W#g"; fi
git apply $M/patch.diff || { echo "VERDICT $M: patch does not apply"; exit 1; }
cargo build --offline -q 2>/dev/null || { echo "VERDICT $M: does not build"; git checkout -q -- .; exit 1; }
( cd $W && timeout 300 bash _out/$N/demo.sh >/tmp/mutconfirm_demo1.log 2>&1 ); D1=$?
cargo test --workspace --no-fail-fast --offline > /tmp/mutconfirm_test.log 2>&1; T=$?
NPASS=$(grep -E "^test result: ok" /tmp/mutconfirm_test.log | sed -E 's/.* ([0-9]+) passed.*/\1/' | paste -sd+ | bc)
git checkout -q -- .
cargo build --offline -q 2>/dev/null
( cd $W && timeout 300 bash _out/$N/demo.sh >/tmp/mutconfirm_demo0.log 2>&1 ); D0=$?
echo "VERDICT $M: demo_with_patch_exit=$D1 tests_exit=$T tests_passed=$NPASS demo_without_patch_exit=$D0"
if [ $D1 -ne 0 ] && [ $T -eq 0 ] && [ $D0 -eq 0 ]; then echo "CONFIRMED $M"; else echo "NOT-CONFIRMED $M"; fi
