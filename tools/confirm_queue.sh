#!/bin/bash
# confirm_queue.sh <log> <dir>... : confirms seeded changes one at a time (serialised by a lock on the shared scratch worktree)
LOG=$1; shift
for d in "$@"; do
  flock /tmp/mutconfirm.lock bash /verif/tools/confirm_mutant.sh "$d" 2>&1 | grep -E "VERDICT|CONFIRMED" >> "$LOG"
done
