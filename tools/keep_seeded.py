#!/usr/bin/env python3
"""keep_seeded.py <agent _out/mN dir> <seeded id> <confirm verdict line> [caught_by ...]
Copies a confirmed seeded change into /verif/seeded/<id>/ (patch.diff, demonstration, meta.json)."""
import json, os, shutil, sys
src, sid, verdict = sys.argv[1], sys.argv[2], sys.argv[3]
caught = sys.argv[4:]
dst = os.path.join("/verif/seeded", sid)
os.makedirs(dst, exist_ok=True)
for root, dirs, files in os.walk(src):
    dirs[:] = [d for d in dirs if d not in ("target", ".git")]
    rel = os.path.relpath(root, src)
    for fn in files:
        p = os.path.join(root, fn)
        if os.path.getsize(p) < 200_000 and not fn.endswith((".log", "_bin", ".lock")) and not (rel == "." and fn == "meta.json"):
            os.makedirs(os.path.join(dst, rel), exist_ok=True)
            shutil.copy(p, os.path.join(dst, rel, fn))
am = {}
if os.path.exists(os.path.join(src, "meta.json")):
    am = json.load(open(os.path.join(src, "meta.json")))
meta = {
    "id": sid,
    "property": am.get("property", sid.split("-")[0]),
    "summary": am.get("summary", ""),
    "needs": am.get("needs", ""),
    "files": am.get("files", []),
    "origin": "independent sub-agent given only the property text and a scratch worktree",
    "confirmed": {
        "how": "tools/confirm_mutant.sh in a scratch worktree: patch applies and builds; demo.sh fails with the patch; "
               "`cargo test --workspace --no-fail-fast --offline` passes with the patch; demo.sh passes without it",
        "verdict": verdict,
    },
    "demonstration": "the author's demo: in a worktree of /repo with the patch applied, copy this directory to "
                     "<worktree>/_out/<mN>/ and run `bash _out/<mN>/demo.sh` from the worktree root (exit 0 = property "
                     "holds for the demonstration input, non-zero = violated)",
    "checked_with": "tools/muttest.py <patch> <checks> (quick tier, private mount namespace)",
    "caught_by": caught,
}
json.dump(meta, open(os.path.join(dst, "meta.json"), "w"), indent=1)
print("kept", dst)
