#!/usr/bin/env python3
"""Detection matrix: runs tools/muttest.py for every listed seeded change against the listed checks,
N at a time, and appends the result lines (with the '### <dir>/patch.diff' headers that
tools/collect_seeded.py reads) to work/muttest_final.log.
   tools/matrix.py [-j N] <Cxx-mK[:Cyy,Czz]> ...     (default check: the change's own property)"""
import subprocess, sys, threading, queue, os
args = sys.argv[1:]
jobs = 3
if args and args[0] == "-j":
    jobs = int(args[1]); args = args[2:]
q = queue.Queue()
for a in args:
    sid, _, checks = a.partition(":")
    prop, m = sid.split("-")
    d = f"/verif/seeded/{sid}" if os.path.exists(f"/verif/seeded/{sid}/patch.diff") else f"/tmp/mut/{prop}/_out/{m}"
    q.put((d, (checks.split(",") if checks else [prop])))
lock = threading.Lock()
def worker():
    while True:
        try:
            d, checks = q.get_nowait()
        except queue.Empty:
            return
        p = subprocess.run(["python3", "/verif/tools/muttest.py", d + "/patch.diff"] + checks, capture_output=True, text=True, cwd="/verif")
        with lock, open("/verif/work/muttest_final.log", "a") as f:
            f.write(f"### {d}/patch.diff\n" + p.stdout + ("" if p.stdout.endswith("\n") else "\n"))
            if p.returncode not in (0,):
                f.write(f"# muttest rc={p.returncode} {p.stderr[-300:]}\n")
ts = [threading.Thread(target=worker) for _ in range(jobs)]
[t.start() for t in ts]; [t.join() for t in ts]
