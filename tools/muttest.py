#!/usr/bin/env python3
"""Run checks against a seeded change without touching /repo:
   tools/muttest.py <patch.diff> <Cxx> [<Cyy> ...] [--tier quick|thorough] [--keep]
A scratch worktree of /repo's HEAD gets the patch and is bind-mounted over /repo inside a private
mount namespace, together with private work/evidence/replays directories, so concurrent work in
/repo and /verif is not disturbed.  Prints one line per check: id, exit status, first VIOLATION."""
import os
import shutil
import subprocess
import sys
import time

def main():
    args = [a for a in sys.argv[1:] if not a.startswith("--")]
    tier = "quick"
    if "--tier" in sys.argv:
        tier = sys.argv[sys.argv.index("--tier") + 1]
        args.remove(tier)
    patch = os.path.abspath(args[0])
    checks = args[1:]
    name = "m%d" % os.getpid()
    base = "/tmp/mutrun"
    os.makedirs(base, exist_ok=True)
    wt = os.path.join(base, name)
    priv = os.path.join(base, name + "_priv")
    subprocess.run(["git", "-C", "/repo", "worktree", "add", "-q", "--detach", wt, "HEAD"], check=True)
    try:
        r = subprocess.run(["git", "-C", wt, "apply", patch], capture_output=True, text=True)
        if r.returncode != 0:
            print("PATCH DOES NOT APPLY:", r.stderr[:500])
            return 2
        for d in ("work", "evidence", "replays"):
            os.makedirs(os.path.join(priv, d), exist_ok=True)
        # reuse the already built dependency artefacts to save time
        for t in ("target-harness", "target-cli"):
            src = os.path.join("/verif/work", t)
            if os.path.isdir(src) and "--cold" not in sys.argv:
                subprocess.run(["cp", "-a", "--reflink=auto", src, os.path.join(priv, "work", t)], check=False)
        rc_all = 0
        for c in checks:
            t0 = time.time()
            script = (f"mount --bind {wt} /repo && mount --bind {priv}/work /verif/work && "
                      f"mount --bind {priv}/evidence /verif/evidence && mkdir -p /verif/replays && "
                      f"mount --bind {priv}/replays /verif/replays && cd /verif && ./check {c} --tier {tier}")
            p = subprocess.run(["unshare", "-m", "bash", "-c", script], capture_output=True, text=True)
            out = p.stdout + p.stderr
            viol = [l for l in out.splitlines() if l.startswith("VIOLATION")]
            first = ""
            if viol:
                i = out.splitlines().index(viol[0])
                first = " | ".join(out.splitlines()[i:i + 2])[:400]
            tool = [l for l in out.splitlines() if l.startswith("TOOL-ERROR")]
            print(f"{c}: exit={p.returncode} violations={len(viol)} wall={time.time()-t0:.0f}s {first} {tool[:1]}")
            sys.stdout.flush()
            if "--show" in sys.argv:
                print(out[-3000:])
    finally:
        if "--keep" not in sys.argv:
            subprocess.run(["git", "-C", "/repo", "worktree", "remove", "--force", wt])
            shutil.rmtree(priv, ignore_errors=True)
    return 0

if __name__ == "__main__":
    sys.exit(main())
