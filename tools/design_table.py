#!/usr/bin/env python3
"""Regenerates the table of seeded changes in DESIGN.md (between the SEEDED-TABLE markers) from
/verif/seeded/INDEX.json and the strengthening notes below."""
import json
import re

# what had to be added to the machinery before the change was caught (empty: caught as built)
NOTES = {
    "C02-m7": "C02 first missed it (C07 mode `shared` and C11 caught it as built): `obj` part 5 of MC_Sem - an object with assertions used on its own first, then extended",
    "C13-m7": "first missed (programs without a directory were outside the decided domain): family `virt` (-e / standard input) in Imports.tla",
    "C10-m7": "as built (same mechanism as C10-m2, found again independently)",
    "C11-m7": "as built (same mechanism as C11-m1, found again independently)",
    "C01-m1": "C01 first missed (no ill-formed UTF-8 inside string bodies): universe `utf8` added",
    "C01-m2": "C01 first missed: universe `fmt` (directive x flag x width/precision x argument list) added",
    "C01-m3": "C01 first missed: universe `scope` (the static-analysis universe of MC_Static evaluated through the pipeline) added; C09 caught it as built",
    "C01-m4": "C01 first missed: every other std call now has its result ordered, sorted and printed; C06 caught it as built",
    "C02-m1": "C02 universe has no object that is extended twice from one shared value: caught by C07 mode `shared`",
    "C02-m4": "first caught only by C18; non-ASCII strings with negative slice bounds added to the `str` slice of MC_Sem",
    "C03-m4": "first missed (heaps were shallow): deep live chains through the binary (`cli_deep_part`) added",
    "C04-m1": "first missed: object bodies with computed names and std.trace in object locals added to the trace programs",
    "C04-m2": "first missed: std.sort / keyF on one-element arrays with a failing / traced element added (Sem: arrays of <= 1 element are returned untouched)",
    "C04-m4": "multi-file; caught by C13 (load once), not by C04 (single-source programs)",
    "C05-m2": "first missed: integral doubles at and beyond 2^53 / 1e19 / 1e21 added to the number grid",
    "C05-m3": "first missed: spelling of a visible field that replaces a removed hidden definition added to the value renderer; C07 caught it as built",
    "C05-m4": "first missed: keys needing quotes as ANCESTORS of nested tables / arrays of tables added (`NestedKeyVals`)",
    "C06-m4": "caught by the 0/1/9 literal shapes; literals at / next to midpoints of adjacent doubles (exact rational oracle) added as well",
    "C08-m2": "first missed: arrays that share the very same element thunks (`local a = [..]; [a[0], x] < [a[0], y]`) added",
    "C10-m1": "first missed: law DepthBound and more recursion families (equality of nested arrays, cyclic values) added to Depth.tla",
    "C10-m2": "first missed: recursion family through `+:` super fields added",
    "C10-m4": "first missed: deep live heaps through the binary (same part as C03-m4)",
    "C11-m1": "first missed: requests failing with every error kind and calls given as source text (`callsrc`) added to the history pool; restored thunks in Trace_Machine",
    "C11-m3": "first missed: Session-level histories (front-end import resolution and caches, case kind `sess`) added",
    "C11-m4": "first missed: pool sources deriving several objects from one shared value through std.objectRemoveKey",
    "C12-m2": "first missed: `var=` (empty value) for every ext/tla flag added to the Cli universe",
    "C12-m4": "first caught only by C16 (trace cropping); `--max-trace 0/1/2/7` now drawn in C12",
    "C13-m3": "first missed: the same import spelling resolved from different directories (`PairsPartD`)",
    "C13-m4": "first missed: a -J directory given twice with another one in between",
    "C14-m4": "first caught only by C16 (span table); law `LawStretchR` in Lex.tla + tokens of 2^25 / 2^26 bytes through the real lexer added",
    "C15-m4": "first caught only by C16; layouts with one huge separator (nodes of 2^25 / 2^26 bytes) added",
    "C17-m3": "first missed: equal keys in two spellings (0 / -0) added (`AltTab`, law `LawAltTab`)",
    "C17-m4": "first missed: the empty array as a key added",
    "C19-m4": "first missed (negative fraction under %x was undecided): the result must now be that of the truncated or of the floored argument",
    "C01-m5": "C01 as built; C20 first missed it: base64 input whose BYTE length (not character count) is a multiple of four added to the Codec universe",
    "C01-m6": "same mechanism as C03-m4; C01 first missed it (C03 / C10 caught it): the deep-live-heap part is now shared with C01",
    "C02-m5": "first missed: four-parameter functions with every mix of positional and named arguments added to the `func` slice",
    "C02-m6": "first missed: `$` in nested literals extended by objects defined outside the object added to the `obj` slice",
    "C03-m5": "first missed: temporaries held only on the evaluator's stacks while other work runs (`temporaries()`)",
    "C04-m6": "caught by C06 only (the overflow check of a literal belongs to C06; Sem's numbers are small integers)",
    "C05-m5": "number-like YAML keys with two signs were added on reading the change, before the first try",
    "C10-m6": "families with `tailstrict` calls in non-tail positions were added on reading the change, before the first try",
    "C11-m6": "first missed: a collection while only the request's value is held (`hold_gc`) and a call returning a fresh self-referential object",
    "C12-m6": "first missed: the same name as an external variable and as a top-level argument (kinds `tla_ext_same*`)",
    "C13-m5": "first missed: the command-line route of code files added to Imports.tla (family `codefile`)",
    "C07-m2": "caught as built by one sampled program; after later universe changes the sample no longer contained it: the shared mode was split into single-bracketing variants (`sharedA`, `sharedB`) so that a fault of one bracketing cannot be masked by the other one failing the same way",
    "C11-m2": "first missed: pool objects with only asserts / only locals, extended after a first request; later lost from the seeded sample of length-3 histories: histories that evaluate the parts and then combine them are now never sampled away",
    "C06-m6": "caught by a single case (`f` x 256); digit strings exactly half-way between two doubles up to the 1024-bit boundary added (`RadixTie`)",
    "C19-m6": "first missed: the value invariant for more than 53 bits had a tolerance of 2^-50; the numeral must now read back as the value, and the plain directives on extreme values are never sampled away",
    "C16-m6": "two-label diagnostics whose first definition follows locals / asserts were added on reading the change, before the first try",
    "C08-m5": "numbers at the edges of the double grid (whole numbers beyond 2^63, neighbours of 1 and 2^53) were added to Values on reading the change, before the first try",
    "C08-m6": "see C08-m5",
    "C09-m5": "object locals referring to later locals (contexts 41-44) were added on reading the change, before the first try",
    "C20-m5": "characters whose low byte is a base64 character were added on reading the change, before the first try",
    "C20-m6": "escaped surrogate pairs beyond plane 1 were added on reading the change, before the first try",
    "C20-m2": "first missed: digit strings with leading zeros longer than the accumulator width added",
}


def main():
    idx = json.load(open("/verif/seeded/INDEX.json"))
    rows = ["| change | what it does (one line) | caught by | strengthening needed |", "|---|---|---|---|"]
    for e in idx:
        summ = " ".join(e["summary"].split())
        summ = re.sub(r"\|", "/", summ)[:150]
        rows.append(f"| {e['id']} | {summ} | {', '.join(e['caught_by']) or '**none**'} | {NOTES.get(e['id'], '')} |")
    table = "\n".join(rows)
    p = "/verif/DESIGN.md"
    s = open(p).read()
    a, b = "<!-- SEEDED-TABLE-BEGIN -->", "<!-- SEEDED-TABLE-END -->"
    assert a in s and b in s
    s = s[:s.index(a) + len(a)] + "\n" + table + "\n" + s[s.index(b):]
    open(p, "w").write(s)
    print(f"{len(idx)} rows")


if __name__ == "__main__":
    main()
