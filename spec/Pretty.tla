------------------------------- MODULE Pretty -------------------------------
(* Prints the AST of Sem.tla as Jsonnet source text (a TLC string), fully   *)
(* parenthesised so that no precedence knowledge is needed (precedence is   *)
(* the subject of Syntax.tla / C15).                                        *)
EXTENDS Integers, Sequences, TLC

CharTab == <<" ", "!", "\"", "#", "$", "%", "&", "'", "(", ")", "*", "+", ",", "-", ".", "/",
             "0", "1", "2", "3", "4", "5", "6", "7", "8", "9", ":", ";", "<", "=", ">", "?",
             "@", "A", "B", "C", "D", "E", "F", "G", "H", "I", "J", "K", "L", "M", "N", "O",
             "P", "Q", "R", "S", "T", "U", "V", "W", "X", "Y", "Z", "[", "\\", "]", "^", "_",
             "`", "a", "b", "c", "d", "e", "f", "g", "h", "i", "j", "k", "l", "m", "n", "o",
             "p", "q", "r", "s", "t", "u", "v", "w", "x", "y", "z", "{", "|", "}", "~">>

HexTab == <<"0", "1", "2", "3", "4", "5", "6", "7", "8", "9", "a", "b", "c", "d", "e", "f">>
Hex4(n) == HexTab[((n \div 4096) % 16) + 1] \o HexTab[((n \div 256) % 16) + 1] \o HexTab[((n \div 16) % 16) + 1] \o HexTab[(n % 16) + 1]
\* printable ASCII as itself; everything else as \uXXXX (a surrogate pair above U+FFFF), so that the
\* implementation sees the real character whatever the encoding of the tool chain
Chr(c) == IF c = 34 THEN "\\\"" ELSE IF c = 92 THEN "\\\\"
          ELSE IF c >= 32 /\ c <= 126 THEN CharTab[c - 31]
          ELSE IF c < 65536 THEN "\\u" \o Hex4(c)
          ELSE "\\u" \o Hex4(55296 + ((c - 65536) \div 1024)) \o "\\u" \o Hex4(56320 + ((c - 65536) % 1024))

RECURSIVE CpsText(_)
CpsText(cps) == IF cps = <<>> THEN "" ELSE Chr(Head(cps)) \o CpsText(Tail(cps))

StrLit(cps) == "\"" \o CpsText(cps) \o "\""

RECURSIVE P(_)
RECURSIVE PList(_, _)
RECURSIVE PMembers(_)
RECURSIVE PSpecs(_)
RECURSIVE PParams(_)
RECURSIVE PBinds(_)
RECURSIVE PNamed(_)
RECURSIVE PArgs(_)

PList(es, sep) ==
  IF es = <<>> THEN "" ELSE IF Len(es) = 1 THEN P(es[1]) ELSE P(es[1]) \o sep \o PList(Tail(es), sep)

Atomic(e) == e[1] \in {"null", "true", "false", "num", "str", "var", "self", "dollar", "arr", "obj",
                        "objcomp", "arrcomp", "superf", "superi", "std", "call", "callx", "index", "field", "slice"}
W(e) == IF Atomic(e) THEN P(e) ELSE "(" \o P(e) \o ")"

PBinds(bs) ==
  IF bs = <<>> THEN ""
  ELSE bs[1][1] \o " = " \o P(bs[1][2]) \o (IF Len(bs) = 1 THEN "" ELSE ", " \o PBinds(Tail(bs)))

PParams(ps) ==
  IF ps = <<>> THEN ""
  ELSE ps[1][1] \o (IF ps[1][2] = <<"nodef">> THEN "" ELSE " = " \o P(ps[1][2]))
       \o (IF Len(ps) = 1 THEN "" ELSE ", " \o PParams(Tail(ps)))

PNamed(ns) ==
  IF ns = <<>> THEN ""
  ELSE ns[1][1] \o " = " \o P(ns[1][2]) \o (IF Len(ns) = 1 THEN "" ELSE ", " \o PNamed(Tail(ns)))

PArgs(as) ==
  IF as = <<>> THEN ""
  ELSE (IF as[1][1] = "pos" THEN P(as[1][2]) ELSE as[1][2] \o " = " \o P(as[1][3]))
       \o (IF Len(as) = 1 THEN "" ELSE ", " \o PArgs(Tail(as)))

VisTok(v, plus) == (IF plus THEN "+" ELSE "") \o (CASE v = "d" -> ":" [] v = "h" -> "::" [] v = "v" -> ":::")

PMember(m) ==
  CASE m[1] = "fld" ->
         (IF m[2][1] = "id" THEN m[2][2]
          ELSE IF m[2][1] = "strname" THEN StrLit(m[2][2])
          ELSE "[" \o P(m[2][2]) \o "]") \o VisTok(m[3], m[4]) \o " " \o P(m[5])
    [] m[1] = "olocal" -> "local " \o m[2] \o " = " \o P(m[3])
    [] m[1] = "oassert" -> "assert " \o P(m[2]) \o (IF m[3] = <<"none">> THEN "" ELSE " : " \o P(m[3]))

PMembers(ms) ==
  IF ms = <<>> THEN "" ELSE PMember(ms[1]) \o (IF Len(ms) = 1 THEN "" ELSE ", " \o PMembers(Tail(ms)))

PSpecs(ss) ==
  IF ss = <<>> THEN ""
  ELSE (IF ss[1][1] = "for" THEN " for " \o ss[1][2] \o " in " \o W(ss[1][3]) ELSE " if " \o W(ss[1][2]))
       \o PSpecs(Tail(ss))

P(e) ==
  CASE e[1] = "null" -> "null"
    [] e[1] = "true" -> "true"
    [] e[1] = "false" -> "false"
    [] e[1] = "num" -> ToString(e[2])
    [] e[1] = "str" -> StrLit(e[2])
    [] e[1] = "var" -> e[2]
    [] e[1] = "self" -> "self"
    [] e[1] = "dollar" -> "$"
    [] e[1] = "local" -> "local " \o PBinds(e[2]) \o "; " \o P(e[3])
    [] e[1] = "if" -> "if " \o P(e[2]) \o " then " \o P(e[3]) \o " else " \o P(e[4])
    [] e[1] = "if2" -> "if " \o P(e[2]) \o " then " \o P(e[3])
    [] e[1] = "bin" -> W(e[3]) \o " " \o e[2] \o " " \o W(e[4])
    [] e[1] = "un" -> e[2] \o W(e[3])
    [] e[1] = "arr" -> "[" \o PList(e[2], ", ") \o "]"
    [] e[1] = "index" -> W(e[2]) \o "[" \o P(e[3]) \o "]"
    [] e[1] = "field" -> (IF e[2][1] = "num" THEN "(" \o P(e[2]) \o ")" ELSE W(e[2])) \o "." \o e[3]
    [] e[1] = "slice" ->
         LET o(x) == IF x = <<"none">> THEN "" ELSE P(x) IN
         W(e[2]) \o "[" \o o(e[3]) \o " : " \o o(e[4]) \o " : " \o o(e[5]) \o "]"
    [] e[1] = "func" -> "function(" \o PParams(e[2]) \o ") " \o P(e[3])
    [] e[1] = "call" ->
         W(e[2]) \o "(" \o PList(e[3], ", ")
           \o (IF e[3] # <<>> /\ e[4] # <<>> THEN ", " ELSE "") \o PNamed(e[4]) \o ")"
           \o (IF e[5] THEN " tailstrict" ELSE "")
    [] e[1] = "obj" -> "{" \o PMembers(e[2]) \o "}"
    [] e[1] = "objcomp" ->
         "{" \o (IF e[4] = <<>> THEN "" ELSE PMembers(e[4]) \o ", ")
             \o "[" \o P(e[2]) \o "]: " \o P(e[3]) \o PSpecs(e[5]) \o "}"
    [] e[1] = "arrcomp" -> "[" \o W(e[2]) \o PSpecs(e[3]) \o "]"
    [] e[1] = "superf" -> "super." \o e[2]
    [] e[1] = "superi" -> "super[" \o P(e[2]) \o "]"
    [] e[1] = "insuper" -> W(e[2]) \o " in super"
    [] e[1] = "error" -> "error " \o W(e[2])
    [] e[1] = "assert" -> "assert " \o P(e[2]) \o (IF e[3] = <<"none">> THEN "" ELSE " : " \o P(e[3]))
                           \o "; " \o P(e[4])
    [] e[1] = "std" -> "std." \o e[2] \o "(" \o PList(e[3], ", ") \o ")"
    [] e[1] = "callx" -> W(e[2]) \o "(" \o PArgs(e[3]) \o ")"
    [] e[1] = "import" -> e[2] \o " " \o (IF e[3][1] \in {"str", "textblock"} THEN P(e[3]) ELSE W(e[3]))
    [] e[1] = "textblock" -> "|||\n  " \o CpsText(e[2]) \o "\n|||"
=============================================================================
