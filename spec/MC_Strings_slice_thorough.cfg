CONSTANT Group = "slice"
CONSTANT MaxLen = 4
INIT Init
NEXT Next
INVARIANTS Laws Emit
CHECK_DEADLOCK FALSE
