CONSTANT Mode = "arr"
CONSTANT MaxLen = 2
CONSTANT Extended = TRUE
INIT Init
NEXT Next
INVARIANTS Laws Gate Emit
CHECK_DEADLOCK FALSE
