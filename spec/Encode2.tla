------------------------------ MODULE Encode2 ------------------------------
(***************************************************************************)
(* Reference level for property C05, second part: the text-producing       *)
(* members of the standard library that Encode.tla does not define.        *)
(*                                                                         *)
(* Sources (NOT the Rust code): upstream std.jsonnet.                      *)
(*                                                                         *)
(*  manifestIni(ini)::                                                     *)
(*    local body_lines(body) = std.join([], [                              *)
(*        local value_or_values = body[k];                                 *)
(*        if std.isArray(value_or_values)                                  *)
(*        then ['%s = %s' % [k, value] for value in value_or_values]       *)
(*        else ['%s = %s' % [k, value_or_values]]                          *)
(*        for k in std.objectFields(body)]);                               *)
(*    local section_lines(sname, sbody) = ['[%s]' % [sname]] + body_lines(sbody), *)
(*      main_body = if std.objectHas(ini, 'main') then body_lines(ini.main) else [], *)
(*      all_sections = [section_lines(k, ini.sections[k])                  *)
(*                      for k in std.objectFields(ini.sections)];          *)
(*    std.join('\n', main_body + std.flattenArrays(all_sections) + ['']),  *)
(*   (%s = std.toString; std.objectHas / std.objectFields see VISIBLE      *)
(*    fields only, `ini.sections` reads a field of any visibility)         *)
(*                                                                         *)
(*  manifestXmlJsonml(value)::                                             *)
(*    if !std.isArray(value) then error ... else                           *)
(*    local aux(v) = if std.isString(v) then v else                        *)
(*        local tag = v[0];                                                *)
(*        local has_attrs = std.length(v) > 1 && std.isObject(v[1]);       *)
(*        local attrs = if has_attrs then v[1] else {};                    *)
(*        local children = if has_attrs then v[2:] else v[1:];             *)
(*        local attrs_str = std.join('', [' %s="%s"' % [k, attrs[k]]       *)
(*                                        for k in std.objectFields(attrs)]); *)
(*        std.deepJoin(['<', tag, attrs_str, '>', [aux(x) for x in children], *)
(*                      '</', tag, '>']);                                  *)
(*    aux(value),                                                          *)
(*   (NOTHING is escaped: neither text nor attribute values nor names)     *)
(*                                                                         *)
(*  manifestYamlStream(value, indent_array_in_object=false,                *)
(*                     c_document_end=true, quote_keys=true)::             *)
(*    if !std.isArray(value) then error ... else                           *)
(*    '---\n' + std.join('\n---\n', [std.manifestYamlDoc(e, indent_array_in_object, quote_keys) *)
(*                                   for e in value])                      *)
(*            + if c_document_end then '\n...\n' else '\n',                *)
(*                                                                         *)
(*  deepJoin(arr):: if std.isString(arr) then arr                          *)
(*    else if std.isArray(arr) then std.join('', [std.deepJoin(x) for x in arr]) *)
(*    else error ...,                                                      *)
(*  lines(arr):: std.join('\n', arr + ['']),                               *)
(*   (std.join skips null elements; any other non-string element is an     *)
(*    error; the separator goes between the elements that are kept)        *)
(*  equalsIgnoreCase(str1, str2):: std.asciiLower(str1) == std.asciiLower(str2), *)
(*  resolvePath(f, r):: local arr = std.split(f, '/');                     *)
(*    std.join('/', std.makeArray(std.length(arr) - 1, function(i) arr[i]) + [r]), *)
(*  isEmpty(str):: std.length(str) == 0,                                   *)
(*   (std.length: characters of a string, elements of an array, VISIBLE    *)
(*    fields of an object, parameters of a function; an error otherwise)   *)
(*  objectKeysValuesAll(o):: [{key: k, value: o[k]} for k in std.objectFieldsAll(o)], *)
(*                                                                         *)
(* std.trim is defined in Strings.tla, std.objectKeysValues by the Sem     *)
(* builtins; they are not repeated here.                                   *)
(*                                                                         *)
(* Results (a function applied to values of Values.tla):                   *)
(*   [r |-> "text",  t |-> code points]   the string that is returned      *)
(*   [r |-> "value", v |-> value]         a non-string result              *)
(*   [r |-> "error"]                      evaluation fails (never a document) *)
(*   [r |-> "outside", why |-> ...]       not decided (upstream is loose)  *)
(***************************************************************************)
EXTENDS Encode

RText(t) == [r |-> "text", t |-> t]
RValue(v) == [r |-> "value", v |-> v]
RErr == [r |-> "error"]
ROut(w) == [r |-> "outside", why |-> w]

\* concatenation of partial results: not decided if any part is not decided, a text if every
\* part is a text, otherwise an error
Combine(rs) ==
  IF \E i \in 1..Len(rs) : rs[i].r = "outside"
  THEN rs[CHOOSE i \in 1..Len(rs) : rs[i].r = "outside" /\ \A j \in 1..(i - 1) : rs[j].r # "outside"]
  ELSE IF \A i \in 1..Len(rs) : rs[i].r = "text" THEN RText(Flat([i \in 1..Len(rs) |-> rs[i].t]))
  ELSE RErr

\* '%s' % [v] : std.toString of a value that can be manifested
ToStr(v) == IF Manifestable(v) THEN RText(ToStringText(v)) ELSE RErr

\* index of the field named k (any visibility), 0 if there is none
FieldOf(o, k) == LET S == {i \in 1..Len(o.f) : o.f[i].k = k} IN IF S = {} THEN 0 ELSE CHOOSE i \in S : TRUE

\* first position of pat in s, 0 if it does not occur
FindSub(s, pat) ==
  LET S == {i \in 1..(Len(s) - Len(pat) + 1) : SubSeq(s, i, i + Len(pat) - 1) = pat}
  IN IF S = {} THEN 0 ELSE CHOOSE i \in S : \A j \in S : i <= j
Has(s, c) == \E i \in 1..Len(s) : s[i] = c

RECURSIVE SplitOn(_, _)                       \* std.split(s, sep), sep non-empty
SplitOn(s, sep) ==
  LET i == FindSub(s, sep) IN
  IF i = 0 THEN <<s>> ELSE <<SubSeq(s, 1, i - 1)>> \o SplitOn(SubSeq(s, i + Len(sep), Len(s)), sep)

Lower(s) == [i \in 1..Len(s) |-> IF s[i] >= 65 /\ s[i] <= 90 THEN s[i] + 32 ELSE s[i]]

(***************************************************************************)
(* 1. std.manifestIni                                                      *)
(***************************************************************************)
KMain == <<109, 97, 105, 110>>
KSections == <<115, 101, 99, 116, 105, 111, 110, 115>>
KvSep == <<32, 61, 32>>                                              \* " = "

IniKv(k, x) == LET s == ToStr(x) IN IF s.r = "text" THEN RText(k \o KvSep \o s.t \o <<LF>>) ELSE RErr
\* one key: one line, or one line per element when the value is an array
IniItem(k, x) == IF x.t = "arr" THEN Combine([i \in 1..Len(x.a) |-> IniKv(k, x.a[i])]) ELSE IniKv(k, x)
IniBody(b) ==
  IF b.t # "obj" THEN RErr
  ELSE LET vis == Visible(b) IN Combine([i \in 1..Len(vis) |-> IniItem(vis[i].k, vis[i].v)])

IniHasMain(ini) == LET i == FieldOf(ini, KMain) IN i # 0 /\ ~ini.f[i].h       \* std.objectHas

ManifestIni(ini) ==
  IF ini.t # "obj" THEN RErr
  ELSE LET is == FieldOf(ini, KSections) IN
    IF is = 0 THEN RErr
    ELSE LET secs == ini.f[is].v
             mainR == IF IniHasMain(ini) THEN IniBody(ini.f[FieldOf(ini, KMain)].v) ELSE RText(<<>>)
         IN IF secs.t # "obj" THEN RErr
            ELSE LET vis == Visible(secs)
                     secR == [i \in 1..Len(vis) |->
                                Combine(<<RText(<<91>> \o vis[i].k \o <<93, LF>>), IniBody(vis[i].v)>>)]
                 IN Combine(<<mainR>> \o secR)

\* ---- what an INI reader is expected to find (defined when ManifestIni gives a text)
IniPairsOfItem(k, x) ==
  IF x.t = "arr" THEN [i \in 1..Len(x.a) |-> <<k, ToStr(x.a[i]).t>>] ELSE << <<k, ToStr(x).t>> >>
IniPairs(b) == LET vis == Visible(b) IN Flat([i \in 1..Len(vis) |-> IniPairsOfItem(vis[i].k, vis[i].v)])
IniModel(ini) ==
  LET vis == Visible(ini.f[FieldOf(ini, KSections)].v) IN
  [main |-> IF IniHasMain(ini) THEN IniPairs(ini.f[FieldOf(ini, KMain)].v) ELSE <<>>,
   secs |-> [i \in 1..Len(vis) |-> [n |-> vis[i].k, kv |-> IniPairs(vis[i].v)]]]

\* ---- a line-oriented INI reader: "[name]" opens a section, "key = value" adds a pair
RECURSIVE LinesFrom(_, _, _)
LinesFrom(t, p, cur) ==
  IF p > Len(t) THEN (IF cur = <<>> THEN <<>> ELSE << cur \o <<-1>> >>)      \* -1: unterminated last line
  ELSE IF t[p] = LF THEN <<cur>> \o LinesFrom(t, p + 1, <<>>)
  ELSE LinesFrom(t, p + 1, Append(cur, t[p]))
LfLines(t) == LinesFrom(t, 1, <<>>)

IsHeaderLine(l) == Len(l) >= 2 /\ l[1] = 91 /\ l[Len(l)] = 93
RECURSIVE IniReadLines(_, _, _)
IniReadLines(ls, main, secs) ==
  IF ls = <<>> THEN [ok |-> TRUE, main |-> main, secs |-> secs]
  ELSE LET l == Head(ls) IN
    IF IsHeaderLine(l)
    THEN IniReadLines(Tail(ls), main, Append(secs, [n |-> SubSeq(l, 2, Len(l) - 1), kv |-> <<>>]))
    ELSE LET i == FindSub(l, KvSep) IN
      IF i = 0 THEN [ok |-> FALSE]
      ELSE LET pr == <<SubSeq(l, 1, i - 1), SubSeq(l, i + Len(KvSep), Len(l))>> IN
        IF secs = <<>> THEN IniReadLines(Tail(ls), Append(main, pr), secs)
        ELSE IniReadLines(Tail(ls), main, [secs EXCEPT ![Len(secs)].kv = Append(@, pr)])
IniRead(t) == IniReadLines(LfLines(t), <<>>, <<>>)

\* ---- the decided domain of the reading law (also the domain in which python's configparser,
\* configured with delimiters ("=",), comment prefixes ("#", ";"), no inline comments, no
\* interpolation, case-preserving option names, is required to read the document back):
\*   every character of a key, a value text and a section name is >= U+0020, not U+007F-U+009F and
\*   not U+2028/U+2029 (no line break, no control character);
\*   a key is non-empty, has no white space at either end, contains no "=", does not start with
\*   "#", ";" or "[";
\*   a value text has no white space at either end (it may be empty);
\*   a section name is non-empty, has no white space at either end and contains no "]".
PyWs == {9, 10, 11, 12, 13, 28, 29, 30, 31, 32, 133, 160, 5760, 8232, 8233, 8239, 8287, 12288} \cup (8192..8202)
PlainCp(c) == c >= 32 /\ ~(c >= 127 /\ c <= 159) /\ c # 8232 /\ c # 8233
PlainText(s) == (\A i \in 1..Len(s) : PlainCp(s[i])) /\ (s = <<>> \/ (s[1] \notin PyWs /\ s[Len(s)] \notin PyWs))
IniKeyOk(k) == k # <<>> /\ PlainText(k) /\ ~Has(k, 61) /\ k[1] \notin {35, 59, 91}
IniSecOk(n) == n # <<>> /\ PlainText(n) /\ ~Has(n, 93)
IniPairsOk(ps) == \A i \in 1..Len(ps) : IniKeyOk(ps[i][1]) /\ PlainText(ps[i][2])
IniDomain(ini) ==
  LET m == IniModel(ini) IN
  /\ IniPairsOk(m.main)
  /\ \A i \in 1..Len(m.secs) : IniSecOk(m.secs[i].n) /\ IniPairsOk(m.secs[i].kv)

IniLineCount(m) == Len(m.main) + Len(m.secs) + SumSeq([i \in 1..Len(m.secs) |-> Len(m.secs[i].kv)])

IniNoLf(m) == /\ \A i \in 1..Len(m.main) : ~Has(m.main[i][1], LF) /\ ~Has(m.main[i][2], LF)
              /\ \A i \in 1..Len(m.secs) :
                   /\ ~Has(m.secs[i].n, LF)
                   /\ \A j \in 1..Len(m.secs[i].kv) : ~Has(m.secs[i].kv[j][1], LF) /\ ~Has(m.secs[i].kv[j][2], LF)

LawIni(ini) ==
  LET res == ManifestIni(ini) IN
  res.r = "text" =>
    LET m == IniModel(ini)
        ls == LfLines(res.t)
    IN \* a sequence of LF-terminated lines, one per section and per (key, value) pair
       /\ IniNoLf(m) => Len(ls) = IniLineCount(m)
       /\ Len(ls) >= IniLineCount(m)
       /\ (res.t = <<>> \/ res.t[Len(res.t)] = LF)
       /\ IniDomain(ini) =>
            LET d == IniRead(res.t) IN
            /\ d.ok
            /\ d.main = m.main
            /\ Len(d.secs) = Len(m.secs)
            /\ \A i \in 1..Len(m.secs) : d.secs[i].n = m.secs[i].n /\ d.secs[i].kv = m.secs[i].kv

(***************************************************************************)
(* 2. std.manifestXmlJsonml                                                *)
(***************************************************************************)
XmlAttrs(o) ==
  LET vis == Visible(o) IN
  Combine([i \in 1..Len(vis) |->
             LET s == ToStr(vis[i].v) IN
             IF s.r = "text" THEN RText(<<32>> \o vis[i].k \o <<61, 34>> \o s.t \o <<34>>) ELSE RErr])

XmlHasAttrs(v) == Len(v.a) > 1 /\ v.a[2].t = "obj"
XmlKids(v) == IF XmlHasAttrs(v) THEN SubSeq(v.a, 3, Len(v.a)) ELSE Tail(v.a)

RECURSIVE XmlAux(_)
XmlAux(v) ==
  IF v.t = "str" THEN RText(v.c)
  ELSE IF v.t # "arr" THEN RErr                       \* v[0] of a non-array
  ELSE IF v.a = <<>> THEN RErr                        \* v[0] out of bounds
  ELSE LET tag == v.a[1]
           kids == XmlKids(v)
       IN IF tag.t = "arr" THEN ROut("the tag is an array: upstream deep-joins it into the text")
          ELSE IF tag.t # "str" THEN RErr
          ELSE Combine(<< RText(<<60>> \o tag.c),
                          IF XmlHasAttrs(v) THEN XmlAttrs(v.a[2]) ELSE RText(<<>>),
                          RText(<<62>>),
                          Combine([i \in 1..Len(kids) |-> XmlAux(kids[i])]),
                          RText(<<60, 47>> \o tag.c \o <<62>>) >>)

ManifestXmlJsonml(v) == IF v.t # "arr" THEN RErr ELSE XmlAux(v)

\* ---- the JsonML tree an XML reader is expected to find: [tag, {attributes as strings}, children...]
\* with empty text dropped and adjacent text merged (defined when ManifestXmlJsonml gives a text)
RECURSIVE MergeText(_)
MergeText(ks) ==
  IF ks = <<>> THEN <<>>
  ELSE IF Head(ks).t # "str" THEN <<Head(ks)>> \o MergeText(Tail(ks))
  ELSE IF Head(ks).c = <<>> THEN MergeText(Tail(ks))
  ELSE LET rest == MergeText(Tail(ks)) IN
       IF rest # <<>> /\ Head(rest).t = "str" THEN <<Str(Head(ks).c \o Head(rest).c)>> \o Tail(rest)
       ELSE <<Head(ks)>> \o rest

RECURSIVE XmlNorm(_)
XmlNorm(v) ==
  IF v.t = "str" THEN v
  ELSE LET attrs == IF XmlHasAttrs(v) THEN Visible(v.a[2]) ELSE <<>>
           kids == XmlKids(v)
       IN Arr(<<v.a[1], Obj([i \in 1..Len(attrs) |-> Fld(attrs[i].k, FALSE, Str(ToStr(attrs[i].v).t))])>>
              \o MergeText([i \in 1..Len(kids) |-> XmlNorm(kids[i])]))

\* ---- XML 1.0 names (conservative: ASCII and Latin-1 letters), characters, and a reader for
\* the element / attribute / character-data subset without references
IsNameStart(c) == (c >= 65 /\ c <= 90) \/ (c >= 97 /\ c <= 122) \/ c = 95
                  \/ (c >= 192 /\ c <= 214) \/ (c >= 216 /\ c <= 246) \/ (c >= 248 /\ c <= 255)
IsNameChar(c) == IsNameStart(c) \/ (c >= 48 /\ c <= 57) \/ c = 45 \/ c = 46
IsXmlName(s) == s # <<>> /\ IsNameStart(s[1]) /\ \A i \in 2..Len(s) : IsNameChar(s[i])
XmlCharOk(c) == c \in {9, 10, 13} \/ (c >= 32 /\ c <= 55295) \/ (c >= 57344 /\ c <= 65533) \/ c >= 65536

XFail == [ok |-> FALSE]
RECURSIVE NameEnd(_, _)
NameEnd(t, p) == IF p <= Len(t) /\ IsNameChar(t[p]) THEN NameEnd(t, p + 1) ELSE p
RECURSIVE IndexFrom(_, _, _)                  \* first position >= p holding c, Len(t) + 1 if none
IndexFrom(t, p, c) == IF p > Len(t) \/ t[p] = c THEN p ELSE IndexFrom(t, p + 1, c)

RECURSIVE XAttrs(_, _, _)                     \* p: after the tag name; stops after ">"
XAttrs(t, p, acc) ==
  IF p > Len(t) THEN XFail
  ELSE IF t[p] = 62 THEN Ok(acc, p + 1)
  ELSE IF t[p] # 32 \/ p + 1 > Len(t) \/ ~IsNameStart(t[p + 1]) THEN XFail
  ELSE LET q == NameEnd(t, p + 1) IN
    IF ~HasAt(t, q, <<61, 34>>) THEN XFail
    ELSE LET e == IndexFrom(t, q + 2, 34)
             nm == SubSeq(t, p + 1, q - 1)
             val == SubSeq(t, q + 2, e - 1)
         IN IF e > Len(t) \/ Has(val, 60) \/ Has(val, 38) THEN XFail
            ELSE IF \E i \in 1..Len(acc) : acc[i].k = nm THEN XFail            \* duplicate attribute
            ELSE XAttrs(t, e + 1, Append(acc, Fld(nm, FALSE, Str(val))))

RECURSIVE XElem(_, _)
RECURSIVE XContent(_, _, _, _)
XElem(t, p) ==
  IF p + 1 > Len(t) \/ t[p] # 60 \/ ~IsNameStart(t[p + 1]) THEN XFail
  ELSE LET q == NameEnd(t, p + 1)
           tag == SubSeq(t, p + 1, q - 1)
           at == XAttrs(t, q, <<>>)
       IN IF ~at.ok THEN XFail ELSE XContent(t, at.p, tag, <<Str(tag), Obj(at.v)>>)
XContent(t, p, tag, acc) ==
  IF p > Len(t) THEN XFail
  ELSE IF HasAt(t, p, <<60, 47>>) THEN
    (LET close == <<60, 47>> \o tag \o <<62>> IN
     IF HasAt(t, p, close) THEN Ok(Arr(acc), p + Len(close)) ELSE XFail)
  ELSE IF t[p] = 60 THEN
    (LET c == XElem(t, p) IN IF ~c.ok THEN XFail ELSE XContent(t, c.p, tag, Append(acc, c.v)))
  ELSE LET e == IndexFrom(t, p, 60)
           txt == SubSeq(t, p, e - 1)
       IN IF Has(txt, 38) THEN XFail ELSE XContent(t, e, tag, Append(acc, Str(txt)))
XmlRead(t) == LET rd == XElem(t, 1) IN IF rd.ok /\ rd.p = Len(t) + 1 THEN [ok |-> TRUE, v |-> rd.v] ELSE XFail

\* ---- the decided domain of the reading law (also the domain in which python's
\* xml.etree.ElementTree is required to read the document back as the same tree):
\*   tags and attribute names are XML names (letters A-Z a-z _ and Latin-1 letters first, then also
\*   digits, "-", "."; no ":"), not starting with "xml" in any case;
\*   character data: XML characters without "<", "&", CR and without "]]>";
\*   attribute value texts: XML characters without "<", "&", the quotation mark, TAB, LF, CR.
XmlNameOk(s) == IsXmlName(s) /\ ~(Len(s) >= 3 /\ Lower(SubSeq(s, 1, 3)) = <<120, 109, 108>>)
XmlTextOk(s) == /\ \A i \in 1..Len(s) : XmlCharOk(s[i]) /\ s[i] \notin {60, 38, 13}
                /\ FindSub(s, <<93, 93, 62>>) = 0
XmlAttrValOk(s) == \A i \in 1..Len(s) : XmlCharOk(s[i]) /\ s[i] \notin {60, 38, 34, 9, 10, 13}
RECURSIVE XmlTreeOk(_)                        \* on the normal form
XmlTreeOk(n) ==
  IF n.t = "str" THEN XmlTextOk(n.c)
  ELSE /\ XmlNameOk(n.a[1].c)
       /\ \A i \in 1..Len(n.a[2].f) : XmlNameOk(n.a[2].f[i].k) /\ XmlAttrValOk(n.a[2].f[i].v.c)
       /\ \A i \in 3..Len(n.a) : XmlTreeOk(n.a[i])
XmlDomain(v) == XmlTreeOk(XmlNorm(v))

LawXml(v) ==
  LET res == ManifestXmlJsonml(v) IN
  res.r = "text" =>
    /\ res.t[1] = 60 /\ res.t[Len(res.t)] = 62
    /\ XmlDomain(v) => LET d == XmlRead(res.t) IN d.ok /\ d.v = XmlNorm(v)

(***************************************************************************)
(* 3. std.manifestYamlStream, as a function of the documents.              *)
(* In ManifestYamlStream the text of document i (std.manifestYamlDoc of    *)
(* item i with the same settings) is the place holder <<-i>>.              *)
(***************************************************************************)
YamlDocSep == <<LF, 45, 45, 45, LF>>
YamlStreamOf(docs, cde) ==
  <<45, 45, 45, LF>> \o JoinSeq(docs, YamlDocSep) \o (IF cde THEN <<LF, 46, 46, 46, LF>> ELSE <<LF>>)

ManifestYamlStream(v, cde) ==
  IF v.t # "arr" THEN RErr
  ELSE IF \E i \in 1..Len(v.a) : ~Manifestable(v.a[i]) THEN RErr
  ELSE RText(YamlStreamOf([i \in 1..Len(v.a) |-> <<-i>>], cde))

\* reader: the documents of a stream.  Decided when there is at least one document and no document
\* has a line "---" (an empty array of documents yields ONE empty document by the definition above).
YamlStreamSplit(t, cde) ==
  LET endm == IF cde THEN <<LF, 46, 46, 46, LF>> ELSE <<LF>>
      body == SubSeq(t, 5, Len(t) - Len(endm))
  IN IF HasAt(t, 1, <<45, 45, 45, LF>>) /\ Len(t) >= 4 + Len(endm) /\ HasAt(t, Len(t) - Len(endm) + 1, endm)
     THEN [ok |-> TRUE, docs |-> SplitOn(body, YamlDocSep)] ELSE [ok |-> FALSE]
YamlDocOk(d) == FindSub(<<LF>> \o d \o <<LF>>, YamlDocSep) = 0
LawYamlStream(docs, cde) ==
  LET t == YamlStreamOf(docs, cde)
      d == YamlStreamSplit(t, cde)
  IN /\ d.ok
     /\ (docs = <<>> => d.docs = << <<>> >>)
     /\ (docs # <<>> /\ (\A i \in 1..Len(docs) : YamlDocOk(docs[i]))) => d.docs = docs

(***************************************************************************)
(* 4. small text functions                                                 *)
(***************************************************************************)
RECURSIVE DeepJoin(_)
DeepJoin(v) ==
  IF v.t = "str" THEN RText(v.c)
  ELSE IF v.t = "arr" THEN Combine([i \in 1..Len(v.a) |-> DeepJoin(v.a[i])])
  ELSE RErr

\* the strings of a deep array in left-to-right order (defined when DeepJoin gives a text)
RECURSIVE Leaves(_)
Leaves(v) == IF v.t = "str" THEN <<v.c>> ELSE Flat([i \in 1..Len(v.a) |-> Leaves(v.a[i])])
LawDeepJoin(v) ==
  LET res == DeepJoin(v) IN
  /\ res.r = "text" => res.t = Flat(Leaves(v))
  /\ (v.t = "arr" /\ res.r = "text") => res.t = Flat([i \in 1..Len(v.a) |-> DeepJoin(v.a[i]).t])

LinesOf(v) ==
  IF v.t # "arr" THEN RErr
  ELSE IF \E i \in 1..Len(v.a) : v.a[i].t \notin {"str", "null"} THEN RErr
  ELSE LET ss == SelectSeq(v.a, LAMBDA x : x.t = "str") IN
       RText(JoinSeq([i \in 1..Len(ss) |-> ss[i].c] \o << <<>> >>, <<LF>>))
LawLines(v) ==
  LET res == LinesOf(v) IN
  res.r = "text" =>
    LET ss == SelectSeq(v.a, LAMBDA x : x.t = "str") IN
    \* every kept element followed by a line feed
    res.t = Flat([i \in 1..Len(ss) |-> ss[i].c \o <<LF>>])

EqualsIgnoreCase(x, y) ==
  IF x.t # "str" \/ y.t # "str" THEN RErr ELSE RValue(Bool(Lower(x.c) = Lower(y.c)))
LawEqIc(x, y) ==
  (x.t = "str" /\ y.t = "str") =>
    /\ EqualsIgnoreCase(x, y) = EqualsIgnoreCase(y, x)
    /\ (x.c = y.c => EqualsIgnoreCase(x, y).v.b)
    /\ (EqualsIgnoreCase(x, y).v.b =>
          /\ Len(x.c) = Len(y.c)
          /\ \A i \in 1..Len(x.c) :
               x.c[i] = y.c[i] \/ (x.c[i] < 128 /\ y.c[i] < 128 /\ (x.c[i] - y.c[i] = 32 \/ y.c[i] - x.c[i] = 32)))

ResolvePath(f, rel) ==
  IF f.t # "str" THEN RErr
  ELSE IF rel.t \notin {"str", "null"} THEN RErr
  ELSE LET parts == SplitOn(f.c, <<47>>)
           init == SubSeq(parts, 1, Len(parts) - 1)
       IN RText(JoinSeq(IF rel.t = "null" THEN init ELSE Append(init, rel.c), <<47>>))
LastSlash(s) == LET S == {i \in 1..Len(s) : s[i] = 47} IN IF S = {} THEN 0 ELSE CHOOSE i \in S : \A j \in S : j <= i
LawResolvePath(f, rel) ==
  (f.t = "str" /\ rel.t = "str") => ResolvePath(f, rel).t = SubSeq(f.c, 1, LastSlash(f.c)) \o rel.c

\* Func of Values.tla is rendered as a function of one parameter
IsEmpty(v) ==
  CASE v.t = "str" -> RValue(Bool(v.c = <<>>))
    [] v.t = "arr" -> RValue(Bool(v.a = <<>>))
    [] v.t = "obj" -> RValue(Bool(Visible(v) = <<>>))
    [] v.t = "func" -> RValue(Bool(FALSE))
    [] OTHER -> RErr

KKey == <<107, 101, 121>>
KValue == <<118, 97, 108, 117, 101>>
ObjectKeysValuesAll(o) ==
  IF o.t # "obj" THEN RErr
  ELSE RValue(Arr([i \in 1..Len(o.f) |-> Obj(<<Fld(KKey, FALSE, Str(o.f[i].k)), Fld(KValue, FALSE, o.f[i].v)>>)]))
\* [[key, all field names, visible field names] ...] of the result: decided without forcing a value
KeysValuesShape(o) ==
  Arr([i \in 1..Len(o.f) |-> Arr(<<Str(o.f[i].k), Arr(<<Str(KKey), Str(KValue)>>), Arr(<<Str(KKey), Str(KValue)>>)>>)])

\* a value result as the text std.manifestJsonMinified gives for it (an error if it cannot be manifested)
AsText(res) ==
  IF res.r # "value" THEN res
  ELSE IF Manifestable(res.v) THEN RText(JsonEncodeF(res.v, FmtMinified)) ELSE RErr
=============================================================================
