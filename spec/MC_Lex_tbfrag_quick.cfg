CONSTANTS
  Mode = "tbfrag"
  Alpha = {0}
  MaxLen = 3
  First = {0}
INIT Init
NEXT Next
INVARIANTS Laws Emit
CHECK_DEADLOCK FALSE
