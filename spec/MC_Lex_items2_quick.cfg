CONSTANTS
  Mode = "items2"
  Alpha = {0}
  MaxLen = 0
  First = {0}
INIT Init
NEXT Next
INVARIANTS Laws Emit
CHECK_DEADLOCK FALSE
