------------------------------- MODULE Codec -------------------------------
(***************************************************************************)
(* Reference level for property C20: the parsing, encoding and hashing     *)
(* builtins of the Jsonnet standard library, written from the definitions  *)
(* the property names (positional notation, RFC 8259, RFC 4648, RFC 3629 / *)
(* Unicode ch. 3 table 3-7 and "substitution of maximal subparts", the     *)
(* upstream std.jsonnet text of the escapeString* functions, RFC 1321 /    *)
(* FIPS 180-4 / FIPS 202 known answers).                                   *)
(*                                                                         *)
(* Strings are sequences of code points, byte arrays sequences of 0..255.  *)
(* Values use the encoding of Values.tla, extended by                      *)
(*   [t |-> "dec", s |-> 1|-1, m |-> Nat, e |-> Int]  = s * m * 10^e       *)
(* for decimal numbers that are not small dyadic rationals (the exact      *)
(* rational is specified; the binding rounds it to the nearest double).    *)
(* TLC integers are 32 bit: every natural that is computed stays below     *)
(* Lim = 2^30; whatever does not fit is answered by an explicit            *)
(* "outside"/"open" result and is never compared.                          *)
(***************************************************************************)
EXTENDS Values

Lim == 1073741824     \* 2^30

Cat(ss) == LET RECURSIVE F(_)
               F(i) == IF i > Len(ss) THEN <<>> ELSE ss[i] \o F(i + 1)
           IN F(1)
Rep(c, n) == [i \in 1..n |-> c]
At(s, p) == IF p >= 1 /\ p <= Len(s) THEN s[p] ELSE -1          \* -1 = end of input
IsDigit(c) == c >= 48 /\ c <= 57

(***************************************************************************)
(* 1. std.parseInt / std.parseOctal / std.parseHex                         *)
(*    value of a numeral = sum of digit * radix^position.                  *)
(* Results:                                                                *)
(*   [r |-> "err", c |-> "empty" | "digit" | "overflow"]                   *)
(*   [r |-> "ok", s, m, e]      the value is exactly s * m * 2^e           *)
(*   [r |-> "finite", s, radix, p, rem]                                    *)
(*        p * radix^rem <= |value| < (p+1) * radix^rem and the value is a  *)
(*        finite double; the exact double is not decided here              *)
(*   [r |-> "outside"]          within rounding distance of the largest    *)
(*                              double: nothing decided                    *)
(***************************************************************************)
DigitVal(c) == IF c >= 48 /\ c <= 57 THEN c - 48
               ELSE IF c >= 97 /\ c <= 102 THEN c - 87
               ELSE IF c >= 65 /\ c <= 70 THEN c - 55
               ELSE 99
ValidNumeral(R, s) == \A i \in 1..Len(s) : DigitVal(s[i]) < R

\* Horner evaluation; -1 when the value does not stay below Lim.
RECURSIVE NatAcc(_, _, _)
NatAcc(R, ds, acc) ==
  IF ds = <<>> THEN acc
  ELSE IF acc > (Lim - 1 - Head(ds)) \div R THEN -1
  ELSE NatAcc(R, Tail(ds), acc * R + Head(ds))
NatOf(R, ds) == NatAcc(R, ds, 0)

\* the same value as the positional sum (used by a law only)
PowN(b, n) == LET p[i \in 0..n] == IF i = 0 THEN 1 ELSE b * p[i - 1] IN p[n]
RECURSIVE PosSum(_, _)
PosSum(R, ds) == IF ds = <<>> THEN 0 ELSE Head(ds) * PowN(R, Len(ds) - 1) + PosSum(R, Tail(ds))

RECURSIVE StripLead(_)
StripLead(ds) == IF ds # <<>> /\ Head(ds) = 0 THEN StripLead(Tail(ds)) ELSE ds
RECURSIVE TrailZeros(_)
TrailZeros(ds) == IF ds # <<>> /\ ds[Len(ds)] = 0 THEN 1 + TrailZeros(SubSeq(ds, 1, Len(ds) - 1)) ELSE 0

\* m * 2^e with m odd (or 0): canonical form of an exact dyadic
RECURSIVE OddPart(_)
OddPart(m) == IF m # 0 /\ m % 2 = 0 THEN OddPart(m \div 2) ELSE m
RECURSIVE TwoExp(_)
TwoExp(m) == IF m # 0 /\ m % 2 = 0 THEN 1 + TwoExp(m \div 2) ELSE 0
ExactR(s, m, e) == IF m = 0 THEN [r |-> "ok", s |-> s, m |-> 0, e |-> 0]
                   ELSE [r |-> "ok", s |-> s, m |-> OddPart(m), e |-> e + TwoExp(m)]

\* Is a numeral of nd significant digits (first digits fd) certainly finite /
\* certainly >= 2^1024 ?  (2^1024 = 16^256 = 2 * 8^341 ~ 1.797e308)
Magnitude(R, sig) ==
  LET nd == Len(sig) IN
  CASE R = 16 -> IF nd <= 255 THEN "finite" ELSE IF nd >= 257 THEN "overflow"
                 ELSE IF \E i \in 1..13 : sig[i] < 15 THEN "finite" ELSE "outside"
    [] R = 8  -> IF nd <= 341 THEN "finite" ELSE IF nd >= 343 THEN "overflow"
                 ELSE IF sig[1] >= 2 THEN "overflow"
                 ELSE IF \E i \in 2..19 : sig[i] < 7 THEN "finite" ELSE "outside"
    [] R = 10 -> IF nd <= 308 THEN "finite" ELSE IF nd >= 310 THEN "overflow"
                 ELSE IF sig[1] >= 2 \/ sig[2] >= 8 THEN "overflow"
                 ELSE IF sig[2] <= 6 THEN "finite" ELSE "outside"

ParseNat(R, sgn, s) ==
  IF s = <<>> THEN [r |-> "err", c |-> "empty"]
  ELSE IF ~ValidNumeral(R, s) THEN [r |-> "err", c |-> "digit"]
  ELSE
    LET ds == [i \in 1..Len(s) |-> DigitVal(s[i])]
        sig == StripLead(ds)
        z == TrailZeros(sig)
        core == SubSeq(sig, 1, Len(sig) - z)
        n == NatOf(R, core)
        mag == IF sig = <<>> THEN "finite" ELSE Magnitude(R, sig)
        k == IF Len(sig) < 6 THEN Len(sig) ELSE 6
        bracket == [r |-> "finite", s |-> sgn, radix |-> R,
                    p |-> NatOf(R, SubSeq(sig, 1, k)), rem |-> Len(sig) - k]
    IN IF sig = <<>> THEN ExactR(sgn, 0, 0)
       ELSE IF mag = "overflow" THEN [r |-> "err", c |-> "overflow"]
       ELSE IF mag = "outside" THEN [r |-> "outside"]
       ELSE IF n < 0 THEN bracket
       ELSE CASE R = 16 -> ExactR(sgn, n, 4 * z)
              [] R = 8  -> ExactR(sgn, n, 3 * z)
              [] R = 10 -> \* n * 10^z = (n * 5^z) * 2^z
                   IF z <= 12 /\ n <= (Lim - 1) \div PowN(5, z)
                   THEN ExactR(sgn, n * PowN(5, z), z) ELSE bracket

ParseHex(s) == ParseNat(16, 1, s)
ParseOctal(s) == ParseNat(8, 1, s)
ParseInt(s) == IF s # <<>> /\ Head(s) = 45 THEN ParseNat(10, -1, Tail(s)) ELSE ParseNat(10, 1, s)

Upper(s) == [i \in 1..Len(s) |-> IF s[i] >= 97 /\ s[i] <= 122 THEN s[i] - 32 ELSE s[i]]
TimesRadix(R, x) ==      \* R * x for an exact result x (or "none" when that leaves the exact domain)
  IF x.r # "ok" THEN [r |-> "none"]
  ELSE CASE R = 16 -> ExactR(x.s, x.m, IF x.m = 0 THEN 0 ELSE x.e + 4)
         [] R = 8  -> ExactR(x.s, x.m, IF x.m = 0 THEN 0 ELSE x.e + 3)
         [] R = 10 -> IF x.m > (Lim - 1) \div 5 THEN [r |-> "none"] ELSE ExactR(x.s, 5 * x.m, IF x.m = 0 THEN 0 ELSE x.e + 1)

LawRadix(R, s) ==
  LET x == ParseNat(R, 1, s) IN
  /\ (s # <<>> => ParseNat(R, 1, <<48>> \o s) = x)                     \* leading zeros do not count
  /\ (x.r = "ok" => LET y == ParseNat(R, 1, s \o <<48>>)  t == TimesRadix(R, x)     \* appending 0 multiplies by R
                    IN y.r = "ok" /\ t.r = "ok" => t = y)
  /\ (x.r = "ok" /\ Len(StripLead([i \in 1..Len(s) |-> DigitVal(s[i])])) <= 6                   \* Horner = positional sum
        => x.m * Pow2(x.e) = PosSum(R, StripLead([i \in 1..Len(s) |-> DigitVal(s[i])])))
  /\ (R = 16 => ParseHex(Upper(s)) = x)                                 \* case-insensitive
  /\ ((x.r = "err" /\ x.c # "overflow") <=> (s = <<>> \/ \E i \in 1..Len(s) : DigitVal(s[i]) >= R))
  /\ (R = 10 /\ s # <<>> /\ Head(s) # 45 =>                             \* sign
        LET n == ParseInt(<<45>> \o s) IN
        IF x.r \in {"ok", "finite"} THEN n = [x EXCEPT !.s = -1] ELSE n = x)

(***************************************************************************)
(* 2. std.parseJson: RFC 8259 recogniser and decoder.                      *)
(* JsonDecode(s) =                                                         *)
(*   [k |-> "ok", v |-> value, pair |-> BOOLEAN]  s is a JSON text without *)
(*         duplicate member names; pair: a \uD8xx\uDCxx escape pair occurs *)
(*   [k |-> "bad"]           s is not such a text                          *)
(*   [k |-> "open"]          s is grammatical but contains an escape of a  *)
(*         lone surrogate (RFC 8259 section 8.2: unpredictable), or a      *)
(*         number beyond the range/precision decided here (section 6       *)
(*         allows limits)                                                  *)
(***************************************************************************)
IsWs(c) == c \in {32, 9, 10, 13}
RECURSIVE SkipWs(_, _)
SkipWs(s, p) == IF p <= Len(s) /\ IsWs(s[p]) THEN SkipWs(s, p + 1) ELSE p
RECURSIVE DigitsEnd(_, _)
DigitsEnd(s, p) == IF p <= Len(s) /\ IsDigit(s[p]) THEN DigitsEnd(s, p + 1) ELSE p
HasPrefix(s, p, w) == p + Len(w) - 1 <= Len(s) /\ \A i \in 1..Len(w) : s[p + i - 1] = w[i]

Bad == [k |-> "bad"]
Good(v, p, fl) == [k |-> "ok", v |-> v, p |-> p, fl |-> fl]

\* s * (digits ds) * 10^e10 as a value; ds are digit values, most significant first.
DecValue(sgn, ds, e10) ==
  LET sig == StripLead(ds)
      z == TrailZeros(sig)
      core == SubSeq(sig, 1, Len(sig) - z)
      m == NatOf(10, core)
      e == e10 + z
  IN IF sig = <<>> THEN Num(sgn, 0, 0)
     ELSE IF m < 0 \/ e > 400 \/ e < -400 THEN [t |-> "big"]
     ELSE IF e >= 0 /\ e <= 9 /\ m <= (Lim - 1) \div PowN(10, e) THEN Num(sgn, m * PowN(10, e), 0)
     ELSE IF e < 0 /\ e >= -12 /\ m % PowN(5, -e) = 0 THEN
          LET q == m \div PowN(5, -e) IN Num(sgn, OddPart(q), TwoExp(q) + e)      \* dyadic: q * 2^e
     ELSE IF e + Len(core) > 308 THEN [t |-> "big"]
     ELSE [t |-> "dec", s |-> sgn, m |-> m, e |-> e]

\* number = [ minus ] int [ frac ] [ exp ]   (RFC 8259 section 6), starting at p
PNumber(s, p) ==
  LET neg == At(s, p) = 45
      p1 == IF neg THEN p + 1 ELSE p
      p2 == IF At(s, p1) = 48 THEN p1 + 1 ELSE DigitsEnd(s, p1)        \* int = zero / digit1-9 *DIGIT
      hasFrac == At(s, p2) = 46
      p3 == IF hasFrac THEN DigitsEnd(s, p2 + 1) ELSE p2
      hasExp == At(s, p3) \in {101, 69}
      expNeg == hasExp /\ At(s, p3 + 1) = 45
      p4 == IF hasExp THEN (IF At(s, p3 + 1) \in {43, 45} THEN p3 + 2 ELSE p3 + 1) ELSE p3
      p5 == IF hasExp THEN DigitsEnd(s, p4) ELSE p3
      dv(a, b) == [i \in 1..(b - a) |-> s[a + i - 1] - 48]
      ex == NatOf(10, StripLead(dv(p4, p5)))
  IN IF ~IsDigit(At(s, p1)) THEN Bad
     ELSE IF hasFrac /\ p3 = p2 + 1 THEN Bad                           \* frac = "." 1*DIGIT
     ELSE IF hasExp /\ p5 = p4 THEN Bad                                \* exp = e [-/+] 1*DIGIT
     ELSE IF ex < 0 \/ ex > 1000 THEN Good([t |-> "big"], p5, {"big"})
     ELSE LET frac == IF hasFrac THEN dv(p2 + 1, p3) ELSE <<>>
              v == DecValue(IF neg THEN -1 ELSE 1, dv(p1, p2) \o frac,
                            (IF expNeg THEN -ex ELSE ex) - Len(frac))
          IN Good(v, p5, IF v.t = "big" THEN {"big"} ELSE {})

Hex4(s, p) ==     \* value of 4HEXDIG at p, or -1
  IF p + 3 <= Len(s) /\ \A i \in 0..3 : DigitVal(s[p + i]) < 16
  THEN 4096 * DigitVal(s[p]) + 256 * DigitVal(s[p + 1]) + 16 * DigitVal(s[p + 2]) + DigitVal(s[p + 3])
  ELSE -1
IsHighSur(u) == u >= 55296 /\ u <= 56319
IsLowSur(u) == u >= 56320 /\ u <= 57343
SimpleEsc(c) ==   \* RFC 8259 section 7: \" \\ \/ \b \f \n \r \t
  CASE c = 34 -> 34 [] c = 92 -> 92 [] c = 47 -> 47 [] c = 98 -> 8 [] c = 102 -> 12
    [] c = 110 -> 10 [] c = 114 -> 13 [] c = 116 -> 9 [] OTHER -> -1

\* the characters after the opening quotation mark; acc = decoded so far
RECURSIVE PChars(_, _, _, _)
PChars(s, p, acc, fl) ==
  LET c == At(s, p) IN
  IF c = -1 THEN Bad
  ELSE IF c = 34 THEN Good(Str(acc), p + 1, fl)
  ELSE IF c = 92 THEN
    LET d == At(s, p + 1) IN
    IF d # -1 /\ SimpleEsc(d) >= 0 THEN PChars(s, p + 2, Append(acc, SimpleEsc(d)), fl)
    ELSE IF d = 117 THEN
      LET u == Hex4(s, p + 2) IN
      IF u < 0 THEN Bad
      ELSE IF IsHighSur(u) /\ At(s, p + 6) = 92 /\ At(s, p + 7) = 117 /\ Hex4(s, p + 8) >= 0
              /\ IsLowSur(Hex4(s, p + 8))
        THEN PChars(s, p + 12, Append(acc, 65536 + (u - 55296) * 1024 + (Hex4(s, p + 8) - 56320)),
                    fl \cup {"pair"})
      ELSE IF IsHighSur(u) \/ IsLowSur(u) THEN PChars(s, p + 6, Append(acc, 65533), fl \cup {"lone"})
      ELSE PChars(s, p + 6, Append(acc, u), fl)
    ELSE Bad
  ELSE IF c < 32 THEN Bad                                               \* unescaped = %x20-21 / %x23-5B / %x5D-10FFFF
  ELSE PChars(s, p + 1, Append(acc, c), fl)

LitTrue == <<116, 114, 117, 101>>
LitFalse == <<102, 97, 108, 115, 101>>
LitNull == <<110, 117, 108, 108>>

DistinctKeys(ms) == \A i, j \in 1..Len(ms) : i # j => ms[i].k # ms[j].k
MkObj(ms) == Obj(SortSeq(ms, LAMBDA a, b : SeqCmp(a.k, b.k) < 0))

\* PValue(s, p): p is the first character of the value (white space skipped);
\* the result position is just after the value.
RECURSIVE PValue(_, _)
RECURSIVE PElems(_, _, _, _)
RECURSIVE PMembers(_, _, _, _)
PValue(s, p) ==
  LET c == At(s, p) IN
  IF c = 123 THEN
       LET q == SkipWs(s, p + 1) IN
       IF At(s, q) = 125 THEN Good(Obj(<<>>), q + 1, {}) ELSE PMembers(s, q, <<>>, {})
  ELSE IF c = 91 THEN
       LET q == SkipWs(s, p + 1) IN
       IF At(s, q) = 93 THEN Good(Arr(<<>>), q + 1, {}) ELSE PElems(s, q, <<>>, {})
  ELSE IF c = 34 THEN PChars(s, p + 1, <<>>, {})
  ELSE IF c = 45 \/ IsDigit(c) THEN PNumber(s, p)
  ELSE IF HasPrefix(s, p, LitTrue) THEN Good(Bool(TRUE), p + 4, {})
  ELSE IF HasPrefix(s, p, LitFalse) THEN Good(Bool(FALSE), p + 5, {})
  ELSE IF HasPrefix(s, p, LitNull) THEN Good(Null, p + 4, {})
  ELSE Bad

\* array = [ value *( , value ) ] ; q at the first character of an element
PElems(s, q, acc, fl) ==
  LET r == PValue(s, q) IN
  IF r.k # "ok" THEN Bad
  ELSE LET q2 == SkipWs(s, r.p)
           c == At(s, q2)
       IN IF c = 93 THEN Good(Arr(Append(acc, r.v)), q2 + 1, fl \cup r.fl)
          ELSE IF c = 44 THEN PElems(s, SkipWs(s, q2 + 1), Append(acc, r.v), fl \cup r.fl)
          ELSE Bad

\* object = { member *( , member ) } ; member = string : value ; q at the first character of a member
PMembers(s, q, acc, fl) ==
  IF At(s, q) # 34 THEN Bad
  ELSE
    LET kr == PChars(s, q + 1, <<>>, {}) IN
    IF kr.k # "ok" THEN Bad
    ELSE
      LET q1 == SkipWs(s, kr.p) IN
      IF At(s, q1) # 58 THEN Bad
      ELSE
        LET r == PValue(s, SkipWs(s, q1 + 1)) IN
        IF r.k # "ok" THEN Bad
        ELSE LET q2 == SkipWs(s, r.p)
                 c == At(s, q2)
                 ms == Append(acc, Fld(kr.v.c, FALSE, r.v))
                 fl2 == fl \cup kr.fl \cup r.fl
             IN IF c = 125 THEN
                     (IF DistinctKeys(ms) THEN Good(MkObj(ms), q2 + 1, fl2)
                      ELSE Good(Obj(<<>>), q2 + 1, fl2 \cup {"dup"}))
                ELSE IF c = 44 THEN PMembers(s, SkipWs(s, q2 + 1), ms, fl2)
                ELSE Bad

\* JSON-text = ws value ws
JsonDecode(s) ==
  LET r == PValue(s, SkipWs(s, 1)) IN
  IF r.k # "ok" THEN Bad
  ELSE IF SkipWs(s, r.p) # Len(s) + 1 THEN Bad
  ELSE IF "lone" \in r.fl \/ "big" \in r.fl THEN [k |-> "open"]     \* (checked first: a replaced lone
  ELSE IF "dup" \in r.fl THEN Bad                                    \*  surrogate may fake a duplicate)
  ELSE [k |-> "ok", v |-> r.v, pair |-> "pair" \in r.fl]

RECURSIVE Depth(_)
MaxOf(S) == IF S = {} THEN 0 ELSE CHOOSE x \in S : \A y \in S : y <= x
Depth(v) == CASE v.t = "arr" -> 1 + MaxOf({Depth(v.a[i]) : i \in 1..Len(v.a)})
              [] v.t = "obj" -> 1 + MaxOf({Depth(v.f[i].v) : i \in 1..Len(v.f)})
              [] OTHER -> 0

\* The std.parseYaml claim of the property applies to this text: a JSON document (as above),
\* written without tab characters and without surrogate-pair escapes, nested below 100 levels.
YamlClaim(s) ==
  LET r == JsonDecode(s) IN
  r.k = "ok" /\ ~r.pair /\ (\A i \in 1..Len(s) : s[i] # 9) /\ Depth(r.v) < 100

(* A canonical JSON text of a value (no white space), for the laws. *)
RECURSIVE NatDigits(_)
NatDigits(n) == IF n < 10 THEN <<48 + n>> ELSE Append(NatDigits(n \div 10), 48 + (n % 10))
IntDigits(n) == IF n < 0 THEN <<45>> \o NatDigits(-n) ELSE NatDigits(n)
HexDigitChar(d) == IF d < 10 THEN 48 + d ELSE 87 + d
U4(c) == <<92, 117, HexDigitChar(c \div 4096), HexDigitChar((c \div 256) % 16),
           HexDigitChar((c \div 16) % 16), HexDigitChar(c % 16)>>
NumPrintable(v) == v.t = "dec" \/ (v.t = "num" /\ (v.m = 0 \/ v.e = 0 \/
                                     (v.e < 0 /\ v.e >= -12 /\ v.m <= (Lim - 1) \div PowN(5, -v.e))))
NumText(v) ==
  (IF v.s < 0 THEN <<45>> ELSE <<>>) \o
  (IF v.t = "dec" THEN NatDigits(v.m) \o <<101>> \o IntDigits(v.e)
   ELSE IF v.m = 0 THEN <<48>>
   ELSE IF v.e = 0 THEN NatDigits(v.m)
   ELSE NatDigits(v.m * PowN(5, -v.e)) \o <<101>> \o IntDigits(v.e))       \* m * 2^e = m * 5^-e * 10^e
JsonCharText(c) == IF c = 34 THEN <<92, 34>> ELSE IF c = 92 THEN <<92, 92>>
                   ELSE IF c < 32 THEN U4(c) ELSE <<c>>
StrText(cs) == <<34>> \o Cat([i \in 1..Len(cs) |-> JsonCharText(cs[i])]) \o <<34>>
RECURSIVE JsonText(_)
JsonText(v) ==
  CASE v.t = "null" -> LitNull
    [] v.t = "bool" -> IF v.b THEN LitTrue ELSE LitFalse
    [] v.t \in {"num", "dec"} -> NumText(v)
    [] v.t = "str" -> StrText(v.c)
    [] v.t = "arr" -> <<91>> \o Cat([i \in 1..Len(v.a) |-> (IF i > 1 THEN <<44>> ELSE <<>>) \o JsonText(v.a[i])]) \o <<93>>
    [] v.t = "obj" -> <<123>> \o Cat([i \in 1..Len(v.f) |->
                          (IF i > 1 THEN <<44>> ELSE <<>>) \o StrText(v.f[i].k) \o <<58>> \o JsonText(v.f[i].v)]) \o <<125>>
RECURSIVE AllNumsPrintable(_)
AllNumsPrintable(v) ==
  CASE v.t \in {"num", "dec"} -> NumPrintable(v)
    [] v.t = "arr" -> \A i \in 1..Len(v.a) : AllNumsPrintable(v.a[i])
    [] v.t = "obj" -> \A i \in 1..Len(v.f) : AllNumsPrintable(v.f[i].v)
    [] OTHER -> TRUE

LawJson(s) ==
  LET r == JsonDecode(s) IN
  /\ JsonDecode(<<32>> \o s) = r /\ JsonDecode(s \o <<10>>) = r          \* ws around the text is insignificant
  /\ JsonDecode(<<13, 9>> \o s \o <<9>>) = r
  /\ (r.k = "ok" =>                                                      \* a value is a value inside an array / object
        /\ JsonDecode(<<91>> \o s \o <<93>>) = [r EXCEPT !.v = Arr(<<r.v>>)]
        /\ JsonDecode(<<123, 34, 107, 34, 58>> \o s \o <<125>>) = [r EXCEPT !.v = Obj(<<Fld(<<107>>, FALSE, r.v)>>)]
        /\ JsonDecode(<<91>> \o s \o <<44>> \o s \o <<93>>) = [r EXCEPT !.v = Arr(<<r.v, r.v>>)]
        /\ (AllNumsPrintable(r.v) => JsonDecode(JsonText(r.v)) = [r EXCEPT !.pair = FALSE]))   \* re-serialisation
  /\ (r.k # "bad" => JsonDecode(s \o <<48, 34>>) = Bad)                 \* trailing garbage is rejected

(***************************************************************************)
(* 3. std.base64 / std.base64DecodeBytes / std.base64Decode (RFC 4648 §4)  *)
(***************************************************************************)
B64Alpha == [i \in 1..64 |-> IF i <= 26 THEN 64 + i                     \* A-Z
                             ELSE IF i <= 52 THEN 70 + i                 \* a-z
                             ELSE IF i <= 62 THEN i - 5                  \* 0-9
                             ELSE IF i = 63 THEN 43 ELSE 47]             \* + /
B64Char(v) == B64Alpha[v + 1]
B64Index(c) == IF c >= 65 /\ c <= 90 THEN c - 65 ELSE IF c >= 97 /\ c <= 122 THEN c - 71       \* inverse of B64Char
               ELSE IF c >= 48 /\ c <= 57 THEN c + 4 ELSE IF c = 43 THEN 62 ELSE IF c = 47 THEN 63 ELSE -1
Pad == 61

RECURSIVE Base64(_)
Base64(b) ==
  IF b = <<>> THEN <<>>
  ELSE IF Len(b) = 1 THEN <<B64Char(b[1] \div 4), B64Char((b[1] % 4) * 16), Pad, Pad>>
  ELSE IF Len(b) = 2 THEN <<B64Char(b[1] \div 4), B64Char((b[1] % 4) * 16 + b[2] \div 16),
                            B64Char((b[2] % 16) * 4), Pad>>
  ELSE <<B64Char(b[1] \div 4), B64Char((b[1] % 4) * 16 + b[2] \div 16),
         B64Char((b[2] % 16) * 4 + b[3] \div 64), B64Char(b[3] % 64)>> \o Base64(SubSeq(b, 4, Len(b)))

\* std.base64 of a string: its code points are the bytes; only 0..255 can be encoded
Base64Str(cs) == IF \E i \in 1..Len(cs) : cs[i] > 255 THEN [r |-> "err"] ELSE [r |-> "ok", v |-> Base64(cs)]

\* Results: [r |-> "ok", v |-> bytes], [r |-> "err"], [r |-> "open"] (non-zero pad bits: RFC 4648 §3.5 MAY reject)
RECURSIVE B64DecAcc(_, _)
B64DecAcc(s, acc) ==
  IF s = <<>> THEN [r |-> "ok", v |-> acc]
  ELSE
    LET i1 == B64Index(s[1])  i2 == B64Index(s[2])  i3 == B64Index(s[3])  i4 == B64Index(s[4])
        last == Len(s) = 4
    IN IF i1 < 0 \/ i2 < 0 THEN [r |-> "err"]
       ELSE IF i3 >= 0 /\ i4 >= 0 THEN
            B64DecAcc(SubSeq(s, 5, Len(s)),
                      acc \o <<i1 * 4 + i2 \div 16, (i2 % 16) * 16 + i3 \div 4, (i3 % 4) * 64 + i4>>)
       ELSE IF ~last THEN [r |-> "err"]                                  \* padding only at the very end
       ELSE IF s[3] = Pad /\ s[4] = Pad THEN
            (IF i2 % 16 # 0 THEN [r |-> "open"] ELSE [r |-> "ok", v |-> Append(acc, i1 * 4 + i2 \div 16)])
       ELSE IF i3 >= 0 /\ s[4] = Pad THEN
            (IF i3 % 4 # 0 THEN [r |-> "open"]
             ELSE [r |-> "ok", v |-> acc \o <<i1 * 4 + i2 \div 16, (i2 % 16) * 16 + i3 \div 4>>])
       ELSE [r |-> "err"]
Base64DecodeBytes(s) == IF Len(s) % 4 # 0 THEN [r |-> "err"] ELSE B64DecAcc(s, <<>>)
Base64Decode(s) == Base64DecodeBytes(s)       \* the same bytes, each read as one code point

LawBase64(b) ==
  LET t == Base64(b) IN
  /\ Len(t) = 4 * ((Len(b) + 2) \div 3)
  /\ \A i \in 1..Len(t) : B64Index(t[i]) >= 0 \/ (t[i] = Pad /\ i > Len(t) - 2)
  /\ Base64DecodeBytes(t) = [r |-> "ok", v |-> b]                       \* the decoder inverts the encoder
LawBase64Text(s) ==
  LET d == Base64DecodeBytes(s) IN
  /\ (d.r = "ok" => Base64(d.v) = s)                                    \* accepted canonical texts are encoder images
  /\ (d.r = "open" => Len(s) >= 4 /\ s[Len(s)] = Pad)
LawBase64Alphabet ==
  /\ \A v \in 0..63 : B64Index(B64Char(v)) = v
  /\ \A ch \in 0..300 : (B64Index(ch) >= 0) <=> (\E i \in 1..64 : B64Alpha[i] = ch)
  /\ Cardinality({B64Alpha[i] : i \in 1..64}) = 64
  /\ B64Index(Pad) = -1

(***************************************************************************)
(* 4. std.encodeUTF8 / std.decodeUTF8 (RFC 3629; Unicode 15 table 3-7 and   *)
(*    "U+FFFD substitution of maximal subparts")                            *)
(***************************************************************************)
EncodeCp(c) ==
  IF c < 128 THEN <<c>>
  ELSE IF c < 2048 THEN <<192 + c \div 64, 128 + (c % 64)>>
  ELSE IF c < 65536 THEN <<224 + c \div 4096, 128 + ((c \div 64) % 64), 128 + (c % 64)>>
  ELSE <<240 + c \div 262144, 128 + ((c \div 4096) % 64), 128 + ((c \div 64) % 64), 128 + (c % 64)>>
EncodeUTF8(cs) == Cat([i \in 1..Len(cs) |-> EncodeCp(cs[i])])

\* table 3-7: for a lead byte, the number of continuation bytes and the range of the second byte
ContCount(b) == IF b >= 194 /\ b <= 223 THEN 1 ELSE IF b >= 224 /\ b <= 239 THEN 2
                ELSE IF b >= 240 /\ b <= 244 THEN 3 ELSE 0
SecondLo(b) == IF b = 224 THEN 160 ELSE IF b = 240 THEN 144 ELSE 128
SecondHi(b) == IF b = 237 THEN 159 ELSE IF b = 244 THEN 143 ELSE 191
ContOk(lead, j, x) == IF j = 1 THEN x >= SecondLo(lead) /\ x <= SecondHi(lead) ELSE x >= 128 /\ x <= 191
\* number of bytes after the lead that continue a well-formed prefix (at most need)
RECURSIVE GoodCont(_, _, _)
GoodCont(b, j, need) == IF j <= need /\ j + 1 <= Len(b) /\ ContOk(b[1], j, b[j + 1]) THEN GoodCont(b, j + 1, need) ELSE j - 1
ScalarOf(b, need) ==
  CASE need = 1 -> (b[1] - 192) * 64 + (b[2] - 128)
    [] need = 2 -> (b[1] - 224) * 4096 + (b[2] - 128) * 64 + (b[3] - 128)
    [] need = 3 -> (b[1] - 240) * 262144 + (b[2] - 128) * 4096 + (b[3] - 128) * 64 + (b[4] - 128)

RECURSIVE DecodeUTF8(_)
DecodeUTF8(b) ==
  IF b = <<>> THEN <<>>
  ELSE IF b[1] < 128 THEN <<b[1]>> \o DecodeUTF8(Tail(b))
  ELSE LET need == ContCount(b[1])
           k == GoodCont(b, 1, need)
       IN IF need > 0 /\ k = need THEN <<ScalarOf(b, need)>> \o DecodeUTF8(SubSeq(b, need + 2, Len(b)))
          ELSE <<65533>> \o DecodeUTF8(SubSeq(b, k + 2, Len(b)))         \* one U+FFFD per maximal subpart

\* well-formedness stated separately (table 3-7 as a recogniser)
RECURSIVE WellFormed(_)
WellFormed(b) ==
  \/ b = <<>>
  \/ b[1] < 128 /\ WellFormed(Tail(b))
  \/ /\ ContCount(b[1]) > 0 /\ Len(b) > ContCount(b[1])
     /\ \A j \in 1..ContCount(b[1]) : ContOk(b[1], j, b[j + 1])
     /\ WellFormed(SubSeq(b, ContCount(b[1]) + 2, Len(b)))
IsScalar(c) == c >= 0 /\ c <= 1114111 /\ ~(c >= 55296 /\ c <= 57343)

LawUtf8Str(cs) ==
  /\ DecodeUTF8(EncodeUTF8(cs)) = cs                                    \* the decoder inverts the encoder
  /\ WellFormed(EncodeUTF8(cs))
  /\ \A i \in 1..Len(cs) : Len(EncodeCp(cs[i])) = (IF cs[i] < 128 THEN 1 ELSE IF cs[i] < 2048 THEN 2 ELSE IF cs[i] < 65536 THEN 3 ELSE 4)
LawUtf8Bytes(b) ==
  LET d == DecodeUTF8(b) IN
  /\ \A i \in 1..Len(d) : IsScalar(d[i])
  /\ Len(d) <= Len(b)
  /\ (WellFormed(b) <=> EncodeUTF8(d) = b)                              \* lossless exactly on well-formed input
  /\ (~WellFormed(b) => \E i \in 1..Len(d) : d[i] = 65533)
  /\ DecodeUTF8(b \o <<65>>) = DecodeUTF8(b) \o <<65>>                  \* an ASCII byte never joins a subpart

(***************************************************************************)
(* 5. std.escapeStringJson / Python / Bash / Dollars / XML, as std.jsonnet  *)
(*    defines them.                                                         *)
(***************************************************************************)
EscJsonCp(c) ==
  CASE c = 34 -> <<92, 34>> [] c = 92 -> <<92, 92>> [] c = 8 -> <<92, 98>> [] c = 12 -> <<92, 102>>
    [] c = 10 -> <<92, 110>> [] c = 13 -> <<92, 114>> [] c = 9 -> <<92, 116>>
    [] OTHER -> IF c < 32 \/ (c >= 127 /\ c <= 159) THEN U4(c) ELSE <<c>>
EscapeStringJson(cs) == <<34>> \o Cat([i \in 1..Len(cs) |-> EscJsonCp(cs[i])]) \o <<34>>
EscapeStringPython(cs) == EscapeStringJson(cs)
EscapeStringBash(cs) == <<39>> \o Cat([i \in 1..Len(cs) |-> IF cs[i] = 39 THEN <<39, 34, 39, 34, 39>> ELSE <<cs[i]>>]) \o <<39>>
EscapeStringDollars(cs) == Cat([i \in 1..Len(cs) |-> IF cs[i] = 36 THEN <<36, 36>> ELSE <<cs[i]>>])
XmlLt == <<38, 108, 116, 59>>                 \* &lt;
XmlGt == <<38, 103, 116, 59>>                 \* &gt;
XmlAmp == <<38, 97, 109, 112, 59>>            \* &amp;
XmlQuot == <<38, 113, 117, 111, 116, 59>>     \* &quot;
XmlApos == <<38, 97, 112, 111, 115, 59>>      \* &apos;
EscapeStringXML(cs) == Cat([i \in 1..Len(cs) |->
  CASE cs[i] = 60 -> XmlLt [] cs[i] = 62 -> XmlGt [] cs[i] = 38 -> XmlAmp
    [] cs[i] = 34 -> XmlQuot [] cs[i] = 39 -> XmlApos [] OTHER -> <<cs[i]>>])

\* readers of the escaped forms (what a JSON parser / POSIX shell / $$-substitution / XML parser recovers)
RECURSIVE ShUnquote(_, _)     \* mode: 0 outside quotes, 1 inside '..', 2 inside ".."
ShUnquote(s, mode) ==
  IF s = <<>> THEN (IF mode = 0 THEN <<>> ELSE <<-1>>)
  ELSE CASE mode = 0 -> IF Head(s) = 39 THEN ShUnquote(Tail(s), 1)
                        ELSE IF Head(s) = 34 THEN ShUnquote(Tail(s), 2) ELSE <<-1>>      \* nothing is left unquoted
         [] mode = 1 -> IF Head(s) = 39 THEN ShUnquote(Tail(s), 0) ELSE <<Head(s)>> \o ShUnquote(Tail(s), 1)
         [] mode = 2 -> IF Head(s) = 34 THEN ShUnquote(Tail(s), 0)
                        ELSE IF Head(s) \in {36, 96, 92} THEN <<-1>> ELSE <<Head(s)>> \o ShUnquote(Tail(s), 2)
RECURSIVE UnDollar(_)
UnDollar(s) == IF s = <<>> THEN <<>>
               ELSE IF Head(s) = 36 THEN (IF Len(s) >= 2 /\ s[2] = 36 THEN <<36>> \o UnDollar(SubSeq(s, 3, Len(s))) ELSE <<-1>>)
               ELSE <<Head(s)>> \o UnDollar(Tail(s))
RECURSIVE UnXml(_)
UnXml(s) ==
  IF s = <<>> THEN <<>>
  ELSE IF Head(s) \in {60, 62, 34, 39} THEN <<-1>>
  ELSE IF Head(s) = 38 THEN
       (IF HasPrefix(s, 1, XmlLt) THEN <<60>> \o UnXml(SubSeq(s, 5, Len(s)))
        ELSE IF HasPrefix(s, 1, XmlGt) THEN <<62>> \o UnXml(SubSeq(s, 5, Len(s)))
        ELSE IF HasPrefix(s, 1, XmlAmp) THEN <<38>> \o UnXml(SubSeq(s, 6, Len(s)))
        ELSE IF HasPrefix(s, 1, XmlQuot) THEN <<34>> \o UnXml(SubSeq(s, 7, Len(s)))
        ELSE IF HasPrefix(s, 1, XmlApos) THEN <<39>> \o UnXml(SubSeq(s, 7, Len(s)))
        ELSE <<-1>>)
  ELSE <<Head(s)>> \o UnXml(Tail(s))

LawEscape(cs) ==
  /\ JsonDecode(EscapeStringJson(cs)) = [k |-> "ok", v |-> Str(cs), pair |-> FALSE]   \* a JSON string denoting cs
  /\ \A i \in 1..Len(EscapeStringJson(cs)) : EscapeStringJson(cs)[i] >= 32             \* no raw control character
  /\ ShUnquote(EscapeStringBash(cs), 0) = cs                                            \* one shell word denoting cs
  /\ UnDollar(EscapeStringDollars(cs)) = cs
  /\ UnXml(EscapeStringXML(cs)) = cs

(***************************************************************************)
(* 6. Digests: a finite known-answer table (MD5: RFC 1321 A.5; SHA-1/2:     *)
(*    FIPS 180-4 / NIST CAVP examples; SHA-3: FIPS 202 examples; the other  *)
(*    rows computed once with an independent implementation and frozen).    *)
(*    TLC cannot do 32/64-bit word arithmetic at useful speed, so the      *)
(*    functions themselves are not transcribed.                            *)
(***************************************************************************)
\* ---- generated by lib/c20_util.py (digests) ----
DigestTable == <<
  \* empty (RFC 1321 A.5 / FIPS 180-4 / FIPS 202)
  [in |-> <<>>, nbytes |-> 0,
   md5 |-> "d41d8cd98f00b204e9800998ecf8427e",
   sha1 |-> "da39a3ee5e6b4b0d3255bfef95601890afd80709",
   sha256 |-> "e3b0c44298fc1c149afbf4c8996fb92427ae41e4649b934ca495991b7852b855",
   sha512 |-> "cf83e1357eefb8bdf1542850d66d8007d620e4050b5715dc83f4a921d36ce9ce47d0d13c5d85f2b0ff8318d2877eec2f63b931bd47417a81a538327af927da3e",
   sha3 |-> "a69f73cca23a9ac5c8b567dc185a756e97c982164fe25859e0d1dcc1475c80a615b2123af1f5f94c11e3e9402c3ac558f500199d95b6d3e301758586281dcd26"],
  \* a (RFC 1321 A.5)
  [in |-> <<97>>, nbytes |-> 1,
   md5 |-> "0cc175b9c0f1b6a831c399e269772661",
   sha1 |-> "86f7e437faa5a7fce15d1ddcb9eaeaea377667b8",
   sha256 |-> "ca978112ca1bbdcafac231b39a23dc4da786eff8147c4e72b9807785afee48bb",
   sha512 |-> "1f40fc92da241694750979ee6cf582f2d5d7d28e18335de05abc54d0560e0f5302860c652bf08d560252aa5e74210546f369fbbbce8c12cfc7957b2652fe9a75",
   sha3 |-> "697f2d856172cb8309d6b8b97dac4de344b549d4dee61edfb4962d8698b7fa803f4f93ff24393586e28b5b957ac3d1d369420ce53332712f997bd336d09ab02a"],
  \* abc (RFC 1321 A.5 / FIPS 180-4 / FIPS 202)
  [in |-> <<97, 98, 99>>, nbytes |-> 3,
   md5 |-> "900150983cd24fb0d6963f7d28e17f72",
   sha1 |-> "a9993e364706816aba3e25717850c26c9cd0d89d",
   sha256 |-> "ba7816bf8f01cfea414140de5dae2223b00361a396177a9cb410ff61f20015ad",
   sha512 |-> "ddaf35a193617abacc417349ae20413112e6fa4e89a97ea20a9eeee64b55d39a2192992a274fc1a836ba3c23a3feebbd454d4423643ce80e2a9ac94fa54ca49f",
   sha3 |-> "b751850b1a57168a5693cd924b6b096e08f621827444f70d884f5d0240d2712e10e116e9192af3c91a7ec57647e3934057340b4cf408d5a56592f8274eec53f0"],
  \* message digest (RFC 1321 A.5)
  [in |-> <<109, 101, 115, 115, 97, 103, 101, 32, 100, 105, 103, 101, 115, 116>>, nbytes |-> 14,
   md5 |-> "f96b697d7cb7938d525a2f31aaf161d0",
   sha1 |-> "c12252ceda8be8994d5fa0290a47231c1d16aae3",
   sha256 |-> "f7846f55cf23e14eebeab5b4e1550cad5b509e3348fbc4efa3a1413d393cb650",
   sha512 |-> "107dbf389d9e9f71a3a95f6c055b9251bc5268c2be16d6c13492ea45b0199f3309e16455ab1e96118e8a905d5597b72038ddb372a89826046de66687bb420e7c",
   sha3 |-> "3444e155881fa15511f57726c7d7cfe80302a7433067b29d59a71415ca9dd141ac892d310bc4d78128c98fda839d18d7f0556f2fe7acb3c0cda4bff3a25f5f59"],
  \* a..z (RFC 1321 A.5)
  [in |-> <<97, 98, 99, 100, 101, 102, 103, 104, 105, 106, 107, 108, 109, 110, 111, 112, 113, 114, 115, 116, 117, 118, 119, 120, 121, 122>>, nbytes |-> 26,
   md5 |-> "c3fcd3d76192e4007dfb496cca67e13b",
   sha1 |-> "32d10c7b8cf96570ca04ce37f2a19d84240d3a89",
   sha256 |-> "71c480df93d6ae2f1efad1447c66c9525e316218cf51fc8d9ed832f2daf18b73",
   sha512 |-> "4dbff86cc2ca1bae1e16468a05cb9881c97f1753bce3619034898faa1aabe429955a1bf8ec483d7421fe3c1646613a59ed5441fb0f321389f77f48a879c7b1f1",
   sha3 |-> "af328d17fa28753a3c9f5cb72e376b90440b96f0289e5703b729324a975ab384eda565fc92aaded143669900d761861687acdc0a5ffa358bd0571aaad80aca68"],
  \* A..Za..z0..9 (RFC 1321 A.5)
  [in |-> <<65, 66, 67, 68, 69, 70, 71, 72, 73, 74, 75, 76, 77, 78, 79, 80, 81, 82, 83, 84, 85, 86, 87, 88, 89, 90, 97, 98, 99, 100, 101, 102, 103, 104, 105, 106, 107, 108, 109, 110, 111, 112, 113, 114, 115, 116, 117, 118, 119, 120, 121, 122, 48, 49, 50, 51, 52, 53, 54, 55, 56, 57>>, nbytes |-> 62,
   md5 |-> "d174ab98d277d9f5a5611c2c9f419d9f",
   sha1 |-> "761c457bf73b14d27e9e9265c46f4b4dda11f940",
   sha256 |-> "db4bfcbd4da0cd85a60c3c37d3fbd8805c77f15fc6b1fdfe614ee0a7c8fdb4c0",
   sha512 |-> "1e07be23c26a86ea37ea810c8ec7809352515a970e9253c26f536cfc7a9996c45c8370583e0a78fa4a90041d71a4ceab7423f19c71b9d5a3e01249f0bebd5894",
   sha3 |-> "d1db17b4745b255e5eb159f66593cc9c143850979fc7a3951796aba80165aab536b46174ce19e3f707f0e5c6487f5f03084bc0ec9461691ef20113e42ad28163"],
  \* 8 x 1234567890 (RFC 1321 A.5)
  [in |-> Cat([i \in 1..8 |-> <<49, 50, 51, 52, 53, 54, 55, 56, 57, 48>>]), nbytes |-> 80,
   md5 |-> "57edf4a22be3c955ac49da2e2107b67a",
   sha1 |-> "50abf5706a150990a08b2c5ea40fa0e585554732",
   sha256 |-> "f371bc4a311f2b009eef952dd83ca80e2b60026c8e935592d0f9c308453c813e",
   sha512 |-> "72ec1ef1124a45b047e8b7c75a932195135bb61de24ec0d1914042246e0aec3a2354e093d76f3048b456764346900cb130d2a4fd5dd16abb5e30bcb850dee843",
   sha3 |-> "9524b9a5536b91069526b4f6196b7e9475b4da69e01f0c855797f224cd7335ddb286fd99b9b32ffe33b59ad424cc1744f6eb59137f5fb8601932e8a8af0ae930"],
  \* 448 bits (FIPS 180-4 / FIPS 202 example)
  [in |-> <<97, 98, 99, 100, 98, 99, 100, 101, 99, 100, 101, 102, 100, 101, 102, 103, 101, 102, 103, 104, 102, 103, 104, 105, 103, 104, 105, 106, 104, 105, 106, 107, 105, 106, 107, 108, 106, 107, 108, 109, 107, 108, 109, 110, 108, 109, 110, 111, 109, 110, 111, 112, 110, 111, 112, 113>>, nbytes |-> 56,
   md5 |-> "8215ef0796a20bcaaae116d3876c664a",
   sha1 |-> "84983e441c3bd26ebaae4aa1f95129e5e54670f1",
   sha256 |-> "248d6a61d20638b8e5c026930c3e6039a33ce45964ff2167f6ecedd419db06c1",
   sha512 |-> "204a8fc6dda82f0a0ced7beb8e08a41657c16ef468b228a8279be331a703c33596fd15c13b1b07f9aa1d3bea57789ca031ad85c7a71dd70354ec631238ca3445",
   sha3 |-> "04a371e84ecfb5b8b77cb48610fca8182dd457ce6f326a0fd3d7ec2f1e91636dee691fbe0c985302ba1b0d8dc78c086346b533b49c030d99a27daf1139d6e75e"],
  \* 896 bits (FIPS 180-4 / FIPS 202 example)
  [in |-> <<97, 98, 99, 100, 101, 102, 103, 104, 98, 99, 100, 101, 102, 103, 104, 105, 99, 100, 101, 102, 103, 104, 105, 106, 100, 101, 102, 103, 104, 105, 106, 107, 101, 102, 103, 104, 105, 106, 107, 108, 102, 103, 104, 105, 106, 107, 108, 109, 103, 104, 105, 106, 107, 108, 109, 110, 104, 105, 106, 107, 108, 109, 110, 111, 105, 106, 107, 108, 109, 110, 111, 112, 106, 107, 108, 109, 110, 111, 112, 113, 107, 108, 109, 110, 111, 112, 113, 114, 108, 109, 110, 111, 112, 113, 114, 115, 109, 110, 111, 112, 113, 114, 115, 116, 110, 111, 112, 113, 114, 115, 116, 117>>, nbytes |-> 112,
   md5 |-> "03dd8807a93175fb062dfb55dc7d359c",
   sha1 |-> "a49b2446a02c645bf419f995b67091253a04a259",
   sha256 |-> "cf5b16a778af8380036ce59e7b0492370b249b11e8f07a51afac45037afee9d1",
   sha512 |-> "8e959b75dae313da8cf4f72814fc143f8f7779c6eb9f7fa17299aeadb6889018501d289e4900f7e4331b99dec4b5433ac7d329eeb6dd26545e96e55b874be909",
   sha3 |-> "afebb2ef542e6579c50cad06d2e578f9f8dd6881d7dc824d26360feebf18a4fa73e3261122948efcfd492e74e82e2189ed0fb440d187f382270cb455f21dd185"],
  \* 55 x a (block/padding boundary; frozen from an independent implementation)
  [in |-> Rep(97, 55), nbytes |-> 55,
   md5 |-> "ef1772b6dff9a122358552954ad0df65",
   sha1 |-> "c1c8bbdc22796e28c0e15163d20899b65621d65a",
   sha256 |-> "9f4390f8d30c2dd92ec9f095b65e2b9ae9b0a925a5258e241c9f1e910f734318",
   sha512 |-> "b0220c772cbf6c1822e2cb38a437d0e1d58772417a4bbb21c961364f8b6143e05aa6316dca8d1d7b19e16448419076395f6086cb55101fbd6d5497b148e1745f",
   sha3 |-> "2d81683ca5558b428c414aa1cbfaf8bbda166041746a17f976adf1252499efd82bcf1234153c1b6b9d8c44244e53c76a4fad9e445b87f74951b3b45c22f0438a"],
  \* 56 x a (block/padding boundary; frozen from an independent implementation)
  [in |-> Rep(97, 56), nbytes |-> 56,
   md5 |-> "3b0c8ac703f828b04c6c197006d17218",
   sha1 |-> "c2db330f6083854c99d4b5bfb6e8f29f201be699",
   sha256 |-> "b35439a4ac6f0948b6d6f9e3c6af0f5f590ce20f1bde7090ef7970686ec6738a",
   sha512 |-> "962b64aae357d2a4fee3ded8b539bdc9d325081822b0bfc55583133aab44f18bafe11d72a7ae16c79ce2ba620ae2242d5144809161945f1367f41b3972e26e04",
   sha3 |-> "302d75b7947aa354a54872df954dc0dfe673cf60faedebdea7e9b22263a3bdf39e346a4f2868639836955396f186a67b02ec8e3365bdf59867070f81849c2c35"],
  \* 57 x a (block/padding boundary; frozen from an independent implementation)
  [in |-> Rep(97, 57), nbytes |-> 57,
   md5 |-> "652b906d60af96844ebd21b674f35e93",
   sha1 |-> "f08f24908d682555111be7ff6f004e78283d989a",
   sha256 |-> "f13b2d724659eb3bf47f2dd6af1accc87b81f09f59f2b75e5c0bed6589dfe8c6",
   sha512 |-> "d3115798e872fc1ca6b276368e8ea0926daec6ab1f8f08297e4348ff5f5fe4c6e5205413271babafd4929b070754bc5800e5db44790666ec4e2f6ac52a17e163",
   sha3 |-> "a6cb97132dfa2c5d3993d60b432a54bff081369a1d33a6b4503ede15dc88ff6c40029341bb1e979022e9480aa382f4b7533e4ca3cb168b671a205184c46f71a3"],
  \* 63 x a (block/padding boundary; frozen from an independent implementation)
  [in |-> Rep(97, 63), nbytes |-> 63,
   md5 |-> "b06521f39153d618550606be297466d5",
   sha1 |-> "03f09f5b158a7a8cdad920bddc29b81c18a551f5",
   sha256 |-> "7d3e74a05d7db15bce4ad9ec0658ea98e3f06eeecf16b4c6fff2da457ddc2f34",
   sha512 |-> "c1b0f5c6d3b03dfe4a2602e67242f54e344090b66e01100a469b129f583f016c7e27dddeaa438393dcc7ec54b0b57c9ba7af007f9b56db5f6fb677d972a31362",
   sha3 |-> "eea4cd9c5bf7c7693e128e692dee3adf4240e3530d181e94142ce7327a20e597c37f1b0ca53319b72e3eff24d6f256ff62f5f30f55456bd2e4dbaf62c8c6a2b4"],
  \* 64 x a (block/padding boundary; frozen from an independent implementation)
  [in |-> Rep(97, 64), nbytes |-> 64,
   md5 |-> "014842d480b571495a4a0363793f7367",
   sha1 |-> "0098ba824b5c16427bd7a1122a5a442a25ec644d",
   sha256 |-> "ffe054fe7ae0cb6dc65c3af9b61d5209f439851db43d0ba5997337df154668eb",
   sha512 |-> "01d35c10c6c38c2dcf48f7eebb3235fb5ad74a65ec4cd016e2354c637a8fb49b695ef3c1d6f7ae4cd74d78cc9c9bcac9d4f23a73019998a7f73038a5c9b2dbde",
   sha3 |-> "2141e94c719955872c455c83eb83e7618a9b523a0ee9f118e794fbff8b148545c8e8caabef08d8cfdb1dfb36b4dd81cc48bfc77e7f85632197b882fd9c4384e0"],
  \* 65 x a (block/padding boundary; frozen from an independent implementation)
  [in |-> Rep(97, 65), nbytes |-> 65,
   md5 |-> "c743a45e0d2e6a95cb859adae0248435",
   sha1 |-> "11655326c708d70319be2610e8a57d9a5b959d3b",
   sha256 |-> "635361c48bb9eab14198e76ea8ab7f1a41685d6ad62aa9146d301d4f17eb0ae0",
   sha512 |-> "b83086cd8494e55708ad7ecd82dfb4bca1bda61ecbb7caf0c68967902e709345e5d8305eb7ac0d588afc6cbb75161aa9c8c7e0ea986bd833dafe5e1ccd37345a",
   sha3 |-> "a70ad2630a2b93ec88d10d55b48bc742cc9658e8a8b1a44db1274c09401f4912507bb4e1de7b83c60502e103b705c83b4ec4d2c9a3dca4805a6daef7e9ae4bde"],
  \* 71 x a (block/padding boundary; frozen from an independent implementation)
  [in |-> Rep(97, 71), nbytes |-> 71,
   md5 |-> "cddd19bec7f310d8c87149ef47a1828f",
   sha1 |-> "0dfc17ce9eaca1570de957219f0c65c0c1f13654",
   sha256 |-> "eefa4cfbea79400c2f4239e1f702e02ebece761f78b6a35c9d2c167a79f9570c",
   sha512 |-> "216d4ffba1e94e8f281b06feb558346eeb0ae567c0a1d0c56ba2df704f45b2a6e6d91f97c5c00ebbcdfeb14b438bd9e56f2eb36ca64d22392520f3496f28fef5",
   sha3 |-> "070faf98d2a8fddf8ed886408744dc06456096c2e045f26f3c7b010530e6bbb3db535a54d636856f4e0e1e982461cb9a7e8e57ff8895cff1619af9f0e486e28c"],
  \* 72 x a (block/padding boundary; frozen from an independent implementation)
  [in |-> Rep(97, 72), nbytes |-> 72,
   md5 |-> "96b39b8b95e016c79d104d83395b8133",
   sha1 |-> "227c150957bf386497eb4f8eeabbaf9fe5ff5b96",
   sha256 |-> "d66304b6180365e47c858f6c84d3da065caf4b3350c9f45277a1af82e3dbb055",
   sha512 |-> "7e076f0892677d21072e99258203151146d4bc78ad6ed68edc939ba080c473ab66b10d38834e33abde71830dbd8529d895c7ea5f5773f1457d7c71bc3824b7c8",
   sha3 |-> "a8ae722a78e10cbbc413886c02eb5b369a03f6560084aff566bd597bb7ad8c1ccd86e81296852359bf2faddb5153c0a7445722987875e74287adac21adebe952"],
  \* 73 x a (block/padding boundary; frozen from an independent implementation)
  [in |-> Rep(97, 73), nbytes |-> 73,
   md5 |-> "f1fc0b14ff8fa674b02344577e23eeb1",
   sha1 |-> "39c1b19d6b81461cf01a28952cc1e19c70a93851",
   sha256 |-> "0e058e3f7d0439f9054d59c735587ae99655f6473a234ce494d82b5586f7eac6",
   sha512 |-> "1a3d403b46c595edfb71d10b4cb9e1b9ce4e44e28db6ba2a0334195816b85e6eba147bc6160864a0fe28166f99148476893a031a38a814e7136497296865f3c9",
   sha3 |-> "23e6a8815f8201dbbf6a5463be8dcadb1acea9df5f8998954e59ac9565cf6d29b17aa27a5e8b0fc06343db6122d6e544d27583ddc78504d08203217e7e65b6bd"],
  \* 111 x a (block/padding boundary; frozen from an independent implementation)
  [in |-> Rep(97, 111), nbytes |-> 111,
   md5 |-> "089f243d1e831c5879aa375ee364a06e",
   sha1 |-> "ac877859d427d9192054eea8feb3b8a403ef83a5",
   sha256 |-> "6374f73208854473827f6f6a3f43b1f53eaa3b82c21c1a6d69a2110b2a79baad",
   sha512 |-> "fa9121c7b32b9e01733d034cfc78cbf67f926c7ed83e82200ef86818196921760b4beff48404df811b953828274461673c68d04e297b0eb7b2b4d60fc6b566a2",
   sha3 |-> "62008887bb00ebdcb2409a8a8e06650aa41a4f2e0d6855874e027a982ae8264c19b4c0752d981048abcea4f16f478576e7cfc838a5ffcba85e0f43b14c2f6c9b"],
  \* 112 x a (block/padding boundary; frozen from an independent implementation)
  [in |-> Rep(97, 112), nbytes |-> 112,
   md5 |-> "9146ef3527c7cfcc66dc615c3986e391",
   sha1 |-> "689993727ba37386bb032495e9dbdfb4dd1ba744",
   sha256 |-> "f54353008a2553262ecdc4a34749563ba0950e8b0fc8652780b0a614b99683c1",
   sha512 |-> "c01d080efd492776a1c43bd23dd99d0a2e626d481e16782e75d54c2503b5dc32bd05f0f1ba33e568b88fd2d970929b719ecbb152f58f130a407c8830604b70ca",
   sha3 |-> "fd2ea10c443c3c0c2e1d328cb554a56163d9e23df41fefdee09d28bf17f2caec3c485c9d47fa42973be8f95e830334eac622744ecaeff3e48195abae060d2ca5"],
  \* 113 x a (block/padding boundary; frozen from an independent implementation)
  [in |-> Rep(97, 113), nbytes |-> 113,
   md5 |-> "d727cfdfc9ed0347e6917a68b982f7bc",
   sha1 |-> "3bcfff44cf3237b9b63c661a530077f794872efc",
   sha256 |-> "ba02731ae695aae5cd49b49d84330b63995733eb22102aca755f0179b1e0e20f",
   sha512 |-> "55ddd8ac210a6e18ba1ee055af84c966e0dbff091c43580ae1be703bdb85da31acf6948cf5bd90c55a20e5450f22fb89bd8d0085e39f85a86cc46abbca75e24d",
   sha3 |-> "ec2c3338157df5839d2c1367d82a8c6af0d484523306fdbc6778cfcc1aac2c59b9699a630ca55a9748eccff11c9e277cb19c2b8956f0b244e8f133d48dccdb1c"],
  \* 119 x a (block/padding boundary; frozen from an independent implementation)
  [in |-> Rep(97, 119), nbytes |-> 119,
   md5 |-> "8a7bd0732ed6a28ce75f6dabc90e1613",
   sha1 |-> "ee971065aaa017e0632a8ca6c77bb3bf8b1dfc56",
   sha256 |-> "31eba51c313a5c08226adf18d4a359cfdfd8d2e816b13f4af952f7ea6584dcfb",
   sha512 |-> "130396a75cb483f2eee8c56d8a668bb3d2641f5243212c0bee2bd33da096ad9eb8179fe18f9eaacf76e09fae9de4c3f14ba13341e345be05bf76c182cc3468cb",
   sha3 |-> "9568e15fe7e784336cbe26c709f3d2bd70afa66d4f8bdd67b49e70d3df2f77975113e340060bf33550d27fe1afbcee3cc8e51021b413942790f2ce80f271323b"],
  \* 120 x a (block/padding boundary; frozen from an independent implementation)
  [in |-> Rep(97, 120), nbytes |-> 120,
   md5 |-> "5f61c0ccad4cac44c75ff505e1f1e537",
   sha1 |-> "f34c1488385346a55709ba056ddd08280dd4c6d6",
   sha256 |-> "2f3d335432c70b580af0e8e1b3674a7c020d683aa5f73aaaedfdc55af904c21c",
   sha512 |-> "f241de612b01aa2fa3cf01531d2a8e5e17fc761dfd48a704a834a47f57d6eade7804ecc39be42fdef16ec6adeaf7c01c2fd0c4cc97d3860907cfa4a3b36d0c05",
   sha3 |-> "b2befccb818be72becdde3da37046250fba1560e8342f42cdfc463161112a7fe1cbcf6839511cf3cd203f5a724bde5b4074fd07403e94366f86d223b4132f537"],
  \* 127 x a (block/padding boundary; frozen from an independent implementation)
  [in |-> Rep(97, 127), nbytes |-> 127,
   md5 |-> "020406e1d05cdc2aa287641f7ae2cc39",
   sha1 |-> "89d95fa32ed44a7c610b7ee38517ddf57e0bb975",
   sha256 |-> "c57e9278af78fa3cab38667bef4ce29d783787a2f731d4e12200270f0c32320a",
   sha512 |-> "828613968b501dc00a97e08c73b118aa8876c26b8aac93df128502ab360f91bab50a51e088769a5c1eff4782ace147dce3642554199876374291f5d921629502",
   sha3 |-> "6dd1eafb50aefda74ac2e4dee21151b69bc43f38d9fcbf41893af0feb0806a6aa16ddba7db1e3ccd3541e6d18c77bd08f3287367dfc4b87a8f1e31227d27cded"],
  \* 128 x a (block/padding boundary; frozen from an independent implementation)
  [in |-> Rep(97, 128), nbytes |-> 128,
   md5 |-> "e510683b3f5ffe4093d021808bc6ff70",
   sha1 |-> "ad5b3fdbcb526778c2839d2f151ea753995e26a0",
   sha256 |-> "6836cf13bac400e9105071cd6af47084dfacad4e5e302c94bfed24e013afb73e",
   sha512 |-> "b73d1929aa615934e61a871596b3f3b33359f42b8175602e89f7e06e5f658a243667807ed300314b95cacdd579f3e33abdfbe351909519a846d465c59582f321",
   sha3 |-> "dfbfc2fde7f2a68e1b56b4d72c41e8643556646847a002a86c89efe119fd4715d0104ef557b44f46cb4db17e942549b6444d774b8dcb75921a908c3e143bb6a7"],
  \* 129 x a (block/padding boundary; frozen from an independent implementation)
  [in |-> Rep(97, 129), nbytes |-> 129,
   md5 |-> "b325dc1c6f5e7a2b7cf465b9feab7948",
   sha1 |-> "d96debf1bdcbc896e6c134ea76e8141f40d78536",
   sha256 |-> "c12cb024a2e5551cca0e08fce8f1c5e314555cc3fef6329ee994a3db752166ae",
   sha512 |-> "4f681e0bd53cda4b5a2041cc8a06f2eabde44fb16c951fbd5b87702f07aeab611565b19c47fde30587177ebb852e3971bbd8d3fd30da18d71037dfbd98420429",
   sha3 |-> "aa5030e1a90f23668566170f2c939849c8d16c36028bfe8c5d145733d2e18d75c4217e8f59287619f6a800a63f0dd86ea22e21742d7fbc22ed89e3ae5a1e74c6"],
  \* 143 x a (block/padding boundary; frozen from an independent implementation)
  [in |-> Rep(97, 143), nbytes |-> 143,
   md5 |-> "04960f7d18960e348372949e4baa9752",
   sha1 |-> "901fde599e9a5ce6b811058f074bfafbbf33614d",
   sha256 |-> "2bd3f6efab5e871a28d37632e97cd83dfafe9822fedefa0bf54b53d486cfeb38",
   sha512 |-> "a36813a094c4ade793671a10f2c8b708912f6b817b164ea6d25a3876ce906a7b60a5be54fc1e75dd69cb4241480a4550c37f66a737565bcb1c58c49b0bbe08f4",
   sha3 |-> "1dfc536c0ef79e004ec6f18e3b24fd6c4c3076556424ef369e8734312d6594ff9b92a8f02d2980ab51c191a9cc3cf47d06265e81d306d4098cdf2b6bada1db27"],
  \* 144 x a (block/padding boundary; frozen from an independent implementation)
  [in |-> Rep(97, 144), nbytes |-> 144,
   md5 |-> "c6041e7a86d407e9402b175670519260",
   sha1 |-> "02eb7614e4c4cfe9ed6e865bdfe1585f876b90b7",
   sha256 |-> "b71df3b2ce77a2e2d78f7a7b91bf8868b61be0e8a12d300b1300b140d7fada13",
   sha512 |-> "f3e37d91f6b89b298ad6e9f6b4a35a2703a90f05d848abf765828122703be3c4845cc880f7962b35aa42ce39602748de3bb8483a701d26e4d5ec87d114e5571f",
   sha3 |-> "446cd4d7ba19510dcc776b21045bc68d424b5b840e14685e149bb238b5f473c0356b69e04f0f5785eefce20ff09e678b080d8aac64568c5edf001cd32b2ed7a8"],
  \* 145 x a (block/padding boundary; frozen from an independent implementation)
  [in |-> Rep(97, 145), nbytes |-> 145,
   md5 |-> "439fd4c056bec1d14acd393746f6ae59",
   sha1 |-> "cc03ade0cf56707d85330dcecde9bfa084026989",
   sha256 |-> "a1b186afc61494910f0a90621baefc4a5c0f4daeab84a344b511aa26a43814ca",
   sha512 |-> "48e440baf526b7444503f59f944265a8c122b4bcfa3ab9df996dc09d5c15f714c8a12a84ffda1c7415334c9cd08370211d8abafb59ee9a6fbd191a8cf79a21d1",
   sha3 |-> "84a7b171615f4f0024b772defd5ea21a536bb1e52306fa7ad412c532ac919f6b645e412aa7f5d979808c8ae03ca7d159363dcdb179c9b03f908e3b3526cbf4de"],
  \* 1000 x a (block/padding boundary; frozen from an independent implementation)
  [in |-> Rep(97, 1000), nbytes |-> 1000,
   md5 |-> "cabe45dcc9ae5b66ba86600cca6b8ba8",
   sha1 |-> "291e9a6c66994949b57ba5e650361e98fc36b1ba",
   sha256 |-> "41edece42d63e8d9bf515a9ba6932e1c20cbc9f5a5d134645adb5db1b9737ea3",
   sha512 |-> "67ba5535a46e3f86dbfbed8cbbaf0125c76ed549ff8b0b9e03e0c88cf90fa634fa7b12b47d77b694de488ace8d9a65967dc96df599727d3292a8d9d447709c97",
   sha3 |-> "ac7e95cc95aa7f24aaa95e040ca0c79b39cd9cc84a10abb84ddd8dd5e4b45cf96543aaa70d0ef99fbf8d2769639981ee1fd0b0276f4756b9d504d0b7de19b700"],
  \* e-acute (non-ASCII; frozen)
  [in |-> <<233>>, nbytes |-> 2,
   md5 |-> "66ddcd97cfdeabb2f6fb8a999b4bc76f",
   sha1 |-> "bf15be717ac1b080b4f1c456692825891ff5073d",
   sha256 |-> "4a99557e4033c3539de2eb65472017cad5f9557f7a0625a09f1c3f6e2ba69c4c",
   sha512 |-> "9e2ad28633f24451bd4f3c1cb20586a21a44c3aeedbdc01b9cc8fa72917ea7bd689c82b8bf1fef89b911cf8cc46fa2c1ccc10087b2094fd4d3350ecd88526a2c",
   sha3 |-> "240f197bab9d86d25a7b12ab903acd0df93cc8eb25f61eb4a3a24a7d710a3ee28c19a1a7b70dcc25ed8003ee5f96adf864b4d101405888d28980c44597feefc1"],
  \* nul (frozen)
  [in |-> <<0>>, nbytes |-> 1,
   md5 |-> "93b885adfe0da089cdf634904fd59f71",
   sha1 |-> "5ba93c9db0cff93f52b521d7420e43f6eda2784f",
   sha256 |-> "6e340b9cffb37a989ca544e6bb780a2c78901d3fb33738768511a30617afa01d",
   sha512 |-> "b8244d028981d693af7b456af8efa4cad63d282e19ff14942c246e50d9351d22704a802a71c3580b6370de4ceb293c324a8423342557d4e5c38438f0e36910ee",
   sha3 |-> "7127aab211f82a18d06cf7578ff49d5089017944139aa60d8bee057811a15fb55a53887600a3eceba004de51105139f32506fe5b53e1913bfa6b32e716fe97da"],
  \* controls/Latin-1 (frozen)
  [in |-> <<0, 1, 127, 128, 255>>, nbytes |-> 7,
   md5 |-> "0054717a6a7fcaed3809902753b1bb19",
   sha1 |-> "042cdb6c4b068f03c320bf809c2c54f0abb7f597",
   sha256 |-> "e715c2673696965446ad33a92312154f81848b919d3d2a4dce24da15f5fe8d96",
   sha512 |-> "e0077a7b404e2245a1f20998fb1b5d78d2598a2ca744b262892a4367f50b4a80fb4d2f35b234dc89e2e330737ac9dfd30bb01c431a041653f6c0b395ced41b25",
   sha3 |-> "3008c2c84a70b6e3afc5f9b1b0f05f5d13d61228be8ff230db30638bb7e701239bcee3f4b98e9905b5f0d7bb4aa88eac53212e69081a2fca38b78db8291949cc"],
  \* mixed planes (1-4 byte characters; frozen)
  [in |-> <<97, 233, 8364, 119070>>, nbytes |-> 10,
   md5 |-> "1289a92fee41ba07516669c6b44adf45",
   sha1 |-> "2f848c3d62383e34815b55eb40791550b71d2cfd",
   sha256 |-> "70e3d4398cf8eb429ac4e01ef40ddb4be588d87d20d49c0c5dfdf23e1769434f",
   sha512 |-> "a6cc491b6d06d4d22212bdbf956ef126697af593e26dff4ce2393534e1dafce5da9c538f85fa8505d457a22021852f4e209123be8b062a78221e26732f7432a7",
   sha3 |-> "84d01ff03ecea173a6bea5d93d390f870c0f3a179bf8276cee5c4d5ae2ebb7eee4e387c8a07e377358ca44881905ef1756557d8cacda9996d29d9eb6bca02095"],
  \* U+FFFF U+10FFFF (frozen)
  [in |-> <<65535, 1114111>>, nbytes |-> 7,
   md5 |-> "fe2b0c919758fafc74fbd7305baeb1de",
   sha1 |-> "de05c08de06ef6b7e32f6c0a8c194860416d12f7",
   sha256 |-> "d86d0676b099fd5ccc6659b8f046419a58a33a26cbe47235bc2e63c9923f1750",
   sha512 |-> "11b60fdcc7403c99be2d3b099881647a3ec587f9c97ccc34eddc5f4d2bee4a716b12af403e142fc0b97275310de4424d330b42ba8f67d732cc4c508d849d75e5",
   sha3 |-> "cde9b5f3988b65c76b3da95185d1c07844e1880a4379f87a7a5498d3d42ed75e8f2c197c04fc9d1395b6185e1e2603321ac2b69da6a9964ff2a43dec4a291bc3"],
  \* greek (frozen)
  [in |-> <<954, 8057, 963, 956, 949>>, nbytes |-> 11,
   md5 |-> "5fb6375a301f106e09e0528e592ed1bb",
   sha1 |-> "bf8ac55c2480e611c89f567e2813124cd5dfd537",
   sha256 |-> "548b82a0de50f7d16d54754ed4df1c98c4d80820d85cfa7f90c31966fba9dccd",
   sha512 |-> "5893077ddf80aa8aa5eb1c63c7a03809fbadfa44cbb9fcfb4f0c4db160c6f9aaab57f7624b3612f4688c3b59823ae956117f59ab30a6e22e482b3815fbf2b98f",
   sha3 |-> "92722d3d95a9977044a369e153fd75526e2ad843819d885ef42add38ab5ec0ea277a5097aa146da8f8b221a41eeeacece55178cbde1ea3dfe17b777f0757e853"],
  \* 27 x e-acute (55 bytes of UTF-8 (MD5/SHA padding boundary); frozen)
  [in |-> Rep(233, 27) \o <<97>>, nbytes |-> 55,
   md5 |-> "c162d8377f2e609a9fe27ee6bee9909e",
   sha1 |-> "5414d7b7d5d0bf7e558c75984d91a50e8befaaaf",
   sha256 |-> "3c9f6b7589808c2738ddef21ae17c0aeaf0c23e81346dd1b3710437826b4b28e",
   sha512 |-> "e2f3b3367516470fc8455db25193010cdceed6a85b30bf122a22642e7aa57c38314059fe9af6f1e3b2b60880093661013c28669bf68a963f2dddb42ca9076b6d",
   sha3 |-> "5aeb3d8aa67d94bea5e00e77d5825fc4f363cc8d4bcaf4e7a7e87bec4593122315c428c85e0353733c92b2c8bd59654e45bc6e98309d1316b9e936a14fdaf068"],
  \* 32 x e-acute (64 bytes of UTF-8; frozen)
  [in |-> Rep(233, 32), nbytes |-> 64,
   md5 |-> "4f9422a963487c03fd6bedc66273647e",
   sha1 |-> "90d16168fcca2364659ff956782d01245cdb3d80",
   sha256 |-> "2e5152e606afb24d5817608407516dfec44866c8ed63edbb537953895bd07aa9",
   sha512 |-> "79ae607898b49928b1a85770db958516f33e293a4e215db6f517f00b41e19e8a146f8d4fde6a013b2eb9215cb79b4b5dd8c90b5bb0bb3056f8cc514690041279",
   sha3 |-> "83b83c1c6cd998e4cb0a8caa5a25b378fdcc4b051a26d73ff69d53bc8e227cb28e351d304c1eba540338e29cf8702db8af426e5a11a112e27adeeeccc1d4f652"],
  \* 18 x g-clef (72 bytes of UTF-8 (SHA3-512 rate); frozen)
  [in |-> Rep(119070, 18), nbytes |-> 72,
   md5 |-> "6d5e913607b49938fd50d763e003163c",
   sha1 |-> "a558600c109da920cfeaf1bdc36cdd97cf292c28",
   sha256 |-> "2eeaeaaebca5fe843982a72efbde353eb0ea74371fde34572e9314ccfef245cd",
   sha512 |-> "33ef16d3076ba7edaf2b4c1cee2d4750f8bd8a5f948dbdc2ff06b4588c3ce3467b322db27d25d42fc695cddc08146ada9b25e7a634bb46d0b2e2d03d7b2d9135",
   sha3 |-> "9fce42be5564f31651b6355c7556f6b758e092c00c7911372dcdedab2dd64743c09cdfb70d47b314a7bfb513840cf0ebab4b5c317515c7321c08ffcc8f4c6a19"]
>>

Algs == {"md5", "sha1", "sha256", "sha512", "sha3"}
DigestOf(alg, row) == CASE alg = "md5" -> row.md5 [] alg = "sha1" -> row.sha1 [] alg = "sha256" -> row.sha256
                        [] alg = "sha512" -> row.sha512 [] alg = "sha3" -> row.sha3
\* the digests are functions of the UTF-8 bytes of the string; the table is consistent with that reading
LawDigestRow(i) ==
  LET row == DigestTable[i] IN
  /\ Len(EncodeUTF8(row.in)) = row.nbytes
  /\ \A j \in 1..Len(DigestTable) : j # i => \A alg \in Algs : DigestOf(alg, row) # DigestOf(alg, DigestTable[j])
LawDigestInputs == \A i, j \in 1..Len(DigestTable) : i < j => DigestTable[i].in # DigestTable[j].in
=============================================================================
