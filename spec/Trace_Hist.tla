----------------------------- MODULE Trace_Hist -----------------------------
(* Validates recorded request outcomes against HistoryIndependent.            *)
(* Events (IOEnv.TRACE):                                                       *)
(*  {"ev":"fresh","req":R,"limit":S,"out":D}  outcome D of request R on a fresh state *)
(*  {"ev":"start"}                            a new long-lived program state   *)
(*  {"ev":"req","req":R,"fresh":F,"limit":S,"out":D}  request R (fresh form F) on it *)
EXTENDS Integers, Sequences, TLC, Json, IOUtils

Rec == ndJsonDeserialize(IOEnv.TRACE)
VARIABLES l, base
Init == l = 1 /\ base = <<>>
Ev == Rec[l]
Key(r, s) == <<r, s>>

TFresh ==
  /\ l <= Len(Rec) /\ Ev.ev = "fresh" /\ l' = l + 1
  /\ LET k == Key(Ev.req, Ev.limit) IN
     IF k \in DOMAIN base THEN base[k].out = Ev.out /\ UNCHANGED base     \* fresh runs are deterministic
     ELSE base' = (k :> [out |-> Ev.out, ovf |-> Ev.ovf]) @@ base

TStart == l <= Len(Rec) /\ Ev.ev = "start" /\ l' = l + 1 /\ UNCHANGED base

\* Machine!EndRequest / Fail: the outcome is the fresh outcome of the same request under the same limit
TReq ==
  /\ l <= Len(Rec) /\ Ev.ev = "req" /\ l' = l + 1
  /\ Key(Ev.fresh, Ev.limit) \in DOMAIN base
  /\ \/ base[Key(Ev.fresh, Ev.limit)].out = Ev.out
     \* results memoised by earlier requests need fewer frames: a fresh StackOverflow may
     \* become the value the fresh state gives under a large limit - nothing else
     \/ /\ base[Key(Ev.fresh, Ev.limit)].ovf
        /\ Key(Ev.fresh, Ev.big) \in DOMAIN base
        /\ base[Key(Ev.fresh, Ev.big)].out = Ev.out
  /\ UNCHANGED base

Next == TFresh \/ TStart \/ TReq

Accepted ==
  LET d == TLCGet("stats").diameter IN
  IF d - 1 = Len(Rec) THEN TRUE
  ELSE Print(<<"REJECT", d, IF d <= Len(Rec) THEN ToJson(Rec[d]) ELSE "end">>, FALSE)
=============================================================================
