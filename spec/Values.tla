------------------------------ MODULE Values ------------------------------
(***************************************************************************)
(* Reference level: JSON-like Jsonnet values, structural equality and the  *)
(* ordering of numbers, strings and arrays, as the Jsonnet specification   *)
(* and upstream std.jsonnet define them (std.equals, std.__compare,        *)
(* std.__compare_array).                                                   *)
(*                                                                         *)
(* Value encoding (records with disjoint field sets, so TLC never compares *)
(* fields of different types):                                             *)
(*   [t |-> "null"]                                                        *)
(*   [t |-> "bool", b |-> BOOLEAN]                                         *)
(*   [t |-> "num", s |-> 1 | -1, m |-> Nat, e |-> Int]   = s * m * 2^e     *)
(*                  (m = 0, s = -1 is negative zero)                       *)
(*   [t |-> "str", c |-> Seq(code point)]                                  *)
(*   [t |-> "arr", a |-> Seq(value)]                                       *)
(*   [t |-> "obj", f |-> Seq([k |-> Seq(code point), h |-> BOOLEAN, v |-> value])] *)
(*                  fields sorted by key (code point order), h = hidden    *)
(*   [t |-> "func"]                                                        *)
(*   [t |-> "err"]   a lazily failing element (error "E"); only as an      *)
(*                   array element or a field value                        *)
(***************************************************************************)
EXTENDS Integers, Sequences, FiniteSets, TLC

Null == [t |-> "null"]
Bool(b) == [t |-> "bool", b |-> b]
Num(s, m, e) == [t |-> "num", s |-> s, m |-> m, e |-> e]
IntV(n) == IF n < 0 THEN Num(-1, -n, 0) ELSE Num(1, n, 0)
Str(c) == [t |-> "str", c |-> c]
Arr(a) == [t |-> "arr", a |-> a]
Obj(f) == [t |-> "obj", f |-> f]
Fld(k, h, v) == [k |-> k, h |-> h, v |-> v]
Func == [t |-> "func"]
ErrElem == [t |-> "err"]

Pow2(n) == LET p[i \in 0..n] == IF i = 0 THEN 1 ELSE 2 * p[i-1] IN p[n]

\* A number is the dyadic s * m * 2^e; with the optional field d it is the double |d| steps of the
\* double grid above (d > 0) or below (d < 0) the power of two 2^e (m = 1): NumD(1, 0, 1) = 1 + 2^-52,
\* NumD(1, 0, -1) = 1 - 2^-53.  Such neighbours cannot be written with a mantissa TLC can hold.
NumD(s, e, d) == [t |-> "num", s |-> s, m |-> 1, e |-> e, d |-> d]
DOf(x) == IF "d" \in DOMAIN x THEN x.d ELSE 0

RECURSIVE BitLen(_)
BitLen(m) == IF m = 0 THEN 0 ELSE 1 + BitLen(m \div 2)
\* Compare the magnitudes m * 2^e (grid offset ignored): by the position of the leading bit first, so
\* that exponents far apart never need a big shift
MagCmp(x, y) ==
  IF x.m = 0 \/ y.m = 0 THEN (IF x.m = y.m THEN 0 ELSE IF x.m = 0 THEN -1 ELSE 1)
  ELSE LET bx == BitLen(x.m) + x.e
           by == BitLen(y.m) + y.e
       IN IF bx # by THEN (IF bx < by THEN -1 ELSE 1)
          ELSE LET emin == IF x.e < y.e THEN x.e ELSE y.e
                   xv == x.m * Pow2(x.e - emin)
                   yv == y.m * Pow2(y.e - emin)
               IN IF xv < yv THEN -1 ELSE IF xv > yv THEN 1 ELSE 0

\* Compare two numbers: -1, 0, 1.  (-0 = 0; a grid offset only decides between equal base values: an
\* offset of a few steps never reaches another dyadic with a small mantissa)
NumCmp(x, y) ==
  LET sx == IF x.m = 0 THEN 0 ELSE x.s
      sy == IF y.m = 0 THEN 0 ELSE y.s
  IN IF sx # sy THEN (IF sx < sy THEN -1 ELSE 1)
     ELSE IF sx = 0 THEN 0
     ELSE LET c == MagCmp(x, y)
              dc == IF DOf(x) < DOf(y) THEN -1 ELSE IF DOf(x) > DOf(y) THEN 1 ELSE 0
              mc == IF c # 0 THEN c ELSE dc
          IN sx * mc

\* Lexicographic comparison of code point sequences: -1, 0, 1.
RECURSIVE SeqCmp(_, _)
SeqCmp(a, b) ==
  IF a = <<>> /\ b = <<>> THEN 0
  ELSE IF a = <<>> THEN -1
  ELSE IF b = <<>> THEN 1
  ELSE IF Head(a) < Head(b) THEN -1
  ELSE IF Head(a) > Head(b) THEN 1
  ELSE SeqCmp(Tail(a), Tail(b))

Visible(o) == SelectSeq(o.f, LAMBDA fl : ~fl.h)
Keys(fs) == [i \in 1..Len(fs) |-> fs[i].k]

(***************************************************************************)
(* std.equals.  Result: "true", "false" or "error".                        *)
(*  - different types: false (nothing is forced)                           *)
(*  - arrays: lengths first, then element by element, stopping at the      *)
(*    first difference                                                     *)
(*  - objects: visible field names first, then values in sorted order,     *)
(*    stopping at the first difference                                     *)
(*  - functions: error                                                     *)
(***************************************************************************)
RECURSIVE Equal(_, _)
RECURSIVE EqualSeq(_, _)
EqualSeq(xs, ys) ==
  IF xs = <<>> THEN "true"
  ELSE LET r == Equal(Head(xs), Head(ys)) IN
       IF r # "true" THEN r ELSE EqualSeq(Tail(xs), Tail(ys))

Equal(x, y) ==
  IF x.t = "err" \/ y.t = "err" THEN "error"
  ELSE IF x.t # y.t THEN "false"
  ELSE CASE x.t = "null" -> "true"
         [] x.t = "bool" -> IF x.b = y.b THEN "true" ELSE "false"
         [] x.t = "num"  -> IF NumCmp(x, y) = 0 THEN "true" ELSE "false"
         [] x.t = "str"  -> IF x.c = y.c THEN "true" ELSE "false"
         [] x.t = "func" -> "error"
         [] x.t = "arr"  -> IF Len(x.a) # Len(y.a) THEN "false" ELSE EqualSeq(x.a, y.a)
         [] x.t = "obj"  ->
              LET vx == Visible(x)  vy == Visible(y) IN
              IF Keys(vx) # Keys(vy) THEN "false"
              ELSE EqualSeq([i \in 1..Len(vx) |-> vx[i].v], [i \in 1..Len(vy) |-> vy[i].v])

Not3(r) == IF r = "true" THEN "false" ELSE IF r = "false" THEN "true" ELSE r

(***************************************************************************)
(* std.__compare.  Result: "lt", "eq", "gt" or "error".                    *)
(* Only numbers, strings and arrays (of these) are ordered.                *)
(***************************************************************************)
RECURSIVE Cmp(_, _)
RECURSIVE CmpSeq(_, _)
CmpSeq(xs, ys) ==
  IF xs = <<>> /\ ys = <<>> THEN "eq"
  ELSE IF xs = <<>> THEN "lt"
  ELSE IF ys = <<>> THEN "gt"
  ELSE LET r == Cmp(Head(xs), Head(ys)) IN
       IF r # "eq" THEN r ELSE CmpSeq(Tail(xs), Tail(ys))

Sym(n) == IF n < 0 THEN "lt" ELSE IF n > 0 THEN "gt" ELSE "eq"

Cmp(x, y) ==
  IF x.t = "err" \/ y.t = "err" THEN "error"
  ELSE IF x.t # y.t THEN "error"
  ELSE CASE x.t = "num" -> Sym(NumCmp(x, y))
         [] x.t = "str" -> Sym(SeqCmp(x.c, y.c))
         [] x.t = "arr" -> CmpSeq(x.a, y.a)
         [] OTHER -> "error"

Lt(x, y) == LET c == Cmp(x, y) IN IF c = "error" THEN "error" ELSE IF c = "lt" THEN "true" ELSE "false"
Le(x, y) == LET c == Cmp(x, y) IN IF c = "error" THEN "error" ELSE IF c # "gt" THEN "true" ELSE "false"
Gt(x, y) == LET c == Cmp(x, y) IN IF c = "error" THEN "error" ELSE IF c = "gt" THEN "true" ELSE "false"
Ge(x, y) == LET c == Cmp(x, y) IN IF c = "error" THEN "error" ELSE IF c # "lt" THEN "true" ELSE "false"
CmpNum(x, y) == LET c == Cmp(x, y) IN
  IF c = "error" THEN "error" ELSE IF c = "lt" THEN "-1" ELSE IF c = "gt" THEN "1" ELSE "0"
\* std.__compare_array accepts arrays only
CmpArr(x, y) == IF x.t = "arr" /\ y.t = "arr" THEN CmpNum(x, y) ELSE "error"
\* std.primitiveEquals: error unless both are primitives of the same type...
PrimEq(x, y) ==
  IF x.t = "err" \/ y.t = "err" THEN "error"
  ELSE IF x.t # y.t THEN "false"
  ELSE IF x.t \in {"arr", "obj", "func"} THEN "error"
  ELSE Equal(x, y)

(***************************************************************************)
(* "The same JSON value": total (no laziness), visible fields only,        *)
(* -0 equal to 0.  Defined on fully defined (error-free, function-free)    *)
(* values.                                                                 *)
(***************************************************************************)
RECURSIVE Defined(_)
Defined(x) ==
  CASE x.t \in {"err", "func"} -> FALSE
    [] x.t = "arr" -> \A i \in 1..Len(x.a) : Defined(x.a[i])
    [] x.t = "obj" -> \A i \in 1..Len(x.f) : x.f[i].h \/ Defined(x.f[i].v)
    [] OTHER -> TRUE

RECURSIVE Normal(_)
Normal(x) ==
  CASE x.t = "num" -> IF x.m = 0 THEN Num(1, 0, 0) ELSE x
    [] x.t = "arr" -> Arr([i \in 1..Len(x.a) |-> Normal(x.a[i])])
    [] x.t = "obj" -> LET v == Visible(x) IN
                      Obj([i \in 1..Len(v) |-> Fld(v[i].k, FALSE, Normal(v[i].v))])
    [] OTHER -> x

SameJson(x, y) == Normal(x) = Normal(y)

\* only ordered kinds, recursively
RECURSIVE Ordered(_)
Ordered(x) ==
  CASE x.t \in {"num", "str"} -> TRUE
    [] x.t = "arr" -> \A i \in 1..Len(x.a) : Ordered(x.a[i])
    [] OTHER -> FALSE

\* The "shape class" within which < is total: numbers / strings / arrays whose
\* elements are pairwise comparable position by position.
Comparable(x, y) == Cmp(x, y) # "error"

(***************************************************************************)
(* Laws of property C08, stated on the specification (checked by TLC over  *)
(* the universe of MC_Values).                                             *)
(***************************************************************************)
LawPair(x, y) ==
  /\ (Defined(x) => Equal(x, x) = "true")                                  \* reflexive
  /\ Equal(x, y) = Equal(y, x)                                             \* symmetric (also for errors)
  /\ (Defined(x) /\ Defined(y) => (Equal(x, y) = "true") = SameJson(x, y)) \* == iff same JSON
  /\ (Defined(x) /\ Defined(y) => Equal(x, y) \in {"true", "false"})
  /\ (Comparable(x, y) =>                                                  \* trichotomy
        /\ Cardinality({r \in {"lt", "eq", "gt"} : Cmp(x, y) = r}) = 1
        /\ (Cmp(x, y) = "lt") = (Cmp(y, x) = "gt")
        /\ (Cmp(x, y) = "eq") = (Cmp(y, x) = "eq")
        /\ (Defined(x) /\ Defined(y) => ((Cmp(x, y) = "eq") = (Equal(x, y) = "true"))))
  /\ (~(Ordered(x) /\ Ordered(y)) /\ Defined(x) /\ Defined(y) /\ x.t \notin {"arr"} => Cmp(x, y) = "error")
  /\ (Le(x, y) \in {"true", "false"} => (Le(x, y) = "true") = (Lt(x, y) = "true" \/ Cmp(x, y) = "eq"))
  /\ (Ge(x, y) \in {"true", "false"} => (Ge(x, y) = "true") = (Gt(x, y) = "true" \/ Cmp(x, y) = "eq"))

LawTriple(x, y, z) ==
  /\ (Equal(x, y) = "true" /\ Equal(y, z) = "true" /\ Defined(x) /\ Defined(y) /\ Defined(z)
        => Equal(x, z) = "true")
  /\ (Cmp(x, y) = "lt" /\ Cmp(y, z) = "lt" /\ Ordered(x) /\ Ordered(y) /\ Ordered(z)
        => Cmp(x, z) = "lt")
  /\ (Cmp(x, y) = "eq" /\ Cmp(y, z) = "lt" /\ Ordered(x) /\ Ordered(y) /\ Ordered(z)
        => Cmp(x, z) = "lt")
=============================================================================
