----------------------------- MODULE Trace_Lex -----------------------------
(* C14, first sentence, as a trace property of recorded lexer outputs.       *)
(* The trace (NDJSON, IOEnv.TRACE) concatenates many inputs:                 *)
(*   {"k":"reset","len":N}            a new input of N bytes                  *)
(*   {"k":"tok","s":S,"e":E,"tr":B}   next token of lex_to_eof(true); tr =    *)
(*                                    whitespace or comment                   *)
(*   {"k":"eof","s":S,"e":E}          its end-of-file token                   *)
(*   {"k":"err","s":S,"e":E,"c":K}    lex_to_eof(true) failed (kind K)        *)
(*   {"k":"nw","s":S,"e":E}           next token of lex_to_eof(false)         *)
(*   {"k":"nwerr","s":S,"e":E,"c":K}  lex_to_eof(false) failed                *)
(*   {"k":"end"}                      both streams of this input are complete *)
(* Accepted: a cursor that only advances by a token starting exactly at the  *)
(* cursor, from 0 to an end-of-file token at N - or exactly one error with   *)
(* 0 <= s <= e <= N and no token; the second stream is the first one without *)
(* whitespace and comments (same spans, same order, same error).            *)
EXTENDS Integers, Sequences, TLC, Json, IOUtils

Trace == ndJsonDeserialize(IOEnv.TRACE)

VARIABLES i,      \* next event
          len,    \* length of the current input
          cur,    \* the cursor
          st,     \* "idle" | "lexing" | "eof" | "error"
          kept    \* spans the second stream still has to show (or the error)
vars == <<i, len, cur, st, kept>>

Init == i = 1 /\ len = 0 /\ cur = 0 /\ st = "idle" /\ kept = <<>>
ev == Trace[i]

Reset == /\ ev.k = "reset" /\ st = "idle"
         /\ len' = ev.len /\ cur' = 0 /\ st' = "lexing" /\ kept' = <<>>
Token == /\ ev.k = "tok" /\ st = "lexing"
         /\ ev.s = cur /\ ev.e > ev.s /\ ev.e <= len
         /\ cur' = ev.e /\ kept' = (IF ev.tr THEN kept ELSE Append(kept, <<ev.s, ev.e>>))
         /\ UNCHANGED <<len, st>>
Eof   == /\ ev.k = "eof" /\ st = "lexing"
         /\ ev.s = cur /\ ev.e = cur /\ cur = len
         /\ st' = "eof" /\ kept' = Append(kept, <<ev.s, ev.e>>)
         /\ UNCHANGED <<len, cur>>
Error == /\ ev.k = "err" /\ st = "lexing" /\ cur = 0 /\ kept = <<>>
         /\ 0 <= ev.s /\ ev.s <= ev.e /\ ev.e <= len
         /\ st' = "error" /\ kept' = <<<<ev.s, ev.e, ev.c>>>>
         /\ UNCHANGED <<len, cur>>
NoWs  == /\ ev.k = "nw" /\ st = "eof" /\ kept # <<>>
         /\ <<ev.s, ev.e>> = Head(kept) /\ kept' = Tail(kept)
         /\ UNCHANGED <<len, cur, st>>
NwErr == /\ ev.k = "nwerr" /\ st = "error" /\ kept = <<<<ev.s, ev.e, ev.c>>>>
         /\ kept' = <<>>
         /\ UNCHANGED <<len, cur, st>>
End   == /\ ev.k = "end" /\ st \in {"eof", "error"} /\ kept = <<>>
         /\ st' = "idle" /\ UNCHANGED <<len, cur, kept>>

Next == /\ i <= Len(Trace)
        /\ (Reset \/ Token \/ Eof \/ Error \/ NoWs \/ NwErr \/ End)
        /\ i' = i + 1

\* the whole trace was consumed (one state per event plus the initial one)
Accepted == TLCGet("stats").diameter = Len(Trace) + 1
=============================================================================
