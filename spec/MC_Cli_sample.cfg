CONSTANT Rate = 13
INIT MCInit
NEXT MCNext
INVARIANTS Laws Emit
CHECK_DEADLOCK FALSE
