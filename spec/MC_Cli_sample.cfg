CONSTANTS Rate = 5  OpenParse = TRUE
INIT MCInit
NEXT MCNext
INVARIANTS Laws Emit
CHECK_DEADLOCK FALSE
