CONSTANTS Rate = 17  OpenParse = TRUE
INIT MCInit
NEXT MCNext
INVARIANTS Laws Emit
CHECK_DEADLOCK FALSE
