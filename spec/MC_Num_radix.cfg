CONSTANT Mode = "radix"
CONSTANT MaxLen = 0
CONSTANT Extended = TRUE
INIT Init
NEXT Next
INVARIANTS Laws Gate Emit
CHECK_DEADLOCK FALSE
