CONSTANT Modes = {"scalar", "doc", "stream", "numsoup", "soup", "mut"}
CONSTANT Big = FALSE
CONSTANT NMax = 3
CONSTANT SMin = 0
CONSTANT SMax = 3
CONSTANT SInd = {0, 2}
INIT Init
NEXT Next
INVARIANTS Laws
CHECK_DEADLOCK FALSE
