CONSTANT Modes = {"soup"}
CONSTANT Big = TRUE
CONSTANT NMax = 0
CONSTANT SMin = 0
CONSTANT SMax = 3
CONSTANT SInd = {0, 1, 2, 4}
INIT Init
NEXT Next
INVARIANTS Laws
CHECK_DEADLOCK FALSE
