CONSTANTS
  Mode = "scalar"
  Alpha = {0}
  MaxLen = 37
  First = {0}
INIT Init
NEXT Next
INVARIANTS Laws Emit
CHECK_DEADLOCK FALSE
