-------------------------------- MODULE Sem --------------------------------
(***************************************************************************)
(* Reference semantics of the Jsonnet core language: big-step, environment *)
(* based, CALL-BY-NAME (no heap, no memoisation - so laziness is obvious   *)
(* and sharing cannot be got wrong), with objects as sequences of layers   *)
(* and self/super passed at field evaluation (the denotational reading of  *)
(* the Jsonnet specification).  Written from the language definition, not  *)
(* from the Rust code.                                                     *)
(*                                                                         *)
(* AST (tuples, tag first).  Identifiers are TLC strings, string literal   *)
(* contents are sequences of code points.                                  *)
(*   <<"null">> <<"true">> <<"false">> <<"num", n>> <<"str", cps>>         *)
(*   <<"var", x>> <<"self">> <<"dollar">>                                  *)
(*   <<"local", <<b1,..>>, body>>        b = <<x, e>>                      *)
(*   <<"if", c, t, e>>   <<"if2", c, t>>                                   *)
(*   <<"bin", op, l, r>> <<"un", op, e>>                                   *)
(*   <<"arr", <<e..>>>>  <<"index", e, i>>  <<"field", e, x>>              *)
(*   <<"slice", e, a, b, s>>             a,b,s = expr or <<"none">>        *)
(*   <<"func", <<p..>>, body>>           p = <<x, default | <<"nodef">>>>  *)
(*   <<"call", f, <<pos..>>, <<named..>>, tailstrict>>  named = <<x, e>>   *)
(*   <<"obj", <<m..>>>>  m = <<"fld", name, vis, plus, e>>                 *)
(*                           | <<"olocal", x, e>> | <<"oassert", c, msg>>  *)
(*                       name = <<"id", x>> | <<"expr", e>>                *)
(*                       vis = "d" (:) | "h" (::) | "v" (:::)              *)
(*   <<"objcomp", nameExpr, valExpr, <<olocal..>>, <<spec..>>>>            *)
(*   <<"arrcomp", e, <<spec..>>>>        spec = <<"for", x, e>> | <<"cif", e>> *)
(*   <<"superf", x>> <<"superi", e>> <<"insuper", e>>                      *)
(*   <<"error", e>>  <<"assert", c, msg | <<"none">>, rest>>               *)
(*   <<"std", fname, <<arg..>>>>                                           *)
(*                                                                         *)
(* Results: <<"ok", v>> | <<"err", kind, msg>> | <<"bottom">> (fuel ran    *)
(* out) | <<"outside">> (left the domain this specification decides).      *)
(* kind: "explicit" (error e), "assert", "runtime", "any" (an error whose  *)
(* identity depends on unspecified evaluation order).                      *)
(***************************************************************************)
EXTENDS Integers, Sequences, FiniteSets, TLC

\* Reading of std.objectRemoveKey that the property leaves open:
\*   1 = the field is deleted from every layer (late binding of the rest is kept)
\*   2 = a snapshot: every remaining field is bound to the original object's field
\* A program whose outcome differs between the two readings is outside the domain.
CONSTANT RmMode

Ok(v) == <<"ok", v>>
Err(k, m) == <<"err", k, m>>
ErrAny == <<"err", "any", <<>>>>
RtErr == <<"err", "runtime", <<>>>>
Bottom == <<"bottom">>
Outside == <<"outside">>

IsOk(r) == r[1] = "ok"

Bind(r, F(_)) == IF r[1] = "ok" THEN F(r[2]) ELSE r

\* Two strict operands whose evaluation order is unspecified.
Both(r1, r2, F(_, _)) ==
  IF r1[1] = "ok" /\ r2[1] = "ok" THEN F(r1[2], r2[2])
  ELSE IF r1[1] = "outside" \/ r2[1] = "outside" THEN Outside
  ELSE IF r1[1] = "bottom" \/ r2[1] = "bottom" THEN Bottom
  ELSE IF r1[1] = "err" /\ r2[1] = "err" THEN (IF r1 = r2 THEN r1 ELSE ErrAny)
  ELSE IF r1[1] = "err" THEN r1 ELSE r2

\* Combine a sequence of results that are all demanded, in unspecified order.
RECURSIVE AllOf(_)
AllOf(rs) ==
  IF rs = <<>> THEN Ok(<<>>)
  ELSE Both(Head(rs), AllOf(Tail(rs)), LAMBDA v, vs : Ok(<<v>> \o vs))

NullV == <<"null">>
BoolV(b) == <<"bool", b>>
NumV(n) == <<"num", n>>
StrV(c) == <<"str", c>>
ArrV(ts) == <<"arr", ts>>
ObjV(layers, checked) == <<"obj", layers, checked>>
FuncV(ps, body, env, sc) == <<"func", ps, body, env, sc>>

ValTh(v) == <<"val", v>>
Th(e, env, sc) == <<"th", e, env, sc>>
NoSc == <<"nosc">>
Sc(layers, i, checked) == <<"sc", layers, i, checked>>

MaxNum == 1000000     \* numbers beyond this leave the decided domain
InDom(n) == n >= -MaxNum /\ n <= MaxNum
NumR(n) == IF InDom(n) THEN Ok(NumV(n)) ELSE Outside

TypeName(v) ==
  CASE v[1] = "null" -> "null" [] v[1] = "bool" -> "boolean" [] v[1] = "num" -> "number"
    [] v[1] = "str" -> "string" [] v[1] = "arr" -> "array" [] v[1] = "obj" -> "object"
    [] v[1] = "func" -> "function"

\* identifiers are single lower-case letters; their code point
LetterCode(c) ==
  CASE c = "a" -> 97 [] c = "b" -> 98 [] c = "c" -> 99 [] c = "d" -> 100 [] c = "e" -> 101
    [] c = "f" -> 102 [] c = "g" -> 103 [] c = "h" -> 104 [] c = "i" -> 105 [] c = "j" -> 106
    [] c = "k" -> 107 [] c = "l" -> 108 [] c = "m" -> 109 [] c = "n" -> 110 [] c = "o" -> 111
    [] c = "p" -> 112 [] c = "q" -> 113 [] c = "r" -> 114 [] c = "s" -> 115 [] c = "t" -> 116
    [] c = "u" -> 117 [] c = "v" -> 118 [] c = "w" -> 119 [] c = "x" -> 120 [] c = "y" -> 121
    [] c = "z" -> 122
Ascii1(c) == <<LetterCode(c)>>

TypeCps(v) ==
  CASE v[1] = "null" -> <<110,117,108,108>> [] v[1] = "bool" -> <<98,111,111,108,101,97,110>>
    [] v[1] = "num" -> <<110,117,109,98,101,114>> [] v[1] = "str" -> <<115,116,114,105,110,103>>
    [] v[1] = "arr" -> <<97,114,114,97,121>> [] v[1] = "obj" -> <<111,98,106,101,99,116>>
    [] v[1] = "func" -> <<102,117,110,99,116,105,111,110>>

\* decimal digits of an integer as code points
RECURSIVE NatCps(_)
NatCps(n) == IF n < 10 THEN <<48 + n>> ELSE NatCps(n \div 10) \o <<48 + (n % 10)>>
IntCps(n) == IF n < 0 THEN <<45>> \o NatCps(-n) ELSE NatCps(n)

\* lexicographic comparison of code point sequences: -1, 0, 1
RECURSIVE CpsCmp(_, _)
CpsCmp(a, b) ==
  IF a = <<>> /\ b = <<>> THEN 0 ELSE IF a = <<>> THEN -1 ELSE IF b = <<>> THEN 1
  ELSE IF Head(a) < Head(b) THEN -1 ELSE IF Head(a) > Head(b) THEN 1
  ELSE CpsCmp(Tail(a), Tail(b))

\* insertion sort of a set of code point sequences
RECURSIVE SortCps(_)
SortCps(S) ==
  IF S = {} THEN <<>>
  ELSE LET m == CHOOSE x \in S : \A y \in S : CpsCmp(x, y) <= 0 IN <<m>> \o SortCps(S \ {m})

Range(s) == {s[i] : i \in 1..Len(s)}

-----------------------------------------------------------------------------
(* Environments: a sequence of frames, innermost last.                      *)
(*   <<"vals", <<x..>>, <<thunk..>>>>                                       *)
(*   <<"rec", <<<<x, e>>..>>, sc>>      e is evaluated in the prefix of the *)
(*                                      environment up to and including     *)
(*                                      this frame (recursive group)        *)
(*   <<"params", <<x..>>, <<b..>>, sc>> b = thunk | <<"dflt", e>>; defaults *)
(*                                      see all parameters                  *)
FrameNames(f) ==
  CASE f[1] = "vals" -> Range(f[2])
    [] f[1] = "rec" -> {f[2][i][1] : i \in 1..Len(f[2])}
    [] f[1] = "params" -> Range(f[2])

Bound(env, x) == \E k \in 1..Len(env) : x \in FrameNames(env[k])

IndexOf(s, x) == CHOOSE i \in 1..Len(s) : s[i] = x

-----------------------------------------------------------------------------
(* Objects: sequence of layers, base first.                                 *)
(*  layer = <<"layer", fields, olocals, asserts, env, top>>                 *)
(*  field = <<nameCps, vis, plus, expr, extra>>  extra = <<>> | a frame     *)
LFields(l) == l[2]
LLocals(l) == l[3]
LAsserts(l) == l[4]
LEnv(l) == l[5]
LTop(l) == l[6]

HasField(l, name) == \E i \in 1..Len(LFields(l)) : LFields(l)[i][1] = name
GetField(l, name) == LFields(l)[CHOOSE i \in 1..Len(LFields(l)) : LFields(l)[i][1] = name]

\* index of the top-most layer <= from that defines name, 0 if none
FindLayer(layers, from, name) ==
  LET js == {j \in 1..from : HasField(layers[j], name)} IN
  IF js = {} THEN 0 ELSE CHOOSE j \in js : \A k \in js : k <= j

AllNames(layers) == UNION {{LFields(layers[j])[i][1] : i \in 1..Len(LFields(layers[j]))} : j \in 1..Len(layers)}

\* visibility after inheritance: a default-visibility override keeps the inherited one
RECURSIVE VisUpTo(_, _, _)
VisUpTo(layers, j, name) ==
  IF j = 0 THEN "none"
  ELSE LET below == VisUpTo(layers, j - 1, name) IN
       IF ~HasField(layers[j], name) THEN below
       ELSE LET v == GetField(layers[j], name)[2] IN
            IF v = "d" THEN (IF below = "none" THEN "d" ELSE below) ELSE v
VisOf(layers, name) == VisUpTo(layers, Len(layers), name)
VisibleNames(layers) == {n \in AllNames(layers) : VisOf(layers, n) # "h"}

-----------------------------------------------------------------------------
RECURSIVE Eval(_, _, _, _)
RECURSIVE Force(_, _)
RECURSIVE Lookup(_, _, _)
RECURSIVE FieldOf(_, _, _, _, _)
RECURSIVE ObjIndex(_, _, _)
RECURSIVE CheckAsserts(_, _)
RECURSIVE Call(_, _, _, _)
RECURSIVE EqualV(_, _, _)
RECURSIVE EqualTh(_, _, _)
RECURSIVE CmpV(_, _, _)
RECURSIVE CmpTh(_, _, _)
RECURSIVE ToStr(_, _, _)
RECURSIVE ToStrSeq(_, _, _)
RECURSIVE Manifest(_, _)
RECURSIVE CompSpecs(_, _, _, _, _)
RECURSIVE BinOp(_, _, _, _)
RECURSIVE StdCall(_, _, _, _, _)
RECURSIVE LibCall(_, _, _, _, _)
RECURSIVE FoldR(_, _, _, _)
RECURSIVE FlatDeep(_, _)
RECURSIVE DeepJoin(_, _)
RECURSIVE MinMaxScan(_, _, _, _, _)
RECURSIVE FoldL(_, _, _, _)
RECURSIVE ForceAll(_, _)
RECURSIVE FromJson(_)
RECURSIVE PruneJ(_)
RECURSIVE MergePatchJ(_, _)

Force(t, fuel) ==
  IF t[1] = "val" THEN Ok(t[2])
  ELSE Eval(t[2], t[3], t[4], fuel)

Lookup(env, x, fuel) ==
  LET ks == {k \in 1..Len(env) : x \in FrameNames(env[k])} IN
  IF ks = {} THEN Err("unbound", <<>>)
  ELSE LET k == CHOOSE k \in ks : \A j \in ks : j <= k
           f == env[k] IN
       CASE f[1] = "vals" -> Force(f[3][IndexOf(f[2], x)], fuel)
         [] f[1] = "rec" ->
              LET b == f[2][CHOOSE i \in 1..Len(f[2]) : f[2][i][1] = x] IN
              Eval(b[2], SubSeq(env, 1, k), f[3], fuel)
         [] f[1] = "params" ->
              LET b == f[3][IndexOf(f[2], x)] IN
              IF b[1] = "dflt" THEN Eval(b[2], SubSeq(env, 1, k), f[4], fuel)
              ELSE Force(b, fuel)

\* The thunk (as seen from outside) of variable x, without forcing it.
ThunkOfVar(env, x) == Th(<<"var", x>>, env, NoSc)

SelfV(sc) == ObjV(sc[2], sc[4])

\* Environment in which members of layer j of the object are evaluated.
MemberEnv(layers, j, checked, extra) ==
  LET l == layers[j]
      sc == Sc(layers, j, checked)
      e1 == IF extra = <<>> THEN LEnv(l) ELSE LEnv(l) \o <<extra>>
      e2 == IF LTop(l) THEN e1 \o << <<"vals", <<"$">>, <<ValTh(ObjV(layers, checked))>> >> >> ELSE e1
  IN IF LLocals(l) = <<>> THEN e2 ELSE e2 \o << <<"rec", LLocals(l), sc>> >>

\* Value of field `name` looked up from layer `from` downwards (self stays the whole object).
FieldOf(layers, from, name, checked, fuel) ==
  IF fuel = 0 THEN Bottom ELSE
  LET j == FindLayer(layers, from, name) IN
  IF j = 0 THEN RtErr
  ELSE LET f == GetField(layers[j], name)
           own == Eval(f[4], MemberEnv(layers, j, checked, f[5]), Sc(layers, j, checked), fuel - 1)
       IN IF f[3] /\ FindLayer(layers, j - 1, name) # 0
          THEN Both(FieldOf(layers, j - 1, name, checked, fuel - 1), own,
                    LAMBDA a, b : BinOp("+", a, b, fuel - 1))
          ELSE own

\* All object assertions hold (self = the object, marked as checked while they run).
CheckAsserts(layers, fuel) ==
  IF fuel = 0 THEN Bottom ELSE
  LET all == UNION {{<<j, i>> : i \in 1..Len(LAsserts(layers[j]))} : j \in 1..Len(layers)}
      one(p) == LET a == LAsserts(layers[p[1]])[p[2]]
                    env == MemberEnv(layers, p[1], TRUE, <<>>)
                    sc == Sc(layers, p[1], TRUE)
                    c == Eval(a[1], env, sc, fuel - 1)
                IN Bind(c, LAMBDA cv :
                     IF cv[1] # "bool" THEN RtErr
                     ELSE IF cv[2] THEN Ok(TRUE)
                     ELSE IF a[2] = <<"none">> THEN Err("assert", <<-1>>)
                     ELSE Bind(Eval(a[2], env, sc, fuel - 1), LAMBDA mv :
                            IF mv[1] = "str" THEN Err("assert", mv[2]) ELSE Outside))
      rs == {one(p) : p \in all}
      bad == {r \in rs : r[1] # "ok"}
  IN IF bad = {} THEN Ok(TRUE)
     ELSE IF \E r \in bad : r[1] = "outside" THEN Outside
     ELSE IF \E r \in bad : r[1] = "bottom" THEN Bottom
     ELSE IF Cardinality(bad) = 1 THEN CHOOSE r \in bad : TRUE
     ELSE ErrAny

\* o[name] / o.name from outside: assertions first, then the field.
ObjIndex(o, name, fuel) ==
  IF fuel = 0 THEN Bottom ELSE
  LET layers == o[2]
      chk == IF o[3] THEN Ok(TRUE) ELSE CheckAsserts(layers, fuel - 1) IN
  IF FindLayer(layers, Len(layers), name) = 0
  THEN (IF chk[1] = "err" THEN ErrAny ELSE Bind(chk, LAMBDA ignore : RtErr))
  ELSE Bind(chk, LAMBDA ignore : FieldOf(layers, Len(layers), name, TRUE, fuel - 1))

Call(f, pos, named, fuel) ==
  IF fuel = 0 THEN Bottom ELSE
  IF f[1] # "func" THEN RtErr ELSE
  LET ps == f[2]
      names == [i \in 1..Len(ps) |-> ps[i][1]]
      nnames == [i \in 1..Len(named) |-> named[i][1]] IN
  IF Len(pos) > Len(ps) THEN RtErr
  ELSE IF \E i \in 1..Len(named) : nnames[i] \notin Range(names) THEN RtErr
  ELSE IF \E i, j \in 1..Len(named) : i # j /\ nnames[i] = nnames[j] THEN RtErr
  ELSE IF \E i \in 1..Len(named) : IndexOf(names, nnames[i]) <= Len(pos) THEN RtErr
  ELSE LET bound == [i \in 1..Len(ps) |->
                       IF i <= Len(pos) THEN pos[i]
                       ELSE IF names[i] \in Range(nnames) THEN named[IndexOf(nnames, names[i])][2]
                       ELSE IF ps[i][2] = <<"nodef">> THEN <<"missing">>
                       ELSE <<"dflt", ps[i][2]>>] IN
       IF \E i \in 1..Len(ps) : bound[i] = <<"missing">> THEN RtErr
       ELSE Eval(f[3], f[4] \o << <<"params", names, bound, f[5]>> >>, f[5], fuel - 1)

EqualTh(t1, t2, fuel) ==
  Both(Force(t1, fuel), Force(t2, fuel), LAMBDA a, b : EqualV(a, b, fuel))

\* std.equals: Ok(TRUE/FALSE) or error.
EqualV(a, b, fuel) ==
  IF fuel = 0 THEN Bottom ELSE
  IF a[1] # b[1] THEN Ok(FALSE)
  ELSE CASE a[1] = "null" -> Ok(TRUE)
         [] a[1] \in {"bool", "num", "str"} -> Ok(a[2] = b[2])
         [] a[1] = "func" -> RtErr
         [] a[1] = "arr" ->
              IF Len(a[2]) # Len(b[2]) THEN Ok(FALSE)
              ELSE LET go[i \in 0..Len(a[2])] ==
                         \* go[i]: elements i+1.. are equal
                         IF i = Len(a[2]) THEN Ok(TRUE)
                         ELSE Bind(EqualTh(a[2][i+1], b[2][i+1], fuel - 1),
                                   LAMBDA e : IF e THEN go[i+1] ELSE Ok(FALSE))
                   IN go[0]
         [] a[1] = "obj" ->
              LET na == SortCps(VisibleNames(a[2]))  nb == SortCps(VisibleNames(b[2])) IN
              IF na # nb THEN Ok(FALSE)
              ELSE LET go[i \in 0..Len(na)] ==
                         IF i = Len(na) THEN Ok(TRUE)
                         ELSE Bind(Both(ObjIndex(a, na[i+1], fuel - 1), ObjIndex(b, na[i+1], fuel - 1),
                                        LAMBDA x, y : EqualV(x, y, fuel - 1)),
                                   LAMBDA e : IF e THEN go[i+1] ELSE Ok(FALSE))
                   IN go[0]

CmpTh(t1, t2, fuel) ==
  Both(Force(t1, fuel), Force(t2, fuel), LAMBDA a, b : CmpV(a, b, fuel))

\* std.__compare: Ok(-1/0/1) or error
CmpV(a, b, fuel) ==
  IF fuel = 0 THEN Bottom ELSE
  IF a[1] # b[1] THEN RtErr
  ELSE CASE a[1] = "num" -> Ok(IF a[2] < b[2] THEN -1 ELSE IF a[2] > b[2] THEN 1 ELSE 0)
         [] a[1] = "str" -> Ok(CpsCmp(a[2], b[2]))
         [] a[1] = "arr" ->
              LET n == IF Len(a[2]) < Len(b[2]) THEN Len(a[2]) ELSE Len(b[2])
                  go[i \in 0..n] ==
                    IF i = n THEN Ok(IF Len(a[2]) < Len(b[2]) THEN -1 ELSE IF Len(a[2]) > Len(b[2]) THEN 1 ELSE 0)
                    ELSE Bind(CmpTh(a[2][i+1], b[2][i+1], fuel - 1),
                              LAMBDA c : IF c # 0 THEN Ok(c) ELSE go[i+1])
              IN go[0]
         [] OTHER -> RtErr

\* simple characters only: anything that would need escaping leaves the domain
PlainCps(c) == \A i \in 1..Len(c) : c[i] >= 32 /\ c[i] <= 126 /\ c[i] # 34 /\ c[i] # 92

RECURSIVE JoinCps(_, _)
JoinCps(parts, sep) ==
  IF parts = <<>> THEN <<>> ELSE IF Len(parts) = 1 THEN parts[1]
  ELSE parts[1] \o sep \o JoinCps(Tail(parts), sep)

ToStrSeq(ts, fuel, quoteStrings) ==
  AllOf([i \in 1..Len(ts) |-> Bind(Force(ts[i], fuel), LAMBDA v : ToStr(v, fuel, TRUE))])

\* std.toString(v) as code points (strings quoted when nested)
ToStr(v, fuel, nested) ==
  IF fuel = 0 THEN Bottom ELSE
  CASE v[1] = "null" -> Ok(<<110,117,108,108>>)
    [] v[1] = "bool" -> Ok(IF v[2] THEN <<116,114,117,101>> ELSE <<102,97,108,115,101>>)
    [] v[1] = "num" -> Ok(IntCps(v[2]))
    [] v[1] = "str" -> IF ~nested THEN Ok(v[2])
                       ELSE IF PlainCps(v[2]) THEN Ok(<<34>> \o v[2] \o <<34>>) ELSE Outside
    [] v[1] = "func" -> RtErr
    [] v[1] = "arr" ->
         IF v[2] = <<>> THEN Ok(<<91, 32, 93>>)
         ELSE Bind(ToStrSeq(v[2], fuel - 1, TRUE),
                   LAMBDA parts : Ok(<<91>> \o JoinCps(parts, <<44, 32>>) \o <<93>>))
    [] v[1] = "obj" ->
         LET names == SortCps(VisibleNames(v[2]))
             chk == IF v[3] THEN Ok(TRUE) ELSE CheckAsserts(v[2], fuel - 1) IN
         Bind(chk, LAMBDA ignore :
           IF names = <<>> THEN Ok(<<123, 32, 125>>)
           ELSE IF \E i \in 1..Len(names) : ~PlainCps(names[i]) THEN Outside
           ELSE Bind(AllOf([i \in 1..Len(names) |->
                        Bind(FieldOf(v[2], Len(v[2]), names[i], TRUE, fuel - 1),
                             LAMBDA fv : Bind(ToStr(fv, fuel - 1, TRUE),
                               LAMBDA s : Ok(<<34>> \o names[i] \o <<34, 58, 32>> \o s)))]),
                     LAMBDA parts : Ok(<<123>> \o JoinCps(parts, <<44, 32>>) \o <<125>>)))

-----------------------------------------------------------------------------
(* Bit operations on non-negative operands (negative ones leave the domain) *)
RECURSIVE BitOp(_, _, _)
BitOp(op, a, b) ==
  IF a = 0 /\ b = 0 THEN 0
  ELSE LET x == a % 2  y == b % 2
           z == CASE op = "&" -> IF x = 1 /\ y = 1 THEN 1 ELSE 0
                  [] op = "|" -> IF x = 1 \/ y = 1 THEN 1 ELSE 0
                  [] op = "^" -> IF x # y THEN 1 ELSE 0
       IN z + 2 * BitOp(op, a \div 2, b \div 2)

Pow2(n) == LET p[i \in 0..n] == IF i = 0 THEN 1 ELSE 2 * p[i-1] IN p[n]

\* truncating division helpers for % (sign follows the dividend, like C fmod)
Fmod(a, b) == LET r == (IF a < 0 THEN -a ELSE a) % (IF b < 0 THEN -b ELSE b) IN IF a < 0 THEN -r ELSE r

BinOp(op, a, b, fuel) ==
  IF fuel = 0 THEN Bottom ELSE
  CASE op = "+" ->
         IF a[1] = "num" /\ b[1] = "num" THEN NumR(a[2] + b[2])
         ELSE IF a[1] = "str" /\ b[1] = "str" THEN Ok(StrV(a[2] \o b[2]))
         ELSE IF a[1] = "str" THEN Bind(ToStr(b, fuel - 1, FALSE), LAMBDA s : Ok(StrV(a[2] \o s)))
         ELSE IF b[1] = "str" THEN Bind(ToStr(a, fuel - 1, FALSE), LAMBDA s : Ok(StrV(s \o b[2])))
         ELSE IF a[1] = "arr" /\ b[1] = "arr" THEN Ok(ArrV(a[2] \o b[2]))
         ELSE IF a[1] = "obj" /\ b[1] = "obj" THEN Ok(ObjV(a[2] \o b[2], FALSE))
         ELSE RtErr
    [] op = "-" -> IF a[1] = "num" /\ b[1] = "num" THEN NumR(a[2] - b[2]) ELSE RtErr
    [] op = "*" -> IF a[1] = "num" /\ b[1] = "num" THEN
                      (IF InDom(a[2]) /\ InDom(b[2]) /\ (a[2] = 0 \/ b[2] = 0 \/
                           (IF a[2] < 0 THEN -a[2] ELSE a[2]) <= MaxNum \div (IF b[2] < 0 THEN -b[2] ELSE b[2]))
                       THEN NumR(a[2] * b[2]) ELSE Outside)
                   ELSE RtErr
    [] op = "/" -> IF a[1] = "num" /\ b[1] = "num" THEN
                      (IF b[2] = 0 THEN RtErr
                       ELSE IF Fmod(a[2], b[2]) = 0
                            THEN NumR((IF (a[2] < 0) # (b[2] < 0) THEN -1 ELSE 1) *
                                      ((IF a[2] < 0 THEN -a[2] ELSE a[2]) \div (IF b[2] < 0 THEN -b[2] ELSE b[2])))
                            ELSE Outside)
                   ELSE RtErr
    [] op = "%" -> IF a[1] = "num" /\ b[1] = "num" THEN
                      (IF b[2] = 0 THEN RtErr ELSE NumR(Fmod(a[2], b[2])))
                   ELSE IF a[1] = "str" THEN Outside     \* formatting: see Fmt.tla
                   ELSE RtErr
    [] op \in {"&", "|", "^"} ->
         IF a[1] = "num" /\ b[1] = "num" THEN
            (IF a[2] >= 0 /\ b[2] >= 0 THEN NumR(BitOp(op, a[2], b[2])) ELSE Outside)
         ELSE RtErr
    [] op = "<<" -> IF a[1] = "num" /\ b[1] = "num" THEN
                      (IF b[2] < 0 THEN RtErr
                       ELSE IF a[2] >= 0 /\ b[2] <= 12 /\ a[2] <= 100 THEN NumR(a[2] * Pow2(b[2])) ELSE Outside)
                    ELSE RtErr
    [] op = ">>" -> IF a[1] = "num" /\ b[1] = "num" THEN
                      (IF b[2] < 0 THEN RtErr
                       ELSE IF a[2] >= 0 /\ b[2] <= 30 THEN NumR(a[2] \div Pow2(b[2])) ELSE Outside)
                    ELSE RtErr
    [] op = "==" -> Bind(EqualV(a, b, fuel - 1), LAMBDA e : Ok(BoolV(e)))
    [] op = "!=" -> Bind(EqualV(a, b, fuel - 1), LAMBDA e : Ok(BoolV(~e)))
    [] op = "<"  -> Bind(CmpV(a, b, fuel - 1), LAMBDA c : Ok(BoolV(c < 0)))
    [] op = "<=" -> Bind(CmpV(a, b, fuel - 1), LAMBDA c : Ok(BoolV(c <= 0)))
    [] op = ">"  -> Bind(CmpV(a, b, fuel - 1), LAMBDA c : Ok(BoolV(c > 0)))
    [] op = ">=" -> Bind(CmpV(a, b, fuel - 1), LAMBDA c : Ok(BoolV(c >= 0)))
    [] op = "in" -> IF a[1] = "str" /\ b[1] = "obj" THEN Ok(BoolV(a[2] \in AllNames(b[2]))) ELSE RtErr

-----------------------------------------------------------------------------
(* Comprehension clauses, left to right.  Returns Ok(sequence of frames),   *)
(* one "vals" frame per produced element, each binding all loop variables.  *)
CompSpecs(specs, env, sc, acc, fuel) ==
  \* acc = <<names, thunks>> bound so far
  IF fuel = 0 THEN Bottom ELSE
  IF specs = <<>> THEN Ok(<< <<"vals", acc[1], acc[2]>> >>)
  ELSE LET s == Head(specs)
           cur == IF acc[1] = <<>> THEN env ELSE env \o << <<"vals", acc[1], acc[2]>> >> IN
       IF s[1] = "cif" THEN
          Bind(Eval(s[2], cur, sc, fuel - 1), LAMBDA c :
            IF c[1] # "bool" THEN RtErr
            ELSE IF c[2] THEN CompSpecs(Tail(specs), env, sc, acc, fuel - 1) ELSE Ok(<<>>))
       ELSE
          Bind(Eval(s[3], cur, sc, fuel - 1), LAMBDA a :
            IF a[1] # "arr" THEN RtErr
            ELSE LET go[i \in 0..Len(a[2])] ==
                       IF i = Len(a[2]) THEN Ok(<<>>)
                       ELSE Both(CompSpecs(Tail(specs), env, sc,
                                           <<Append(acc[1], s[2]), Append(acc[2], a[2][i+1])>>, fuel - 1),
                                 go[i+1], LAMBDA x, y : Ok(x \o y))
                 IN go[0])

ForceAll(ts, fuel) == AllOf([i \in 1..Len(ts) |-> Force(ts[i], fuel)])

\* std.foldl as upstream defines it: the running value is forced at every step
\* (`aux(..., func(running, arr[idx]), idx + 1) tailstrict`), the initial value is not.
FoldL(f, ts, acc, fuel) ==
  IF fuel = 0 THEN Bottom ELSE
  IF ts = <<>> THEN Force(acc, fuel)
  ELSE Bind(Force(Th(<<"call", <<"var", "f">>, << <<"var", "a">>, <<"var", "x">> >>, <<>>, FALSE>>,
                     << <<"vals", <<"f", "a", "x">>, <<ValTh(f), acc, Head(ts)>> >> >>, NoSc), fuel - 1),
            LAMBDA v : FoldL(f, Tail(ts), ValTh(v), fuel - 1))

\* A thunk that applies function value f to argument thunks.
AppTh(f, args) ==
  LET names == [i \in 1..Len(args) |-> CASE i = 1 -> "a1" [] i = 2 -> "a2" [] i = 3 -> "a3"]
  IN Th(<<"call", <<"var", "f">>, [i \in 1..Len(args) |-> <<"var", names[i]>>], <<>>, FALSE>>,
        << <<"vals", <<"f">> \o names, <<ValTh(f)>> \o args>> >>, NoSc)


\* A manifested JSON value (Values.tla encoding) as a run-time value (plain data).
FromJson(j) ==
  CASE j.t = "null" -> NullV
    [] j.t = "bool" -> BoolV(j.b)
    [] j.t = "num" -> NumV(j.s * j.m)
    [] j.t = "str" -> StrV(j.c)
    [] j.t = "arr" -> ArrV([i \in 1..Len(j.a) |-> ValTh(FromJson(j.a[i]))])
    [] j.t = "obj" ->
         ObjV(<< <<"layer", [i \in 1..Len(j.f) |-> <<j.f[i].k, "d", FALSE, <<"var", "v">>,
                                                   <<"vals", <<"v">>, <<ValTh(FromJson(j.f[i].v))>> >> >>],
                   <<>>, <<>>, <<>>, TRUE>> >>, TRUE)

JEmpty(j) == (j.t = "null") \/ (j.t = "arr" /\ j.a = <<>>) \/ (j.t = "obj" /\ j.f = <<>>)

\* std.prune on JSON data: drop null / empty array / empty object members, recursively
PruneJ(j) ==
  CASE j.t = "arr" ->
         LET ps == [i \in 1..Len(j.a) |-> PruneJ(j.a[i])] IN
         [t |-> "arr", a |-> SelectSeq(ps, LAMBDA x : ~JEmpty(x))]
    [] j.t = "obj" ->
         LET ps == [i \in 1..Len(j.f) |-> [k |-> j.f[i].k, h |-> FALSE, v |-> PruneJ(j.f[i].v)]] IN
         [t |-> "obj", f |-> SelectSeq(ps, LAMBDA x : ~JEmpty(x.v))]
    [] OTHER -> j

JKeys(j) == {j.f[i].k : i \in 1..Len(j.f)}
JGet(j, k) == j.f[CHOOSE i \in 1..Len(j.f) : j.f[i].k = k].v

\* std.mergePatch (RFC 7396) on JSON data
MergePatchJ(target, patch) ==
  IF patch.t # "obj" THEN patch
  ELSE LET tgt == IF target.t = "obj" THEN target ELSE [t |-> "obj", f |-> <<>>]
           nulls == {k \in JKeys(patch) : JGet(patch, k).t = "null"}
           keys == SortCps((JKeys(tgt) \cup JKeys(patch)) \ nulls) IN
       [t |-> "obj", f |-> [i \in 1..Len(keys) |->
          [k |-> keys[i], h |-> FALSE,
           v |-> IF keys[i] \notin JKeys(patch) THEN JGet(tgt, keys[i])
                 ELSE IF keys[i] \notin JKeys(tgt) THEN MergePatchJ([t |-> "null"], JGet(patch, keys[i]))
                 ELSE MergePatchJ(JGet(tgt, keys[i]), JGet(patch, keys[i]))]]]

RemoveKey(o, k) ==
  LET layers == o[2] IN
  IF RmMode = 1 THEN
     ObjV([j \in 1..Len(layers) |->
             <<"layer", SelectSeq(LFields(layers[j]), LAMBDA f : f[1] # k), LLocals(layers[j]),
               LAsserts(layers[j]), LEnv(layers[j]), LTop(layers[j])>>], FALSE)
  ELSE
     LET names == SortCps(AllNames(layers) \ {k}) IN
     ObjV(<< <<"layer", [i \in 1..Len(names) |->
                          <<names[i], VisOf(layers, names[i]), FALSE,
                            <<"index", <<"var", "o">>, <<"str", names[i]>> >>,
                            <<"vals", <<"o">>, <<ValTh(o)>> >> >>],
               <<>>, <<>>, <<>>, TRUE>> >>, FALSE)

\* v[a:b:s] on values; ix = <<a, b, s>>, each null or a number (also std.slice(v, a, b, s)).
\* Positions count elements of an array / code points of a string; a negative bound counts from the end
\* (upstream std.slice: index < 0 -> std.max(0, length + index), end < 0 -> length + end); the step must be positive.
SliceV(v, ix) ==
  IF v[1] \notin {"arr", "str"} THEN RtErr
  ELSE IF \E k \in 1..3 : ix[k][1] \notin {"null", "num"} THEN RtErr
  ELSE LET n == Len(v[2])
           fromEnd(i) == IF i >= 0 THEN i ELSE IF n + i < 0 THEN 0 ELSE n + i
           a == IF ix[1][1] = "null" THEN 0 ELSE fromEnd(ix[1][2])
           b0 == IF ix[2][1] = "null" THEN n ELSE fromEnd(ix[2][2])
           b == IF b0 > n THEN n ELSE b0
           s == IF ix[3][1] = "null" THEN 1 ELSE ix[3][2] IN
       IF s <= 0 THEN RtErr
       ELSE LET cnt == IF b <= a THEN 0 ELSE ((b - a - 1) \div s) + 1
                sel == [k \in 1..cnt |-> v[2][a + (k - 1) * s + 1]] IN
            Ok(IF v[1] = "arr" THEN ArrV(sel) ELSE StrV(sel))

-----------------------------------------------------------------------------
(* Library members defined by the upstream standard library (std.jsonnet and *)
(* its documentation): what the result is, which elements of the argument    *)
(* data are forced, and in which order failures surface.                     *)
(*  - ARRAY ELEMENTS / OBJECT FIELDS: forced exactly as the definition says  *)
(*    (this is what laziness means for data).                                *)
(*  - two strict arguments: Both / AllOf (different failures = any); loops   *)
(*    that upstream runs element by element: SeqOf (first failure wins).     *)
(*  - The language definition does not fix the strictness of library members *)
(*    beyond what the result needs, and the upstream libraries (std.jsonnet, *)
(*    the C++ and Go natives) differ among themselves.  Where rsjsonnet's    *)
(*    member differs from the text of upstream std.jsonnet the difference is *)
(*    a NAMED DEVIATION selected by StdReading (like RmMode):                *)
(*      "rsjsonnet" = what the implementation under test defines (default),  *)
(*      "upstream"  = the text of std.jsonnet; where that text only happens  *)
(*                    to compute something outside the documented argument   *)
(*                    types (`[] + "s"` in std.flattenArrays, folding over a *)
(*                    string ...) the upstream reading is Outside.           *)
(*    DEV-1 std.member(arr, x) on arrays: stops at the first equal element   *)
(*          | upstream std.count(arr, x) > 0 compares every element          *)
(*    DEV-2 std.remove(arr, elem): stops at the first equal element          *)
(*          | upstream std.find(elem, arr) compares every element            *)
(*    DEV-3 std.removeAt(arr, at): both arguments forced, `at` must be a     *)
(*          number, arr an array | upstream never looks at `at` for an empty *)
(*          array and compares it with `!=` (any type)                       *)
(*    DEV-4 std.clamp: x, minVal, maxVal all forced and checked to be        *)
(*          numbers | upstream `if x < minVal then minVal else ...` does not *)
(*          touch maxVal when x < minVal (the documentation says             *)
(*          std.max(minVal, std.min(x, maxVal)))                             *)
(*    DEV-5 std.member(str, "") is true | upstream                           *)
(*          std.length(std.findSubstr("", str)) > 0 is false                 *)
(*    DEV-6 std.foldr(func, [], init): func forced and must be a function    *)
(*          (as std.foldl in StdCall) | upstream never touches func          *)
(*    DEV-7 std.range(from, to) with to < from - 1 is [] | upstream          *)
(*          std.makeArray(negative) fails                                    *)
(*    DEV-8 std.minArray/maxArray([x]) is x for every x | upstream compares  *)
(*          x with itself (fails for objects, booleans, null, functions)     *)
(*    DEV-9 wrong container types are type errors (std.reverse of an object, *)
(*          folding / summing / flattening / comparing strings and objects,  *)
(*          string elements in std.flattenArrays / std.sum / std.flatMap)    *)
(*          | the upstream text computes something there: Outside            *)
StdReading == "rsjsonnet"
Impl == StdReading = "rsjsonnet"
\* argument types on which only the upstream TEXT computes something (DEV-9)
Junk(types) == IF Impl THEN {} ELSE types

\* r checked against the documented argument types: good -> r, out -> Outside, else a type error
ChkT(r, good, out) ==
  IF r[1] # "ok" THEN r
  ELSE IF r[2][1] \in good THEN r ELSE IF r[2][1] \in out THEN Outside ELSE RtErr
\* same for members that are written in Jsonnet (the wording and kind of the failure differ between libraries)
ChkA(r, good) == IF r[1] # "ok" THEN r ELSE IF r[2][1] \in good THEN r ELSE ErrAny

AllTypes == {"null", "bool", "num", "str", "arr", "obj", "func"}
Containers == {"str", "obj", "func"}      \* what std.length accepts besides arrays

\* results demanded one after the other: the first failure is the outcome
RECURSIVE SeqOf(_)
SeqOf(rs) ==
  IF rs = <<>> THEN Ok(<<>>)
  ELSE Bind(Head(rs), LAMBDA v : Bind(SeqOf(Tail(rs)), LAMBDA vs : Ok(<<v>> \o vs)))

RECURSIVE CatAll(_)
CatAll(ss) == IF ss = <<>> THEN <<>> ELSE Head(ss) \o CatAll(Tail(ss))

RECURSIVE SumSeq(_)
SumSeq(ns) == IF ns = <<>> THEN 0 ELSE Head(ns) + SumSeq(Tail(ns))

IsSub(p, s) == \E i \in 0..(Len(s) - Len(p)) : SubSeq(s, i + 1, i + Len(p)) = p

\* std.foldr: like std.foldl from the right; the running value is forced at every step, init is not
FoldR(f, ts, acc, fuel) ==
  IF fuel = 0 THEN Bottom ELSE
  IF ts = <<>> THEN Force(acc, fuel)
  ELSE Bind(Force(AppTh(f, <<ts[Len(ts)], acc>>), fuel - 1),
            LAMBDA v : FoldR(f, SubSeq(ts, 1, Len(ts) - 1), ValTh(v), fuel - 1))

\* std.flattenDeepArray: `[y for x in value for y in std.flattenDeepArray(x)]`, every leaf is forced
FlatDeep(v, fuel) ==
  IF fuel = 0 THEN Bottom ELSE
  IF v[1] # "arr" THEN Ok(<<ValTh(v)>>)
  ELSE Bind(AllOf([i \in 1..Len(v[2]) |-> Bind(Force(v[2][i], fuel - 1), LAMBDA x : FlatDeep(x, fuel - 1))]),
            LAMBDA ps : Ok(CatAll(ps)))

\* std.deepJoin: strings and arrays of such, concatenated left to right
DeepJoin(v, fuel) ==
  IF fuel = 0 THEN Bottom ELSE
  CASE v[1] = "str" -> Ok(v[2])
    [] v[1] = "arr" ->
         Bind(SeqOf([i \in 1..Len(v[2]) |-> Bind(Force(v[2][i], fuel - 1), LAMBDA x : DeepJoin(x, fuel - 1))]),
              LAMBDA ps : Ok(CatAll(ps)))
    [] OTHER -> RtErr

\* std.join(sep, arr) on checked values: elements are forced left to right, null elements are skipped,
\* the others must have the type of sep; array results share the element thunks (nothing inside is forced)
JoinV(sep, a, fuel) ==
  Bind(SeqOf([i \in 1..Len(a[2]) |-> Bind(Force(a[2][i], fuel), LAMBDA x :
                IF x[1] = "null" \/ x[1] = sep[1] THEN Ok(x) ELSE RtErr)]), LAMBDA xs :
    LET kept == SelectSeq(xs, LAMBDA x : x[1] # "null") IN
    Ok(<<sep[1], JoinCps([i \in 1..Len(kept) |-> kept[i][2]], sep[2])>>))

\* element == x for every element (std.filter / std.find scan the whole array)
EqAll(ts, x, fuel) == AllOf([i \in 1..Len(ts) |-> EqualTh(ts[i], x, fuel)])

\* std.any (stop = TRUE) / std.all (stop = FALSE): left to right, stops at the first deciding element
AnyAll(ts, stop, fuel) ==
  LET go[i \in 0..Len(ts)] ==
        IF i = Len(ts) THEN Ok(BoolV(~stop))
        ELSE Bind(Force(ts[i + 1], fuel), LAMBDA b :
               IF b[1] # "bool" THEN RtErr ELSE IF b[2] = stop THEN Ok(BoolV(stop)) ELSE go[i + 1])
  IN go[0]

\* std.contains(arr, elem) == std.any([e == elem for e in arr])
ContainsV(ts, x, fuel) ==
  LET go[i \in 0..Len(ts)] ==
        IF i = Len(ts) THEN Ok(BoolV(FALSE))
        ELSE Bind(EqualTh(ts[i + 1], x, fuel), LAMBDA e : IF e THEN Ok(BoolV(TRUE)) ELSE go[i + 1])
  IN go[0]

\* std.sum == std.foldl(function(a, b) a + b, arr, 0) on numbers (a string element makes upstream concatenate)
SumV(ts, fuel) ==
  Bind(SeqOf([i \in 1..Len(ts) |-> Bind(Force(ts[i], fuel), LAMBDA x :
                IF x[1] = "num" THEN Ok(x[2]) ELSE IF x[1] \in Junk({"str"}) THEN Outside ELSE RtErr)]),
       LAMBDA ns : NumR(SumSeq(ns)))

\* std.minArray / std.maxArray(arr): std.foldl over the array keeping the first extremal element by
\* std.__compare: elements are forced left to right, each compared with the best so far
MinMaxScan(ts, i, best, isMin, fuel) ==
  IF fuel = 0 THEN Bottom ELSE
  IF i > Len(ts) THEN Ok(best)
  ELSE Bind(Force(ts[i], fuel - 1), LAMBDA x :
         Bind(CmpV(best, x, fuel - 1), LAMBDA k :
           MinMaxScan(ts, i + 1, IF (IF isMin THEN k > 0 ELSE k < 0) THEN x ELSE best, isMin, fuel - 1)))
MinMaxV(ts, isMin, fuel) ==
  IF ts = <<>> THEN ErrAny
  ELSE Bind(Force(ts[1], fuel), LAMBDA v1 :
         IF Impl /\ Len(ts) = 1 THEN Ok(v1)                     \* DEV-8
         ELSE IF ~Impl /\ v1[1] \notin {"num", "str", "arr"} THEN RtErr   \* upstream compares arr[0] with itself first
         ELSE MinMaxScan(ts, 2, v1, isMin, fuel))

TypeTag(name) ==
  CASE name = "isString" -> "str" [] name = "isNumber" -> "num" [] name = "isBoolean" -> "bool"
    [] name = "isObject" -> "obj" [] name = "isArray" -> "arr" [] name = "isFunction" -> "func"
    [] name = "isNull" -> "null"

LibCall(name, args, env, sc, fuel) ==
  IF fuel = 0 THEN Bottom ELSE
  LET A(i) == Eval(args[i], env, sc, fuel - 1)
      T(i) == Th(args[i], env, sc)
      f1 == fuel - 1 IN
  CASE name \in {"isString", "isNumber", "isBoolean", "isObject", "isArray", "isFunction", "isNull"} /\ Len(args) = 1 ->
         Bind(A(1), LAMBDA v : Ok(BoolV(v[1] = TypeTag(name))))
    [] name = "xor" /\ Len(args) = 2 -> Both(A(1), A(2), LAMBDA a, b : BinOp("!=", a, b, f1))
    [] name = "xnor" /\ Len(args) = 2 -> Both(A(1), A(2), LAMBDA a, b : BinOp("==", a, b, f1))
    [] name \in {"isEven", "isOdd", "isInteger", "isDecimal"} /\ Len(args) = 1 ->
         \* numbers of this specification are integers
         Bind(ChkT(A(1), {"num"}, {}), LAMBDA v :
           Ok(BoolV(CASE name = "isEven" -> Fmod(v[2], 2) = 0 [] name = "isOdd" -> Fmod(v[2], 2) # 0
                      [] name = "isInteger" -> TRUE [] name = "isDecimal" -> FALSE)))
    [] name = "abs" /\ Len(args) = 1 ->
         Bind(ChkA(A(1), {"num"}), LAMBDA v : NumR(IF v[2] > 0 THEN v[2] ELSE -v[2]))
    [] name = "sign" /\ Len(args) = 1 ->
         Bind(ChkA(A(1), {"num"}), LAMBDA v : Ok(NumV(IF v[2] > 0 THEN 1 ELSE IF v[2] < 0 THEN -1 ELSE 0)))
    [] name \in {"max", "min"} /\ Len(args) = 2 ->
         Both(ChkA(A(1), {"num"}), ChkA(A(2), {"num"}), LAMBDA a, b :
           Ok(IF name = "max" THEN (IF a[2] > b[2] THEN a ELSE b) ELSE (IF a[2] < b[2] THEN a ELSE b)))
    [] name = "clamp" /\ Len(args) = 3 ->
         IF Impl THEN   \* DEV-4: three assertions (x, minVal, maxVal are numbers), then the comparison chain
            Bind(AllOf(<<ChkA(A(1), {"num"}), ChkA(A(2), {"num"}), ChkA(A(3), {"num"})>>), LAMBDA vs :
              Ok(IF vs[1][2] < vs[2][2] THEN vs[2] ELSE IF vs[1][2] > vs[3][2] THEN vs[3] ELSE vs[1]))
         ELSE
         \* documented as std.max(minVal, std.min(x, maxVal)); the source text is
         \* `if x < minVal then minVal else if x > maxVal then maxVal else x`: decided where the two agree
         Both(ChkT(A(1), {"num"}, AllTypes), ChkT(A(2), {"num"}, AllTypes), LAMBDA x, lo :
           LET r3 == ChkT(A(3), {"num"}, AllTypes) IN
           IF r3[1] = "ok" THEN (IF lo[2] > r3[2][2] THEN Outside
                                 ELSE Ok(IF x[2] < lo[2] THEN lo ELSE IF x[2] > r3[2][2] THEN r3[2] ELSE x))
           ELSE IF r3[1] = "err" /\ x[2] < lo[2] THEN Outside ELSE r3)
    [] name = "mapWithIndex" /\ Len(args) = 2 ->
         Both(ChkT(A(1), {"func"}, {}), ChkT(A(2), {"arr", "str"}, {}), LAMBDA f, a :
           Ok(ArrV([i \in 1..Len(a[2]) |->
                      AppTh(f, <<ValTh(NumV(i - 1)),
                                 IF a[1] = "arr" THEN a[2][i] ELSE ValTh(StrV(<<a[2][i]>>))>>)])))
    [] name = "filterMap" /\ Len(args) = 3 ->
         \* std.map(map_func, std.filter(filter_func, arr)): the filter runs on every element, the map on none
         Bind(AllOf(<<ChkT(A(1), {"func"}, {}), ChkT(A(2), {"func"}, {}), ChkT(A(3), {"arr"}, {})>>), LAMBDA vs :
           LET a == vs[3] IN
           Bind(AllOf([i \in 1..Len(a[2]) |->
                         Bind(Force(AppTh(vs[1], <<a[2][i]>>), f1),
                              LAMBDA b : IF b[1] # "bool" THEN RtErr ELSE Ok(b[2]))]), LAMBDA bs :
             LET idx == SelectSeq([i \in 1..Len(bs) |-> i], LAMBDA i : bs[i]) IN
             Ok(ArrV([k \in 1..Len(idx) |-> AppTh(vs[2], <<a[2][idx[k]]>>)]))))
    [] name = "flatMap" /\ Len(args) = 2 ->
         \* arrays: std.flattenArrays(std.makeArray(n, function(i) func(arr[i]))) - func runs on every element,
         \*         the elements of its results stay unforced;  strings: std.join("", ...) (null results skipped)
         Both(ChkT(A(1), {"func"}, {}), ChkT(A(2), {"arr", "str"}, {}), LAMBDA f, a :
           IF a[1] = "arr" THEN
              Bind(SeqOf([i \in 1..Len(a[2]) |-> ChkT(Force(AppTh(f, <<a[2][i]>>), f1), {"arr"}, Junk({"str"}))]),
                   LAMBDA ps : Ok(ArrV(CatAll([i \in 1..Len(ps) |-> ps[i][2]]))))
           ELSE
              Bind(SeqOf([i \in 1..Len(a[2]) |->
                            ChkT(Force(AppTh(f, <<ValTh(StrV(<<a[2][i]>>))>>), f1), {"str", "null"}, {})]),
                   LAMBDA ps : Ok(StrV(CatAll([i \in 1..Len(ps) |-> IF ps[i][1] = "null" THEN <<>> ELSE ps[i][2]])))))
    [] name = "foldr" /\ Len(args) = 3 ->
         LET ra == ChkT(A(2), {"arr"}, Junk(Containers)) IN
         IF ~Impl /\ ra[1] = "ok" /\ ra[2][2] = <<>>
         THEN \* DEV-6 (upstream): nothing to fold, the function is never applied (a failing / ill-typed function
              \* argument is left open)
              LET rf == A(1) IN
              IF rf[1] = "ok" /\ rf[2][1] = "func" THEN Force(T(3), f1)
              ELSE IF rf[1] = "bottom" THEN Bottom ELSE Outside
         ELSE Both(ChkT(A(1), {"func"}, {}), ra, LAMBDA f, a : FoldR(f, a[2], T(3), f1))
    [] name = "range" /\ Len(args) = 2 ->
         \* std.makeArray(to - from + 1, function(i) i + from)
         Both(ChkT(A(1), {"num"}, {}), ChkT(A(2), {"num"}, {}), LAMBDA a, b :
           IF b[2] - a[2] + 1 > 12 THEN Outside
           ELSE IF b[2] < a[2] - 1 THEN (IF Impl THEN Ok(ArrV(<<>>)) ELSE RtErr)     \* DEV-7
           ELSE Ok(ArrV([i \in 1..(b[2] - a[2] + 1) |-> ValTh(NumV(a[2] + i - 1))])))
    [] name = "repeat" /\ Len(args) = 2 ->
         \* std.join(joiner, std.makeArray(count, function(i) what)): the elements of `what` stay unforced
         Both(ChkT(A(1), {"str", "arr"}, {}), ChkT(A(2), {"num"}, {}), LAMBDA w, n :
           IF n[2] < 0 THEN RtErr
           ELSE IF n[2] > 16 \/ n[2] * Len(w[2]) > 16 THEN Outside
           ELSE Ok(<<w[1], CatAll([i \in 1..n[2] |-> w[2]])>>))
    [] name = "slice" /\ Len(args) = 4 ->
         Both(A(1), AllOf(<<A(2), A(3), A(4)>>), LAMBDA v, ix : SliceV(v, ix))
    [] name = "join" /\ Len(args) = 2 ->
         Both(ChkT(A(1), {"str", "arr"}, {}), ChkT(A(2), {"arr"}, {}), LAMBDA sep, a : JoinV(sep, a, f1))
    [] name = "lines" /\ Len(args) = 1 ->
         \* std.join("\n", arr + [""])
         Bind(A(1), LAMBDA a : Bind(BinOp("+", a, ArrV(<<ValTh(StrV(<<>>))>>), f1), LAMBDA s :
           IF s[1] # "arr" THEN RtErr ELSE JoinV(StrV(<<10>>), s, f1)))
    [] name = "deepJoin" /\ Len(args) = 1 ->
         Bind(A(1), LAMBDA v : Bind(DeepJoin(v, f1), LAMBDA cs : Ok(StrV(cs))))
    [] name = "flattenArrays" /\ Len(args) = 1 ->
         \* std.foldl(function(a, b) a + b, arrs, []): every element of arrs is forced (left to right) and
         \* must be an array; nothing inside them is forced
         Bind(ChkT(A(1), {"arr"}, Junk(Containers)), LAMBDA a :
           Bind(SeqOf([i \in 1..Len(a[2]) |-> ChkT(Force(a[2][i], f1), {"arr"}, Junk({"str"}))]),
                LAMBDA ps : Ok(ArrV(CatAll([i \in 1..Len(ps) |-> ps[i][2]])))))
    [] name = "flattenDeepArray" /\ Len(args) = 1 ->
         Bind(A(1), LAMBDA v : Bind(FlatDeep(v, f1), LAMBDA ts : Ok(ArrV(ts))))
    [] name = "reverse" /\ Len(args) = 1 ->
         \* std.makeArray(l, function(i) arr[l - i - 1]): no element is forced
         Bind(ChkT(A(1), {"arr", "str"}, Junk({"obj", "func"})), LAMBDA a :
           LET n == Len(a[2]) IN
           Ok(ArrV([i \in 1..n |-> IF a[1] = "arr" THEN a[2][n - i + 1] ELSE ValTh(StrV(<<a[2][n - i + 1]>>))])))
    [] name = "member" /\ Len(args) = 2 ->
         \* arrays: DEV-1 left to right up to the first equal element | upstream std.count(arr, x) > 0
         \* strings: x occurs in arr; DEV-5 the empty string occurs | upstream std.length(std.findSubstr(x, arr)) > 0
         Bind(A(1), LAMBDA a :
           CASE a[1] = "arr" ->
                  IF Impl THEN ContainsV(a[2], T(2), f1)
                  ELSE Bind(EqAll(a[2], T(2), f1), LAMBDA es : Ok(BoolV(\E i \in 1..Len(es) : es[i])))
             [] a[1] = "str" -> Bind(A(2), LAMBDA x :
                                  IF x[1] # "str" THEN RtErr
                                  ELSE Ok(BoolV((Impl \/ x[2] # <<>>) /\ IsSub(x[2], a[2]))))
             [] OTHER -> RtErr)
    [] name = "count" /\ Len(args) = 2 ->
         \* std.length(std.filter(function(v) v == x, arr))
         Bind(ChkT(A(1), {"arr"}, {}), LAMBDA a :
           Bind(EqAll(a[2], T(2), f1), LAMBDA es : Ok(NumV(Cardinality({i \in 1..Len(es) : es[i]})))))
    [] name = "find" /\ Len(args) = 2 ->
         \* std.filter(function(i) arr[i] == value, std.range(0, std.length(arr) - 1))
         Bind(ChkT(A(2), {"arr"}, {}), LAMBDA a :
           Bind(EqAll(a[2], T(1), f1), LAMBDA es :
             LET idx == SelectSeq([i \in 1..Len(es) |-> i], LAMBDA i : es[i]) IN
             Ok(ArrV([k \in 1..Len(idx) |-> ValTh(NumV(idx[k] - 1))]))))
    [] name = "contains" /\ Len(args) = 2 ->
         Bind(ChkT(A(1), {"arr"}, {}), LAMBDA a : ContainsV(a[2], T(2), f1))
    [] name = "remove" /\ Len(args) = 2 ->
         \* the array without the first element equal to elem;
         \* DEV-2 compared left to right up to that element | upstream `std.find(elem, arr)` compares every element
         Bind(ChkT(A(1), {"arr"}, {}), LAMBDA a :
           IF Impl THEN
              LET go[i \in 0..Len(a[2])] ==
                    IF i = Len(a[2]) THEN Ok(a)
                    ELSE Bind(EqualTh(a[2][i + 1], T(2), f1), LAMBDA e :
                           IF e THEN Ok(ArrV(SubSeq(a[2], 1, i) \o SubSeq(a[2], i + 2, Len(a[2])))) ELSE go[i + 1])
              IN go[0]
           ELSE
           Bind(EqAll(a[2], T(2), f1), LAMBDA es :
             LET hit == {i \in 1..Len(es) : es[i]} IN
             IF hit = {} THEN Ok(a)
             ELSE LET k == CHOOSE i \in hit : \A j \in hit : i <= j IN
                  Ok(ArrV(SubSeq(a[2], 1, k - 1) \o SubSeq(a[2], k + 1, Len(a[2]))))))
    [] name = "removeAt" /\ Len(args) = 2 ->
         \* the array without the element at index `at` (unchanged when there is none)
         \* DEV-3 both arguments forced and type-checked | upstream
         \* `[arr[i] for i in std.range(0, std.length(arr) - 1) if i != at]`
         LET ra == ChkT(A(1), {"arr"}, Junk(Containers)) IN
         IF ~Impl /\ ra[1] = "ok" /\ ra[2][2] = <<>>
         THEN LET rx == A(2) IN     \* `at` is not looked at
              IF rx[1] = "ok" /\ rx[2][1] = "num" THEN Ok(ra[2])
              ELSE IF rx[1] = "bottom" THEN Bottom ELSE Outside
         ELSE Both(ra, ChkT(A(2), {"num"}, Junk(AllTypes)), LAMBDA a, x :
                IF x[2] < 0 \/ x[2] >= Len(a[2]) THEN Ok(a)
                ELSE Ok(ArrV(SubSeq(a[2], 1, x[2]) \o SubSeq(a[2], x[2] + 2, Len(a[2])))))
    [] name \in {"all", "any"} /\ Len(args) = 1 ->
         Bind(ChkT(A(1), {"arr"}, {}), LAMBDA a : AnyAll(a[2], name = "any", f1))
    [] name = "sum" /\ Len(args) = 1 ->
         Bind(ChkT(A(1), {"arr"}, Junk(Containers)), LAMBDA a : SumV(a[2], f1))
    [] name = "avg" /\ Len(args) = 1 ->
         \* std.sum(arr) / std.length(arr)
         Bind(ChkT(A(1), {"arr"}, Junk(Containers)), LAMBDA a :
           Bind(SumV(a[2], f1), LAMBDA s : BinOp("/", s, NumV(Len(a[2])), f1)))
    [] name \in {"minArray", "maxArray"} /\ Len(args) = 1 ->
         Bind(ChkT(A(1), {"arr"}, Junk(Containers)), LAMBDA a : MinMaxV(a[2], name = "minArray", f1))
    [] name \in {"objectValues", "objectValuesAll", "objectKeysValues", "objectKeysValuesAll"} /\ Len(args) = 1 ->
         \* [o[k] for k in std.objectFields(o)] / [{key: k, value: o[k]} for k in ...]: no field is evaluated
         Bind(ChkT(A(1), {"obj"}, {}), LAMBDA o :
           LET ns == SortCps(IF name \in {"objectValues", "objectKeysValues"} THEN VisibleNames(o[2]) ELSE AllNames(o[2]))
               oenv == << <<"vals", <<"o">>, <<ValTh(o)>> >> >>
               val(k) == <<"index", <<"var", "o">>, <<"str", k>> >>
               kv(k) == <<"obj", << <<"fld", <<"expr", <<"str", <<107, 101, 121>> >> >>, "d", FALSE, <<"str", k>> >>,
                                    <<"fld", <<"expr", <<"str", <<118, 97, 108, 117, 101>> >> >>, "d", FALSE, val(k)>> >> >> IN
           Ok(ArrV([i \in 1..Len(ns) |->
                      Th(IF name \in {"objectValues", "objectValuesAll"} THEN val(ns[i]) ELSE kv(ns[i]), oenv, NoSc)])))
    [] name = "objectHasEx" /\ Len(args) = 3 ->
         Bind(AllOf(<<ChkT(A(1), {"obj"}, {}), ChkT(A(2), {"str"}, {}), ChkT(A(3), {"bool"}, {})>>), LAMBDA vs :
           Ok(BoolV(vs[2][2] \in (IF vs[3][2] THEN AllNames(vs[1][2]) ELSE VisibleNames(vs[1][2])))))
    [] name = "objectFieldsEx" /\ Len(args) = 2 ->
         Both(ChkT(A(1), {"obj"}, {}), ChkT(A(2), {"bool"}, {}), LAMBDA o, h :
           LET ns == SortCps(IF h[2] THEN AllNames(o[2]) ELSE VisibleNames(o[2])) IN
           Ok(ArrV([i \in 1..Len(ns) |-> ValTh(StrV(ns[i]))])))
    [] name \in {"__array_less", "__array_less_or_equal", "__array_greater", "__array_greater_or_equal"} /\ Len(args) = 2 ->
         \* std.__compare_array(arr1, arr2) against 0
         Both(ChkT(A(1), {"arr"}, Junk(Containers)), ChkT(A(2), {"arr"}, Junk(Containers)), LAMBDA a, b :
           Bind(CmpV(a, b, f1), LAMBDA k :
             Ok(BoolV(CASE name = "__array_less" -> k < 0 [] name = "__array_less_or_equal" -> k <= 0
                        [] name = "__array_greater" -> k > 0 [] name = "__array_greater_or_equal" -> k >= 0))))
    [] name = "__compare" /\ Len(args) = 2 ->
         \* three-way form of `<`: -1 / 0 / 1; operands of different types, booleans, null, objects and functions
         \* are not ordered (run-time error), arrays are compared element by element (forcing only up to the
         \* first difference)
         Both(A(1), A(2), LAMBDA a, b : Bind(CmpV(a, b, f1), LAMBDA k : Ok(NumV(k))))
    [] name = "__compare_array" /\ Len(args) = 2 ->
         Both(ChkT(A(1), {"arr"}, {}), ChkT(A(2), {"arr"}, {}), LAMBDA a, b :
           Bind(CmpV(a, b, f1), LAMBDA k : Ok(NumV(k))))
    [] name = "primitiveEquals" /\ Len(args) = 2 ->
         \* different types: false; containers and functions are not primitive (error); never forces an element
         Both(A(1), A(2), LAMBDA a, b :
           IF a[1] # b[1] THEN Ok(BoolV(FALSE))
           ELSE IF a[1] \in {"arr", "obj", "func"} THEN RtErr
           ELSE Ok(BoolV(a = b)))
    [] name = "assertEqual" /\ Len(args) = 2 ->
         \* true, or an error whose message shows both operands: building it forces them completely (left one
         \* first), so a failure inside an operand that equality never reached is what the call reports
         Both(A(1), A(2), LAMBDA a, b :
           Bind(EqualV(a, b, f1), LAMBDA e :
             IF e THEN Ok(BoolV(TRUE))
             ELSE Bind(ToStr(a, f1, FALSE), LAMBDA sa : Bind(ToStr(b, f1, FALSE), LAMBDA sb : RtErr))))
    [] OTHER -> Outside

StdCall(name, args, env, sc, fuel) ==
  IF fuel = 0 THEN Bottom ELSE
  LET A(i) == Eval(args[i], env, sc, fuel - 1)
      T(i) == Th(args[i], env, sc) IN
  CASE name = "length" /\ Len(args) = 1 ->
         Bind(A(1), LAMBDA v :
           CASE v[1] = "str" -> Ok(NumV(Len(v[2])))
             [] v[1] = "arr" -> Ok(NumV(Len(v[2])))
             [] v[1] = "obj" -> Ok(NumV(Cardinality(VisibleNames(v[2]))))
             [] v[1] = "func" -> Ok(NumV(Len(v[2])))
             [] OTHER -> RtErr)
    [] name = "type" /\ Len(args) = 1 -> Bind(A(1), LAMBDA v : Ok(StrV(TypeCps(v))))
    [] name \in {"objectHas", "objectHasAll"} /\ Len(args) = 2 ->
         Both(A(1), A(2), LAMBDA o, f :
           IF o[1] # "obj" \/ f[1] # "str" THEN RtErr
           ELSE Ok(BoolV(f[2] \in (IF name = "objectHas" THEN VisibleNames(o[2]) ELSE AllNames(o[2])))))
    [] name \in {"objectFields", "objectFieldsAll"} /\ Len(args) = 1 ->
         Bind(A(1), LAMBDA o :
           IF o[1] # "obj" THEN RtErr
           ELSE LET ns == SortCps(IF name = "objectFields" THEN VisibleNames(o[2]) ELSE AllNames(o[2])) IN
                Ok(ArrV([i \in 1..Len(ns) |-> ValTh(StrV(ns[i]))])))
    [] name = "makeArray" /\ Len(args) = 2 ->
         Both(A(1), A(2), LAMBDA n, f :
           IF n[1] # "num" \/ f[1] # "func" THEN RtErr
           ELSE IF n[2] < 0 THEN RtErr
           ELSE IF n[2] > 8 THEN Outside
           ELSE Ok(ArrV([i \in 1..n[2] |-> AppTh(f, <<ValTh(NumV(i - 1))>>)])))
    [] name = "map" /\ Len(args) = 2 ->
         Both(A(1), A(2), LAMBDA f, a :
           IF f[1] # "func" THEN RtErr
           ELSE IF a[1] = "arr" THEN Ok(ArrV([i \in 1..Len(a[2]) |-> AppTh(f, <<a[2][i]>>)]))
           ELSE IF a[1] = "str" THEN Ok(ArrV([i \in 1..Len(a[2]) |-> AppTh(f, <<ValTh(StrV(<<a[2][i]>>))>>)]))
           ELSE RtErr)
    [] name = "filter" /\ Len(args) = 2 ->
         Both(A(1), A(2), LAMBDA f, a :
           IF f[1] # "func" \/ a[1] # "arr" THEN RtErr
           ELSE Bind(AllOf([i \in 1..Len(a[2]) |->
                              Bind(Force(AppTh(f, <<a[2][i]>>), fuel - 1),
                                   LAMBDA b : IF b[1] # "bool" THEN RtErr ELSE Ok(b))]), LAMBDA bs :
                  IF FALSE THEN RtErr
                  ELSE LET idx == SelectSeq([i \in 1..Len(bs) |-> i], LAMBDA i : bs[i][2]) IN
                       Ok(ArrV([k \in 1..Len(idx) |-> a[2][idx[k]]]))))
    [] name = "foldl" /\ Len(args) = 3 ->
         Both(A(1), A(2), LAMBDA f, a :
           IF f[1] # "func" \/ a[1] # "arr" THEN RtErr
           ELSE FoldL(f, a[2], T(3), fuel - 1))
    [] name = "toString" /\ Len(args) = 1 ->
         Bind(A(1), LAMBDA v : Bind(ToStr(v, fuel - 1, FALSE), LAMBDA s : Ok(StrV(s))))
    [] name = "sort" /\ Len(args) = 1 ->
         \* upstream: `if std.length(arr) <= 1 then arr else <compare elements>`: arrays of at most one
         \* element are returned untouched (their element is not forced)
         Bind(A(1), LAMBDA a :
           IF a[1] # "arr" THEN RtErr
           ELSE IF Len(a[2]) <= 1 THEN Ok(a)
           ELSE Bind(ForceAll(a[2], fuel - 1), LAMBDA vs :
                  IF \A i \in 1..Len(vs) : vs[i][1] = "num"
                  THEN LET RECURSIVE srt(_)
                           srt(S) == IF S = {} THEN <<>> ELSE
                                     LET m == CHOOSE i \in S : \A j \in S : vs[i][2] < vs[j][2] \/ (vs[i][2] = vs[j][2] /\ i <= j)
                                     IN <<ValTh(vs[m])>> \o srt(S \ {m})
                       IN Ok(ArrV(srt(1..Len(vs))))
                  ELSE IF \E i, j \in 1..Len(vs) : vs[i][1] # vs[j][1] THEN RtErr
                  ELSE Outside))
    [] name = "trace" /\ Len(args) = 2 -> Bind(A(1), LAMBDA m : IF m[1] # "str" THEN RtErr ELSE A(2))
    [] name = "equals" /\ Len(args) = 2 ->
         Both(A(1), A(2), LAMBDA a, b : Bind(EqualV(a, b, fuel - 1), LAMBDA e : Ok(BoolV(e))))
    [] name = "get" /\ Len(args) \in {2, 3} ->
         Both(A(1), A(2), LAMBDA o, f :
           IF o[1] # "obj" \/ f[1] # "str" THEN RtErr
           ELSE IF f[2] \in AllNames(o[2]) THEN ObjIndex(o, f[2], fuel - 1)
           ELSE IF Len(args) = 3 THEN A(3) ELSE Ok(NullV))
    [] name = "objectRemoveKey" /\ Len(args) = 2 ->
         Both(A(1), A(2), LAMBDA o, k :
           IF o[1] # "obj" \/ k[1] # "str" THEN RtErr ELSE Ok(RemoveKey(o, k[2])))
    [] name = "mapWithKey" /\ Len(args) = 2 ->
         Both(A(1), A(2), LAMBDA f, o :
           IF f[1] # "func" \/ o[1] # "obj" THEN RtErr
           ELSE Eval(<<"objcomp", <<"var", "k">>,
                       <<"call", <<"var", "f">>, << <<"var", "k">>, <<"index", <<"var", "o">>, <<"var", "k">> >> >>, <<>>, FALSE>>,
                       <<>>, << <<"for", "k", <<"std", "objectFields", << <<"var", "o">> >> >> >> >> >>,
                     << <<"vals", <<"f", "o">>, <<ValTh(f), ValTh(o)>> >> >>, NoSc, fuel - 1))
    [] name = "prune" /\ Len(args) = 1 ->
         \* decided for error-free data only
         LET m == Bind(A(1), LAMBDA v : Manifest(v, fuel - 1)) IN
         IF m[1] = "ok" THEN Ok(FromJson(PruneJ(m[2]))) ELSE Outside
    [] name = "mergePatch" /\ Len(args) = 2 ->
         LET m1 == Bind(A(1), LAMBDA v : Manifest(v, fuel - 1))
             m2 == Bind(A(2), LAMBDA v : Manifest(v, fuel - 1)) IN
         IF m1[1] = "ok" /\ m2[1] = "ok" THEN Ok(FromJson(MergePatchJ(m1[2], m2[2]))) ELSE Outside
    [] OTHER -> LibCall(name, args, env, sc, fuel)

-----------------------------------------------------------------------------
Eval(e, env, sc, fuel) ==
  IF fuel = 0 THEN Bottom ELSE
  LET E(x) == Eval(x, env, sc, fuel - 1) IN
  CASE e[1] = "null" -> Ok(NullV)
    [] e[1] = "true" -> Ok(BoolV(TRUE))
    [] e[1] = "false" -> Ok(BoolV(FALSE))
    [] e[1] = "num" -> Ok(NumV(e[2]))
    [] e[1] = "str" -> Ok(StrV(e[2]))
    [] e[1] = "var" -> Lookup(env, e[2], fuel - 1)
    [] e[1] = "self" -> IF sc = NoSc THEN Err("unbound", <<>>) ELSE Ok(SelfV(sc))
    [] e[1] = "dollar" -> Lookup(env, "$", fuel - 1)
    [] e[1] = "local" -> Eval(e[3], env \o << <<"rec", e[2], sc>> >>, sc, fuel - 1)
    [] e[1] = "if" -> Bind(E(e[2]), LAMBDA c :
                        IF c[1] # "bool" THEN RtErr ELSE IF c[2] THEN E(e[3]) ELSE E(e[4]))
    [] e[1] = "if2" -> Bind(E(e[2]), LAMBDA c :
                        IF c[1] # "bool" THEN RtErr ELSE IF c[2] THEN E(e[3]) ELSE Ok(NullV))
    [] e[1] = "un" -> Bind(E(e[3]), LAMBDA v :
                        CASE e[2] = "-" -> IF v[1] = "num" THEN NumR(-v[2]) ELSE RtErr
                          [] e[2] = "+" -> IF v[1] = "num" THEN Ok(v) ELSE RtErr
                          [] e[2] = "!" -> IF v[1] = "bool" THEN Ok(BoolV(~v[2])) ELSE RtErr
                          [] e[2] = "~" -> IF v[1] = "num" THEN NumR(-v[2] - 1) ELSE RtErr)
    [] e[1] = "bin" ->
         IF e[2] = "&&" THEN
            Bind(E(e[3]), LAMBDA a : IF a[1] # "bool" THEN RtErr
                 ELSE IF ~a[2] THEN Ok(BoolV(FALSE))
                 ELSE Bind(E(e[4]), LAMBDA b : IF b[1] # "bool" THEN RtErr ELSE Ok(b)))
         ELSE IF e[2] = "||" THEN
            Bind(E(e[3]), LAMBDA a : IF a[1] # "bool" THEN RtErr
                 ELSE IF a[2] THEN Ok(BoolV(TRUE))
                 ELSE Bind(E(e[4]), LAMBDA b : IF b[1] # "bool" THEN RtErr ELSE Ok(b)))
         ELSE Both(E(e[3]), E(e[4]), LAMBDA a, b : BinOp(e[2], a, b, fuel - 1))
    [] e[1] = "arr" -> Ok(ArrV([i \in 1..Len(e[2]) |-> Th(e[2][i], env, sc)]))
    [] e[1] = "index" ->
         Both(E(e[2]), E(e[3]), LAMBDA v, i :
           CASE v[1] = "arr" ->
                  IF i[1] # "num" THEN RtErr
                  ELSE IF i[2] < 0 \/ i[2] >= Len(v[2]) THEN RtErr
                  ELSE Force(v[2][i[2] + 1], fuel - 1)
             [] v[1] = "str" ->
                  IF i[1] # "num" THEN RtErr
                  ELSE IF i[2] < 0 \/ i[2] >= Len(v[2]) THEN RtErr
                  ELSE Ok(StrV(<<v[2][i[2] + 1]>>))
             [] v[1] = "obj" -> IF i[1] # "str" THEN RtErr ELSE ObjIndex(v, i[2], fuel - 1)
             [] OTHER -> RtErr)
    [] e[1] = "field" ->
         Bind(E(e[2]), LAMBDA v : IF v[1] # "obj" THEN RtErr ELSE ObjIndex(v, Ascii1(e[3]), fuel - 1))
    [] e[1] = "slice" ->
         LET opt(x) == IF x = <<"none">> THEN Ok(NullV) ELSE E(x) IN
         Both(E(e[2]), AllOf(<<opt(e[3]), opt(e[4]), opt(e[5])>>), LAMBDA v, ix : SliceV(v, ix))
    [] e[1] = "func" -> Ok(FuncV(e[2], e[3], env, sc))
    [] e[1] = "call" ->
         Bind(E(e[2]), LAMBDA f :
           LET pos == [i \in 1..Len(e[3]) |-> Th(e[3][i], env, sc)]
               named == [i \in 1..Len(e[4]) |-> <<e[4][i][1], Th(e[4][i][2], env, sc)>>] IN
           IF e[5] THEN  \* tailstrict: arguments are forced first; whether an argument that
                         \* fails but is never used makes the call fail is left open here
              LET forced == ForceAll(pos \o [i \in 1..Len(named) |-> named[i][2]], fuel - 1) IN
              IF forced[1] = "ok" THEN Call(f, pos, named, fuel - 1) ELSE Outside
           ELSE Call(f, pos, named, fuel - 1))
    [] e[1] = "obj" ->
         LET ms == e[2]
             flds == SelectSeq(ms, LAMBDA m : m[1] = "fld")
             locs == SelectSeq(ms, LAMBDA m : m[1] = "olocal")
             asts == SelectSeq(ms, LAMBDA m : m[1] = "oassert")
             \* field names are evaluated in the enclosing scope (no object locals, outer self)
             nm(m) == IF m[2][1] = "id" THEN Ok(StrV(Ascii1(m[2][2])))
                      ELSE Bind(E(m[2][2]), LAMBDA n : IF n[1] \notin {"str", "null"} THEN RtErr ELSE Ok(n))
             names == AllOf([i \in 1..Len(flds) |-> nm(flds[i])]) IN
         Bind(names, LAMBDA ns :
           IF \E i \in 1..Len(ns) : ns[i][1] \notin {"str", "null"} THEN RtErr
           ELSE LET keep == SelectSeq([i \in 1..Len(ns) |-> i], LAMBDA i : ns[i][1] = "str") IN
                IF \E i, j \in Range(keep) : i # j /\ ns[i][2] = ns[j][2] THEN RtErr
                ELSE Ok(ObjV(<< <<"layer",
                                  [k \in 1..Len(keep) |-> <<ns[keep[k]][2], flds[keep[k]][3], flds[keep[k]][4],
                                                            flds[keep[k]][5], <<>> >>],
                                  [k \in 1..Len(locs) |-> <<locs[k][2], locs[k][3]>>],
                                  [k \in 1..Len(asts) |-> <<asts[k][2], asts[k][3]>>],
                                  env, ~Bound(env, "$")>> >>, FALSE)))
    [] e[1] = "objcomp" ->
         Bind(CompSpecs(e[5], env, sc, <<<<>>, <<>>>>, fuel - 1), LAMBDA frames :
           Bind(AllOf([i \in 1..Len(frames) |->
                         Bind(Eval(e[2], env \o <<frames[i]>>, sc, fuel - 1),
                              LAMBDA n : IF n[1] \notin {"str", "null"} THEN RtErr ELSE Ok(n))]), LAMBDA ns :
             IF \E i \in 1..Len(ns) : ns[i][1] \notin {"str", "null"} THEN RtErr
             ELSE LET keep == SelectSeq([i \in 1..Len(ns) |-> i], LAMBDA i : ns[i][1] = "str") IN
                  IF \E i, j \in Range(keep) : i # j /\ ns[i][2] = ns[j][2] THEN RtErr
                  ELSE Ok(ObjV(<< <<"layer",
                                    [k \in 1..Len(keep) |-> <<ns[keep[k]][2], "d", FALSE, e[3], frames[keep[k]]>>],
                                    [k \in 1..Len(e[4]) |-> <<e[4][k][2], e[4][k][3]>>],
                                    <<>>, env, ~Bound(env, "$")>> >>, FALSE))))
    [] e[1] = "arrcomp" ->
         Bind(CompSpecs(e[3], env, sc, <<<<>>, <<>>>>, fuel - 1), LAMBDA frames :
           Ok(ArrV([i \in 1..Len(frames) |-> Th(e[2], env \o <<frames[i]>>, sc)])))
    [] e[1] = "superf" ->
         IF sc = NoSc THEN Err("unbound", <<>>)
         ELSE IF FindLayer(sc[2], sc[3] - 1, Ascii1(e[2])) = 0 THEN RtErr
         ELSE FieldOf(sc[2], sc[3] - 1, Ascii1(e[2]), sc[4], fuel - 1)
    [] e[1] = "superi" ->
         IF sc = NoSc THEN Err("unbound", <<>>)
         ELSE Bind(E(e[2]), LAMBDA k :
                IF k[1] # "str" THEN RtErr
                ELSE IF FindLayer(sc[2], sc[3] - 1, k[2]) = 0 THEN RtErr
                ELSE FieldOf(sc[2], sc[3] - 1, k[2], sc[4], fuel - 1))
    [] e[1] = "insuper" ->
         IF sc = NoSc THEN Err("unbound", <<>>)
         ELSE Bind(E(e[2]), LAMBDA k :
                IF k[1] # "str" THEN RtErr
                ELSE Ok(BoolV(FindLayer(sc[2], sc[3] - 1, k[2]) # 0)))
    [] e[1] = "error" ->
         Bind(E(e[2]), LAMBDA m :
           IF m[1] = "str" THEN Err("explicit", m[2])
           ELSE Bind(ToStr(m, fuel - 1, FALSE), LAMBDA s : Err("explicit", s)))
    [] e[1] = "assert" ->
         Bind(E(e[2]), LAMBDA c :
           IF c[1] # "bool" THEN RtErr
           ELSE IF c[2] THEN E(e[4])
           ELSE IF e[3] = <<"none">> THEN Err("assert", <<-1>>)
           ELSE Bind(E(e[3]), LAMBDA m :
                  IF m[1] = "str" THEN Err("assert", m[2])
                  ELSE Bind(ToStr(m, fuel - 1, FALSE), LAMBDA s : Err("assert", s))))
    [] e[1] = "std" -> StdCall(e[2], e[3], env, sc, fuel - 1)

-----------------------------------------------------------------------------
(* Manifestation: force everything, run object assertions, hidden fields    *)
(* dropped, fields sorted.  Result value in the encoding of Values.tla.     *)
Manifest(v, fuel) ==
  IF fuel = 0 THEN Bottom ELSE
  CASE v[1] = "null" -> Ok([t |-> "null"])
    [] v[1] = "bool" -> Ok([t |-> "bool", b |-> v[2]])
    [] v[1] = "num" -> Ok([t |-> "num", s |-> IF v[2] < 0 THEN -1 ELSE 1,
                           m |-> IF v[2] < 0 THEN -v[2] ELSE v[2], e |-> 0])
    [] v[1] = "str" -> Ok([t |-> "str", c |-> v[2]])
    [] v[1] = "func" -> RtErr
    [] v[1] = "arr" ->
         Bind(AllOf([i \in 1..Len(v[2]) |-> Bind(Force(v[2][i], fuel - 1), LAMBDA x : Manifest(x, fuel - 1))]),
              LAMBDA xs : Ok([t |-> "arr", a |-> xs]))
    [] v[1] = "obj" ->
         LET names == SortCps(VisibleNames(v[2]))
             chk == IF v[3] THEN Ok(TRUE) ELSE CheckAsserts(v[2], fuel - 1) IN
         Both(chk,
              AllOf([i \in 1..Len(names) |->
                       Bind(FieldOf(v[2], Len(v[2]), names[i], TRUE, fuel - 1), LAMBDA x : Manifest(x, fuel - 1))]),
              LAMBDA ignore, xs :
                Ok([t |-> "obj", f |-> [i \in 1..Len(names) |-> [k |-> names[i], h |-> FALSE, v |-> xs[i]]]]))

\* Evaluate a closed program and manifest it.
Run(e, fuel) == Bind(Eval(e, <<>>, NoSc, fuel), LAMBDA v : Manifest(v, fuel))
=============================================================================
