CONSTANT Modes = {"chars"}
CONSTANT Depth = 2
CONSTANT Wide = FALSE
CONSTANT KeyLen = 1
INIT Init
NEXT Next
INVARIANTS InDomain Laws Emit
CHECK_DEADLOCK FALSE
