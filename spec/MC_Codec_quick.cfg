CONSTANT Modes = {"radix", "jsonmut", "jsondeep", "b64", "utf8", "escape", "digest", "json", "yamltok"}
CONSTANT Big = FALSE
CONSTANT JMax = 3
CONSTANT J16Max = 4
CONSTANT J16Len = 1
CONSTANT YMin = 0
CONSTANT YMax = 3
CONSTANT YAll = 3
INIT Init
NEXT Next
INVARIANTS Laws Emit
CHECK_DEADLOCK FALSE
