CONSTANTS Parts = {"content"}  ContentLen = 4  Slices = 1  Slice = 0
INIT Init
NEXT Next
INVARIANTS Inv Laws Emit
PROPERTIES FirstWins
CHECK_DEADLOCK FALSE
