CONSTANT Modes = {"json16", "yamltok"}
CONSTANT Big = FALSE
CONSTANT JMax = 1
CONSTANT J16Max = 1
CONSTANT J16Len = 5
CONSTANT YMin = 4
CONSTANT YMax = 4
CONSTANT YAll = 3
INIT Init
NEXT Next
INVARIANTS Laws Emit
CHECK_DEADLOCK FALSE
