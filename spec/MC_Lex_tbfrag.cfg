CONSTANTS
  Mode = "tbfrag"
  Alpha = {0}
  MaxLen = 3
  First = {}
INIT Init
NEXT Next
INVARIANTS Laws Emit
CHECK_DEADLOCK FALSE
