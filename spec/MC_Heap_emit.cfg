CONSTANTS N = 3  MaxHandles = 1  MaxEdges = 2  MaxOps = 7
INIT MCInit
NEXT NextEmit
VIEW View
INVARIANTS Inv GcIdempotent
CHECK_DEADLOCK FALSE
