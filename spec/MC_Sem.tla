------------------------------- MODULE MC_Sem -------------------------------
(***************************************************************************)
(* Program universes ("grammar slices") for C02 and friends.  TLC          *)
(* enumerates every program of the selected slice (or a seeded random      *)
(* subset of it), evaluates it with the reference semantics Sem!Run and     *)
(* prints source text + expected outcome.                                   *)
(***************************************************************************)
EXTENDS Sem, Pretty, Json, Randomization

CONSTANTS Slice,    \* which universe
          Sample,   \* 0 = whole universe, n = seeded random subset of size n
          Fuel

VARIABLE c

N(n) == <<"num", n>>
V(x) == <<"var", x>>
S(cps) == <<"str", cps>>
T == <<"true">>
F == <<"false">>
Nul == <<"null">>
ErrE == <<"error", S(<<69>>)>>
ErrF == <<"error", S(<<70>>)>>
Bin(o, a, b) == <<"bin", o, a, b>>
Un(o, a) == <<"un", o, a>>
ArrE(es) == <<"arr", es>>
Idx(e, i) == <<"index", e, i>>
Dot(e, x) == <<"field", e, x>>
Let(bs, b) == <<"local", bs, b>>
If(a, b, d) == <<"if", a, b, d>>
Fn(ps, b) == <<"func", ps, b>>
Pm(x) == <<x, <<"nodef">>>>
Pd(x, d) == <<x, d>>
Ap(f, pos) == <<"call", f, pos, <<>>, FALSE>>
ApN(f, pos, named) == <<"call", f, pos, named, FALSE>>
ApT(f, pos) == <<"call", f, pos, <<>>, TRUE>>
ObjE(ms) == <<"obj", ms>>
Fd(x, vis, e) == <<"fld", <<"id", x>>, vis, FALSE, e>>
FdP(x, vis, e) == <<"fld", <<"id", x>>, vis, TRUE, e>>
FdC(ne, vis, e) == <<"fld", <<"expr", ne>>, vis, FALSE, e>>
OLoc(x, e) == <<"olocal", x, e>>
OAs(a, m) == <<"oassert", a, m>>
Self == <<"self">>
Std(f, as) == <<"std", f, as>>

-----------------------------------------------------------------------------
(* arith: operators over leaves of every type, two levels                    *)
NumLeaves == {N(0), N(1), N(2), N(3), N(7)}
Leaves == NumLeaves \cup {T, F, Nul, S(<<97>>), S(<<>>), S(<<97, 98>>)}
SmallLeaves == {N(0), N(1), N(3), T, S(<<97>>), Nul}
BinOps == {"+", "-", "*", "/", "%", "&", "|", "^", "<<", ">>", "<", "<=", ">", ">=", "==", "!=", "&&", "||"}
UnOps == {"-", "~", "!", "+"}
A1 == Leaves \cup {Un(o, l) : o \in UnOps, l \in {N(0), N(2), T, S(<<97>>), Nul}}
PArith(pi) ==
  CASE pi = 1 ->
         {Bin(o, a, b) : o \in BinOps, a \in A1, b \in A1}
    [] pi = 2 ->
         {Bin(o1, Bin(o2, a, b), d) : o1 \in BinOps, o2 \in BinOps, a \in SmallLeaves, b \in SmallLeaves, d \in SmallLeaves}
    [] pi = 3 ->
         {Bin(o1, a, Bin(o2, b, d)) : o1 \in BinOps, o2 \in BinOps, a \in SmallLeaves, b \in SmallLeaves, d \in SmallLeaves}
    [] pi = 4 ->
         {If(Bin(o, a, b), x, y) : o \in {"<", "==", "&&"}, a \in SmallLeaves, b \in SmallLeaves, x \in {N(1), ErrE}, y \in {N(2), ErrF}}

-----------------------------------------------------------------------------
(* str: strings and arrays - concatenation, indexing, slicing, comparison    *)
StrL == {S(<<>>), S(<<97>>), S(<<97, 98>>), S(<<98, 97, 99>>)}
ArrL == {ArrE(<<>>), ArrE(<<N(1)>>), ArrE(<<N(1), N(2), N(3)>>), ArrE(<<N(1), ErrE>>), ArrE(<<S(<<97>>), ArrE(<<N(2)>>)>>)}
IxL == {N(0), N(1), N(2), N(5), Un("-", N(1)), S(<<97>>), Nul}
None == <<"none">>
PStr(pi) ==
  CASE pi = 1 ->
         {Idx(a, i) : a \in StrL \cup ArrL, i \in IxL}
    [] pi = 2 ->
         {<<"slice", a, i, j, k>> : a \in StrL \cup ArrL, i \in {None, N(0), N(1), N(2)}, j \in {None, N(0), N(2), N(9)}, k \in {None, N(1), N(2), N(0)}}
    [] pi = 3 ->
         {Bin(o, a, b) : o \in {"+", "==", "<", "<=", "!=", ">"}, a \in StrL \cup ArrL \cup {N(1), Nul}, b \in StrL \cup ArrL \cup {N(1), T}}
    [] pi = 4 ->
         {Std(f, <<a>>) : f \in {"length", "type", "toString"}, a \in StrL \cup ArrL \cup {N(1), Nul, T, Fn(<<Pm("x"), Pm("y")>>, N(1))}}
    [] pi = 5 ->
         {Bin("in", a, ObjE(<<Fd("a", v, N(1))>>)) : a \in {S(<<97>>), S(<<98>>), N(1)}, v \in {"d", "h", "v"}}

-----------------------------------------------------------------------------
(* lazy: locals, arrays, functions - what is not demanded is never run       *)
Xs == {N(1), N(2), ErrE, ArrE(<<N(1), ErrE>>), S(<<97>>)}
BodiesAB == {V("a"), V("b"), ArrE(<<V("a"), V("b")>>), Idx(ArrE(<<V("a"), V("b")>>), N(0)),
             Idx(ArrE(<<V("a"), V("b")>>), N(1)), Bin("+", V("a"), V("a")), If(T, V("a"), V("b")),
             If(F, V("a"), V("b")), Idx(V("a"), N(0)), Idx(V("a"), N(1)), Std("length", <<ArrE(<<V("a"), V("b")>>)>>),
             Let(<<<<"a", V("b")>>>>, V("a")), Bin("&&", F, V("a")), Bin("||", T, V("b")),
             Ap(Fn(<<Pm("x")>>, N(5)), <<V("a")>>), Ap(Fn(<<Pm("x")>>, V("x")), <<V("b")>>),
             ObjE(<<Fd("p", "d", V("a")), Fd("q", "h", V("b"))>>),
             Dot(ObjE(<<Fd("p", "d", V("a")), Fd("q", "d", V("b"))>>), "p")}
PLazy(pi) ==
  CASE pi = 1 ->
         {Let(<<<<"a", x>>, <<"b", y>>>>, b) : x \in Xs, y \in Xs, b \in BodiesAB}
    [] pi = 2 ->
         {Let(<<<<"a", Bin("+", V("b"), N(1))>>, <<"b", x>>>>, b) : x \in Xs, b \in BodiesAB}
    [] pi = 3 ->
         {Let(<<<<"a", V("a")>>, <<"b", x>>>>, b) : x \in Xs, b \in BodiesAB}
    [] pi = 4 ->
         {Let(<<<<"a", V("b")>>, <<"b", V("a")>>>>, b) : b \in BodiesAB}
    [] pi = 5 ->
         {Let(<<<<"a", x>>>>, Let(<<<<"b", V("a")>>, <<"a", y>>>>, b)) : x \in Xs, y \in Xs, b \in {V("a"), V("b"), ArrE(<<V("a"), V("b")>>)}}

-----------------------------------------------------------------------------
(* func: parameters, defaults that mention other parameters, named           *)
(* arguments, arity errors, closures, recursion, tailstrict                  *)
Fbodies == {ArrE(<<V("x"), V("y")>>), V("x"), V("y"), Bin("+", V("x"), V("y")), N(9)}
Fns == {Fn(<<Pm("x"), Pm("y")>>, b) : b \in Fbodies}
       \cup {Fn(<<Pm("x"), Pd("y", d)>>, b) : b \in Fbodies, d \in {N(5), V("x"), Bin("+", V("x"), N(1)), ErrE, V("z")}}
       \cup {Fn(<<Pd("x", d1), Pd("y", d2)>>, b) : b \in Fbodies, d1 \in {N(4), V("y")}, d2 \in {N(5), V("x")}}
ArgV == {N(1), ErrE}
Calls(f) ==
  {Ap(f, <<>>)} \cup {Ap(f, <<a>>) : a \in ArgV} \cup {Ap(f, <<a, b>>) : a \in ArgV, b \in ArgV}
  \cup {Ap(f, <<N(1), N(2), N(3)>>)}
  \cup {ApN(f, <<>>, <<<<"y", a>>>>) : a \in ArgV} \cup {ApN(f, <<>>, <<<<"y", a>>, <<"x", b>>>>) : a \in ArgV, b \in ArgV}
  \cup {ApN(f, <<a>>, <<<<"y", b>>>>) : a \in ArgV, b \in ArgV}
  \cup {ApN(f, <<N(1)>>, <<<<"x", N(2)>>>>), ApN(f, <<>>, <<<<"w", N(2)>>>>), ApT(f, <<N(1), ErrE>>), ApT(f, <<N(1), N(2)>>)}
Fact == Fn(<<Pm("n")>>, If(Bin("==", V("n"), N(0)), N(1), Bin("*", V("n"), Ap(V("f"), <<Bin("-", V("n"), N(1))>>))))
PFunc(pi) ==
  CASE pi = 1 ->
         UNION {{Let(<<<<"z", N(7)>>>>, cl) : cl \in Calls(f)} : f \in Fns}
    [] pi = 2 ->
         {Let(<<<<"f", Fact>>>>, Ap(V("f"), <<N(k)>>)) : k \in 0..5}
    [] pi = 3 ->
         {Let(<<<<"f", Fact>>>>, ApT(V("f"), <<N(k)>>)) : k \in 0..3}
    [] pi = 4 ->
         {Let(<<<<"k", N(k)>>>>, Let(<<<<"g", Fn(<<Pm("x")>>, Bin("+", V("x"), V("k")))>>>>, Let(<<<<"k", N(100)>>>>, Ap(V("g"), <<N(1)>>)))) : k \in 0..2}
    [] pi = 5 ->
         {Ap(Ap(Fn(<<Pm("x")>>, Fn(<<Pm("y")>>, ArrE(<<V("x"), V("y")>>))), <<a>>), <<b>>) : a \in ArgV, b \in ArgV}
    [] pi = 6 ->
         {Ap(a, <<N(1)>>) : a \in {N(1), Nul, S(<<97>>), ArrE(<<>>)}}
    [] pi = 7 ->
         {Let(<<<<"z", N(7)>>>>, Std("length", <<f>>)) : f \in Fns}

-----------------------------------------------------------------------------
(* obj: visibility, self, super, +:, locals, asserts, computed names, $      *)
FieldVals == {N(1), Dot(Self, "a"), Bin("+", Dot(Self, "a"), N(1)), ErrE, V("l")}
SuperVals == {<<"superf", "a">>, Bin("+", <<"superf", "a">>, N(1)), <<"insuper", S(<<97>>)>>, <<"insuper", S(<<98>>)>>,
              <<"superi", S(<<97>>)>>, Dot(Self, "b")}
Vis == {"d", "h", "v"}
BaseObjs ==
  {ObjE(<<OLoc("l", N(5)), Fd("a", v, x)>>) : v \in Vis, x \in FieldVals}
  \cup {ObjE(<<OLoc("l", N(5)), Fd("a", v, N(1)), Fd("b", w, x)>>) : v \in Vis, w \in {"d", "h"}, x \in FieldVals}
  \cup {ObjE(<<Fd("a", "d", N(1)), OAs(Bin(">", Dot(Self, "a"), N(k)), m)>>) : k \in {0, 1}, m \in {None, S(<<109>>)}}
  \cup {ObjE(<<FdC(ne, "d", N(1)), Fd("b", "d", N(2))>>) : ne \in {S(<<97>>), S(<<98>>), Nul, N(1), Bin("+", S(<<97>>), S(<<97>>))}}
  \cup {ObjE(<<OLoc("l", x), FdC(ne, "d", V("l")), Fd("b", v, V("l")), Fd("c", "d", Bin("+", V("l"), V("l")))>>) :
          x \in {N(5), ArrE(<<N(1)>>)}, ne \in {S(<<97>>), Bin("+", S(<<97>>), S(<<>>))}, v \in {"d", "h"}}
  \cup {ObjE(<<Fd("a", "d", ObjE(<<Fd("b", "d", <<"dollar">>)>>)), Fd("c", "h", N(1))>>)}
  \cup {ObjE(<<Fd("a", "d", N(1)), Fd("b", "d", ObjE(<<Fd("c", "d", Dot(<<"dollar">>, "a")), Fd("a", "d", N(2)), Fd("d", "d", Dot(Self, "a"))>>))>>)}
ExtObjs ==
  {ObjE(<<Fd("a", v, x)>>) : v \in Vis, x \in {N(10)} \cup SuperVals}
  \cup {ObjE(<<FdP("a", v, x)>>) : v \in Vis, x \in {N(10), S(<<120>>), ArrE(<<N(1)>>)}}
  \cup {ObjE(<<Fd("c", "d", x)>>) : x \in SuperVals}
  \cup {ObjE(<<Fd("b", v, N(20)), Fd("c", "d", <<"superf", "b">>)>>) : v \in Vis}
  \cup {ObjE(<<>>)}
  \cup {ObjE(<<OAs(Bin(">", Dot(Self, "a"), N(k)), m)>>) : k \in {0, 5}, m \in {None, S(<<109>>)}}    \* assert-only
  \cup {ObjE(<<OLoc("l", N(1))>>)}
Observe(o) ==
  {o, Dot(o, "a"), Dot(o, "b"), Dot(o, "c"), Std("objectFields", <<o>>), Std("objectFieldsAll", <<o>>), Std("length", <<o>>),
   Bin("in", S(<<97>>), o), Std("objectHas", <<o, S(<<97>>)>>), Std("objectHasAll", <<o, S(<<98>>)>>),
   Std("toString", <<o>>), Bin("==", o, o)}
PObj(pi) ==
  CASE pi = 1 ->
         UNION {Observe(o) : o \in BaseObjs}
    [] pi = 2 ->
         UNION {Observe(Bin("+", a, b)) : a \in BaseObjs, b \in ExtObjs}
    [] pi = 3 ->
         \* an object local shared by a computed-name field and ordinary fields (evaluated once per object);
         \* no `+` and no std call, so that the fields count as once-instantiated binding sites (Rewrite!TraceSites)
         UNION {{o, Dot(o, "a"), ArrE(<<Dot(o, "a"), Dot(o, "c")>>)} : o \in
           {ObjE(<<OLoc("l", x), FdC(ne, "d", V("l")), Fd("b", v, V("l")), Fd("c", "d", Bin("*", V("l"), N(2)))>>) :
              x \in {N(5), Bin("*", N(2), N(3))}, ne \in {S(<<97>>), If(T, S(<<97>>), S(<<98>>))}, v \in {"d", "h"}}
           \cup {ObjE(<<OLoc("l", N(4)), OLoc("m", Bin("*", V("l"), V("l"))), FdC(S(<<97>>), "d", V("m")),
                        FdC(S(<<98>>), "h", V("m")), Fd("c", "d", ArrE(<<V("l"), V("m")>>))>>)}}

-----------------------------------------------------------------------------
(* comp: array and object comprehensions                                     *)
Srcs == {ArrE(<<N(1), N(2), N(3)>>), ArrE(<<>>), ArrE(<<N(1), ErrE>>), N(1), ArrE(<<S(<<97>>), S(<<98>>)>>)}
PComp(pi) ==
  CASE pi = 1 ->
         {<<"arrcomp", e, <<<<"for", "x", s>>>>>> : e \in {V("x"), Bin("*", V("x"), N(2)), N(0), ErrE}, s \in Srcs}
    [] pi = 2 ->
         {<<"arrcomp", e, <<<<"for", "x", s>>, <<"cif", g>>>>>> : e \in {V("x"), N(0)}, s \in Srcs,
                 g \in {Bin(">", V("x"), N(1)), T, F, N(1), Bin("==", V("x"), S(<<97>>))}}
    [] pi = 3 ->
         {<<"arrcomp", ArrE(<<V("x"), V("y")>>), <<<<"for", "x", s>>, <<"for", "y", t>>>>>> : s \in {ArrE(<<N(1), N(2)>>), ArrE(<<>>)},
                 t \in {ArrE(<<N(3), N(4)>>), ArrE(<<V("x"), V("x")>>), V("x")}}
    [] pi = 4 ->
         {<<"arrcomp", V("y"), <<<<"for", "x", ArrE(<<ArrE(<<N(1), N(2)>>), ArrE(<<N(3)>>)>>)>>, <<"cif", g>>, <<"for", "y", V("x")>>>>>> :
                 g \in {T, Bin(">", Std("length", <<V("x")>>), N(1))}}
    [] pi = 5 ->
         {<<"objcomp", k, v, <<>>, <<<<"for", "x", s>>>>>> :
                 k \in {V("x"), S(<<97>>), Bin("+", V("x"), S(<<33>>)), Nul}, v \in {V("x"), N(1), Dot(Self, "a"), ErrE},
                 s \in {ArrE(<<S(<<97>>), S(<<98>>)>>), ArrE(<<S(<<97>>), S(<<97>>)>>), ArrE(<<>>), ArrE(<<N(1)>>)}}
    [] pi = 6 ->
         {<<"objcomp", V("x"), V("l"), <<OLoc("l", Bin("+", V("x"), S(<<63>>)))>>, <<<<"for", "x", ArrE(<<S(<<97>>), S(<<98>>)>>)>>>>>>}
    [] pi = 7 ->
         {Idx(<<"arrcomp", If(Bin("==", V("x"), N(2)), ErrE, V("x")), <<<<"for", "x", ArrE(<<N(1), N(2), N(3)>>)>>>>>>, N(k)) : k \in 0..3}
    [] pi = 8 ->
         {Std(f, <<g, a>>) : f \in {"map", "filter"},
                 g \in {Fn(<<Pm("x")>>, Bin(">", V("x"), N(1))), Fn(<<Pm("x")>>, V("x")), Fn(<<Pm("x")>>, ErrE), N(1)},
                 a \in Srcs}
    [] pi = 9 ->
         {Std("foldl", <<Fn(<<Pm("a"), Pm("x")>>, b), s, i>>) : b \in {Bin("+", V("a"), V("x")), V("a"), V("x"), ArrE(<<V("a"), V("x")>>)},
                 s \in Srcs, i \in {N(0), ErrE}}
    [] pi = 10 ->
         {Std("makeArray", <<n, g>>) : n \in {N(0), N(3), Un("-", N(1)), S(<<97>>)},
                 g \in {Fn(<<Pm("i")>>, Bin("*", V("i"), V("i"))), Fn(<<Pm("i")>>, ErrE), N(1)}}
    [] pi = 11 ->
         {Idx(Std("makeArray", <<N(3), Fn(<<Pm("i")>>, If(Bin("==", V("i"), N(1)), ErrE, V("i")))>>), N(k)) : k \in 0..2}
    [] pi = 12 ->
         \* std.sort: arrays of at most one element are returned untouched (upstream definition)
         UNION {{Std("sort", <<a>>), Std("length", <<Std("sort", <<a>>)>>), Idx(Std("sort", <<a>>), N(0))} :
                 a \in {ArrE(<<>>), ArrE(<<ErrE>>), ArrE(<<N(2), N(1), N(3)>>), ArrE(<<N(1), ErrE>>), ArrE(<<N(7)>>),
                        ArrE(<<N(2), N(2), N(1)>>), ArrE(<<S(<<97>>), N(1)>>), N(1)}}

-----------------------------------------------------------------------------
NParts ==
  CASE Slice = "arith" -> 4
    [] Slice = "str" -> 5
    [] Slice = "lazy" -> 5
    [] Slice = "func" -> 7
    [] Slice = "obj" -> 3
    [] Slice = "comp" -> 12

Part(pi) ==
  CASE Slice = "arith" -> PArith(pi)
    [] Slice = "str" -> PStr(pi)
    [] Slice = "lazy" -> PLazy(pi)
    [] Slice = "func" -> PFunc(pi)
    [] Slice = "obj" -> PObj(pi)
    [] Slice = "comp" -> PComp(pi)

Init == \E pi \in 1..NParts :
          LET U == Part(pi) IN
          c \in (IF Sample = 0 \/ Cardinality(U) <= Sample THEN U ELSE RandomSubset(Sample, U))
Next == UNCHANGED c

Emit == PrintT(<<"CASE", ToJson([src |-> P(c), res |-> Run(c, Fuel)])>>)
=============================================================================
