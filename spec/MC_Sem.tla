------------------------------- MODULE MC_Sem -------------------------------
(***************************************************************************)
(* Program universes ("grammar slices") for C02 and friends.  TLC          *)
(* enumerates every program of the selected slice (or a seeded random      *)
(* subset of it), evaluates it with the reference semantics Sem!Run and     *)
(* prints source text + expected outcome.                                   *)
(***************************************************************************)
EXTENDS Sem, Pretty, Json, Randomization

CONSTANTS Slice,    \* which universe
          Sample,   \* 0 = whole universe, n = seeded random subset of size n
          Fuel

VARIABLE c

\* the other reading of the library members with a named deviation (Sem!StdReading);
\* selected from a cfg with `CONSTANT StdReading <- UpstreamReading`
UpstreamReading == "upstream"

N(n) == <<"num", n>>
V(x) == <<"var", x>>
S(cps) == <<"str", cps>>
T == <<"true">>
F == <<"false">>
Nul == <<"null">>
ErrE == <<"error", S(<<69>>)>>
ErrF == <<"error", S(<<70>>)>>
Bin(o, a, b) == <<"bin", o, a, b>>
Un(o, a) == <<"un", o, a>>
ArrE(es) == <<"arr", es>>
Idx(e, i) == <<"index", e, i>>
Dot(e, x) == <<"field", e, x>>
Let(bs, b) == <<"local", bs, b>>
If(a, b, d) == <<"if", a, b, d>>
Fn(ps, b) == <<"func", ps, b>>
Pm(x) == <<x, <<"nodef">>>>
Pd(x, d) == <<x, d>>
Ap(f, pos) == <<"call", f, pos, <<>>, FALSE>>
ApN(f, pos, named) == <<"call", f, pos, named, FALSE>>
ApT(f, pos) == <<"call", f, pos, <<>>, TRUE>>
ObjE(ms) == <<"obj", ms>>
Fd(x, vis, e) == <<"fld", <<"id", x>>, vis, FALSE, e>>
FdP(x, vis, e) == <<"fld", <<"id", x>>, vis, TRUE, e>>
FdC(ne, vis, e) == <<"fld", <<"expr", ne>>, vis, FALSE, e>>
OLoc(x, e) == <<"olocal", x, e>>
OAs(a, m) == <<"oassert", a, m>>
Self == <<"self">>
Std(f, as) == <<"std", f, as>>

-----------------------------------------------------------------------------
(* arith: operators over leaves of every type, two levels                    *)
NumLeaves == {N(0), N(1), N(2), N(3), N(7)}
Leaves == NumLeaves \cup {T, F, Nul, S(<<97>>), S(<<>>), S(<<97, 98>>)}
SmallLeaves == {N(0), N(1), N(3), T, S(<<97>>), Nul}
BinOps == {"+", "-", "*", "/", "%", "&", "|", "^", "<<", ">>", "<", "<=", ">", ">=", "==", "!=", "&&", "||"}
UnOps == {"-", "~", "!", "+"}
A1 == Leaves \cup {Un(o, l) : o \in UnOps, l \in {N(0), N(2), T, S(<<97>>), Nul}}
PArith(pi) ==
  CASE pi = 1 ->
         {Bin(o, a, b) : o \in BinOps, a \in A1, b \in A1}
    [] pi = 2 ->
         {Bin(o1, Bin(o2, a, b), d) : o1 \in BinOps, o2 \in BinOps, a \in SmallLeaves, b \in SmallLeaves, d \in SmallLeaves}
    [] pi = 3 ->
         {Bin(o1, a, Bin(o2, b, d)) : o1 \in BinOps, o2 \in BinOps, a \in SmallLeaves, b \in SmallLeaves, d \in SmallLeaves}
    [] pi = 4 ->
         {If(Bin(o, a, b), x, y) : o \in {"<", "==", "&&"}, a \in SmallLeaves, b \in SmallLeaves, x \in {N(1), ErrE}, y \in {N(2), ErrF}}

-----------------------------------------------------------------------------
(* str: strings and arrays - concatenation, indexing, slicing, comparison    *)
StrL == {S(<<>>), S(<<97>>), S(<<97, 98>>), S(<<98, 97, 99>>)}
ArrL == {ArrE(<<>>), ArrE(<<N(1)>>), ArrE(<<N(1), N(2), N(3)>>), ArrE(<<N(1), ErrE>>), ArrE(<<S(<<97>>), ArrE(<<N(2)>>)>>)}
IxL == {N(0), N(1), N(2), N(5), Un("-", N(1)), S(<<97>>), Nul}
None == <<"none">>
SlB == {None, Un("-", N(1)), Un("-", N(2)), Un("-", N(3)), N(0), N(1), N(2)}
PStr(pi) ==
  CASE pi = 1 ->
         {Idx(a, i) : a \in StrL \cup ArrL, i \in IxL}
    [] pi = 2 ->
         {<<"slice", a, i, j, k>> : a \in StrL \cup ArrL, i \in {None, N(0), N(1), N(2)}, j \in {None, N(0), N(2), N(9)}, k \in {None, N(1), N(2), N(0)}}
    [] pi = 3 ->
         {Bin(o, a, b) : o \in {"+", "==", "<", "<=", "!=", ">"}, a \in StrL \cup ArrL \cup {N(1), Nul}, b \in StrL \cup ArrL \cup {N(1), T}}
    [] pi = 4 ->
         {Std(f, <<a>>) : f \in {"length", "type", "toString"}, a \in StrL \cup ArrL \cup {N(1), Nul, T, Fn(<<Pm("x"), Pm("y")>>, N(1))}}
    [] pi = 5 ->
         {Bin("in", a, ObjE(<<Fd("a", v, N(1))>>)) : a \in {S(<<97>>), S(<<98>>), N(1)}, v \in {"d", "h", "v"}}
    [] pi = 6 ->
         \* strings with non-ASCII code points (2-, 4-byte in UTF-8), negative / omitted bounds and a step:
         \* positions are code points, never bytes
         {<<"slice", s, i, j, k>> : s \in {S(<<104, 233, 108>>), S(<<233, 233, 97>>), S(<<128512, 97, 233, 98>>)},
                                    i \in SlB, j \in SlB, k \in {None, N(1), N(2)}}
         \cup {Std("slice", <<S(<<128512, 97, 233, 98>>), IF i = None THEN Nul ELSE i, IF j = None THEN Nul ELSE j, IF k = None THEN Nul ELSE k>>) :
                 i \in SlB, j \in SlB, k \in {None, N(1), N(2)}}
         \cup {Std("length", <<s>>) : s \in {S(<<104, 233, 108>>), S(<<128512, 97, 233, 98>>)}}
         \cup {Idx(s, N(i)) : s \in {S(<<128512, 97, 233, 98>>)}, i \in 0..3}

-----------------------------------------------------------------------------
(* lazy: locals, arrays, functions - what is not demanded is never run       *)
Xs == {N(1), N(2), ErrE, ArrE(<<N(1), ErrE>>), S(<<97>>)}
BodiesAB == {V("a"), V("b"), ArrE(<<V("a"), V("b")>>), Idx(ArrE(<<V("a"), V("b")>>), N(0)),
             Idx(ArrE(<<V("a"), V("b")>>), N(1)), Bin("+", V("a"), V("a")), If(T, V("a"), V("b")),
             If(F, V("a"), V("b")), Idx(V("a"), N(0)), Idx(V("a"), N(1)), Std("length", <<ArrE(<<V("a"), V("b")>>)>>),
             Let(<<<<"a", V("b")>>>>, V("a")), Bin("&&", F, V("a")), Bin("||", T, V("b")),
             Ap(Fn(<<Pm("x")>>, N(5)), <<V("a")>>), Ap(Fn(<<Pm("x")>>, V("x")), <<V("b")>>),
             ObjE(<<Fd("p", "d", V("a")), Fd("q", "h", V("b"))>>),
             Dot(ObjE(<<Fd("p", "d", V("a")), Fd("q", "d", V("b"))>>), "p")}
PLazy(pi) ==
  CASE pi = 1 ->
         {Let(<<<<"a", x>>, <<"b", y>>>>, b) : x \in Xs, y \in Xs, b \in BodiesAB}
    [] pi = 2 ->
         {Let(<<<<"a", Bin("+", V("b"), N(1))>>, <<"b", x>>>>, b) : x \in Xs, b \in BodiesAB}
    [] pi = 3 ->
         {Let(<<<<"a", V("a")>>, <<"b", x>>>>, b) : x \in Xs, b \in BodiesAB}
    [] pi = 4 ->
         {Let(<<<<"a", V("b")>>, <<"b", V("a")>>>>, b) : b \in BodiesAB}
    [] pi = 5 ->
         {Let(<<<<"a", x>>>>, Let(<<<<"b", V("a")>>, <<"a", y>>>>, b)) : x \in Xs, y \in Xs, b \in {V("a"), V("b"), ArrE(<<V("a"), V("b")>>)}}

-----------------------------------------------------------------------------
(* func: parameters, defaults that mention other parameters, named           *)
(* arguments, arity errors, closures, recursion, tailstrict                  *)
Fbodies == {ArrE(<<V("x"), V("y")>>), V("x"), V("y"), Bin("+", V("x"), V("y")), N(9)}
Fns == {Fn(<<Pm("x"), Pm("y")>>, b) : b \in Fbodies}
       \cup {Fn(<<Pm("x"), Pd("y", d)>>, b) : b \in Fbodies, d \in {N(5), V("x"), Bin("+", V("x"), N(1)), ErrE, V("z")}}
       \cup {Fn(<<Pd("x", d1), Pd("y", d2)>>, b) : b \in Fbodies, d1 \in {N(4), V("y")}, d2 \in {N(5), V("x")}}
ArgV == {N(1), ErrE}
Calls(f) ==
  {Ap(f, <<>>)} \cup {Ap(f, <<a>>) : a \in ArgV} \cup {Ap(f, <<a, b>>) : a \in ArgV, b \in ArgV}
  \cup {Ap(f, <<N(1), N(2), N(3)>>)}
  \cup {ApN(f, <<>>, <<<<"y", a>>>>) : a \in ArgV} \cup {ApN(f, <<>>, <<<<"y", a>>, <<"x", b>>>>) : a \in ArgV, b \in ArgV}
  \cup {ApN(f, <<a>>, <<<<"y", b>>>>) : a \in ArgV, b \in ArgV}
  \cup {ApN(f, <<N(1)>>, <<<<"x", N(2)>>>>), ApN(f, <<>>, <<<<"w", N(2)>>>>), ApT(f, <<N(1), ErrE>>), ApT(f, <<N(1), N(2)>>)}
Fns4 == {Fn(<<Pm("a"), Pd("b", N(10)), Pd("c", d2), Pd("d", d3)>>, ArrE(<<V("a"), V("b"), V("c"), V("d")>>)) :
           d2 \in {N(20), V("b"), Bin("+", V("a"), N(1))}, d3 \in {N(30), V("c"), ErrE}}
Pos4 == {<<>>, <<N(1)>>, <<N(1), N(2)>>, <<N(1), N(2), N(3)>>, <<N(1), N(2), N(3), N(4)>>}
NamedVal(x) == CASE x = "a" -> N(5) [] x = "b" -> N(6) [] x = "c" -> N(7) [] x = "d" -> N(8) [] OTHER -> N(9)
Named4 == {<<>>} \cup {<<<<x, NamedVal(x)>>>> : x \in {"a", "b", "c", "d", "w"}}
          \cup {<<<<x, NamedVal(x)>>, <<y, NamedVal(y)>>>> : x \in {"a", "b", "c", "d"}, y \in {"a", "b", "c", "d"}}
          \cup {<<<<"d", N(8)>>, <<"c", N(7)>>, <<"b", N(6)>>>>, <<<<"b", N(6)>>, <<"d", N(8)>>, <<"a", N(5)>>>>}
Fact == Fn(<<Pm("n")>>, If(Bin("==", V("n"), N(0)), N(1), Bin("*", V("n"), Ap(V("f"), <<Bin("-", V("n"), N(1))>>))))
PFunc(pi) ==
  CASE pi = 1 ->
         UNION {{Let(<<<<"z", N(7)>>>>, cl) : cl \in Calls(f)} : f \in Fns}
    [] pi = 2 ->
         {Let(<<<<"f", Fact>>>>, Ap(V("f"), <<N(k)>>)) : k \in 0..5}
    [] pi = 3 ->
         {Let(<<<<"f", Fact>>>>, ApT(V("f"), <<N(k)>>)) : k \in 0..3}
    [] pi = 4 ->
         {Let(<<<<"k", N(k)>>>>, Let(<<<<"g", Fn(<<Pm("x")>>, Bin("+", V("x"), V("k")))>>>>, Let(<<<<"k", N(100)>>>>, Ap(V("g"), <<N(1)>>)))) : k \in 0..2}
    [] pi = 5 ->
         {Ap(Ap(Fn(<<Pm("x")>>, Fn(<<Pm("y")>>, ArrE(<<V("x"), V("y")>>))), <<a>>), <<b>>) : a \in ArgV, b \in ArgV}
    [] pi = 6 ->
         {Ap(a, <<N(1)>>) : a \in {N(1), Nul, S(<<97>>), ArrE(<<>>)}}
    [] pi = 7 ->
         {Let(<<<<"z", N(7)>>>>, Std("length", <<f>>)) : f \in Fns}
    [] pi = 8 ->
         \* four parameters, three of them defaulted: every mix of positional and named arguments
         \* (a named argument BETWEEN two parameters that fall back on their defaults, out of order,
         \* doubly bound, unknown)
         {ApN(f, ps, ns) : f \in Fns4, ps \in Pos4, ns \in Named4}

-----------------------------------------------------------------------------
(* obj: visibility, self, super, +:, locals, asserts, computed names, $      *)
FieldVals == {N(1), Dot(Self, "a"), Bin("+", Dot(Self, "a"), N(1)), ErrE, V("l")}
SuperVals == {<<"superf", "a">>, Bin("+", <<"superf", "a">>, N(1)), <<"insuper", S(<<97>>)>>, <<"insuper", S(<<98>>)>>,
              <<"superi", S(<<97>>)>>, Dot(Self, "b")}
Vis == {"d", "h", "v"}
BaseObjs ==
  {ObjE(<<OLoc("l", N(5)), Fd("a", v, x)>>) : v \in Vis, x \in FieldVals}
  \cup {ObjE(<<OLoc("l", N(5)), Fd("a", v, N(1)), Fd("b", w, x)>>) : v \in Vis, w \in {"d", "h"}, x \in FieldVals}
  \cup {ObjE(<<Fd("a", "d", N(1)), OAs(Bin(">", Dot(Self, "a"), N(k)), m)>>) : k \in {0, 1}, m \in {None, S(<<109>>)}}
  \cup {ObjE(<<FdC(ne, "d", N(1)), Fd("b", "d", N(2))>>) : ne \in {S(<<97>>), S(<<98>>), Nul, N(1), Bin("+", S(<<97>>), S(<<97>>))}}
  \cup {ObjE(<<OLoc("l", x), FdC(ne, "d", V("l")), Fd("b", v, V("l")), Fd("c", "d", Bin("+", V("l"), V("l")))>>) :
          x \in {N(5), ArrE(<<N(1)>>)}, ne \in {S(<<97>>), Bin("+", S(<<97>>), S(<<>>))}, v \in {"d", "h"}}
  \cup {ObjE(<<Fd("a", "d", ObjE(<<Fd("b", "d", <<"dollar">>)>>)), Fd("c", "h", N(1))>>)}
  \cup {ObjE(<<Fd("a", "d", N(1)), Fd("b", "d", ObjE(<<Fd("c", "d", Dot(<<"dollar">>, "a")), Fd("a", "d", N(2)), Fd("d", "d", Dot(Self, "a"))>>))>>)}
ExtObjs ==
  {ObjE(<<Fd("a", v, x)>>) : v \in Vis, x \in {N(10)} \cup SuperVals}
  \cup {ObjE(<<FdP("a", v, x)>>) : v \in Vis, x \in {N(10), S(<<120>>), ArrE(<<N(1)>>)}}
  \cup {ObjE(<<Fd("c", "d", x)>>) : x \in SuperVals}
  \cup {ObjE(<<Fd("b", v, N(20)), Fd("c", "d", <<"superf", "b">>)>>) : v \in Vis}
  \cup {ObjE(<<>>)}
  \cup {ObjE(<<OAs(Bin(">", Dot(Self, "a"), N(k)), m)>>) : k \in {0, 5}, m \in {None, S(<<109>>)}}    \* assert-only
  \cup {ObjE(<<OLoc("l", N(1))>>)}
Observe(o) ==
  {o, Dot(o, "a"), Dot(o, "b"), Dot(o, "c"), Std("objectFields", <<o>>), Std("objectFieldsAll", <<o>>), Std("length", <<o>>),
   Bin("in", S(<<97>>), o), Std("objectHas", <<o, S(<<97>>)>>), Std("objectHasAll", <<o, S(<<98>>)>>),
   Std("toString", <<o>>), Bin("==", o, o)}
DollarInner ==
  {ObjE(<<Fd("v", "d", N(1)), Fd("w", "d", Dot(<<"dollar">>, "v"))>>),
   ObjE(<<OLoc("l", Dot(<<"dollar">>, "v")), Fd("v", "d", N(1)), Fd("w", "d", ArrE(<<V("l"), Dot(Self, "v")>>))>>),
   ObjE(<<Fd("v", "d", N(1)), Fd("w", "d", ObjE(<<Fd("p", "d", ArrE(<<Dot(<<"dollar">>, "v"), Dot(Self, "q")>>)), Fd("q", "d", N(6))>>))>>)}

PObj(pi) ==
  CASE pi = 1 ->
         UNION {Observe(o) : o \in BaseObjs}
    [] pi = 2 ->
         UNION {Observe(Bin("+", a, b)) : a \in BaseObjs, b \in ExtObjs}
    [] pi = 3 ->
         \* an object local shared by a computed-name field and ordinary fields (evaluated once per object);
         \* no `+` and no std call, so that the fields count as once-instantiated binding sites (Rewrite!TraceSites)
         UNION {{o, Dot(o, "a"), ArrE(<<Dot(o, "a"), Dot(o, "c")>>)} : o \in
           {ObjE(<<OLoc("l", x), FdC(ne, "d", V("l")), Fd("b", v, V("l")), Fd("c", "d", Bin("*", V("l"), N(2)))>>) :
              x \in {N(5), Bin("*", N(2), N(3))}, ne \in {S(<<97>>), If(T, S(<<97>>), S(<<98>>))}, v \in {"d", "h"}}
           \cup {ObjE(<<OLoc("l", N(4)), OLoc("m", Bin("*", V("l"), V("l"))), FdC(S(<<97>>), "d", V("m")),
                        FdC(S(<<98>>), "h", V("m")), Fd("c", "d", ArrE(<<V("l"), V("m")>>))>>)}}

    [] pi = 4 ->
         \* `$` is the OUTERMOST object the literal is written in, whatever the literal is combined with:
         \* a nested literal using `$` (directly, through an object local, through a method) extended on
         \* either side by an object defined outside any object (a local, a function result), by a nested
         \* literal, or by a chain of them
         UNION {{o, Dot(Dot(o, "a"), "w"), Dot(Dot(o, "a"), "v"), Std("objectFields", <<Dot(o, "a")>>)} : o \in
           {Let(<<<<"m", ObjE(<<Fd("v", "d", N(3))>>)>>, <<"g", Fn(<<>>, ObjE(<<Fd("v", "d", N(4)), Fd("u", "d", N(0))>>))>>>>,
                ObjE(<<Fd("v", "d", N(2)), Fd("a", "d", comb)>>)) :
              comb \in UNION {{Bin("+", inner, ext), Bin("+", ext, inner), Bin("+", Bin("+", inner, ext), ext),
                               Bin("+", inner, Bin("+", ext, ObjE(<<Fd("t", "d", N(1))>>)))} :
                              inner \in DollarInner, ext \in {V("m"), Ap(V("g"), <<>>), ObjE(<<Fd("v", "d", N(5))>>), ObjE(<<>>)}}}}

    [] pi = 5 ->
         \* an object with assertions is bound to a name and USED ON ITS OWN FIRST (its assertions hold and have
         \* run), and only then extended: the assertions of the combined object are late-bound to the NEW self and
         \* run again for it, whatever has already been established about the operands
         {Let(<<<<"p", base>>>>, ArrE(<<use, obs>>)) :
            base \in {ObjE(<<Fd("a", "d", N(1)), OAs(Bin(">", Dot(Self, "a"), N(0)), m)>>) : m \in {None, S(<<109>>)}}
                     \cup {Bin("+", ObjE(<<OAs(Bin(">", Dot(Self, "a"), N(0)), None)>>), ObjE(<<Fd("a", "d", N(1))>>)),
                           ObjE(<<Fd("a", "d", N(1)), Fd("b", "h", N(2)), OAs(Bin(">", Dot(Self, "b"), Dot(Self, "a")), None)>>)},
            use \in {Dot(V("p"), "a"), V("p"), Std("length", <<V("p")>>), N(0)},
            obs \in UNION {{Dot(Bin("+", V("p"), ext), "a"), Bin("+", V("p"), ext), Bin("+", Bin("+", V("p"), ObjE(<<>>)), ext),
                            Bin("+", V("p"), Bin("+", ObjE(<<Fd("c", "d", N(3))>>), ext)),
                            Std("objectFields", <<Bin("+", V("p"), ext)>>)} :
                           ext \in {ObjE(<<Fd("a", "d", Un("-", N(1)))>>), ObjE(<<Fd("a", "d", N(2))>>), ObjE(<<Fd("a", "h", Un("-", N(1)))>>),
                                    ObjE(<<FdP("a", "d", Un("-", N(5)))>>), ObjE(<<Fd("b", "d", N(0))>>), ObjE(<<>>),
                                    ObjE(<<Fd("a", "d", Un("-", N(1))), OAs(T, None)>>)}}}

-----------------------------------------------------------------------------
(* comp: array and object comprehensions                                     *)
Srcs == {ArrE(<<N(1), N(2), N(3)>>), ArrE(<<>>), ArrE(<<N(1), ErrE>>), N(1), ArrE(<<S(<<97>>), S(<<98>>)>>)}
PComp(pi) ==
  CASE pi = 1 ->
         {<<"arrcomp", e, <<<<"for", "x", s>>>>>> : e \in {V("x"), Bin("*", V("x"), N(2)), N(0), ErrE}, s \in Srcs}
    [] pi = 2 ->
         {<<"arrcomp", e, <<<<"for", "x", s>>, <<"cif", g>>>>>> : e \in {V("x"), N(0)}, s \in Srcs,
                 g \in {Bin(">", V("x"), N(1)), T, F, N(1), Bin("==", V("x"), S(<<97>>))}}
    [] pi = 3 ->
         {<<"arrcomp", ArrE(<<V("x"), V("y")>>), <<<<"for", "x", s>>, <<"for", "y", t>>>>>> : s \in {ArrE(<<N(1), N(2)>>), ArrE(<<>>)},
                 t \in {ArrE(<<N(3), N(4)>>), ArrE(<<V("x"), V("x")>>), V("x")}}
    [] pi = 4 ->
         {<<"arrcomp", V("y"), <<<<"for", "x", ArrE(<<ArrE(<<N(1), N(2)>>), ArrE(<<N(3)>>)>>)>>, <<"cif", g>>, <<"for", "y", V("x")>>>>>> :
                 g \in {T, Bin(">", Std("length", <<V("x")>>), N(1))}}
    [] pi = 5 ->
         {<<"objcomp", k, v, <<>>, <<<<"for", "x", s>>>>>> :
                 k \in {V("x"), S(<<97>>), Bin("+", V("x"), S(<<33>>)), Nul}, v \in {V("x"), N(1), Dot(Self, "a"), ErrE},
                 s \in {ArrE(<<S(<<97>>), S(<<98>>)>>), ArrE(<<S(<<97>>), S(<<97>>)>>), ArrE(<<>>), ArrE(<<N(1)>>)}}
    [] pi = 6 ->
         {<<"objcomp", V("x"), V("l"), <<OLoc("l", Bin("+", V("x"), S(<<63>>)))>>, <<<<"for", "x", ArrE(<<S(<<97>>), S(<<98>>)>>)>>>>>>}
    [] pi = 7 ->
         {Idx(<<"arrcomp", If(Bin("==", V("x"), N(2)), ErrE, V("x")), <<<<"for", "x", ArrE(<<N(1), N(2), N(3)>>)>>>>>>, N(k)) : k \in 0..3}
    [] pi = 8 ->
         {Std(f, <<g, a>>) : f \in {"map", "filter"},
                 g \in {Fn(<<Pm("x")>>, Bin(">", V("x"), N(1))), Fn(<<Pm("x")>>, V("x")), Fn(<<Pm("x")>>, ErrE), N(1)},
                 a \in Srcs}
    [] pi = 9 ->
         {Std("foldl", <<Fn(<<Pm("a"), Pm("x")>>, b), s, i>>) : b \in {Bin("+", V("a"), V("x")), V("a"), V("x"), ArrE(<<V("a"), V("x")>>)},
                 s \in Srcs, i \in {N(0), ErrE}}
    [] pi = 10 ->
         {Std("makeArray", <<n, g>>) : n \in {N(0), N(3), Un("-", N(1)), S(<<97>>)},
                 g \in {Fn(<<Pm("i")>>, Bin("*", V("i"), V("i"))), Fn(<<Pm("i")>>, ErrE), N(1)}}
    [] pi = 11 ->
         {Idx(Std("makeArray", <<N(3), Fn(<<Pm("i")>>, If(Bin("==", V("i"), N(1)), ErrE, V("i")))>>), N(k)) : k \in 0..2}
    [] pi = 12 ->
         \* std.sort: arrays of at most one element are returned untouched (upstream definition)
         UNION {{Std("sort", <<a>>), Std("length", <<Std("sort", <<a>>)>>), Idx(Std("sort", <<a>>), N(0))} :
                 a \in {ArrE(<<>>), ArrE(<<ErrE>>), ArrE(<<N(2), N(1), N(3)>>), ArrE(<<N(1), ErrE>>), ArrE(<<N(7)>>),
                        ArrE(<<N(2), N(2), N(1)>>), ArrE(<<S(<<97>>), N(1)>>), N(1)}}

-----------------------------------------------------------------------------
(* lib: library members whose laziness is part of their definition - which   *)
(* array elements / object fields / arguments are forced, and in which order *)
(* failures surface.  Leaves make laziness observable: `error "E"` elements  *)
(* that are / are not needed, observers that do not force the elements       *)
(* (std.length, one index), wrong-typed arguments, functions of the wrong    *)
(* arity, and one library call nested in another.                            *)
SA == S(<<97>>)
SB == S(<<98>>)
SAB == S(<<97, 98>>)
Neg(n) == Un("-", N(n))
Fx(b) == Fn(<<Pm("x")>>, b)
Fix(b) == Fn(<<Pm("i"), Pm("x")>>, b)
Fxa(b) == Fn(<<Pm("x"), Pm("a")>>, b)
OAB(va, x, vb, y) == ObjE(<<Fd("a", va, x), Fd("b", vb, y)>>)
\* observers of an array-valued expression
ObsArr(e) == {e, Std("length", <<e>>), Idx(e, N(0)), Idx(e, N(1))}
ObsLen(e) == {e, Std("length", <<e>>)}

\* arrays for the one-argument members
Arr1 == {ArrE(<<>>), ArrE(<<N(1)>>), ArrE(<<ErrE, N(1)>>), ArrE(<<N(1), ErrE>>), ArrE(<<N(3), N(1), N(2)>>),
         ArrE(<<T, ErrE>>), ArrE(<<F, ErrE>>), ArrE(<<T, F>>), ArrE(<<T, T>>), ArrE(<<F, F>>), ArrE(<<T, N(1)>>),
         ArrE(<<F, N(1), ErrE>>), ArrE(<<N(1), T, ErrE>>), ArrE(<<ErrE, ErrF>>),
         ArrE(<<SA, SB>>), ArrE(<<SA, ErrE>>), ArrE(<<SB, SA, SAB>>), ArrE(<<SA, Nul>>), ArrE(<<Nul>>), ArrE(<<SA, N(1)>>),
         ArrE(<<ArrE(<<SA>>), SB>>), ArrE(<<ArrE(<<SA, ArrE(<<SB, ErrE>>)>>)>>),
         ArrE(<<ArrE(<<ErrE>>), ArrE(<<N(1)>>)>>), ArrE(<<ArrE(<<N(1)>>), ArrE(<<N(2), N(3)>>)>>),
         ArrE(<<ArrE(<<N(1)>>), ErrE>>), ArrE(<<ArrE(<<N(1)>>), N(2)>>), ArrE(<<ArrE(<<ArrE(<<N(1)>>), ErrE>>), N(2)>>),
         ArrE(<<ArrE(<<N(1)>>), SA>>), ArrE(<<N(1), SA>>), ArrE(<<N(2), N(2)>>),
         SAB, S(<<>>), N(1), Nul, OAB("d", N(1), "d", N(2)), ErrE}
Unary1 == {"reverse", "flattenDeepArray", "flattenArrays", "all", "any"}
Unary2 == {"sum", "avg", "deepJoin", "lines", "minArray", "maxArray"}

\* member / contains / count / find / remove / removeAt
Arr2 == {ArrE(<<>>), ArrE(<<N(1), ErrE>>), ArrE(<<ErrE, N(1)>>), ArrE(<<N(2), N(1), ErrE>>), ArrE(<<N(1), N(2), N(1)>>),
         ArrE(<<N(2), N(3)>>), ArrE(<<SA, N(1)>>), ArrE(<<ArrE(<<N(1)>>), ArrE(<<ErrE>>)>>),
         ArrE(<<ArrE(<<N(2)>>), ArrE(<<N(1), ErrE>>)>>), ArrE(<<Fx(V("x")), N(1)>>),
         S(<<97, 98, 99>>), S(<<>>), N(1), ErrE}
Elem2 == {N(1), N(2), ErrF, SA, S(<<>>), S(<<98, 99>>), ArrE(<<N(1)>>), Nul, N(0)}
Scan2(a, x) == {Std("member", <<a, x>>), Std("contains", <<a, x>>), Std("count", <<a, x>>)}
               \cup ObsArr(Std("find", <<x, a>>)) \cup ObsArr(Std("remove", <<a, x>>))
At2 == {N(0), N(1), N(5), Neg(1), SA, Nul, ErrF}

\* functions for mapWithIndex / flatMap / filterMap / foldr
FnIx == {Fix(ArrE(<<V("i"), V("x")>>)), Fix(V("i")), Fix(V("x")), Fx(V("x")),
         Fn(<<Pm("i"), Pm("x"), Pm("y")>>, N(1)), Fn(<<Pm("i"), Pm("x"), Pd("y", N(5))>>, Bin("+", V("y"), V("i"))),
         Fix(ErrF), N(1), ErrF}
ArrH == {ArrE(<<N(1), ErrE>>), ArrE(<<ErrE, N(2)>>), ArrE(<<N(1), N(2), N(3)>>), ArrE(<<>>), SAB, S(<<>>), N(1), Nul, ErrE}
FnFlat == {Fx(ArrE(<<V("x"), V("x")>>)), Fx(ArrE(<<V("x")>>)), Fx(V("x")),
           Fx(If(Bin("==", V("x"), N(1)), ErrF, ArrE(<<V("x")>>))), Fx(ArrE(<<ErrF>>)), Fx(Nul),
           Fx(Bin("+", V("x"), V("x"))), Fx(If(Bin("==", V("x"), SA), Nul, V("x"))),
           Fn(<<Pm("x"), Pm("y")>>, ArrE(<<V("x")>>)), N(1), ErrF}
ArrFlat == ArrH \cup {ArrE(<<ArrE(<<N(1)>>), ArrE(<<ErrE, N(2)>>)>>)}
FnFilt == {Fx(Bin(">", V("x"), N(1))), Fx(T), Fx(F), Fx(V("x")), Fx(ErrF), N(1), Fn(<<Pm("x"), Pm("y")>>, T),
           Fx(If(Bin("==", V("x"), N(2)), N(0), T))}
FnMap == {Fx(Bin("*", V("x"), N(2))), Fx(ErrF), Fn(<<Pm("x"), Pm("y")>>, V("x")), N(1)}
ArrFilt == {ArrE(<<N(1), N(2), N(3)>>), ArrE(<<N(1), ErrE>>), ArrE(<<N(2), ErrE>>), ArrE(<<>>), SAB, N(1)}
FnFold == {Fxa(Bin("+", V("x"), V("a"))), Fxa(V("x")), Fxa(V("a")), Fxa(ArrE(<<V("x"), V("a")>>)), Fxa(ErrF),
           Fxa(If(Bin("==", V("x"), N(1)), N(9), V("a"))), Fx(V("x")), N(1), ErrF}
ArrFold == {ArrE(<<N(1), N(2), N(3)>>), ArrE(<<>>), ArrE(<<N(1), ErrE>>), ArrE(<<ErrE, N(1)>>), ArrE(<<N(2), ErrE, N(1)>>), SAB, N(1), ErrE}

\* constructors
What == {ArrE(<<ErrE>>), ArrE(<<N(1), ErrE>>), SAB, S(<<>>), ArrE(<<>>), N(1), Nul, ErrE}
Cnt == {N(0), N(1), N(2), Neg(1), SA, ErrF}
Lim == {N(0), N(1), N(3), Neg(1), SA, ErrE}
Sep == {ArrE(<<>>), ArrE(<<N(0)>>), ArrE(<<ErrF>>), S(<<>>), S(<<44>>), N(1), Nul, ErrF}
JArr == {ArrE(<<ArrE(<<N(1)>>), ArrE(<<N(2)>>)>>), ArrE(<<ArrE(<<ErrE>>), ArrE(<<N(1)>>)>>),
         ArrE(<<ArrE(<<N(1)>>), Nul, ArrE(<<N(2)>>)>>), ArrE(<<ArrE(<<N(1)>>), SA>>), ArrE(<<SA, SB>>),
         ArrE(<<SA, Nul, SB>>), ArrE(<<SA, N(1)>>), ArrE(<<SA, ErrE>>), ArrE(<<ErrE, N(1)>>), ArrE(<<N(1), ErrE>>),
         ArrE(<<>>), ArrE(<<Nul>>), SAB, N(1)}
SlArr == {S(<<97, 98, 99>>), ArrE(<<N(1), N(2), ErrE>>), ArrE(<<ErrE, N(2), N(3)>>), ArrE(<<>>), N(1), ErrE}

\* objects
Objs == {OAB("d", ErrE, "d", N(1)), OAB("d", N(1), "h", ErrE), OAB("h", N(2), "d", N(1)), OAB("d", Dot(Self, "b"), "d", N(3)),
         ObjE(<<>>), ObjE(<<Fd("a", "d", N(1)), OAs(F, None)>>), ObjE(<<Fd("a", "d", N(1)), OAs(T, None)>>),
         Bin("+", OAB("d", N(1), "d", ErrE), ObjE(<<Fd("b", "d", Bin("+", <<"superf", "a">>, N(1)))>>)),
         Bin("+", OAB("h", N(1), "d", N(2)), ObjE(<<FdP("a", "d", N(5))>>)),
         N(1), Nul, ArrE(<<N(1)>>), ErrE}
KEY == S(<<107, 101, 121>>)
VALUE == S(<<118, 97, 108, 117, 101>>)

\* scalars
Vals == {N(0), N(1), N(2), N(7), Neg(1), Neg(2), SA, Nul, T, ErrE, ArrE(<<ErrE>>), OAB("d", ErrE, "d", N(1)), Fx(V("x"))}
Nums == {N(0), N(1), N(5), Neg(2), SA, ErrE}
Bools == {T, F, N(1), SA, ArrE(<<N(1)>>), ArrE(<<ErrE>>), Nul, ErrE}
CmpArrs == {ArrE(<<>>), ArrE(<<N(1)>>), ArrE(<<N(1), N(2)>>), ArrE(<<N(2)>>), ArrE(<<N(1), ErrE>>), ArrE(<<ErrE>>),
            ArrE(<<SA>>), ArrE(<<N(1), SA>>), SAB, N(1), ErrF}

\* operands of the three-way comparison / primitive equality / assertEqual: every type, arrays that differ before
\* or at a failing element, equal arrays, objects with a failing field that equality never / always reaches
CmpVals == CmpArrs \cup {N(2), Neg(1), S(<<97, 98>>), S(<<>>), T, F, Nul, Fx(V("x")), ObjE(<<>>),
                         OAB("d", N(1), "h", ErrE), OAB("d", N(1), "d", ErrE), OAB("d", N(1), "d", N(2)),
                         ArrE(<<ArrE(<<N(1)>>), N(3)>>), ArrE(<<ArrE(<<N(1)>>), ErrE>>), ArrE(<<ArrE(<<N(2)>>), ErrE>>)}

\* one library call nested in another: producers of (lazy) arrays x consumers
Base == {ArrE(<<N(1), ErrE>>), ArrE(<<ErrE, N(1)>>), ArrE(<<N(2), N(1)>>)}
Prod(a) == {Std("reverse", <<a>>), Std("repeat", <<a, N(2)>>), Std("flattenArrays", <<ArrE(<<a, a>>)>>),
            Std("join", <<ArrE(<<N(0)>>), ArrE(<<a, ArrE(<<ErrF>>)>>)>>), Std("mapWithIndex", <<Fix(V("x")), a>>),
            Std("mapWithIndex", <<Fix(V("i")), a>>), Std("filterMap", <<Fx(T), Fx(V("x")), a>>),
            Std("flatMap", <<Fx(ArrE(<<V("x")>>)), a>>), Std("remove", <<a, N(1)>>), Std("removeAt", <<a, N(0)>>),
            Std("slice", <<a, N(1), Nul, Nul>>), Std("flattenDeepArray", <<a>>), Std("find", <<N(1), a>>),
            Std("map", <<Fx(ErrF), a>>), Std("makeArray", <<N(2), Fn(<<Pm("i")>>, Idx(a, V("i")))>>),
            Std("objectValues", <<OAB("d", Idx(a, N(0)), "d", Idx(a, N(1)))>>), Std("range", <<N(0), Std("length", <<a>>)>>),
            Std("filter", <<Fx(T), a>>)}
Cons(p) == {Std("length", <<p>>), Idx(p, N(0)), Idx(p, N(1)), Idx(Std("reverse", <<p>>), N(0)),
            Std("member", <<p, N(1)>>), Std("contains", <<p, N(1)>>), Std("count", <<p, N(1)>>), Std("sum", <<p>>),
            Std("any", <<Std("map", <<Fx(Bin("==", V("x"), N(1))), p>>)>>),
            Std("all", <<Std("map", <<Fx(Bin("==", V("x"), N(1))), p>>)>>),
            Std("foldr", <<Fxa(V("x")), p, N(0)>>), Std("foldr", <<Fxa(V("a")), p, N(0)>>),
            Std("foldl", <<Fn(<<Pm("a"), Pm("x")>>, V("x")), p, N(0)>>),
            Std("length", <<Std("flattenArrays", <<ArrE(<<p, p>>)>>)>>), Idx(Std("repeat", <<p, N(2)>>), N(2)),
            Idx(Std("join", <<ArrE(<<>>), ArrE(<<p>>)>>), N(0)), Idx(Std("removeAt", <<p, N(0)>>), N(0)),
            Std("length", <<Std("remove", <<p, N(1)>>)>>), Idx(Std("flatMap", <<Fx(ArrE(<<V("x")>>)), p>>), N(1)),
            Std("isArray", <<p>>), Std("type", <<p>>), Std("length", <<Std("flattenDeepArray", <<p>>)>>),
            Std("minArray", <<p>>), Std("__array_less", <<p, ArrE(<<N(1), N(0)>>)>>),
            Let(<<<<"r", p>>>>, ArrE(<<Std("length", <<V("r")>>), Idx(V("r"), N(1))>>))}   \* (t, u are Rewrite's fresh names)

\* small curated part (taken whole by the quick tier): the laziness witnesses of the library members
\* plus, for every member, one program that yields a value and one that fails
A1E == ArrE(<<N(1), ErrE>>)
AE1 == ArrE(<<ErrE, N(1)>>)
A312 == ArrE(<<N(3), N(1), N(2)>>)
OEB == OAB("d", ErrE, "d", N(1))
Must ==
  {Std("length", <<Std("reverse", <<AE1>>)>>), Idx(Std("reverse", <<A1E>>), N(1)), Idx(Std("reverse", <<A1E>>), N(0)),
   Std("any", <<ArrE(<<T, ErrE>>)>>), Std("all", <<ArrE(<<F, ErrE>>)>>), Std("any", <<ArrE(<<F, ErrE>>)>>), Std("all", <<ArrE(<<T, ErrE>>)>>),
   Std("member", <<A1E, N(1)>>), Std("member", <<AE1, N(1)>>), Std("member", <<S(<<97, 98, 99>>), S(<<98, 99>>)>>), Std("member", <<SAB, S(<<>>)>>),
   Std("contains", <<A1E, N(1)>>), Std("contains", <<AE1, N(1)>>), Std("count", <<ArrE(<<N(1), N(2), N(1)>>), N(1)>>), Std("count", <<A1E, N(1)>>),
   Std("find", <<N(1), ArrE(<<N(1), N(2), N(1)>>)>>), Std("find", <<N(1), A1E>>), Std("find", <<ErrF, ArrE(<<>>)>>),
   Std("length", <<Std("remove", <<A1E, N(1)>>)>>), Std("remove", <<ArrE(<<N(2), N(1), ErrE>>), N(3)>>), Std("remove", <<A312, N(1)>>),
   Idx(Std("removeAt", <<A1E, N(1)>>), N(0)), Std("removeAt", <<A312, N(5)>>), Std("removeAt", <<ArrE(<<>>), ErrF>>), Std("removeAt", <<A312, SA>>),
   Std("foldr", <<Fxa(V("x")), A1E, ErrF>>), Std("foldr", <<Fxa(V("x")), ArrE(<<N(1), N(2)>>), ErrF>>),
   Std("foldr", <<Fxa(V("a")), A1E, N(0)>>), Std("foldr", <<ErrF, ArrE(<<>>), N(0)>>), Std("foldr", <<Fxa(ArrE(<<V("x"), V("a")>>)), A312, N(0)>>),
   Idx(Std("flattenArrays", <<ArrE(<<ArrE(<<ErrE>>), ArrE(<<N(1)>>)>>)>>), N(1)), Std("flattenArrays", <<ArrE(<<ArrE(<<N(1)>>), N(2)>>)>>),
   Std("length", <<Std("flattenDeepArray", <<ArrE(<<ArrE(<<N(1), ArrE(<<N(2)>>)>>), N(3)>>)>>)>>), Std("length", <<Std("flattenDeepArray", <<AE1>>)>>),
   Idx(Std("objectValues", <<OEB>>), N(1)), Idx(Std("objectValues", <<OEB>>), N(0)), Std("objectValuesAll", <<OAB("d", N(1), "h", N(2))>>),
   Std("objectValuesAll", <<N(1)>>), Idx(Idx(Std("objectKeysValues", <<OEB>>), N(1)), VALUE), Idx(Idx(Std("objectKeysValues", <<OEB>>), N(0)), VALUE),
   Idx(Idx(Std("objectKeysValues", <<OEB>>), N(0)), KEY), Std("objectKeysValuesAll", <<OAB("h", N(1), "d", N(2))>>), Std("objectKeysValuesAll", <<Nul>>),
   Std("objectHasEx", <<OAB("d", N(1), "h", ErrE), SB, T>>), Std("objectHasEx", <<OAB("d", N(1), "h", ErrE), SB, F>>), Std("objectHasEx", <<OEB, SA, N(1)>>),
   Std("objectFieldsEx", <<OAB("d", N(1), "h", ErrE), T>>), Std("objectFieldsEx", <<OAB("d", N(1), "h", ErrE), F>>), Std("objectFieldsEx", <<OEB, Nul>>),
   Std("length", <<Std("repeat", <<ArrE(<<ErrE>>), N(2)>>)>>), Std("repeat", <<SAB, N(2)>>), Std("repeat", <<SAB, Neg(1)>>), Std("repeat", <<N(1), N(2)>>),
   Std("range", <<N(1), N(3)>>), Std("range", <<N(3), N(1)>>), Std("range", <<N(1), SA>>),
   Std("avg", <<A312>>), Std("avg", <<ArrE(<<>>)>>), Std("avg", <<A1E>>), Std("sum", <<A312>>), Std("sum", <<A1E>>), Std("sum", <<ArrE(<<N(1), SA>>)>>),
   Std("deepJoin", <<ArrE(<<SA, ArrE(<<SB, ArrE(<<SA>>)>>)>>)>>), Std("deepJoin", <<ArrE(<<SA, N(1)>>)>>), Std("deepJoin", <<ArrE(<<SA, ErrE>>)>>),
   Std("lines", <<ArrE(<<SA, SB>>)>>), Std("lines", <<ArrE(<<N(1)>>)>>), Std("lines", <<ArrE(<<>>)>>),
   Std("minArray", <<A312>>), Std("minArray", <<ArrE(<<>>)>>), Std("minArray", <<ArrE(<<Nul>>)>>), Std("maxArray", <<ArrE(<<SA, SB>>)>>),
   Std("maxArray", <<ArrE(<<N(1), SA>>)>>), Std("maxArray", <<A312>>),
   Std("abs", <<Neg(2)>>), Std("abs", <<SA>>), Std("sign", <<Neg(2)>>), Std("sign", <<Nul>>), Std("max", <<N(1), N(2)>>), Std("max", <<N(1), SA>>),
   Std("min", <<N(1), N(2)>>), Std("min", <<ErrE, N(1)>>), Std("clamp", <<N(5), N(0), N(2)>>), Std("clamp", <<N(1), N(2), ErrE>>), Std("clamp", <<SA, N(1), N(2)>>),
   Std("isEven", <<N(2)>>), Std("isEven", <<SA>>), Std("isOdd", <<N(7)>>), Std("isOdd", <<Nul>>), Std("isInteger", <<N(1)>>), Std("isInteger", <<ErrE>>),
   Std("isDecimal", <<N(1)>>), Std("isDecimal", <<ArrE(<<>>)>>), Std("xor", <<T, F>>), Std("xor", <<ErrE, T>>), Std("xnor", <<T, F>>), Std("xnor", <<T, ErrE>>),
   Std("__array_less", <<ArrE(<<N(1)>>), ArrE(<<N(1), ErrE>>)>>), Std("__array_less", <<ArrE(<<N(1), ErrE>>), ArrE(<<N(2), ErrF>>)>>), Std("__array_less", <<N(1), ArrE(<<>>)>>),
   Std("__array_less_or_equal", <<ArrE(<<N(1)>>), ArrE(<<N(1)>>)>>), Std("__array_less_or_equal", <<AE1, AE1>>),
   Std("__array_greater", <<ArrE(<<N(2)>>), A1E>>), Std("__array_greater", <<ArrE(<<SA>>), ArrE(<<N(1)>>)>>),
   Std("__array_greater_or_equal", <<ArrE(<<>>), ArrE(<<>>)>>), Std("__array_greater_or_equal", <<SAB, SAB>>),
   Idx(Std("mapWithIndex", <<Fix(ArrE(<<V("i"), V("x")>>)), AE1>>), N(1)), Std("length", <<Std("mapWithIndex", <<Fx(V("x")), A1E>>)>>),
   Idx(Std("mapWithIndex", <<Fx(V("x")), A1E>>), N(0)), Std("mapWithIndex", <<Fix(V("i")), SAB>>),
   Idx(Std("flatMap", <<Fx(ArrE(<<V("x"), V("x")>>)), A1E>>), N(1)), Std("length", <<Std("flatMap", <<Fx(ArrE(<<V("x"), V("x")>>)), A1E>>)>>),
   Std("flatMap", <<Fx(If(Bin("==", V("x"), SA), Nul, Bin("+", V("x"), V("x")))), SAB>>), Std("flatMap", <<Fx(V("x")), A312>>),
   Std("length", <<Std("filterMap", <<Fx(Bin(">", V("x"), N(1))), Fx(ErrF), A312>>)>>), Std("filterMap", <<Fx(Bin(">", V("x"), N(1))), Fx(Bin("*", V("x"), N(2))), A312>>),
   Std("length", <<Std("filterMap", <<Fx(T), Fx(V("x")), A1E>>)>>), Std("filterMap", <<Fx(V("x")), Fx(V("x")), A312>>),
   Idx(Std("join", <<ArrE(<<ErrF>>), ArrE(<<ArrE(<<N(1)>>), ArrE(<<N(2)>>)>>)>>), N(2)), Std("join", <<S(<<44>>), ArrE(<<SA, Nul, SB>>)>>),
   Std("join", <<S(<<44>>), ArrE(<<SA, N(1), ErrE>>)>>), Std("length", <<Std("join", <<ArrE(<<>>), ArrE(<<A1E, Nul, AE1>>)>>)>>),
   Std("length", <<Std("slice", <<ArrE(<<ErrE, N(2), N(3)>>), N(1), Nul, Nul>>)>>), Std("slice", <<S(<<97, 98, 99>>), N(0), N(9), N(2)>>),
   Std("slice", <<A312, Nul, Nul, N(0)>>), Std("slice", <<A312, SA, Nul, Nul>>)}
  \cup {Std(f, <<v>>) : f \in {"isString", "isNumber", "isBoolean", "isObject", "isArray", "isFunction", "isNull"}, v \in {ErrE, OEB}}

PLib(pi) ==
  CASE pi = 1 -> UNION {ObsArr(Std(f, <<a>>)) : f \in Unary1, a \in Arr1}
    [] pi = 2 -> UNION {ObsLen(Std(f, <<a>>)) : f \in Unary2, a \in Arr1}
    [] pi = 3 -> UNION {Scan2(a, x) : a \in Arr2, x \in Elem2}
    [] pi = 4 -> UNION {ObsArr(Std("removeAt", <<a, x>>)) : a \in Arr2, x \in At2}
    [] pi = 5 -> UNION {ObsArr(Std("mapWithIndex", <<g, a>>)) : g \in FnIx, a \in ArrH}
    [] pi = 6 -> UNION {ObsArr(Std("flatMap", <<g, a>>)) : g \in FnFlat, a \in ArrFlat}
    [] pi = 7 -> UNION {ObsArr(Std("filterMap", <<g, h, a>>)) : g \in FnFilt, h \in FnMap, a \in ArrFilt}
    [] pi = 8 -> {Std("foldr", <<g, a, i>>) : g \in FnFold, a \in ArrFold, i \in {N(0), ErrF}}
    [] pi = 9 -> UNION {ObsArr(Std("repeat", <<w, n>>)) : w \in What, n \in Cnt}
                 \cup UNION {ObsLen(Std("range", <<a, b>>)) : a \in Lim, b \in Lim}
    [] pi = 10 -> UNION {ObsArr(Std("join", <<s, a>>)) : s \in Sep, a \in JArr}
    [] pi = 11 -> UNION {ObsLen(Std("slice", <<a, i, j, k>>)) : a \in SlArr, i \in {Nul, N(0), N(1), SA}, j \in {Nul, N(0), N(2), N(9)},
                                                               k \in {Nul, N(1), N(2), N(0), ErrF}}
    [] pi = 12 -> UNION {LET e == Std(f, <<o>>) IN ObsArr(e) \cup {Idx(Idx(e, N(1)), VALUE), Idx(Idx(e, N(0)), KEY), Idx(Idx(e, N(0)), VALUE)} :
                         f \in {"objectValues", "objectValuesAll", "objectKeysValues", "objectKeysValuesAll"}, o \in Objs}
                  \cup {Std("objectHasEx", <<o, k, h>>) : o \in {OAB("d", N(1), "h", ErrE), N(1), ErrE}, k \in {SA, SB, S(<<99>>), N(1), ErrF},
                                                         h \in {T, F, N(1), Nul, ErrE}}
                  \cup {Std("objectFieldsEx", <<o, h>>) : o \in {OAB("d", N(1), "h", ErrE), ObjE(<<>>), N(1), ErrE}, h \in {T, F, N(1), Nul, ErrF}}
    [] pi = 13 -> {Std(f, <<v>>) : f \in {"isString", "isNumber", "isBoolean", "isObject", "isArray", "isFunction", "isNull",
                                         "isEven", "isOdd", "isInteger", "isDecimal", "abs", "sign"}, v \in Vals}
                  \cup {Std(f, <<a, b>>) : f \in {"xor", "xnor"}, a \in Bools, b \in Bools}
                  \cup {Std(f, <<a, b>>) : f \in {"max", "min"}, a \in Nums, b \in Nums}
    [] pi = 14 -> {Std("clamp", <<x, lo, hi>>) : x \in Nums, lo \in Nums, hi \in Nums}
    [] pi = 15 -> {Std(f, <<a, b>>) : f \in {"__array_less", "__array_less_or_equal", "__array_greater", "__array_greater_or_equal"},
                                      a \in CmpArrs, b \in CmpArrs}
    [] pi = 16 -> UNION {UNION {Cons(p) : p \in Prod(a)} : a \in Base}
    [] pi = 17 -> Must
    [] pi = 18 -> {Std(f, <<a, b>>) : f \in {"__compare", "__compare_array", "primitiveEquals", "assertEqual"},
                                      a \in CmpVals, b \in CmpVals}

-----------------------------------------------------------------------------
NParts ==
  CASE Slice = "arith" -> 4
    [] Slice = "str" -> 6
    [] Slice = "lazy" -> 5
    [] Slice = "func" -> 8
    [] Slice = "obj" -> 5
    [] Slice = "comp" -> 12
    [] Slice = "lib" -> 18

Part(pi) ==
  CASE Slice = "arith" -> PArith(pi)
    [] Slice = "str" -> PStr(pi)
    [] Slice = "lazy" -> PLazy(pi)
    [] Slice = "func" -> PFunc(pi)
    [] Slice = "obj" -> PObj(pi)
    [] Slice = "comp" -> PComp(pi)
    [] Slice = "lib" -> PLib(pi)

Init == \E pi \in 1..NParts :
          LET U == Part(pi) IN
          c \in (IF Sample = 0 \/ Cardinality(U) <= Sample THEN U ELSE RandomSubset(Sample, U))
Next == UNCHANGED c

Emit == PrintT(<<"CASE", ToJson([src |-> P(c), res |-> Run(c, Fuel)])>>)
=============================================================================
