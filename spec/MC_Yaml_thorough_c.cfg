CONSTANT Modes = {"soup"}
CONSTANT Big = TRUE
CONSTANT NMax = 0
CONSTANT SMin = 4
CONSTANT SMax = 4
CONSTANT SInd = {0, 2}
INIT Init
NEXT Next
INVARIANTS Laws
CHECK_DEADLOCK FALSE
