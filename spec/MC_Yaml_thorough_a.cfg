CONSTANT Modes = {"scalar", "doc", "stream", "numsoup", "mut"}
CONSTANT Big = TRUE
CONSTANT NMax = 4
CONSTANT SMin = 0
CONSTANT SMax = 0
CONSTANT SInd = {0}
INIT Init
NEXT Next
INVARIANTS Laws
CHECK_DEADLOCK FALSE
