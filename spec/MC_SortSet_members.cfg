CONSTANTS Mode = "members" MaxLen = 0 NKeys = 8 PermBound = 0
CONSTANT Lens = {}
INIT Init
NEXT Next
INVARIANTS Laws Emit
CHECK_DEADLOCK FALSE
