CONSTANTS Mode = "arrays" MaxLen = 6 NKeys = 3 PermBound = 5
CONSTANT Lens = {}
INIT Init
NEXT Next
INVARIANTS Laws Emit
CHECK_DEADLOCK FALSE
