-------------------------------- MODULE Fmt --------------------------------
(***************************************************************************)
(* Reference level for property C19: std.format / the % operator.          *)
(*                                                                         *)
(* Sources of this definition (NOT the Rust code):                         *)
(*  - the format mini-language and the argument consumption rules of       *)
(*    upstream std.jsonnet `std.format` (mapping key, flags # 0 - space +, *)
(*    width digits or *, .precision digits or *, ignored length modifier   *)
(*    h l L, conversion d i u o x X e E f F g G c s %);                    *)
(*  - C printf / Python's % operator for what each conversion prints;      *)
(*    e E f F print the exact value rounded half-even at the requested     *)
(*    digit (what C and Python print), computed here digit by digit on     *)
(*    sequences because TLC integers have 32 bits;                         *)
(*  - where upstream Jsonnet deliberately differs from C/Python the        *)
(*    upstream rule is used (%s ignores the precision and prints           *)
(*    std.toString(v); %c of a number is that code point; %i %u = %d;      *)
(*    %d truncates a fraction toward zero; # with o gives a leading 0,     *)
(*    # with x gives 0x also for zero; the 0 flag is not cancelled by a    *)
(*    precision; % with a width is padded).                                *)
(*  - where upstream's own arithmetic is accidental and contradicts        *)
(*    C/Python (sign of negative zero and of negative values that round    *)
(*    to zero, floor-vs-truncate of negative fractions under o/x, negative *)
(*    or fractional * arguments, %g with precision 0 ...) the result is    *)
(*    `Outside`: the specification does not decide it.                     *)
(*                                                                         *)
(* Strings are sequences of code points.  A rendered string is a ROPE: a   *)
(* sequence of segments [c |-> code points, n |-> repetitions], so that a  *)
(* width or precision of 70000 costs one segment.                          *)
(*                                                                         *)
(* Values use the encoding of Values.tla (records with disjoint fields):   *)
(*   [t |-> "null"] [t |-> "bool", b] [t |-> "num", s, m, e] = s*m*2^e     *)
(*   [t |-> "str", c] [t |-> "arr", a] [t |-> "obj", f |-> Seq([k,h,v])]   *)
(*   [t |-> "func"]                                                        *)
(***************************************************************************)
EXTENDS Integers, Sequences, FiniteSets, TLC

Null == [t |-> "null"]
Bool(b) == [t |-> "bool", b |-> b]
Num(s, m, e) == [t |-> "num", s |-> s, m |-> m, e |-> e]
IntV(n) == IF n < 0 THEN Num(-1, -n, 0) ELSE Num(1, n, 0)
Str(c) == [t |-> "str", c |-> c]
Arr(a) == [t |-> "arr", a |-> a]
Obj(f) == [t |-> "obj", f |-> f]
Fld(k, h, v) == [k |-> k, h |-> h, v |-> v]
Func == [t |-> "func"]

Max(a, b) == IF a >= b THEN a ELSE b
Min(a, b) == IF a <= b THEN a ELSE b
SetMin(S) == CHOOSE x \in S : \A y \in S : x <= y
SetMax(S) == CHOOSE x \in S : \A y \in S : x >= y
RECURSIVE Pow2(_)
Pow2(n) == IF n = 0 THEN 1 ELSE 2 * Pow2(n - 1)
\* TLC evaluates [i \in 1..n |-> e] lazily and without memoisation: force it into a tuple
Tup(f) == f \o <<>>

(***************************************************************************)
(* Results.                                                                *)
(*   [k |-> "ok", r |-> rope]      the string                              *)
(*   [k |-> "shape", r |-> rope]   only value-and-shape invariants are     *)
(*                                 decided (g G, magnitudes >= 2^53); r is *)
(*                                 the C reference rendering               *)
(*   [k |-> "err", why |-> ...]    an error must be reported               *)
(*   [k |-> "outside", why |-> ..] not decided                             *)
(***************************************************************************)
Err(why) == [k |-> "err", why |-> why]
Outside(why) == [k |-> "outside", why |-> why]

(***************************************************************************)
(* Ropes                                                                   *)
(***************************************************************************)
Seg(c, n) == [c |-> c, n |-> n]
Lit(s) == IF Len(s) = 0 THEN <<>> ELSE <<Seg(s, 1)>>
Run(ch, n) == IF n <= 0 THEN <<>> ELSE <<Seg(<<ch>>, n)>>
RECURSIVE RopeLen(_)
RopeLen(r) == IF Len(r) = 0 THEN 0 ELSE Len(r[1].c) * r[1].n + RopeLen(Tail(r))
RECURSIVE RepSeq(_, _)
RepSeq(s, n) == IF n = 0 THEN <<>> ELSE s \o RepSeq(s, n - 1)
RECURSIVE Flat(_)          \* only for short ropes (laws)
Flat(r) == IF Len(r) = 0 THEN <<>> ELSE RepSeq(r[1].c, r[1].n) \o Flat(Tail(r))

(***************************************************************************)
(* Exact decimal and binary expansions of m * 2^e on digit sequences       *)
(* (most significant digit first).                                         *)
(***************************************************************************)
RECURSIVE NatDigits(_)
NatDigits(n) == IF n < 10 THEN <<n>> ELSE Append(NatDigits(n \div 10), n % 10)
RECURSIVE NatBits(_)
NatBits(n) == IF n < 2 THEN <<n>> ELSE Append(NatBits(n \div 2), n % 2)

\* 2*d: the carry out of a digit depends on that digit alone (2*9+1 = 19)
Dbl(d) == LET n == Len(d)
              body == Tup([i \in 1..n |-> (2 * d[i] + (IF i < n /\ d[i+1] >= 5 THEN 1 ELSE 0)) % 10])
          IN IF d[1] >= 5 THEN <<1>> \o body ELSE body
\* d/2 with one more fractional digit: the remainder of a digit is its parity
Hlv(d) == LET n == Len(d) IN
          Tup([i \in 1..n+1 |-> IF i <= n THEN (d[i] + (IF i > 1 /\ d[i-1] % 2 = 1 THEN 10 ELSE 0)) \div 2
                                ELSE IF d[n] % 2 = 1 THEN 5 ELSE 0])
RECURSIVE DblN(_, _)
DblN(d, k) == IF k = 0 THEN d ELSE DblN(Dbl(d), k - 1)
RECURSIVE HlvN(_, _)
HlvN(d, k) == IF k = 0 THEN d ELSE HlvN(Hlv(d), k - 1)

\* index of the first / last element different from x (0 if there is none); linear scans
RECURSIVE FirstNe(_, _, _)
FirstNe(d, x, i) == IF i > Len(d) THEN 0 ELSE IF d[i] # x THEN i ELSE FirstNe(d, x, i + 1)
RECURSIVE LastNe(_, _, _)
LastNe(d, x, i) == IF i < 1 THEN 0 ELSE IF d[i] # x THEN i ELSE LastNe(d, x, i - 1)
StripLead(d) == LET j == FirstNe(d, 0, 1) IN IF j = 0 THEN <<0>> ELSE SubSeq(d, j, Len(d))
StripTrail(d) == SubSeq(d, 1, LastNe(d, 0, Len(d)))
AllZero(d) == FirstNe(d, 0, 1) = 0

\* The same two operations on limbs of seven decimal digits (base 10^7), so that 2^1023 and
\* 2^-1074 stay cheap.  Doubling: a limb carries iff it is >= 5000000, whatever comes in.
\* Division by 128: 10^7 is a multiple of 128, so the remainder of a limb is its own residue
\* (and (127 * 10^7 + 9999999) still fits 31 bits); one more limb (seven fractional digits) is
\* produced.
LimbBase == 10000000
RECURSIVE NatLimbs(_)
NatLimbs(n) == IF n < LimbBase THEN <<n>> ELSE Append(NatLimbs(n \div LimbBase), n % LimbBase)
DblL(d) == LET n == Len(d)
               body == Tup([i \in 1..n |-> (2 * d[i] + (IF i < n /\ d[i+1] >= 5000000 THEN 1 ELSE 0)) % LimbBase])
           IN IF d[1] >= 5000000 THEN <<1>> \o body ELSE body
Div128L(d) == LET n == Len(d) IN
              Tup([i \in 1..n+1 |-> IF i <= n THEN (d[i] + (IF i > 1 THEN (d[i-1] % 128) * LimbBase ELSE 0)) \div 128
                                    ELSE ((d[n] % 128) * LimbBase) \div 128])
RECURSIVE DblLN(_, _)
DblLN(d, k) == IF k = 0 THEN d ELSE DblLN(DblL(d), k - 1)
RECURSIVE Div128LN(_, _)
Div128LN(d, k) == IF k = 0 THEN d ELSE Div128LN(Div128L(d), k - 1)
Limb7(x) == <<x \div 1000000, (x \div 100000) % 10, (x \div 10000) % 10, (x \div 1000) % 10,
              (x \div 100) % 10, (x \div 10) % 10, x % 10>>
RECURSIVE LimbDigits(_, _, _)          \* decimal digits of limbs lo..hi (seven per limb)
LimbDigits(d, lo, hi) ==
  IF lo > hi THEN <<>> ELSE IF lo = hi THEN Limb7(d[lo])
  ELSE LET mid == (lo + hi) \div 2 IN LimbDigits(d, lo, mid) \o LimbDigits(d, mid + 1, hi)

\* |v| = ip.fp exactly; ip without leading zeros (<<0>> for zero), fp without trailing zeros
\*   e >= 0: m doubled e times;   e < 0: m * 2^(7q+e) divided q times by 128, q = ceil(-e / 7)
Dec(m, e) ==
  IF e >= 0 THEN LET L == DblLN(NatLimbs(m), e) IN [ip |-> StripLead(LimbDigits(L, 1, Len(L))), fp |-> <<>>]
  ELSE LET q == (-e + 6) \div 7
           base == DblLN(NatLimbs(m), 7 * q + e)
           all == Div128LN(base, q)
       IN [ip |-> StripLead(LimbDigits(all, 1, Len(base))),
           fp |-> StripTrail(LimbDigits(all, Len(base) + 1, Len(all)))]
\* the same by single decimal digits (used by the law that cross-checks the two)
DecSlow(m, e) ==
  IF e >= 0 THEN [ip |-> StripLead(DblN(NatDigits(m), e)), fp |-> <<>>]
  ELSE LET base == NatDigits(m)
           all == HlvN(base, -e)
       IN [ip |-> StripLead(SubSeq(all, 1, Len(base))),
           fp |-> StripTrail(SubSeq(all, Len(base) + 1, Len(all)))]

\* binary digits of trunc(|v|)
IntBits(m, e) ==
  LET b == NatBits(m) IN
  IF m = 0 THEN <<0>>
  ELSE IF e >= 0 THEN b \o [i \in 1..e |-> 0]
  ELSE IF -e >= Len(b) THEN <<0>> ELSE SubSeq(b, 1, Len(b) + e)

RECURSIVE BitsVal(_, _, _)
BitsVal(pb, a, g) == IF g = 0 THEN 0 ELSE 2 * BitsVal(pb, a, g - 1) + pb[a + g - 1]
\* digits in radix 2^g of the number with binary digits `bits`
GroupDigits(bits, g) ==
  LET n == Len(bits)
      padn == (g - (n % g)) % g
      pb == [i \in 1..padn |-> 0] \o bits
      k == Len(pb) \div g
  IN StripLead(Tup([j \in 1..k |-> BitsVal(pb, (j - 1) * g + 1, g)]))

IsZero(v) == v.m = 0
IsNeg(v) == v.s < 0 /\ v.m # 0
IsIntV(v) == v.m = 0 \/ v.e >= 0 \/ (-v.e <= 30 /\ v.m % Pow2(-v.e) = 0)
\* integer part is 2^53 or more: digits are not compared (property statement)
TooBig(v) == Len(IntBits(v.m, v.e)) > 53
\* the exponent range in which expansions are computed at all
Tractable(v) == v.e <= 1100 /\ v.e >= -1100

DigitChars(d) == Tup([i \in 1..Len(d) |-> 48 + d[i]])
HexChars(d, caps) == Tup([i \in 1..Len(d) |-> IF d[i] < 10 THEN 48 + d[i]
                                               ELSE (IF caps THEN 55 ELSE 87) + d[i]])

(***************************************************************************)
(* Rounding a digit string to `keep` >= 1 leading digits, half-even on the *)
(* exact value (the digits beyond Len(D) are zeros).                       *)
(***************************************************************************)
IncDigits(d) ==
  LET n == Len(d)
      j == LastNe(d, 9, n)
  IN IF j = 0 THEN <<1>> \o [i \in 1..n |-> 0]
     ELSE Tup([i \in 1..n |-> IF i < j THEN d[i] ELSE IF i = j THEN d[i] + 1 ELSE 0])

RoundDigits(D, keep) ==
  IF keep >= Len(D) THEN [d |-> D, carry |-> FALSE, exact |-> TRUE]
  ELSE LET kept == SubSeq(D, 1, keep)
           nxt == D[keep + 1]
           restZero == FirstNe(D, 0, keep + 2) = 0
           up == \/ nxt > 5
                 \/ (nxt = 5 /\ ~restZero)
                 \/ (nxt = 5 /\ restZero /\ kept[keep] % 2 = 1)
           r == IF up THEN IncDigits(kept) ELSE kept
       IN [d |-> r, carry |-> Len(r) > keep, exact |-> FALSE]

\* %f: integer digits, fractional digits, number of further zeros
FixParts(v, prec) ==
  LET dec == Dec(v.m, v.e)
      D == dec.ip \o dec.fp
      r == RoundDigits(D, Len(dec.ip) + prec)
      nd == Len(r.d)
      have == IF r.exact THEN Len(dec.fp) ELSE prec
  IN [ip |-> SubSeq(r.d, 1, nd - have), fr |-> SubSeq(r.d, nd - have + 1, nd),
      zrun |-> prec - have, zero |-> AllZero(r.d)]

\* %e: leading digit, fractional digits, further zeros, decimal exponent
ExpParts(v, prec) ==
  IF v.m = 0 THEN [lead |-> 0, fr |-> <<>>, zrun |-> prec, x |-> 0, zero |-> TRUE]
  ELSE LET dec == Dec(v.m, v.e)
           D == StripLead(dec.ip \o dec.fp)
           X == IF dec.ip # <<0>> THEN Len(dec.ip) - 1
                ELSE -FirstNe(dec.fp, 0, 1)
           r == RoundDigits(D, prec + 1)
           rd == IF r.carry THEN SubSeq(r.d, 1, Len(r.d) - 1) ELSE r.d
       IN [lead |-> rd[1], fr |-> Tail(rd), zrun |-> prec + 1 - Len(rd),
           x |-> IF r.carry THEN X + 1 ELSE X, zero |-> FALSE]

ExpSuffix(x, caps) ==
  LET ax == IF x < 0 THEN -x ELSE x
      dg == NatDigits(ax)
  IN <<IF caps THEN 69 ELSE 101, IF x < 0 THEN 45 ELSE 43>>
     \o DigitChars(IF Len(dg) < 2 THEN <<0>> \o dg ELSE dg)

NumBody(ipd, fr, zrun, dot, suffix) ==
  Lit(DigitChars(ipd)) \o (IF dot THEN Lit(<<46>>) ELSE <<>>) \o Lit(DigitChars(fr))
  \o Run(48, zrun) \o Lit(suffix)

(***************************************************************************)
(* std.toString                                                            *)
(***************************************************************************)
S_null == <<110, 117, 108, 108>>
S_true == <<116, 114, 117, 101>>
S_false == <<102, 97, 108, 115, 101>>
OkS(s) == [k |-> "ok", s |-> s]

\* numbers whose printed form every implementation agrees on: at most 15
\* significant digits, written without exponent
NumStr(v) ==
  IF v.m = 0 THEN OkS(IF v.s < 0 THEN <<45, 48>> ELSE <<48>>)
  ELSE IF v.e > 60 \/ v.e < -60 THEN Outside("number text")
  ELSE LET dec == Dec(v.m, v.e)
           sig == Len(StripLead(dec.ip \o dec.fp))
       IN IF sig > 15 \/ Len(dec.ip) > 15
             \/ (dec.ip = <<0>> /\ FirstNe(dec.fp, 0, 1) > 4)
          THEN Outside("number text")
          ELSE OkS((IF v.s < 0 THEN <<45>> ELSE <<>>) \o DigitChars(dec.ip)
                   \o (IF Len(dec.fp) = 0 THEN <<>> ELSE <<46>> \o DigitChars(dec.fp)))

JsonQuote(s) ==
  IF \E i \in 1..Len(s) : s[i] < 32 \/ (s[i] >= 127 /\ s[i] <= 159)
  THEN Outside("control character in nested string")
  ELSE LET RECURSIVE esc(_)
           esc(t) == IF Len(t) = 0 THEN <<>>
                     ELSE (IF Head(t) = 34 \/ Head(t) = 92 THEN <<92, Head(t)>> ELSE <<Head(t)>>) \o esc(Tail(t))
       IN OkS(<<34>> \o esc(s) \o <<34>>)

RECURSIVE Json1(_)
RECURSIVE JoinItems(_, _)
\* items: sequence of [pre |-> code points, v |-> value]; joined with ", "
JoinItems(items, first) ==
  IF Len(items) = 0 THEN OkS(<<>>)
  ELSE LET h == Json1(items[1].v)
           t == JoinItems(Tail(items), FALSE)
       IN IF h.k # "ok" THEN h ELSE IF t.k # "ok" THEN t
          ELSE OkS((IF first THEN <<>> ELSE <<44, 32>>) \o items[1].pre \o h.s \o t.s)

Json1(v) ==
  CASE v.t = "null" -> OkS(S_null)
    [] v.t = "bool" -> OkS(IF v.b THEN S_true ELSE S_false)
    [] v.t = "num" -> NumStr(v)
    [] v.t = "str" -> JsonQuote(v.c)
    [] v.t = "func" -> Err("function cannot be converted to a string")
    [] v.t = "arr" ->
         IF Len(v.a) = 0 THEN OkS(<<91, 32, 93>>)
         ELSE LET j == JoinItems([i \in 1..Len(v.a) |-> [pre |-> <<>>, v |-> v.a[i]]], TRUE) IN
              IF j.k # "ok" THEN j ELSE OkS(<<91>> \o j.s \o <<93>>)
    [] v.t = "obj" ->
         LET vis == SelectSeq(v.f, LAMBDA fl : ~fl.h) IN
         IF Len(vis) = 0 THEN OkS(<<123, 32, 125>>)
         ELSE IF \E i \in 1..Len(vis) : JsonQuote(vis[i].k).k # "ok" THEN Outside("field name")
         ELSE LET j == JoinItems([i \in 1..Len(vis) |->
                                     [pre |-> JsonQuote(vis[i].k).s \o <<58, 32>>, v |-> vis[i].v]], TRUE) IN
              IF j.k # "ok" THEN j ELSE OkS(<<123>> \o j.s \o <<125>>)

ToStr(v) == IF v.t = "str" THEN OkS(v.c) ELSE Json1(v)

(***************************************************************************)
(* The format mini-language.                                               *)
(* A parsed directive:                                                     *)
(*  [kind |-> "code", hasKey, key, alt, zero, left, blank, plus,           *)
(*   w |-> -1 for * | n >= 0 (0 = none), p |-> -2 none | -1 for * | n,     *)
(*   conv |-> code point of the conversion]                                *)
(* Literal text: [kind |-> "lit", s |-> code points].                      *)
(***************************************************************************)
FlagSet == {35, 48, 45, 32, 43}
ConvSet == {100, 105, 117, 111, 120, 88, 101, 69, 102, 70, 103, 71, 99, 115, 37}
IsDigit(c) == c >= 48 /\ c <= 57
\* smallest j >= i with f[j] not in S / with f[j] = ch; Len(f)+1 if there is none
RECURSIVE SkipIn(_, _, _)
SkipIn(f, i, S) == IF i > Len(f) \/ f[i] \notin S THEN i ELSE SkipIn(f, i + 1, S)
RECURSIVE FindCh(_, _, _)
FindCh(f, i, ch) == IF i > Len(f) \/ f[i] = ch THEN i ELSE FindCh(f, i + 1, ch)
RECURSIVE DigitsVal(_, _, _)
DigitsVal(f, i, j) == IF j < i THEN 0 ELSE 10 * DigitsVal(f, i, j - 1) + (f[j] - 48)

Trunc == [ok |-> FALSE, why |-> "truncated"]
TooLong == "width or precision of more than six digits"      \* not decided by this specification

\* width-or-* at position i: [ok, i, v]; running off the end is an error
ParseWidth(f, i) ==
  IF i <= Len(f) /\ f[i] = 42 THEN [ok |-> TRUE, i |-> i + 1, v |-> -1]
  ELSE LET j == SkipIn(f, i, 48..57) IN
       IF j > Len(f) THEN Trunc
       ELSE IF j - i > 6 THEN [ok |-> FALSE, why |-> TooLong]
       ELSE [ok |-> TRUE, i |-> j, v |-> DigitsVal(f, i, j - 1)]

\* i = position just after the %
ParseCode(f, i) ==
  LET n == Len(f) IN
  IF i > n THEN Trunc ELSE
  LET hasKey == f[i] = 40
      close == IF hasKey THEN FindCh(f, i + 1, 41) ELSE 0
  IN
  IF hasKey /\ close > n THEN Trunc ELSE
  LET key == IF hasKey THEN SubSeq(f, i + 1, close - 1) ELSE <<>>
      i1 == IF hasKey THEN close + 1 ELSE i
      i2 == SkipIn(f, i1, FlagSet)
      flags == {f[j] : j \in i1..(i2 - 1)}
  IN
  IF i2 > n THEN Trunc ELSE
  LET w == ParseWidth(f, i2) IN
  IF ~w.ok THEN w ELSE
  IF w.i > n THEN Trunc ELSE
  LET hasP == f[w.i] = 46
      p == IF hasP THEN ParseWidth(f, w.i + 1) ELSE [ok |-> TRUE, i |-> w.i, v |-> -2]
  IN
  IF ~p.ok THEN p ELSE
  IF p.i > n THEN Trunc ELSE
  LET i5 == IF f[p.i] \in {104, 108, 76} THEN p.i + 1 ELSE p.i IN
  IF i5 > n THEN Trunc ELSE
  IF f[i5] \notin ConvSet THEN [ok |-> FALSE, why |-> "unrecognised conversion"]
  ELSE [ok |-> TRUE, i |-> i5 + 1,
        code |-> [kind |-> "code", hasKey |-> hasKey, key |-> key,
                  alt |-> 35 \in flags, zero |-> 48 \in flags, left |-> 45 \in flags,
                  blank |-> 32 \in flags, plus |-> 43 \in flags,
                  w |-> w.v, p |-> p.v, conv |-> f[i5]]]

RECURSIVE ParseFrom(_, _, _, _)
ParseFrom(f, i, cur, out) ==
  LET flush == IF Len(cur) = 0 THEN out ELSE Append(out, [kind |-> "lit", s |-> cur]) IN
  IF i > Len(f) THEN [ok |-> TRUE, parts |-> flush]
  ELSE IF f[i] = 37 THEN
       LET r == ParseCode(f, i + 1) IN
       IF ~r.ok THEN r ELSE ParseFrom(f, r.i, <<>>, Append(flush, r.code))
  ELSE ParseFrom(f, i + 1, Append(cur, f[i]), out)

ParseFormat(f) == ParseFrom(f, 1, <<>>, <<>>)

\* canonical text of a directive (flags in the order # 0 - space +; lm = 0 or h l L)
PrintCode(cd, lm) ==
  <<37>> \o (IF cd.hasKey THEN <<40>> \o cd.key \o <<41>> ELSE <<>>)
  \o (IF cd.alt THEN <<35>> ELSE <<>>) \o (IF cd.zero THEN <<48>> ELSE <<>>)
  \o (IF cd.left THEN <<45>> ELSE <<>>) \o (IF cd.blank THEN <<32>> ELSE <<>>)
  \o (IF cd.plus THEN <<43>> ELSE <<>>)
  \o (IF cd.w = -1 THEN <<42>> ELSE IF cd.w = 0 THEN <<>> ELSE DigitChars(NatDigits(cd.w)))
  \o (IF cd.p = -2 THEN <<>> ELSE IF cd.p = -1 THEN <<46, 42>> ELSE <<46>> \o DigitChars(NatDigits(cd.p)))
  \o (IF lm = 0 THEN <<>> ELSE <<lm>>) \o <<cd.conv>>

(***************************************************************************)
(* One conversion.  The core is (sign, prefix, body); the 0 flag inserts   *)
(* zeros between prefix and body up to the width, then spaces pad the      *)
(* field on the left, or on the right with the - flag.                     *)
(***************************************************************************)
OkCore(sign, pre, body, zf) == [k |-> "ok", sign |-> sign, pre |-> pre, body |-> body, zf |-> zf]
ShapeCore(sign, pre, body) == [k |-> "shape", sign |-> sign, pre |-> pre, body |-> body, zf |-> TRUE]

SignOf(neg, cd) == IF neg THEN <<45>> ELSE IF cd.plus THEN <<43>> ELSE IF cd.blank THEN <<32>> ELSE <<>>

\* d i u o x X.  g = 0: decimal, 3: octal, 4: hexadecimal
IntConv(v, cd, iprec, g, caps) ==
  IF ~Tractable(v) THEN Outside("magnitude")
  ELSE IF IsNeg(v) /\ ~IsIntV(v) /\ (g # 0 \/ IntBits(v.m, v.e) = <<0>>)
       THEN Outside("negative fraction under an integer conversion")
  ELSE LET bits == IntBits(v.m, v.e)
           isz == bits = <<0>>
           dg == IF g = 0 THEN DigitChars(Dec(v.m, v.e).ip) ELSE HexChars(GroupDigits(bits, g), caps)
           dg2 == IF g = 3 /\ cd.alt /\ ~isz THEN <<48>> \o dg ELSE dg
           pre == IF g = 4 /\ cd.alt THEN (IF caps THEN <<48, 88>> ELSE <<48, 120>>) ELSE <<>>
           body == Run(48, iprec - Len(dg2)) \o Lit(dg2)
           sign == SignOf(IsNeg(v) /\ ~isz, cd)
       IN IF Len(bits) > 53 THEN ShapeCore(sign, pre, body) ELSE OkCore(sign, pre, body, TRUE)

FixConv(v, cd, prec) ==
  IF ~Tractable(v) THEN Outside("magnitude")
  ELSE LET fp == FixParts(v, prec) IN
       IF v.s < 0 /\ fp.zero THEN Outside("sign of a negative value that prints as zero")
       ELSE LET body == NumBody(fp.ip, fp.fr, fp.zrun, prec > 0 \/ cd.alt, <<>>)
                sign == SignOf(v.s < 0, cd)
            IN IF TooBig(v) THEN ShapeCore(sign, <<>>, body) ELSE OkCore(sign, <<>>, body, TRUE)

ExpConv(v, cd, prec, caps) ==
  IF ~Tractable(v) THEN Outside("magnitude")
  ELSE IF v.s < 0 /\ v.m = 0 THEN Outside("sign of negative zero")
  ELSE LET ep == ExpParts(v, prec)
           body == NumBody(<<ep.lead>>, ep.fr, ep.zrun, prec > 0 \/ cd.alt, ExpSuffix(ep.x, caps))
           sign == SignOf(v.s < 0, cd)
       IN IF TooBig(v) THEN ShapeCore(sign, <<>>, body) ELSE OkCore(sign, <<>>, body, TRUE)

\* C's %g, used as the reference rendering of a "shape" result
GConv(v, cd, prec, caps) ==
  IF prec = 0 THEN Outside("%g with precision 0")
  ELSE IF ~Tractable(v) THEN Outside("magnitude")
  ELSE IF v.s < 0 /\ v.m = 0 THEN Outside("sign of negative zero")
  ELSE LET P == prec
           ep == ExpParts(v, P - 1)
           fixed == ep.x >= -4 /\ ep.x < P
           fp == FixParts(v, P - 1 - ep.x)            \* used only if fixed
           ipd == IF fixed THEN fp.ip ELSE <<ep.lead>>
           fr0 == IF fixed THEN fp.fr ELSE ep.fr
           zr0 == IF fixed THEN fp.zrun ELSE ep.zrun
           fr == IF cd.alt THEN fr0 ELSE StripTrail(fr0)
           zr == IF cd.alt THEN zr0 ELSE 0
           dot == cd.alt \/ Len(fr) > 0
           body == NumBody(ipd, fr, zr, dot, IF fixed THEN <<>> ELSE ExpSuffix(ep.x, caps))
       IN ShapeCore(SignOf(v.s < 0, cd), <<>>, body)

CharConv(v) ==
  CASE v.t = "num" ->
         IF ~IsIntV(v) THEN Outside("%c of a fraction")
         ELSE IF IsNeg(v) THEN Err("%c of a negative number")
         ELSE LET bits == IntBits(v.m, v.e) IN
              IF Len(bits) > 21 THEN Err("%c beyond U+10FFFF")
              ELSE LET n == BitsVal(bits, 1, Len(bits)) IN
                   IF n > 1114111 THEN Err("%c beyond U+10FFFF")
                   ELSE IF n >= 55296 /\ n <= 57343 THEN Outside("%c of a surrogate")
                   ELSE OkCore(<<>>, <<>>, Lit(<<n>>), FALSE)
    [] v.t = "str" -> IF Len(v.c) = 1 THEN OkCore(<<>>, <<>>, Lit(v.c), FALSE)
                      ELSE Err("%c needs a string of length 1")
    [] OTHER -> Err("%c needs a number or a string")

\* prec: -2 = none, else n >= 0
ConvCode(val, cd, prec) ==
  LET conv == cd.conv
      iprec == IF prec = -2 THEN 0 ELSE prec
      fprec == IF prec = -2 THEN 6 ELSE prec
      needNum == Err("conversion needs a number")
  IN
  CASE conv = 115 -> LET s == ToStr(val) IN
                     IF s.k # "ok" THEN s ELSE OkCore(<<>>, <<>>, Lit(s.s), FALSE)
    [] conv = 99 -> CharConv(val)
    [] conv \in {100, 105, 117} -> IF val.t # "num" THEN needNum ELSE IntConv(val, cd, iprec, 0, FALSE)
    [] conv = 111 -> IF val.t # "num" THEN needNum ELSE IntConv(val, cd, iprec, 3, FALSE)
    [] conv = 120 -> IF val.t # "num" THEN needNum ELSE IntConv(val, cd, iprec, 4, FALSE)
    [] conv = 88 -> IF val.t # "num" THEN needNum ELSE IntConv(val, cd, iprec, 4, TRUE)
    [] conv \in {102, 70} -> IF val.t # "num" THEN needNum ELSE FixConv(val, cd, fprec)
    [] conv = 101 -> IF val.t # "num" THEN needNum ELSE ExpConv(val, cd, fprec, FALSE)
    [] conv = 69 -> IF val.t # "num" THEN needNum ELSE ExpConv(val, cd, fprec, TRUE)
    [] conv = 103 -> IF val.t # "num" THEN needNum ELSE GConv(val, cd, fprec, FALSE)
    [] conv = 71 -> IF val.t # "num" THEN needNum ELSE GConv(val, cd, fprec, TRUE)

\* the padded field of a core result (k = ok or shape)
Field(core, cd, fw) ==
  LET inner0 == Len(core.sign) + Len(core.pre) + RopeLen(core.body)
      zfill == IF core.zf /\ cd.zero /\ ~cd.left THEN Max(0, fw - inner0) ELSE 0
      inner == Lit(core.sign) \o Lit(core.pre) \o Run(48, zfill) \o core.body
      padn == Max(0, fw - inner0 - zfill)
  IN IF cd.left THEN inner \o Run(32, padn) ELSE Run(32, padn) \o inner

PercentCore == OkCore(<<>>, <<>>, Lit(<<37>>), FALSE)
UsesPrec(conv) == conv \notin {115, 99, 37}

\* a width / precision delivered through *: [k |-> "ok", n] | err | outside
StarNat(v, used) ==
  IF v.t # "num" THEN (IF used THEN Err("* argument is not a number")
                       ELSE Outside("non-numeric * precision that the conversion ignores"))
  ELSE IF IsNeg(v) THEN Outside("negative * argument")
  ELSE IF ~IsIntV(v) THEN Outside("fractional * argument")
  ELSE LET bits == IntBits(v.m, v.e) IN
       IF Len(bits) > 17 THEN Outside("* argument above 131071")
       ELSE [k |-> "ok", n |-> BitsVal(bits, 1, Len(bits))]

(***************************************************************************)
(* Argument consumption, array form.  j = arguments consumed so far.       *)
(***************************************************************************)
RECURSIVE FmtArr(_, _, _, _, _, _)
FmtArr(parts, i, arr, j, acc, shp) ==
  IF i > Len(parts) THEN
     IF j < Len(arr) THEN Err("too many values") ELSE [k |-> IF shp THEN "shape" ELSE "ok", r |-> acc]
  ELSE LET p == parts[i] IN
  IF p.kind = "lit" THEN FmtArr(parts, i + 1, arr, j, acc \o Lit(p.s), shp)
  ELSE
  LET wStar == p.w = -1
      j1 == IF wStar THEN j + 1 ELSE j
      pStar == p.p = -1
      j2 == IF pStar THEN j1 + 1 ELSE j1
      isPct == p.conv = 37
      j3 == IF isPct THEN j2 ELSE j2 + 1
      notEnough == Err("not enough values")
  IN
  IF wStar /\ j >= Len(arr) THEN notEnough ELSE
  LET wr == IF wStar THEN StarNat(arr[j + 1], TRUE) ELSE [k |-> "ok", n |-> p.w] IN
  IF wr.k = "outside" THEN wr ELSE
  IF pStar /\ j1 >= Len(arr) THEN notEnough ELSE
  LET pr == IF pStar THEN StarNat(arr[j1 + 1], UsesPrec(p.conv)) ELSE [k |-> "ok", n |-> p.p] IN
  IF pr.k = "outside" THEN pr ELSE
  IF ~isPct /\ j2 >= Len(arr) THEN notEnough ELSE
  IF wr.k = "err" THEN wr ELSE
  IF pr.k = "err" THEN pr ELSE
  LET core == IF isPct THEN PercentCore ELSE ConvCode(arr[j2 + 1], p, pr.n) IN
  IF core.k \in {"err", "outside"} THEN core
  ELSE FmtArr(parts, i + 1, arr, j3, acc \o Field(core, p, wr.n), shp \/ core.k = "shape")

(***************************************************************************)
(* Object form: every directive needs a (key); * is not allowed.           *)
(***************************************************************************)
RECURSIVE FmtObj(_, _, _, _, _)
FmtObj(parts, i, flds, acc, shp) ==
  IF i > Len(parts) THEN [k |-> IF shp THEN "shape" ELSE "ok", r |-> acc]
  ELSE LET p == parts[i] IN
  IF p.kind = "lit" THEN FmtObj(parts, i + 1, flds, acc \o Lit(p.s), shp)
  ELSE
  LET isPct == p.conv = 37
      hit == {n \in 1..Len(flds) : flds[n].k = p.key}
  IN
  IF p.w = -1 THEN Err("* width with an object")
  ELSE IF p.p = -1 THEN (IF UsesPrec(p.conv) THEN Err("* precision with an object")
                         ELSE Outside("* precision that the conversion ignores, object form"))
  ELSE IF isPct THEN FmtObj(parts, i + 1, flds, acc \o Field(PercentCore, p, p.w), shp)
  ELSE IF ~p.hasKey THEN Err("mapping key required")
  ELSE IF hit = {} THEN Err("no such field")
  ELSE LET core == ConvCode(flds[CHOOSE n \in hit : TRUE].v, p, p.p) IN
       IF core.k \in {"err", "outside"} THEN core
       ELSE FmtObj(parts, i + 1, flds, acc \o Field(core, p, p.w), shp \/ core.k = "shape")

(***************************************************************************)
(* std.format(fmt, vals)  =  fmt % vals                                    *)
(***************************************************************************)
Format(fmt, vals) ==
  IF fmt.t # "str" THEN Err("format is not a string")
  ELSE LET pr == ParseFormat(fmt.c) IN
       IF ~pr.ok THEN (IF pr.why = TooLong THEN Outside(pr.why) ELSE Err(pr.why))
       ELSE IF vals.t = "arr" THEN FmtArr(pr.parts, 1, vals.a, 0, <<>>, FALSE)
       ELSE IF vals.t = "obj" THEN FmtObj(pr.parts, 1, vals.f, <<>>, FALSE)
       ELSE FmtArr(pr.parts, 1, <<vals>>, 0, <<>>, FALSE)

(***************************************************************************)
(* Laws (checked by TLC on this specification over the universes of        *)
(* MC_Fmt).  A "directive case" is: a parsed directive cd, the values wv   *)
(* and pv delivered through * (ignored unless cd.w / cd.p = -1) and the    *)
(* value v.                                                                *)
(***************************************************************************)
ArgsOf(cd, wv, pv, v) ==
  (IF cd.w = -1 THEN <<wv>> ELSE <<>>) \o (IF cd.p = -1 THEN <<pv>> ELSE <<>>)
  \o (IF cd.conv = 37 THEN <<>> ELSE <<v>>)
Run1(cd, lm, wv, pv, v) == Format(Str(PrintCode(cd, lm)), Arr(ArgsOf(cd, wv, pv, v)))
Decided(r) == r.k \in {"ok", "shape"}
Numeric(conv) == conv \notin {115, 99, 37}
EffWidth(cd, wv) == IF cd.w = -1 THEN StarNat(wv, TRUE).n ELSE cd.w

UpperSeq(s) == Tup([i \in 1..Len(s) |-> IF s[i] >= 97 /\ s[i] <= 122 THEN s[i] - 32 ELSE s[i]])
UpperRope(r) == Tup([i \in 1..Len(r) |-> Seg(UpperSeq(r[i].c), r[i].n)])
SameString(a, b) == IF RopeLen(a) # RopeLen(b) THEN FALSE
                    ELSE IF RopeLen(a) > 300 THEN TRUE ELSE Flat(a) = Flat(b)
SameResult(a, b) == a.k = b.k /\ (Decided(a) => SameString(a.r, b.r))

\* the canonical text parses back to the directive; every proper prefix is rejected as truncated
LawParse(cd, lm) ==
  LET txt == PrintCode(cd, lm)
      pr == ParseFormat(txt)
  IN /\ pr.ok /\ pr.parts = <<cd>>
     /\ \A n \in 1..(Len(txt) - 1) :
          LET q == ParseFormat(SubSeq(txt, 1, n)) IN ~q.ok /\ q.why = "truncated"

\* a rendered field is never shorter than its width, and exactly as long as the longer of
\* width and unpadded text; padding is spaces on the left / right, or zeros after sign and prefix.
\* (R is Run1(cd, 0, wv, pv, v) in all laws below.)
LawWidth(cd, wv, pv, v, R) ==
  LET cd0 == [cd EXCEPT !.w = 0]
      R0 == Run1(cd0, 0, wv, pv, v)
      fw == EffWidth(cd, wv)
      n == RopeLen(R.r)
      n0 == RopeLen(R0.r)
  IN Decided(R) =>
       /\ R0.k = R.k
       /\ n >= fw
       /\ n = Max(fw, n0)
       /\ (n <= 300 =>
            LET s == Flat(R.r)
                s0 == Flat(R0.r)
                d == n - n0
            IN IF cd.left THEN s = s0 \o [i \in 1..d |-> 32]
               ELSE IF cd.zero /\ Numeric(cd.conv)
                    THEN LET q1 == IF n0 > 0 /\ s0[1] \in {45, 43, 32} THEN 1 ELSE 0
                             q == IF cd.conv \in {120, 88} /\ cd.alt THEN q1 + 2 ELSE q1
                         IN s = SubSeq(s0, 1, q) \o [i \in 1..d |-> 48] \o SubSeq(s0, q + 1, n0)
                    ELSE s = [i \in 1..d |-> 32] \o s0)

\* i, u are d; a length modifier changes nothing; X E F G are the upper-case forms
LawAlias(cd, wv, pv, v, R, lm) ==
  /\ (cd.conv = 100 => /\ SameResult(Run1([cd EXCEPT !.conv = 105], 0, wv, pv, v), R)
                       /\ SameResult(Run1([cd EXCEPT !.conv = 117], 0, wv, pv, v), R))
  /\ SameResult(Run1(cd, lm, wv, pv, v), R)
  /\ (cd.conv \in {120, 101, 102, 103} =>
        LET U == Run1([cd EXCEPT !.conv = cd.conv - 32], 0, wv, pv, v) IN
        /\ U.k = R.k
        /\ (Decided(R) => SameString(U.r, UpperRope(R.r))))

\* + overrides space, - overrides 0; flags that a conversion does not use change nothing
LawFlags(cd, wv, pv, v, R) ==
  /\ (cd.plus /\ cd.blank => SameResult(Run1([cd EXCEPT !.blank = FALSE], 0, wv, pv, v), R))
  /\ (cd.left /\ cd.zero => SameResult(Run1([cd EXCEPT !.zero = FALSE], 0, wv, pv, v), R))
  /\ (~Numeric(cd.conv) /\ (cd.alt \/ cd.zero \/ cd.blank \/ cd.plus) =>
        SameResult(Run1([cd EXCEPT !.alt = FALSE, !.zero = FALSE, !.blank = FALSE, !.plus = FALSE],
                        0, wv, pv, v), R))
  /\ (cd.conv \in {100, 105, 117} /\ cd.alt => SameResult(Run1([cd EXCEPT !.alt = FALSE], 0, wv, pv, v), R))

\* the three ways of passing the value agree; one value more or less is an error
LawForms(cd, wv, pv, v, R, key, hid) ==
  LET txt == PrintCode(cd, 0)
      args == ArgsOf(cd, wv, pv, v)
      stars == cd.w = -1 \/ cd.p = -1
      ktxt == PrintCode([cd EXCEPT !.hasKey = TRUE, !.key = key], 0)
  IN
  /\ (~stars /\ cd.conv # 37 /\ v.t \notin {"arr", "obj"} => SameResult(Format(Str(txt), v), R))
  /\ (~stars /\ cd.conv # 37 =>
        /\ SameResult(Format(Str(ktxt), Obj(<<Fld(key, hid, v)>>)), R)
        /\ Format(Str(ktxt), Obj(<<Fld(key \o <<122>>, FALSE, v)>>)).k = "err"
        /\ Format(Str(txt), Obj(<<Fld(key, FALSE, v)>>)).k = "err")
  /\ (cd.w = -1 => Format(Str(ktxt), Obj(<<Fld(key, FALSE, v)>>)).k = "err")
  /\ SameResult(Format(Str(ktxt), Arr(args)), R)                  \* the array form ignores the key
  /\ (R.k # "outside" => Format(Str(txt), Arr(Append(args, v))).k \in {"err", "outside"})
  /\ (Len(args) > 0 /\ R.k # "outside" => Format(Str(txt), Arr(SubSeq(args, 1, Len(args) - 1))).k = "err")
  /\ (Decided(R) => SameResult(Format(Str(<<120, 37, 37>> \o txt \o <<121>>), Arr(args)),
                               [k |-> R.k, r |-> Lit(<<120, 37>>) \o R.r \o Lit(<<121>>)]))

\* exact expansions: the decimal digits denote m*2^e (checked where 32 bits suffice),
\* the radix-8/16 digits denote the same integer, rounding at or beyond the last digit is the identity
RECURSIVE DigitsNat(_, _)
DigitsNat(d, radix) == IF Len(d) = 0 THEN 0 ELSE radix * DigitsNat(SubSeq(d, 1, Len(d) - 1), radix) + d[Len(d)]
LawDigits(v) ==
  v.t = "num" /\ Tractable(v) =>
    LET dec == Dec(v.m, v.e)
        bits == IntBits(v.m, v.e)
    IN /\ (v.e <= 120 /\ v.e >= -120 => dec = DecSlow(v.m, v.e))    \* limbs and single digits agree
       /\ (v.e >= 0 /\ Len(bits) <= 30 => DigitsNat(dec.ip, 10) = v.m * Pow2(v.e))
       /\ (v.e < 0 /\ -v.e <= 3 /\ v.m < 1000000 =>
             \* (ip.fp) * 10^k * 2^k = m * 10^k   with k = -e
             LET k == -v.e
                 fpk == dec.fp \o [i \in 1..(k - Len(dec.fp)) |-> 0]
             IN DigitsNat(dec.ip \o fpk, 10) * Pow2(k) = v.m * DigitsNat(<<1>> \o [i \in 1..k |-> 0], 10))
       /\ (Len(bits) <= 30 =>
             /\ DigitsNat(GroupDigits(bits, 3), 8) = DigitsNat(bits, 2)
             /\ DigitsNat(GroupDigits(bits, 4), 16) = DigitsNat(bits, 2)
             /\ DigitsNat(dec.ip, 10) = DigitsNat(bits, 2))
       /\ LET D == dec.ip \o dec.fp IN
          Len(D) <= 60 =>
          /\ RoundDigits(D, Len(D)).d = D
          /\ \A keep \in 1..(Len(D) - 1) :
               LET r == RoundDigits(D, keep)
                   kept == SubSeq(D, 1, keep)
                   tail == SubSeq(D, keep + 1, Len(D))
                   half == <<5>> \o [i \in 1..(Len(tail) - 1) |-> 0]
               IN /\ r.d \in {kept, IncDigits(kept)}
                  /\ (tail = half => r.d[Len(r.d)] % 2 = 0)           \* ties go to the even digit
                  /\ (AllZero(tail) => r.d = kept)

\* shape of the C reference for g/G: exponent form iff X < -4 or X >= P (X = decimal exponent
\* after rounding to P digits); no trailing zeros unless #; with # exactly P significant digits
LawG(cd, wv, pv, v) ==
  (cd.conv \in {103, 71} /\ v.t = "num" /\ (cd.p = -1 => StarNat(pv, TRUE).k = "ok")) =>
    LET pr == IF cd.p = -1 THEN StarNat(pv, TRUE).n ELSE cd.p
        P == IF pr = -2 THEN 6 ELSE pr
        core == GConv(v, cd, P, cd.conv = 71)
    IN core.k = "shape" =>
         LET s == Flat(core.body)
             X == ExpParts(v, P - 1).x
             hasE == \E i \in 1..Len(s) : s[i] \in {101, 69}
             mant == IF hasE THEN SubSeq(s, 1, SetMin({i \in 1..Len(s) : s[i] \in {101, 69}}) - 1) ELSE s
             hasDot == \E i \in 1..Len(mant) : mant[i] = 46
             ndig == Cardinality({i \in 1..Len(mant) : IsDigit(mant[i])})
             lead0 == IF mant[1] # 48 THEN 0
                      ELSE SetMin({i \in 1..(Len(mant) + 1) : i > Len(mant) \/ mant[i] \notin {48, 46}}) - 2
         IN RopeLen(core.body) <= 400 =>
            /\ hasE = (X < -4 \/ X >= P)
            /\ (~cd.alt /\ hasDot => mant[Len(mant)] \notin {48, 46})
            /\ (cd.alt => hasDot)
            /\ (cd.alt /\ v.m # 0 => ndig - Max(lead0, 0) = P)
=============================================================================
