CONSTANT Fns = {"ini", "xml", "ys", "dj", "lines", "eqic", "rp", "empty", "kva"}
CONSTANT Wide = FALSE
INIT Init
NEXT Next
INVARIANTS Laws Emit
CHECK_DEADLOCK FALSE
