\* A deliberately WRONG variant of the model: TLC must report an invariant violation
\* (c16.py treats "no violation" as a tool error: the magnitude universe would be too weak).
CONSTANTS Variant = "gtMask"  Mode = "mc"  MaxCtx = 3  MaxSpan = 1
CONSTANTS CtxLens <- CtxLensMid  StartMags <- StartMagsSmall  LenMags <- LenMagsSmall  Deltas <- Deltas1
INIT MCInit
NEXT MCNext
INVARIANTS TypeOK EndsExact EndsIncreasing RoundTrip Canonical TableTight
CHECK_DEADLOCK FALSE
