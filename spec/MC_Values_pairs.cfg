CONSTANT Mode = "pairs"
INIT Init
NEXT Next
INVARIANTS PairLaws Emit
CHECK_DEADLOCK FALSE
