----------------------------- MODULE MC_Spans -----------------------------
(* Model-checking harness for Spans (C16).                                  *)
(*   Mode "mc"   exhaustive: every script of <= MaxCtx InsertContext and    *)
(*               <= MaxSpan Intern operations, in every interleaving, over  *)
(*               the magnitude sets of the configuration; Inv in every      *)
(*               state; every maximal script is printed for replay on the   *)
(*               real SpanManager.                                          *)
(*   Mode "sim"  -simulate: the interleaving (plan) is drawn with the       *)
(*               initial state, operands at every step; full magnitudes.    *)
(*   Mode "crop" the --max-trace cropping table with its laws.              *)
(* Numbers are pairs <<hi, lo>> = hi * 2^20 + lo (see Spans.tla).           *)
EXTENDS Spans, Json, TLCExt, IOUtils

CONSTANTS Mode, MaxCtx, MaxSpan,
          CtxLens,     \* lengths a context may be registered with
          StartMags,   \* anchors for span starts (besides the context length and the inline threshold)
          LenMags,     \* span lengths (besides "up to the end of the context")
          Deltas       \* small integers added to every start anchor

VARIABLES script, plan, cn, ct

mcvars == <<svars, script, plan, cn, ct>>

P(k) == Pow2(k)
M(k, d) == Shift(Pow2(k), d)

\* the magnitude table of the property: 0, 1, 7, 2^25-2 .. 2^25, 2^38-3 .. 2^38, 2^40
Mag0 == Zero
Mag1 == One
Mag7 == Small(7)

CtxLensFull == {Mag0, Mag1, Mag7, M(25, -1), M(25, 0), M(38, -3), M(38, -2), M(38, -1), M(38, 0), M(40, 0)}
CtxLensMid == {Mag0, Mag7, M(25, 0), M(38, -3), M(38, -2), M(40, 0)}
CtxLensSmall == {Mag0, Mag7, M(25, 0), M(38, -3), M(40, 0)}
StartMagsFull == {Mag0, Mag7, M(25, 0), M(38, -1), M(40, 0)}
StartMagsSmall == {Mag0, M(25, 0)}
StartMagsTiny == {Mag0}
LenMagsFull == {Mag0, Mag1, M(25, -2), M(25, -1), M(25, 0), M(25, 1)}
LenMagsSmall == {Mag0, M(25, -1), M(25, 0)}
Deltas1 == {-1, 0, 1}
Deltas2 == {-2, -1, 0, 1, 2}
Deltas0 == {0, 1}

nCtx == Len(lens)
nSpan == Len(issued)

\* starts: anchors +- delta, inside the context.  Anchors are the configured
\* magnitudes, the context length (end of file) and the local position whose
\* GLOBAL offset is the inline threshold 2^38-1.
StartCands(c) ==
  LET L == lens[c]
      min == Base(ends, c)
      anchors == StartMags \cup {L} \cup (IF Le(min, OffsetMask) THEN {Sub(OffsetMask, min)} ELSE {})
      raw == {Shift(a, d) : a \in anchors, d \in Deltas}
  IN {x \in raw : x # Neg /\ Le(x, L)}

EndCands(c, s) ==
  LET L == lens[c]
      raw == {Add(s, l) : l \in LenMags} \cup {L}
  IN {x \in raw : Le(s, x) /\ Le(x, L)}

OpCtx(len) == <<0, len[1], len[2]>>
OpSpan(c, s, e) == <<1, c, s[1], s[2], e[1], e[2]>>

DoCtx ==
  /\ nCtx < MaxCtx
  /\ \E len \in CtxLens :
       /\ InsertContext(len)
       /\ script' = Append(script, OpCtx(len))

DoSpan ==
  /\ nSpan < MaxSpan
  /\ \E c \in 1..nCtx : \E s \in StartCands(c) : \E e \in EndCands(c, s) :
       /\ Intern(c, s, e)
       /\ script' = Append(script, OpSpan(c, s, e))

Plans == {p \in [1..(MaxCtx + MaxSpan) -> {"C", "S"}] :
            /\ p[1] = "C"
            /\ Cardinality({j \in DOMAIN p : p[j] = "C"}) = MaxCtx}

MCInit ==
  /\ Init
  /\ script = <<>>
  /\ cn = 0 /\ ct = 0
  /\ plan = <<>>

SimInit ==
  /\ Init
  /\ script = <<>>
  /\ cn = 0 /\ ct = 0
  /\ plan \in Plans

CropInit ==
  /\ Init
  /\ script = <<>> /\ plan = <<>>
  /\ cn \in 0..MaxCtx
  /\ ct \in 0..(cn + 2)

MCNext == (DoCtx \/ DoSpan) /\ UNCHANGED <<plan, cn, ct>>

SimNext ==
  /\ Len(script) < Len(plan)
  /\ IF plan[Len(script) + 1] = "C" THEN DoCtx ELSE DoSpan
  /\ UNCHANGED <<plan, cn, ct>>

CropNext == UNCHANGED mcvars

Terminal == nCtx = MaxCtx /\ nSpan = MaxSpan

Enc == [k \in 1..Len(issued) |-> issued[k].w.f]

EmitScript ==
  Terminal => PrintT(<<"SCRIPT", ToJson([ops |-> script, enc |-> Enc])>>)

ASSUME TLCSet(1, 0)
BehLimit == IF "NBEH" \in DOMAIN IOEnv THEN atoi(IOEnv.NBEH) ELSE 1000
EmitBehaviour ==
  Len(script) = MaxCtx + MaxSpan =>
    /\ PrintT(<<"SCRIPT", ToJson([ops |-> script, enc |-> Enc])>>)
    /\ TLCSet(1, TLCGet(1) + 1)
    /\ (TLCGet(1) >= BehLimit => TLCSet("exit", TRUE))

CropLaws == LawCrop(cn, ct)
EmitCrop == PrintT(<<"CROP", ToJson([n |-> cn, t |-> ct, shown |-> Crop(cn, ct)])>>)
=============================================================================
