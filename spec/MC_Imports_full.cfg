CONSTANTS Parts = {"search", "special", "invoc", "virt", "pairs", "cycles", "data", "laws", "codefile"}  ContentLen = 0  Slices = 1  Slice = 0
INIT Init
NEXT Next
INVARIANTS Inv Laws Emit
PROPERTIES FirstWins
CHECK_DEADLOCK FALSE
