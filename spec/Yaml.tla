-------------------------------- MODULE Yaml --------------------------------
(***************************************************************************)
(* Reference reader for a CONSERVATIVE subset of YAML 1.2 block style (the *)
(* std.parseYaml part of property C20), written from the YAML 1.2.2        *)
(* productions (chapters 5-9) and the core schema (10.3.2).                *)
(*                                                                         *)
(*   ReadYaml(s) = [k |-> "ok", v |-> value]   s is inside the subset and  *)
(*                                             denotes this value          *)
(*               | [k |-> "bad"]      inside the subset's syntax, but      *)
(*                                    ill-formed: every YAML processor     *)
(*                                    must refuse it                       *)
(*               | [k |-> "outside"]  nothing is decided                   *)
(*                                                                         *)
(* s is a sequence of code points; values use the encoding of Values.tla / *)
(* Codec.tla (null, bool, num/dec, str, arr, obj with sorted fields).      *)
(*                                                                         *)
(* THE SUBSET.                                                             *)
(* Characters: LF, space and "printable" characters (0x21-0x7E,            *)
(*   0xA1-0xD7FF, 0xE000-0xFFFD, 0x10000-0x10FFFF without U+2028, U+2029,  *)
(*   U+FEFF).  Any other character anywhere (TAB, CR, C0/C1 controls, DEL, *)
(*   NEL, NBSP, BOM, LS, PS, surrogates, non-characters) => outside.       *)
(* Lines (split at LF):                                                    *)
(*   blank      spaces only                                                *)
(*   comment    spaces, then # ... (any indentation)                       *)
(*   ---        at column 0, followed by end of line or spaces and an      *)
(*              optional comment: explicit document start.  "--- text" is  *)
(*              outside.                                                   *)
(*   ...        the same shape: document end                               *)
(*   content    indentation (spaces) followed by                           *)
(*                 { "-" (spaces | EOL) }  [ key ":" [ spaces value ] | value ] [ spaces comment ]        *)
(*              "-" must be followed by a space or the end of the line;    *)
(*              ":" must be followed by a space or the end of the line; a  *)
(*              comment must be preceded by a space.                       *)
(*   A content line that starts at column 0 with "---", "...", "%" is      *)
(*   outside (directives, document markers with content).                  *)
(* Scalars (all on ONE line; anything that could continue a scalar on the  *)
(*   next line is outside):                                                *)
(*   double-quoted  "..." with \0 \a \b \t \n \v \f \r \e \space \" \/ \\  *)
(*              \N \_ \L \P \xHH \uHHHH \UHHHHHHHH (5.7); an escape that   *)
(*              does not exist or has too few hex digits => bad; a code    *)
(*              point that is no Unicode scalar value, a backslash at the  *)
(*              end of the line, no closing quote on the line => outside   *)
(*   single-quoted  '...' with '' for a quote                              *)
(*   after the closing quote: spaces, then end of line, a comment          *)
(*              preceded by a space, or (for keys) the ":"                 *)
(*   plain      first character: no indicator (- ? : , [ ] { } # & * ! | > *)
(*              ' " % @ `), except "-" followed by a non-space              *)
(*              non-indicator; ends before ": " / ":" EOL (then it is a    *)
(*              key), before " #" (comment) or at the end of the line,     *)
(*              trailing spaces dropped; must not contain , [ ] { }        *)
(*              (those are legal in block context but not decided here)    *)
(*   flow       a value that starts with [ or { is accepted only when the  *)
(*              REST OF THE LINE is a JSON text in the sense of            *)
(*              Codec!JsonDecode (no duplicate names, no surrogate escape, *)
(*              number within range); every other flow form, and a flow    *)
(*              collection followed by a comment, is outside               *)
(* Core schema (10.3.2) for plain scalars:                                 *)
(*   null | Null | NULL | ~                         -> null                *)
(*   true | True | TRUE | false | False | FALSE     -> boolean             *)
(*   [-+]? [0-9]+                                   -> integer (base 10:   *)
(*                                  007 is 7, 010 is 10, as in YAML 1.2)   *)
(*   0o [0-7]+   0x [0-9a-fA-F]+                    -> integer (unsigned)  *)
(*   [-+]? ( \. [0-9]+ | [0-9]+ ( \. [0-9]* )? ) ( [eE] [-+]? [0-9]+ )?    *)
(*                                                  -> float               *)
(*   [-+]? \.(inf|Inf|INF)   \.(nan|NaN|NAN)        -> OUTSIDE (no JSON    *)
(*                                  value; the implementation answers with *)
(*                                  the string)                            *)
(*   anything else (yes, on, nULL, 0o18, -0x1, 1_000, 0b1, 1:30, +, ...)   *)
(*                                                  -> string              *)
(*   numbers whose value does not fit the exact domain of Codec!DecValue / *)
(*   ParseNat (1e400, 20 digits, ...) are outside.                         *)
(*   An empty value (nothing after "key:" or "-") is null.                 *)
(* Keys: a quoted scalar, or a plain scalar that the core schema resolves  *)
(*   to a STRING ("null: 1", "1: x", "~: x", ": x" are outside: YAML keys  *)
(*   are nodes of any type, JSON object names are strings).  Duplicate     *)
(*   keys in one mapping => outside (YAML 1.2 forbids them, YAML 1.1       *)
(*   processors let the last one win).                                     *)
(* Block structure (8.2): a block sequence is a run of "- " entries at one *)
(*   column, a block mapping a run of "key:" entries at one column; the    *)
(*   node of an entry is what follows on the line (compact forms           *)
(*   "- - x", "- k: v" open a nested collection at the column of their     *)
(*   first token) or the following lines at a deeper column; a sequence    *)
(*   that is the value of a mapping entry may also stand at the column of  *)
(*   the key.  Ill-formed (bad): an entry whose column lies strictly       *)
(*   between those of two open collections, or below the root collection;  *)
(*   a "- " entry at the column of an open mapping (that is not the value  *)
(*   of its last key) or a "key:" entry at the column of an open sequence  *)
(*   that is not the value of a mapping entry at that column.  OUTSIDE:    *)
(*   any line deeper than the enclosing collection after a scalar (a       *)
(*   multi-line plain scalar or an error), a bare scalar where an entry is *)
(*   expected.                                                             *)
(* Streams (9.2): content before the first "---" is an implicit document;  *)
(*   every "---" starts a document (empty content: null); "..." ends the   *)
(*   open document; after "..." only blank/comment lines, "---" or the end *)
(*   may follow ("..." with no open document, a bare document after "...", *)
(*   a stream without any document are outside).  The value of the stream  *)
(*   is Jsonnet's convention (C++ and Go implementations agree, and so     *)
(*   does this implementation): the document itself when the stream has    *)
(*   no "---" at all, otherwise the ARRAY of its documents (one "---" in   *)
(*   front of a single document gives a one-element array).                *)
(*                                                                         *)
(* Matters on which YAML versions / libraries differ and that are          *)
(* therefore OUTSIDE (observed while building; none is reported as a       *)
(* finding): TAB as separation or indentation (1.2 allows "a:<TAB>1", this *)
(* implementation and libyaml refuse it; this implementation accepts a TAB *)
(* in indentation), "'x'#c" (comment not preceded by a space), ".inf"/     *)
(* ".nan" (strings here), duplicate keys, an empty stream (null here, no   *)
(* document in YAML), bare documents after "...", "--- text", the empty    *)
(* key ": 1" (key "~" here), non-string keys (their source text here).     *)
(***************************************************************************)
EXTENDS Codec

Out == [k |-> "outside"]
\* Codec!Bad == [k |-> "bad"] is the ill-formed answer

Printable(c) == \/ c >= 33 /\ c <= 126
                \/ c >= 161 /\ c <= 55295 /\ c # 8232 /\ c # 8233
                \/ c >= 57344 /\ c <= 65533 /\ c # 65279
                \/ c >= 65536 /\ c <= 1114111
\*              -   ?   :   ,   [   ]   {    }    #   &   *   !   |    >   '   "   %   @   `
Indicators == {45, 63, 58, 44, 91, 93, 123, 125, 35, 38, 42, 33, 124, 62, 39, 34, 37, 64, 96}
FlowInd == {44, 91, 93, 123, 125}

RECURSIVE SplitAt(_, _, _)
SplitAt(s, p, start) ==
  IF p > Len(s) THEN <<SubSeq(s, start, Len(s))>>
  ELSE IF s[p] = 10 THEN <<SubSeq(s, start, p - 1)>> \o SplitAt(s, p + 1, p + 1)
  ELSE SplitAt(s, p + 1, start)
SplitLines(s) == SplitAt(s, 1, 1)

RECURSIVE SkipSp(_, _)
SkipSp(l, p) == IF p <= Len(l) /\ l[p] = 32 THEN SkipSp(l, p + 1) ELSE p
RECURSIVE TrimEnd(_, _)
TrimEnd(l, e) == IF e >= 1 /\ l[e] = 32 THEN TrimEnd(l, e - 1) ELSE e     \* last non-space position <= e
ColonAt(l, q) == q <= Len(l) /\ l[q] = 58 /\ (q = Len(l) \/ l[q + 1] = 32)

(***************************************************************************)
(* Core schema                                                             *)
(***************************************************************************)
YNulls == {<<110, 117, 108, 108>>, <<78, 117, 108, 108>>, <<78, 85, 76, 76>>, <<126>>}           \* null Null NULL ~
YTrues == {<<116, 114, 117, 101>>, <<84, 114, 117, 101>>, <<84, 82, 85, 69>>}                    \* true True TRUE
YFalses == {<<102, 97, 108, 115, 101>>, <<70, 97, 108, 115, 101>>, <<70, 65, 76, 83, 69>>}        \* false False FALSE
YInfs == {<<46, 105, 110, 102>>, <<46, 73, 110, 102>>, <<46, 73, 78, 70>>}                        \* .inf .Inf .INF
YNans == {<<46, 110, 97, 110>>, <<46, 78, 97, 78>>, <<46, 78, 65, 78>>}                           \* .nan .NaN .NAN
OutV == [t |-> "out"]
NoV == [t |-> "no"]

\* [-+]? ( \. [0-9]+ | [0-9]+ ( \. [0-9]* )? ) ( [eE] [-+]? [0-9]+ )?   (covers [-+]? [0-9]+ with the same value)
YNumber(t) ==
  LET neg == At(t, 1) = 45
      p1 == IF At(t, 1) \in {43, 45} THEN 2 ELSE 1
      p2 == DigitsEnd(t, p1)                                  \* integer digits p1 .. p2-1
      hasDot == At(t, p2) = 46
      p3 == IF hasDot THEN DigitsEnd(t, p2 + 1) ELSE p2       \* fraction digits p2+1 .. p3-1
      hasExp == At(t, p3) \in {101, 69}
      expNeg == hasExp /\ At(t, p3 + 1) = 45
      p4 == IF hasExp THEN (IF At(t, p3 + 1) \in {43, 45} THEN p3 + 2 ELSE p3 + 1) ELSE p3
      p5 == IF hasExp THEN DigitsEnd(t, p4) ELSE p3
      nInt == p2 - p1
      nFrac == IF hasDot THEN p3 - p2 - 1 ELSE 0
      dv(a, b) == [i \in 1..(b - a) |-> t[a + i - 1] - 48]
      ex == NatOf(10, StripLead(dv(p4, p5)))
  IN IF p5 # Len(t) + 1 THEN NoV
     ELSE IF ~(nInt >= 1 \/ nFrac >= 1) THEN NoV
     ELSE IF hasExp /\ p5 = p4 THEN NoV
     ELSE IF ex < 0 \/ ex > 1000 THEN OutV
     ELSE LET frac == IF hasDot THEN dv(p2 + 1, p3) ELSE <<>>
              v == DecValue(IF neg THEN -1 ELSE 1, dv(p1, p2) \o frac, (IF expNeg THEN -ex ELSE ex) - nFrac)
          IN IF v.t = "big" THEN OutV ELSE v

RadixV(r) == IF r.r = "ok" THEN Num(r.s, r.m, r.e) ELSE OutV
Resolve(t) ==
  IF t \in YNulls THEN Null
  ELSE IF t \in YTrues THEN Bool(TRUE)
  ELSE IF t \in YFalses THEN Bool(FALSE)
  ELSE IF Len(t) > 2 /\ t[1] = 48 /\ t[2] = 111 /\ (\A i \in 3..Len(t) : t[i] >= 48 /\ t[i] <= 55)
       THEN RadixV(ParseOctal(SubSeq(t, 3, Len(t))))
  ELSE IF Len(t) > 2 /\ t[1] = 48 /\ t[2] = 120 /\ (\A i \in 3..Len(t) : DigitVal(t[i]) < 16)
       THEN RadixV(ParseHex(SubSeq(t, 3, Len(t))))
  ELSE IF t \in YInfs \cup YNans THEN OutV
  ELSE IF Len(t) = 5 /\ t[1] \in {43, 45} /\ Tail(t) \in YInfs THEN OutV
  ELSE LET n == YNumber(t) IN IF n.t = "no" THEN Str(t) ELSE n

(***************************************************************************)
(* Scalars on one line                                                     *)
(***************************************************************************)
EscSimple(c) ==
  CASE c = 48 -> 0 [] c = 97 -> 7 [] c = 98 -> 8 [] c = 116 -> 9 [] c = 110 -> 10 [] c = 118 -> 11 [] c = 102 -> 12
    [] c = 114 -> 13 [] c = 101 -> 27 [] c = 32 -> 32 [] c = 34 -> 34 [] c = 47 -> 47 [] c = 92 -> 92
    [] c = 78 -> 133 [] c = 95 -> 160 [] c = 76 -> 8232 [] c = 80 -> 8233 [] OTHER -> -1
\* value of n hexadecimal digits at p: -1 if there are fewer, -2 if the value is beyond 0xFFFFFF
RECURSIVE HexAcc(_, _, _, _)
HexAcc(l, p, n, acc) ==
  IF n = 0 THEN acc
  ELSE IF p > Len(l) \/ DigitVal(l[p]) >= 16 THEN -1
  ELSE IF acc >= 1048576 THEN (IF HexAcc(l, p, n, 0) = -1 THEN -1 ELSE -2)
  ELSE HexAcc(l, p + 1, n - 1, acc * 16 + DigitVal(l[p]))
HexVal(l, p, n) == HexAcc(l, p, n, 0)

QOk(c, p) == [k |-> "ok", c |-> c, p |-> p]
RECURSIVE DQ(_, _, _)
DQ(l, p, acc) ==          \* p: after the opening quotation mark
  IF p > Len(l) THEN Out
  ELSE IF l[p] = 34 THEN QOk(acc, p + 1)
  ELSE IF l[p] = 92 THEN
    (IF p = Len(l) THEN Out
     ELSE LET d == l[p + 1] IN
       IF EscSimple(d) >= 0 THEN DQ(l, p + 2, Append(acc, EscSimple(d)))
       ELSE IF d \in {120, 117, 85} THEN
         LET n == CASE d = 120 -> 2 [] d = 117 -> 4 [] d = 85 -> 8
             u == HexVal(l, p + 2, n)
         IN IF u = -1 THEN Bad
            ELSE IF u = -2 \/ ~IsScalar(u) THEN Out
            ELSE DQ(l, p + 2 + n, Append(acc, u))
       ELSE Bad)
  ELSE DQ(l, p + 1, Append(acc, l[p]))
RECURSIVE SQ(_, _, _)
SQ(l, p, acc) ==
  IF p > Len(l) THEN Out
  ELSE IF l[p] = 39 THEN (IF p < Len(l) /\ l[p + 1] = 39 THEN SQ(l, p + 2, Append(acc, 39)) ELSE QOk(acc, p + 1))
  ELSE SQ(l, p + 1, Append(acc, l[p]))

RECURSIVE PlainScan(_, _)
PlainScan(l, q) ==
  IF q > Len(l) THEN [t |-> "eol", q |-> q]
  ELSE IF ColonAt(l, q) THEN [t |-> "colon", q |-> q]
  ELSE IF l[q] = 32 /\ q < Len(l) /\ l[q + 1] = 35 THEN [t |-> "comment", q |-> q]
  ELSE IF l[q] \in FlowInd THEN [t |-> "out", q |-> q]
  ELSE PlainScan(l, q + 1)
PlainFirstOk(l, p) ==
  \/ l[p] \notin Indicators
  \/ l[p] = 45 /\ p < Len(l) /\ l[p + 1] # 32 /\ l[p + 1] \notin Indicators

\* a scalar (or JSON flow collection) that starts at p: a key (then p is the position after its colon) or a value
\* (then the rest of the line is consumed)
Sc(key, c, v, p) == [k |-> "ok", key |-> key, c |-> c, v |-> v, p |-> p]
ScanScalar(l, p, allowKey) ==
  LET c == l[p] IN
  IF c = 34 \/ c = 39 THEN
    LET r == IF c = 34 THEN DQ(l, p + 1, <<>>) ELSE SQ(l, p + 1, <<>>) IN
    IF r.k # "ok" THEN r
    ELSE LET q == SkipSp(l, r.p) IN
      IF q > Len(l) THEN Sc(FALSE, <<>>, Str(r.c), q)
      ELSE IF ColonAt(l, q) THEN (IF allowKey THEN Sc(TRUE, r.c, Null, q + 1) ELSE Out)
      ELSE IF l[q] = 35 /\ q > r.p THEN Sc(FALSE, <<>>, Str(r.c), Len(l) + 1)
      ELSE Out
  ELSE IF c = 91 \/ c = 123 THEN
    LET d == JsonDecode(SubSeq(l, p, TrimEnd(l, Len(l)))) IN
    IF d.k = "ok" /\ ~d.pair THEN Sc(FALSE, <<>>, d.v, Len(l) + 1) ELSE Out
  ELSE IF PlainFirstOk(l, p) THEN
    LET r == PlainScan(l, p)
        txt == SubSeq(l, p, TrimEnd(l, r.q - 1))
        v == Resolve(txt)
    IN IF r.t = "out" THEN Out
       ELSE IF r.t = "colon" THEN (IF allowKey /\ v.t = "str" THEN Sc(TRUE, txt, Null, r.q + 1) ELSE Out)
       ELSE IF v.t = "out" THEN Out ELSE Sc(FALSE, <<>>, v, Len(l) + 1)
  ELSE Out

(***************************************************************************)
(* Lines -> tokens.  col is the 0-based column, ln the line number.        *)
(***************************************************************************)
Tok(kind, col, ln, key, hasv, v) == [kind |-> kind, col |-> col, ln |-> ln, key |-> key, hasv |-> hasv, v |-> v]
Toks(t) == [k |-> "toks", t |-> t, bad |-> FALSE]
\* a line with an ill-formed double-quoted scalar keeps its place in the structure (the verdict "bad" is only
\* given when the structure around it is decided: the line could be the continuation of a plain scalar)
BadToks(t) == [k |-> "toks", t |-> t, bad |-> TRUE]

RECURSIVE ScanEntry(_, _, _, _)
ScanEntry(l, p, ln, acc) ==       \* p <= Len(l), l[p] is not a space
  IF l[p] = 45 /\ (p = Len(l) \/ l[p + 1] = 32) THEN
    LET q == SkipSp(l, p + 1)
        acc2 == Append(acc, Tok("dash", p - 1, ln, <<>>, FALSE, Null))
    IN IF q > Len(l) \/ l[q] = 35 THEN Toks(acc2) ELSE ScanEntry(l, q, ln, acc2)
  ELSE
    LET r == ScanScalar(l, p, TRUE) IN
    IF r.k = "bad" THEN BadToks(Append(acc, Tok("val", p - 1, ln, <<>>, TRUE, Str(<<>>))))
    ELSE IF r.k # "ok" THEN r
    ELSE IF ~r.key THEN Toks(Append(acc, Tok("val", p - 1, ln, <<>>, TRUE, r.v)))
    ELSE LET q == SkipSp(l, r.p) IN
      IF q > Len(l) \/ l[q] = 35 THEN Toks(Append(acc, Tok("key", p - 1, ln, r.c, FALSE, Null)))
      ELSE LET w == ScanScalar(l, q, FALSE) IN
        IF w.k = "bad" THEN BadToks(Append(acc, Tok("key", p - 1, ln, r.c, TRUE, Str(<<>>))))
        ELSE IF w.k # "ok" THEN w ELSE Toks(Append(acc, Tok("key", p - 1, ln, r.c, TRUE, w.v)))

Dashes3 == <<45, 45, 45>>
Dots3 == <<46, 46, 46>>
MarkerRest(l) == LET q == SkipSp(l, 4) IN q > Len(l) \/ l[q] = 35       \* (l[4], if any, is a space)
ClassifyLine(l, ln) ==
  LET p == SkipSp(l, 1) IN
  IF p > Len(l) \/ l[p] = 35 THEN [k |-> "blank"]
  ELSE IF p = 1 /\ (HasPrefix(l, 1, Dashes3) \/ HasPrefix(l, 1, Dots3)) THEN
    (IF (Len(l) = 3 \/ l[4] = 32) /\ MarkerRest(l) THEN [k |-> IF l[1] = 45 THEN "start" ELSE "end"] ELSE Out)
  ELSE ScanEntry(l, p, ln, <<>>)

(***************************************************************************)
(* Tokens of one document -> value (8.2.1 block sequences, 8.2.2 block     *)
(* mappings).  Results: [k |-> "ok", v, i (next token), leaf], Out, Bad.   *)
(***************************************************************************)
NodeOk(v, i, leaf) == [k |-> "ok", v |-> v, i |-> i, leaf |-> leaf]

\* What a collection at column c makes of the token T[n] that follows one of its children:
\*   "own"  the same column;  "up"  a lower column (an ancestor's business) or the end;
\*   deeper than c: after a scalar it may continue the scalar (or be an error) - outside; after a nested
\*   collection (which ended because the column is lower than its own) the column lies between two open
\*   collections - ill-formed, except that a bare scalar there is left undecided
After(T, n, c, childLeaf) ==
  IF n > Len(T) THEN "up"
  ELSE IF T[n].col = c THEN "own"
  ELSE IF T[n].col < c THEN "up"
  ELSE IF childLeaf \/ T[n].kind = "val" THEN "outside"
  ELSE "bad"

RECURSIVE PNode(_, _)
RECURSIVE PSeq(_, _, _, _)
RECURSIVE PMap(_, _, _, _)
PNode(T, i) ==
  CASE T[i].kind = "val" -> NodeOk(T[i].v, i + 1, TRUE)
    [] T[i].kind = "dash" -> PSeq(T, i, T[i].col, <<>>)
    [] T[i].kind = "key" -> PMap(T, i, T[i].col, <<>>)

PSeq(T, i, c, acc) ==        \* T[i] is a "- " at column c
  LET j == i + 1
      r == IF j <= Len(T) /\ (T[j].ln = T[i].ln \/ T[j].col > c) THEN PNode(T, j) ELSE NodeOk(Null, j, FALSE)
  IN IF r.k # "ok" THEN r
     ELSE LET a == After(T, r.i, c, r.leaf)
              acc2 == Append(acc, r.v)
          IN CASE a = "outside" -> Out
               [] a = "bad" -> Bad
               [] a = "up" -> NodeOk(Arr(acc2), r.i, FALSE)
               [] a = "own" -> IF T[r.i].kind = "dash" THEN PSeq(T, r.i, c, acc2)
                               ELSE NodeOk(Arr(acc2), r.i, FALSE)            \* the parent decides

PMap(T, i, c, acc) ==        \* T[i] is a "key:" at column c
  LET t == T[i]
      j == i + 1
      r == IF t.hasv THEN NodeOk(t.v, j, TRUE)
           ELSE IF j <= Len(T) /\ T[j].col > c THEN PNode(T, j)
           ELSE IF j <= Len(T) /\ T[j].col = c /\ T[j].kind = "dash" THEN PSeq(T, j, c, <<>>)
           ELSE NodeOk(Null, j, FALSE)
  IN IF r.k # "ok" THEN r
     ELSE LET a == After(T, r.i, c, r.leaf)
              acc2 == Append(acc, Fld(t.key, FALSE, r.v))
              done == IF DistinctKeys(acc2) THEN NodeOk(MkObj(acc2), r.i, FALSE) ELSE Out
          IN CASE a = "outside" -> Out
               [] a = "bad" -> Bad
               [] a = "up" -> done
               [] a = "own" -> CASE T[r.i].kind = "key" -> PMap(T, r.i, c, acc2)
                                 [] T[r.i].kind = "dash" -> Bad
                                 [] T[r.i].kind = "val" -> Out

PDoc(T) ==
  IF T = <<>> THEN [k |-> "ok", v |-> Null]
  ELSE LET r == PNode(T, 1) IN
    IF r.k # "ok" THEN r
    ELSE IF r.i > Len(T) THEN [k |-> "ok", v |-> r.v]
    ELSE IF r.leaf \/ T[r.i].kind = "val" THEN Out
    ELSE Bad

(***************************************************************************)
(* Streams                                                                 *)
(***************************************************************************)
\* cls: the classified lines.  st: [docs (token sequences of the closed documents), cur, open (a document is
\* open), ended (the last marker was "..."), explicit (a "---" was seen)]
RECURSIVE SplitDocs(_, _, _)
SplitDocs(cls, i, st) ==
  IF i > Len(cls) THEN (IF st.open THEN [st EXCEPT !.docs = Append(st.docs, st.cur)] ELSE st)
  ELSE LET x == cls[i] IN
    CASE x.k = "blank" -> SplitDocs(cls, i + 1, st)
      [] x.k = "toks" -> IF st.ended THEN [st EXCEPT !.out = TRUE]
                         ELSE SplitDocs(cls, i + 1, [st EXCEPT !.cur = st.cur \o x.t, !.open = TRUE])
      [] x.k = "start" -> SplitDocs(cls, i + 1, [docs |-> IF st.open THEN Append(st.docs, st.cur) ELSE st.docs,
                                                 cur |-> <<>>, open |-> TRUE, ended |-> FALSE, explicit |-> TRUE,
                                                 out |-> FALSE])
      [] x.k = "end" -> IF ~st.open THEN [st EXCEPT !.out = TRUE]
                        ELSE SplitDocs(cls, i + 1, [st EXCEPT !.docs = Append(st.docs, st.cur), !.cur = <<>>,
                                                              !.open = FALSE, !.ended = TRUE])

RECURSIVE FirstNot(_, _, _)      \* index of the first element whose k is not in ks, or 0
FirstNot(xs, i, ks) == IF i > Len(xs) THEN 0 ELSE IF xs[i].k \notin ks THEN i ELSE FirstNot(xs, i + 1, ks)

ReadYaml(s) ==
  IF \E i \in 1..Len(s) : ~(s[i] = 10 \/ s[i] = 32 \/ Printable(s[i])) THEN Out
  ELSE
    LET ls == SplitLines(s)
        cls == [i \in 1..Len(ls) |-> ClassifyLine(ls[i], i)] \o <<>>
        anyOut == \E i \in 1..Len(cls) : cls[i].k = "outside"
        lexBad == \E i \in 1..Len(cls) : cls[i].k = "toks" /\ cls[i].bad
    IN IF anyOut THEN Out
       ELSE
         LET st == SplitDocs(cls, 1, [docs |-> <<>>, cur |-> <<>>, open |-> FALSE, ended |-> FALSE,
                                      explicit |-> FALSE, out |-> FALSE])
             rs == [i \in 1..Len(st.docs) |-> PDoc(st.docs[i])] \o <<>>
             bad1 == FirstNot(rs, 1, {"ok"})
         IN IF st.out \/ st.docs = <<>> THEN Out
            ELSE IF \E i \in 1..Len(rs) : rs[i].k = "outside" THEN Out
            ELSE IF bad1 # 0 \/ lexBad THEN Bad
            ELSE IF st.explicit THEN [k |-> "ok", v |-> Arr([i \in 1..Len(rs) |-> rs[i].v])]
            ELSE [k |-> "ok", v |-> rs[1].v]
=============================================================================
