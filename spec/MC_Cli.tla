------------------------------ MODULE MC_Cli ------------------------------
(* Universe of configurations for C12, invariants, and emission of every   *)
(* terminal behaviour as a CASE for replay against the real binary.        *)
(*                                                                         *)
(* A configuration = input kind x output mode x -o x --no-trailing-newline *)
(*                   x program (value class) x ext/TLA kind x fault.       *)
(* Constant Rate: 1 = every compatible configuration; q > 1 = the seeded     *)
(* lattice sample { c : Hash(c) + seed = 0 (mod q) } (q prime, every        *)
(* coefficient a unit mod q, so every pair of dimension values that occurs *)
(* in the universe also occurs in the sample as long as the remaining      *)
(* dimensions have q or more combinations).  The seed comes from the       *)
(* environment variable C12_SEED; the q samples partition the universe.    *)
EXTENDS Cli, Json, IOUtils

CONSTANT Rate

SetOf(s) == {s[i] : i \in 1..Len(s)}
Idx(s, x) == CHOOSE i \in 1..Len(s) : s[i] = x

InputSeq == <<"exec", "file", "stdin">>
ModeSeq  == <<"json", "S", "y", "m", "Sy", "mS">>
ProgSeq  == <<"str", "arr0", "arr2", "obj0", "objMixed", "objS", "num", "nested",
              "rterr", "synerr", "staticerr", "arrErr2", "objErr2",
              "funcReq", "funcDef", "funcObj">>
Inputs == SetOf(InputSeq)
Modes  == SetOf(ModeSeq)
Progs  == SetOf(ProgSeq)

ExtKinds == {"ext_str", "ext_str_env", "ext_env_unset", "ext_str_file", "ext_str_file_missing",
             "ext_str_file_badutf8", "ext_str_file_malformed", "ext_code", "ext_code_file",
             "ext_code_lazy_unused", "ext_code_fail_used", "ext_code_syntax_unused",
             "ext_code_syntax_used", "ext_unknown_used", "ext_dup", "ext_two", "ext_str_empty"}
TlaKinds == {"tla_str", "tla_str_env", "tla_env_unset", "tla_code", "tla_files", "tla_override",
             "tla_only_y", "tla_unknown", "tla_dup", "tla_lazy_unused", "tla_fail_used",
             "tla_syntax_unused", "tla_str_empty", "tla_ext_same", "tla_ext_same_code"}
MiscKinds == {"stack_ok", "stack_bad", "trace_bad", "unknown_flag"}
Kinds == {"none"} \cup ExtKinds \cup TlaKinds \cup MiscKinds
KindSeq == <<"none", "ext_str", "ext_str_env", "ext_env_unset", "ext_str_file", "ext_str_file_missing",
             "ext_str_file_badutf8", "ext_str_file_malformed", "ext_code", "ext_code_file",
             "ext_code_lazy_unused", "ext_code_fail_used", "ext_code_syntax_unused",
             "ext_code_syntax_used", "ext_unknown_used", "ext_dup", "ext_two",
             "tla_str", "tla_str_env", "tla_env_unset", "tla_code", "tla_files", "tla_override",
             "tla_only_y", "tla_unknown", "tla_dup", "tla_lazy_unused", "tla_fail_used",
             "tla_syntax_unused", "stack_ok", "stack_bad", "trace_bad", "unknown_flag",
             "ext_str_empty", "tla_str_empty", "tla_ext_same", "tla_ext_same_code">>
ASSUME SetOf(KindSeq) = Kinds

FaultSeq == <<"none", "input_missing", "input_is_dir", "input_dangling", "stdin_closed",
              "out_missing_dir", "out_is_dir", "mdir_missing", "mdir_is_file",
              "stdout_full", "stdout_closed">>
Faults == SetOf(FaultSeq)

\* which program is paired with which ext/TLA kind
Pair(p, e) ==
  \/ e \in {"none"} \cup MiscKinds
  \/ e \in ExtKinds /\ p \in {"str", "arr2", "objMixed", "objS", "nested", "num", "rterr", "synerr"}
  \/ e \in TlaKinds /\ p \in {"funcReq", "funcDef", "funcObj", "str"}

\* a fault needs the thing it breaks; faults are combined with every program but few kinds
FaultApplies(c) ==
  CASE c.fault = "none" -> TRUE
    [] c.fault \in {"input_missing", "input_is_dir", "input_dangling"} -> c.input = "file"
    [] c.fault = "stdin_closed" -> c.input = "stdin"
    [] c.fault \in {"out_missing_dir", "out_is_dir"} -> c.out
    [] c.fault \in {"mdir_missing", "mdir_is_file"} -> MultiMode(c.mode)
    [] OTHER -> TRUE
FaultPair(c) ==
  c.fault = "none" \/ c.ext = "none"
  \/ <<c.prog, c.ext>> \in {<<"str", "ext_str">>, <<"objS", "ext_str_file">>, <<"funcReq", "tla_str">>}

\* IOEnv is slow (it rebuilds the whole environment): read it once, keep it in a TLC register
ASSUME TLCSet(12, IF "C12_SEED" \in DOMAIN IOEnv THEN atoi(IOEnv.C12_SEED) ELSE 0)
SeedVal == TLCGet(12)
Hash(c) == 3 * Idx(InputSeq, c.input) + 5 * Idx(ModeSeq, c.mode) + 7 * (IF c.out THEN 1 ELSE 0)
           + 11 * (IF c.ntn THEN 1 ELSE 0) + 2 * Idx(ProgSeq, c.prog) + 6 * Idx(KindSeq, c.ext)
           + 9 * Idx(FaultSeq, c.fault)
InSlice(c, sv) == Rate = 1 \/ (Hash(c) + sv) % Rate = 0

Cfg(i, m, o, n, p, e, f) ==
  [input |-> i, mode |-> m, out |-> o, ntn |-> n, prog |-> p, ext |-> e, fault |-> f]

\* one initial state per (program, kind); the action Configure then chooses the rest,
\* so that the enumeration is spread over TLC's workers
MCInit ==
  \E p \in Progs, e \in Kinds :
    /\ Pair(p, e) = TRUE
    /\ InitRun(Cfg("exec", "json", FALSE, FALSE, p, e, "none"))

MCConfigure ==
  /\ phase = "Configure"
  /\ \E sv \in {SeedVal} :
     \E i \in Inputs, m \in Modes, o \in BOOLEAN, n \in BOOLEAN, f \in Faults :
       LET c == Cfg(i, m, o, n, cfg.prog, cfg.ext, f) IN
       /\ (FaultApplies(c) /\ FaultPair(c) /\ InSlice(c, sv)) = TRUE
       /\ Configure(c)

MCNext == MCConfigure \/ Next

\* ------------------------------------------------------------- invariants
Laws ==
  /\ Contract
  /\ (phase = "ParseArgs" => ConfigLaws(cfg))
  \* the value reaching Manifest depends on (program, kind) only: once per initial state
  /\ (phase = "Configure" => ViewLaws(FinalValue(cfg)))

\* every terminal state = one legal outcome of its configuration
Emit ==
  phase = "Done" =>
    PrintT(<<"CASE", ToJson([
       input |-> cfg.input, mode |-> cfg.mode, out |-> cfg.out, ntn |-> cfg.ntn,
       prog |-> cfg.prog, ext |-> cfg.ext, fault |-> cfg.fault,
       use |-> Kind(cfg.ext).use, args |-> Args(cfg),
       exit |-> exit, stdout |-> stdout, stderr |-> stderrNonEmpty,
       files |-> files, why |-> why, nphases |-> Cardinality(done)])>>)
=============================================================================
