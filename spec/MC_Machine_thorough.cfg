CONSTANTS Thunks = {1, 2, 3} MaxLimit = 2 MaxDeps = 2 MaxReq = 2 RestoreOnFail = TRUE
INIT Init
NEXT Next
INVARIANT Inv
CHECK_DEADLOCK FALSE
