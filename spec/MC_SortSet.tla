---------------------------- MODULE MC_SortSet ----------------------------
(* Universes and case emission for C17.                                     *)
(*  Mode "arrays"  every array of length 0..MaxLen over key ranks 1..NKeys  *)
(*                 (tags = input positions); full laws; one case per array  *)
(*  Mode "pairs"   every ordered pair of subsets of 1..NKeys (as sets, in   *)
(*                 both key orders); set-operation laws; one case per pair  *)
(*  Mode "members" every subset of 1..NKeys x every probe 0..NKeys+1        *)
(*  Mode "long"    behaviours that build one long array element by element  *)
(*                 (run with -simulate): length from Lens, 1..NKeys         *)
(*                 distinct keys, key changes only every par.per positions, *)
(*                 free / non-decreasing / non-increasing; the case is      *)
(*                 emitted when the target length is reached                *)
EXTENDS SortSet, Json

CONSTANTS Mode, MaxLen, NKeys, PermBound, Lens
VARIABLES s, t, par

LensAll == 25..200
LensQuick == {25, 29, 30, 31, 32, 45, 59, 60, 61, 62, 63, 64, 93, 119, 120, 121, 122, 123, 124, 125, 150, 187, 200}
Dirs == {"any", "up", "down"}
Periods == {1, 5, 16, 31}

ASSUME LawKeyTab(12)
\* the concrete key tables, for the renderer (so that it has no copy of its own)
ASSUME LawAltTab
ASSUME PrintT(<<"TABLE", ToJson([kind \in Kinds |-> KeyTab(kind)])>>)
ASSUME PrintT(<<"ALTTABLE", ToJson([kind \in Kinds |-> AltTab(kind)])>>)

Elems(rs) == [i \in Idx(rs) |-> <<rs[i], i>>]
Tags(es) == [i \in Idx(es) |-> es[i][2]]

RECURSIVE AscSeq(_)
AscSeq(S) == IF S = {} THEN <<>> ELSE LET m == MinOf(S) IN <<m>> \o AscSeq(S \ {m})
\* the set S of ranks as a Jsonnet set under key order ord; tags base + rank
SetElems(ord, S, base) ==
  LET a == AscSeq(S)
      q == IF ord = "asc" THEN a ELSE Reverse(a)
  IN [i \in Idx(q) |-> <<q[i], base + q[i]>>]

Init ==
  CASE Mode = "arrays" ->
         /\ s \in UNION { [1..n -> 1..NKeys] : n \in 0..MaxLen }
         /\ t = <<>> /\ par = 0
    [] Mode = "pairs" ->
         /\ s \in SUBSET (1..NKeys) /\ t \in SUBSET (1..NKeys) /\ par = 0
    [] Mode = "members" ->
         /\ s \in SUBSET (1..NKeys) /\ t = {} /\ par \in 0..(NKeys + 1)
    [] Mode = "long" ->
         /\ s = <<>> /\ t = <<>>
         /\ par \in { p \in [target : Lens, nk : 1..NKeys, dir : Dirs, per : Periods] :
                        p.nk = 1 => (p.dir = "any" /\ p.per = 1) }   \* one constant array per length

Allowed(k) ==
  IF s = <<>> THEN TRUE
  ELSE LET last == s[Len(s)] IN
       IF Len(s) % par.per # 0 THEN k = last
       ELSE CASE par.dir = "any" -> TRUE
              [] par.dir = "up" -> k >= last
              [] par.dir = "down" -> k <= last

Next ==
  IF Mode = "long"
  THEN /\ Len(s) < par.target
       /\ \E k \in 1..par.nk : Allowed(k) /\ s' = Append(s, k)
       /\ UNCHANGED <<t, par>>
  ELSE UNCHANGED <<s, t, par>>

Done == Mode # "long" \/ Len(s) = par.target

ArrExp(ord, es) ==
  [sort |-> Tags(Sort(ord, es)), uniq |-> Tags(Uniq(ord, es)), set |-> Tags(Set(ord, es)),
   min |-> [oe \in OnEmptyModes |-> Extremal("min", ord, es, oe)],
   max |-> [oe \in OnEmptyModes |-> Extremal("max", ord, es, oe)]]

PairExp(ord) ==
  LET a == SetElems(ord, s, 0)  b == SetElems(ord, t, 10) IN
  [a |-> a, b |-> b, union |-> Union(ord, a, b), inter |-> Inter(ord, a, b), diff |-> Diff(ord, a, b),
   mem |-> [x \in 1..NKeys |-> Member(ord, <<x, 99>>, a)]]

MemExp(ord) ==
  LET a == SetElems(ord, s, 0) IN [a |-> a, r |-> Member(ord, <<par, 99>>, a)]

Case ==
  CASE Mode \in {"arrays", "long"} ->
         [m |-> Mode, s |-> s, par |-> par, asc |-> ArrExp("asc", Elems(s)), desc |-> ArrExp("desc", Elems(s))]
    [] Mode = "pairs" -> [m |-> Mode, asc |-> PairExp("asc"), desc |-> PairExp("desc")]
    [] Mode = "members" -> [m |-> Mode, x |-> par, asc |-> MemExp("asc"), desc |-> MemExp("desc")]

Emit == Done => PrintT(<<"CASE", ToJson(Case)>>)

Laws ==
  Done =>
  \A ord \in Ords :
    CASE Mode = "arrays" ->
           LET es == Elems(s) IN
           /\ TagsArePositions(es)
           /\ LawSortFull(ord, es, PermBound)
           /\ LawUniqFull(ord, es) /\ LawUniqFull(ord, Sort(ord, es))
           /\ LawSet(ord, es)
           /\ LawMinMax(ord, es)
           /\ \A oe \in OnEmptyModes :
                 (Extremal("min", ord, es, oe)[1] = "elem") = (es # <<>>)
      [] Mode = "long" ->
           LET es == Elems(s) IN
           /\ TagsArePositions(es)
           /\ LawSortFast(ord, es)
           /\ LawUniqFast(ord, es) /\ LawUniqFast(ord, Sort(ord, es))
           /\ LawSet(ord, es)
           /\ LawMinMax(ord, es)
      [] Mode = "pairs" ->
           LET a == SetElems(ord, s, 0)  b == SetElems(ord, t, 10) IN
           /\ IsSet(ord, a) /\ IsSet(ord, b)
           /\ LawSetOps(ord, a, b)
           /\ LawSet(ord, a \o b)                        \* set of the concatenation = union
           /\ Set(ord, a \o b) = Union(ord, a, b)
           /\ \A x \in 0..(NKeys + 1) : LawMember(ord, <<x, 99>>, a)
      [] Mode = "members" ->
           LET a == SetElems(ord, s, 0) IN
           /\ IsSet(ord, a)
           /\ LawMember(ord, <<par, 99>>, a)
           /\ Member(ord, <<par, 99>>, a) = (par \in s)
=============================================================================
