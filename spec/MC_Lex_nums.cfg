CONSTANTS
  Mode = "bytes"
  Alpha = {48, 49, 57, 46, 101, 69, 43, 45, 95}
  MaxLen = 7
  First = {49}
INIT Init
NEXT Next
INVARIANTS Laws Emit
CHECK_DEADLOCK FALSE
