CONSTANTS Variant = "coded"  Mode = "mc"  MaxCtx = 2  MaxSpan = 2
CONSTANTS CtxLens <- CtxLensFull  StartMags <- StartMagsFull  LenMags <- LenMagsFull  Deltas <- Deltas1
INIT MCInit
NEXT MCNext
INVARIANTS TypeOK EndsExact EndsIncreasing RoundTrip Canonical TableTight EmitScript
CHECK_DEADLOCK FALSE
