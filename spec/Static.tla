------------------------------- MODULE Static -------------------------------
(***************************************************************************)
(* The static well-formedness judgement of Jsonnet (C09): which scoping     *)
(* errors a program has, as a SET of <<kind, name>> - a conforming          *)
(* implementation must reject the program iff the set is non-empty, with    *)
(* one member of the set.  Environment = set of visible variable names +    *)
(* "inside an object" flag, threaded as the language definition says:       *)
(*  - field-name expressions see the scope OUTSIDE the object               *)
(*  - object locals see each other, the other members, self, super, $       *)
(*  - local binds see each other (recursive) ; parameters see each other    *)
(*    (in defaults) ; comprehension variables scope left to right           *)
(* AST as in Sem.tla plus three syntactic forms that only matter here:      *)
(*   <<"callx", f, <<arg..>>>>  arg = <<"pos", e>> | <<"named", x, e>>      *)
(*   <<"import", kw, e>>        kw = "import" | "importstr" | "importbin"   *)
(*   field names <<"strname", cps>> ("a": ..) next to <<"id", x>>, <<"expr", e>> *)
(***************************************************************************)
EXTENDS Integers, Sequences, FiniteSets, TLC

Rng(s) == {s[i] : i \in 1..Len(s)}
Dups(names) == {names[i] : i \in {i \in 1..Len(names) : \E j \in 1..(i-1) : names[j] = names[i]}}

Letter(c) ==
  CASE c = 97 -> "a" [] c = 98 -> "b" [] c = 99 -> "c" [] c = 100 -> "d" [] c = 101 -> "e" [] c = 102 -> "f"
    [] c = 103 -> "g" [] c = 104 -> "h" [] c = 105 -> "i" [] c = 106 -> "j" [] c = 107 -> "k" [] c = 108 -> "l"
    [] c = 109 -> "m" [] c = 110 -> "n" [] c = 111 -> "o" [] c = 112 -> "p" [] c = 113 -> "q" [] c = 114 -> "r"
    [] c = 115 -> "s" [] c = 116 -> "t" [] c = 117 -> "u" [] c = 118 -> "v" [] c = 119 -> "w" [] c = 120 -> "x"
    [] c = 121 -> "y" [] c = 122 -> "z" [] OTHER -> "?"

RECURSIVE SE(_, _, _)
RECURSIVE SESeq(_, _, _)
RECURSIVE SESpecs(_, _, _)

SESeq(es, vars, io) == UNION {SE(es[i], vars, io) : i \in 1..Len(es)}

\* comprehension clauses: returns <<errors, vars after all clauses>>
SESpecs(specs, vars, io) ==
  IF specs = <<>> THEN <<{}, vars>>
  ELSE LET s == Head(specs) IN
       IF s[1] = "for"
       THEN LET rest == SESpecs(Tail(specs), vars \cup {s[2]}, io) IN <<SE(s[3], vars, io) \cup rest[1], rest[2]>>
       ELSE LET rest == SESpecs(Tail(specs), vars, io) IN <<SE(s[2], vars, io) \cup rest[1], rest[2]>>

Opt(x, vars, io) == IF x = <<"none">> THEN {} ELSE SE(x, vars, io)

SE(e, vars, io) ==
  CASE e[1] \in {"null", "true", "false", "num", "str"} -> {}
    [] e[1] = "var" -> IF e[2] \in vars THEN {} ELSE {<<"UnknownVariable", e[2]>>}
    [] e[1] = "self" -> IF io THEN {} ELSE {<<"SelfOutsideObject", "">>}
    [] e[1] = "dollar" -> IF io THEN {} ELSE {<<"DollarOutsideObject", "">>}
    [] e[1] = "superf" -> IF io THEN {} ELSE {<<"SuperOutsideObject", "">>}
    [] e[1] \in {"superi", "insuper"} -> (IF io THEN {} ELSE {<<"SuperOutsideObject", "">>}) \cup SE(e[2], vars, io)
    [] e[1] = "local" ->
         LET names == [i \in 1..Len(e[2]) |-> e[2][i][1]]
             v2 == vars \cup Rng(names) IN
         {<<"RepeatedLocalName", n>> : n \in Dups(names)}
           \cup UNION {SE(e[2][i][2], v2, io) : i \in 1..Len(e[2])} \cup SE(e[3], v2, io)
    [] e[1] = "if" -> SE(e[2], vars, io) \cup SE(e[3], vars, io) \cup SE(e[4], vars, io)
    [] e[1] = "if2" -> SE(e[2], vars, io) \cup SE(e[3], vars, io)
    [] e[1] = "bin" -> SE(e[3], vars, io) \cup SE(e[4], vars, io)
    [] e[1] = "un" -> SE(e[3], vars, io)
    [] e[1] = "arr" -> SESeq(e[2], vars, io)
    [] e[1] = "index" -> SE(e[2], vars, io) \cup SE(e[3], vars, io)
    [] e[1] = "field" -> SE(e[2], vars, io)
    [] e[1] = "slice" -> SE(e[2], vars, io) \cup Opt(e[3], vars, io) \cup Opt(e[4], vars, io) \cup Opt(e[5], vars, io)
    [] e[1] = "func" ->
         LET names == [i \in 1..Len(e[2]) |-> e[2][i][1]]
             v2 == vars \cup Rng(names) IN
         {<<"RepeatedParamName", n>> : n \in Dups(names)}
           \cup UNION {Opt(IF e[2][i][2] = <<"nodef">> THEN <<"none">> ELSE e[2][i][2], v2, io) : i \in 1..Len(e[2])}
           \cup SE(e[3], v2, io)
    [] e[1] = "call" ->
         SE(e[2], vars, io) \cup SESeq(e[3], vars, io) \cup UNION {SE(e[4][i][2], vars, io) : i \in 1..Len(e[4])}
    [] e[1] = "callx" ->
         LET args == e[3]
             bad == \E i, j \in 1..Len(args) : i < j /\ args[i][1] = "named" /\ args[j][1] = "pos" IN
         (IF bad THEN {<<"PositionalArgAfterNamed", "">>} ELSE {})
           \cup SE(e[2], vars, io)
           \cup UNION {SE(IF args[i][1] = "pos" THEN args[i][2] ELSE args[i][3], vars, io) : i \in 1..Len(args)}
    [] e[1] = "obj" ->
         LET ms == e[2]
             locs == SelectSeq(ms, LAMBDA m : m[1] = "olocal")
             lnames == [i \in 1..Len(locs) |-> locs[i][2]]
             flds == SelectSeq(ms, LAMBDA m : m[1] = "fld")
             static == SelectSeq(flds, LAMBDA m : m[2][1] \in {"id", "strname"})
             snames == [i \in 1..Len(static) |->
                          IF static[i][2][1] = "id" THEN static[i][2][2]
                          ELSE IF Len(static[i][2][2]) = 1 THEN Letter(static[i][2][2][1]) ELSE "?long"]
             v2 == vars \cup Rng(lnames)
             member(m) ==
               CASE m[1] = "fld" -> (IF m[2][1] = "expr" THEN SE(m[2][2], vars, io) ELSE {}) \cup SE(m[5], v2, TRUE)
                 [] m[1] = "olocal" -> SE(m[3], v2, TRUE)
                 [] m[1] = "oassert" -> SE(m[2], v2, TRUE) \cup Opt(m[3], v2, TRUE) IN
         {<<"RepeatedLocalName", n>> : n \in Dups(lnames)}
           \cup {<<"RepeatedFieldName", n>> : n \in Dups(snames)}
           \cup UNION {member(ms[i]) : i \in 1..Len(ms)}
    [] e[1] = "objcomp" ->
         LET sp == SESpecs(e[5], vars, io)
             lnames == [i \in 1..Len(e[4]) |-> e[4][i][2]]
             v2 == sp[2] \cup Rng(lnames) IN
         sp[1] \cup SE(e[2], sp[2], io) \cup SE(e[3], v2, TRUE)
           \cup {<<"RepeatedLocalName", n>> : n \in Dups(lnames)}
           \cup UNION {SE(e[4][i][3], v2, TRUE) : i \in 1..Len(e[4])}
    [] e[1] = "arrcomp" ->
         LET sp == SESpecs(e[3], vars, io) IN sp[1] \cup SE(e[2], sp[2], io)
    [] e[1] = "error" -> SE(e[2], vars, io)
    [] e[1] = "assert" -> SE(e[2], vars, io) \cup Opt(e[3], vars, io) \cup SE(e[4], vars, io)
    [] e[1] = "std" -> SESeq(e[3], vars, io)
    [] e[1] = "import" ->
         IF e[3][1] = "str" THEN {}
         ELSE IF e[3][1] = "textblock" THEN {<<"TextBlockAsImportPath", "">>}
         ELSE {<<"ComputedImportPath", "">>} \cup SE(e[3], vars, io)
    [] e[1] = "textblock" -> {}

StaticErrors(e) == SE(e, {"std"}, FALSE)
=============================================================================
