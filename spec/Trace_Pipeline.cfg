INIT Init2
NEXT Next2
POSTCONDITION Accepted
CHECK_DEADLOCK FALSE
