-------------------------------- MODULE Lex --------------------------------
(* C14 - the Jsonnet lexical grammar as a reference.                         *)
(*                                                                           *)
(*  Part 1  UTF-8 (Unicode Table 3-7, maximal-subpart replacement)           *)
(*  Part 2  Lex(bytes): the reference tokenizer (whole lexical grammar)      *)
(*  Part 3  the generator/printer: token items with their spellings and the  *)
(*          value the grammar assigns; PrintItems / Expect of item sequences *)
(*  Part 4  laws                                                             *)
(*                                                                           *)
(* Input = sequence of bytes 0..255.  Offsets in tokens are 0-based byte     *)
(* offsets, half open [s, e).  A token is [kind, val, exp, s, e]:            *)
(*   kind  "EndOfFile" "Whitespace" "Comment" "Ident" "Number" "String"      *)
(*         "TextBlock" "OtherOp" or the name of a keyword / symbol           *)
(*   val   Ident, OtherOp: the bytes; String, TextBlock: the code points;    *)
(*         Number: the decimal digits (ASCII codes); else << >>              *)
(*   exp   Number: value = digits * 10^exp; else 0                           *)
(* Written from the Jsonnet specification (section "Lexing"), JSON's number  *)
(* grammar and the Unicode standard - not from the implementation.           *)
EXTENDS Integers, Sequences, FiniteSets, TLC

EOFB == 256                       \* what At returns beyond the end
At(b, i) == IF i >= 1 /\ i <= Len(b) THEN b[i] ELSE EOFB

RECURSIVE SkipWhile(_, _, _)
SkipWhile(b, i, S) == IF i <= Len(b) /\ b[i] \in S THEN SkipWhile(b, i + 1, S) ELSE i

StartsWith(b, i, p) == /\ i + Len(p) - 1 <= Len(b)
                       /\ \A k \in 1..Len(p) : b[i + k - 1] = p[k]

RECURSIVE Flatten(_)
Flatten(ss) == IF ss = <<>> THEN <<>> ELSE Head(ss) \o Flatten(Tail(ss))

(***************************************************************************)
(* Part 1: UTF-8                                                           *)
(***************************************************************************)
REPL == 65533
IsCont(x) == x >= 128 /\ x <= 191

\* One decoding unit at i: a well-formed sequence (Unicode Table 3-7) or a
\* maximal subpart of an ill-formed one (Unicode 3.9, U+FFFD substitution).
Unit(b, i) ==
  LET b0 == At(b, i)  b1 == At(b, i + 1)  b2 == At(b, i + 2)  b3 == At(b, i + 3)
      Bad(n) == [n |-> n, cp |-> REPL, ok |-> FALSE]
  IN  IF b0 < 128 THEN [n |-> 1, cp |-> b0, ok |-> TRUE]
      ELSE IF b0 >= 194 /\ b0 <= 223 THEN
        IF IsCont(b1) THEN [n |-> 2, cp |-> (b0 - 192) * 64 + (b1 - 128), ok |-> TRUE] ELSE Bad(1)
      ELSE IF b0 >= 224 /\ b0 <= 239 THEN
        LET lo == IF b0 = 224 THEN 160 ELSE 128
            hi == IF b0 = 237 THEN 159 ELSE 191
        IN  IF b1 >= lo /\ b1 <= hi
            THEN IF IsCont(b2)
                 THEN [n |-> 3, cp |-> (b0 - 224) * 4096 + (b1 - 128) * 64 + (b2 - 128), ok |-> TRUE]
                 ELSE Bad(2)
            ELSE Bad(1)
      ELSE IF b0 >= 240 /\ b0 <= 244 THEN
        LET lo == IF b0 = 240 THEN 144 ELSE 128
            hi == IF b0 = 244 THEN 143 ELSE 191
        IN  IF b1 >= lo /\ b1 <= hi
            THEN IF IsCont(b2)
                 THEN IF IsCont(b3)
                      THEN [n |-> 4, cp |-> (b0 - 240) * 262144 + (b1 - 128) * 4096
                                             + (b2 - 128) * 64 + (b3 - 128), ok |-> TRUE]
                      ELSE Bad(3)
                 ELSE Bad(2)
            ELSE Bad(1)
      ELSE Bad(1)

RECURSIVE Utf8LossyFrom(_, _, _)
Utf8LossyFrom(b, i, acc) ==
  IF i > Len(b) THEN acc
  ELSE LET u == Unit(b, i) IN Utf8LossyFrom(b, i + u.n, Append(acc, u.cp))
Utf8Lossy(b) == Utf8LossyFrom(b, 1, <<>>)

IsScalar(cp) == cp >= 0 /\ cp <= 1114111 /\ ~(cp >= 55296 /\ cp <= 57343)
Utf8Enc(cp) ==
  IF cp < 128 THEN <<cp>>
  ELSE IF cp < 2048 THEN <<192 + (cp \div 64), 128 + (cp % 64)>>
  ELSE IF cp < 65536 THEN <<224 + (cp \div 4096), 128 + ((cp \div 64) % 64), 128 + (cp % 64)>>
  ELSE <<240 + (cp \div 262144), 128 + ((cp \div 4096) % 64), 128 + ((cp \div 64) % 64), 128 + (cp % 64)>>
Utf8EncSeq(cps) == Flatten([k \in 1..Len(cps) |-> Utf8Enc(cps[k])])

(***************************************************************************)
(* Part 2: the reference tokenizer                                         *)
(***************************************************************************)
Tok(k, v, x, s, e) == [kind |-> k, val |-> v, exp |-> x, s |-> s, e |-> e]

WsBytes    == {32, 9, 10, 13}
Digits     == 48..57
IdStart    == {95} \cup (97..122) \cup (65..90)
IdChars    == IdStart \cup Digits
OpChars    == {33, 36, 58, 126, 43, 45, 38, 124, 94, 61, 60, 62, 42, 47, 37}   \* !$:~+-&|^=<>*/%
NoEndChars == {43, 45, 126, 33, 36}                                             \* + - ~ ! $

OpTable == <<
    <<<<58>>, "Colon">>, <<<<58, 58>>, "ColonColon">>, <<<<58, 58, 58>>, "ColonColonColon">>,
    <<<<43, 58>>, "PlusColon">>, <<<<43, 58, 58>>, "PlusColonColon">>,
    <<<<43, 58, 58, 58>>, "PlusColonColonColon">>,
    <<<<61>>, "Eq">>, <<<<36>>, "Dollar">>, <<<<42>>, "Asterisk">>, <<<<47>>, "Slash">>,
    <<<<37>>, "Percent">>, <<<<43>>, "Plus">>, <<<<45>>, "Minus">>, <<<<60, 60>>, "LtLt">>,
    <<<<62, 62>>, "GtGt">>, <<<<60>>, "Lt">>, <<<<60, 61>>, "LtEq">>, <<<<62>>, "Gt">>,
    <<<<62, 61>>, "GtEq">>, <<<<61, 61>>, "EqEq">>, <<<<33, 61>>, "ExclamEq">>, <<<<38>>, "Amp">>,
    <<<<94>>, "Hat">>, <<<<124>>, "Pipe">>, <<<<38, 38>>, "AmpAmp">>, <<<<124, 124>>, "PipePipe">>,
    <<<<33>>, "Exclam">>, <<<<126>>, "Tilde">> >>
KwTable == <<
    <<<<97, 115, 115, 101, 114, 116>>, "Assert">>, <<<<101, 108, 115, 101>>, "Else">>,
    <<<<101, 114, 114, 111, 114>>, "Error">>, <<<<102, 97, 108, 115, 101>>, "False">>,
    <<<<102, 111, 114>>, "For">>, <<<<102, 117, 110, 99, 116, 105, 111, 110>>, "Function">>,
    <<<<105, 102>>, "If">>, <<<<105, 109, 112, 111, 114, 116>>, "Import">>,
    <<<<105, 109, 112, 111, 114, 116, 115, 116, 114>>, "Importstr">>,
    <<<<105, 109, 112, 111, 114, 116, 98, 105, 110>>, "Importbin">>, <<<<105, 110>>, "In">>,
    <<<<108, 111, 99, 97, 108>>, "Local">>, <<<<110, 117, 108, 108>>, "Null">>,
    <<<<116, 97, 105, 108, 115, 116, 114, 105, 99, 116>>, "Tailstrict">>,
    <<<<116, 104, 101, 110>>, "Then">>, <<<<115, 101, 108, 102>>, "Self_">>,
    <<<<115, 117, 112, 101, 114>>, "Super">>, <<<<116, 114, 117, 101>>, "True">> >>
PunctTable == <<
    <<<<123>>, "LeftBrace">>, <<<<125>>, "RightBrace">>, <<<<91>>, "LeftBracket">>,
    <<<<93>>, "RightBracket">>, <<<<44>>, "Comma">>, <<<<46>>, "Dot">>, <<<<40>>, "LeftParen">>,
    <<<<41>>, "RightParen">>, <<<<59>>, "Semicolon">> >>
PunctBytes == {PunctTable[k][1][1] : k \in 1..Len(PunctTable)}

Lookup(tab, sp, dflt) ==
  IF \E k \in 1..Len(tab) : tab[k][1] = sp
  THEN tab[CHOOSE k \in 1..Len(tab) : tab[k][1] = sp][2] ELSE dflt
OpKind(sp)    == Lookup(OpTable, sp, "OtherOp")
IdentKind(sp) == Lookup(KwTable, sp, "Ident")
PunctKind(sp) == Lookup(PunctTable, sp, "?")
FixedTable == OpTable \o KwTable \o PunctTable
SpellingOf(kind) ==     \* inverse of the three tables (keywords and symbols)
  FixedTable[CHOOSE k \in 1..Len(FixedTable) : FixedTable[k][2] = kind][1]

\* result of scanning one token
TokRes(t, nxt) == [st |-> "tok", tok |-> t, nxt |-> nxt, cls |-> ""]
ErrRes(cls)    == [st |-> "err", tok |-> Tok("", <<>>, 0, 0, 0), nxt |-> 0, cls |-> cls]
OutRes         == [st |-> "outside", tok |-> Tok("", <<>>, 0, 0, 0), nxt |-> 0, cls |-> ""]

------------------------------------------------------------------------------
\* comments
RECURSIVE FindByte(_, _, _)
FindByte(b, i, x) == IF i > Len(b) \/ b[i] = x THEN i ELSE FindByte(b, i + 1, x)

\* "# ..." / "// ...": to the end of the line, the line terminator included
LineComment(b, i) ==
  LET j == FindByte(b, i, 10)
      n == IF j > Len(b) THEN j ELSE j + 1
  IN  TokRes(Tok("Comment", <<>>, 0, i - 1, n - 1), n)

RECURSIVE FindStarSlash(_, _)
FindStarSlash(b, i) == IF i + 1 > Len(b) THEN 0
                       ELSE IF b[i] = 42 /\ b[i + 1] = 47 THEN i ELSE FindStarSlash(b, i + 1)
BlockComment(b, i) ==
  LET j == FindStarSlash(b, i + 2)
  IN  IF j = 0 THEN ErrRes("comment") ELSE TokRes(Tok("Comment", <<>>, 0, i - 1, j + 1), j + 2)

------------------------------------------------------------------------------
\* operators: the longest run of operator characters, terminated before a
\* "//", "/*" or "|||" that starts inside it, then shortened while it has more
\* than one character and ends in + - ~ ! $
Forbidden(b, j) == \/ At(b, j) = 47 /\ At(b, j + 1) \in {47, 42}
                   \/ At(b, j) = 124 /\ At(b, j + 1) = 124 /\ At(b, j + 2) = 124
RECURSIVE OpCut(_, _, _)
OpCut(b, j, r) == IF j >= r \/ Forbidden(b, j) THEN j ELSE OpCut(b, j + 1, r)   \* first forbidden start in [j, r) or r
RECURSIVE OpTrim(_, _, _)
OpTrim(b, i, e) == IF e - i > 1 /\ b[e - 1] \in NoEndChars THEN OpTrim(b, i, e - 1) ELSE e
Operator(b, i) ==
  LET r  == SkipWhile(b, i, OpChars)
      c  == OpCut(b, i + 1, r)
      e  == OpTrim(b, i, c)           \* token = b[i .. e-1]
      sp == SubSeq(b, i, e - 1)
      k  == OpKind(sp)
  IN  TokRes(Tok(k, IF k = "OtherOp" THEN sp ELSE <<>>, 0, i - 1, e - 1), e)

------------------------------------------------------------------------------
\* identifiers and keywords
Identifier(b, i) ==
  LET e  == SkipWhile(b, i, IdChars)
      sp == SubSeq(b, i, e - 1)
      k  == IdentKind(sp)
  IN  TokRes(Tok(k, IF k = "Ident" THEN sp ELSE <<>>, 0, i - 1, e - 1), e)

------------------------------------------------------------------------------
\* numbers: JSON's grammar without the minus sign, "_" allowed between two
\* digits of the integer, fraction and exponent parts.  Scanning is committed:
\* after ".", "e", "E", a sign or "_" a digit must follow.
\* value = digits * 10^exp, digits = integer digits then fraction digits.
IsDigit(x) == x >= 48 /\ x <= 57
RECURSIVE DigitGroup(_, _, _)     \* b[i] is a digit
DigitGroup(b, i, acc) ==
  LET a == Append(acc, b[i]) IN
  IF IsDigit(At(b, i + 1)) THEN DigitGroup(b, i + 1, a)
  ELSE IF At(b, i + 1) = 95
       THEN IF IsDigit(At(b, i + 2)) THEN DigitGroup(b, i + 2, a)
            ELSE [ds |-> a, nxt |-> i + 1, bad |-> TRUE]
       ELSE [ds |-> a, nxt |-> i + 1, bad |-> FALSE]
NoGroup(i) == [ds |-> <<>>, nxt |-> i, bad |-> FALSE]

RECURSIVE DecValue(_, _)
DecValue(ds, acc) == IF ds = <<>> THEN acc ELSE DecValue(Tail(ds), (acc * 10) + (Head(ds) - 48))
MaxExpDigits == 6                 \* longer exponents: outside the exact domain of TLC integers

Number(b, i) ==
  IF b[i] = 48 /\ (IsDigit(At(b, i + 1)) \/ At(b, i + 1) = 95)
  THEN OutRes      \* the integer part "0" is complete: the grammar continues with another token,
                   \* which no program can contain; lexer error or parser error is not decided
  ELSE
  LET ip == IF b[i] = 48 THEN [ds |-> <<48>>, nxt |-> i + 1, bad |-> FALSE] ELSE DigitGroup(b, i, <<>>)
      j  == ip.nxt
      hasF == At(b, j) = 46
      fOk  == hasF /\ IsDigit(At(b, j + 1))
      fp == IF fOk THEN DigitGroup(b, j + 1, <<>>) ELSE NoGroup(j)
      k  == fp.nxt
      hasE == At(b, k) \in {101, 69}
      sgn  == IF At(b, k + 1) = 45 THEN -1 ELSE 1
      k2   == IF At(b, k + 1) \in {43, 45} THEN k + 2 ELSE k + 1
      eOk  == hasE /\ IsDigit(At(b, k2))
      ep == IF eOk THEN DigitGroup(b, k2, <<>>) ELSE NoGroup(k)
      e  == ep.nxt
  IN  IF ip.bad THEN ErrRes("number")
      ELSE IF hasF /\ ~fOk THEN ErrRes("number")
      ELSE IF fp.bad THEN ErrRes("number")
      ELSE IF hasE /\ ~eOk THEN ErrRes("number")
      ELSE IF ep.bad THEN ErrRes("number")
      ELSE IF Len(ep.ds) > MaxExpDigits THEN OutRes
      ELSE TokRes(Tok("Number", ip.ds \o fp.ds, sgn * DecValue(ep.ds, 0) - Len(fp.ds), i - 1, e - 1), e)

------------------------------------------------------------------------------
\* quoted strings
HexVal(x) == IF x >= 48 /\ x <= 57 THEN x - 48
             ELSE IF x >= 97 /\ x <= 102 THEN x - 87
             ELSE IF x >= 65 /\ x <= 70 THEN x - 55 ELSE -1
Hex4Ok(b, i) == \A k \in 0..3 : HexVal(At(b, i + k)) >= 0
Hex4(b, i) == HexVal(b[i]) * 4096 + HexVal(b[i + 1]) * 256 + HexVal(b[i + 2]) * 16 + HexVal(b[i + 3])
IsHighSur(x) == x >= 55296 /\ x <= 56319
IsLowSur(x)  == x >= 56320 /\ x <= 57343
SimpleEscape(c) ==       \* the character an escape letter denotes, or -1
  CASE c = 34 -> 34 [] c = 39 -> 39 [] c = 92 -> 92 [] c = 47 -> 47 [] c = 98 -> 8
    [] c = 102 -> 12 [] c = 110 -> 10 [] c = 114 -> 13 [] c = 116 -> 9 [] OTHER -> -1

RECURSIVE Quoted(_, _, _, _, _)
Quoted(b, i0, i, d, acc) ==
  IF i > Len(b) THEN ErrRes("string")
  ELSE IF b[i] = d THEN TokRes(Tok("String", acc, 0, i0 - 1, i), i + 1)
  ELSE IF b[i] = 92 THEN
    LET c == At(b, i + 1) IN
    IF SimpleEscape(c) >= 0 THEN Quoted(b, i0, i + 2, d, Append(acc, SimpleEscape(c)))
    ELSE IF c = 117 THEN
      IF ~Hex4Ok(b, i + 2) THEN ErrRes("string")
      ELSE LET cu1 == Hex4(b, i + 2) IN
        IF IsHighSur(cu1) THEN
          IF At(b, i + 6) = 92 /\ At(b, i + 7) = 117 /\ Hex4Ok(b, i + 8) /\ IsLowSur(Hex4(b, i + 8))
          THEN Quoted(b, i0, i + 12, d,
                      Append(acc, 65536 + (cu1 - 55296) * 1024 + (Hex4(b, i + 8) - 56320)))
          ELSE ErrRes("string")             \* lone high surrogate
        ELSE IF IsLowSur(cu1) THEN ErrRes("string")
        ELSE Quoted(b, i0, i + 6, d, Append(acc, cu1))
    ELSE ErrRes("string")                   \* unknown escape, or end of input
  ELSE LET u == Unit(b, i) IN Quoted(b, i0, i + u.n, d, Append(acc, u.cp))

RECURSIVE Verbatim(_, _, _, _, _)
Verbatim(b, i0, i, d, acc) ==
  IF i > Len(b) THEN ErrRes("string")
  ELSE IF b[i] = d THEN
    IF At(b, i + 1) = d THEN Verbatim(b, i0, i + 2, d, Append(acc, d))
    ELSE TokRes(Tok("String", acc, 0, i0 - 1, i), i + 1)
  ELSE LET u == Unit(b, i) IN Verbatim(b, i0, i + u.n, d, Append(acc, u.cp))

------------------------------------------------------------------------------
\* text blocks
\*   ||| [-] optional-whitespace newline, empty lines, first line with the
\*   non-empty whitespace prefix W; then lines that start with W (prefix removed)
\*   or are empty; ended by the first other line, which must be
\*   optional-whitespace |||.  Line endings (LF / CRLF) are preserved. "-" removes
\*   the final newline.
RECURSIVE TbBlank(_, _, _)        \* consume empty lines ("\n" or "\r\n")
TbBlank(b, i, acc) ==
  IF At(b, i) = 10 THEN TbBlank(b, i + 1, Append(acc, 10))
  ELSE IF At(b, i) = 13 /\ At(b, i + 1) = 10 THEN TbBlank(b, i + 2, acc \o <<13, 10>>)
  ELSE [i |-> i, acc |-> acc]

TbFinish(b, i0, e, chomp, acc) ==
  IF chomp
  THEN IF Len(acc) >= 2 /\ acc[Len(acc) - 1] = 13 THEN OutRes   \* "-" after CRLF: not decided
       ELSE TokRes(Tok("TextBlock", SubSeq(acc, 1, Len(acc) - 1), 0, i0 - 1, e - 1), e)
  ELSE TokRes(Tok("TextBlock", acc, 0, i0 - 1, e - 1), e)

RECURSIVE TbContent(_, _, _, _, _, _)
TbContent(b, i0, i, W, chomp, acc) ==       \* inside a line, after W
  IF i > Len(b) THEN ErrRes("textblock")
  ELSE IF b[i] = 10 THEN
    LET bl == TbBlank(b, i + 1, Append(acc, 10)) IN
    IF StartsWith(b, bl.i, W) THEN TbContent(b, i0, bl.i + Len(W), W, chomp, bl.acc)
    ELSE LET k == SkipWhile(b, bl.i, {32, 9}) IN
         IF StartsWith(b, k, <<124, 124, 124>>) THEN TbFinish(b, i0, k + 3, chomp, bl.acc)
         ELSE ErrRes("textblock")
  ELSE LET u == Unit(b, i) IN TbContent(b, i0, i + u.n, W, chomp, Append(acc, u.cp))

TextBlock(b, i) ==
  LET chomp == At(b, i + 3) = 45
      j1 == IF chomp THEN i + 4 ELSE i + 3
      j2 == SkipWhile(b, j1, {32, 9, 13})
  IN  IF At(b, j2) # 10 THEN ErrRes("textblock")
      ELSE LET bl == TbBlank(b, j2 + 1, <<>>)
               we == SkipWhile(b, bl.i, {32, 9})
               W  == SubSeq(b, bl.i, we - 1)
           IN  IF W = <<>> THEN ErrRes("textblock")
               ELSE TbContent(b, i, we, W, chomp, bl.acc)

------------------------------------------------------------------------------
Next1(b, i) ==
  LET c == b[i] IN
  IF c \in PunctBytes THEN TokRes(Tok(PunctKind(<<c>>), <<>>, 0, i - 1, i), i + 1)
  ELSE IF c \in WsBytes THEN
    LET e == SkipWhile(b, i, WsBytes) IN TokRes(Tok("Whitespace", <<>>, 0, i - 1, e - 1), e)
  ELSE IF c = 35 THEN LineComment(b, i)
  ELSE IF c = 47 /\ At(b, i + 1) = 47 THEN LineComment(b, i)
  ELSE IF c = 47 /\ At(b, i + 1) = 42 THEN BlockComment(b, i)
  ELSE IF c = 124 /\ At(b, i + 1) = 124 /\ At(b, i + 2) = 124 THEN TextBlock(b, i)
  ELSE IF c \in OpChars THEN Operator(b, i)
  ELSE IF c \in Digits THEN Number(b, i)
  ELSE IF c \in IdStart THEN Identifier(b, i)
  ELSE IF c \in {34, 39} THEN Quoted(b, i, i + 1, c, <<>>)
  ELSE IF c = 64 /\ At(b, i + 1) \in {34, 39} THEN Verbatim(b, i, i + 2, b[i + 1], <<>>)
  ELSE ErrRes("char")

\* Lex(b) = [st |-> "ok", toks] | [st |-> "err", cls, at = offset of the token
\* that cannot be lexed] | [st |-> "outside"]
RECURSIVE LexLoop(_, _, _)
LexLoop(b, i, acc) ==
  IF i > Len(b)
  THEN [st |-> "ok", toks |-> Append(acc, Tok("EndOfFile", <<>>, 0, Len(b), Len(b))), cls |-> "", at |-> 0]
  ELSE LET r == Next1(b, i) IN
       IF r.st = "tok" THEN LexLoop(b, r.nxt, Append(acc, r.tok))
       ELSE [st |-> r.st, toks |-> <<>>, cls |-> r.cls, at |-> i - 1]
Lex(b) == LexLoop(b, 1, <<>>)

IsTrivia(t) == t.kind \in {"Whitespace", "Comment"}
Strip(toks) == SelectSeq(toks, LAMBDA t : ~IsTrivia(t))      \* what lex_to_eof(false) must give

(***************************************************************************)
(* Part 3: generator / printer.  An item is one token with one of its      *)
(* spellings: [kind, val, exp, sp, cat]; cat is the lexical category that   *)
(* decides what may follow without a separator.                            *)
(***************************************************************************)
Item(k, v, x, sp, cat) == [kind |-> k, val |-> v, exp |-> x, sp |-> sp, cat |-> cat]
Last(s) == s[Len(s)]

IdentItem(name) == LET k == IdentKind(name)
                   IN  Item(k, IF k = "Ident" THEN name ELSE <<>>, 0, name, "id")
PunctItem(c) == Item(PunctKind(<<c>>), <<>>, 0, <<c>>, "punct")
WsItem(sp)   == Item("Whitespace", <<>>, 0, sp, "ws")

\* a legal operator spelling, stated declaratively
IsOpSpelling(sp) == /\ Len(sp) >= 1
                    /\ \A k \in 1..Len(sp) : sp[k] \in OpChars
                    /\ ~\E k \in 1..Len(sp) : Forbidden(sp, k)
                    /\ (Len(sp) > 1 => Last(sp) \notin NoEndChars)
OpItem(sp) == LET k == OpKind(sp) IN Item(k, IF k = "OtherOp" THEN sp ELSE <<>>, 0, sp, "op")

\* numbers: d = [ip, fp, el, es, ep]; ip/fp/ep are sequences of digit groups
\* (joined by "_"), fp = <<>> for no fraction, el = 0 | 101 | 69, es = 0 | 43 | 45
JoinU(gs) == IF gs = <<>> THEN <<>>
             ELSE gs[1] \o Flatten([k \in 1..(Len(gs) - 1) |-> <<95>> \o gs[k + 1]])
NumSp(d) == JoinU(d.ip)
            \o (IF d.fp # <<>> THEN <<46>> \o JoinU(d.fp) ELSE <<>>)
            \o (IF d.el # 0 THEN <<d.el>> \o (IF d.es # 0 THEN <<d.es>> ELSE <<>>) \o JoinU(d.ep) ELSE <<>>)
NumOk(d) == /\ d.ip # <<>> /\ \A k \in 1..Len(d.ip) : d.ip[k] # <<>>
            /\ \A k \in 1..Len(d.fp) : d.fp[k] # <<>>
            /\ (d.ip[1][1] = 48 => d.ip = << <<48>> >>)
            /\ (d.el = 0 <=> d.ep = <<>>) /\ \A k \in 1..Len(d.ep) : d.ep[k] # <<>>
            /\ (d.el = 0 => d.es = 0)
NumItem(d) == Item("Number", Flatten(d.ip) \o Flatten(d.fp),
                   (IF d.es = 45 THEN -1 ELSE 1) * DecValue(Flatten(d.ep), 0) - Len(Flatten(d.fp)),
                   NumSp(d), "num")

\* quoted strings: elements [t, cp, up]
HexDigit(n, up) == IF n < 10 THEN 48 + n ELSE (IF up THEN 55 ELSE 87) + n
Hex4Sp(n, up) == <<HexDigit(n \div 4096, up), HexDigit((n \div 256) % 16, up),
                   HexDigit((n \div 16) % 16, up), HexDigit(n % 16, up)>>
ElemSp(el) ==
  CASE el.t = "raw"  -> Utf8Enc(el.cp)
    [] el.t = "esc"  -> <<92, el.cp>>
    [] el.t = "u4"   -> <<92, 117>> \o Hex4Sp(el.cp, el.up)
    [] el.t = "pair" -> LET v == el.cp - 65536
                        IN  <<92, 117>> \o Hex4Sp(55296 + (v \div 1024), el.up)
                            \o <<92, 117>> \o Hex4Sp(56320 + (v % 1024), el.up)
ElemVal(el) == IF el.t = "esc" THEN SimpleEscape(el.cp) ELSE el.cp
ElemOk(el, d) ==
  CASE el.t = "raw"  -> IsScalar(el.cp) /\ el.cp # d /\ el.cp # 92
    [] el.t = "esc"  -> SimpleEscape(el.cp) >= 0
    [] el.t = "u4"   -> el.cp >= 0 /\ el.cp < 65536 /\ ~IsHighSur(el.cp) /\ ~IsLowSur(el.cp)
    [] el.t = "pair" -> el.cp >= 65536 /\ el.cp <= 1114111
Raw(cp) == [t |-> "raw", cp |-> cp, up |-> FALSE]
Esc(c)  == [t |-> "esc", cp |-> c, up |-> FALSE]
U4(cp, up)   == [t |-> "u4", cp |-> cp, up |-> up]
Pair(cp, up) == [t |-> "pair", cp |-> cp, up |-> up]
QuotedItem(d, els) ==
  Item("String", [k \in 1..Len(els) |-> ElemVal(els[k])], 0,
       <<d>> \o Flatten([k \in 1..Len(els) |-> ElemSp(els[k])]) \o <<d>>, "str")
VerbItem(d, cps) ==
  Item("String", cps, 0,
       <<64, d>> \o Flatten([k \in 1..Len(cps) |-> IF cps[k] = d THEN <<d, d>> ELSE Utf8Enc(cps[k])]) \o <<d>>,
       "str")

\* text blocks: d = [chomp, hws, lead, W, lines, tws]
\*   hws   bytes between "|||"/"|||-" and the newline (space, tab, CR)
\*   lead  empty lines before the first line: sequence of BOOLEAN (TRUE = CRLF)
\*   lines sequence of [e (empty line), txt (code points after W), crlf]
\*   tws   whitespace before the closing "|||"
Eol(crlf) == IF crlf THEN <<13, 10>> ELSE <<10>>
TbLineSp(W, ln)  == IF ln.e THEN Eol(ln.crlf) ELSE W \o Utf8EncSeq(ln.txt) \o Eol(ln.crlf)
TbLineVal(ln)    == IF ln.e THEN Eol(ln.crlf) ELSE ln.txt \o Eol(ln.crlf)
Line(txt, crlf)  == [e |-> FALSE, txt |-> txt, crlf |-> crlf]
EmptyLine(crlf)  == [e |-> TRUE, txt |-> <<>>, crlf |-> crlf]
IsPrefix(p, s)   == Len(p) <= Len(s) /\ SubSeq(s, 1, Len(p)) = p
TbOk(d) == /\ d.W # <<>> /\ \A k \in 1..Len(d.W) : d.W[k] \in {32, 9}
           /\ \A k \in 1..Len(d.hws) : d.hws[k] \in {32, 9, 13}
           /\ \A k \in 1..Len(d.tws) : d.tws[k] \in {32, 9}
           /\ ~IsPrefix(d.W, d.tws)
           /\ d.lines # <<>> /\ ~d.lines[1].e
           /\ (d.lines[1].txt = <<>> \/ d.lines[1].txt[1] \notin {32, 9})
           /\ \A k \in 1..Len(d.lines) : \A m \in 1..Len(d.lines[k].txt) :
                  IsScalar(d.lines[k].txt[m]) /\ d.lines[k].txt[m] \notin {10, 13}
           /\ ~(d.chomp /\ Last(d.lines).crlf)
TbItem(d) ==
  LET raw == Flatten([k \in 1..Len(d.lead) |-> Eol(d.lead[k])])
             \o Flatten([k \in 1..Len(d.lines) |-> TbLineVal(d.lines[k])])
  IN  Item("TextBlock", IF d.chomp THEN SubSeq(raw, 1, Len(raw) - 1) ELSE raw, 0,
           <<124, 124, 124>> \o (IF d.chomp THEN <<45>> ELSE <<>>) \o d.hws \o <<10>>
           \o Flatten([k \in 1..Len(d.lead) |-> Eol(d.lead[k])])
           \o Flatten([k \in 1..Len(d.lines) |-> TbLineSp(d.W, d.lines[k])])
           \o d.tws \o <<124, 124, 124>>, "tb")

\* comments: intro = <<35>> or <<47, 47>>; body without LF; nl = terminated by LF
LineCommentItem(intro, body, nl) ==
  Item("Comment", <<>>, 0, intro \o body \o (IF nl THEN <<10>> ELSE <<>>), IF nl THEN "lcom" ELSE "lcomeof")
BlockBodyOk(body) == LET x == body \o <<42, 47>>
                     IN  ~\E k \in 1..Len(body) : x[k] = 42 /\ x[k + 1] = 47
BlockCommentItem(body) == Item("Comment", <<>>, 0, <<47, 42>> \o body \o <<42, 47>>, "bcom")

\* may b follow a directly?
Abut(a, b) ==
  /\ a.cat # "lcomeof"
  /\ ~(a.cat = "ws" /\ b.cat = "ws")
  /\ (a.cat = "id"  => b.cat \notin {"id", "num"})
  /\ (a.cat = "num" => b.cat \notin {"id", "num"} /\ b.sp # <<46>>)
  /\ (a.cat = "str" /\ a.sp[1] = 64 => b.sp[1] # a.sp[2])   \* verbatim: a doubled quote would continue it
  /\ (a.cat = "op"  =>
        CASE b.cat = "op" -> FALSE
          [] b.cat = "tb" -> Last(a.sp) # 124
          [] b.cat \in {"bcom", "lcom", "lcomeof"} /\ b.sp[1] = 47 -> Last(a.sp) # 47
          [] OTHER -> TRUE)
SeqOk(items) == \A k \in 1..(Len(items) - 1) : Abut(items[k], items[k + 1])

PrintItems(items) == Flatten([k \in 1..Len(items) |-> items[k].sp])
RECURSIVE ExpectFrom(_, _, _)
ExpectFrom(items, off, acc) ==
  IF items = <<>> THEN Append(acc, Tok("EndOfFile", <<>>, 0, off, off))
  ELSE LET it == Head(items)
       IN  ExpectFrom(Tail(items), off + Len(it.sp),
                      Append(acc, Tok(it.kind, it.val, it.exp, off, off + Len(it.sp))))
Expect(items) == ExpectFrom(items, 0, <<>>)

(***************************************************************************)
(* Part 4: laws                                                            *)
(***************************************************************************)
Tiles(toks, n) ==
  /\ Len(toks) >= 1 /\ toks[1].s = 0
  /\ \A k \in 1..(Len(toks) - 1) : /\ toks[k].e = toks[k + 1].s
                                   /\ toks[k].s < toks[k].e
                                   /\ toks[k].kind # "EndOfFile"
  /\ Last(toks).kind = "EndOfFile" /\ Last(toks).s = n /\ Last(toks).e = n

RECURSIVE NormDigits(_)
NormDigits(ds) == IF Len(ds) > 1 /\ ds[1] = 48 THEN NormDigits(Tail(ds)) ELSE ds
RECURSIVE DecSp(_)
DecSp(n) == IF n < 10 THEN <<48 + n>> ELSE Append(DecSp(n \div 10), 48 + (n % 10))

\* kind and value of a token, spelling-independent
KV(t) == [kind |-> IF t.kind = "TextBlock" THEN "String" ELSE t.kind,
          val  |-> IF t.kind = "Number" THEN NormDigits(t.val) ELSE t.val,
          exp  |-> t.exp]
KVs(toks) == [k \in 1..Len(toks) |-> KV(toks[k])]

\* one canonical spelling per token value
CanonSp(t) ==
  CASE t.kind \in {"Ident", "OtherOp"} -> t.val
    [] t.kind = "Number" -> NormDigits(t.val) \o <<101>> \o (IF t.exp < 0 THEN <<45>> ELSE <<>>)
                            \o DecSp(IF t.exp < 0 THEN -t.exp ELSE t.exp)
    [] t.kind \in {"String", "TextBlock"} ->
         <<34>> \o Flatten([k \in 1..Len(t.val) |->
                      IF t.val[k] < 65536 THEN ElemSp(U4(t.val[k], TRUE)) ELSE ElemSp(Pair(t.val[k], FALSE))])
         \o <<34>>
    [] t.kind = "EndOfFile" -> <<>>
    [] OTHER -> SpellingOf(t.kind)
Reprint(toks) == Flatten([k \in 1..Len(toks) |-> CanonSp(toks[k]) \o <<32>>])

\* laws of an item sequence (generator against tokenizer)
LawSeqR(items, r) ==      \* r = Lex(PrintItems(items))
  LET b  == PrintItems(items)
      ex == Expect(items)
      nt == SelectSeq(items, LAMBDA it : it.cat \notin {"ws", "lcom", "lcomeof", "bcom"})
      r2 == Lex(Flatten([k \in 1..Len(nt) |-> nt[k].sp \o <<32>>]))
  IN  /\ Tiles(ex, Len(b))
      /\ r.st = "ok" /\ r.toks = ex                       \* print, then tokenize: same tokens
      /\ r2.st = "ok" /\ KVs(Strip(r2.toks)) = KVs(Strip(ex))   \* trivia do not change the others

LawSeq(items) == LawSeqR(items, Lex(PrintItems(items)))

\* laws of an arbitrary byte string
LawBytesR(b, r) ==          \* r = Lex(b)
  /\ r.st \in {"ok", "err", "outside"}
  /\ (r.st = "err" => r.at >= 0 /\ r.at < Len(b))
  /\ (r.st = "ok" =>
        /\ Tiles(r.toks, Len(b))
        /\ Len(Strip(r.toks)) >= 1 /\ Last(Strip(r.toks)).kind = "EndOfFile"
        /\ LET r2 == Lex(Reprint(Strip(r.toks)))
           IN  r2.st = "ok" /\ KVs(Strip(r2.toks)) = KVs(Strip(r.toks)))

LawBytes(b) == LawBytesR(b, Lex(b))

\* Stretching.  Inserting k more filler bytes at the start of the body of a comment, of a
\* whitespace run or of a quoted / verbatim string changes nothing but the end of that token and
\* the offsets after it (kinds, number of tokens and the tiling are preserved).  TLC checks it
\* for k = 1, 2 on every case of the item universes; the check then applies it with k around
\* 2^25 (where the packed span representation changes) to the real lexer.
StretchAt(b, t) ==      \* <<0-based insertion offset, filler byte>> or <<>>
  LET c == At(b, t.s + 1) IN
  CASE t.kind = "Whitespace" -> <<t.s, 32>>
    [] t.kind = "Comment" /\ c = 35 -> <<t.s + 1, 97>>
    [] t.kind = "Comment" /\ c = 47 -> <<t.s + 2, 97>>
    [] t.kind = "String" /\ c \in {34, 39} -> <<t.s + 1, 97>>
    [] t.kind = "String" /\ c = 64 -> <<t.s + 2, 97>>
    [] OTHER -> <<>>
Ins(b, at, x, k) == SubSeq(b, 1, at) \o [j \in 1..k |-> x] \o SubSeq(b, at + 1, Len(b))
KS(t) == <<t.kind, t.s, t.e>>
Stretched(toks, j, k) ==
  [m \in 1..Len(toks) |-> IF m < j THEN KS(toks[m])
                          ELSE IF m = j THEN <<toks[m].kind, toks[m].s, toks[m].e + k>>
                          ELSE <<toks[m].kind, toks[m].s + k, toks[m].e + k>>]
LawStretchR(b, r) ==
  r.st = "ok" =>
    \A j \in 1..Len(r.toks) :
      LET p == StretchAt(b, r.toks[j]) IN
      p # <<>> => \A k \in 1..2 :
        LET r2 == Lex(Ins(b, p[1], p[2], k)) IN
        /\ r2.st = "ok"
        /\ [m \in 1..Len(r2.toks) |-> KS(r2.toks[m])] = Stretched(r.toks, j, k)

\* UTF-8 laws
LawScalar(cp) == IsScalar(cp) =>
  LET e == Utf8Enc(cp) u == Unit(e, 1) IN u.ok /\ u.n = Len(e) /\ u.cp = cp /\ Utf8Lossy(e) = <<cp>>
LawLossy(b) ==
  LET v == Utf8Lossy(b) IN
  /\ \A k \in 1..Len(v) : IsScalar(v[k])
  /\ Len(v) <= Len(b)
  /\ ((\A k \in 1..Len(v) : v[k] # REPL) => Utf8EncSeq(v) = b)   \* no replacement => b was well formed
=============================================================================
