CONSTANTS
  Mode = "mut"
  Tier = "thorough"
  Parts = {1, 2, 3, 4, 5, 6, 7, 8, 9, 10, 11, 12, 13, 14, 15, 16}
INIT Init
NEXT Next
INVARIANTS Laws Emit
CHECK_DEADLOCK FALSE
