------------------------------ MODULE MC_Num ------------------------------
(* Universes and case emission for C06.                                     *)
(*   Mode "un"   : every unary operator / builtin on every x of GX          *)
(*   Mode "bin"  : every binary operator / builtin on every pair of GX      *)
(*   Mode "tern" : std.clamp and the triple laws on G^3                     *)
(*   Mode "arr"  : sum / avg / minArray / maxArray / sort / foldl(+) on     *)
(*                 every array of at most MaxLen values of G                *)
(*   Mode "arr4" : the same on every array of exactly 4 values of G4        *)
(*   Mode "arr3s": the same on every array of exactly 3 values of G4        *)
(*   Mode "lit"  : decimal literal shapes                                   *)
(*   Mode "radix": std.parseHex / std.parseOctal of base^k and base^k - 1   *)
EXTENDS Num, Json

CONSTANTS Mode, MaxLen, Extended
VARIABLE cs

Signs == {1, -1}
\* the grid of boundary doubles of the property
G == { Z(s) : s \in Signs }
     \cup { P(s, e) : s \in Signs, e \in {0, 1, -1, -1074, -1022, 1023, 53} }
     \cup { M(s, e) : s \in Signs, e \in {0, 971} }
\* more boundary points for the unary / binary universes: half an ulp of MAX and the value below it,
\* square roots of the overflow / underflow thresholds, the exp threshold, the rad2deg threshold,
\* the predecessor of 1 (the mantissa of 2^53-1)
GX == IF Extended
      THEN G \cup { P(s, e) : s \in Signs, e \in {970, 969, 512, 511, -537, -538, 9, 10, 1018, 1019, 52, 2} }
             \cup { M(s, -53) : s \in Signs }
      ELSE G

\* the values that matter for sums of four: overflow, exact cancellation, absorption
G4 == { Z(1), P(1, 0), P(-1, 0), M(1, 971), M(-1, 971), P(1, 1023), P(-1, 1023), P(1, 970), P(-1, 970), P(1, -1074) }

RECURSIVE SeqsUpTo(_)
SeqsUpTo(n) == IF n = 0 THEN { <<>> }
               ELSE LET prev == SeqsUpTo(n - 1) IN
                    prev \cup { Append(a, x) : a \in { q \in prev : Len(q) = n - 1 }, x \in G }

(* ---- literal shapes ---------------------------------------------------- *)
Counts == {1, 2, 14, 15, 16, 17, 20, 306, 307, 308, 309, 398}
\* integer parts: "0", or d1 [d2] [f^n] with d1 in {1,9}
IntHeads == { <<<<d, 1>>>> : d \in {1, 9} } \cup { <<<<d, 1>>, <<d2, 1>>>> : d \in {1, 9}, d2 \in {0, 1, 9} }
IntParts == { <<<<0, 1>>>> } \cup IntHeads \cup { h \o <<<<f, n>>>> : h \in IntHeads, f \in {0, 1, 9}, n \in Counts }
SmallInts == { <<<<0, 1>>>>, <<<<1, 1>>>>, <<<<9, 1>>>>, <<<<1, 1>>, <<0, 1>>>>, <<<<1, 1>>, <<9, 1>>>>,
               <<<<9, 1>>, <<1, 1>>>>, <<<<1, 1>>, <<0, 2>>>>, <<<<1, 1>>, <<0, 1>>, <<1, 1>>>>,
               <<<<9, 8>>>>, <<<<1, 1>>, <<0, 8>>>> }
\* fraction parts: z leading zeros, a digit, optionally a run
ZeroRuns == {0, 1, 2, 20, 306, 307, 308, 321, 322, 323, 324, 400}
FracParts == { <<<<0, z>>, <<d, 1>>>> : z \in ZeroRuns, d \in {0, 1, 9} }
             \cup { <<<<0, z>>, <<d, 1>>, <<f, n>>>> : z \in ZeroRuns, d \in {1, 9}, f \in {0, 1, 9}, n \in {1, 16, 400} }
SmallFracs == { <<<<0, 1>>>>, <<<<1, 1>>>>, <<<<9, 1>>>>, <<<<0, 1>>, <<1, 1>>>>, <<<<1, 1>>, <<0, 1>>>>,
                <<<<0, 2>>>>, <<<<1, 1>>, <<9, 1>>>>, <<<<9, 2>>>> }
ExpMags == {0, 1, 2, 5, 8, 9, 10, 15, 16, 17, 22, 23, 290, 300, 305, 306, 307, 308, 309, 310, 311,
            321, 322, 323, 324, 325, 326, 340, 400, 999, 4000}
Exps == { s * m : s \in Signs, m \in ExpMags }
NearExps == { s * m : s \in Signs, m \in {0, 1, 2, 306, 307, 308, 309, 310, 322, 323, 324, 325} }

Lit(ip, hasf, fp, hase, ex) == [ip |-> ip, hasf |-> hasf, fp |-> fp, hase |-> hase, ex |-> ex]
\* the literal universe as a predicate on cs (TLC enumerates the slices without building one big set)
LitInit ==
  \* small digit strings with every exponent
  \/ \E ip \in SmallInts, ex \in Exps : cs = Lit(ip, FALSE, <<>>, TRUE, ex)
  \/ \E ip \in SmallInts, fp \in SmallFracs, ex \in Exps : cs = Lit(ip, TRUE, fp, TRUE, ex)
  \/ \E ip \in SmallInts, fp \in SmallFracs : cs = Lit(ip, TRUE, fp, FALSE, 0)
  \/ \E ip \in IntParts : cs = Lit(ip, FALSE, <<>>, FALSE, 0)
  \* long integer parts, with and without a short fraction, exponents near the thresholds
  \/ \E ip \in IntParts, ex \in NearExps : cs = Lit(ip, FALSE, <<>>, TRUE, ex)
  \/ \E ip \in IntParts, fp \in { <<<<0, 1>>>>, <<<<9, 1>>>> }, ex \in {0, 1, -1, -308, -324} : cs = Lit(ip, TRUE, fp, TRUE, ex)
  \* long fractions
  \/ \E ip \in { <<<<0, 1>>>>, <<<<1, 1>>>> }, fp \in FracParts : cs = Lit(ip, TRUE, fp, FALSE, 0)
  \/ \E fp \in FracParts, ex \in NearExps : cs = Lit(<<<<0, 1>>>>, TRUE, fp, TRUE, ex)

Universe ==
  CASE Mode = "un"   -> { <<x>> : x \in GX }
    [] Mode = "bin"  -> { <<x, y>> : x \in GX, y \in GX }
    [] Mode = "tern" -> { <<x, y, z>> : x \in G, y \in G, z \in G }
    [] Mode = "arr"  -> SeqsUpTo(MaxLen)
    [] Mode = "radix" -> { <<bits, k>> : bits \in {3, 4}, k \in 1..350 }
    [] Mode = "arr4" -> { <<w, x, y, z>> : w \in G4, x \in G4, y \in G4, z \in G4 }
    [] Mode = "arr3s" -> { <<x, y, z>> : x \in G4, y \in G4, z \in G4 }

Init == IF Mode = "lit" THEN LitInit ELSE cs \in Universe
Next == UNCHANGED cs

UnaryOut(x) ==
  [pos |-> Pos(x), neg |-> NegR(x), floor |-> Floor(x), ceil |-> Ceil(x), round |-> Round(x),
   abs |-> Abs(x), sign |-> Sign(x), mantissa |-> Mantissa(x), exponent |-> Exponent(x),
   sqrt |-> Sqrt(x), exp |-> Exp(x), log |-> LogLike(x), log2 |-> LogLike(x), log10 |-> LogLike(x),
   sin |-> Sin(x), cos |-> Cos(x), tan |-> Tan(x), asin |-> Asin(x), acos |-> Acos(x), atan |-> Atan(x),
   deg2rad |-> Deg2Rad(x), rad2deg |-> Rad2Deg(x), bitnot |-> BitNot(x)]

BinaryOut(x, y) ==
  [add |-> Add(x, y), sub |-> Sub(x, y), mul |-> Mul(x, y), div |-> Div(x, y), mod |-> Mod(x, y),
   modulo |-> Mod(x, y), pow |-> Pow(x, y), atan2 |-> Atan2(x, y), hypot |-> Hypot(x, y),
   max |-> MaxN(x, y), min |-> MinN(x, y),
   band |-> BitAnd(x, y), bor |-> BitOr(x, y), bxor |-> BitXor(x, y), shl |-> Shl(x, y), shr |-> Shr(x, y)]

ArrayOut(a) ==
  [sum |-> Sum(a), foldl |-> Sum(a), avg |-> Avg(a), minArray |-> MinArray(a), maxArray |-> MaxArray(a),
   sort |-> Sort(a)]

WithExpect(f) == [n \in DOMAIN f |-> [r |-> f[n], x |-> Expect(f[n])]]

Out ==
  CASE Mode = "un"   -> [m |-> "un", a |-> cs, o |-> WithExpect(UnaryOut(cs[1]))]
    [] Mode = "bin"  -> [m |-> "bin", a |-> cs, o |-> WithExpect(BinaryOut(cs[1], cs[2]))]
    [] Mode = "tern" -> [m |-> "tern", a |-> cs, o |-> WithExpect([clamp |-> Clamp(cs[1], cs[2], cs[3])])]
    [] Mode \in {"arr", "arr4", "arr3s"} -> [m |-> "arr", a |-> cs, o |-> WithExpect(ArrayOut(cs))]
    [] Mode = "lit"  -> [m |-> "lit", l |-> cs, o |-> WithExpect([lit |-> LitClass(cs)])]
    [] Mode = "radix" -> [m |-> "radix", bits |-> cs[1], k |-> cs[2],
                          o |-> WithExpect(IF cs[2] >= RadixTieMinK(cs[1])
                                           THEN [one |-> RadixOne(cs[1], cs[2]), max |-> RadixMax(cs[1], cs[2]),
                                                 tie |-> RadixTie(cs[1], cs[2])]
                                           ELSE [one |-> RadixOne(cs[1], cs[2]), max |-> RadixMax(cs[1], cs[2])])]

Emit == PrintT(<<"CASE", ToJson(Out)>>)

Laws ==
  CASE Mode = "un"   -> LawUnary(cs[1])
    [] Mode = "bin"  -> LawPair(cs[1], cs[2])
    [] Mode = "tern" -> LawTriple(cs[1], cs[2], cs[3])
    [] Mode \in {"arr", "arr4", "arr3s"} -> LawArray(cs)
    [] Mode = "lit"  -> LawLit(cs)
    [] Mode = "radix" -> LawRadix(cs[1], cs[2])

\* the same laws one group at a time, so that a failure names the group
L1 == CASE Mode = "un" -> LawUnaryArith(cs[1]) [] Mode = "bin" -> LawPairArith(cs[1], cs[2]) [] OTHER -> TRUE
L2 == CASE Mode = "un" -> LawUnaryFuncs(cs[1]) [] Mode = "bin" -> LawPairFuncs(cs[1], cs[2]) [] OTHER -> TRUE
L3 == CASE Mode = "un" -> LawUnaryPow(cs[1]) [] Mode = "bin" -> LawPairPow(cs[1], cs[2]) [] OTHER -> TRUE
L4 == CASE Mode = "un" -> LawUnaryBits(cs[1]) [] Mode = "bin" -> LawPairBits(cs[1], cs[2]) [] OTHER -> TRUE

\* the rule of the property, on the specification: whatever is expected to be delivered as a value
\* is a finite double; a non-finite IEEE result is always expected to be an error
Results ==
  CASE Mode = "un"   -> UnaryResults(cs[1])
    [] Mode = "bin"  -> BinaryResults(cs[1], cs[2])
    [] Mode = "tern" -> { Clamp(cs[1], cs[2], cs[3]) }
    [] Mode \in {"arr", "arr4", "arr3s"} -> { Sum(cs), Avg(cs), MinArray(cs), MaxArray(cs), Sort(cs) }
    [] Mode = "lit"  -> { LitClass(cs) }
    [] Mode = "radix" -> { RadixOne(cs[1], cs[2]), RadixMax(cs[1], cs[2]) }
                         \cup (IF cs[2] >= RadixTieMinK(cs[1]) THEN { RadixTie(cs[1], cs[2]) } ELSE {})
Gate ==
  \A r \in Results :
     /\ ResOK(r)
     /\ (r.c \in {"ovf", "nan"} => Expect(r) = "error")
     /\ (Expect(r) = "ok" => r.c \in {"val", "int", "fin", "arr"})
     /\ (Expect(r) = "any" <=> r.c = "any")
=============================================================================
