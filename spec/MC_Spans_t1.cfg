CONSTANTS Variant = "coded"  Mode = "mc"  MaxCtx = 4  MaxSpan = 1
CONSTANTS CtxLens <- CtxLensMid  StartMags <- StartMagsSmall  LenMags <- LenMagsSmall  Deltas <- Deltas1
INIT MCInit
NEXT MCNext
INVARIANTS TypeOK EndsExact EndsIncreasing RoundTrip Canonical TableTight EmitScript
CHECK_DEADLOCK FALSE
