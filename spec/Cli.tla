-------------------------------- MODULE Cli --------------------------------
(***************************************************************************)
(* Operational level for property C12: ONE RUN of the command-line tool    *)
(* as a state machine, and the contract of C12 as its invariants.          *)
(*                                                                         *)
(*   ParseArgs -> ReadInput -> Load -> BindExt -> BindTla -> Eval -> Call  *)
(*             -> Manifest(mode) -> Write -> Done                          *)
(*                                                                         *)
(* Every phase is one action; every way a phase can fail is a SEPARATELY   *)
(* ENABLED action (a bad configuration or an injected fault enables it).   *)
(* A failure action is the only thing that sets a non-zero exit status and *)
(* it never touches stdout or the -o file.                                 *)
(*                                                                         *)
(* Sources (NOT the Rust code): the statement of C12; the usage text of    *)
(* the tool (flag surface); the Jsonnet reference commands (jsonnet /       *)
(* go-jsonnet: -S, -y "---\n doc ... \n...", no "..." for an empty stream, *)
(* -m writes one file per field and lists the paths); DESIGN Appendix B.   *)
(* The JSON text of a value is Encode!JsonEncodeF(v, FmtMulti) (C05).      *)
(*                                                                         *)
(* Two points are left OPEN by the property and are modelled as            *)
(* nondeterminism (both outcomes are legal behaviours of the machine):     *)
(*  (o1) whether --ext-code / --tla-code text that is never used is parsed *)
(*       at all ("evaluated lazily" is stated, parsing is not): a syntax   *)
(*       error in unused code may or may not fail the run;                 *)
(*  (o2) whether the files of -m fields manifested BEFORE a failing field  *)
(*       stay on disk (field-by-field writing) or not (all-or-nothing).    *)
(*                                                                         *)
(* Text is a sequence of code points.  Programs are value classes with one *)
(* payload slot; the check renders the class as Jsonnet text.              *)
(***************************************************************************)
EXTENDS Encode

CONSTANT OpenParse   \* TRUE: (o1) is open as described; FALSE: unused code with a syntax error MUST fail the run
                     \* (what DESIGN Appendix B records for the pinned binary)

VARIABLES cfg,             \* the configuration of this run (fixed by Configure, then never changes)
          phase,           \* the phase about to run, "Done" when the process has exited
          exit,            \* exit status, -1 while running
          stdout,          \* bytes delivered to standard output
          stderrNonEmpty,  \* something was explained on standard error
          files,           \* files created so far, in creation order: [path, data]
          done,            \* set of phases that succeeded
          val,             \* the value being processed (root value, then call result)
          out,             \* the output text built so far (not yet written)
          fidx,            \* -m: number of fields already manifested and written
          why              \* cause of the failure ("" when none); diagnostic only

vars == <<cfg, phase, exit, stdout, stderrNonEmpty, files, done, val, out, fidx, why>>

NL == <<LF>>

(***************************************************************************)
(* Texts                                                                   *)
(***************************************************************************)
T_p      == <<112>>                               \* "p"   literal payload
T_s      == <<115>>                               \* "s"
T_d      == <<100>>                               \* "d"   default of parameter y
T_u      == <<117>>                               \* "u"   default of parameter z
T_eq     == <<97, 61, 98>>                        \* "a=b"           (contains '=')
T_env    == <<233, 32, 34, 113, 34, 10, 61, 128512>>   \* é "q"<LF>=<U+1F600>  (quote, newline, '=', non-ASCII, astral)
T_file   == <<108, 49, 10, 108, 50, 32, 233, 10>>  \* "l1<LF>l2 é<LF>"
T_cd     == <<99, 100>>                           \* value of the code  "c" + "d"
T_cf     == <<99, 102>>                           \* value of the code file  "c" + "f"
T_ov     == <<111, 118>>                          \* value of the code  "o" + "v"
T_zz     == <<122, 122>>
K_a == <<97>>   K_b == <<98>>   K_c == <<99>>   K_e == <<101>>   K_h == <<104>>
MDir  == <<111, 117, 116>>                        \* "out"    the -m directory
OFile == <<111, 46, 116, 120, 116>>               \* "o.txt"  the -o file
Dashes == <<45, 45, 45>>
Dots   == <<46, 46, 46>>

(***************************************************************************)
(* Command-line arguments that bind variables (abstract form)              *)
(*   f    : the long flag name                                             *)
(*   n    : the variable name                                              *)
(*   src  : "inline"  var=text on the command line                         *)
(*          "env"     var alone, text taken from the environment           *)
(*          "envunset" var alone, environment variable not set             *)
(*          "file"    var=path, text is the content of the file            *)
(*          "nofile"  var=path, no such file                               *)
(*          "badutf8" var=path, content is not UTF-8                       *)
(*          "malformed" a -file flag without '='  (usage error)            *)
(*          "ok" / "bad"  numeric flags (max-stack / max-trace)            *)
(*   s    : str flags: the text supplied; code flags: the string the code  *)
(*          evaluates to when code = "concat"                              *)
(*   code : "none" (str flag) | "concat" ("l" + "r") | "fail" (error ...)  *)
(*          | "syntax" (does not parse)                                    *)
(***************************************************************************)
A(f, n, src, s, code) == [f |-> f, n |-> n, src |-> src, s |-> s, code |-> code]

StrFlags  == {"ext-str", "ext-str-file", "tla-str", "tla-str-file"}
CodeFlags == {"ext-code", "ext-code-file", "tla-code", "tla-code-file"}
ExtFlags  == {"ext-str", "ext-str-file", "ext-code", "ext-code-file"}
TlaFlags  == {"tla-str", "tla-str-file", "tla-code", "tla-code-file"}

\* ext/TLA kinds: the arguments given and whether the program reads std.extVar("x")
K(args, use) == [args |-> args, use |-> use]
Kind(k) ==
  CASE k = "none"                   -> K(<<>>, FALSE)
    \* ---- external variables
    [] k = "ext_str"                -> K(<<A("ext-str", "x", "inline", T_eq, "none")>>, TRUE)
    [] k = "ext_str_empty"          -> K(<<A("ext-str", "x", "inline", <<>>, "none")>>, TRUE)      \* x=   (the empty string)
    [] k = "ext_str_env"            -> K(<<A("ext-str", "x", "env", T_env, "none")>>, TRUE)
    [] k = "ext_env_unset"          -> K(<<A("ext-str", "x", "envunset", <<>>, "none")>>, TRUE)
    [] k = "ext_str_file"           -> K(<<A("ext-str-file", "x", "file", T_file, "none")>>, TRUE)
    [] k = "ext_str_file_missing"   -> K(<<A("ext-str-file", "x", "nofile", <<>>, "none")>>, TRUE)
    [] k = "ext_str_file_badutf8"   -> K(<<A("ext-str-file", "x", "badutf8", <<>>, "none")>>, TRUE)
    [] k = "ext_str_file_malformed" -> K(<<A("ext-str-file", "x", "malformed", <<>>, "none")>>, TRUE)
    [] k = "ext_code"               -> K(<<A("ext-code", "x", "inline", T_cd, "concat")>>, TRUE)
    [] k = "ext_code_file"          -> K(<<A("ext-code-file", "x", "file", T_cf, "concat")>>, TRUE)
    [] k = "ext_code_lazy_unused"   -> K(<<A("ext-code", "x", "inline", <<>>, "fail")>>, FALSE)
    [] k = "ext_code_fail_used"     -> K(<<A("ext-code", "x", "inline", <<>>, "fail")>>, TRUE)
    [] k = "ext_code_syntax_unused" -> K(<<A("ext-code", "x", "inline", <<>>, "syntax")>>, FALSE)
    [] k = "ext_code_syntax_used"   -> K(<<A("ext-code", "x", "inline", <<>>, "syntax")>>, TRUE)
    [] k = "ext_unknown_used"       -> K(<<A("ext-str", "w", "inline", T_zz, "none")>>, TRUE)
    [] k = "ext_dup"                -> K(<<A("ext-str", "x", "inline", T_eq, "none"),
                                           A("ext-code", "x", "inline", T_cd, "concat")>>, TRUE)
    [] k = "ext_two"                -> K(<<A("ext-str-file", "w", "file", T_file, "none"),
                                           A("ext-str", "x", "inline", T_eq, "none")>>, TRUE)
    \* ---- top-level arguments
    [] k = "tla_str"                -> K(<<A("tla-str", "x", "inline", T_eq, "none")>>, FALSE)
    [] k = "tla_str_empty"          -> K(<<A("tla-str", "x", "inline", <<>>, "none")>>, FALSE)     \* x=
    [] k = "tla_str_env"            -> K(<<A("tla-str", "x", "env", T_env, "none")>>, FALSE)
    [] k = "tla_env_unset"          -> K(<<A("tla-str", "x", "envunset", <<>>, "none")>>, FALSE)
    [] k = "tla_code"               -> K(<<A("tla-code", "x", "inline", T_cd, "concat")>>, FALSE)
    [] k = "tla_files"              -> K(<<A("tla-str-file", "x", "file", T_file, "none"),
                                           A("tla-code-file", "y", "file", T_cf, "concat")>>, FALSE)
    [] k = "tla_override"           -> K(<<A("tla-str", "x", "inline", T_eq, "none"),
                                           A("tla-code", "y", "inline", T_ov, "concat")>>, FALSE)
    [] k = "tla_only_y"             -> K(<<A("tla-str", "y", "inline", T_ov, "none")>>, FALSE)
    [] k = "tla_unknown"            -> K(<<A("tla-str", "x", "inline", T_eq, "none"),
                                           A("tla-str", "q", "inline", T_zz, "none")>>, FALSE)
    [] k = "tla_dup"                -> K(<<A("tla-str", "x", "inline", T_eq, "none"),
                                           A("tla-code", "x", "inline", T_cd, "concat")>>, FALSE)
    \* external variables and top-level arguments are two name spaces: the same name in both is no duplicate
    [] k = "tla_ext_same"           -> K(<<A("ext-str", "x", "inline", T_zz, "none"),
                                           A("tla-str", "x", "inline", T_eq, "none")>>, FALSE)
    [] k = "tla_ext_same_code"      -> K(<<A("tla-code", "y", "inline", T_ov, "concat"),
                                           A("ext-code", "y", "inline", T_cd, "concat"),
                                           A("tla-str", "x", "inline", T_eq, "none"),
                                           A("ext-str", "x", "inline", T_zz, "none")>>, FALSE)
    [] k = "tla_lazy_unused"        -> K(<<A("tla-str", "x", "inline", T_eq, "none"),
                                           A("tla-code", "z", "inline", <<>>, "fail")>>, FALSE)
    [] k = "tla_fail_used"          -> K(<<A("tla-code", "x", "inline", <<>>, "fail")>>, FALSE)
    [] k = "tla_syntax_unused"      -> K(<<A("tla-str", "x", "inline", T_eq, "none"),
                                           A("tla-code", "z", "inline", <<>>, "syntax")>>, FALSE)
    \* ---- other flags
    [] k = "stack_ok"               -> K(<<A("max-stack", "", "ok", <<>>, "none"),
                                           A("max-trace", "", "ok", <<>>, "none")>>, FALSE)
    [] k = "stack_bad"              -> K(<<A("max-stack", "", "bad", <<>>, "none")>>, FALSE)
    [] k = "trace_bad"              -> K(<<A("max-trace", "", "bad", <<>>, "none")>>, FALSE)
    [] k = "unknown_flag"           -> K(<<A("unknown", "", "bad", <<>>, "none")>>, FALSE)

Args(c)    == Kind(c.ext).args
ExtArgs(c) == SelectSeq(Args(c), LAMBDA a : a.f \in ExtFlags)
TlaArgs(c) == SelectSeq(Args(c), LAMBDA a : a.f \in TlaFlags)

HasDup(as)  == \E i, j \in 1..Len(as) : i < j /\ as[i].n = as[j].n
Supplied(as, n) == \E i \in 1..Len(as) : as[i].n = n
ArgNamed(as, n) == as[CHOOSE i \in 1..Len(as) : as[i].n = n]

\* the text cannot be obtained at all
Unavailable(a) == a.src \in {"envunset", "nofile", "badutf8"}
\* the value a bound variable has when (and only when) it is demanded:
\* a string, or a failure (ErrElem) for code that fails or does not parse
ThunkVal(a) ==
  IF a.f \in StrFlags THEN Str(a.s)
  ELSE IF a.code = "concat" THEN Str(a.s)
  ELSE ErrElem

(***************************************************************************)
(* Reference functions of the phases (pure; the actions below use them as  *)
(* guards and effects)                                                     *)
(***************************************************************************)
\* ParseArgs: what the argument grammar rejects
UsageError(c) ==
  \/ c.mode = "Sy"                                   \* -S together with -y
  \/ \E i \in 1..Len(Args(c)) :
        \/ Args(c)[i].src = "malformed"
        \/ Args(c)[i].f = "unknown"
        \/ (Args(c)[i].f \in {"max-stack", "max-trace"} /\ Args(c)[i].src = "bad")

\* ReadInput
InputUnreadable(c) ==
  \/ c.input = "file" /\ c.fault \in {"input_missing", "input_is_dir", "input_dangling"}
  \/ c.input = "stdin" /\ c.fault = "stdin_closed"

\* Load: lexing, parsing, static analysis of the input
LoadError(c) == c.prog \in {"synerr", "staticerr"}

\* BindExt / BindTla
BindCertainlyFails(as) == \E i \in 1..Len(as) : Unavailable(as[i])
BindMayFailEagerly(as) == \E i \in 1..Len(as) : as[i].code = "syntax"    \* (o1)

\* std.extVar(n)
ExtVar(c, n) == IF Supplied(ExtArgs(c), n) THEN ThunkVal(ArgNamed(ExtArgs(c), n)) ELSE ErrElem

\* the payload of the program: std.extVar("x") or the literal "p"
Payload(c) == IF Kind(c.ext).use THEN ExtVar(c, "x") ELSE Str(T_p)

FuncProgs == {"funcReq", "funcDef", "funcObj"}

\* the root value of a program that is not a function, payload pv
PlainValue(p, pv) ==
  CASE p = "str"      -> pv
    [] p = "arr0"     -> Arr(<<>>)
    [] p = "arr2"     -> Arr(<<IntV(1), pv>>)
    [] p = "obj0"     -> Obj(<<>>)
    [] p = "objMixed" -> Obj(<<Fld(K_a, FALSE, pv), Fld(K_b, FALSE, IntV(1)), Fld(K_h, TRUE, ErrElem)>>)
    [] p = "objS"     -> Obj(<<Fld(K_a, FALSE, Str(T_s)), Fld(K_b, FALSE, pv), Fld(K_h, TRUE, ErrElem)>>)
    [] p = "num"      -> Num(-1, 5, -1)                                       \* -2.5
    [] p = "nested"   -> Obj(<<Fld(K_a, FALSE, Arr(<<Null, Bool(TRUE), Obj(<<Fld(K_c, FALSE, pv)>>)>>)),
                               Fld(K_b, FALSE, Obj(<<>>)), Fld(K_e, FALSE, Arr(<<>>))>>)
    [] p = "rterr"    -> ErrElem
    [] p = "arrErr2"  -> Arr(<<IntV(1), ErrElem>>)
    [] p = "objErr2"  -> Obj(<<Fld(K_a, FALSE, pv), Fld(K_b, FALSE, ErrElem)>>)
    [] OTHER          -> Null                       \* synerr / staticerr never get this far

\* Eval: the root value (Func for a function)
RootValue(c) == IF c.prog \in FuncProgs THEN Func ELSE PlainValue(c.prog, Payload(c))

\* Call: parameters of the root function, bound BY NAME, defaults for the rest
Param(n, has, d) == [n |-> n, has |-> has, d |-> d]
Params(p) ==
  <<Param("x", p = "funcDef", Str(T_p)), Param("y", TRUE, Str(T_d)), Param("z", TRUE, Str(T_u))>>
ParamNames(p) == {Params(p)[i].n : i \in 1..Len(Params(p))}

CallError(p, tlas) ==
  \/ HasDup(tlas)                                                      \* a name bound twice
  \/ \E i \in 1..Len(tlas) : tlas[i].n \notin ParamNames(p)            \* no such parameter
  \/ \E i \in 1..Len(Params(p)) : ~Params(p)[i].has /\ ~Supplied(tlas, Params(p)[i].n)   \* missing

ArgOf(p, tlas, n) ==
  IF Supplied(tlas, n) THEN ThunkVal(ArgNamed(tlas, n))
  ELSE (Params(p)[CHOOSE i \in 1..Len(Params(p)) : Params(p)[i].n = n]).d

\* the bodies:  x + "/" + y   and   { a: x, b: y, h:: error }    (z is never used)
CallValue(p, tlas) ==
  LET x == ArgOf(p, tlas, "x")
      y == ArgOf(p, tlas, "y")
  IN IF p = "funcObj" THEN Obj(<<Fld(K_a, FALSE, x), Fld(K_b, FALSE, y), Fld(K_h, TRUE, ErrElem)>>)
     ELSE IF x.t = "err" \/ y.t = "err" THEN ErrElem
     ELSE Str(x.c \o <<47>> \o y.c)

(***************************************************************************)
(* Render: the output modes as views of one value                          *)
(*   document modes: "json" (default), "S", "y"; -m renders each field in  *)
(*   the document mode "json" or "S"                                       *)
(***************************************************************************)
JsonDoc(v) == JsonEncodeF(v, FmtMulti)

DocOk(m, v) ==
  CASE m = "json" -> Manifestable(v)
    [] m = "S"    -> v.t = "str"
    [] m = "y"    -> v.t = "arr" /\ \A i \in 1..Len(v.a) : Manifestable(v.a[i])

\* the document WITH its trailing newline
Doc(m, v) ==
  CASE m = "json" -> JsonDoc(v) \o NL
    [] m = "S"    -> v.c \o NL
    [] m = "y"    -> IF v.a = <<>> THEN <<>>
                     ELSE Flat([i \in 1..Len(v.a) |-> Dashes \o NL \o JsonDoc(v.a[i]) \o NL]) \o Dots \o NL

DropFinalNL(t) == IF t # <<>> /\ t[Len(t)] = LF THEN SubSeq(t, 1, Len(t) - 1) ELSE t

Rendered(m, ntn, v) == IF ntn THEN DropFinalNL(Doc(m, v)) ELSE Doc(m, v)

MultiMode(mode) == mode \in {"m", "mS"}
DocMode(mode)   == IF mode \in {"S", "mS"} THEN "S" ELSE IF mode = "y" THEN "y" ELSE "json"

FieldPath(k) == MDir \o <<47>> \o k
File(path, data) == [path |-> path, data |-> data]
\* files and listing of -m for the first n visible fields
MFiles(mode, ntn, v, n) ==
  [i \in 1..n |-> File(FieldPath(Visible(v)[i].k), Rendered(DocMode(mode), ntn, Visible(v)[i].v))]
MListing(v, n) == Flat([i \in 1..n |-> FieldPath(Visible(v)[i].k) \o NL])

\* the value that reaches the Manifest phase when nothing fails before
FinalValue(c) == IF c.prog \in FuncProgs THEN CallValue(c.prog, TlaArgs(c)) ELSE RootValue(c)

\* Write to stdout: a full or closed stdout cannot take a single byte
StdoutBroken(c) == c.fault \in {"stdout_full", "stdout_closed"}
OutFileUnwritable(c) == c.fault \in {"out_missing_dir", "out_is_dir"}
MDirUnwritable(c) == c.fault \in {"mdir_missing", "mdir_is_file"}

(***************************************************************************)
(* The machine                                                             *)
(***************************************************************************)
Phases == {"ParseArgs", "ReadInput", "Load", "BindExt", "BindTla", "Eval", "Call", "Manifest", "Write"}

\* Before anything runs the environment fixes the configuration (action Configure);
\* c0 is a placeholder.
InitRun(c0) ==
  /\ cfg = c0
  /\ phase = "Configure"
  /\ exit = -1
  /\ stdout = <<>>
  /\ stderrNonEmpty = FALSE
  /\ files = <<>>
  /\ done = {}
  /\ val = Null
  /\ out = <<>>
  /\ fidx = 0
  /\ why = ""

Configure(c) ==
  /\ phase = "Configure"
  /\ cfg' = c
  /\ phase' = "ParseArgs"
  /\ UNCHANGED <<exit, stdout, stderrNonEmpty, files, done, val, out, fidx, why>>

\* a phase succeeds
Go(p, next) ==
  /\ phase = p
  /\ phase' = next
  /\ done' = done \cup {p}
  /\ UNCHANGED <<cfg, exit, stdout, stderrNonEmpty>>

\* a phase fails: the ONLY way to a non-zero status; stdout and files untouched
Die(p, status, cause) ==
  /\ phase = p
  /\ phase' = "Done"
  /\ exit' = status
  /\ stderrNonEmpty' = TRUE
  /\ why' = cause
  /\ UNCHANGED <<cfg, stdout, files, done, val, out, fidx>>

ParseArgsOk == phase = "ParseArgs" /\ ~UsageError(cfg) /\ Go("ParseArgs", "ReadInput") /\ UNCHANGED <<files, val, out, fidx, why>>
ParseArgsFail == phase = "ParseArgs" /\ UsageError(cfg) /\ Die("ParseArgs", 2, "usage")

ReadInputOk == phase = "ReadInput" /\ ~InputUnreadable(cfg) /\ Go("ReadInput", "Load") /\ UNCHANGED <<files, val, out, fidx, why>>
ReadInputFail == phase = "ReadInput" /\ InputUnreadable(cfg) /\ Die("ReadInput", 1, "input unreadable")

LoadOk == phase = "Load" /\ ~LoadError(cfg) /\ Go("Load", "BindExt") /\ UNCHANGED <<files, val, out, fidx, why>>
LoadFail == phase = "Load" /\ LoadError(cfg) /\ Die("Load", 1, "input does not load")

BindExtOk ==
  /\ phase = "BindExt"
  /\ ~BindCertainlyFails(ExtArgs(cfg)) /\ ~HasDup(ExtArgs(cfg))
  /\ OpenParse \/ ~BindMayFailEagerly(ExtArgs(cfg))
  /\ Go("BindExt", "BindTla") /\ UNCHANGED <<files, val, out, fidx, why>>
BindExtFail ==
  /\ phase = "BindExt"
  /\ BindCertainlyFails(ExtArgs(cfg)) \/ HasDup(ExtArgs(cfg))
  /\ Die("BindExt", 1, "external variable cannot be bound")
BindExtFailEager ==                                                        \* (o1)
  /\ phase = "BindExt"
  /\ ~BindCertainlyFails(ExtArgs(cfg)) /\ ~HasDup(ExtArgs(cfg))
  /\ BindMayFailEagerly(ExtArgs(cfg))
  /\ Die("BindExt", 1, "external code does not parse (eager)")

BindTlaOk ==
  /\ phase = "BindTla"
  /\ ~BindCertainlyFails(TlaArgs(cfg))
  /\ OpenParse \/ ~BindMayFailEagerly(TlaArgs(cfg))
  /\ Go("BindTla", "Eval") /\ UNCHANGED <<files, val, out, fidx, why>>
BindTlaFail ==
  /\ phase = "BindTla"
  /\ BindCertainlyFails(TlaArgs(cfg))
  /\ Die("BindTla", 1, "top-level argument cannot be bound")
BindTlaFailEager ==                                                        \* (o1)
  /\ phase = "BindTla"
  /\ ~BindCertainlyFails(TlaArgs(cfg))
  /\ BindMayFailEagerly(TlaArgs(cfg))
  /\ Die("BindTla", 1, "top-level code does not parse (eager)")

EvalOk ==
  /\ phase = "Eval"
  /\ RootValue(cfg).t # "err"
  /\ Go("Eval", "Call")
  /\ val' = RootValue(cfg)
  /\ UNCHANGED <<files, out, fidx, why>>
EvalFail == phase = "Eval" /\ RootValue(cfg).t = "err" /\ Die("Eval", 1, "evaluation fails")

CallSkip ==                          \* not a function and nothing to pass
  /\ phase = "Call"
  /\ val.t # "func" /\ TlaArgs(cfg) = <<>>
  /\ Go("Call", "Manifest") /\ UNCHANGED <<files, val, out, fidx, why>>
CallNotFunction ==
  /\ phase = "Call"
  /\ val.t # "func" /\ TlaArgs(cfg) # <<>>
  /\ Die("Call", 1, "top-level arguments but not a function")
CallOk ==
  /\ phase = "Call"
  /\ val.t = "func" /\ ~CallError(cfg.prog, TlaArgs(cfg))
  /\ CallValue(cfg.prog, TlaArgs(cfg)).t # "err"
  /\ Go("Call", "Manifest")
  /\ val' = CallValue(cfg.prog, TlaArgs(cfg))
  /\ UNCHANGED <<files, out, fidx, why>>
CallBindFail ==
  /\ phase = "Call"
  /\ val.t = "func" /\ CallError(cfg.prog, TlaArgs(cfg))
  /\ Die("Call", 1, "top-level arguments do not match the parameters")
CallFail ==
  /\ phase = "Call"
  /\ val.t = "func" /\ ~CallError(cfg.prog, TlaArgs(cfg))
  /\ CallValue(cfg.prog, TlaArgs(cfg)).t = "err"
  /\ Die("Call", 1, "the call fails")

\* ---- Manifest, document modes: the whole text is built, nothing is written
ManifestOk ==
  /\ phase = "Manifest"
  /\ ~MultiMode(cfg.mode) /\ DocOk(DocMode(cfg.mode), val)
  /\ Go("Manifest", "Write")
  /\ out' = Rendered(DocMode(cfg.mode), cfg.ntn, val)
  /\ UNCHANGED <<files, val, fidx, why>>
ManifestFail ==
  /\ phase = "Manifest"
  /\ ~MultiMode(cfg.mode) /\ ~DocOk(DocMode(cfg.mode), val)
  /\ Die("Manifest", 1, "manifestation fails")

\* ---- Manifest, -m: one visible field at a time, in key order
MNotObject ==
  /\ phase = "Manifest"
  /\ MultiMode(cfg.mode) /\ val.t # "obj"
  /\ Die("Manifest", 1, "-m needs an object")
MField ==
  /\ phase = "Manifest"
  /\ MultiMode(cfg.mode) /\ val.t = "obj" /\ fidx < Len(Visible(val))
  /\ DocOk(DocMode(cfg.mode), Visible(val)[fidx + 1].v)
  /\ ~MDirUnwritable(cfg)
  /\ fidx' = fidx + 1
  /\ files' = Append(files, MFiles(cfg.mode, cfg.ntn, val, fidx + 1)[fidx + 1])
  /\ out' = out \o FieldPath(Visible(val)[fidx + 1].k) \o NL
  /\ UNCHANGED <<cfg, phase, exit, stdout, stderrNonEmpty, done, val, why>>
MFieldBad(keep) ==                          \* (o2): keep = the earlier files stay
  /\ phase = "Manifest"
  /\ MultiMode(cfg.mode) /\ val.t = "obj" /\ fidx < Len(Visible(val))
  /\ \/ ~DocOk(DocMode(cfg.mode), Visible(val)[fidx + 1].v)
     \/ MDirUnwritable(cfg)
  /\ phase' = "Done"
  /\ exit' = 1
  /\ stderrNonEmpty' = TRUE
  /\ why' = IF DocOk(DocMode(cfg.mode), Visible(val)[fidx + 1].v)
            THEN "field file cannot be written" ELSE "manifestation of a field fails"
  /\ files' = IF keep THEN files ELSE <<>>
  /\ UNCHANGED <<cfg, stdout, done, val, out, fidx>>
MFieldFailKeep == MFieldBad(TRUE)
MFieldFailDrop == phase = "Manifest" /\ files # <<>> /\ MFieldBad(FALSE)
MDone ==
  /\ phase = "Manifest"
  /\ MultiMode(cfg.mode) /\ val.t = "obj" /\ fidx = Len(Visible(val))
  /\ Go("Manifest", "Write")
  /\ UNCHANGED <<files, val, out, fidx, why>>

\* ---- Write: the first and only moment stdout or the -o file is touched
Finish ==
  /\ phase = "Write"
  /\ phase' = "Done"
  /\ done' = done \cup {"Write"}
  /\ exit' = 0
  /\ UNCHANGED <<cfg, stderrNonEmpty, val, out, fidx, why>>
WriteFileOk ==
  /\ phase = "Write"
  /\ cfg.out /\ ~OutFileUnwritable(cfg)
  /\ Finish
  /\ files' = Append(files, File(OFile, out))
  /\ UNCHANGED stdout
WriteFileFail == phase = "Write" /\ cfg.out /\ OutFileUnwritable(cfg) /\ Die("Write", 1, "output file cannot be written")
WriteStdoutOk ==
  /\ phase = "Write"
  /\ ~cfg.out /\ (out = <<>> \/ ~StdoutBroken(cfg))
  /\ Finish
  /\ stdout' = out
  /\ UNCHANGED files
WriteStdoutFail == phase = "Write" /\ ~cfg.out /\ out # <<>> /\ StdoutBroken(cfg) /\ Die("Write", 1, "stdout cannot be written")

Next ==
  \/ ParseArgsOk \/ ParseArgsFail
  \/ ReadInputOk \/ ReadInputFail
  \/ LoadOk \/ LoadFail
  \/ BindExtOk \/ BindExtFail \/ BindExtFailEager
  \/ BindTlaOk \/ BindTlaFail \/ BindTlaFailEager
  \/ EvalOk \/ EvalFail
  \/ CallSkip \/ CallNotFunction \/ CallOk \/ CallBindFail \/ CallFail
  \/ ManifestOk \/ ManifestFail
  \/ MNotObject \/ MField \/ MFieldFailKeep \/ MFieldFailDrop \/ MDone
  \/ WriteFileOk \/ WriteFileFail \/ WriteStdoutOk \/ WriteStdoutFail

(***************************************************************************)
(* The contract of C12 (invariants of the machine)                         *)
(***************************************************************************)
IsText(t) == \A i \in 1..Len(t) : t[i] \in 0..1114111

HasFile(p)  == \E i \in 1..Len(files) : files[i].path = p
FileData(p) == files[CHOOSE i \in 1..Len(files) : files[i].path = p].data
\* what reached the consumer: the -o file if one was asked for, else stdout
Delivered == IF cfg.out THEN FileData(OFile) ELSE stdout
FieldFiles == SelectSeq(files, LAMBDA f : f.path # OFile)

TypeOK ==
  /\ phase \in Phases \cup {"Configure", "Done"}
  /\ exit \in {-1, 0, 1, 2}
  /\ stderrNonEmpty \in BOOLEAN
  /\ phase = "Done" =>
       /\ IsText(stdout) /\ IsText(out)
       /\ \A i \in 1..Len(files) : IsText(files[i].path) /\ IsText(files[i].data)
  /\ \A i, j \in 1..Len(files) : i # j => files[i].path # files[j].path
  /\ done \subseteq Phases
  /\ fidx \in 0..3

\* the status is set exactly when the process ends and is 0, 1 or 2
ExitStatus == (phase = "Done") = (exit \in {0, 1, 2})

\* 2 is the status of usage errors and of nothing else
UsageIsTwo == phase = "Done" => ((exit = 2) = UsageError(cfg))

\* the output is fully built before any of it is written
NothingBeforeWrite == phase # "Done" => stdout = <<>> /\ ~HasFile(OFile)

\* exit 0 => every phase succeeded and the output is complete
SuccessIsComplete ==
  exit = 0 =>
    /\ done = Phases
    /\ ~InputUnreadable(cfg) /\ ~LoadError(cfg) /\ ~UsageError(cfg)
    /\ val = FinalValue(cfg)
    /\ cfg.out => stdout = <<>> /\ HasFile(OFile)
    /\ IF MultiMode(cfg.mode)
       THEN /\ val.t = "obj"
            /\ FieldFiles = MFiles(cfg.mode, cfg.ntn, val, Len(Visible(val)))     \* one file per VISIBLE field
            /\ Delivered = MListing(val, Len(Visible(val)))                        \* and the list of paths
       ELSE /\ DocOk(DocMode(cfg.mode), val)
            /\ Delivered = Rendered(DocMode(cfg.mode), cfg.ntn, val)
            /\ FieldFiles = <<>>

\* exit # 0 => explained on stderr, nothing on stdout, no -o file
FailureIsClean ==
  exit \in {1, 2} =>
    /\ stderrNonEmpty
    /\ stdout = <<>>
    /\ ~HasFile(OFile)
    /\ done # Phases
    /\ why # ""
    \* whatever -m left behind is a complete, correct file of a visible field
    /\ \A i \in 1..Len(files) :
         /\ MultiMode(cfg.mode) /\ val.t = "obj" /\ i <= Len(Visible(val))
         /\ files[i] = MFiles(cfg.mode, cfg.ntn, val, i)[i]

\* a run that the property says must fail does fail, whichever open choice is taken
MustFail(c) ==
  \/ UsageError(c) \/ InputUnreadable(c) \/ LoadError(c)
  \/ (~OpenParse /\ (BindMayFailEagerly(ExtArgs(c)) \/ BindMayFailEagerly(TlaArgs(c))))
  \/ BindCertainlyFails(ExtArgs(c)) \/ HasDup(ExtArgs(c)) \/ BindCertainlyFails(TlaArgs(c))
  \/ RootValue(c).t = "err"
  \/ (c.prog \in FuncProgs /\ (CallError(c.prog, TlaArgs(c)) \/ CallValue(c.prog, TlaArgs(c)).t = "err"))
  \/ (c.prog \notin FuncProgs /\ TlaArgs(c) # <<>>)
FailuresFail == exit = 0 => ~MustFail(cfg)

Contract ==
  /\ TypeOK /\ ExitStatus /\ UsageIsTwo /\ NothingBeforeWrite
  /\ SuccessIsComplete /\ FailureIsClean /\ FailuresFail

(***************************************************************************)
(* The output modes are consistent views of the same value (laws on the    *)
(* reference functions, checked by TLC on every value of the universe)     *)
(***************************************************************************)
\* lines of a text in which every line is terminated by LF
RECURSIVE LinesFrom(_, _, _)
LinesFrom(t, p, cur) ==
  IF p > Len(t) THEN (IF cur = <<>> THEN <<>> ELSE <<cur>>)       \* an unterminated rest is kept as a line
  ELSE IF t[p] = LF THEN <<cur>> \o LinesFrom(t, p + 1, <<>>)
  ELSE LinesFrom(t, p + 1, Append(cur, t[p]))
Lines(t) == LinesFrom(t, 1, <<>>)

\* an independent reader of a YAML stream of JSON documents:
\*   ("---" LF document-lines)*  "..." LF       or nothing at all
RECURSIVE StreamDocsFrom(_, _, _, _)
StreamDocsFrom(ls, i, cur, acc) ==       \* cur = lines of the open document
  IF i > Len(ls) THEN [ok |-> FALSE, docs |-> <<>>]                \* no closing "..."
  ELSE IF ls[i] = Dots THEN [ok |-> i = Len(ls), docs |-> Append(acc, JoinSeq(cur, NL))]
  ELSE IF ls[i] = Dashes THEN StreamDocsFrom(ls, i + 1, <<>>, Append(acc, JoinSeq(cur, NL)))
  ELSE StreamDocsFrom(ls, i + 1, Append(cur, ls[i]), acc)
StreamDocs(t) ==
  IF t = <<>> THEN [ok |-> TRUE, docs |-> <<>>]
  ELSE LET ls == Lines(t) IN
       IF ls = <<>> \/ ls[1] # Dashes THEN [ok |-> FALSE, docs |-> <<>>]
       ELSE StreamDocsFrom(ls, 2, <<>>, <<>>)

\* --no-trailing-newline removes exactly one LF, the last character
LawNtn(m, v) ==
  DocOk(m, v) =>
    LET with == Rendered(m, FALSE, v)  without == Rendered(m, TRUE, v) IN
    IF with = <<>> THEN without = <<>> ELSE with = without \o NL

\* -S shows the string that the default view shows as a JSON string
LawStringView(v) ==
  v.t = "str" =>
    LET d == JsonDecode(Rendered("json", FALSE, v)) IN
    /\ DocOk("S", v) /\ d.ok /\ d.v.t = "str"
    /\ Rendered("S", FALSE, v) = d.v.c \o NL
LawStringOnly(v) == v.t # "str" => ~DocOk("S", v)

\* -y shows the elements that the default view shows as one array
LawStreamView(v) ==
  (v.t = "arr" /\ Manifestable(v)) =>
    LET sd == StreamDocs(Rendered("y", FALSE, v))
        d  == JsonDecode(Rendered("json", FALSE, v))
    IN /\ DocOk("y", v) /\ sd.ok /\ d.ok /\ d.v.t = "arr"
       /\ Len(sd.docs) = Len(v.a)
       /\ \A i \in 1..Len(sd.docs) :
             /\ sd.docs[i] = JsonDoc(v.a[i])
             /\ JsonDecode(sd.docs[i]).ok /\ JsonDecode(sd.docs[i]).v = d.v.a[i]
LawStreamOnly(v) == v.t # "arr" => ~DocOk("y", v)

\* -m shows, one file per visible field, what the default view shows as one object
LawMultiView(v) ==
  (v.t = "obj" /\ Manifestable(v)) =>
    LET n  == Len(Visible(v))
        fs == MFiles("m", FALSE, v, n)
        d  == JsonDecode(Rendered("json", FALSE, v))
    IN /\ d.ok /\ d.v.t = "obj" /\ Len(d.v.f) = n
       /\ \A i \in 1..n :
             /\ fs[i].path = FieldPath(d.v.f[i].k)
             /\ JsonDecode(fs[i].data).ok /\ JsonDecode(fs[i].data).v = d.v.f[i].v
       /\ Lines(MListing(v, n)) = [i \in 1..n |-> fs[i].path]
       /\ \A i \in 1..Len(v.f) : v.f[i].h => ~\E j \in 1..n : fs[j].path = FieldPath(v.f[i].k)
\* -m -S: the files hold the strings themselves
LawMultiStringView(v) ==
  (v.t = "obj" /\ \A i \in 1..Len(Visible(v)) : Visible(v)[i].v.t = "str") =>
    \A i \in 1..Len(Visible(v)) :
       MFiles("mS", FALSE, v, Len(Visible(v)))[i].data = Visible(v)[i].v.c \o NL

ViewLaws(v) ==
  /\ \A m \in {"json", "S", "y"} : LawNtn(m, v)
  /\ LawStringView(v) /\ LawStringOnly(v)
  /\ LawStreamView(v) /\ LawStreamOnly(v)
  /\ LawMultiView(v) /\ LawMultiStringView(v)

(***************************************************************************)
(* Laws about configurations: ext/TLA binding                              *)
(***************************************************************************)
\* std.extVar returns exactly the text supplied
LawExtExact(c) ==
  \A i \in 1..Len(ExtArgs(c)) :
    LET a == ExtArgs(c)[i] IN
    (a.f \in StrFlags /\ ~HasDup(ExtArgs(c))) => ExtVar(c, a.n) = Str(a.s)

\* code that is supplied but never demanded does not influence the run
Unused(c) == c.ext \in {"ext_code_lazy_unused", "tla_lazy_unused"}
Without(c) == [c EXCEPT !.ext = IF c.ext = "ext_code_lazy_unused" THEN "none" ELSE "tla_str"]
LawLazy(c) ==
  Unused(c) => /\ MustFail(c) = MustFail(Without(c))
               /\ (~MustFail(c) => FinalValue(c) = FinalValue(Without(c)))
\* ... while the same code fails the run when it is demanded
LawDemanded(c) ==
  (c.ext = "ext_code_fail_used" /\ c.prog \in {"str", "arr2", "objS", "objMixed", "nested"}) =>
     ~Manifestable(FinalValue(c))

\* top-level arguments bind by name, parameters not named keep their defaults
LawTlaByName(c) ==
  (c.prog \in FuncProgs /\ ~CallError(c.prog, TlaArgs(c))) =>
     \A i \in 1..Len(Params(c.prog)) :
        LET p == Params(c.prog)[i] IN
        ArgOf(c.prog, TlaArgs(c), p.n) =
          IF Supplied(TlaArgs(c), p.n) THEN ThunkVal(ArgNamed(TlaArgs(c), p.n)) ELSE p.d

ConfigLaws(c) == LawExtExact(c) /\ LawLazy(c) /\ LawDemanded(c) /\ LawTlaByName(c)
=============================================================================
