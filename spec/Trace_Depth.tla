----------------------------- MODULE Trace_Depth -----------------------------
(* Validates the recorded outcome matrix of the real implementation against   *)
(* Depth.tla.  Events (IOEnv.TRACE, NDJSON), in this order:                    *)
(*  {"ev":"row","family":F}  starts a scan with s increasing for fixed d       *)
(*  {"ev":"col","family":F}  starts a scan with d increasing for fixed s       *)
(*  {"ev":"cell","family":F,"d":D,"s":S,"out":"value"|"overflow"|"infrec"|...,"val":H} *)
EXTENDS Depth, Json, IOUtils

Rec == ndJsonDeserialize(IOEnv.TRACE)

VARIABLES l, scan, prev, fam
tvars == <<l, scan, prev, fam>>

Init == l = 1 /\ scan = "none" /\ prev = NoCell /\ fam = ""

Ev == Rec[l]
IsEv(k) == l <= Len(Rec) /\ Ev.ev = k /\ l' = l + 1

TScan ==
  /\ l <= Len(Rec) /\ Ev.ev \in {"row", "col"} /\ l' = l + 1
  /\ scan' = Ev.ev /\ prev' = NoCell /\ fam' = Ev.family

TCell ==
  /\ IsEv("cell") /\ scan # "none" /\ Ev.family = fam
  /\ CellOk(KindOf(fam), Ev.out)                      \* never a crash, a timeout, or a wrong kind of failure
  /\ DepthBound(fam, Ev)                              \* a value at depth d needs a limit of at least d
  /\ IF scan = "row" THEN RowStep(prev, Ev) ELSE ColStep(prev, Ev)
  /\ (prev.out # "none" => IF scan = "row" THEN Ev.s > prev.s /\ Ev.d = prev.d ELSE Ev.d > prev.d /\ Ev.s = prev.s)
  /\ prev' = [out |-> Ev.out, val |-> Ev.val, d |-> Ev.d, s |-> Ev.s]
  /\ UNCHANGED <<scan, fam>>

Next == TScan \/ TCell

Accepted ==
  LET d == TLCGet("stats").diameter IN
  IF d - 1 = Len(Rec) THEN TRUE
  ELSE Print(<<"REJECT", d, IF d <= Len(Rec) THEN ToJson(Rec[d]) ELSE "end">>, FALSE)
=============================================================================
