CONSTANTS Mode = "arrays" MaxLen = 6 NKeys = 4 PermBound = 4
CONSTANT Lens = {}
INIT Init
NEXT Next
INVARIANTS Laws Emit
CHECK_DEADLOCK FALSE
