---- MODULE MC_SemTest ----
EXTENDS Sem, Pretty, Json
VARIABLE c
N(n) == <<"num", n>>
V(x) == <<"var", x>>
Progs == {
  <<"bin", "+", N(1), N(2)>>,
  <<"local", << <<"a", N(1)>>, <<"b", <<"bin", "+", V("a"), N(1)>> >> >>, <<"arr", <<V("a"), V("b")>> >> >>,
  <<"obj", << <<"fld", <<"id", "a">>, "d", FALSE, N(1)>>, <<"fld", <<"id", "b">>, "h", FALSE, <<"field", <<"self">>, "a">> >> >> >>,
  <<"bin", "+", <<"obj", << <<"fld", <<"id", "a">>, "d", FALSE, N(1)>>, <<"fld", <<"id", "b">>, "d", FALSE, <<"bin", "+", <<"field", <<"self">>, "a">>, N(1)>> >> >> >>,
                <<"obj", << <<"fld", <<"id", "a">>, "d", TRUE, N(10)>>, <<"fld", <<"id", "c">>, "d", FALSE, <<"superf", "b">> >> >> >> >>,
  <<"local", << <<"f", <<"func", << <<"x", <<"nodef">> >>, <<"y", <<"bin", "*", V("x"), N(2)>> >> >>, <<"arr", <<V("x"), V("y")>> >> >> >> >>,
     <<"call", V("f"), <<N(3)>>, <<>>, FALSE>> >>,
  <<"local", << <<"f", <<"func", << <<"n", <<"nodef">> >> >>, <<"if", <<"bin", "==", V("n"), N(0)>>, N(1), <<"bin", "*", V("n"), <<"call", V("f"), << <<"bin", "-", V("n"), N(1)>> >>, <<>>, FALSE>> >> >> >> >> >>,
     <<"call", V("f"), <<N(5)>>, <<>>, FALSE>> >>,
  <<"arrcomp", <<"bin", "*", V("x"), V("x")>>, << <<"for", "x", <<"arr", <<N(1), N(2), N(3)>> >> >>, <<"cif", <<"bin", ">", V("x"), N(1)>> >> >> >>,
  <<"error", <<"str", <<98, 111, 111, 109>> >> >>,
  <<"local", << <<"x", V("x")>> >>, V("x")>>,
  <<"arr", <<N(1), <<"error", <<"str", <<97>> >> >> >> >>,
  <<"index", <<"arr", <<N(1), <<"error", <<"str", <<97>> >> >> >> >>, N(0)>>,
  <<"bin", "+", <<"str", <<97>> >>, <<"obj", << <<"fld", <<"id", "a">>, "d", FALSE, <<"arr", <<N(1), <<"str", <<98>> >> >> >> >> >> >> >>,
  <<"objcomp", V("k"), <<"bin", "+", V("k"), <<"str", <<33>> >> >>, <<>>, << <<"for", "k", <<"arr", << <<"str", <<97>> >>, <<"str", <<98>> >> >> >> >> >> >>,
  <<"obj", << <<"oassert", <<"bin", ">", <<"field", <<"self">>, "a">>, N(1)>>, <<"str", <<110, 111>> >> >>, <<"fld", <<"id", "a">>, "d", FALSE, N(1)>> >> >>
}
Init == c \in Progs
Next == UNCHANGED c
Emit == PrintT(<<P(c), Run(c, 40)>>)
====
