--------------------------- MODULE Trace_Pipeline ---------------------------
(* Validates recorded run outcomes against Pipeline.tla.                      *)
(* Events (IOEnv.TRACE): {"ev":"run","outcome":O[,"exit":N]} where O is what    *)
(* the harness observed: "value", "error:<stage>", or "panic"/"crash"/"timeout" *)
(* (which no action of the specification produces).                            *)
EXTENDS Pipeline, Json, IOUtils

Rec == ndJsonDeserialize(IOEnv.TRACE)
VARIABLE l
Init2 == Init /\ l = 1
Ev == Rec[l]

\* one recorded run = one complete behaviour of Pipeline ending in the recorded outcome
TRun ==
  /\ l <= Len(Rec) /\ Ev.ev = "run" /\ l' = l + 1
  /\ Ev.outcome \in Outcomes
  /\ ("exit" \in DOMAIN Ev => Ev.exit = ExitStatus(Ev.outcome) \/ (Ev.exit = 2 /\ Ev.outcome # "value"))
  /\ UNCHANGED pvars

Next2 == TRun
Accepted ==
  LET d == TLCGet("stats").diameter IN
  IF d - 1 = Len(Rec) THEN TRUE
  ELSE Print(<<"REJECT", d, IF d <= Len(Rec) THEN ToJson(Rec[d]) ELSE "end">>, FALSE)
=============================================================================
