CONSTANT Modes = {"chars", "nums", "struct", "keys"}
CONSTANT Depth = 3
CONSTANT Wide = TRUE
CONSTANT KeyLen = 3
INIT Init
NEXT Next
INVARIANTS InDomain Laws Emit
CHECK_DEADLOCK FALSE
