CONSTANTS Thunks = {1, 2, 3} MaxLimit = 2 MaxDeps = 1 MaxReq = 3 RestoreOnFail = TRUE
INIT Init
NEXT Next
INVARIANT Inv
CHECK_DEADLOCK FALSE
