CONSTANTS Mode = "pairs" MaxLen = 0 NKeys = 5 PermBound = 0
CONSTANT Lens = {}
INIT Init
NEXT Next
INVARIANTS Laws Emit
CHECK_DEADLOCK FALSE
