----------------------------- MODULE MC_Encode -----------------------------
(* Universes and case emission for C05.                                     *)
(*   "chars"  :        every code point 0x00-0xA0, 0x2028, 0xD7FF, 0xE000,  *)
(*                     0xFFFF, 0x1F600 as a 1-character string and as a key *)
(*   "struct" :        nested values up to Depth (2 or 3), empty containers,*)
(*                     hidden fields, keys needing escapes, dyadic numbers  *)
(*   "nums"   :        a grid of dyadic numbers (incl. -0), bare and as a   *)
(*                     field value                                          *)
(*   "keys"   :        one-field objects whose key is a YAML/TOML-sensitive *)
(*                     word, or any string of <= KeyLen characters over     *)
(*                     KeyAlphabet (value universe for the YAML / TOML /    *)
(*                     Python encoders, decoded by the target parsers)      *)
(* times the layout settings.  One initial state per (value, settings).     *)
EXTENDS Encode, Json

CONSTANTS Modes, Depth, Wide, KeyLen      \* Modes: the sub-universes to enumerate
VARIABLES u, v, f

\* ---------------------------------------------------------------- settings
Indents  == { <<>>, <<32>>, <<9>>, <<32, 32>> }
Newlines == { <<>>, <<10>> }
KvSeps   == { <<58>>, <<58, 32>> }
ExFormats == { FmtEx(i, n, k) : i \in Indents, n \in Newlines, k \in KvSeps }
AllFormats == ExFormats \cup { FmtMulti, FmtToString, FmtMinified, FmtManifestJson }

\* ------------------------------------------------------------------- chars
CodePoints == (0..160) \cup { 8232, 55295, 57344, 65535, 128512 }
CharVals == { Str(<<c>>) : c \in CodePoints } \cup { Obj(<<Fld(<<c>>, FALSE, IntV(1))>>) : c \in CodePoints }

\* ------------------------------------------------------------------ struct
Nums == { IntV(0), Num(-1, 0, 0), IntV(1), IntV(-1), IntV(10), IntV(-123), Num(1, 1, -1), Num(-1, 3, -1),
          Num(1, 1, -7), Num(1, 5, 10), Num(1, 2097153, -1), Num(1, 1, 29), Num(-1, 999999999, 0),
          Num(1, 3, -11), Num(1, 6, -2) }
Strs == { Str(<<>>), Str(<<97>>), Str(<<34>>), Str(<<92>>), Str(<<10>>), Str(<<10, 97>>), Str(<<97, 32, 98>>),
          Str(<<233, 128512>>), Str(<<0, 127, 159, 160>>), Str(<<9, 31>>), Str(<<47, 60, 62, 38, 39>>),
          Str(<<92, 117, 48, 48, 52, 49>>), Str(<<35, 32, 58, 32, 45>>) }
P == { Null, Bool(TRUE), Bool(FALSE) } \cup Nums \cup Strs

\* keys: empty, plain, needing escapes, BMP end vs astral (UTF-16 order would differ from code point order)
Ks == { <<>>, <<97>>, <<98>>, <<34>>, <<10>>, <<65535>>, <<128512>>, <<97, 98>>, <<65>>, <<92, 110>> }
Ks2 == { <<>>, <<97>>, <<97, 98>>, <<65>>, <<65535>>, <<128512>> }       \* prefix, case, BMP end vs astral

KeyPairs == { kp \in Ks2 \X Ks2 : kp[1] # kp[2] }      \* both orders: MkObj sorts

\* containers over single elements E1, pair elements E2, hidden-able field values E3
Cont(E1, E2, E3) ==
       { Arr(<<>>), Obj(<<>>) }
  \cup { Arr(<<x>>) : x \in E1 }
  \cup { Arr(<<x, y>>) : x \in E2, y \in E2 }
  \cup { MkObj(<<Fld(k, h, x)>>) : k \in Ks, h \in BOOLEAN, x \in E2 }
  \cup { MkObj(<<Fld(kp[1], h1, x), Fld(kp[2], h2, y)>>) :
           kp \in KeyPairs, h1 \in BOOLEAN, h2 \in BOOLEAN, x \in E3, y \in E3 }
  \cup { MkObj(<<Fld(<<122>>, FALSE, x), Fld(<<97>>, TRUE, ErrElem), Fld(<<109>>, FALSE, y)>>) : x \in E3, y \in E3 }

L1 == Cont(P,
           IF Wide THEN { Null, IntV(1), Num(-1, 0, 0), Num(-1, 3, -1), Str(<<97>>), Str(<<34>>) }
                   ELSE { Null, IntV(1), Num(-1, 0, 0), Str(<<34>>) },
           IF Wide THEN { IntV(1), Str(<<10, 97>>), Null, Num(-1, 0, 0) } ELSE { IntV(1), Str(<<10, 97>>) })

\* representatives of depth 1 used as members of depth 2
R1 == { Arr(<<>>), Obj(<<>>), Arr(<<IntV(1)>>), Arr(<<Null, Str(<<97>>)>>),
        MkObj(<<Fld(<<97>>, FALSE, IntV(1))>>),
        MkObj(<<Fld(<<97>>, TRUE, IntV(1))>>),                                   \* all hidden: manifests as empty
        MkObj(<<Fld(<<34>>, FALSE, Num(-1, 0, 0)), Fld(<<98>>, TRUE, ErrElem)>>),
        MkObj(<<Fld(<<128512>>, FALSE, Bool(TRUE)), Fld(<<65535>>, FALSE, Str(<<>>))>>) }
L2 == Cont(R1 \cup { IntV(1) },
           IF Wide THEN R1 ELSE { Arr(<<>>), Obj(<<>>), Arr(<<IntV(1)>>), MkObj(<<Fld(<<97>>, FALSE, IntV(1))>>) },
           IF Wide THEN { Arr(<<IntV(1)>>), MkObj(<<Fld(<<97>>, TRUE, IntV(1))>>), Arr(<<>>),
                          MkObj(<<Fld(<<34>>, FALSE, Num(-1, 0, 0)), Fld(<<98>>, TRUE, ErrElem)>>) }
                   ELSE { Arr(<<IntV(1)>>), MkObj(<<Fld(<<97>>, TRUE, IntV(1))>>) })

R2 == { Arr(<<Arr(<<>>)>>), Arr(<<Obj(<<>>), Arr(<<IntV(1)>>)>>),
        MkObj(<<Fld(<<97>>, FALSE, MkObj(<<Fld(<<98>>, FALSE, IntV(1))>>))>>),
        MkObj(<<Fld(<<97>>, FALSE, Arr(<<>>))>>),
        MkObj(<<Fld(<<97>>, FALSE, MkObj(<<Fld(<<104>>, TRUE, IntV(1))>>))>>),
        MkObj(<<Fld(<<99>>, FALSE, Arr(<<IntV(1), IntV(2)>>)), Fld(<<97>>, TRUE, MkObj(<<Fld(<<98>>, FALSE, IntV(1))>>))>>),
        Arr(<<MkObj(<<Fld(<<97>>, FALSE, IntV(1))>>), MkObj(<<Fld(<<97>>, FALSE, IntV(2)), Fld(<<98>>, FALSE, Str(<<97>>))>>)>>),
        Arr(<<MkObj(<<Fld(<<97>>, FALSE, IntV(1))>>), IntV(3)>>) }
L3 == Cont(R2,
           IF Wide THEN R2 ELSE { Arr(<<Arr(<<>>)>>), MkObj(<<Fld(<<97>>, FALSE, MkObj(<<Fld(<<98>>, FALSE, IntV(1))>>))>>),
                                  Arr(<<MkObj(<<Fld(<<97>>, FALSE, IntV(1))>>), IntV(3)>>) },
           IF Wide THEN { Arr(<<Obj(<<>>), Arr(<<IntV(1)>>)>>), MkObj(<<Fld(<<97>>, FALSE, Arr(<<>>))>>),
                          MkObj(<<Fld(<<97>>, FALSE, MkObj(<<Fld(<<104>>, TRUE, IntV(1))>>))>>),
                          Arr(<<MkObj(<<Fld(<<97>>, FALSE, IntV(1))>>), IntV(3)>>) }
                   ELSE { Arr(<<Obj(<<>>), Arr(<<IntV(1)>>)>>), MkObj(<<Fld(<<97>>, FALSE, Arr(<<>>))>>) })

StructVals == P \cup L1 \cup L2 \cup (IF Depth >= 3 THEN L3 ELSE {})

\* -------------------------------------------------------------------- nums
\* a grid of dyadic rationals s*m*2^e whose decimal text has at most 9 significant digits
GridM == { 0 } \cup { m \in 1..(IF Wide THEN 63 ELSE 15) : m % 2 = 1 } \cup { 999, 65535, 1048575 }
GridE == IF Wide THEN -10..10 ELSE -6..6
NumGrid == { x \in { Num(s, m, e) : s \in {1, -1}, m \in GridM, e \in GridE } :
               /\ x.m # 0 \/ x.e = 0
               /\ NumInDomain(x)
               /\ (x.e >= 0 => x.m * Pow2(x.e) <= 999999999)
               /\ (x.e < 0 => x.m * Pow5(-x.e) <= 999999999) }
NumVals == NumGrid \cup { Obj(<<Fld(<<110>>, FALSE, x)>>) : x \in NumGrid }

\* -------------------------------------------------------------------- keys
YamlWords == {
  <<110, 117, 108, 108>>,   \* 'null'
  <<78, 117, 108, 108>>,   \* 'Null'
  <<78, 85, 76, 76>>,   \* 'NULL'
  <<110, 85, 108, 108>>,   \* 'nUll'
  <<116, 114, 117, 101>>,   \* 'true'
  <<84, 114, 117, 101>>,   \* 'True'
  <<84, 82, 85, 69>>,   \* 'TRUE'
  <<102, 97, 108, 115, 101>>,   \* 'false'
  <<70, 65, 76, 83, 69>>,   \* 'FALSE'
  <<121, 101, 115>>,   \* 'yes'
  <<89, 101, 115>>,   \* 'Yes'
  <<89, 69, 83>>,   \* 'YES'
  <<110, 111>>,   \* 'no'
  <<78, 111>>,   \* 'No'
  <<111, 110>>,   \* 'on'
  <<79, 110>>,   \* 'On'
  <<79, 78>>,   \* 'ON'
  <<111, 102, 102>>,   \* 'off'
  <<79, 70, 70>>,   \* 'OFF'
  <<121>>,   \* 'y'
  <<89>>,   \* 'Y'
  <<110>>,   \* 'n'
  <<78>>,   \* 'N'
  <<126>>,   \* '~'
  <<46, 110, 97, 110>>,   \* '.nan'
  <<46, 78, 97, 78>>,   \* '.NaN'
  <<46, 78, 65, 78>>,   \* '.NAN'
  <<46, 105, 110, 102>>,   \* '.inf'
  <<46, 73, 110, 102>>,   \* '.Inf'
  <<45, 46, 105, 110, 102>>,   \* '-.inf'
  <<43, 46, 105, 110, 102>>,   \* '+.inf'
  <<45, 46, 73, 78, 70>>,   \* '-.INF'
  <<50, 48, 50, 48, 45, 48, 49, 45, 48, 49>>,   \* '2020-01-01'
  <<50, 48, 50, 48, 45, 49, 45, 49>>,   \* '2020-1-1'
  <<49, 95, 48, 48, 48>>,   \* '1_000'
  <<49, 50, 58, 51, 48>>,   \* '12:30'
  <<49, 58, 51, 48, 58, 48, 48>>,   \* '1:30:00'
  <<48, 111, 55>>,   \* '0o7'
  <<48, 111, 49, 55>>,   \* '0o17'
  <<48, 48, 55>>,   \* '007'
  <<48, 120, 49, 70>>,   \* '0x1F'
  <<48, 120, 103>>,   \* '0xg'
  <<48, 98, 49, 48, 49>>,   \* '0b101'
  <<49, 101, 51>>,   \* '1e3'
  <<49, 69, 51>>,   \* '1E3'
  <<45, 49, 101, 51>>,   \* '-1e3'
  <<49, 101, 45, 51>>,   \* '1e-3'
  <<49, 46, 53>>,   \* '1.5'
  <<49, 46, 53, 101, 51>>,   \* '1.5e3'
  <<45, 49, 46, 53, 101, 45, 51>>,   \* '-1.5e-3'
  <<45, 48, 46, 48, 101, 45, 48>>,   \* '-0.0e-0'
  <<45, 50, 46, 53, 69, 45, 55>>,   \* '-2.5E-7'
  <<43, 49, 46, 53, 101, 43, 51>>,   \* '+1.5e+3'
  <<45, 49, 101, 45, 51>>,   \* '-1e-3'
  <<49, 46, 53, 101, 45, 51>>,   \* '1.5e-3'
  <<45, 49, 46, 53, 101, 51>>,   \* '-1.5e3'
  <<49, 101, 43, 51>>,   \* '1e+3'
  <<45, 46, 53, 101, 45, 49>>,   \* '-.5e-1'
  <<49, 95, 48, 46, 53, 101, 45, 49>>,   \* '1_0.5e-1'
  <<45, 49, 45, 49>>,   \* '-1-1'
  <<49, 46, 53, 101, 45, 45, 51>>,   \* '1.5e--3'
  <<45, 49, 46, 53, 101, 45, 51, 120>>,   \* '-1.5e-3x'
  <<45, 45, 49, 46, 53, 101, 51>>,   \* '--1.5e3'
  <<48, 120, 45, 49>>,   \* '0x-1'
  <<45, 48, 120, 49, 70>>,   \* '-0x1F'
  <<45, 48, 98, 49>>,   \* '-0b1'
  <<45, 48, 111, 55>>,   \* '-0o7'
  <<43, 48, 120, 49, 70>>,   \* '+0x1F'
  <<49, 46, 53, 101>>,   \* '1.5e'
  <<49, 46, 53, 101, 45>>,   \* '1.5e-'
  <<46, 101, 51>>,   \* '.e3'
  <<45, 46>>,   \* '-.'
  <<43, 46>>,   \* '+.'
  <<45, 49, 95, 48, 48, 48>>,   \* '-1_000'
  <<49, 95, 95, 48>>,   \* '1__0'
  <<46, 53, 101, 51>>,   \* '.5e3'
  <<53, 46, 101, 51>>,   \* '5.e3'
  <<46, 53>>,   \* '.5'
  <<45, 46, 53>>,   \* '-.5'
  <<53, 46>>,   \* '5.'
  <<43, 49>>,   \* '+1'
  <<45, 49>>,   \* '-1'
  <<49, 45, 49>>,   \* '1-1'
  <<49, 45, 50, 45, 51, 45, 52>>,   \* '1-2-3-4'
  <<45>>,   \* '-'
  <<45, 45>>,   \* '--'
  <<45, 45, 45>>,   \* '---'
  <<45, 45, 45, 45>>,   \* '----'
  <<45, 45, 45, 97>>,   \* '---a'
  <<46, 46, 46>>,   \* '...'
  <<46>>,   \* '.'
  <<46, 46>>,   \* '..'
  <<45, 97>>,   \* '-a'
  <<97, 45>>,   \* 'a-'
  <<97, 46, 98>>,   \* 'a.b'
  <<97, 47, 98>>,   \* 'a/b'
  <<47>>,   \* '/'
  <<95>>,   \* '_'
  <<95, 95>>,   \* '__'
  <<97, 95, 98>>,   \* 'a_b'
  <<97, 32, 98>>,   \* 'a b'
  <<32, 97>>,   \* ' a'
  <<97, 32>>,   \* 'a '
  <<97, 58, 98>>,   \* 'a:b'
  <<97, 58, 32, 98>>,   \* 'a: b'
  <<97, 32, 58, 98>>,   \* 'a :b'
  <<35, 97>>,   \* '#a'
  <<97, 32, 35, 98>>,   \* 'a #b'
  <<97, 35, 98>>,   \* 'a#b'
  <<38, 97>>,   \* '&a'
  <<42, 97>>,   \* '*a'
  <<33, 97>>,   \* '!a'
  <<33, 33, 115, 116, 114>>,   \* '!!str'
  <<124>>,   \* '|'
  <<62>>,   \* '>'
  <<124, 45>>,   \* '|-'
  <<64, 97>>,   \* '@a'
  <<96, 97>>,   \* '`a'
  <<37, 97>>,   \* '%a'
  <<91, 97, 93>>,   \* '[a]'
  <<123, 97, 125>>,   \* '{a}'
  <<97, 44, 98>>,   \* 'a,b'
  <<63>>,   \* '?'
  <<63, 32, 97>>,   \* '? a'
  <<45, 32, 97>>,   \* '- a'
  <<45, 32, 32, 97>>,   \* '-  a'
  <<60, 60>>,   \* '<<'
  <<61>>,   \* '='
  <<39, 97, 39>>,   \* "'a'"
  <<34, 97, 34>>,   \* '"a"'
  <<97, 39, 98>>,   \* "a'b"
  <<92>>,   \* '\\'
  <<97, 92, 110, 98>>,   \* 'a\\nb'
  <<233>>,   \* '\xe9'
  <<26085, 26412>>,   \* '\u65e5\u672c'
  <<128512>>,   \* '\U0001f600'
  <<107, 101, 121>>,   \* 'key'
  <<75, 101, 121, 57>>,   \* 'Key9'
  <<97, 9, 98>>,   \* 'a\tb'
  <<97, 10, 98>>,   \* 'a\nb'
  <<10>>,   \* '\n'
  <<9>>,   \* '\t'
  <<32>>,   \* ' '
  <<>>   \* ''
}
DecoderAccepts ==
  /\ DecodesTo(<<49, 101, 50>>, IntV(100))    \* '1e2'
  /\ DecodesTo(<<49, 46, 53, 69, 43, 49>>, IntV(15))    \* '1.5E+1'
  /\ DecodesTo(<<50, 53, 101, 45, 50>>, Num(1, 1, -2))    \* '25e-2'
  /\ DecodesTo(<<45, 48, 46, 48>>, Num(-1, 0, 0))    \* '-0.0'
  /\ DecodesTo(<<45, 48>>, Num(-1, 0, 0))    \* '-0'
  /\ DecodesTo(<<48>>, Num(1, 0, 0))    \* '0'
  /\ DecodesTo(<<48, 46, 49>>, NumX)    \* '0.1'
  /\ DecodesTo(<<49, 101, 52, 48, 48>>, NumX)    \* '1e400'
  /\ DecodesTo(<<49, 48, 48, 101, 45, 50>>, IntV(1))    \* '100e-2'
  /\ DecodesTo(<<48, 46, 48, 48, 55, 56, 49, 50, 53>>, Num(1, 1, -7))    \* '0.0078125'
  /\ DecodesTo(<<32, 91, 32, 49, 32, 44, 32, 50, 32, 93, 10>>, Arr(<<IntV(1), IntV(2)>>))    \* ' [ 1 , 2 ]\n'
  /\ DecodesTo(<<91, 93>>, Arr(<<>>))    \* '[]'
  /\ DecodesTo(<<123, 32, 125>>, Obj(<<>>))    \* '{ }'
  /\ DecodesTo(<<123, 34, 98, 34, 58, 49, 44, 34, 97, 34, 58, 91, 110, 117, 108, 108, 44, 116, 114, 117, 101, 44, 102, 97, 108, 115, 101, 93, 125>>, Obj(<<Fld(<<98>>, FALSE, IntV(1)), Fld(<<97>>, FALSE, Arr(<<Null, Bool(TRUE), Bool(FALSE)>>))>>))    \* '{"b":1,"a":[null,true,false]}'
  /\ DecodesTo(<<34, 92, 117, 48, 48, 49, 102, 92, 117, 48, 48, 101, 57, 92, 47, 92, 98, 92, 102, 92, 110, 92, 114, 92, 116, 92, 34, 92, 92, 34>>, Str(<<31, 233, 47, 8, 12, 10, 13, 9, 34, 92>>))    \* '"\\u001f\\u00e9\\/\\b\\f\\n\\r\\t\\"\\\\"'
  /\ DecodesTo(<<34, 92, 117, 100, 56, 51, 100, 92, 117, 100, 101, 48, 48, 34>>, Str(<<128512>>))    \* '"\\ud83d\\ude00"'
  /\ DecodesTo(<<34, 92, 117, 68, 56, 51, 68, 92, 117, 68, 69, 48, 48, 34>>, Str(<<128512>>))    \* '"\\uD83D\\uDE00"'
  /\ DecodesTo(<<34, 127, 8232, 34>>, Str(<<127, 8232>>))    \* '"\x7f\u2028"'
  /\ DecodesTo(<<34, 34>>, Str(<<>>))    \* '""'
  /\ DecodesTo(<<9, 13, 10, 32, 110, 117, 108, 108, 32, 9>>, Null)    \* '\t\r\n null \t'
DecoderRejects ==
  /\ Rejected(<<>>)    \* ''
  /\ Rejected(<<32, 32>>)    \* '  '
  /\ Rejected(<<110, 117, 108>>)    \* 'nul'
  /\ Rejected(<<110, 117, 108, 108, 108>>)    \* 'nulll'
  /\ Rejected(<<110, 117, 108, 108, 32, 110, 117, 108, 108>>)    \* 'null null'
  /\ Rejected(<<116, 114, 117>>)    \* 'tru'
  /\ Rejected(<<48, 49>>)    \* '01'
  /\ Rejected(<<49, 46>>)    \* '1.'
  /\ Rejected(<<46, 53>>)    \* '.5'
  /\ Rejected(<<43, 49>>)    \* '+1'
  /\ Rejected(<<45>>)    \* '-'
  /\ Rejected(<<49, 101>>)    \* '1e'
  /\ Rejected(<<49, 101, 43>>)    \* '1e+'
  /\ Rejected(<<45, 97>>)    \* '-a'
  /\ Rejected(<<91, 49, 44, 93>>)    \* '[1,]'
  /\ Rejected(<<91, 44, 49, 93>>)    \* '[,1]'
  /\ Rejected(<<91, 49, 32, 50, 93>>)    \* '[1 2]'
  /\ Rejected(<<91>>)    \* '['
  /\ Rejected(<<91, 49>>)    \* '[1'
  /\ Rejected(<<123, 34, 97, 34, 58, 49, 44, 125>>)    \* '{"a":1,}'
  /\ Rejected(<<123, 34, 97, 34, 32, 49, 125>>)    \* '{"a" 1}'
  /\ Rejected(<<123, 97, 58, 49, 125>>)    \* '{a:1}'
  /\ Rejected(<<123, 34, 97, 34, 58, 125>>)    \* '{"a":}'
  /\ Rejected(<<123, 34, 97, 34, 58, 49>>)    \* '{"a":1'
  /\ Rejected(<<123, 44, 125>>)    \* '{,}'
  /\ Rejected(<<34, 97>>)    \* '"a'
  /\ Rejected(<<34, 31, 34>>)    \* '"\x1f"'
  /\ Rejected(<<34, 10, 34>>)    \* '"\n"'
  /\ Rejected(<<34, 9, 34>>)    \* '"\t"'
  /\ Rejected(<<34, 0, 34>>)    \* '"\x00"'
  /\ Rejected(<<34, 92, 120, 52, 49, 34>>)    \* '"\\x41"'
  /\ Rejected(<<34, 92, 117, 49, 50, 34>>)    \* '"\\u12"'
  /\ Rejected(<<34, 92, 117, 49, 50, 103, 52, 34>>)    \* '"\\u12g4"'
  /\ Rejected(<<34, 92, 117, 100, 56, 51, 100, 34>>)    \* '"\\ud83d"'
  /\ Rejected(<<34, 92, 117, 100, 56, 51, 100, 120, 34>>)    \* '"\\ud83dx"'
  /\ Rejected(<<34, 92, 117, 100, 101, 48, 48, 34>>)    \* '"\\ude00"'
  /\ Rejected(<<34, 92, 117, 100, 56, 51, 100, 92, 117, 48, 48, 52, 49, 34>>)    \* '"\\ud83d\\u0041"'
  /\ Rejected(<<39, 97, 39>>)    \* "'a'"
  /\ Rejected(<<78, 97, 78>>)    \* 'NaN'
  /\ Rejected(<<73, 110, 102, 105, 110, 105, 116, 121>>)    \* 'Infinity'
  /\ Rejected(<<45, 73, 110, 102, 105, 110, 105, 116, 121>>)    \* '-Infinity'
  /\ Rejected(<<105, 110, 102>>)    \* 'inf'
  /\ Rejected(<<49, 32, 50>>)    \* '1 2'
  /\ Rejected(<<91, 49, 93, 93>>)    \* '[1]]'
  /\ Rejected(<<123, 34, 97, 34, 58, 49, 125, 125>>)    \* '{"a":1}}'
  /\ Rejected(<<34, 97, 34, 98>>)    \* '"a"b'
  /\ Rejected(<<65279, 49>>)    \* '\ufeff1'

\* keys that need quoting / escaping as ANCESTORS of nested containers (table headers, nested
\* mappings): three levels of objects, and an array of objects below two levels
NestKeys == { <<>>, <<97>>, <<46>>, <<97, 46, 98>>, <<32>>, <<97, 32, 98>>, <<34>>, <<39>>, <<92>>, <<233>>,
              <<128512>>, <<10>>, <<49>>, <<45>>, <<35>>, <<91>>, <<61>> }
NestedKeyVals ==
       { Obj(<<Fld(k, FALSE, Obj(<<Fld(<<105>>, FALSE, Obj(<<Fld(<<118>>, FALSE, IntV(2))>>))>>))>>) : k \in NestKeys }
  \cup { Obj(<<Fld(<<111>>, FALSE, Obj(<<Fld(k, FALSE, Obj(<<Fld(<<118>>, FALSE, IntV(2))>>))>>))>>) : k \in NestKeys }
  \cup { Obj(<<Fld(k, FALSE, Obj(<<Fld(k, FALSE, Obj(<<Fld(k, FALSE, Str(k))>>))>>))>>) : k \in NestKeys }
  \cup { Obj(<<Fld(k, FALSE, Obj(<<Fld(<<105>>, FALSE, Arr(<<Obj(<<Fld(<<118>>, FALSE, IntV(2))>>),
                                                                Obj(<<Fld(k, FALSE, Obj(<<>>))>>)>>))>>))>>) : k \in NestKeys }

KeyAlphabet == { 48, 49, 55, 45, 95, 46, 101, 120, 98, 111, 97, 47 }      \* 0 1 7 - _ . e x b o a /
KeyStrings == UNION { [1..n -> KeyAlphabet] : n \in 1..KeyLen }
KeyVals == { Obj(<<Fld(k, FALSE, IntV(1))>>) : k \in YamlWords \cup KeyStrings }
           \cup { MkObj(<<Fld(<<121>>, FALSE, Str(k)), Fld(<<49>>, FALSE, Arr(<<Str(k)>>))>>) : k \in YamlWords }
           \cup NestedKeyVals

\* ------------------------------------------------------------------- model
UniverseOf(mode) == CASE mode = "chars"  -> CharVals
                      [] mode = "struct" -> StructVals
                      [] mode = "keys"   -> KeyVals
                      [] mode = "nums"   -> NumVals
FormatsOf(mode) == IF mode = "keys" THEN { FmtMulti, FmtMinified }
                   ELSE IF mode = "nums" THEN { FmtMulti, FmtMinified, FmtToString }
                   ELSE AllFormats

Init == \E mode \in Modes : u = mode /\ v \in UniverseOf(mode) /\ f \in FormatsOf(mode)
Next == UNCHANGED <<u, v, f>>

Laws == LawJson(v, f)
InDomain == Manifestable(v)

Emit == PrintT(<<"CASE", ToJson([u |-> u, v |-> v, f |-> f, text |-> JsonEncodeF(v, f),
                                  tostring |-> ToStringText(v)])>>)

ASSUME DecoderAccepts
ASSUME DecoderRejects
\* the equalities upstream std.jsonnet states between the named entry points
ASSUME \A x \in R1 \cup R2 :
          /\ JsonEncodeF(x, FmtMinified) = JsonEncode(x, <<>>, <<>>, <<58>>)
          /\ JsonEncodeF(x, FmtManifestJson) = JsonEncode(x, <<32, 32, 32, 32>>, <<10>>, <<58, 32>>)
=============================================================================
