-------------------------------- MODULE Num --------------------------------
(***************************************************************************)
(* Reference level for property C06: "numbers are always finite doubles,   *)
(* read and printed exactly".                                              *)
(*                                                                         *)
(* TLC has 32-bit integers and no floating point, so IEEE-754 binary64     *)
(* arithmetic (round to nearest, ties to even) is reasoned about           *)
(* symbolically on the family D of boundary doubles                        *)
(*                                                                         *)
(*    Z(s)     = s * 0                     (signed zero)                   *)
(*    P(s, e)  = s * 2^e                   -1074 <= e <= 1023              *)
(*    M(s, e)  = s * (2^53 - 1) * 2^e      -1074 <= e <= 971               *)
(*                                                                         *)
(* P(1,-1074) is the least subnormal, P(1,-1022) the least normal,         *)
(* M(1,971) = MAX = 1.7976931348623157e308, M(1,0) = 2^53-1.  Every        *)
(* operator below is defined on all of D (the case analysis is on the      *)
(* exponents, derived from the definition of round-to-nearest-even) and    *)
(* answers with a RESULT CLASS:                                            *)
(*                                                                         *)
(*    [c |-> "val", v |-> d]   the exact IEEE result is d \in D            *)
(*    [c |-> "int", n |-> n]   the exact result is the small integer n     *)
(*    [c |-> "fin", b |-> b]   a finite double v, |v| < 2^b, value not     *)
(*                             given by this specification                 *)
(*    [c |-> "ovf"]            the IEEE result is +-infinity               *)
(*    [c |-> "nan"]            the IEEE result is NaN                      *)
(*    [c |-> "err", w |-> w]   the language defines an error (division by  *)
(*                             zero, unsafe bitwise operand, empty array)  *)
(*    [c |-> "any"]            not decided here (Outside; operator Undec)  *)
(*    [c |-> "arr", a |-> <<d...>>]   array of values (std.sort)           *)
(*                                                                         *)
(* THE RULE OF THE PROPERTY (operator Expect): a producer whose result     *)
(* class is "ovf" or "nan" must report an error; it never yields the       *)
(* infinity / NaN as a value.                                              *)
(*                                                                         *)
(* Thresholds used throughout (binary64, ties to even):                    *)
(*   overflow  iff |exact| >= 2^1024 - 2^970  (halfway MAX .. 2^1024)      *)
(*   |exact| <= 2^-1075 rounds to zero (tie goes to the even 0)            *)
(***************************************************************************)
EXTENDS Integers, Sequences, FiniteSets, TLC

Z(s)    == [s |-> s, k |-> "z", e |-> 0]
P(s, e) == [s |-> s, k |-> "p", e |-> e]
M(s, e) == [s |-> s, k |-> "m", e |-> e]

WellFormed(x) ==
  /\ x.s \in {1, -1}
  /\ \/ x.k = "z" /\ x.e = 0
     \/ x.k = "p" /\ x.e \in -1074..1023
     \/ x.k = "m" /\ x.e \in -1074..971

Val(v)  == [c |-> "val", v |-> v]
IntR(n) == [c |-> "int", n |-> n]
Fin(b)  == [c |-> "fin", b |-> b]
Ovf     == [c |-> "ovf"]
NaN     == [c |-> "nan"]
Err(w)  == [c |-> "err", w |-> w]
Undec   == [c |-> "any"]
ArrR(a) == [c |-> "arr", a |-> a]

One  == P(1, 0)
Half == P(1, -1)
Two  == P(1, 1)

\* what the property demands of the implementation for a result class
Expect(r) ==
  CASE r.c \in {"ovf", "nan", "err"} -> "error"
    [] r.c \in {"val", "int", "fin", "arr"} -> "ok"
    [] OTHER -> "any"

Max2(i, j) == IF i > j THEN i ELSE j
Min2(i, j) == IF i < j THEN i ELSE j
AbsI(i) == IF i < 0 THEN -i ELSE i

\* exact log2 of a small positive integer that is a power of two, else -1
RECURSIVE Log2Of(_)
Log2Of(n) == IF n = 1 THEN 0
             ELSE IF n < 1 \/ n % 2 = 1 THEN -1
             ELSE LET r == Log2Of(n \div 2) IN IF r < 0 THEN -1 ELSE r + 1

\* canonical result for a small integer
IntToR(n) ==
  IF n = 0 THEN Val(Z(1))
  ELSE LET l == Log2Of(AbsI(n)) IN
       IF l >= 0 THEN Val(P(IF n < 0 THEN -1 ELSE 1, l)) ELSE IntR(n)

\* the small integer a result denotes (only used where the result is one)
ResInt(r) == CASE r.c = "int" -> r.n
               [] r.c = "val" /\ r.v.k = "z" -> 0
               [] r.c = "val" /\ r.v.k = "p" /\ r.v.e \in 0..10 ->
                    r.v.s * (LET p[i \in 0..10] == IF i = 0 THEN 1 ELSE 2 * p[i-1] IN p[r.v.e])

(***************************************************************************)
(* Order                                                                   *)
(***************************************************************************)
\* magnitudes: M(b) lies strictly between 2^(b+52) and 2^(b+53)
MagCmp(x, y) ==
  IF x.k = "z" \/ y.k = "z"
  THEN (IF x.k = y.k THEN 0 ELSE IF x.k = "z" THEN -1 ELSE 1)
  ELSE IF x.k = y.k THEN (IF x.e < y.e THEN -1 ELSE IF x.e > y.e THEN 1 ELSE 0)
  ELSE IF x.k = "p" THEN (IF x.e >= y.e + 53 THEN 1 ELSE -1)
  ELSE (IF y.e >= x.e + 53 THEN -1 ELSE 1)

Sg(x) == IF x.k = "z" THEN 0 ELSE x.s

\* numeric comparison (0 and -0 are equal): -1, 0, 1
NumCmp(x, y) ==
  IF Sg(x) # Sg(y) THEN (IF Sg(x) < Sg(y) THEN -1 ELSE 1)
  ELSE IF Sg(x) = 0 THEN 0
  ELSE Sg(x) * MagCmp(x, y)

\* |x| < 2^Hi(x)
Hi(x) == CASE x.k = "z" -> -1074
           [] x.k = "p" -> x.e + 1
           [] x.k = "m" -> x.e + 53

Neg(x) == [x EXCEPT !.s = -x.s]
WithSign(x, s) == [x EXCEPT !.s = s]

IsIntegral(x) == x.k = "z" \/ x.e >= 0
IsOddInt(x)   == x.k # "z" /\ x.e = 0          \* 1 and 2^53-1 (times a sign)

(***************************************************************************)
(* Rounding of an exact value that is a power of two / M times a power of  *)
(* two but may lie outside the format's range.                             *)
(*   2^e, e <= -1075: at most half of the least subnormal -> 0 (tie->even) *)
(*   M*2^e = 2^(e+53) - 2^e with e < -1074: the subtracted part is at most *)
(*   half a quantum, ties resolve to the even neighbour 2^(e+53)           *)
(***************************************************************************)
RoundP(s, e) == IF e >= 1024 THEN Ovf
                ELSE IF e >= -1074 THEN Val(P(s, e))
                ELSE Val(Z(s))
RoundM(s, e) == IF e >= 972 THEN Ovf
                ELSE IF e >= -1074 THEN Val(M(s, e))
                ELSE IF e + 53 >= -1074 THEN Val(P(s, e + 53))
                ELSE Val(Z(s))

(***************************************************************************)
(* x + y                                                                   *)
(***************************************************************************)
\* |x| >= |y| > 0, result carries sign s
AddMag(s, x, y) ==
  CASE x.k = "p" /\ y.k = "p" ->
         LET d == x.e - y.e IN
         IF d = 0 THEN RoundP(s, x.e + 1)
         ELSE IF d >= 53 THEN Val(P(s, x.e))          \* d = 53 is a tie -> even
         ELSE Fin(x.e + 1)
    [] x.k = "m" /\ y.k = "m" ->
         LET d == x.e - y.e IN
         IF d = 0 THEN RoundM(s, x.e + 1)
         ELSE IF d >= 54 THEN Val(M(s, x.e))          \* y < half an ulp of x
         ELSE IF x.e = 971 THEN Ovf                   \* MAX + (something >= 2^970)
         ELSE Fin(x.e + 54)
    [] x.k = "m" /\ y.k = "p" ->                      \* y.e <= x.e + 52
         LET b == x.e  a == y.e IN
         IF a <= b - 2 THEN Val(M(s, b))              \* below half an ulp (2^(b-1))
         ELSE IF a <= b + 1 THEN RoundP(s, b + 53)    \* tie / exact / tie: the even neighbour is 2^(b+53)
         ELSE IF b + 53 >= 1024 THEN Ovf
         ELSE Fin(b + 54)
    [] x.k = "p" /\ y.k = "m" ->                      \* x.e >= y.e + 53
         LET a == x.e  b == y.e IN
         IF a = b + 53 THEN RoundP(s, a + 1)          \* 2^(a+1) - 2^b: tie -> even
         ELSE IF a - b >= 106 THEN Val(P(s, a))
         ELSE Fin(a + 1)

\* |x| > |y| > 0, result carries sign s
SubMag(s, x, y) ==
  CASE x.k = "p" /\ y.k = "p" ->
         LET d == x.e - y.e IN
         IF d = 1 THEN Val(P(s, y.e))
         ELSE IF d = 53 THEN Val(M(s, y.e))
         ELSE IF d >= 54 THEN Val(P(s, x.e))          \* d = 54 is a tie -> even
         ELSE Fin(x.e + 1)
    [] x.k = "m" /\ y.k = "m" ->
         LET d == x.e - y.e IN
         IF d = 1 THEN Val(M(s, y.e))
         ELSE IF d >= 54 THEN Val(M(s, x.e))
         ELSE Fin(x.e + 53)
    [] x.k = "p" /\ y.k = "m" ->                      \* x.e >= y.e + 53
         LET a == x.e  b == y.e IN
         IF a = b + 53 THEN Val(P(s, b))
         ELSE IF a - b >= 107 THEN Val(P(s, a))
         ELSE Fin(a + 1)
    [] x.k = "m" /\ y.k = "p" ->                      \* y.e <= x.e + 52
         IF y.e <= x.e - 2 THEN Val(M(s, x.e)) ELSE Fin(x.e + 53)

Add(x, y) ==
  IF x.k = "z" /\ y.k = "z" THEN Val(Z(IF x.s = -1 /\ y.s = -1 THEN -1 ELSE 1))
  ELSE IF x.k = "z" THEN Val(y)
  ELSE IF y.k = "z" THEN Val(x)
  ELSE IF x.s = y.s THEN (IF MagCmp(x, y) >= 0 THEN AddMag(x.s, x, y) ELSE AddMag(x.s, y, x))
  ELSE LET c == MagCmp(x, y) IN
       IF c = 0 THEN Val(Z(1))
       ELSE IF c > 0 THEN SubMag(x.s, x, y) ELSE SubMag(y.s, y, x)

Sub(x, y) == Add(x, Neg(y))

(***************************************************************************)
(* x * y, x / y, x % y (C fmod: exact, sign of the dividend)               *)
(***************************************************************************)
Mul(x, y) ==
  LET s == x.s * y.s IN
  IF x.k = "z" \/ y.k = "z" THEN Val(Z(s))
  ELSE IF x.k = "p" /\ y.k = "p" THEN RoundP(s, x.e + y.e)
  ELSE IF x.k = "m" /\ y.k = "m" THEN
       \* M^2 = 2^106 - 2^54 + 1; M^2 * 2^918 < 2^1024 - 2^970 <= M^2 * 2^919
       IF x.e + y.e >= 919 THEN Ovf
       ELSE IF x.e + y.e >= -1021 THEN Fin(Min2(1024, x.e + y.e + 106))
       ELSE Undec
  ELSE RoundM(s, x.e + y.e)

Div(x, y) ==
  LET s == x.s * y.s IN
  IF y.k = "z" THEN Err("div0")
  ELSE IF x.k = "z" THEN Val(Z(s))
  ELSE IF x.k = "p" /\ y.k = "p" THEN RoundP(s, x.e - y.e)
  ELSE IF x.k = "m" /\ y.k = "p" THEN RoundM(s, x.e - y.e)
  ELSE IF x.k = "m" /\ y.k = "m" THEN RoundP(s, x.e - y.e)
  ELSE \* 2^a / (M 2^b) = 2^(a-b-53) * (1 + 2^-53 + 2^-106 + ...)
       LET q == x.e - y.e - 53 IN
       IF q >= 1024 THEN Ovf
       ELSE IF q >= -1022 THEN Fin(q + 1)
       ELSE IF q >= -1074 THEN Val(P(s, q))       \* excess far below half a quantum
       ELSE IF q = -1075 THEN Val(P(s, -1074))    \* just above the half quantum
       ELSE Val(Z(s))

Mod(x, y) ==
  IF y.k = "z" THEN Err("div0")
  ELSE IF x.k = "z" THEN Val(x)
  ELSE LET c == MagCmp(x, y) IN
       IF c < 0 THEN Val(x)
       ELSE IF c = 0 THEN Val(Z(x.s))
       ELSE CASE x.k = y.k -> Val(Z(x.s))                       \* a multiple
              [] x.k = "m" /\ y.k = "p" ->
                   \* M 2^a mod 2^b = 2^a (2^(b-a) - 1) when a < b, else 0
                   IF x.e >= y.e THEN Val(Z(x.s))
                   ELSE IF y.e - x.e = 1 THEN Val(P(x.s, x.e))
                   ELSE Fin(y.e)
              [] x.k = "p" /\ y.k = "m" ->
                   \* 2^53 = 1 (mod M): 2^a mod M 2^b = 2^(b + (a-b) mod 53)
                   Val(P(x.s, y.e + ((x.e - y.e) % 53)))

(***************************************************************************)
(* Chaining: the next operation on an earlier result.                      *)
(***************************************************************************)
ResHi(r) == CASE r.c = "val" -> Hi(r.v) [] r.c = "int" -> 31 [] r.c = "fin" -> r.b [] OTHER -> 1024

AddR(r, y) ==
  CASE r.c = "val" -> Add(r.v, y)
    [] r.c \in {"fin", "int"} ->
         LET h == Max2(ResHi(r), Hi(y)) IN IF h + 1 <= 1023 THEN Fin(h + 1) ELSE Undec
    [] r.c \in {"ovf", "nan", "err"} -> r          \* evaluation already failed
    [] OTHER -> Undec

(***************************************************************************)
(* Unary builtins                                                          *)
(***************************************************************************)
Pos(x) == Val(x)
NegR(x) == Val(Neg(x))

Floor(x) ==
  IF x.k = "z" \/ x.e >= 0 THEN Val(x)
  ELSE IF x.k = "m" /\ x.e > -53 THEN Undec
  ELSE IF x.s = 1 THEN Val(Z(1)) ELSE Val(P(-1, 0))
Ceil(x) ==
  IF x.k = "z" \/ x.e >= 0 THEN Val(x)
  ELSE IF x.k = "m" /\ x.e > -53 THEN Undec
  ELSE IF x.s = 1 THEN Val(One) ELSE Val(Z(-1))

\* std.round(x) = std.floor(x + 0.5)
Round(x) ==
  LET r == Add(x, Half) IN
  CASE r.c = "val" -> Floor(r.v)
    [] r.c = "fin" -> Fin(Min2(1024, r.b + 1))
    [] OTHER -> r

\* std.abs(n) = if n > 0 then n else -n;  std.sign
Abs(x) == IF NumCmp(x, Z(1)) > 0 THEN Val(x) ELSE Val(Neg(x))
Sign(x) == IF NumCmp(x, Z(1)) > 0 THEN Val(One)
           ELSE IF NumCmp(x, Z(1)) < 0 THEN Val(P(-1, 0)) ELSE Val(Z(1))

\* frexp: x = mantissa * 2^exponent, 0.5 <= |mantissa| < 1
Mantissa(x) == CASE x.k = "z" -> Val(x)
                 [] x.k = "p" -> Val(P(x.s, -1))
                 [] x.k = "m" -> Val(M(x.s, -53))
ExponentI(x) == CASE x.k = "z" -> 0 [] x.k = "p" -> x.e + 1 [] x.k = "m" -> x.e + 53
Exponent(x) == IntToR(ExponentI(x))

Sqrt(x) ==
  IF x.k = "z" THEN Val(x)
  ELSE IF x.s = -1 THEN NaN
  ELSE IF x.k = "p" /\ x.e % 2 = 0 THEN Val(P(1, x.e \div 2))     \* correctly rounded, exact
  ELSE Fin(513)

\* e^x overflows iff x > 709.78...; x = 2^e: e >= 10 overflows, e <= 9 does not
Exp(x) ==
  IF x.k = "z" THEN Val(One)
  ELSE IF x.s = -1 THEN Fin(1)
  ELSE IF x.k = "p" THEN (IF x.e >= 10 THEN Ovf ELSE Fin(1024))
  ELSE IF x.e >= -42 THEN Ovf ELSE Undec

LogLike(x) ==                     \* log, log2, log10
  IF x.k = "z" THEN Ovf           \* -infinity
  ELSE IF x.s = -1 THEN NaN
  ELSE IF x = One THEN Val(Z(1))
  ELSE Fin(11)

Sin(x) == IF x.k = "z" THEN Val(x) ELSE Fin(1)
Cos(x) == IF x.k = "z" THEN Val(One) ELSE Fin(1)
Tan(x) == IF x.k = "z" THEN Val(x) ELSE Fin(1024)
Asin(x) == IF x.k = "z" THEN Val(x) ELSE IF MagCmp(x, One) > 0 THEN NaN ELSE Fin(1)
Acos(x) == IF x = One THEN Val(Z(1)) ELSE IF MagCmp(x, One) > 0 THEN NaN ELSE Fin(2)
Atan(x) == IF x.k = "z" THEN Val(x) ELSE Fin(1)

Deg2Rad(x) == IF x.k = "z" THEN Val(x) ELSE Fin(Hi(x))
\* 180/pi = 57.29... in (2^5, 2^6); 2^1018 * 57.3 < MAX < 2^1019 * 57.29
Rad2Deg(x) == IF x.k = "z" THEN Val(x)
              ELSE IF Hi(x) >= 1020 THEN Ovf
              ELSE Fin(Min2(1024, Hi(x) + 6))

(***************************************************************************)
(* Bitwise operators: operands are converted to 64-bit integers by         *)
(* truncation; operands outside [-(2^53-1), 2^53-1] are an error.          *)
(* Small operands (|n| <= 2) are computed exactly (3-bit two's complement  *)
(* window, results lie in -4..3), 2^53-1 only by class.                    *)
(***************************************************************************)
Unsafe(x) == MagCmp(x, M(1, 0)) > 0
Small(x) == x.k = "z" \/ (x.k = "p" /\ x.e <= 1)
\* truncation toward zero of a small operand
TruncI(x) == IF x.k = "z" \/ x.e < 0 THEN 0 ELSE x.s * (IF x.e = 0 THEN 1 ELSE 2)

Bit(n, i) == (n \div (IF i = 0 THEN 1 ELSE IF i = 1 THEN 2 ELSE 4)) % 2
From3(u) == IF u >= 4 THEN u - 8 ELSE u
BitOp3(f(_, _), m, n) ==
  LET u == m % 8  v == n % 8 IN
  From3(f(Bit(u, 0), Bit(v, 0)) + 2 * f(Bit(u, 1), Bit(v, 1)) + 4 * f(Bit(u, 2), Bit(v, 2)))
AndB(p, q) == p * q
OrB(p, q)  == IF p + q > 0 THEN 1 ELSE 0
XorB(p, q) == (p + q) % 2

BitBin(f(_, _), x, y) ==
  IF Unsafe(x) \/ Unsafe(y) THEN Err("unsafe")
  ELSE IF Small(x) /\ Small(y) THEN IntToR(BitOp3(f, TruncI(x), TruncI(y)))
  ELSE Fin(54)
BitAnd(x, y) == BitBin(AndB, x, y)
BitOr(x, y)  == BitBin(OrB, x, y)
BitXor(x, y) == BitBin(XorB, x, y)

BitNot(x) ==
  IF Unsafe(x) THEN Err("unsafe")
  ELSE IF Small(x) THEN IntToR(-TruncI(x) - 1)
  ELSE IF x = M(1, 0) THEN Val(P(-1, 53)) ELSE Fin(54)       \* ~(2^53-1) = -2^53

\* shift count = truncated right operand modulo 64; only 0, 1, 2 and 63 (= (2^53-1) mod 64) arise
Pow2I(n) == IF n = 0 THEN 1 ELSE IF n = 1 THEN 2 ELSE 4
Shift(left, x, y) ==
  IF Unsafe(x) \/ Unsafe(y) THEN Err("unsafe")
  ELSE IF y.s = -1 /\ y.k # "z" /\ y.e >= 0 THEN Err("negshift")
  ELSE IF y.s = -1 THEN Undec                    \* -0, -0.5: truncates to 0 but carries a sign
  ELSE IF ~Small(y) /\ y # M(1, 0) THEN Undec
  ELSE IF ~Small(y) THEN                       \* count 63
       (IF Small(x) /\ TruncI(x) = 0 THEN IntToR(0)
        ELSE IF ~left /\ Small(x) THEN IntToR(IF TruncI(x) < 0 THEN -1 ELSE 0)
        ELSE Undec)
  ELSE LET n == TruncI(y) IN
       IF Small(x) THEN (IF left THEN IntToR(TruncI(x) * Pow2I(n)) ELSE IntToR(TruncI(x) \div Pow2I(n)))
       ELSE IF n = 0 /\ IsIntegral(x) THEN Val(x)
       ELSE Fin(56)
Shl(x, y) == Shift(TRUE, x, y)
Shr(x, y) == Shift(FALSE, x, y)

(***************************************************************************)
(* Binary builtins                                                         *)
(***************************************************************************)
MaxN(x, y) == IF NumCmp(x, y) > 0 THEN Val(x) ELSE Val(y)     \* if a > b then a else b
MinN(x, y) == IF NumCmp(x, y) < 0 THEN Val(x) ELSE Val(y)     \* if a < b then a else b
Clamp(x, lo, hi) == IF NumCmp(x, lo) < 0 THEN Val(lo)
                    ELSE IF NumCmp(x, hi) > 0 THEN Val(hi) ELSE Val(x)

Atan2(y, x) == Fin(2)

\* sqrt(x^2 + y^2) computed without intermediate overflow
Hypot(x, y) ==
  IF x.k = "z" THEN Val(WithSign(y, 1))
  ELSE IF y.k = "z" THEN Val(WithSign(x, 1))
  ELSE LET big == IF MagCmp(x, y) >= 0 THEN x ELSE y
           sml == IF MagCmp(x, y) >= 0 THEN y ELSE x IN
       IF big.k = "p" THEN Fin(big.e + 1)
       ELSE IF big.e <= 970 THEN Fin(big.e + 54)
       \* big = MAX: overflow iff sml^2 >= about 2^1995
       ELSE IF Hi(sml) <= 900 THEN Fin(1024)
       ELSE IF MagCmp(sml, P(1, 998)) >= 0 THEN Ovf
       ELSE Undec

(***************************************************************************)
(* pow (C99 Annex F / IEEE 754-2008 special cases, then the magnitude      *)
(* 2^(y log2|x|) against the overflow threshold).  Values are given only   *)
(* for the cases every correct libm returns exactly.                       *)
(***************************************************************************)
Pow2S(n) == LET p[i \in 0..10] == IF i = 0 THEN 1 ELSE 2 * p[i-1] IN p[n]     \* 2^n, 0 <= n <= 10

PowMag(rs, x, y) ==       \* x # 0, y # 0, result sign rs already decided
  IF y = One THEN Val(WithSign(x, rs))
  ELSE IF x.k = "p" THEN
       IF x.e = 0 THEN Val(P(rs, 0))
       ELSE IF (y.k = "p" /\ y.e >= 11) \/ (y.k = "m" /\ y.e >= -42) THEN   \* |y| >= 2047
            (IF x.e * y.s > 0 THEN Ovf ELSE Fin(1))
       ELSE IF y.k = "m" THEN Undec
       ELSE IF y.e >= 0 THEN
            LET l == x.e * y.s * Pow2S(y.e) IN
            IF l >= 1024 THEN Ovf ELSE Fin(1024)
       ELSE Fin(1024)                        \* |y| <= 1/2: |log2 result| <= 537
  ELSE IF x.e < 0 THEN Undec
  ELSE \* |x| = M 2^a, a >= 0: a+52 < log2|x| < a+53
       IF y.s = -1 THEN Fin(1)
       ELSE IF (y.k = "p" /\ y.e >= 11) \/ y.k = "m" THEN (IF y.k = "m" /\ y.e < -42 THEN Undec ELSE Ovf)
       ELSE IF y.e >= 0 THEN
            LET lo == (x.e + 52) * Pow2S(y.e)   hi == (x.e + 53) * Pow2S(y.e) IN
            IF lo >= 1024 THEN Ovf ELSE IF hi <= 1023 THEN Fin(1024) ELSE Undec
       ELSE Fin(1024)

Pow(x, y) ==
  IF y.k = "z" THEN Val(One)                                   \* pow(x, +-0) = 1
  ELSE IF x = One THEN Val(One)                                \* pow(1, y) = 1
  ELSE IF x.k = "z" THEN
       (IF y.s = -1 THEN Ovf                                   \* divide-by-zero: +-infinity
        ELSE Val(Z(IF IsOddInt(y) THEN x.s ELSE 1)))
  ELSE IF x.s = -1 /\ ~IsIntegral(y) THEN NaN
  ELSE PowMag(IF x.s = -1 /\ IsOddInt(y) THEN -1 ELSE 1, x, y)

(***************************************************************************)
(* Array builtins (upstream std.jsonnet: sum = foldl(+, arr, 0),           *)
(* avg = sum / length, minArray / maxArray fold with < / >, sort by <)     *)
(***************************************************************************)
RECURSIVE SumFrom(_, _)
SumFrom(r, a) == IF a = <<>> THEN r ELSE SumFrom(AddR(r, Head(a)), Tail(a))
Sum(a) == SumFrom(Val(Z(1)), a)

Avg(a) ==
  IF a = <<>> THEN Err("empty")
  ELSE LET s == Sum(a) IN
       CASE s.c = "val" -> (CASE Len(a) = 1 -> s
                              [] Len(a) = 2 -> Div(s.v, Two)
                              [] Len(a) = 4 -> Div(s.v, P(1, 2))
                              [] OTHER -> IF s.v.k = "z" THEN s ELSE Fin(Hi(s.v)))
         [] s.c = "fin" -> s
         [] OTHER -> s

RECURSIVE MinFrom(_, _)
MinFrom(m, a) == IF a = <<>> THEN m
                 ELSE MinFrom(IF NumCmp(Head(a), m) < 0 THEN Head(a) ELSE m, Tail(a))
RECURSIVE MaxFrom(_, _)
MaxFrom(m, a) == IF a = <<>> THEN m
                 ELSE MaxFrom(IF NumCmp(Head(a), m) > 0 THEN Head(a) ELSE m, Tail(a))
MinArray(a) == IF a = <<>> THEN Err("empty") ELSE Val(MinFrom(Head(a), Tail(a)))
MaxArray(a) == IF a = <<>> THEN Err("empty") ELSE Val(MaxFrom(Head(a), Tail(a)))

\* stable insertion sort by NumCmp
RECURSIVE InsertSorted(_, _)
InsertSorted(x, s) == IF s = <<>> THEN <<x>>
                      ELSE IF NumCmp(x, Head(s)) < 0 THEN <<x>> \o s
                      ELSE <<Head(s)>> \o InsertSorted(x, Tail(s))
RECURSIVE SortNums(_)
SortNums(a) == IF a = <<>> THEN <<>>
              ELSE LET n == Len(a) IN InsertSorted(a[n], SortNums(SubSeq(a, 1, n - 1)))
Sort(a) == ArrR(SortNums(a))

(***************************************************************************)
(* Decimal literals.  A literal is                                         *)
(*    [ip |-> runs, fp |-> runs, hasf |-> BOOLEAN, ex |-> Int,             *)
(*     hase |-> BOOLEAN]                                                   *)
(* where runs is a sequence of <<digit, count>> pairs (the digits of the   *)
(* integer / fraction part, long runs kept symbolic) and ex the signed     *)
(* decimal exponent.  With digits drawn from {0, 1, 9} the comparison with *)
(* the overflow threshold 1.797693134862315807...e308 (halfway between MAX *)
(* and 2^1024) is decided by the decimal exponent and the first two        *)
(* significant digits, and the comparison with 2^-1075 = 2.47...e-324 by   *)
(* the exponent and the first digit.                                       *)
(***************************************************************************)
RECURSIVE RunsLen(_)
RunsLen(rs) == IF rs = <<>> THEN 0 ELSE Head(rs)[2] + RunsLen(Tail(rs))

\* number of leading zeros of a run sequence (all of it if it is all zeros)
RECURSIVE LeadZeros(_)
LeadZeros(rs) == IF rs = <<>> THEN 0
                 ELSE IF Head(rs)[1] = 0 \/ Head(rs)[2] = 0 THEN Head(rs)[2] + LeadZeros(Tail(rs))
                 ELSE 0
RECURSIVE AllZero(_)
AllZero(rs) == rs = <<>> \/ ((Head(rs)[1] = 0 \/ Head(rs)[2] = 0) /\ AllZero(Tail(rs)))

\* i-th digit (1-based) of a run sequence, -1 past the end
RECURSIVE DigitAt(_, _)
DigitAt(rs, i) == IF rs = <<>> THEN -1
                  ELSE IF i <= Head(rs)[2] THEN Head(rs)[1]
                  ELSE DigitAt(Tail(rs), i - Head(rs)[2])

AllDigits(l) == l.ip \o (IF l.hasf THEN l.fp ELSE <<>>)
LitIsZero(l) == AllZero(AllDigits(l))
\* value = 0.d1 d2 d3 ... * 10^DecExp(l), d1 # 0
DecExp(l) == RunsLen(l.ip) - LeadZeros(AllDigits(l)) + l.ex
D1(l) == DigitAt(AllDigits(l), LeadZeros(AllDigits(l)) + 1)
D2(l) == LET d == DigitAt(AllDigits(l), LeadZeros(AllDigits(l)) + 2) IN IF d < 0 THEN 0 ELSE d

\* the literal denotes an integer below 10^9: its value, else -1
RECURSIVE RunsValue(_, _)
RunsValue(rs, acc) ==      \* only called when the total length is <= 9
  IF rs = <<>> THEN acc
  ELSE IF Head(rs)[2] = 0 THEN RunsValue(Tail(rs), acc)
  ELSE RunsValue(<<<<Head(rs)[1], Head(rs)[2] - 1>>>> \o Tail(rs), 10 * acc + Head(rs)[1])
\* the run sequence without its last n digits / only its last n digits are zero
RECURSIVE DropLast(_, _)
DropLast(rs, n) == IF n = 0 \/ rs = <<>> THEN rs
                   ELSE LET l == rs[Len(rs)] IN
                        IF l[2] <= n THEN DropLast(SubSeq(rs, 1, Len(rs) - 1), n - l[2])
                        ELSE SubSeq(rs, 1, Len(rs) - 1) \o <<<<l[1], l[2] - n>>>>
RECURSIVE LastZeros(_)
LastZeros(rs) == IF rs = <<>> THEN 0
                 ELSE LET l == rs[Len(rs)] IN
                      IF l[1] = 0 \/ l[2] = 0 THEN l[2] + LastZeros(SubSeq(rs, 1, Len(rs) - 1)) ELSE 0

Pow10(n) == LET p[i \in 0..9] == IF i = 0 THEN 1 ELSE 10 * p[i-1] IN p[n]

LitIntValue(l) ==
  LET ds == AllDigits(l)
      sx == l.ex - (IF l.hasf THEN RunsLen(l.fp) ELSE 0)     \* value = int(ds) * 10^sx
      sig == RunsLen(ds) - LeadZeros(ds)                     \* significant digits
  IN IF LitIsZero(l) THEN 0
     ELSE IF sx >= 0 THEN (IF sig + sx <= 9 THEN RunsValue(ds, 0) * Pow10(sx) ELSE -1)
     ELSE IF -sx <= LastZeros(ds) /\ sig + sx <= 9 /\ sig + sx >= 1
          THEN RunsValue(DropLast(ds, -sx), 0)
     ELSE -1

LitClass(l) ==
  IF LitIsZero(l) THEN Val(Z(1))
  ELSE LET e == DecExp(l) IN
       IF e >= 310 THEN Ovf
       ELSE IF e = 309 THEN (IF D1(l) = 1 /\ D2(l) < 7 THEN Fin(1024)
                             ELSE IF D1(l) = 1 /\ D2(l) = 7 THEN Undec ELSE Ovf)
       ELSE IF e <= -324 THEN Val(Z(1))                \* < 1e-324 < 2^-1075
       ELSE IF e = -323 THEN (IF D1(l) = 1 THEN Val(Z(1))          \* < 2e-324 < 2^-1075
                              ELSE IF D1(l) = 2 THEN Undec ELSE Fin(1024))
       ELSE LET v == LitIntValue(l) IN
            IF v >= 0 THEN IntToR(v) ELSE Fin(1024)

(***************************************************************************)
(* std.parseHex / std.parseOctal (upstream: fold aggregate * base + digit  *)
(* with checked arithmetic) on the digit strings "1 0^k" = base^k and      *)
(* "d^k" = base^k - 1 (d the largest digit); bits = log2(base).            *)
(***************************************************************************)
RadixOne(bits, k) == RoundP(1, bits * k)
RadixMax(bits, k) == IF bits * k >= 1024 THEN Ovf ELSE Sub(P(1, bits * k), One)
\* a digit string of k digits whose value is (2^54 - 1) * 2^j: 54 one bits, then zeros.  It lies exactly
\* half-way between two doubles and the even neighbour is the upper one, 2^(54 + j): the string
\* "fffffffffffffc" + zeros (hex, 4k bits) or "1" + seventeen "7" + "6" + zeros (octal, 3k - 2 bits).
\* At 1024 bits the correctly rounded value does not exist (overflow) although the digits, cut off
\* after 53 bits, would still denote a finite double.
RadixTieMinK(bits) == IF bits = 4 THEN 14 ELSE 19
RadixTieBits(bits, k) == IF bits = 4 THEN 4 * k ELSE 3 * k - 2
RadixTie(bits, k) == RoundP(1, RadixTieBits(bits, k))

(***************************************************************************)
(* Laws checked by TLC on the specification itself                         *)
(***************************************************************************)
\* every value the specification ever yields is a finite double of D
ResOK(r) ==
  CASE r.c = "val" -> WellFormed(r.v)
    [] r.c = "fin" -> r.b \in -1074..1024
    [] r.c = "int" -> r.n \in -1000000000..1000000000
    [] r.c = "arr" -> \A i \in 1..Len(r.a) : WellFormed(r.a[i])
    [] r.c = "err" -> r.w \in {"div0", "unsafe", "negshift", "empty"}
    [] OTHER -> r.c \in {"ovf", "nan", "any"}

\* same number (zeros of either sign identified), same class otherwise
ZNorm(r) == IF r.c = "val" /\ r.v.k = "z" THEN Val(Z(1)) ELSE r
SameRes(r1, r2) ==
  LET a == ZNorm(r1)  b == ZNorm(r2) IN
  IF a.c = "fin" /\ b.c = "fin" THEN TRUE ELSE a = b
\* results agree as far as both are decided (fin is compatible with a value below its bound)
Compatible(r1, r2) ==
  \/ r1.c = "any" \/ r2.c = "any"
  \/ SameRes(r1, r2)
  \/ r1.c = "fin" /\ r2.c = "val" /\ Hi(r2.v) <= r1.b + 1
  \/ r2.c = "fin" /\ r1.c = "val" /\ Hi(r1.v) <= r2.b + 1
  \/ r1.c = "fin" /\ r2.c = "int"
  \/ r2.c = "fin" /\ r1.c = "int"
NegRes(r) == IF r.c = "val" THEN Val(Neg(r.v)) ELSE IF r.c = "int" THEN IntToR(-r.n) ELSE r
IsVal(r) == r.c = "val"

UnaryResults(x) == { Pos(x), NegR(x), Floor(x), Ceil(x), Round(x), Abs(x), Sign(x), Mantissa(x), Exponent(x),
                     Sqrt(x), Exp(x), LogLike(x), Sin(x), Cos(x), Tan(x), Asin(x), Acos(x), Atan(x),
                     Deg2Rad(x), Rad2Deg(x), BitNot(x) }
BinaryResults(x, y) == { Add(x, y), Sub(x, y), Mul(x, y), Div(x, y), Mod(x, y), Pow(x, y), Atan2(x, y), Hypot(x, y),
                         MaxN(x, y), MinN(x, y), BitAnd(x, y), BitOr(x, y), BitXor(x, y), Shl(x, y), Shr(x, y) }

LawUnaryArith(x) ==
  /\ WellFormed(x)
  /\ \A r \in UnaryResults(x) : ResOK(r)
  /\ Neg(Neg(x)) = x
  \* identities of IEEE arithmetic
  /\ SameRes(Sub(x, x), Val(Z(1)))
  /\ SameRes(Add(x, Z(1)), Val(x)) /\ SameRes(Mul(x, One), Val(x)) /\ SameRes(Div(x, One), Val(x))
  /\ SameRes(Mul(x, Z(1)), Val(Z(1)))
  /\ Add(x, x) = Mul(x, Two)                          \* doubling is exact or overflows, both ways
  /\ Div(x, Two) = Mul(x, Half)
  /\ (x.k # "z" => Div(x, x) = Val(One) /\ SameRes(Mod(x, x), Val(Z(1))))
  /\ Div(x, Z(1)) = Err("div0") /\ Mod(x, Z(1)) = Err("div0")
  \* floor <= x <= ceil, ceil(x) = -floor(-x)
  /\ (IsVal(Floor(x)) => NumCmp(Floor(x).v, x) <= 0 /\ IsIntegral(Floor(x).v))
  /\ (IsVal(Ceil(x)) => NumCmp(Ceil(x).v, x) >= 0 /\ IsIntegral(Ceil(x).v))
  /\ SameRes(Ceil(x), NegRes(Floor(Neg(x))))
  /\ (IsIntegral(x) => Floor(x) = Val(x) /\ Ceil(x) = Val(x))
LawUnaryFuncs(x) ==
  \* sqrt(x)^2 = x when the root is given
  /\ (IsVal(Sqrt(x)) /\ x.k # "z" => Mul(Sqrt(x).v, Sqrt(x).v) = Val(x))
  /\ ((Sqrt(x) = NaN) <=> (x.k # "z" /\ x.s = -1))
  \* frexp
  /\ (x.k # "z" => LET m == Mantissa(x).v IN
        /\ m.k = x.k /\ m.s = x.s /\ m.e + ExponentI(x) = x.e
        /\ MagCmp(m, Half) >= 0 /\ MagCmp(m, One) < 0)
  \* abs / sign
  /\ NumCmp(Abs(x).v, Z(1)) >= 0 /\ MagCmp(Abs(x).v, x) = 0
  /\ SameRes(Mul(Sign(x).v, Abs(x).v), Val(x))
LawUnaryPow(x) ==
  \* pow against the arithmetic operators
  /\ Pow(x, Z(1)) = Val(One) /\ Pow(x, Z(-1)) = Val(One) /\ Pow(One, x) = Val(One)
  /\ Pow(x, One) = Val(x)
  /\ Compatible(Pow(x, Two), Mul(x, x))
  /\ ((Pow(x, Two) = Ovf) <=> (Mul(x, x) = Ovf)) \/ Pow(x, Two) = Undec
  /\ (x.k # "z" => (((Pow(x, P(-1, 0)) = Ovf) <=> (Div(One, x) = Ovf)) \/ Pow(x, P(-1, 0)) = Undec))
  /\ (x.k = "z" => Pow(x, P(-1, 0)) = Ovf)
  /\ ((Pow(x, Half) = NaN) <=> (x.k # "z" /\ x.s = -1))
  /\ (x.s = 1 => Compatible(Pow(x, Half), Sqrt(x)))
  \* exp / log: exp overflows exactly above a threshold, log is defined on positives
  /\ ((LogLike(x) = NaN) <=> (x.k # "z" /\ x.s = -1))
  /\ ((LogLike(x) = Ovf) <=> (x.k = "z"))
  /\ (Exp(x) = Ovf => x.s = 1 /\ MagCmp(x, P(1, 9)) > 0)
  /\ (Asin(x) = NaN <=> MagCmp(x, One) > 0) /\ (Acos(x) = NaN <=> MagCmp(x, One) > 0)
LawUnaryBits(x) ==
  \* bitwise: ~n = -n - 1 on small integers; errors exactly for unsafe operands
  /\ (Small(x) => ResInt(BitNot(x)) + TruncI(x) = -1)
  /\ (Unsafe(x) <=> BitNot(x) = Err("unsafe"))
  /\ (Small(x) => SameRes(BitAnd(x, x), IntToR(TruncI(x))) /\ SameRes(BitOr(x, x), IntToR(TruncI(x)))
                   /\ SameRes(BitXor(x, x), Val(Z(1))))

LawUnary(x) == LawUnaryArith(x) /\ LawUnaryFuncs(x) /\ LawUnaryPow(x) /\ LawUnaryBits(x)

LawPairArith(x, y) ==
  /\ \A r \in BinaryResults(x, y) : ResOK(r)
  \* commutativity and sign symmetry
  /\ Add(x, y) = Add(y, x) /\ Mul(x, y) = Mul(y, x)
  /\ SameRes(Add(Neg(x), Neg(y)), NegRes(Add(x, y)))
  /\ SameRes(Sub(x, y), NegRes(Sub(y, x)))
  /\ Mul(Neg(x), y) = NegRes(Mul(x, y)) /\ Div(Neg(x), y) = NegRes(Div(x, y)) /\ Div(x, Neg(y)) = NegRes(Div(x, y))
  /\ SameRes(Mod(Neg(x), y), NegRes(Mod(x, y))) /\ Mod(x, Neg(y)) = Mod(x, y)
  \* overflow only where magnitudes allow it
  /\ (Add(x, y) = Ovf => x.s = y.s /\ Max2(Hi(x), Hi(y)) >= 1024)
  /\ (Mul(x, y) = Ovf => Hi(x) + Hi(y) >= 1025)
  /\ (Div(x, y) = Ovf => Hi(x) - Hi(y) >= 1024)
  /\ Mod(x, y).c \in {"val", "fin", "err"}
  \* remainder is smaller than the divisor and has the dividend's sign
  /\ (IsVal(Mod(x, y)) /\ Mod(x, y).v.k # "z" => MagCmp(Mod(x, y).v, y) < 0 /\ Mod(x, y).v.s = x.s)
  \* exact scaling by a power of two is undone by the division
  /\ (y.k = "p" /\ IsVal(Mul(x, y)) /\ Mul(x, y).v.k = x.k /\ x.k # "z" => Div(Mul(x, y).v, y) = Val(x))
  /\ (y.k = "p" /\ IsVal(Div(x, y)) /\ Div(x, y).v.k = x.k /\ x.k # "z" => Mul(Div(x, y).v, y) = Val(x))
  \* x # y => x - y # 0 with the sign of the comparison (gradual underflow, monotone rounding)
  /\ (IsVal(Sub(x, y)) => Sg(Sub(x, y).v) = NumCmp(x, y))
  /\ (IsVal(Add(x, y)) /\ x.s = y.s => MagCmp(Add(x, y).v, x) >= 0 /\ MagCmp(Add(x, y).v, y) >= 0)
  /\ (IsVal(Mul(x, y)) /\ IsVal(Div(x, y)) /\ MagCmp(y, One) > 0
        => MagCmp(Mul(x, y).v, x) >= 0 /\ MagCmp(Div(x, y).v, x) <= 0)
LawPairFuncs(x, y) ==
  \* max / min
  /\ MaxN(x, y).v \in {x, y} /\ MinN(x, y).v \in {x, y}
  /\ NumCmp(MaxN(x, y).v, MinN(x, y).v) >= 0
  /\ NumCmp(MaxN(x, y).v, x) >= 0 /\ NumCmp(MaxN(x, y).v, y) >= 0
  /\ NumCmp(MinN(x, y).v, x) <= 0 /\ NumCmp(MinN(x, y).v, y) <= 0
  /\ NumCmp(x, y) = -NumCmp(y, x)
  \* hypot is symmetric and at least as large as both
  /\ Hypot(x, y) = Hypot(y, x) /\ Hypot(x, y) = Hypot(Neg(x), y)
  /\ (Hypot(x, y) = Ovf => Max2(Hi(x), Hi(y)) >= 1024)
LawPairPow(x, y) ==
  \* pow: sign rules
  /\ (Pow(x, y) = NaN <=> (x.k # "z" /\ x.s = -1 /\ ~IsIntegral(y)))
  /\ (IsVal(Pow(x, y)) /\ x.s = 1 => Pow(x, y).v.s = 1)
  /\ (x.k # "z" /\ y.k # "z" /\ Pow(x, y) = Ovf /\ Pow(x, Neg(y)).c # "any" => Pow(x, Neg(y)).c \in {"fin", "val"})
LawPairBits(x, y) ==
  \* bitwise: commutative, errors exactly for unsafe operands
  /\ BitAnd(x, y) = BitAnd(y, x) /\ BitOr(x, y) = BitOr(y, x) /\ BitXor(x, y) = BitXor(y, x)
  /\ ((Unsafe(x) \/ Unsafe(y)) <=> BitAnd(x, y) = Err("unsafe"))
  \* a | b = (a & b) + (a ^ b);  (a << n) >> n = a
  /\ (Small(x) /\ Small(y) => ResInt(BitOr(x, y)) = ResInt(BitAnd(x, y)) + ResInt(BitXor(x, y)))
  /\ (Small(x) /\ Small(y) /\ y.s = 1 => ResInt(Shl(x, y)) = TruncI(x) * Pow2I(TruncI(y))
                                          /\ ResInt(Shr(x, y)) * Pow2I(TruncI(y)) <= TruncI(x)
                                          /\ TruncI(x) < (ResInt(Shr(x, y)) + 1) * Pow2I(TruncI(y)))

LawPair(x, y) == LawPairArith(x, y) /\ LawPairFuncs(x, y) /\ LawPairPow(x, y) /\ LawPairBits(x, y)

LawTriple(x, y, z) ==
  \* NumCmp is a total preorder
  /\ (NumCmp(x, y) <= 0 /\ NumCmp(y, z) <= 0 => NumCmp(x, z) <= 0)
  /\ (NumCmp(x, y) < 0 /\ NumCmp(y, z) <= 0 => NumCmp(x, z) < 0)
  \* overflow is monotone in the magnitude of an operand
  /\ (Mul(x, y) = Ovf /\ MagCmp(z, y) >= 0 => Mul(x, z) = Ovf)
  /\ (Add(x, y) = Ovf /\ z.s = y.s /\ MagCmp(z, y) >= 0 => Add(x, z) = Ovf)
  /\ (Div(x, y) = Ovf /\ z.k # "z" /\ MagCmp(z, y) <= 0 => Div(x, z) = Ovf)
  \* clamp stays inside a proper interval and returns one of its arguments
  /\ Clamp(x, y, z).v \in {x, y, z}
  /\ (NumCmp(y, z) <= 0 => NumCmp(Clamp(x, y, z).v, y) >= 0 /\ NumCmp(Clamp(x, y, z).v, z) <= 0)
  /\ (NumCmp(y, x) <= 0 /\ NumCmp(x, z) <= 0 => Clamp(x, y, z) = Val(x))

Perms3(a) == IF Len(a) = 3 THEN { <<a[1], a[2], a[3]>>, <<a[1], a[3], a[2]>>, <<a[2], a[1], a[3]>>,
                                  <<a[2], a[3], a[1]>>, <<a[3], a[1], a[2]>>, <<a[3], a[2], a[1]>> }
             ELSE IF Len(a) = 2 THEN { a, <<a[2], a[1]>> } ELSE { a }
SeqToBag(a) == [v \in {a[i] : i \in 1..Len(a)} |-> Cardinality({i \in 1..Len(a) : a[i] = v})]

LawArray(a) ==
  /\ ResOK(Sum(a)) /\ ResOK(Avg(a)) /\ ResOK(MinArray(a)) /\ ResOK(MaxArray(a)) /\ ResOK(Sort(a))
  /\ (a = <<>> => Sum(a) = Val(Z(1)) /\ Avg(a) = Err("empty") /\ MinArray(a) = Err("empty")
                  /\ MaxArray(a) = Err("empty") /\ Sort(a) = ArrR(<<>>))
  /\ (Len(a) = 1 => SameRes(Sum(a), Val(a[1])) /\ SameRes(Avg(a), Val(a[1])))
  /\ (Len(a) = 2 => Sum(a) = Add(a[1], a[2]) \/ (a[1].k = "z" /\ SameRes(Sum(a), Add(a[1], a[2]))))
  \* the sum fails as soon as a prefix overflows, whatever follows
  /\ (\E n \in 1..Len(a) : Sum(SubSeq(a, 1, n)).c \in {"ovf", "nan"}) => Sum(a).c \in {"ovf", "nan"}
  /\ (Sum(a) = Ovf => Avg(a) = Ovf) /\ (Avg(a) = Ovf => Sum(a) = Ovf)
  /\ (Sum(a).c # "any" /\ Sum(a) # Ovf /\ a # <<>> => Avg(a).c \in {"val", "fin", "int"})
  \* sort: ordered permutation; min / max are its ends
  /\ LET s == Sort(a).a IN
       /\ Len(s) = Len(a) /\ SeqToBag(s) = SeqToBag(a)
       /\ \A i \in 1..(Len(s) - 1) : NumCmp(s[i], s[i+1]) <= 0
       /\ (a # <<>> => NumCmp(MinArray(a).v, s[1]) = 0 /\ NumCmp(MaxArray(a).v, s[Len(s)]) = 0)
  /\ (a # <<>> => \A p \in Perms3(a) : NumCmp(MinArray(p).v, MinArray(a).v) = 0
                                      /\ NumCmp(MaxArray(p).v, MaxArray(a).v) = 0)
  \* an exactly cancelling pair: a sum that overflows in one order and not in another is still never a value
  /\ \A p \in Perms3(a) : Sum(p).c \in {"val", "fin", "int", "ovf", "any"}

\* literal laws: moving the decimal point / trailing zeros do not change the denoted number
LitShiftOK(l) ==
  \* append a zero to the fraction
  LET l2 == [l EXCEPT !.hasf = TRUE, !.fp = (IF l.hasf THEN l.fp ELSE <<>>) \o <<<<0, 1>>>>] IN
  /\ LitClass(l2) = LitClass(l) \/ (LitClass(l).c = "fin" /\ LitClass(l2).c = "fin")
  \* multiply by ten through the exponent
  /\ LET l3 == [l EXCEPT !.ex = l.ex + 1] IN
       /\ (LitClass(l) = Ovf => LitClass(l3) = Ovf)
       /\ (LitClass(l).c = "int" /\ LitClass(l3).c = "int" => LitClass(l3).n = 10 * LitClass(l).n)
       /\ (~LitIsZero(l) => DecExp(l3) = DecExp(l) + 1 /\ D1(l3) = D1(l) /\ D2(l3) = D2(l))
  \* move the last integer digit behind the point: same number when the exponent compensates
  /\ (RunsLen(l.ip) >= 2 =>
        LET last == DigitAt(l.ip, RunsLen(l.ip))
            l4 == [ip |-> DropLast(l.ip, 1), fp |-> <<<<last, 1>>>> \o (IF l.hasf THEN l.fp ELSE <<>>),
                   hasf |-> TRUE, ex |-> l.ex + 1, hase |-> TRUE] IN
        LitClass(l4) = LitClass(l) \/ (LitClass(l).c = "fin" /\ LitClass(l4).c = "fin"))
LawLit(l) == ResOK(LitClass(l)) /\ LitShiftOK(l)

LawRadix(bits, k) ==
  /\ (k >= RadixTieMinK(bits) => ((RadixTie(bits, k) = Ovf) <=> RadixTieBits(bits, k) >= 1024))
  /\ (k >= RadixTieMinK(bits) /\ bits = 4 => RadixTie(bits, k) = RadixOne(bits, k))   \* rounds up to 16^k
  /\ ((RadixOne(bits, k) = Ovf) <=> (RadixMax(bits, k) = Ovf))
  /\ ((RadixOne(bits, k) = Ovf) <=> bits * k >= 1024)
  /\ (bits * k <= 53 => Compatible(AddR(RadixMax(bits, k), One), RadixOne(bits, k)))      \* exact below 2^53
  /\ (bits * k >= 54 /\ bits * k < 1024 => RadixMax(bits, k) = RadixOne(bits, k))  \* 2^n - 1 rounds to 2^n
  /\ (k > 1 /\ RadixOne(bits, k).c = "val" => Div(RadixOne(bits, k).v, P(1, bits)) = RadixOne(bits, k - 1))
=============================================================================
