CONSTANTS N = 4  MaxHandles = 1  MaxEdges = 2  MaxOps = 9
INIT MCInit
NEXT NextPlain
VIEW View
INVARIANTS Inv GcIdempotent
CHECK_DEADLOCK FALSE
