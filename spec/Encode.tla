------------------------------ MODULE Encode ------------------------------
(***************************************************************************)
(* Reference level for property C05: the JSON text of a value, and an      *)
(* independent RFC 8259 decoder.                                           *)
(*                                                                         *)
(* Sources (NOT the Rust code):                                            *)
(*  - RFC 8259 sections 2-7 (grammar; a string may not contain a raw code  *)
(*    point below U+0020, a raw quotation mark or a raw reverse solidus).  *)
(*  - upstream std.jsonnet: std.escapeStringJson (short escapes \b \f \n   *)
(*    \r \t \" \\, and \u%04x for cp < 32 or 127 <= cp <= 159),            *)
(*    std.manifestJsonEx(value, indent, newline, key_val_sep):             *)
(*       array : "[" nl  join("," nl, [cindent+indent+aux(x)])  nl cindent "]"  *)
(*       object: "{" nl  join("," nl, [cindent+indent+esc(k)+sep+aux(v[k])      *)
(*                                     for k in std.objectFields(v)]) nl cindent "}" *)
(*    (so an empty container is "[" nl nl cindent "]"),                    *)
(*    std.manifestJson(v) = manifestJsonEx(v, "    "),                     *)
(*    std.manifestJsonMinified(v) = manifestJsonEx(v, "", "", ":").        *)
(*  - the Jsonnet reference manifestation (default output): same layout    *)
(*    with indent = 3 spaces, newline = LF, separator ": " and the empty   *)
(*    containers written "[ ]" / "{ }"; std.toString: one line, items      *)
(*    separated by ", ", fields by ": ", empty containers "[ ]" / "{ }",   *)
(*    and a string is returned unchanged.                                  *)
(*  - std.objectFields: visible fields only, sorted by code point.         *)
(*                                                                         *)
(* Text is a sequence of code points.  Values use the encoding of          *)
(* Values.tla.  Numbers are exact dyadic rationals s*m*2^e; their JSON     *)
(* text is their exact (finite) decimal expansion in positional notation,  *)
(* which is also the shortest decimal that reads back as the same double.  *)
(***************************************************************************)
EXTENDS Values

RECURSIVE Flat(_)
Flat(ss) == IF ss = <<>> THEN <<>> ELSE Head(ss) \o Flat(Tail(ss))

RECURSIVE JoinSeq(_, _)
JoinSeq(ss, sep) ==
  IF ss = <<>> THEN <<>>
  ELSE IF Len(ss) = 1 THEN ss[1]
  ELSE ss[1] \o sep \o JoinSeq(Tail(ss), sep)

(***************************************************************************)
(* Strings                                                                 *)
(***************************************************************************)
HexDigit(d) == IF d < 10 THEN 48 + d ELSE 87 + d          \* lower case, as "%04x"
U4(cp) == <<92, 117, HexDigit(cp \div 4096), HexDigit((cp \div 256) % 16),
            HexDigit((cp \div 16) % 16), HexDigit(cp % 16)>>

EscapeCp(cp) ==
  IF cp = 34 THEN <<92, 34>>
  ELSE IF cp = 92 THEN <<92, 92>>
  ELSE IF cp = 8  THEN <<92, 98>>
  ELSE IF cp = 12 THEN <<92, 102>>
  ELSE IF cp = 10 THEN <<92, 110>>
  ELSE IF cp = 13 THEN <<92, 114>>
  ELSE IF cp = 9  THEN <<92, 116>>
  ELSE IF cp < 32 \/ (cp >= 127 /\ cp <= 159) THEN U4(cp)
  ELSE <<cp>>

JsonEscape(s) == <<34>> \o Flat([i \in 1..Len(s) |-> EscapeCp(s[i])]) \o <<34>>

(***************************************************************************)
(* Numbers                                                                 *)
(***************************************************************************)
Pow5(n) == LET p[i \in 0..n] == IF i = 0 THEN 1 ELSE 5 * p[i-1] IN p[n]
Pow10(n) == LET p[i \in 0..n] == IF i = 0 THEN 1 ELSE 10 * p[i-1] IN p[n]
MaxInt == 2147483647

\* canonical form: m odd, or m = 0 with e = 0; the sign of zero is kept
RECURSIVE CanonME(_, _, _)
CanonME(s, m, e) ==
  IF m = 0 THEN Num(s, 0, 0)
  ELSE IF m % 2 = 0 THEN CanonME(s, m \div 2, e + 1)
  ELSE Num(s, m, e)
CanonNum(x) == CanonME(x.s, x.m, x.e)

\* the exact domain: everything fits 31 bits
NumInDomain(x) ==
  LET c == CanonNum(x) IN
  IF c.e >= 0 THEN c.e <= 30 /\ c.m <= MaxInt \div Pow2(c.e)
  ELSE -c.e <= 13 /\ c.m <= MaxInt \div Pow5(-c.e)

RECURSIVE NatDigits(_)
NatDigits(n) == IF n < 10 THEN <<48 + n>> ELSE NatDigits(n \div 10) \o <<48 + (n % 10)>>

Zeros(n) == [i \in 1..n |-> 48]

NumText(x) ==
  LET c == CanonNum(x)
      sign == IF c.s < 0 THEN <<45>> ELSE <<>>
  IN IF c.m = 0 THEN sign \o <<48>>
     ELSE IF c.e >= 0 THEN sign \o NatDigits(c.m * Pow2(c.e))
     ELSE LET k == -c.e
              ds == NatDigits(c.m * Pow5(k))               \* value = this / 10^k
              pd == IF Len(ds) < k + 1 THEN Zeros(k + 1 - Len(ds)) \o ds ELSE ds
              L == Len(pd)
          IN sign \o SubSeq(pd, 1, L - k) \o <<46>> \o SubSeq(pd, L - k + 1, L)

(***************************************************************************)
(* Objects: std.objectFields order                                         *)
(***************************************************************************)
RECURSIVE InsertFld(_, _)
InsertFld(fs, fl) ==
  IF fs = <<>> THEN <<fl>>
  ELSE IF SeqCmp(fl.k, Head(fs).k) < 0 THEN <<fl>> \o fs
  ELSE <<Head(fs)>> \o InsertFld(Tail(fs), fl)

RECURSIVE SortFlds(_)
SortFlds(fs) == IF fs = <<>> THEN <<>> ELSE InsertFld(SortFlds(Tail(fs)), Head(fs))

\* an object from fields given in any order (keys distinct)
MkObj(fs) == Obj(SortFlds(fs))

(***************************************************************************)
(* Layout                                                                  *)
(*   f.indent, f.newline, f.kvsep, f.itemsep : text                        *)
(*   f.spaced : empty containers are "[ ]" / "{ }" (reference manifestation*)
(*              and std.toString); otherwise the manifestJsonEx rule       *)
(***************************************************************************)
Fmt(name, indent, newline, kvsep, itemsep, spaced) ==
  [name |-> name, indent |-> indent, newline |-> newline, kvsep |-> kvsep,
   itemsep |-> itemsep, spaced |-> spaced]

SP == 32
LF == 10
FmtEx(indent, newline, kvsep) == Fmt("ex", indent, newline, kvsep, <<44>>, FALSE)
FmtMulti    == Fmt("multi", <<SP, SP, SP>>, <<LF>>, <<58, SP>>, <<44>>, TRUE)
FmtToString == Fmt("tostring", <<>>, <<>>, <<58, SP>>, <<44, SP>>, TRUE)
FmtMinified == Fmt("minified", <<>>, <<>>, <<58>>, <<44>>, FALSE)
FmtManifestJson == Fmt("manifestJson", <<SP, SP, SP, SP>>, <<LF>>, <<58, SP>>, <<44>>, FALSE)

RECURSIVE Enc(_, _, _)
Enc(v, f, cind) ==
  CASE v.t = "null" -> <<110, 117, 108, 108>>
    [] v.t = "bool" -> IF v.b THEN <<116, 114, 117, 101>> ELSE <<102, 97, 108, 115, 101>>
    [] v.t = "num"  -> NumText(v)
    [] v.t = "str"  -> JsonEscape(v.c)
    [] v.t = "arr"  ->
         IF v.a = <<>> /\ f.spaced THEN <<91, SP, 93>>
         ELSE LET ni == cind \o f.indent
                  items == [i \in 1..Len(v.a) |-> ni \o Enc(v.a[i], f, ni)]
              IN <<91>> \o f.newline \o JoinSeq(items, f.itemsep \o f.newline)
                       \o f.newline \o cind \o <<93>>
    [] v.t = "obj"  ->
         LET vis == Visible(v) IN
         IF vis = <<>> /\ f.spaced THEN <<123, SP, 125>>
         ELSE LET ni == cind \o f.indent
                  items == [i \in 1..Len(vis) |->
                              ni \o JsonEscape(vis[i].k) \o f.kvsep \o Enc(vis[i].v, f, ni)]
              IN <<123>> \o f.newline \o JoinSeq(items, f.itemsep \o f.newline)
                        \o f.newline \o cind \o <<125>>

JsonEncodeF(v, f) == Enc(v, f, <<>>)
\* std.manifestJsonEx(v, indent, newline, kvsep)
JsonEncode(v, indent, newline, kvsep) == JsonEncodeF(v, FmtEx(indent, newline, kvsep))
\* std.toString(v): a string is returned as it is
ToStringText(v) == IF v.t = "str" THEN v.c ELSE JsonEncodeF(v, FmtToString)

(***************************************************************************)
(* RFC 8259 decoder (recursive descent over a code point sequence).        *)
(* Results: [ok |-> FALSE] or [ok |-> TRUE, v |-> value, p |-> next index] *)
(* Numbers that are not exact dyadic rationals inside the 31 bit domain    *)
(* decode to the marker [t |-> "numx"] (grammar accepted, value unknown).  *)
(* A \u escape naming a lone surrogate is rejected (not a scalar value).   *)
(***************************************************************************)
Fail == [ok |-> FALSE]
Ok(v, p) == [ok |-> TRUE, v |-> v, p |-> p]
NumX == [t |-> "numx"]

IsWs(c) == c \in {32, 9, 10, 13}
IsDigit(c) == c >= 48 /\ c <= 57

RECURSIVE SkipWs(_, _)
SkipWs(t, p) == IF p <= Len(t) /\ IsWs(t[p]) THEN SkipWs(t, p + 1) ELSE p

HasAt(t, p, lit) == p + Len(lit) - 1 <= Len(t) /\ SubSeq(t, p, p + Len(lit) - 1) = lit

HexVal(c) == IF c >= 48 /\ c <= 57 THEN c - 48
             ELSE IF c >= 97 /\ c <= 102 THEN c - 87
             ELSE IF c >= 65 /\ c <= 70 THEN c - 55
             ELSE -1
Hex4(t, p) ==
  IF p + 3 > Len(t) THEN -1
  ELSE IF \E i \in 0..3 : HexVal(t[p + i]) = -1 THEN -1
  ELSE 4096 * HexVal(t[p]) + 256 * HexVal(t[p+1]) + 16 * HexVal(t[p+2]) + HexVal(t[p+3])

\* p: index after the opening quotation mark
RECURSIVE PStr(_, _, _)
PStr(t, p, acc) ==
  IF p > Len(t) THEN Fail
  ELSE LET c == t[p] IN
    IF c = 34 THEN Ok(acc, p + 1)
    ELSE IF c < 32 THEN Fail                               \* raw control character
    ELSE IF c # 92 THEN PStr(t, p + 1, Append(acc, c))
    ELSE IF p + 1 > Len(t) THEN Fail
    ELSE LET d == t[p + 1] IN
      IF d = 34 \/ d = 92 \/ d = 47 THEN PStr(t, p + 2, Append(acc, d))
      ELSE IF d = 98  THEN PStr(t, p + 2, Append(acc, 8))
      ELSE IF d = 102 THEN PStr(t, p + 2, Append(acc, 12))
      ELSE IF d = 110 THEN PStr(t, p + 2, Append(acc, 10))
      ELSE IF d = 114 THEN PStr(t, p + 2, Append(acc, 13))
      ELSE IF d = 116 THEN PStr(t, p + 2, Append(acc, 9))
      ELSE IF d # 117 THEN Fail
      ELSE LET h == Hex4(t, p + 2) IN
        IF h = -1 THEN Fail
        ELSE IF h >= 55296 /\ h <= 56319 THEN                \* high surrogate: needs a low one
          IF ~HasAt(t, p + 6, <<92, 117>>) THEN Fail
          ELSE LET lo == Hex4(t, p + 8) IN
               IF lo >= 56320 /\ lo <= 57343
               THEN PStr(t, p + 12, Append(acc, 65536 + (h - 55296) * 1024 + (lo - 56320)))
               ELSE Fail
        ELSE IF h >= 56320 /\ h <= 57343 THEN Fail
        ELSE PStr(t, p + 6, Append(acc, h))

RECURSIVE DigEnd(_, _)
DigEnd(t, p) == IF p <= Len(t) /\ IsDigit(t[p]) THEN DigEnd(t, p + 1) ELSE p

\* value of a digit sequence, or -1 when it needs more than 9 digits
RECURSIVE DigVal(_, _)
DigVal(ds, acc) == IF ds = <<>> THEN acc ELSE DigVal(Tail(ds), 10 * acc + (Head(ds) - 48))
RECURSIVE StripLeadingZeros(_)
StripLeadingZeros(ds) == IF ds # <<>> /\ Head(ds) = 48 THEN StripLeadingZeros(Tail(ds)) ELSE ds
RECURSIVE StripTrailingZeros(_)
StripTrailingZeros(ds) ==
  IF ds # <<>> /\ ds[Len(ds)] = 48 THEN StripTrailingZeros(SubSeq(ds, 1, Len(ds) - 1)) ELSE ds

\* n / 10^d with common factors of ten removed: <<n', d'>>
RECURSIVE ReduceTens(_, _)
ReduceTens(n, d) == IF d > 0 /\ n % 10 = 0 THEN ReduceTens(n \div 10, d - 1) ELSE <<n, d>>

\* sign * digits(ip ++ fp) * 10^(ex - Len(fp))
NumValue(sign, ip, fp0, ex) ==
  LET fp == StripTrailingZeros(fp0)
      ds == StripLeadingZeros(ip \o fp)
  IN IF ds = <<>> THEN Num(sign, 0, 0)
     ELSE IF Len(ds) > 9 \/ ex > 40 \/ ex < -40 THEN NumX
     ELSE LET n == DigVal(ds, 0)
              sc == ex - Len(fp)
          IN IF sc >= 0
             THEN IF sc > 9 THEN NumX
                  ELSE IF n > MaxInt \div Pow10(sc) THEN NumX
                  ELSE CanonME(sign, n * Pow10(sc), 0)
             ELSE LET r == ReduceTens(n, -sc)
                      d == r[2]
                  IN IF d = 0 THEN CanonME(sign, r[1], 0)
                     ELSE IF d > 13 THEN NumX
                     ELSE IF r[1] % Pow5(d) # 0 THEN NumX          \* not a dyadic rational
                     ELSE CanonME(sign, r[1] \div Pow5(d), -d)

PNum(t, p) ==
  LET neg == t[p] = 45
      p1 == IF neg THEN p + 1 ELSE p
      p2 == DigEnd(t, p1)                                   \* int = [p1, p2)
      intOk == p2 > p1 /\ (t[p1] # 48 \/ p2 = p1 + 1)       \* no leading zero
      hasFrac == p2 <= Len(t) /\ t[p2] = 46
      p3 == IF hasFrac THEN DigEnd(t, p2 + 1) ELSE p2       \* frac = [p2+1, p3)
      fracOk == ~hasFrac \/ p3 > p2 + 1
      hasExp == p3 <= Len(t) /\ (t[p3] = 101 \/ t[p3] = 69)
      esign == hasExp /\ p3 + 1 <= Len(t) /\ (t[p3 + 1] = 43 \/ t[p3 + 1] = 45)
      p4 == IF esign THEN p3 + 2 ELSE p3 + 1
      p5 == IF hasExp THEN DigEnd(t, p4) ELSE p3            \* exp digits = [p4, p5)
      expOk == ~hasExp \/ p5 > p4
  IN IF ~(intOk /\ fracOk /\ expOk) THEN Fail
     ELSE LET ip == SubSeq(t, p1, p2 - 1)
              fp == IF hasFrac THEN SubSeq(t, p2 + 1, p3 - 1) ELSE <<>>
              eds == IF hasExp THEN StripLeadingZeros(SubSeq(t, p4, p5 - 1)) ELSE <<>>
              eabs == IF Len(eds) > 3 THEN 1000 ELSE DigVal(eds, 0)
              ex == IF esign /\ t[p3 + 1] = 45 THEN -eabs ELSE eabs
          IN Ok(NumValue(IF neg THEN -1 ELSE 1, ip, fp, ex), p5)

RECURSIVE PVal(_, _)
RECURSIVE PElems(_, _, _)
RECURSIVE PMembers(_, _, _)

PVal(t, p0) ==
  LET p == SkipWs(t, p0) IN
  IF p > Len(t) THEN Fail
  ELSE LET c == t[p] IN
    IF c = 110 THEN (IF HasAt(t, p, <<110, 117, 108, 108>>) THEN Ok(Null, p + 4) ELSE Fail)
    ELSE IF c = 116 THEN (IF HasAt(t, p, <<116, 114, 117, 101>>) THEN Ok(Bool(TRUE), p + 4) ELSE Fail)
    ELSE IF c = 102 THEN (IF HasAt(t, p, <<102, 97, 108, 115, 101>>) THEN Ok(Bool(FALSE), p + 5) ELSE Fail)
    ELSE IF c = 34 THEN (LET r == PStr(t, p + 1, <<>>) IN IF r.ok THEN Ok(Str(r.v), r.p) ELSE Fail)
    ELSE IF c = 91 THEN
      (LET q == SkipWs(t, p + 1) IN
       IF q <= Len(t) /\ t[q] = 93 THEN Ok(Arr(<<>>), q + 1) ELSE PElems(t, p + 1, <<>>))
    ELSE IF c = 123 THEN
      (LET q == SkipWs(t, p + 1) IN
       IF q <= Len(t) /\ t[q] = 125 THEN Ok(Obj(<<>>), q + 1) ELSE PMembers(t, p + 1, <<>>))
    ELSE IF c = 45 \/ IsDigit(c) THEN PNum(t, p)
    ELSE Fail

PElems(t, p, acc) ==
  LET r == PVal(t, p) IN
  IF ~r.ok THEN Fail
  ELSE LET q == SkipWs(t, r.p) IN
    IF q > Len(t) THEN Fail
    ELSE IF t[q] = 44 THEN PElems(t, q + 1, Append(acc, r.v))
    ELSE IF t[q] = 93 THEN Ok(Arr(Append(acc, r.v)), q + 1)
    ELSE Fail

PMembers(t, p0, acc) ==
  LET p == SkipWs(t, p0) IN
  IF p > Len(t) \/ t[p] # 34 THEN Fail
  ELSE LET k == PStr(t, p + 1, <<>>) IN
    IF ~k.ok THEN Fail
    ELSE LET c == SkipWs(t, k.p) IN
      IF c > Len(t) \/ t[c] # 58 THEN Fail
      ELSE LET r == PVal(t, c + 1) IN
        IF ~r.ok THEN Fail
        ELSE LET q == SkipWs(t, r.p)
                 acc2 == Append(acc, Fld(k.v, FALSE, r.v))
             IN IF q > Len(t) THEN Fail
                ELSE IF t[q] = 44 THEN PMembers(t, q + 1, acc2)
                ELSE IF t[q] = 125 THEN Ok(Obj(acc2), q + 1)      \* members in document order
                ELSE Fail

\* [ok |-> FALSE] or [ok |-> TRUE, v |-> value]
JsonDecode(t) ==
  LET r == PVal(t, 1) IN
  IF ~r.ok THEN Fail
  ELSE IF SkipWs(t, r.p) = Len(t) + 1 THEN [ok |-> TRUE, v |-> r.v]
  ELSE Fail

(***************************************************************************)
(* "The value it came from": visible fields only (in std.objectFields      *)
(* order), every number in canonical form WITH the sign of zero.           *)
(***************************************************************************)
RECURSIVE Exact(_)
Exact(x) ==
  CASE x.t = "num" -> CanonNum(x)
    [] x.t = "arr" -> Arr([i \in 1..Len(x.a) |-> Exact(x.a[i])])
    [] x.t = "obj" -> LET v == Visible(x) IN
                      Obj([i \in 1..Len(v) |-> Fld(v[i].k, FALSE, Exact(v[i].v))])
    [] OTHER -> x

\* a value that can be manifested: no function / failing element in a visible position
RECURSIVE Manifestable(_)
Manifestable(x) ==
  CASE x.t \in {"err", "func"} -> FALSE
    [] x.t = "num" -> NumInDomain(x)
    [] x.t = "arr" -> \A i \in 1..Len(x.a) : Manifestable(x.a[i])
    [] x.t = "obj" -> \A i \in 1..Len(x.f) : x.f[i].h \/ Manifestable(x.f[i].v)
    [] OTHER -> TRUE

\* every object inside a decoded value has strictly increasing keys (code point order)
RECURSIVE KeysSorted(_)
KeysSorted(x) ==
  CASE x.t = "arr" -> \A i \in 1..Len(x.a) : KeysSorted(x.a[i])
    [] x.t = "obj" -> /\ \A i \in 1..(Len(x.f) - 1) : SeqCmp(x.f[i].k, x.f[i+1].k) < 0
                      /\ \A i \in 1..Len(x.f) : KeysSorted(x.f[i].v)
    [] OTHER -> TRUE

\* number of fields in a decoded value / of visible fields reachable through visible fields
RECURSIVE FieldCount(_)
RECURSIVE SumSeq(_)
SumSeq(s) == IF s = <<>> THEN 0 ELSE Head(s) + SumSeq(Tail(s))
FieldCount(x) ==
  CASE x.t = "arr" -> SumSeq([i \in 1..Len(x.a) |-> FieldCount(x.a[i])])
    [] x.t = "obj" -> LET v == Visible(x) IN
                      Len(v) + SumSeq([i \in 1..Len(v) |-> FieldCount(v[i].v)])
    [] OTHER -> 0

\* raw (not escaped) appearance of a forbidden code point anywhere in the text
NoRawControls(t, f) ==
  \A i \in 1..Len(t) : t[i] >= 32 \/ (\E j \in 1..Len(f.indent) : f.indent[j] = t[i])
                                  \/ (\E j \in 1..Len(f.newline) : f.newline[j] = t[i])

(***************************************************************************)
(* Laws of property C05, on the specification.                             *)
(***************************************************************************)
LawRoundTrip(v, f) ==                       \* decodes to the value it came from
  LET d == JsonDecode(JsonEncodeF(v, f)) IN d.ok /\ d.v = Exact(v)

LawSortedVisible(v, f) ==                   \* sorted, visible fields only
  LET d == JsonDecode(JsonEncodeF(v, f)) IN
  d.ok /\ KeysSorted(d.v) /\ FieldCount(d.v) = FieldCount(v)

LawWellFormedChars(v, f) == NoRawControls(JsonEncodeF(v, f), f)

LawSameJson(v, f) ==                        \* consistency with C08: the decoded document == v (std.equals)
  LET d == JsonDecode(JsonEncodeF(v, f)) IN d.ok /\ Equal(d.v, v) = "true" /\ SameJson(d.v, Exact(v))

LawToString(v) ==
  IF v.t = "str" THEN ToStringText(v) = v.c
  ELSE LET d == JsonDecode(ToStringText(v)) IN d.ok /\ d.v = Exact(v)

LawEscape(s) ==                             \* the escaper alone
  LET e == JsonEscape(s)
      r == PStr(e, 2, <<>>)
  IN /\ e[1] = 34
     /\ r.ok /\ r.v = s /\ r.p = Len(e) + 1
     /\ \A i \in 1..Len(e) : e[i] >= 32 /\ ~(e[i] >= 127 /\ e[i] <= 159)

LawJson(v, f) ==
  Manifestable(v) =>
    /\ LawRoundTrip(v, f)
    /\ LawSortedVisible(v, f)
    /\ LawWellFormedChars(v, f)
    /\ LawSameJson(v, f)
    /\ LawToString(v)
    /\ (v.t = "str" => LawEscape(v.c))

(***************************************************************************)
(* Decoder self-test: documents RFC 8259 accepts (with their value) and    *)
(* documents it rejects.  Evaluated once (ASSUME in MC_Encode).            *)
(***************************************************************************)
DecodesTo(t, v) == LET d == JsonDecode(t) IN d.ok /\ d.v = Exact(v)
Rejected(t) == ~JsonDecode(t).ok
=============================================================================
