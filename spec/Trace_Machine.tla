--------------------------- MODULE Trace_Machine ---------------------------
(***************************************************************************)
(* Trace validation of recorded evaluator runs (hook events of              *)
(* rsjsonnet-lang built with --cfg rsjsonnet_verif) against the projection  *)
(* of Machine.tla onto (st, frames, limit, mode): one trace action per      *)
(* Machine action, logged fields bound to the variables.  The abstract      *)
(* program and the stack are not observable; what IS observable is exactly  *)
(* what C04 (thunk states), C10 (frame counter, limit test) and C03         *)
(* (collections are stuttering steps) talk about.                           *)
(*                                                                          *)
(* One NDJSON line per event (file in IOEnv.TRACE):                         *)
(*  {"ev":"reset"} start of another recorded run (fresh program state)      *)
(*  {"ev":"begin","limit":L}      {"ev":"end","ok":B,"frames":N}            *)
(*  {"ev":"sw","id":T,"from":F,"to":G}   F,G: 0 pending 1 in progress 2 done *)
(*  {"ev":"dn","id":T,"was":F}    {"ev":"restore","id":T}                   *)
(*  {"ev":"fpush"|"fdelay"|"fpop"|"fresume","frames":N}                     *)
(*  {"ev":"step","frames":N,"limit":L}  {"ev":"overflow","frames":N,"limit":L} *)
(*  {"ev":"infrec","id":T}        {"ev":"gc","before":A,"after":B}          *)
(* A non-finite number event ("nonfinite") has no action: it is rejected.   *)
(***************************************************************************)
EXTENDS Integers, Sequences, FiniteSets, TLC, Json, IOUtils

Rec == ndJsonDeserialize(IOEnv.TRACE)

VARIABLES l,        \* position in Rec
          st,       \* thunk states seen so far: function id -> "P" | "I" | "D"
          frames, limit,
          mode,     \* "idle" | "run" | "failing" (overflow / infinite recursion / error raised, unwinding)
          opened,   \* thunks switched to in-progress by the running request and not finished
          cause     \* why the request is failing ("" while running)

tvars == <<l, st, frames, limit, mode, opened, cause>>

Init == l = 1 /\ st = <<>> /\ frames = 0 /\ limit = 0 /\ mode = "idle" /\ opened = {} /\ cause = ""

Ev == Rec[l]
IsEv(k) == l <= Len(Rec) /\ Ev.ev = k /\ l' = l + 1
Known(t) == t \in DOMAIN st
StOf(t) == IF Known(t) THEN st[t] ELSE "?"
Set(t, v) == IF Known(t) THEN [st EXCEPT ![t] = v] ELSE (t :> v) @@ st
Code(n) == CASE n = 0 -> "P" [] n = 1 -> "I" [] n = 2 -> "D"

TReset ==
  /\ IsEv("reset") /\ mode = "idle"
  /\ st' = <<>> /\ frames' = 0 /\ limit' = 0 /\ opened' = {} /\ cause' = "" /\ UNCHANGED mode

\* Machine!BeginRequest
TBegin ==
  /\ IsEv("begin") /\ mode = "idle"
  /\ mode' = "run" /\ frames' = 0 /\ limit' = Ev.limit /\ opened' = {} /\ cause' = ""
  /\ UNCHANGED st

\* Machine!DoThunkPending / DoThunkDone / DoThunkInProgress
TSwitch ==
  /\ IsEv("sw") /\ mode = "run"
  /\ LET t == Ev.id IN
     \/ /\ Ev.from = 0 /\ Ev.to = 1                    \* Pending -> InProgress (evaluated: at most once)
        /\ StOf(t) \in {"P", "?"}
        /\ st' = Set(t, "I") /\ opened' = opened \cup {t}
        /\ UNCHANGED <<frames, limit, mode, cause>>
     \/ /\ Ev.from = 2 /\ Ev.to = 2                    \* read of a finished thunk: never re-evaluated
        /\ StOf(t) \in {"D", "?"}
        /\ st' = Set(t, "D")
        /\ UNCHANGED <<frames, limit, mode, opened, cause>>
     \/ /\ Ev.from = 1 /\ Ev.to = 1                    \* in progress: infinite recursion must follow
        /\ StOf(t) \in {"I", "?"}
        /\ st' = Set(t, "I") /\ mode' = "failing" /\ cause' = "infrec-pending"
        /\ UNCHANGED <<frames, limit, opened>>

\* Machine!GotThunk: only an in-progress thunk is completed, and it stays done for ever
TDone ==
  /\ IsEv("dn") /\ mode = "run"
  /\ Ev.was = 1 /\ StOf(Ev.id) = "I"
  /\ st' = Set(Ev.id, "D") /\ opened' = opened \ {Ev.id}
  /\ UNCHANGED <<frames, limit, mode, cause>>

TInfRec ==
  /\ IsEv("infrec") /\ mode = "failing" /\ cause = "infrec-pending"
  /\ StOf(Ev.id) = "I"
  /\ cause' = "infrec"
  /\ UNCHANGED <<st, frames, limit, mode, opened>>

\* Machine!Want (push_trace_item) / delay_trace_item / Machine!PopFrame / DelayedTraceItem
TFrame ==
  /\ l <= Len(Rec) /\ Ev.ev \in {"fpush", "fdelay", "fpop", "fresume"} /\ l' = l + 1
  /\ mode = "run"
  /\ frames' = (IF Ev.ev \in {"fpush", "fresume"} THEN frames + 1 ELSE frames - 1)
  /\ frames' >= 0
  /\ frames' = Ev.frames
  /\ UNCHANGED <<st, limit, mode, opened, cause>>

\* end of a run() iteration: the limit test
TStep ==
  /\ IsEv("step") /\ mode = "run"
  /\ Ev.frames = frames /\ Ev.limit = limit
  /\ IF frames > limit
     THEN mode' = "failing" /\ cause' = "overflow-pending"
     ELSE UNCHANGED <<mode, cause>>
  /\ UNCHANGED <<st, frames, limit, opened>>

\* StackOverflow is raised exactly when the counter exceeds the limit at a step boundary
TOverflow ==
  /\ IsEv("overflow") /\ mode = "failing" /\ cause = "overflow-pending"
  /\ Ev.frames = frames /\ Ev.limit = limit /\ frames > limit
  /\ cause' = "overflow"
  /\ UNCHANGED <<st, frames, limit, mode, opened>>

\* Machine!Collect: invisible
TGc ==
  /\ IsEv("gc")
  /\ Ev.after <= Ev.before
  /\ UNCHANGED <<st, frames, limit, mode, opened, cause>>

\* a failing request may put the thunks it left in progress back to pending
TRestore ==
  /\ IsEv("restore") /\ mode \in {"run", "failing"}
  /\ StOf(Ev.id) = "I"
  /\ st' = Set(Ev.id, "P") /\ opened' = opened \ {Ev.id}
  /\ mode' = "failing" /\ cause' = (IF cause = "" THEN "error" ELSE cause)
  /\ UNCHANGED <<frames, limit>>

\* Machine!EndRequest / Machine!Fail
TEnd ==
  /\ IsEv("end")
  /\ \/ /\ Ev.ok /\ mode = "run"
        /\ frames = 0 /\ Ev.frames = 0            \* balanced: zero at normal exit
        /\ opened = {}                            \* everything the request started is done
     \/ /\ ~Ev.ok /\ mode \in {"run", "failing"}
        /\ cause \notin {"overflow-pending", "infrec-pending"}
        /\ opened = {}                            \* Machine!Fail with RestoreOnFail: nothing stays in progress
  /\ mode' = "idle" /\ frames' = 0 /\ cause' = "" /\ opened' = {}
  /\ UNCHANGED <<st, limit>>

Next == TReset \/ TBegin \/ TSwitch \/ TDone \/ TInfRec \/ TFrame \/ TStep \/ TOverflow \/ TGc \/ TRestore \/ TEnd

Spec == Init /\ [][Next]_tvars

\* invariants evaluated at every matched event
FramesNonNeg == frames >= 0
WithinLimit == mode = "run" => frames <= limit + 64   \* the test is made at step boundaries only (TStep)
DoneAbsorbing == TRUE   \* by construction: no action changes a "D" entry

\* The whole trace must be consumed; otherwise print where matching stopped.
Accepted ==
  LET d == TLCGet("stats").diameter IN
  IF d - 1 = Len(Rec) THEN TRUE
  ELSE Print(<<"REJECT", d, IF d <= Len(Rec) THEN ToJson(Rec[d]) ELSE "end">>, FALSE)
=============================================================================
