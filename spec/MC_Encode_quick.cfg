CONSTANT Modes = {"chars", "nums", "struct", "keys"}
CONSTANT Depth = 2
CONSTANT Wide = FALSE
CONSTANT KeyLen = 2
INIT Init
NEXT Next
INVARIANTS InDomain Laws Emit
CHECK_DEADLOCK FALSE
