---- MODULE MC_Depth ----
(* Emits the grid (family, d, s) that the implementation is swept over. *)
EXTENDS Depth, Json
CONSTANTS Ds, Ss
VARIABLE c
Init == c \in {[family |-> f.id, kind |-> f.kind, d |-> d, s |-> s] : f \in Families, d \in Ds, s \in Ss}
Next == UNCHANGED c
Emit == PrintT(<<"CASE", ToJson(c)>>)
====
