CONSTANT Group = "fmt"
CONSTANT MaxLen = 3
INIT Init
NEXT Next
INVARIANTS Laws Emit
CHECK_DEADLOCK FALSE
