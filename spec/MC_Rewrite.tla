----------------------------- MODULE MC_Rewrite -----------------------------
(***************************************************************************)
(* C04: for every program P of the selected slice and every site s:         *)
(*  - meaning-preserving rewrites of the sub-expression at s leave Sem's    *)
(*    outcome unchanged (checked here, on the specification) - emitted      *)
(*  - probe: P[s := error "probe"] with its own expected outcome            *)
(*  - std.trace placed at every once-instantiated binding site; a site is   *)
(*    demanded iff replacing it by an error changes the outcome; expected   *)
(*    trace multiset = each demanded site exactly once                      *)
(***************************************************************************)
EXTENDS MC_Sem, Rewrite

CONSTANT MaxSites

RECURSIVE OrdShort(_)
OrdShort(X) == IF X = {} THEN <<>> ELSE LET x == CHOOSE x \in X : \A y \in X : Len(x) <= Len(y) IN <<x>> \o OrdShort(X \ {x})
RECURSIVE OrdDeep(_)
OrdDeep(X) == IF X = {} THEN <<>> ELSE LET x == CHOOSE x \in X : \A y \in X : Len(x) >= Len(y) IN <<x>> \o OrdDeep(X \ {x})
SiteSeq(e) == OrdShort(Sites(e))

R0 == Run(c, Fuel)

Decided(r) == r[1] \in {"ok", "err"} /\ ~(r[1] = "err" /\ r[2] = "any")

\* std.trace(id, x) as AST; the reference semantics returns x
Tr(i, x) == <<"std", "trace", <<<<"str", NatCps(i)>>, x>>>>

TSites == OrdDeep(TraceSites(c))   \* deepest first, so that wrapping one site does not move the others

RECURSIVE WrapAll(_, _, _)
WrapAll(e, sites, i) ==
  IF i > Len(sites) THEN e ELSE WrapAll(ReplaceAt(e, sites[i], Tr(i, At(e, sites[i]))), sites, i + 1)

Probed(i) == Run(ReplaceAt(c, TSites[i], ErrP), Fuel)
Demanded == {i \in 1..Len(TSites) : Probed(i)[1] = "err" /\ Probed(i) # R0}
Unknown == {i \in 1..Len(TSites) : Probed(i)[1] \in {"outside", "bottom"}}

Sel == LET ss == SiteSeq(c) IN IF Len(ss) <= MaxSites THEN ss ELSE SubSeq(ss, 1, MaxSites)

RwCases == { <<k, s>> \in RwKinds \X Range(Sel) : Applicable(k, At(c, s)) }

\* (a rewrite may use more fuel: a fuel-exhausted run is compatible with every outcome)
LawRewrite == \A ks \in RwCases :
                LET r == Run(ReplaceAt(c, ks[2], Rw(ks[1], At(c, ks[2]))), Fuel) IN
                r = R0 \/ r = Bottom \/ R0 = Bottom

RECURSIVE SetToSeq(_)
SetToSeq(X) == IF X = {} THEN <<>> ELSE LET x == CHOOSE x \in X : TRUE IN <<x>> \o SetToSeq(X \ {x})

EmitRw ==
  PrintT(<<"CASE", ToJson([
     src |-> P(c), res |-> R0,
     rewrites |-> [i \in 1..Len(SetToSeq(RwCases)) |->
                    LET ks == SetToSeq(RwCases)[i] IN
                    [kind |-> ks[1], src |-> P(ReplaceAt(c, ks[2], Rw(ks[1], At(c, ks[2]))))]],
     probes |-> [i \in 1..Len(Sel) |->
                    LET q == ReplaceAt(c, Sel[i], ErrP) IN [src |-> P(q), res |-> Run(q, Fuel)]],
     traced |-> IF Decided(R0) /\ R0[1] = "ok" /\ TSites # <<>>
                THEN [src |-> P(WrapAll(c, TSites, 1)), demanded |-> SetToSeq(Demanded), unknown |-> SetToSeq(Unknown), nsites |-> Len(TSites)]
                ELSE [src |-> "", demanded |-> <<>>, unknown |-> <<>>, nsites |-> 0]
  ])>>)
=============================================================================
