CONSTANTS
  Mode = "both"
  Tier = "thorough"
  Parts = {1, 2, 3, 4, 5, 6, 7, 8, 9, 10}
INIT Init
NEXT Next
INVARIANT LawsAndEmit
CHECK_DEADLOCK FALSE
