CONSTANT Rate = 1
INIT MCInit
NEXT MCNext
INVARIANTS Laws Emit
CHECK_DEADLOCK FALSE
