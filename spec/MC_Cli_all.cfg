CONSTANT Slice = "all"
INIT MCInit
NEXT MCNext
INVARIANTS Laws Emit
CHECK_DEADLOCK FALSE
