------------------------------ MODULE MC_Static ------------------------------
(* C09 universe: one-hole contexts (every binder kind and every syntactic    *)
(* position, including dead code) composed to depth 2, filled with faulty     *)
(* and fault-free expressions.  Emits source text + the set of static errors. *)
EXTENDS Static, Pretty, Json, Randomization

CONSTANTS Depth, Sample
VARIABLE c

N(n) == <<"num", n>>
V(x) == <<"var", x>>
S(cps) == <<"str", cps>>
T == <<"true">>
Let(bs, b) == <<"local", bs, b>>
Fn(ps, b) == <<"func", ps, b>>
Pm(x) == <<x, <<"nodef">>>>
Pd(x, d) == <<x, d>>
Ap(f, pos) == <<"call", f, pos, <<>>, FALSE>>
ApN(f, pos, named) == <<"call", f, pos, named, FALSE>>
ObjE(ms) == <<"obj", ms>>
Fd(x, vis, e) == <<"fld", <<"id", x>>, vis, FALSE, e>>
FdP(x, vis, e) == <<"fld", <<"id", x>>, vis, TRUE, e>>
FdS(cps, vis, e) == <<"fld", <<"strname", cps>>, vis, FALSE, e>>
FdC(ne, vis, e) == <<"fld", <<"expr", ne>>, vis, FALSE, e>>
OLoc(x, e) == <<"olocal", x, e>>
OAs(a, m) == <<"oassert", a, m>>
ArrE(es) == <<"arr", es>>
Idx(e, i) == <<"index", e, i>>
Dot(e, x) == <<"field", e, x>>
Self == <<"self">>
KA == S(<<97>>)
None == <<"none">>

NCtx == 44
Ctx(i, h) ==
  CASE i = 1 -> h
    [] i = 2 -> Let(<<<<"v", N(1)>>>>, h)
    [] i = 3 -> Let(<<<<"v", h>>>>, N(2))
    [] i = 4 -> Let(<<<<"w", h>>, <<"v", N(1)>>>>, V("w"))
    [] i = 5 -> <<"if", T, N(1), h>>
    [] i = 6 -> <<"if", h, N(1), N(2)>>
    [] i = 7 -> ArrE(<<N(1), h>>)
    [] i = 8 -> Idx(ArrE(<<N(1), h>>), N(0))
    [] i = 9 -> Fn(<<Pm("v")>>, h)
    [] i = 10 -> Fn(<<Pm("v"), Pd("w", h)>>, N(1))
    [] i = 11 -> Ap(Fn(<<Pd("w", h)>>, N(1)), <<N(2)>>)
    [] i = 12 -> Ap(Fn(<<Pm("w")>>, N(1)), <<h>>)
    [] i = 13 -> ApN(Fn(<<Pm("w")>>, N(1)), <<>>, <<<<"w", h>>>>)
    [] i = 14 -> ObjE(<<Fd("a", "d", h)>>)
    [] i = 15 -> ObjE(<<Fd("a", "d", N(1)), Fd("b", "h", h)>>)
    [] i = 16 -> ObjE(<<FdC(h, "d", N(1))>>)
    [] i = 17 -> ObjE(<<OLoc("v", N(1)), Fd("a", "d", h)>>)
    [] i = 18 -> ObjE(<<OLoc("w", h), Fd("a", "d", N(1))>>)
    [] i = 19 -> ObjE(<<OLoc("v", KA), FdC(h, "d", N(1))>>)
    [] i = 20 -> ObjE(<<OAs(h, None), Fd("a", "d", N(1))>>)
    [] i = 21 -> ObjE(<<OAs(T, h), Fd("a", "d", N(1))>>)
    [] i = 22 -> ObjE(<<FdP("a", "d", h)>>)
    [] i = 23 -> <<"arrcomp", h, <<<<"for", "v", ArrE(<<N(1)>>)>>>>>>
    [] i = 24 -> <<"arrcomp", V("v"), <<<<"for", "v", h>>>>>>
    [] i = 25 -> <<"arrcomp", N(1), <<<<"for", "v", ArrE(<<N(1)>>)>>, <<"cif", h>>>>>>
    [] i = 26 -> <<"arrcomp", N(1), <<<<"for", "w", h>>, <<"for", "v", ArrE(<<N(1)>>)>>>>>>
    [] i = 27 -> <<"arrcomp", N(1), <<<<"for", "v", ArrE(<<ArrE(<<N(1)>>)>>)>>, <<"for", "w", h>>>>>>
    [] i = 28 -> <<"objcomp", V("v"), h, <<>>, <<<<"for", "v", ArrE(<<KA>>)>>>>>>
    [] i = 29 -> <<"objcomp", h, N(1), <<>>, <<<<"for", "v", ArrE(<<KA>>)>>>>>>
    [] i = 30 -> <<"objcomp", V("v"), N(1), <<OLoc("w", h)>>, <<<<"for", "v", ArrE(<<KA>>)>>>>>>
    [] i = 31 -> <<"error", h>>
    [] i = 32 -> <<"assert", h, None, N(1)>>
    [] i = 33 -> <<"assert", T, h, N(1)>>
    [] i = 34 -> Dot(h, "a")
    [] i = 35 -> <<"bin", "+", N(1), h>>
    [] i = 36 -> <<"std", "length", <<h>>>>
    [] i = 37 -> ObjE(<<Fd("a", "d", ObjE(<<Fd("b", "d", h)>>))>>)
    [] i = 38 -> <<"slice", ArrE(<<N(1)>>), h, None, None>>
    [] i = 39 -> Let(<<<<"f", Fn(<<Pm("v")>>, h)>>>>, N(1))
    [] i = 40 -> <<"callx", Fn(<<Pm("w"), Pd("v", N(0))>>, N(1)), <<<<"named", "w", h>>>>>>
    \* object locals are one recursive group: an earlier local may refer to a later one
    [] i = 41 -> ObjE(<<OLoc("w", h), OLoc("v", N(1)), Fd("a", "d", V("w"))>>)
    [] i = 42 -> ObjE(<<OLoc("f", Fn(<<Pm("x")>>, h)), OLoc("v", N(2)), Fd("a", "d", Ap(V("f"), <<N(1)>>))>>)
    [] i = 43 -> <<"objcomp", V("v"), N(1), <<OLoc("w", h), OLoc("q", N(1))>>, <<<<"for", "v", ArrE(<<KA>>)>>>>>>
    [] i = 44 -> ObjE(<<Fd("a", "d", V("w")), OLoc("w", h), OAs(T, V("v")), OLoc("v", N(1))>>)

Fillers == {
  N(1), V("v"), V("w"), V("q"),
  Self, Dot(Self, "a"), <<"superf", "a">>, <<"insuper", KA>>, <<"superi", KA>>, <<"dollar">>,
  Let(<<<<"v", N(1)>>, <<"v", N(2)>>>>, N(1)),
  Let(<<<<"x", N(1)>>, <<"y", V("x")>>>>, V("y")),
  Fn(<<Pm("v"), Pm("v")>>, N(1)),
  Fn(<<Pm("x"), Pd("y", V("x"))>>, V("y")),
  ObjE(<<Fd("a", "d", N(1)), Fd("a", "h", N(2))>>),
  ObjE(<<Fd("a", "d", N(1)), FdS(<<97>>, "d", N(2))>>),
  ObjE(<<Fd("a", "d", N(1)), FdC(KA, "d", N(2))>>),
  ObjE(<<OLoc("x", N(1)), OLoc("x", N(2)), Fd("a", "d", N(1))>>),
  <<"callx", Fn(<<Pm("x"), Pm("y")>>, N(1)), <<<<"named", "x", N(1)>>, <<"pos", N(2)>>>>>>,
  <<"callx", Fn(<<Pm("x"), Pm("y")>>, N(1)), <<<<"pos", N(2)>>, <<"named", "y", N(1)>>>>>>,
  <<"import", "import", <<"bin", "+", KA, KA>>>>,
  <<"import", "importstr", <<"textblock", <<97>>>>>>,
  <<"import", "importstr", S(<<110, 111, 102, 105, 108, 101>>)>>,
  <<"arrcomp", V("z"), <<<<"for", "y", ArrE(<<>>)>>, <<"for", "z", V("y")>>>>>>,
  <<"arrcomp", V("y"), <<<<"for", "y", V("z")>>, <<"for", "z", ArrE(<<>>)>>>>>>
}

Universe ==
  IF Depth = 1 THEN {Ctx(i, f) : i \in 1..NCtx, f \in Fillers}
  ELSE {Ctx(i, Ctx(j, f)) : i \in 2..NCtx, j \in 2..NCtx, f \in Fillers}

Init == c \in (IF Sample = 0 \/ Cardinality(Universe) <= Sample THEN Universe ELSE RandomSubset(Sample, Universe))
Next == UNCHANGED c

RECURSIVE ErrSeq(_)
ErrSeq(X) == IF X = {} THEN <<>> ELSE LET x == CHOOSE x \in X : TRUE IN <<x>> \o ErrSeq(X \ {x})

Emit == PrintT(<<"CASE", ToJson([src |-> P(c), errs |-> ErrSeq(StaticErrors(c))])>>)
=============================================================================
