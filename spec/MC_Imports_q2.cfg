CONSTANTS Parts = {"search", "special", "invoc", "pairs", "cycles", "data", "laws"}  ContentLen = 0  Slices = 4  Slice = 2
INIT Init
NEXT Next
INVARIANTS Inv Laws Emit
CHECK_DEADLOCK FALSE
