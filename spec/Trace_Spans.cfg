CONSTANTS Variant = "coded"
INIT TraceInit
NEXT TraceNext
INVARIANTS NotStuck RoundTrip EndsExact Consumed
CHECK_DEADLOCK FALSE
