CONSTANTS Parts = {"search", "special", "invoc", "virt", "pairs", "cycles", "data", "laws", "codefile"}  ContentLen = 0  Slices = 4  Slice = 1
INIT Init
NEXT Next
INVARIANTS Inv Laws Emit
PROPERTIES FirstWins
CHECK_DEADLOCK FALSE
