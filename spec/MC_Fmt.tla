------------------------------ MODULE MC_Fmt ------------------------------
(* Universes and case emission for C19 (std.format / %).                    *)
(*  Mode "main":    conversion x 32 flag subsets x width {none,0,1,5,12,*}  *)
(*                  x precision {none,.0,.1,.3,.*} x values; a seeded       *)
(*                  subset when FMT_STRIDE > 1                              *)
(*  Mode "huge":    widths / precisions 65535, 65536, 70000 (ropes)         *)
(*  Mode "args":    malformed format strings (every proper prefix of valid  *)
(*                  directives, unknown conversions, "%(" ...) and          *)
(*                  multi-directive strings x argument vectors of every     *)
(*                  length and type, single values and objects              *)
(*  Mode "extreme": subnormals, 2^53, 2^100, 2^1023 (few cases)             *)
(* One state per case; invariants Laws (the specification's own     *)
(* theorems) and Emit (prints the case with the expected result).           *)
EXTENDS Fmt, Json

CONSTANTS Mode,      \* "main" | "huge" | "extreme" | "args"
          Seed,      \* VERIF_SEED: drives the seeded choices (subset, * values, keys, modifiers)
          Stride,    \* 1 = the whole universe; n > 1 = a seeded 1/n subset
          AllForms   \* TRUE: emit array, single-value and object form of every case
VARIABLE c

Convs == <<100, 105, 117, 111, 120, 88, 101, 69, 102, 70, 103, 71, 99, 115, 37>>
WTxt == << <<>>, <<48>>, <<49>>, <<53>>, <<49, 50>>, <<42>> >>
PTxt == << <<>>, <<46, 48>>, <<46, 49>>, <<46, 51>>, <<46, 42>> >>
KA == <<97>>

Vals == <<
  IntV(0), Num(-1, 0, 0), IntV(1), IntV(-1), IntV(7), IntV(255), IntV(-255),
  Num(1, 2469, -1),          \* 1234.5
  Num(1, 1, -3),             \* 0.125 (tie at two decimals)
  Num(1, 3, -3),             \* 0.375
  Num(1, 5, -1),             \* 2.5
  Num(1, 9765625, 10),       \* 1e10
  Str(<<233>>), Str(<<97, 119070>>), Str(<<>>),
  Arr(<<IntV(1)>>), Obj(<<Fld(KA, FALSE, IntV(1))>>),
  \* beyond the list of the design: carries, boundaries of g, negative fractions, other types
  Num(-1, 2469, -1),         \* -1234.5
  Num(1, 19, -1),            \* 9.5    (tie, carry into a new digit)
  Num(1, 31, -5),            \* 0.96875
  Num(-1, 5, -1),            \* -2.5
  Num(-1, 1, -1),            \* -0.5
  Num(-1, 1, -3),            \* -0.125
  Num(1, 1, -20),            \* 2^-20 = 9.5367431640625e-07
  Num(1, 1, -14),            \* 2^-14 = 6.103515625e-05   (g: exponent form)
  Num(1, 1, -10),            \* 2^-10 = 0.0009765625      (g: fixed form)
  IntV(100000), IntV(1000000), IntV(123456789),
  Num(1, 1999999, -1),       \* 999999.5 (g: rounds into the next decade)
  Bool(TRUE), Null, Func,
  Str(<<97, 98, 99, 100, 101, 102>>), Str(<<37>>),
  IntV(65), IntV(1114111), IntV(1114112),
  Arr(<<>>), Obj(<<>>), Arr(<<Str(<<97, 34>>), Null>>)
>>
\* literals: TLC would re-evaluate Len(Vals) at every use
NV == 41
NBase == 17          \* the values listed in the design; the others are combined with ExtraFlags only
ExtraFlags == {0, 1, 2, 4, 8, 16, 3, 18, 31}
ASSUME NV = Len(Vals)

StarW == <<IntV(0), IntV(1), IntV(5), IntV(12)>>
StarP == <<IntV(0), IntV(1), IntV(3), IntV(2)>>
Keys == << <<97>>, <<233>>, <<97, 32, 98>>, <<>> >>
LenMods == << <<>>, <<104>>, <<108>>, <<76>> >>

Hash(idx, k) == ((idx % 65521) * (2 * k + 1) + (idx \div 65521) * 37 + Seed * 31 + k * 977) % 1009
Sel(idx) == Stride <= 1 \/
            ((((idx % 40009) * (idx % 40009)) % 1000003) + (idx \div 7) + Seed * 101) % Stride = 0

FlagTxt(fl, rev) ==
  LET on == <<fl % 2 = 1, (fl \div 2) % 2 = 1, (fl \div 4) % 2 = 1, (fl \div 8) % 2 = 1, (fl \div 16) % 2 = 1>>
      ch == <<35, 48, 45, 32, 43>>
      pick(i) == IF on[i] THEN <<ch[i]>> ELSE <<>>
  IN IF rev THEN pick(5) \o pick(4) \o pick(3) \o pick(2) \o pick(1)
     ELSE pick(1) \o pick(2) \o pick(3) \o pick(4) \o pick(5)

RopeJ(r) == Tup([i \in 1..Len(r) |-> <<r[i].c, r[i].n>>])
ExpJ(R) == IF Decided(R) THEN [k |-> R.k, r |-> RopeJ(R.r)] ELSE [k |-> R.k, why |-> R.why]
FormJ(name, fmt, vals) == [form |-> name, fmt |-> fmt, vals |-> vals, exp |-> ExpJ(Format(fmt, vals))]

\* what Python needs to check the value-and-shape invariants of a one-directive case
MetaJ(cd, wv, pv, v) ==
  LET wr == IF cd.w = -1 THEN StarNat(wv, TRUE) ELSE [k |-> "ok", n |-> cd.w]
      pr == IF cd.p = -1 THEN StarNat(pv, TRUE) ELSE [k |-> "ok", n |-> cd.p]
  IN [conv |-> cd.conv, alt |-> cd.alt, zero |-> cd.zero, left |-> cd.left, blank |-> cd.blank,
      plus |-> cd.plus, fw |-> IF wr.k = "ok" THEN wr.n ELSE -9, prec |-> IF pr.k = "ok" THEN pr.n ELSE -9,
      wstar |-> cd.w = -1, pstar |-> cd.p = -1, v |-> v]

WithKey(fmt, key) == <<37, 40>> \o key \o <<41>> \o Tail(fmt)

(***************************************************************************)
(* main                                                                    *)
(***************************************************************************)
MainIdx(ci, fl, wi, pi, vi) == ((((ci - 1) * 32 + fl) * 6 + (wi - 1)) * 5 + (pi - 1)) * NV + (vi - 1)

MainCase(ci, fl, wi, pi, vi) ==
  LET idx == MainIdx(ci, fl, wi, pi, vi)
      fmt == <<37>> \o FlagTxt(fl, Hash(idx, 5) % 2 = 1) \o WTxt[wi] \o PTxt[pi]
             \o LenMods[IF Hash(idx, 4) % 3 = 0 THEN (Hash(idx, 6) % 4) + 1 ELSE 1] \o <<Convs[ci]>>
  IN [u |-> "main", idx |-> idx, fmt |-> fmt, v |-> Vals[vi],
      wv |-> StarW[(Hash(idx, 1) % 4) + 1], pv |-> StarP[(Hash(idx, 2) % 4) + 1],
      key |-> Keys[(Hash(idx, 3) % 4) + 1], hid |-> Hash(idx, 7) % 4 = 0]

(***************************************************************************)
(* huge                                                                    *)
(***************************************************************************)
HugeN == <<65535, 65536, 70000>>
HFlags == << <<>>, <<48>>, <<45>>, <<35>>, <<43, 48>>, <<48, 45>> >>
HVals == <<IntV(1), IntV(-255), Num(1, 1, -3), Str(<<233>>), Num(1, 9765625, 10)>>
HugeCase(ci, wh, hi, st, fi, ot, vi) ==
  LET num == DigitChars(NatDigits(HugeN[hi]))
      big == IF st THEN <<42>> ELSE num
      fmt == <<37>> \o HFlags[fi]
             \o (IF wh = 1 THEN big ELSE IF ot = 1 THEN <<>> ELSE <<51>>)
             \o (IF wh = 2 THEN <<46>> \o big ELSE IF ot = 1 THEN <<>> ELSE <<46, 51>>)
             \o <<Convs[ci]>>
      idx == (((((ci - 1) * 2 + (wh - 1)) * 3 + (hi - 1)) * 2 + (IF st THEN 1 ELSE 0)) * 6 + (fi - 1)) * 10
             + (ot - 1) * 5 + (vi - 1)
  IN [u |-> "huge", idx |-> idx, fmt |-> fmt, v |-> HVals[vi],
      wv |-> IntV(HugeN[hi]), pv |-> IntV(HugeN[hi]), key |-> KA, hid |-> FALSE]

(***************************************************************************)
(* extreme magnitudes                                                      *)
(***************************************************************************)
XVals == <<Num(1, 1, -1074), Num(-1, 3, -1074), Num(1, 1, -1022), Num(1, 1, 53), Num(1, 2147483647, 22),
           Num(-1, 1, 100), Num(1, 1, 1023), Num(1, 3, 99), Num(1, 1953125, 80)>>
XConvs == <<100, 120, 111, 101, 69, 102, 103, 115>>
XFlags == << <<>>, <<43>>, <<35, 48>>, <<45>> >>
XW == << <<>>, <<49, 50>> >>
XP == << <<>>, <<46, 48>>, <<46, 51>>, <<46, 50, 48>>, <<46, 49, 49, 48, 48>> >>
XCase(ci, fi, wi, pi, vi) ==
  [u |-> "extreme", idx |-> ((((ci - 1) * 4 + (fi - 1)) * 2 + (wi - 1)) * 5 + (pi - 1)) * Len(XVals) + (vi - 1),
   fmt |-> <<37>> \o XFlags[fi] \o XW[wi] \o XP[pi] \o <<XConvs[ci]>>, v |-> XVals[vi],
   wv |-> IntV(0), pv |-> IntV(0), key |-> KA, hid |-> FALSE]

(***************************************************************************)
(* args: format strings x argument values                                  *)
(***************************************************************************)
Base == <<
     <<37, 40, 107, 41, 35, 48, 32, 43, 45, 49, 50, 46, 51, 108, 100>>,  \* {pct}(k)#0 +-12.3ld
     <<37, 42, 46, 42, 102>>,  \* {pct}*.*f
     <<37, 53, 115>>,  \* {pct}5s
     <<37, 40, 97, 98, 41, 115>>,  \* {pct}(ab)s
     <<37, 46, 50, 101>>,  \* {pct}.2e
     <<37, 37>>,  \* {pct}{pct}
     <<37, 45, 53, 46, 49, 104, 88>>,  \* {pct}-5.1hX
     <<37, 43, 46, 51, 76, 103>>,  \* {pct}+.3Lg
     <<37, 99>>,  \* {pct}c
     <<37, 32, 100>>,  \* {pct} d
     <<37, 48, 42, 105>>,  \* {pct}0*i
     <<37, 46, 42, 117>>,  \* {pct}.*u
     <<37, 35, 111>>,  \* {pct}#o
     <<37, 40, 233, 41, 115>>,  \* {pct}(\xe9)s
     <<37, 40, 97, 32, 98, 41, 48, 53, 46, 49, 102>>,  \* {pct}(a b)05.1f
     <<37, 49, 50, 46, 48, 71>>  \* {pct}12.0G
>>
Misc == <<
     <<>>,  \* 
     <<97, 98, 99>>,  \* abc
     <<37>>,  \* {pct}
     <<97, 98, 99, 37>>,  \* abc{pct}
     <<37, 40>>,  \* {pct}(
     <<37, 40, 97, 98, 99>>,  \* {pct}(abc
     <<37, 40, 41, 100>>,  \* {pct}()d
     <<37, 40, 97, 41, 40, 98, 41, 100>>,  \* {pct}(a)(b)d
     <<37, 46>>,  \* {pct}.
     <<37, 46, 46, 50, 102>>,  \* {pct}..2f
     <<37, 53, 42, 100>>,  \* {pct}5*d
     <<37, 42, 53, 100>>,  \* {pct}*5d
     <<37, 46, 42, 51, 102>>,  \* {pct}.*3f
     <<37, 53, 46, 51, 46, 50, 102>>,  \* {pct}5.3.2f
     <<37, 45, 43, 32, 35, 48, 100>>,  \* {pct}-+ #0d
     <<37, 48, 35, 100>>,  \* {pct}0#d
     <<37, 53, 45, 100>>,  \* {pct}5-d
     <<37, 43, 53, 46, 50, 108, 102>>,  \* {pct}+5.2lf
     <<37, 35>>,  \* {pct}#
     <<37, 104, 104, 100>>,  \* {pct}hhd
     <<37, 108, 108, 100>>,  \* {pct}lld
     <<37, 76, 104, 100>>,  \* {pct}Lhd
     <<37, 108, 100>>,  \* {pct}ld
     <<37, 104, 115>>,  \* {pct}hs
     <<37, 76, 37>>,  \* {pct}L{pct}
     <<37, 121>>,  \* {pct}y
     <<37, 97>>,  \* {pct}a
     <<37, 65>>,  \* {pct}A
     <<37, 110>>,  \* {pct}n
     <<37, 112>>,  \* {pct}p
     <<37, 98>>,  \* {pct}b
     <<37, 114>>,  \* {pct}r
     <<37, 68>>,  \* {pct}D
     <<37, 83>>,  \* {pct}S
     <<37, 67>>,  \* {pct}C
     <<37, 73>>,  \* {pct}I
     <<37, 85>>,  \* {pct}U
     <<37, 79>>,  \* {pct}O
     <<37, 233>>,  \* {pct}\xe9
     <<37, 119070>>,  \* {pct}\U0001d11e
     <<37, 32>>,  \* {pct} 
     <<37, 53, 32, 100>>,  \* {pct}5 d
     <<37, 46, 102>>,  \* {pct}.f
     <<37, 46, 100>>,  \* {pct}.d
     <<37, 53, 46, 115>>,  \* {pct}5.s
     <<37, 100, 37, 100>>,  \* {pct}d{pct}d
     <<37, 100, 32, 37, 115>>,  \* {pct}d {pct}s
     <<97, 37, 100, 98>>,  \* a{pct}db
     <<49, 48, 48, 37, 37>>,  \* 100{pct}{pct}
     <<37, 37, 37, 100>>,  \* {pct}{pct}{pct}d
     <<37, 100, 37, 37>>,  \* {pct}d{pct}{pct}
     <<37, 37, 37, 37>>,  \* {pct}{pct}{pct}{pct}
     <<37, 115, 37, 115, 37, 115>>,  \* {pct}s{pct}s{pct}s
     <<37, 42, 100>>,  \* {pct}*d
     <<37, 46, 42, 102>>,  \* {pct}.*f
     <<37, 42, 46, 42, 102>>,  \* {pct}*.*f
     <<37, 42, 100, 37, 42, 100>>,  \* {pct}*d{pct}*d
     <<37, 42, 37>>,  \* {pct}*{pct}
     <<37, 53, 37>>,  \* {pct}5{pct}
     <<37, 45, 53, 37, 124>>,  \* {pct}-5{pct}|
     <<37, 40, 97, 41, 115>>,  \* {pct}(a)s
     <<37, 40, 97, 41, 115, 32, 37, 40, 98, 41, 100>>,  \* {pct}(a)s {pct}(b)d
     <<37, 40, 97, 41, 115, 32, 37, 115>>,  \* {pct}(a)s {pct}s
     <<37, 40, 97, 41, 42, 100>>,  \* {pct}(a)*d
     <<37, 40, 97, 41, 46, 42, 100>>,  \* {pct}(a).*d
     <<37, 40, 97, 41, 46, 42, 115>>,  \* {pct}(a).*s
     <<37, 40, 97, 41, 37>>,  \* {pct}(a){pct}
     <<37, 40, 107, 41, 100>>,  \* {pct}(k)d
     <<37, 40, 233, 41, 100>>,  \* {pct}(\xe9)d
     <<37, 40, 41, 115>>,  \* {pct}()s
     <<37, 40, 97, 41, 100, 37, 40, 97, 41, 100>>,  \* {pct}(a)d{pct}(a)d
     <<37, 40, 97, 41, 41, 100>>,  \* {pct}(a))d
     <<37, 40, 40, 97, 41, 100>>,  \* {pct}((a)d
     <<37, 99, 37, 99>>,  \* {pct}c{pct}c
     <<37, 100, 37>>,  \* {pct}d{pct}
     <<37, 100, 37, 40>>,  \* {pct}d{pct}(
     <<120, 37, 53>>,  \* x{pct}5
     <<37, 53, 100, 124, 37, 45, 53, 100, 124, 37, 48, 53, 100>>,  \* {pct}5d|{pct}-5d|{pct}05d
     <<37, 115, 32, 37, 37, 115, 32, 37, 115>>,  \* {pct}s {pct}{pct}s {pct}s
     <<37, 49, 36, 100>>,  \* {pct}1$d
     <<37, 39, 100>>,  \* {pct}'d
     <<37, 73, 54, 52, 100>>,  \* {pct}I64d
     <<37, 122, 100>>,  \* {pct}zd
     <<37, 106, 100>>,  \* {pct}jd
     <<37, 116, 100>>,  \* {pct}td
     <<37, 113, 100>>,  \* {pct}qd
     <<37, 35, 120, 32, 37, 35, 111>>,  \* {pct}#x {pct}#o
     <<37, 101, 32, 37, 103>>,  \* {pct}e {pct}g
     <<37, 46, 51>>,  \* {pct}.3
     <<37, 46, 42>>,  \* {pct}.*
     <<37, 42>>,  \* {pct}*
     <<37, 42, 46>>,  \* {pct}*.
     <<37, 40, 97, 41>>,  \* {pct}(a)
     <<37, 40, 97, 41, 53>>,  \* {pct}(a)5
     <<37, 40, 97, 41, 46, 50>>  \* {pct}(a).2
>>
Prefixes == UNION { { SubSeq(Base[b], 1, n) : n \in 1..(Len(Base[b]) - 1) } : b \in 1..Len(Base) }
Fmts == { Base[i] : i \in 1..Len(Base) } \cup { Misc[i] : i \in 1..Len(Misc) } \cup Prefixes
        \cup { p \o <<124>> : p \in Prefixes } \cup { <<97>> \o p : p \in Prefixes }
SX == Str(<<120>>)
ObjAB == Obj(<<Fld(<<97>>, FALSE, IntV(1)), Fld(<<97, 98>>, FALSE, SX), Fld(<<98>>, TRUE, IntV(2)),
               Fld(<<107>>, FALSE, Num(1, 5, -1)), Fld(<<233>>, FALSE, IntV(3))>>)
ArgVals == <<
  Arr(<<>>), Arr(<<IntV(1)>>), Arr(<<IntV(1), IntV(2)>>), Arr(<<IntV(1), IntV(2), IntV(3)>>),
  Arr(<<IntV(1), IntV(2), IntV(3), IntV(4)>>), Arr(<<IntV(5), IntV(2), Num(1, 5, -1)>>),
  Arr(<<SX>>), Arr(<<SX, IntV(2)>>), Arr(<<IntV(5), SX>>), Arr(<<SX, SX, SX>>), Arr(<<IntV(3), SX, IntV(1)>>),
  Arr(<<IntV(-5), IntV(3)>>), Arr(<<Num(1, 5, -1), IntV(3)>>), Arr(<<Null>>), Arr(<<Arr(<<IntV(1)>>)>>),
  Arr(<<Obj(<<Fld(<<97>>, FALSE, IntV(1))>>)>>),
  IntV(1), SX, Null, Bool(FALSE), Func,
  ObjAB, Obj(<<>>), Obj(<<Fld(<<97>>, TRUE, IntV(1))>>), Obj(<<Fld(<<>>, FALSE, SX)>>)
>>

\* number of values a parsed format consumes in the array form
RECURSIVE Need(_)
Need(parts) ==
  IF Len(parts) = 0 THEN 0
  ELSE LET p == parts[1] IN
       (IF p.kind = "lit" THEN 0
        ELSE (IF p.w = -1 THEN 1 ELSE 0) + (IF p.p = -1 THEN 1 ELSE 0) + (IF p.conv = 37 THEN 0 ELSE 1))
       + Need(Tail(parts))

LawArgs(fmt, vals) ==
  LET pr == ParseFormat(fmt)
      R == Format(Str(fmt), vals)
  IN /\ (~pr.ok => R.k = "err")
     /\ (pr.ok /\ vals.t = "arr" =>
           /\ (Decided(R) => Len(vals.a) = Need(pr.parts))
           /\ (Len(vals.a) # Need(pr.parts) /\ R.k # "outside" => R.k = "err"))
     /\ (vals.t \notin {"arr", "obj"} => SameResult(Format(Str(fmt), Arr(<<vals>>)), R))
     /\ (pr.ok /\ vals.t = "obj" /\ Decided(R) =>
           \A i \in 1..Len(pr.parts) : pr.parts[i].kind = "code" =>
              (pr.parts[i].conv = 37 \/ pr.parts[i].hasKey) /\ pr.parts[i].w # -1 /\ pr.parts[i].p # -1)
     /\ Format(IntV(1), vals).k = "err"

LawPrefixes ==
  \A b \in 1..Len(Base) :
     /\ ParseFormat(Base[b]).ok /\ Len(ParseFormat(Base[b]).parts) = 1
     /\ \A n \in 1..(Len(Base[b]) - 1) :
          LET q == ParseFormat(SubSeq(Base[b], 1, n)) IN ~q.ok /\ q.why = "truncated"

(***************************************************************************)
(* model                                                                   *)
(***************************************************************************)
\* Seeds are the initial states; every case is a successor of its seed, so that the
\* TLC workers share the cases (initial states are generated by one thread).
SeedSt(a, b) == [u |-> "seed", a |-> a, b |-> b]
Init ==
  CASE Mode = "main" -> \E ci \in 1..Len(Convs), fl \in 0..31 : c = SeedSt(ci, fl)
    [] Mode = "huge" -> \E ci \in 1..Len(Convs), wh \in 1..2 : c = SeedSt(ci, wh)
    [] Mode = "extreme" -> \E ci \in 1..Len(XConvs), vi \in 1..Len(XVals) : c = SeedSt(ci, vi)
    [] Mode = "args" -> \E ai \in 1..Len(ArgVals) : c = SeedSt(ai, 0)
Next ==
  /\ c.u = "seed"
  /\ CASE Mode = "main" ->
            \E wi \in 1..6, pi \in 1..5, vi \in 1..NV :
               /\ Sel(MainIdx(c.a, c.b, wi, pi, vi))
               /\ (vi > NBase => c.b \in ExtraFlags)
               /\ c' = MainCase(c.a, c.b, wi, pi, vi)
       [] Mode = "huge" ->
            \E hi \in 1..3, st \in BOOLEAN, fi \in 1..6, ot \in 1..2, vi \in 1..5 :
               /\ Sel(HugeCase(c.a, c.b, hi, st, fi, ot, vi).idx)
               /\ c' = HugeCase(c.a, c.b, hi, st, fi, ot, vi)
       [] Mode = "extreme" ->
            \E fi \in 1..4, wi \in 1..2, pi \in 1..5 :
               /\ (pi = 5 => XConvs[c.a] \in {101, 102})
               \* the plain directive of every conversion on every extreme value is always taken
               /\ ((fi = 1 /\ wi = 1 /\ pi = 1) \/ Sel(XCase(c.a, fi, wi, pi, c.b).idx))
               /\ c' = XCase(c.a, fi, wi, pi, c.b)
       [] Mode = "args" ->
            \E f \in Fmts : c' = [u |-> "args", idx |-> c.a, fmt |-> f, vals |-> ArgVals[c.a]]

\* the parsed directive of a one-directive case
Cd == ParseFormat(c.fmt).parts[1]
Stars == Cd.w = -1 \/ Cd.p = -1
Args == ArgsOf(Cd, c.wv, c.pv, c.v)

OneFormsV(v) ==
  LET idx == c.idx
      a == <<FormJ("A", Str(c.fmt), Arr(ArgsOf(Cd, c.wv, c.pv, v)))>>
      s == IF ~Stars /\ (AllForms \/ idx % 3 = 0) THEN <<FormJ("S", Str(c.fmt), v)>> ELSE <<>>
      o == IF (AllForms \/ idx % 3 = 1) /\ (~Stars \/ idx % 5 = 0)
           THEN <<FormJ("O", Str(WithKey(c.fmt, c.key)), Obj(<<Fld(c.key, c.hid, v)>>))>> ELSE <<>>
  IN a \o s \o o
OneForms == OneFormsV(c.v)

\* A negative fraction under d i u o x X is not decided (upstream implementations floor or
\* truncate).  Both readings are integers, for which the result IS decided: the result for the
\* fraction has to be one of the two.  AltForms lists, aligned with OneForms, the forms for
\* trunc(v) and for floor(v) (empty when v is not such a value).
NegFrac(v) == v.t = "num" /\ IsNeg(v) /\ ~IsIntV(v) /\ v.e < 0 /\ -v.e <= 30
TruncMag(v) == v.m \div Pow2(-v.e)
AltForms ==
  IF NegFrac(c.v) /\ Cd.conv \in {100, 105, 117, 111, 120, 88}
  THEN <<OneFormsV(IntV(-TruncMag(c.v))), OneFormsV(IntV(-(TruncMag(c.v) + 1)))>>
  ELSE <<>>

Emit ==
  IF c.u = "seed" THEN TRUE ELSE
  IF c.u = "args"
  THEN PrintT(<<"CASE", ToJson([u |-> c.u, idx |-> c.idx, forms |-> <<FormJ("G", Str(c.fmt), c.vals)>>])>>)
  ELSE PrintT(<<"CASE", ToJson([u |-> c.u, idx |-> c.idx, meta |-> MetaJ(Cd, c.wv, c.pv, c.v),
                                 forms |-> IF c.u = "main" THEN OneForms
                                           ELSE <<FormJ("A", Str(c.fmt), Arr(Args))>>,
                                 alts |-> IF c.u = "main" THEN AltForms ELSE <<>>])>>)

\* the text as written and the canonical text of its parse mean the same
RA == Format(Str(c.fmt), Arr(Args))
LawsOne(heavy) ==
  LET R == Run1(Cd, 0, c.wv, c.pv, c.v) IN
  /\ SameResult(RA, R)
  /\ LawWidth(Cd, c.wv, c.pv, c.v, R)
  /\ (heavy =>
        /\ LawAlias(Cd, c.wv, c.pv, c.v, R, <<104, 108, 76>>[(c.idx % 3) + 1])
        /\ LawFlags(Cd, c.wv, c.pv, c.v, R)
        /\ LawG(Cd, c.wv, c.pv, c.v)
        /\ (c.idx % 2 = 0 => LawForms(Cd, c.wv, c.pv, c.v, R, c.key, c.hid))
        /\ (c.idx % 5 = 0 => LawParse(Cd, 0) /\ LawParse([Cd EXCEPT !.hasKey = TRUE, !.key = c.key], 108)))

Laws ==
  CASE c.u = "seed" -> TRUE
    [] c.u = "args" -> LawArgs(c.fmt, c.vals)
    [] c.u = "main" -> LawsOne(TRUE)
    [] c.u = "huge" -> LawsOne(c.idx % 4 = 0)
    [] c.u = "extreme" -> Decided(RA) => RopeLen(RA.r) >= EffWidth(Cd, c.wv)

\* laws that do not depend on the case: checked once, when TLC starts
ASSUME \A i \in 1..NV : LawDigits(Vals[i])
ASSUME \A i \in 1..Len(HVals) : LawDigits(HVals[i])
ASSUME \A i \in 1..Len(XVals) : LawDigits(XVals[i])
ASSUME LawPrefixes
=============================================================================
