------------------------------ MODULE MC_Heap ------------------------------
(* Model-checking harness for Heap: bounded behaviours, transition and     *)
(* behaviour emission for replay against the real GcContext.               *)
EXTENDS Heap, Json, TLCExt, IOUtils

CONSTANT MaxOps      \* length bound of explored behaviours

VARIABLES nops, hist   \* hist is only used in simulation (MC_Heap_sim.cfg)

mcvars == <<vars, nops, hist>>

St == [objs |-> objs, ext |-> ext, view |-> view, edges |-> edges]
StP == [objs |-> objs', ext |-> ext', view |-> view', edges |-> edges']

MCInit == Init /\ nops = 0 /\ hist = <<>>

Step(name, args) ==
  /\ nops < MaxOps
  /\ nops' = nops + 1

\* Exhaustive exploration: hist stays empty; every transition is printed once.
EmitT(name, args) ==
  /\ Step(name, args)
  /\ hist' = hist
  /\ PrintT(<<"STEP", ToJson([pre |-> St, act |-> name, args |-> args, post |-> StP])>>)

\* Simulation: hist records the operations and the expected live set after each.
Rec(name, args) ==
  /\ Step(name, args)
  /\ hist' = Append(hist, [act |-> name, args |-> args, live |-> objs'])

Acts(E(_, _)) ==
  \/ \E b \in BOOLEAN : Alloc(b) /\ E(IF b THEN "alloc_view" ELSE "alloc", <<nalloc + 1>>)
  \/ \E a, b \in Ids : AddEdge(a, b) /\ E("add_edge", <<a, b>>)
  \/ \E a, b \in Ids : DelEdge(a, b) /\ E("del_edge", <<a, b>>)
  \/ \E o \in Ids : AddExt(o) /\ E("add_ext", <<o>>)
  \/ \E o \in Ids : AddView(o) /\ E("add_view", <<o>>)
  \/ \E o \in Ids : DropExt(o) /\ E("drop_ext", <<o>>)
  \/ \E o \in Ids : DropView(o) /\ E("drop_view", <<o>>)
  \/ Gc /\ E("gc", <<>>)

NextPlain == Acts(LAMBDA n, a : Step(n, a) /\ hist' = hist)
NextEmit == Acts(EmitT)
NextSim == Acts(Rec)

\* Printed once per simulated behaviour, when it has reached full length.
\* Simulation stops (TLCSet("exit")) after IOEnv.NBEH behaviours; run with -workers 1.
ASSUME TLCSet(1, 0)
BehLimit == IF "NBEH" \in DOMAIN IOEnv THEN atoi(IOEnv.NBEH) ELSE 1000
EmitBehaviour ==
  nops = MaxOps =>
    /\ PrintT(<<"BEHAVIOUR", ToJson(hist)>>)
    /\ TLCSet(1, TLCGet(1) + 1)
    /\ (TLCGet(1) >= BehLimit => TLCSet("exit", TRUE))

View == <<vars>>
=============================================================================
