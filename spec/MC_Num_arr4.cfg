CONSTANT Mode = "arr4"
CONSTANT MaxLen = 4
CONSTANT Extended = TRUE
INIT Init
NEXT Next
INVARIANTS Laws Gate Emit
CHECK_DEADLOCK FALSE
