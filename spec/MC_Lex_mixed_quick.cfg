CONSTANTS
  Mode = "bytes"
  Alpha = {97, 101, 95, 48, 49, 46, 43, 45, 47, 42, 124, 58, 32, 10, 35, 36, 34, 92}
  MaxLen = 3
  First = {97, 101, 95, 48, 49, 46, 43, 45, 47, 42, 124, 58, 32, 10, 35, 36, 34, 92}
INIT Init
NEXT Next
INVARIANTS Laws Emit
CHECK_DEADLOCK FALSE
