-------------------------------- MODULE Depth --------------------------------
(***************************************************************************)
(* C10: the contract between recursion depth d, frame limit s and outcome.  *)
(*                                                                          *)
(* A program FAMILY is a recursion shape parameterised by a depth d; the    *)
(* number of frames it needs is some unknown but monotone function need(d)  *)
(* (frames-per-level is implementation defined), infinite for the cyclic /  *)
(* unbounded shapes.  The specification of the evaluator (Machine.tla:      *)
(* WithinLimit, FramesBalanced) implies, for every family:                  *)
(*   outcome(d, s) = value(d)          if need(d) <= s                      *)
(*                 = StackOverflow     otherwise                            *)
(*                 (InfiniteRecursion allowed instead, for cyclic shapes)   *)
(* so the matrix of outcomes has a staircase shape.  This module generates  *)
(* the grid (family x d x s) and states the staircase as a state machine    *)
(* over the cells read in row order; Trace_Depth validates the recorded     *)
(* matrix of the real implementation against it.                            *)
(***************************************************************************)
EXTENDS Integers, Sequences, FiniteSets, TLC

\* kind: "finite" (terminates for every d), "unbounded" (never terminates, frames grow),
\*       "cyclic" (a value that depends on itself)
Families == {
  [id |-> "call",        kind |-> "finite"],    \* non-tail function recursion
  [id |-> "tailstrict",  kind |-> "finite"],    \* tail recursion with tailstrict
  [id |-> "mutual",      kind |-> "finite"],    \* mutual recursion
  [id |-> "objfield",    kind |-> "finite"],    \* recursive object method
  [id |-> "selfchain",   kind |-> "finite"],    \* field i reads field i-1
  [id |-> "localchain",  kind |-> "finite"],    \* local i reads local i-1
  [id |-> "nestarr_eq",  kind |-> "finite"],    \* nested arrays compared with ==
  [id |-> "nestarr_lt",  kind |-> "finite"],    \* nested arrays compared with <
  [id |-> "nestarr_str", kind |-> "finite"],    \* nested arrays converted to string
  [id |-> "nestarr_man", kind |-> "finite"],    \* nested arrays manifested
  [id |-> "nestobj_man", kind |-> "finite"],    \* nested objects manifested
  [id |-> "nestobj_eq",  kind |-> "finite"],
  [id |-> "prune",       kind |-> "finite"],    \* std.prune of a nested structure
  [id |-> "superchain",  kind |-> "finite"],    \* d extensions each reading super
  [id |-> "arrcomp",     kind |-> "finite"],    \* nested comprehension / thunk chain through arrays
  [id |-> "inf_call",    kind |-> "unbounded"], \* f(n) = f(n + 1)
  [id |-> "inf_plus",    kind |-> "unbounded"], \* f(n) = 1 + f(n)
  [id |-> "inf_obj",     kind |-> "unbounded"], \* { f(n): self.f(n + 1) }
  [id |-> "cyc_local",   kind |-> "cyclic"],    \* local x = x
  [id |-> "cyc_field",   kind |-> "cyclic"],    \* { x: self.x }
  [id |-> "cyc_two",     kind |-> "cyclic"],    \* { a: self.b, b: self.a }
  [id |-> "cyc_super",   kind |-> "cyclic"],    \* { a: 1 } + { a: super.a + self.a }
  [id |-> "cyc_arr",     kind |-> "cyclic"]     \* local a = [a[0]]
}

KindOf(f) == (CHOOSE x \in Families : x.id = f).kind

\* What one cell may be, given the family's kind
CellOk(kind, out) ==
  CASE kind = "finite" -> out \in {"value", "overflow"}
    [] kind = "unbounded" -> out = "overflow"
    [] kind = "cyclic" -> out \in {"overflow", "infrec"}

(* Row scan, s increasing for fixed (family, d): once a value, always the same value.  *)
(* Column scan, d increasing for fixed (family, s): once a failure, always a failure.  *)
NoCell == [out |-> "none", val |-> "", d |-> -1, s |-> -1]
RowStep(prev, cell) ==     \* prev = NoCell or the previous cell of the row
  prev.out = "none" \/ (prev.out = "value" => (cell.out = "value" /\ cell.val = prev.val))
ColStep(prev, cell) ==
  prev.out = "none" \/ (prev.out # "value" => cell.out # "value")
=============================================================================
