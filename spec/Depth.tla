-------------------------------- MODULE Depth --------------------------------
(***************************************************************************)
(* C10: the contract between recursion depth d, frame limit s and outcome.  *)
(*                                                                          *)
(* A program FAMILY is a recursion shape parameterised by a depth d; the    *)
(* number of frames it needs is some unknown but monotone function need(d)  *)
(* (frames-per-level is implementation defined), infinite for the cyclic /  *)
(* unbounded shapes.  The specification of the evaluator (Machine.tla:      *)
(* WithinLimit, FramesBalanced) implies, for every family:                  *)
(*   outcome(d, s) = value(d)          if need(d) <= s                      *)
(*                 = StackOverflow     otherwise                            *)
(*                 (InfiniteRecursion allowed instead, for cyclic shapes)   *)
(* so the matrix of outcomes has a staircase shape.  This module generates  *)
(* the grid (family x d x s) and states the staircase as a state machine    *)
(* over the cells read in row order; Trace_Depth validates the recorded     *)
(* matrix of the real implementation against it.                            *)
(***************************************************************************)
EXTENDS Integers, Sequences, FiniteSets, TLC

\* kind: "finite" (terminates for every d), "unbounded" (never terminates, frames grow),
\*       "cyclic" (a value that depends on itself)
Families == {
  [id |-> "call",         kind |-> "finite", linear |-> TRUE],    \* non-tail function recursion
  [id |-> "tailstrict",   kind |-> "finite", linear |-> FALSE],    \* tail recursion with tailstrict
  [id |-> "mutual",       kind |-> "finite", linear |-> TRUE],    \* mutual recursion
  [id |-> "objfield",     kind |-> "finite", linear |-> TRUE],    \* recursive object method
  [id |-> "selfchain",    kind |-> "finite", linear |-> TRUE],    \* field i reads field i-1
  [id |-> "localchain",   kind |-> "finite", linear |-> TRUE],    \* local i reads local i-1
  [id |-> "nestarr_eq",   kind |-> "finite", linear |-> TRUE],    \* nested arrays compared with ==
  [id |-> "nestarr_lt",   kind |-> "finite", linear |-> TRUE],    \* nested arrays compared with <
  [id |-> "nestarr_str",  kind |-> "finite", linear |-> TRUE],    \* nested arrays converted to string
  [id |-> "nestarr_man",  kind |-> "finite", linear |-> TRUE],    \* nested arrays manifested
  [id |-> "nestobj_man",  kind |-> "finite", linear |-> TRUE],    \* nested objects manifested
  [id |-> "nestobj_eq",   kind |-> "finite", linear |-> TRUE],
  [id |-> "prune",        kind |-> "finite", linear |-> TRUE],    \* std.prune of a nested structure
  [id |-> "superchain",   kind |-> "finite", linear |-> TRUE],    \* d extensions each reading super
  [id |-> "arrcomp",      kind |-> "finite", linear |-> TRUE],    \* nested comprehension / thunk chain through arrays
  [id |-> "inf_call",     kind |-> "unbounded", linear |-> FALSE], \* f(n) = f(n + 1)
  [id |-> "inf_plus",     kind |-> "unbounded", linear |-> FALSE], \* f(n) = 1 + f(n)
  [id |-> "inf_obj",      kind |-> "unbounded", linear |-> FALSE], \* { f(n): self.f(n + 1) }
  [id |-> "cyc_local",    kind |-> "cyclic", linear |-> FALSE],    \* local x = x
  [id |-> "cyc_field",    kind |-> "cyclic", linear |-> FALSE],    \* { x: self.x }
  [id |-> "cyc_two",      kind |-> "cyclic", linear |-> FALSE],    \* { a: self.b, b: self.a }
  [id |-> "cyc_super",    kind |-> "cyclic", linear |-> FALSE],    \* { a: 1 } + { a: super.a + self.a }
  [id |-> "cyc_arr",      kind |-> "cyclic", linear |-> FALSE],    \* local a = [a[0]]
  [id |-> "pluschain",   kind |-> "finite", linear |-> TRUE],     \* d extensions {x+: 1}
  [id |-> "plusfold",    kind |-> "finite", linear |-> TRUE],     \* the same built by std.foldl
  [id |-> "nest1_eq",    kind |-> "finite", linear |-> TRUE],     \* nested ONE-element arrays compared with ==
  [id |-> "nestobj_str", kind |-> "finite", linear |-> TRUE],     \* nested objects converted to string
  [id |-> "cyc_eq",      kind |-> "unbounded", linear |-> FALSE], \* local a = [a]; a == a
  [id |-> "cyc_lt",      kind |-> "unbounded", linear |-> FALSE], \* local a = [a]; a < a
  [id |-> "cyc_str",     kind |-> "unbounded", linear |-> FALSE], \* local a = [a]; std.toString(a)
  [id |-> "cyc_man",     kind |-> "unbounded", linear |-> FALSE], \* local a = {x: a}; a   (manifestation)
  [id |-> "cyc_objeq",   kind |-> "unbounded", linear |-> FALSE], \* local a = {x: a}; a == a
  \* `tailstrict` on a call that is NOT in tail position (its result is still needed by an operator,
  \* a type check or an enclosing call): every level keeps a frame, the limit bounds the depth
  [id |-> "ts_or",       kind |-> "finite", linear |-> TRUE],     \* n == 0 || f(n - 1) tailstrict
  [id |-> "ts_and",      kind |-> "finite", linear |-> TRUE],     \* true && f(n - 1) tailstrict
  [id |-> "ts_plus",     kind |-> "finite", linear |-> TRUE],     \* 1 + f(n - 1) tailstrict
  [id |-> "ts_arg",      kind |-> "finite", linear |-> TRUE],     \* id(f(n - 1) tailstrict)
  [id |-> "ts_elem",     kind |-> "finite", linear |-> TRUE]      \* [f(n - 1) tailstrict][0]
}

KindOf(f) == (CHOOSE x \in Families : x.id = f).kind
\* "linear" families recurse to logical depth d: every level must occupy at least one frame
\* (otherwise the limit would not bound the depth), so a value needs a limit s >= d.  Tail calls
\* marked tailstrict are the one shape that may run in constant frames.
LinearOf(f) == (CHOOSE x \in Families : x.id = f).linear

\* What one cell may be, given the family's kind
CellOk(kind, out) ==
  CASE kind = "finite" -> out \in {"value", "overflow"}
    [] kind = "unbounded" -> out = "overflow"
    [] kind = "cyclic" -> out \in {"overflow", "infrec"}

(* Row scan, s increasing for fixed (family, d): once a value, always the same value.  *)
(* Column scan, d increasing for fixed (family, s): once a failure, always a failure.  *)
NoCell == [out |-> "none", val |-> "", d |-> -1, s |-> -1]
DepthBound(f, cell) == (LinearOf(f) /\ cell.out = "value") => cell.s >= cell.d
RowStep(prev, cell) ==     \* prev = NoCell or the previous cell of the row
  prev.out = "none" \/ (prev.out = "value" => (cell.out = "value" /\ cell.val = prev.val))
ColStep(prev, cell) ==
  prev.out = "none" \/ (prev.out # "value" => cell.out # "value")
=============================================================================
