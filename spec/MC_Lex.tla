------------------------------ MODULE MC_Lex ------------------------------
(* Universes and case emission for C14 (see Lex.tla).  One initial state per *)
(* case; Laws and Emit are invariants.  Byte sequences are written as ASCII / *)
(* UTF-8 codes (e.g. <<124, 124, 124>> is |||).                             *)
EXTENDS Lex, Json

CONSTANTS Mode,     \* which universe
          Alpha,    \* "bytes": the alphabet
          MaxLen,   \* "bytes": all strings of length <= MaxLen; other modes: size knob
          First     \* "bytes": strings of length MaxLen start with one of these
VARIABLES b,      \* the input bytes
          its,    \* the item sequence it was printed from (or mode-specific seed data)
          ph      \* "seed" (not a case) or "case"

Idents == { <<97>>,
      <<95>>,
      <<120, 49>>,
      <<95, 97, 57, 90>>,
      <<101>>,
      <<69>>,
      <<101, 49>>,
      <<105, 102, 120>>,
      <<73, 110>>,
      <<110, 117, 108, 108, 115>>,
      <<115, 101, 108, 102, 105, 101>>,
      <<65>>,
      <<117, 48, 48, 52, 49>>,
      <<110>>,
      <<97, 115, 115, 101, 114, 116>>,
      <<101, 108, 115, 101>>,
      <<101, 114, 114, 111, 114>>,
      <<102, 97, 108, 115, 101>>,
      <<102, 111, 114>>,
      <<102, 117, 110, 99, 116, 105, 111, 110>>,
      <<105, 102>>,
      <<105, 109, 112, 111, 114, 116>>,
      <<105, 109, 112, 111, 114, 116, 115, 116, 114>>,
      <<105, 109, 112, 111, 114, 116, 98, 105, 110>>,
      <<105, 110>>,
      <<108, 111, 99, 97, 108>>,
      <<110, 117, 108, 108>>,
      <<116, 97, 105, 108, 115, 116, 114, 105, 99, 116>>,
      <<116, 104, 101, 110>>,
      <<115, 101, 108, 102>>,
      <<115, 117, 112, 101, 114>>,
      <<116, 114, 117, 101>> }
OpsNamed == { <<58>>,
      <<58, 58>>,
      <<58, 58, 58>>,
      <<43, 58>>,
      <<43, 58, 58>>,
      <<43, 58, 58, 58>>,
      <<61>>,
      <<36>>,
      <<42>>,
      <<47>>,
      <<37>>,
      <<43>>,
      <<45>>,
      <<60, 60>>,
      <<62, 62>>,
      <<60>>,
      <<60, 61>>,
      <<62>>,
      <<62, 61>>,
      <<61, 61>>,
      <<33, 61>>,
      <<38>>,
      <<94>>,
      <<124>>,
      <<38, 38>>,
      <<124, 124>>,
      <<33>>,
      <<126>> }
OpsOther == { <<36, 58, 58>>,
      <<60, 61, 62>>,
      <<45, 58>>,
      <<33, 58>>,
      <<60, 60, 60>>,
      <<42, 42>>,
      <<47, 37>>,
      <<61, 126, 61>>,
      <<124, 38>>,
      <<124, 124, 61>>,
      <<38, 38, 38>>,
      <<58, 58, 58, 58>>,
      <<43, 61>>,
      <<42, 47>>,
      <<37, 47>>,
      <<124, 47>>,
      <<47, 124>>,
      <<47, 58>> }
Wss == { <<32>>,
      <<9>>,
      <<10>>,
      <<13>>,
      <<32, 32>>,
      <<13, 10>>,
      <<32, 9, 10, 13>>,
      <<10, 10>> }
FragsQ == { <<97>>,
      <<92, 110>>,
      <<92, 92>>,
      <<92, 34>>,
      <<92, 39>>,
      <<92, 47>>,
      <<92, 113>>,
      <<92, 117>>,
      <<92, 117, 49, 50>>,
      <<92, 117, 48, 48, 52>>,
      <<92, 117, 48, 48, 52, 49>>,
      <<92, 117, 68, 56, 48, 48>>,
      <<92, 117, 68, 66, 70, 70>>,
      <<92, 117, 68, 67, 48, 48>>,
      <<92, 117, 68, 70, 70, 70>>,
      <<92, 117, 100, 56, 51, 100>>,
      <<92, 117, 100, 101, 48, 48>>,
      <<92, 117, 48, 48, 101, 57>>,
      <<92, 117, 48, 48, 69, 57>>,
      <<92>>,
      <<34>>,
      <<39>>,
      <<10>>,
      <<92, 85, 48, 48, 52, 49>>,
      <<92, 120, 52, 49>>,
      <<92, 48>>,
      <<92, 97>>,
      <<92, 118>>,
      <<92, 32>>,
      <<92, 10>>,
      <<195, 169>>,
      <<92, 117, 123, 52, 49, 125>>,
      <<92, 117, 68, 55, 70, 70>>,
      <<92, 117, 69, 48, 48, 48>>,
      <<92, 117, 103, 48, 48, 48>>,
      <<117>> }
TbHeads == { <<10>>,
      <<45, 10>>,
      <<32, 10>>,
      <<13, 10>>,
      <<97, 10>>,
      <<45, 32, 10>>,
      <<45, 120, 10>>,
      <<>>,
      <<45>>,
      <<32, 9, 13, 10>>,
      <<124, 10>>,
      <<45, 45, 10>> }
TbLines == { <<>>,
      <<10>>,
      <<13, 10>>,
      <<32, 97, 10>>,
      <<32, 32, 97, 10>>,
      <<9, 97, 10>>,
      <<32, 10>>,
      <<97, 10>>,
      <<32, 124, 124, 124>>,
      <<124, 124, 124>>,
      <<32, 32, 124, 124, 124>>,
      <<32, 97>>,
      <<32, 97, 13, 10>>,
      <<13>>,
      <<32, 124, 124, 124, 10>>,
      <<9, 124, 124, 124>>,
      <<32, 97, 124, 124, 124, 10>>,
      <<32, 32, 10>>,
      <<32, 9, 97, 10>>,
      <<9, 32, 10>> }
Pats == { <<0>>,
      <<127>>,
      <<194, 128>>,
      <<223, 191>>,
      <<224, 160, 128>>,
      <<237, 159, 191>>,
      <<238, 128, 128>>,
      <<239, 191, 191>>,
      <<239, 191, 189>>,
      <<240, 144, 128, 128>>,
      <<244, 143, 191, 191>>,
      <<241, 128, 128, 128>>,
      <<194>>,
      <<223>>,
      <<224>>,
      <<224, 160>>,
      <<225>>,
      <<225, 128>>,
      <<237, 128>>,
      <<239, 191>>,
      <<240>>,
      <<240, 144>>,
      <<240, 144, 128>>,
      <<241, 128>>,
      <<241, 128, 128>>,
      <<244>>,
      <<244, 143>>,
      <<244, 143, 191>>,
      <<192, 128>>,
      <<192, 175>>,
      <<193, 191>>,
      <<192, 162>>,
      <<224, 128, 128>>,
      <<224, 159, 191>>,
      <<240, 128, 128, 128>>,
      <<240, 143, 191, 191>>,
      <<237, 160, 128>>,
      <<237, 191, 191>>,
      <<237, 160, 189, 237, 184, 128>>,
      <<244, 144, 128, 128>>,
      <<245, 128, 128, 128>>,
      <<247, 191, 191, 191>>,
      <<248, 136, 128, 128, 128>>,
      <<252>>,
      <<254>>,
      <<255>>,
      <<128>>,
      <<191>>,
      <<128, 128>>,
      <<>>,
      <<97>> }

------------------------------------------------------------------------------
\* item inventories
NumIps == { << <<48>> >>, << <<49>> >>, << <<57>> >>, << <<49, 48>> >>, << <<49>>, <<48>> >>,
            << <<49, 50>>, <<51, 52, 53>> >>, << <<49>>, <<50>>, <<51>> >> }
NumFps == { <<>>, << <<48>> >>, << <<53>> >>, << <<48, 53>> >>, << <<50>>, <<53>> >>, << <<48, 48>>, <<49>> >> }
NumExps == { [el |-> 0, es |-> 0, ep |-> <<>>],
             [el |-> 101, es |-> 0, ep |-> << <<49>> >>],  [el |-> 69, es |-> 0, ep |-> << <<49>> >>],
             [el |-> 101, es |-> 43, ep |-> << <<49>> >>], [el |-> 101, es |-> 45, ep |-> << <<49>> >>],
             [el |-> 69, es |-> 43, ep |-> << <<49, 48>> >>], [el |-> 101, es |-> 45, ep |-> << <<48>> >>],
             [el |-> 101, es |-> 0, ep |-> << <<49>>, <<48>> >>],
             [el |-> 69, es |-> 45, ep |-> << <<49>>, <<50>> >>],
             [el |-> 101, es |-> 0, ep |-> << <<48, 48, 55>> >>] }
NumD(i, f, x) == [ip |-> i, fp |-> f, el |-> x.el, es |-> x.es, ep |-> x.ep]
NumItemsAll(z) == { NumItem(NumD(i, f, x)) : i \in NumIps, f \in NumFps, x \in NumExps }
NoExp == [el |-> 0, es |-> 0, ep |-> <<>>]
NumItemsFew(z) == { NumItem(NumD(<< <<48>> >>, <<>>, NoExp)), NumItem(NumD(<< <<49>> >>, <<>>, NoExp)),
                    NumItem(NumD(<< <<49, 48>> >>, <<>>, NoExp)),
                    NumItem(NumD(<< <<49>> >>, << <<53>> >>, NoExp)),
                    NumItem(NumD(<< <<48>> >>, << <<48>> >>, NoExp)),
                    NumItem(NumD(<< <<49>> >>, <<>>, [el |-> 101, es |-> 0, ep |-> << <<53>> >>])),
                    NumItem(NumD(<< <<57>> >>, <<>>, [el |-> 69, es |-> 43, ep |-> << <<49>> >>])),
                    NumItem(NumD(<< <<49>>, <<48>> >>, << <<48>>, <<49>> >>,
                                 [el |-> 69, es |-> 45, ep |-> << <<49>>, <<48>> >>])) }

OpSpellings(n) == { t \in UNION { [1..m -> OpChars] : m \in 1..n } : IsOpSpelling(t) }
OpItemsAll(z) == { OpItem(s) : s \in OpSpellings(3) }
OpItemsFew(z) == { OpItem(s) : s \in OpsNamed \cup OpsOther }
IdentItems(z) == { IdentItem(s) : s \in Idents }
PunctItems(z) == { PunctItem(c) : c \in PunctBytes }
WsItems(z)    == { WsItem(s) : s \in Wss }

RawCps  == {97, 32, 10, 13, 9, 0, 127, 47, 128, 233, 2047, 2048, 65533, 65535, 65536, 128512, 1114111,
            55295, 57344, 34, 39, 117}
EscLetters == {34, 39, 92, 47, 98, 102, 110, 114, 116}
U4Cps   == {0, 65, 34, 39, 92, 10, 233, 2047, 2048, 55295, 57344, 65535, 43981, 65279}
PairCps == {65536, 128512, 1114111, 66559, 1113088}
Elems(d) == { e \in ({Raw(c) : c \in RawCps} \cup {Esc(c) : c \in EscLetters}
                     \cup {U4(c, u) : c \in U4Cps, u \in BOOLEAN}
                     \cup {Pair(c, u) : c \in PairCps, u \in BOOLEAN}) : ElemOk(e, d) }
ElemsFew(d) == { Raw(97), Raw(233), Raw(128512), Raw(73 - d), Esc(110), Esc(d), Esc(92),
                 U4(233, FALSE), U4(65, TRUE), Pair(128512, TRUE) }      \* 73 - d = the other quote
QuotedItems(n) == UNION { { QuotedItem(d, els) : els \in [1..n -> Elems(d)] } : d \in {34, 39} }
QuotedItemsFew(n) == UNION { { QuotedItem(d, els) : els \in [1..n -> ElemsFew(d)] } : d \in {34, 39} }
VerbBodies(d) == { <<>>, <<97>>, <<d>>, <<d, d>>, <<97, d, 98>>, <<92>>, <<92, 110>>, <<73 - d>>, <<10>>,
                   <<233>>, <<128512>>, <<92, d>>, <<92, 117, 48, 48, 52, 49>>, <<13, 10>>, <<64>>, <<0>> }
VerbItems(z) == UNION { { VerbItem(d, cps) : cps \in VerbBodies(d) } : d \in {34, 39} }

TbLinesSets == {
  << Line(<<97>>, FALSE) >>,
  << Line(<<>>, FALSE) >>,
  << Line(<<97>>, FALSE), Line(<<98>>, FALSE) >>,
  << Line(<<97>>, FALSE), EmptyLine(FALSE), Line(<<98>>, FALSE) >>,
  << Line(<<97>>, FALSE), EmptyLine(TRUE), Line(<<98>>, FALSE) >>,
  << Line(<<97>>, FALSE), EmptyLine(FALSE) >>,
  << Line(<<97>>, FALSE), EmptyLine(FALSE), EmptyLine(FALSE), Line(<<98>>, FALSE) >>,
  << Line(<<97>>, FALSE), Line(<<32, 32, 98>>, FALSE) >>,
  << Line(<<97>>, FALSE), Line(<<9>>, FALSE) >>,
  << Line(<<97>>, TRUE) >>,
  << Line(<<97>>, TRUE), Line(<<98>>, TRUE) >>,
  << Line(<<97>>, TRUE), EmptyLine(TRUE), Line(<<98>>, FALSE) >>,
  << Line(<<124, 124, 124>>, FALSE) >>,
  << Line(<<97, 124, 124, 124>>, FALSE), Line(<<124, 124, 124, 45>>, FALSE) >>,
  << Line(<<233, 128512>>, FALSE) >>,
  << Line(<<97, 92, 110, 34, 39, 92, 117, 48, 48, 52, 49>>, FALSE) >>,
  << Line(<<47, 47, 32, 35, 32, 47, 42>>, FALSE) >> }
TbD(c, h, l, w, ls, t) == [chomp |-> c, hws |-> h, lead |-> l, W |-> w, lines |-> ls, tws |-> t]
TbDescs(z) == { d \in { TbD(c, h, l, w, ls, t) :
                          c \in BOOLEAN, h \in {<<>>, <<32>>, <<13>>, <<9, 32>>, <<32, 13>>},
                          l \in {<<>>, <<FALSE>>, <<FALSE, FALSE>>, <<TRUE>>, <<FALSE, TRUE>>},
                          w \in {<<32>>, <<32, 32>>, <<9>>, <<32, 9>>, <<9, 32>>},
                          ls \in TbLinesSets, t \in {<<>>, <<32>>, <<9>>, <<32, 32, 32>>} } : TbOk(d) }
TbItemsAll(z) == { TbItem(d) : d \in TbDescs(z) }
TbItemsFew(z) == { TbItem(TbD(FALSE, <<>>, <<>>, <<32>>, << Line(<<97>>, FALSE) >>, <<>>)),
                   TbItem(TbD(TRUE, <<32>>, <<FALSE>>, <<32, 32>>,
                              << Line(<<97>>, FALSE), EmptyLine(FALSE), Line(<<32, 98>>, FALSE) >>, <<32>>)),
                   TbItem(TbD(FALSE, <<13>>, <<>>, <<9>>, << Line(<<124, 124, 124>>, TRUE) >>, <<>>)) }

CommentItems(z) ==
  { LineCommentItem(i, body, nl) : i \in {<<35>>, <<47, 47>>}, nl \in BOOLEAN,
        body \in {<<>>, <<32, 97>>, <<47>>, <<47, 42>>, <<34>>, <<233>>, <<195, 169>>, <<124, 124, 124>>, <<13>>, <<42, 47>>} }
  \cup { BlockCommentItem(body) : body \in { x \in {<<>>, <<32, 97, 32>>, <<42>>, <<47>>, <<10>>, <<47, 47>>, <<34>>,
                                                     <<47, 42>>, <<233>>, <<240, 159>>, <<42, 42>>, <<35, 10, 39>>,
                                                     <<124, 124, 124, 10>>} : BlockBodyOk(x) } }
CommentItemsFew(z) == { LineCommentItem(<<35>>, <<32, 97>>, TRUE), LineCommentItem(<<47, 47>>, <<>>, TRUE),
                        LineCommentItem(<<47, 47>>, <<97>>, FALSE), BlockCommentItem(<<>>),
                        BlockCommentItem(<<32, 10, 42>>) }

TbHeadsFew == { <<10>>, <<45, 10>>, <<32, 13, 10>>, <<97, 10>> }     \* quick tier
NParts == 10
Part(p) == CASE p = 1 -> IdentItems(0) [] p = 2 -> NumItemsAll(0) [] p = 3 -> OpItemsAll(0)
             [] p = 4 -> PunctItems(0) [] p = 5 -> QuotedItems(0) \cup QuotedItems(1)
             [] p = 6 -> IF MaxLen >= 2 THEN QuotedItems(2) ELSE QuotedItemsFew(2)
             [] p = 7 -> VerbItems(0) [] p = 8 -> TbItemsAll(0) [] p = 9 -> CommentItems(0)
             [] p = 10 -> WsItems(0)
Medium(z) == IdentItems(0) \cup NumItemsFew(0) \cup OpItemsFew(0) \cup PunctItems(0)
             \cup QuotedItemsFew(1) \cup {VerbItem(34, <<97, 34>>), VerbItem(39, <<>>)}
             \cup TbItemsFew(0) \cup CommentItemsFew(0)
             \cup {WsItem(<<32>>), WsItem(<<10>>), WsItem(<<13, 10, 9>>)}
Seps(z) == IF MaxLen = 0 THEN {WsItem(<<32>>)}       \* quick
           ELSE {WsItem(<<32>>), WsItem(<<10>>), BlockCommentItem(<<>>), LineCommentItem(<<47, 47>>, <<120>>, TRUE),
                 LineCommentItem(<<35>>, <<>>, TRUE)}
Small(z) == {IdentItem(<<97>>), IdentItem(<<105, 102>>), IdentItem(<<101>>),
             NumItem(NumD(<< <<49>> >>, <<>>, NoExp)), NumItem(NumD(<< <<48>> >>, << <<53>> >>, NoExp)),
             OpItem(<<43>>), OpItem(<<45>>), OpItem(<<124>>), OpItem(<<47>>), OpItem(<<58, 58>>), OpItem(<<42>>),
             OpItem(<<36>>), OpItem(<<60, 61>>),
             PunctItem(46), PunctItem(40), PunctItem(123),
             QuotedItem(34, <<Raw(97)>>), QuotedItem(39, <<Esc(110)>>), VerbItem(34, <<34>>),
             TbItem(TbD(FALSE, <<>>, <<>>, <<32>>, << Line(<<97>>, FALSE) >>, <<>>)),
             TbItem(TbD(TRUE, <<>>, <<>>, <<9>>, << Line(<<97>>, FALSE) >>, <<32>>)),
             LineCommentItem(<<35>>, <<97>>, TRUE), LineCommentItem(<<47, 47>>, <<>>, FALSE),
             BlockCommentItem(<<97>>), WsItem(<<32>>), WsItem(<<10>>)}

------------------------------------------------------------------------------
\* UTF-8 containers: Wrap(c, body)
NContainers == 11
Wrap(c, body) ==
  CASE c = 1 -> <<34>> \o body \o <<34>>
    [] c = 2 -> <<39>> \o body \o <<39>>
    [] c = 3 -> <<64, 34>> \o body \o <<34>>
    [] c = 4 -> <<64, 39>> \o body \o <<39>>
    [] c = 5 -> <<124, 124, 124, 10, 32>> \o body \o <<10, 124, 124, 124>>
    [] c = 6 -> <<124, 124, 124, 45, 10, 9>> \o body \o <<10, 124, 124, 124>>
    [] c = 7 -> <<47, 47>> \o body \o <<10, 97>>
    [] c = 8 -> <<35>> \o body
    [] c = 9 -> <<47, 42>> \o body \o <<42, 47, 97>>
    [] c = 10 -> body
    [] c = 11 -> <<97, 32>> \o body \o <<32, 98>>
\* what the container's token must carry: the lossy decoding of the body
Utf8Law(c, body) ==
  LET r == Lex(Wrap(c, body)) IN
  CASE c \in 1..4 -> r.st = "ok" /\ Len(r.toks) = 2 /\ r.toks[1].kind = "String"
                     /\ r.toks[1].val = Utf8Lossy(body)
    [] c = 5 -> r.st = "ok" /\ r.toks[1].kind = "TextBlock" /\ r.toks[1].val = Utf8Lossy(body) \o <<10>>
    [] c = 6 -> r.st = "ok" /\ r.toks[1].kind = "TextBlock" /\ r.toks[1].val = Utf8Lossy(body)
    [] c = 7 -> r.st = "ok" /\ Len(r.toks) = 3 /\ r.toks[1].kind = "Comment" /\ r.toks[1].e = Len(body) + 3
    [] c = 8 -> r.st = "ok" /\ Len(r.toks) = 2 /\ r.toks[1].kind = "Comment"
    [] c = 9 -> r.st = "ok" /\ Len(r.toks) = 3 /\ r.toks[1].kind = "Comment" /\ r.toks[1].e = Len(body) + 4
    [] OTHER -> TRUE

------------------------------------------------------------------------------
ItemModes == {"items1", "items2", "items3"}
K == 8                                  \* seeds per part (work split for TLC's workers)
Hash(sp) == IF sp = <<>> THEN 0 ELSE (Len(sp) + sp[1] + sp[Len(sp)]) % K
Chunk == 17408                          \* 64 * Chunk = 1114112
Boundary == {127, 128, 2047, 2048, 55295, 57344, 65533, 65535, 65536, 1114111}

\* Two levels so that TLC's workers share the work: a few hundred "seed" states
\* (ph = "seed", not cases) and, as their successors, the cases (ph = "case").
\* In "bytes" mode every string is a case and its successors append one byte.
Init ==
  CASE Mode = "bytes"  -> b = <<>> /\ its = <<>> /\ ph = "case"
    [] Mode = "items1" -> \E p \in 1..NParts, j \in 0..(K - 1) : its = <<p, j>> /\ b = <<>> /\ ph = "seed"
    [] Mode = "items2" -> \E x \in Medium(0) : its = <<x>> /\ b = <<>> /\ ph = "seed"
    [] Mode = "items3" -> \E x \in Small(0) : its = <<x>> /\ b = <<>> /\ ph = "seed"
    [] Mode = "frag"   -> \E f \in FragsQ \cup {<<>>} : its = <<>> /\ b = f /\ ph = "seed"
    [] Mode = "tbfrag" -> \E h \in (IF First = {} THEN TbHeads ELSE TbHeadsFew), f \in TbLines :
                              its = <<>> /\ b = h \o f /\ ph = "seed"
    [] Mode = "utf8"   -> \E c \in 1..NContainers, p \in Pats : its = <<c>> /\ b = p /\ ph = "seed"
    [] Mode = "scalar" -> \E j \in 0..63 : its = <<j>> /\ b = <<>> /\ ph = "seed"

Next ==
  CASE Mode = "bytes" ->
         /\ Len(b) < MaxLen /\ ph' = ph /\ its' = its
         /\ \E x \in Alpha : /\ (Len(b) + 1 = MaxLen => (IF b = <<>> THEN x ELSE b[1]) \in First)
                             /\ b' = Append(b, x)
    [] Mode = "items1" ->
         /\ ph = "seed" /\ ph' = "case"
         /\ \E x \in Part(its[1]) : Hash(x.sp) = its[2] /\ its' = <<x>> /\ b' = x.sp
    [] Mode = "items2" ->
         /\ ph = "seed" /\ ph' = "case"
         /\ \/ \E y \in Medium(0) : its' = <<its[1], y>>
            \/ \E y \in Medium(0), s \in Seps(0) : its' = <<its[1], s, y>>
         /\ SeqOk(its') /\ b' = PrintItems(its')
    [] Mode = "items3" ->
         /\ ph = "seed" /\ ph' = "case"
         /\ \E y \in Small(0), z \in Small(0) : its' = <<its[1], y, z>>
         /\ SeqOk(its') /\ b' = PrintItems(its')
    [] Mode = "frag" ->
         /\ ph = "seed" /\ ph' = "case" /\ its' = its
         /\ \E d \in {<<34>>, <<39>>, <<64, 34>>, <<64, 39>>}, n \in 0..(MaxLen - 1), cl \in {<<>>, <<34>>, <<39>>} :
              \E f \in [1..n -> FragsQ] : b' = d \o b \o Flatten(f) \o cl
    [] Mode = "tbfrag" ->
         /\ ph = "seed" /\ ph' = "case" /\ its' = its
         /\ \E n \in 0..(MaxLen - 1) : \E f \in [1..n -> TbLines] : b' = <<124, 124, 124>> \o b \o Flatten(f)
    [] Mode = "utf8" ->
         /\ ph = "seed" /\ ph' = "case"
         /\ \E p2 \in Pats : its' = <<its[1], Len(b \o p2)>> /\ b' = Wrap(its[1], b \o p2)
    [] Mode = "scalar" ->
         /\ ph = "seed" /\ ph' = "case"
         /\ \E k \in 0..(Chunk - 1) :
              LET cp == its[1] * Chunk + k IN
              /\ (k % MaxLen = 0 \/ cp \in Boundary) /\ IsScalar(cp)
              /\ its' = <<cp>>
              /\ b' = LET d == IF cp = 39 THEN 34 ELSE 39      \* a verbatim string: no escapes
                      IN  <<64, d>> \o Utf8Enc(cp) \o <<d>>

\* the body of a utf8-mode input, recovered from the container number and body length
Utf8Body == LET c == its[1] n == its[2]
                off == CASE c \in {1, 2, 8} -> 1 [] c \in {3, 4, 7, 9} -> 2 [] c = 5 -> 5 [] c = 6 -> 6
                         [] c = 10 -> 0 [] c = 11 -> 2
            IN  SubSeq(b, off + 1, off + n)

Laws == ph = "case" =>
  LET r == Lex(b) IN
  CASE Mode \in ItemModes -> LawSeqR(its, r) /\ LawBytesR(b, r) /\ LawStretchR(b, r)
    [] Mode = "utf8"   -> Utf8Law(its[1], Utf8Body) /\ LawLossy(Utf8Body) /\ LawBytesR(b, r)
    [] Mode = "scalar" -> LawScalar(its[1]) /\ r.st = "ok" /\ r.toks[1].val = <<its[1]>>
    [] OTHER -> LawBytesR(b, r)

CT(t) == <<t.kind, t.s, t.e, t.val, t.exp>>
Emit == (Mode # "scalar" /\ ph = "case") =>
  LET r == Lex(b)
  IN  PrintT(<<"CASE", ToJson([b |-> b, st |-> r.st, cls |-> r.cls, at |-> r.at,
                               t |-> [k \in 1..Len(r.toks) |-> CT(r.toks[k])]])>>)
=============================================================================
