CONSTANTS Mode = "long" MaxLen = 0 NKeys = 3 PermBound = 0
CONSTANT Lens <- LensQuick
INIT Init
NEXT Next
INVARIANTS Laws Emit
CHECK_DEADLOCK FALSE
