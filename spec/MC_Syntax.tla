----------------------------- MODULE MC_Syntax -----------------------------
(* C15 universes: syntax trees (operator pairs / triples in both nestings,   *)
(* unary x binary x postfix, one-hole contexts composed with fillers,        *)
(* postfix chains, object bodies, comprehensions, parameter lists), each     *)
(* printed with minimal and with redundant parentheses; the laws of          *)
(* Syntax.tla are checked on every tree; one CASE line per printed text and   *)
(* one per core text with one pair of its parentheses removed (kind          *)
(* "unparen": another tree, or no sentence - decided by RefParse).           *)
(* Modes "mut" / "both": for a seeded sample of the trees (RandomSubset, TLC   *)
(* -seed) additionally the token sequence of the minimal text with one token  *)
(* deleted, duplicated or swapped with its neighbour; RefParse decides the    *)
(* sequences that stay inside the operator core (accept + tree / reject +     *)
(* failure position), the others are "undecided".                             *)
(* cfgs: MC_Syntax_quick.cfg, MC_Syntax_thorough.cfg (invariant LawsAndEmit). *)
EXTENDS Syntax, Json, Randomization

CONSTANTS Mode,      \* "trees" | "mut" | "both" (trees + mutants of a seeded sample of the trees)
          Tier,      \* "quick" | "thorough"
          Parts      \* the parts of the universe to run
VARIABLES c, ph, mu

A == <<"var", "a">>
B == <<"var", "b">>
C == <<"var", "c">>
D == <<"var", "d">>
X == <<"var", "x">>
Y == <<"var", "y">>
Z == <<"var", "z">>
N1 == <<"num", "1">>
N2 == <<"num", "2">>
S1 == <<"str", "s", "\"">>
Bin(o, l, r) == <<"bin", o, l, r>>
Bop(o, l, r) == IF o = "insuper" THEN <<"insuper", l>> ELSE <<"bin", o, l, r>>
Un(o, e) == <<"un", o, e>>
Fld(e, x) == <<"field", e, x>>
Idx(e, i) == <<"index", e, i>>
Sl(e, a, b, cc, lay) == <<"slice", e, a, b, cc, lay>>
Pos(es) == [i \in 1..Len(es) |-> <<"pos", es[i]>>]
Call(f, args, tc, ts) == <<"call", f, args, tc, ts>>
CallP(f, es) == Call(f, Pos(es), FALSE, FALSE)
Obj(ms, tc) == <<"obj", ms, tc>>
EmptyObj == Obj(<<>>, FALSE)
ObjExt(e, o) == <<"objext", e, o>>
Paren(e) == <<"paren", e>>
Arr(es, tc) == <<"arr", es, tc>>
Ps(ps, tc) == <<"params", ps, tc>>
Pm(x) == <<"param", x, None>>
Pd(x, d) == <<"param", x, d>>
Bd(x, e) == <<"bind", x, None, e>>
BdF(x, ps, e) == <<"bind", x, ps, e>>
Local(bs, b) == <<"local", bs, b>>
If(cc, t, e) == <<"if", cc, t, e>>
Func(ps, b) == <<"func", ps, b>>
As(cc, m) == <<"assertion", cc, m>>
AssertE(a, b) == <<"assert", a, b>>
Err(e) == <<"error", e>>
Imp(kw, e) == <<"import", kw, e>>
InSuper(e) == <<"insuper", e>>
For(x, e) == <<"for", x, e>>
Cif(e) == <<"cif", e>>
FV(n, pv, e) == <<"fvalue", n, pv, e>>
FF(n, ps, vis, e) == <<"ffunc", n, ps, vis, e>>
Fid(x) == <<"id", x>>
Fstr(v) == <<"fstr", v>>
Fex(e) == <<"fexpr", e>>
MLoc(b) == <<"mlocal", b>>

Ops20 == BinOpSet \cup {"insuper"}
LevelOps == {"*", "+", "<<", "<", "in", "insuper", "==", "&", "^", "|", "&&", "||"}   \* every level once (+ in super)

(* The state variable c is a DESCRIPTOR <<part, indices...>> (cheap to enumerate and  *)
(* to fingerprint); TreeOf(c) builds the syntax tree when the invariant is evaluated. *)

(* --- part 1: all ordered pairs of binary operators in both nestings ------ *)
PairTree(nest, o1, o2) == IF nest = 1 THEN Bop(o1, Bop(o2, A, B), C) ELSE Bop(o1, A, Bop(o2, B, C))
PairDescs == {<<"pair", nest, o1, o2>> : nest \in {1, 2}, o1 \in Ops20, o2 \in Ops20}

(* --- part 2: triples, the five shapes ------------------------------------- *)
TriOps == IF Tier = "quick" THEN LevelOps ELSE Ops20
TripleTree(sh, o1, o2, o3) ==
  CASE sh = 1 -> Bop(o1, Bop(o2, Bop(o3, A, B), C), D)
    [] sh = 2 -> Bop(o1, Bop(o2, A, Bop(o3, B, C)), D)
    [] sh = 3 -> Bop(o1, Bop(o2, A, B), Bop(o3, C, D))
    [] sh = 4 -> Bop(o1, A, Bop(o2, Bop(o3, B, C), D))
    [] sh = 5 -> Bop(o1, A, Bop(o2, B, Bop(o3, C, D)))
TripleDescs == {<<"triple", sh, o1, o2, o3>> : sh \in 1..5, o1 \in TriOps, o2 \in TriOps, o3 \in TriOps}

(* --- part 3: unary x binary x postfix in every nesting order --------------- *)
NPost == 7
Post(p, h) ==
  CASE p = 1 -> Fld(h, "f")
    [] p = 2 -> Idx(h, N1)
    [] p = 3 -> Sl(h, N1, None, None, 1)
    [] p = 4 -> CallP(h, <<>>)
    [] p = 5 -> Call(h, Pos(<<X>>), FALSE, TRUE)
    [] p = 6 -> ObjExt(h, EmptyObj)
    [] p = 7 -> Sl(h, None, None, N1, 2)
BL(o, h) == Bop(o, h, Y)
BR(o, h) == Bop(o, X, h)
UbpOps == IF Tier = "quick" THEN LevelOps \ {"insuper"} ELSE BinOpSet
UbpUns == IF Tier = "quick" THEN {"-", "!"} ELSE UnOpSet
NUbpForms == 17
UbpTree(fm, u, o, p) ==
  CASE fm = 1 -> Un(u, BL(o, Post(p, A)))  [] fm = 2 -> Un(u, BR(o, Post(p, A)))
    [] fm = 3 -> Un(u, Post(p, BL(o, A)))  [] fm = 4 -> BL(o, Un(u, Post(p, A)))
    [] fm = 5 -> BR(o, Un(u, Post(p, A)))  [] fm = 6 -> BL(o, Post(p, Un(u, A)))
    [] fm = 7 -> BR(o, Post(p, Un(u, A)))  [] fm = 8 -> Post(p, Un(u, BL(o, A)))
    [] fm = 9 -> Post(p, Un(u, BR(o, A)))  [] fm = 10 -> Post(p, BL(o, Un(u, A)))
    [] fm = 11 -> Post(p, BR(o, Un(u, A))) [] fm = 12 -> Un(u, InSuper(Post(p, A)))
    [] fm = 13 -> InSuper(Un(u, Post(p, A))) [] fm = 14 -> Post(p, InSuper(Un(u, A)))
    [] fm = 15 -> Un(u, Un("-", Post(p, A))) [] fm = 16 -> Un("-", Un(u, Post(p, A)))
    [] fm = 17 -> Post(p, Un("!", Un(u, A)))
UbpDescs == {<<"ubp", fm, u, o, p>> : fm \in 1..NUbpForms, u \in UbpUns, o \in UbpOps, p \in 1..NPost}

(* --- part 4: one-hole contexts composed with fillers ------------------------ *)
CtxOpSeq == IF Tier = "quick" THEN <<"*", "+", "<", "in", "==", "&&", "||">>
            ELSE <<"*", "+", "<<", "<", "in", "==", "&", "^", "|", "&&", "||">>
CtxList(h) ==
  [k \in 1..Len(CtxOpSeq) |-> Bin(CtxOpSeq[k], h, Y)] \o [k \in 1..Len(CtxOpSeq) |-> Bin(CtxOpSeq[k], X, h)]
  \o << Un("-", h), Un("!", h), InSuper(h), Paren(h),
        Fld(h, "f"), Idx(h, X), Idx(X, h), Sl(h, X, None, None, 1), Sl(X, h, None, None, 1), Sl(X, None, h, None, 1),
        Sl(X, None, None, h, 2), Sl(X, h, Y, Z, 1), CallP(h, <<>>), CallP(h, <<X>>), CallP(X, <<h>>), CallP(X, <<h, Y>>),
        Call(X, <<<<"named", "y", h>>>>, FALSE, FALSE), ObjExt(h, EmptyObj), Arr(<<h>>, FALSE), Arr(<<h, X>>, TRUE),
        <<"superi", h>>,
        Err(h), Local(<<Bd("v", Y)>>, h), Local(<<Bd("v", h)>>, Y), Local(<<Bd("v", h), Bd("w", X)>>, Y),
        If(X, Y, h), If(X, h, Y), If(h, X, Y), If(X, h, None), If(h, X, None),
        Func(Ps(<<Pm("p")>>, FALSE), h), Func(Ps(<<Pd("p", h)>>, FALSE), Y),
        AssertE(As(X, None), h), AssertE(As(h, None), X), AssertE(As(X, h), Y), AssertE(As(h, X), Y),
        Imp("import", h),
        Obj(<<FV(Fid("a"), ":", h)>>, FALSE), Obj(<<FV(Fex(h), ":", X)>>, FALSE), Obj(<<As(h, None)>>, FALSE),
        Obj(<<As(X, h), FV(Fid("a"), "::", Y)>>, FALSE), Obj(<<MLoc(Bd("v", h))>>, TRUE),
        <<"arrcomp", h, <<For("v", Y)>>, FALSE>>, <<"arrcomp", X, <<For("v", h)>>, FALSE>>,
        <<"arrcomp", X, <<For("v", h), Cif(Y)>>, FALSE>>, <<"arrcomp", X, <<For("v", Y), Cif(h)>>, FALSE>>,
        <<"arrcomp", X, <<For("v", Y), Cif(h), For("w", Z)>>, TRUE>>,
        <<"objcomp", <<>>, h, FALSE, X, <<>>, <<For("v", Y)>>, FALSE>>,
        <<"objcomp", <<>>, X, FALSE, h, <<>>, <<For("v", Y)>>, FALSE>>,
        <<"objcomp", <<>>, X, TRUE, Y, <<MLoc(Bd("w", h))>>, <<For("v", Z)>>, FALSE>>,
        <<"objcomp", <<>>, X, FALSE, Y, <<>>, <<For("v", h)>>, FALSE>> >>
NCtx == Len(CtxList(A))
Ctx(i, h) == CtxList(h)[i]
FillerSeq ==
  <<A, N1, S1, <<"self">>, <<"dollar">>, <<"superf", "f">>, <<"tb", "u">>>>
  \o [k \in 1..Len(CtxOpSeq) |-> Bin(CtxOpSeq[k], A, B)]
  \o << Un("-", A), Un("~", A), InSuper(A), Fld(A, "g"), CallP(A, <<>>), Idx(A, B), ObjExt(A, EmptyObj),
        Err(A), If(A, B, None), If(A, B, C), Local(<<Bd("w", A)>>, B), Func(Ps(<<Pm("q")>>, FALSE), A),
        AssertE(As(A, None), B), AssertE(As(A, B), C), Imp("importstr", S1), Paren(A), EmptyObj, Arr(<<>>, FALSE),
        Bin("in", A, <<"superf", "f">>), Bin("in", A, <<"superi", B>>), Bin("+", A, Err(B)),
        Bin("*", A, If(B, C, None)), Un("-", Func(Ps(<<>>, FALSE), A)),
        Err(InSuper(A)), If(A, InSuper(B), None), If(A, B, InSuper(C)), Func(Ps(<<>>, FALSE), InSuper(A)),
        Local(<<Bd("w", A)>>, InSuper(B)), Bin("<", A, InSuper(B)) >>
NFill == Len(FillerSeq)
D1Descs == {<<"d1", i, f>> : i \in 1..NCtx, f \in 1..NFill}
D2Idx == (1..NCtx) \X (1..NCtx) \X (1..NFill)
D2Of(S) == {<<"d2", x[1], x[2], x[3]>> : x \in S}
D2Descs == D2Of(RandomSubset(IF Tier = "quick" THEN 8000 ELSE 90000, D2Idx))
D3Descs == IF Tier = "quick" THEN {}
           ELSE {<<"d3", i, x[1], x[2], x[3]>> : i \in 1..NCtx, x \in RandomSubset(600, D2Idx)}

(* --- part 5: postfix chains -------------------------------------------------- *)
PostList(h) ==
  << Fld(h, "f"), Idx(h, X), ObjExt(h, EmptyObj), ObjExt(h, Obj(<<FV(Fid("a"), ":", X)>>, TRUE)),
     ObjExt(h, <<"objcomp", <<>>, <<"var", "k">>, FALSE, X, <<>>, <<For("k", Y)>>, FALSE>>),
     \* the colon layouts of slices
     Sl(h, None, None, None, 1), Sl(h, None, None, None, 2), Sl(h, None, None, None, 3),
     Sl(h, X, None, None, 1), Sl(h, X, None, None, 2), Sl(h, X, None, None, 3),
     Sl(h, None, Y, None, 1), Sl(h, None, Y, None, 2), Sl(h, X, Y, None, 1), Sl(h, X, Y, None, 2),
     Sl(h, None, None, Z, 2), Sl(h, None, None, Z, 3), Sl(h, X, None, Z, 2), Sl(h, X, None, Z, 3),
     Sl(h, None, Y, Z, 1), Sl(h, X, Y, Z, 1),
     Sl(h, <<"dollar">>, None, None, 1), Sl(h, <<"dollar">>, None, Un("-", N1), 2),
     Sl(h, None, Un("-", N1), None, 1), Sl(h, None, None, Un("-", N1), 3),
     \* calls
     Call(h, <<>>, FALSE, FALSE), Call(h, <<>>, FALSE, TRUE),
     Call(h, Pos(<<X>>), FALSE, FALSE), Call(h, Pos(<<X>>), TRUE, FALSE), Call(h, Pos(<<X>>), FALSE, TRUE),
     Call(h, Pos(<<X>>), TRUE, TRUE), Call(h, Pos(<<X, Y>>), FALSE, FALSE), Call(h, Pos(<<X, Y>>), TRUE, TRUE),
     Call(h, <<<<"named", "p", X>>>>, FALSE, FALSE), Call(h, <<<<"named", "p", X>>>>, TRUE, TRUE),
     Call(h, <<<<"pos", X>>, <<"named", "q", Y>>>>, FALSE, FALSE), Call(h, <<<<"pos", X>>, <<"named", "q", Y>>>>, TRUE, FALSE),
     Call(h, <<<<"named", "p", X>>, <<"named", "q", Y>>>>, FALSE, TRUE) >>
NPostForms == Len(PostList(A))
TargetSeq == <<A, N1, S1, <<"self">>, <<"dollar">>, <<"superf", "f">>, <<"superi", X>>, Paren(A), EmptyObj,
               Arr(<<A>>, FALSE), <<"tb", "u">>, <<"null">>, <<"true">>, <<"false">>>>
NTargets == Len(TargetSeq)
C1Descs == {<<"c1", t, p1>> : t \in 1..NTargets, p1 \in 1..NPostForms}
C2Idx == (1..NTargets) \X (1..NPostForms) \X (1..NPostForms)
C2Of(S) == {<<"c2", x[1], x[2], x[3]>> : x \in S}
C2Descs == IF Tier = "quick" THEN C2Of(RandomSubset(3000, C2Idx)) ELSE C2Of(C2Idx)
C3Descs == IF Tier = "quick" THEN {}
           ELSE {<<"c3", x[1], x[2], x[3], p3>> : x \in RandomSubset(800, C2Idx), p3 \in 1..NPostForms}

(* --- part 6: object bodies ----------------------------------------------------- *)
MemberPool == <<MLoc(Bd("v", N1)), MLoc(BdF("g", Ps(<<Pm("p"), Pd("q", N2)>>, FALSE), <<"var", "p">>)),
                As(A, None), As(A, B), FV(Fid("a"), ":", N1), FV(Fstr("s"), "+::", N2), FV(Fex(X), ":", Y),
                FF(Fid("m"), Ps(<<Pm("p")>>, TRUE), "::", <<"var", "p">>), FV(Fex(X), "+:", Y)>>
NPool == Len(MemberPool)
Pool3 == IF Tier = "quick" THEN {1, 3, 5, 7, 8} ELSE 1..NPool
ObjDescs ==
  {<<"o1", i, tc>> : i \in 1..NPool, tc \in BOOLEAN} \cup {<<"o2", i, j, tc>> : i \in 1..NPool, j \in 1..NPool, tc \in BOOLEAN}
  \cup {<<"o3", i, j, k, tc>> : i \in Pool3, j \in Pool3, k \in Pool3, tc \in BOOLEAN}
ObjOthers ==
  {Obj(<<FV(n, pv, X)>>, FALSE) : n \in {Fid("a"), Fstr("t"), Fex(Y), Fex(Bin("+", A, B))}, pv \in PlusVis}
  \cup {Obj(<<FF(n, ps, vis, X)>>, FALSE) : n \in {Fid("a"), Fstr("t"), Fex(Y)},
                                             ps \in {Ps(<<>>, FALSE), Ps(<<Pm("p"), Pm("q")>>, FALSE), Ps(<<Pd("p", N1)>>, TRUE)},
                                             vis \in {":", "::", ":::"}}
  \cup {EmptyObj, ObjExt(A, Obj(<<As(A, B), MLoc(Bd("v", N1))>>, TRUE)), ObjExt(ObjExt(A, EmptyObj), EmptyObj)}

(* --- part 7: comprehensions versus plain objects / arrays ------------------------ *)
L1 == MLoc(Bd("v", N1))
L2 == MLoc(BdF("w", Ps(<<Pm("p")>>, FALSE), <<"var", "p">>))
LocalSeqs == {<<>>, <<L1>>, <<L1, L2>>}
SpecSeqs == {<<For("k", X)>>, <<For("k", X), Cif(Y)>>, <<For("k", X), For("m", <<"var", "k">>)>>,
             <<For("k", X), Cif(Y), For("m", Z), Cif(A)>>, <<For("k", Bin("in", A, B)), Cif(Bin("in", A, B))>>,
             <<For("k", If(A, B, None)), Cif(If(A, B, None))>>}
Comps ==
  {<<"objcomp", l1, <<"var", "k">>, plus, Y, l2, sp, tc>> :
       l1 \in LocalSeqs, plus \in BOOLEAN, l2 \in LocalSeqs, sp \in SpecSeqs, tc \in BOOLEAN}
  \cup {Obj(l1 \o <<FV(Fex(<<"var", "k">>), pv, Y)>> \o l2, tc) : l1 \in LocalSeqs, l2 \in LocalSeqs, pv \in PlusVis, tc \in BOOLEAN}
  \cup {Obj(<<FV(Fex(X), ":", Y), FV(Fex(A), ":", B)>>, tc) : tc \in BOOLEAN}
  \cup {ObjExt(A, <<"objcomp", <<L1>>, <<"var", "k">>, TRUE, Y, <<L2>>, <<For("k", X)>>, TRUE>>)}
  \cup {<<"arrcomp", e, sp, tc>> : e \in {A, Bin("in", A, B), If(A, B, None), Arr(<<A>>, TRUE)}, sp \in SpecSeqs, tc \in BOOLEAN}
  \cup {Arr(es, tc) : es \in {<<A>>, <<A, B>>, <<A, B, C>>, <<Arr(<<A>>, TRUE), Arr(<<>>, FALSE)>>}, tc \in BOOLEAN}
  \cup {Arr(<<>>, FALSE)}

(* --- part 8: binders, parameter lists, literals, imports --------------------------- *)
ParamLists == {Ps(<<>>, FALSE), Ps(<<Pm("p")>>, FALSE), Ps(<<Pm("p")>>, TRUE), Ps(<<Pm("p"), Pm("q")>>, FALSE),
               Ps(<<Pd("p", N1)>>, FALSE), Ps(<<Pm("p"), Pd("q", Bin("+", <<"var", "p">>, N1))>>, TRUE),
               Ps(<<Pd("p", If(A, B, None)), Pd("q", Err(A))>>, FALSE)}
Misc ==
  {Func(ps, b) : ps \in ParamLists, b \in {A, Bin("+", A, B), Func(Ps(<<Pm("x")>>, FALSE), X)}}
  \cup {Local(<<BdF("g", ps, A)>>, B) : ps \in ParamLists}
  \cup {Local(<<Bd("v", A), BdF("g", Ps(<<Pm("p")>>, FALSE), B), Bd("w", C)>>, D)}
  \cup {Imp(kw, e) : kw \in {"import", "importstr", "importbin"},
                     e \in {S1, <<"str", "lib", "'">>, <<"tb", "u">>, Bin("+", S1, S1), Fld(S1, "f"), Paren(S1)}}
  \cup {Fld(Imp("import", S1), "f"), Bin("+", Imp("import", S1), A), Bin("+", A, Imp("import", S1))}
  \cup {<<"num", n>> : n \in NumToks} \cup {<<"str", v, q>> : v \in StrVals, q \in {"\"", "'"}}
  \cup {<<"null">>, <<"true">>, <<"false">>, <<"self">>, <<"dollar">>, <<"tb", "u">>, <<"superf", "f">>}
  \cup {Fld(N1, "f"), Bin("|", A, <<"tb", "u">>), Bin("|", <<"tb", "u">>, A), Un("-", Un("-", A)),
        Un("!", Un("-", Un("~", Un("+", A)))), Bin("-", A, Un("-", B)), Bin("<", A, Un("-", B)),
        Sl(A, <<"dollar">>, None, None, 1), Bin("in", A, Fld(<<"superf", "f">>, "g")),
        If(A, If(B, C, None), D), If(A, If(B, C, D), None), If(A, Err(If(B, C, None)), D),
        If(A, If(B, C, If(D, X, None)), Y), If(A, Bin("+", B, If(C, D, None)), X),
        If(A, Local(<<Bd("v", B)>>, If(C, D, None)), X), If(A, Un("-", If(B, C, None)), D),
        If(A, Func(Ps(<<>>, FALSE), If(B, C, None)), D), If(A, If(B, C, None), None),
        AssertE(As(If(A, B, None), If(A, B, None)), C)}
TreeDescs == {<<"tree", e>> : e \in ObjOthers \cup Comps \cup Misc}

TreeOf(d) ==
  LET k == d[1] IN
  CASE k = "pair" -> PairTree(d[2], d[3], d[4])
    [] k = "triple" -> TripleTree(d[2], d[3], d[4], d[5])
    [] k = "ubp" -> UbpTree(d[2], d[3], d[4], d[5])
    [] k = "d1" -> Ctx(d[2], FillerSeq[d[3]])
    [] k = "d2" -> Ctx(d[2], Ctx(d[3], FillerSeq[d[4]]))
    [] k = "d3" -> Ctx(d[2], Ctx(d[3], Ctx(d[4], FillerSeq[d[5]])))
    [] k = "c1" -> PostList(TargetSeq[d[2]])[d[3]]
    [] k = "c2" -> PostList(PostList(TargetSeq[d[2]])[d[3]])[d[4]]
    [] k = "c3" -> PostList(PostList(PostList(TargetSeq[d[2]])[d[3]])[d[4]])[d[5]]
    [] k = "o1" -> Obj(<<MemberPool[d[2]]>>, d[3])
    [] k = "o2" -> Obj(<<MemberPool[d[2]], MemberPool[d[3]]>>, d[4])
    [] k = "o3" -> Obj(<<MemberPool[d[2]], MemberPool[d[3]], MemberPool[d[4]]>>, d[5])
    [] k = "tree" -> d[2]

NParts == 10
Part(i) ==
  CASE i = 1 -> PairDescs
    [] i = 2 -> TripleDescs
    [] i = 3 -> UbpDescs
    [] i = 4 -> D1Descs
    [] i = 5 -> D2Descs
    [] i = 6 -> C1Descs \cup C2Descs
    [] i = 7 -> ObjDescs
    [] i = 8 -> TreeDescs
    [] i = 9 -> D3Descs
    [] i = 10 -> C3Descs

(* ------------------------------------------------------------------------ *)
Expected(toks) ==
  IF ~InCore(toks) THEN [d |-> "undecided"]
  ELSE LET r == RefParse(toks) IN
       IF r.ok THEN [d |-> "accept", tree |-> EmitNode(r.t, 0).n] ELSE [d |-> "reject", at |-> r.p]

SwapAt(s, i) == [j \in 1..Len(s) |-> IF j = i THEN s[i + 1] ELSE IF j = i + 1 THEN s[i] ELSE s[j]]
DupAt(s, i) == SubSeq(s, 1, i) \o SubSeq(s, i, Len(s))
\* p = the minimal print of a tree: one token deleted / duplicated / swapped with its right neighbour
Mutants(p) ==
  LET toks == p.t IN
  [i \in 1..Len(toks) |-> [kind |-> "del", at |-> i, toks |-> DropAt(toks, i)]]
  \o [i \in 1..Len(toks) |-> [kind |-> "dup", at |-> i, toks |-> DupAt(toks, i)]]
  \o [i \in 1..(Len(toks) - 1) |-> [kind |-> "swap", at |-> i, toks |-> SwapAt(toks, i)]]
\* the minimal print of a core tree with one pair of its parentheses removed: another tree or no sentence
Unparens(rd) ==
  [i \in 1..Len(rd) |->
     [kind |-> "unparen", at |-> rd[i].at, toks |-> rd[i].toks, sep |-> SepCodes(rd[i].toks),
      exp |-> IF rd[i].ok THEN [d |-> "accept", tree |-> rd[i].n] ELSE [d |-> "reject", at |-> rd[i].p]]]
MutSample == IF Tier = "quick" THEN 60 ELSE 400
MutCases(e) ==
  LET ms == Mutants(PrintTree(e, "min")) IN
  [i \in 1..Len(ms) |-> [kind |-> ms[i].kind, at |-> ms[i].at, toks |-> ms[i].toks, sep |-> SepCodes(ms[i].toks),
                         exp |-> Expected(ms[i].toks)]]

(* One cheap initial state per tree; the work is done when the invariant is    *)
(* evaluated on the successor (ph = 1), i.e. by TLC's workers in parallel.      *)
(* mu: the tree is in the seeded sample whose minimal text is mutated.          *)
Init ==
  /\ ph = 0
  /\ \E i \in Parts :
       LET P == Part(i)
           sel == IF Mode = "trees" THEN {}
                  ELSE IF Cardinality(P) <= MutSample THEN P ELSE RandomSubset(MutSample, P) IN
       /\ c \in (IF Mode = "mut" THEN sel ELSE P)
       /\ mu = (c \in sel)
Next == ph = 0 /\ ph' = 1 /\ UNCHANGED <<c, mu>>

CaseOf(pp, style) == [st |-> style, toks |-> pp.t, sep |-> SepCodes(pp.t), core |-> InCore(pp.t),
                      exp |-> [d |-> "accept", tree |-> pp.n]]
Laws(tree, pmin, pred, rd) == TreeLawsR(tree, pmin, pred, rd)
Emit(pmin, pred, rd) ==
  /\ PrintT(<<"CASE", ToJson(CaseOf(pmin, "min"))>>) /\ PrintT(<<"CASE", ToJson(CaseOf(pred, "red"))>>)
  /\ LET ups == Unparens(rd) IN \A i \in 1..Len(ups) : PrintT(<<"CASE", ToJson(ups[i])>>)
MutLaws(ms) == \A i \in 1..Len(ms) : LawRoundTrip(ms[i].toks)
MutEmit(ms) == \A i \in 1..Len(ms) : PrintT(<<"CASE", ToJson(ms[i])>>)

TreeCheck(tree, emit) ==
  LET pmin == PrintTree(tree, "min")
      pred == PrintTree(tree, "red")
      rd == Readings(pmin) IN
  Laws(tree, pmin, pred, rd) /\ (emit => Emit(pmin, pred, rd))
MutCheck(tree, emit) ==
  LET ms == MutCases(tree) IN MutLaws(ms) /\ (emit => MutEmit(ms))

Check(emit) ==
  ph = 1 => /\ (Mode # "mut" => TreeCheck(TreeOf(c), emit))
            /\ (mu => MutCheck(TreeOf(c), emit))
LawsAndEmit == Check(TRUE)
LawsOnly == Check(FALSE)
=============================================================================
