------------------------------- MODULE Syntax -------------------------------
(***************************************************************************)
(* Reference syntax of Jsonnet for property C15: syntax trees (mirroring   *)
(* the public ast types of rsjsonnet-lang), the precedence table of the    *)
(* Jsonnet specification, a printer that inserts parentheses either only   *)
(* where the table requires them ("min") or around every sub-expression    *)
(* ("red"), the expected span (first token .. last token) of every node,   *)
(* the separator predicate, and a small reference parser for the operator  *)
(* core (precedence climbing) used to check the printer on the spec        *)
(* itself.  Written from the language definition:                          *)
(*                                                                         *)
(*   1  e(...) e[...] e.f e{...}      (application, indexing, extension)   *)
(*   2  + - ! ~                       (unary)                              *)
(*   3  * / %      4  + -      5  << >>      6  < > <= >= in               *)
(*   7  == !=      8  &        9  ^          10 |     11 &&     12 ||      *)
(*   everything left associative; assert, error, function, if, import*,   *)
(*   local consume as many tokens as possible on their right.              *)
(*                                                                         *)
(* Abstract syntax (tuples, tag first; x = identifier as a TLC string):    *)
(*  <<"null">> <<"true">> <<"false">> <<"self">> <<"dollar">>              *)
(*  <<"num", text>>  <<"str", value, quote>>  <<"tb", line>>  <<"var", x>> *)
(*  <<"paren", e>>                                                         *)
(*  <<"obj", <<member..>>, tc>>          tc = trailing comma (layout only) *)
(*  <<"objcomp", <<mlocal..>>, name, plus, body, <<mlocal..>>, <<spec..>>, tc>> *)
(*  <<"arr", <<e..>>, tc>>   <<"arrcomp", e, <<spec..>>, tc>>              *)
(*  <<"field", e, x>>  <<"index", e, i>>                                   *)
(*  <<"slice", e, a, b, c, lay>>   a,b,c = e | None;  lay = colon layout   *)
(*  <<"superf", x>>  <<"superi", e>>  <<"insuper", e>>                     *)
(*  <<"call", f, <<arg..>>, tc, tailstrict>>                               *)
(*        arg = <<"pos", e>> | <<"named", x, e>>                           *)
(*  <<"local", <<bind..>>, body>>   bind = <<"bind", x, params|None, e>>   *)
(*        params = <<"params", <<param..>>, tc>>                           *)
(*        param = <<"param", x, default|None>>                             *)
(*  <<"if", c, t, e|None>>  <<"bin", op, l, r>>  <<"un", op, e>>           *)
(*  <<"objext", e, obj|objcomp>>  <<"func", params, body>>                 *)
(*  <<"assert", assertion, body>>   assertion = <<"assertion", c, msg|None>> *)
(*  <<"import", kw, e>>  <<"error", e>>                                    *)
(*  member = <<"mlocal", bind>> | assertion                                *)
(*         | <<"fvalue", fname, plusvis, e>>   plusvis in : :: ::: +: +:: +::: *)
(*         | <<"ffunc", fname, params, vis, e>>                            *)
(*  fname  = <<"id", x>> | <<"fstr", value>> | <<"fexpr", e>>              *)
(*  spec   = <<"for", x, e>> | <<"cif", e>>                                *)
(*                                                                         *)
(* Printed form: a sequence of tokens (TLC strings) plus an annotated tree *)
(* of uniform records [n, v, c, f, l]: kind, text attribute, children,     *)
(* index of the first and of the last token of the node (1-based).  This   *)
(* annotated tree is what a parser has to return for the token sequence.   *)
(***************************************************************************)
EXTENDS Integers, Sequences, FiniteSets, TLC

None == <<"none">>

(* ------------------------------------------------------------------------ *)
(* Vocabulary                                                               *)

Keywords == {"assert", "else", "error", "false", "for", "function", "if", "import", "importstr",
             "importbin", "in", "local", "null", "tailstrict", "then", "self", "super", "true"}
IdentToks == {"a", "b", "c", "d", "f", "g", "h", "k", "m", "p", "q", "v", "w", "x", "y", "z"}
NumToks == {"0", "1", "2", "3", "7", "10", "42"}
StrVals == {"s", "t", "", "lib"}
TbVals == {"u"}
StrTok(v, q) == q \o v \o q
TbTok(v) == "|||\n  " \o v \o "\n|||"
StrToks == {StrTok(v, q) : v \in StrVals, q \in {"\"", "'"}}
TbToks == {TbTok(v) : v \in TbVals}

BinOpSeq == <<"*", "/", "%", "+", "-", "<<", ">>", "<", ">", "<=", ">=", "in", "==", "!=", "&", "^", "|",
              "&&", "||">>
BinOpSet == {BinOpSeq[i] : i \in 1..Len(BinOpSeq)}
UnOpSet == {"-", "+", "!", "~"}
PlusVis == {":", "::", ":::", "+:", "+::", "+:::"}
\* every token that consists of operator characters  ! $ : ~ + - & | ^ = < > * / %
OpToks == (BinOpSet \ {"in"}) \cup UnOpSet \cup PlusVis \cup {"$", "="}
PunctToks == {"(", ")", "[", "]", "{", "}", ",", ".", ";"}

(* The precedence table: a larger number binds tighter. *)
Level(op) ==
  CASE op \in {"*", "/", "%"} -> 10
    [] op \in {"+", "-"} -> 9
    [] op \in {"<<", ">>"} -> 8
    [] op \in {"<", ">", "<=", ">=", "in"} -> 7
    [] op \in {"==", "!="} -> 6
    [] op = "&" -> 5
    [] op = "^" -> 4
    [] op = "|" -> 3
    [] op = "&&" -> 2
    [] op = "||" -> 1
UnaryLevel == 11
PostfixLevel == 12

TokClass(t) ==
  IF t \in Keywords \/ t \in IdentToks THEN "word"
  ELSE IF t \in NumToks THEN "num"
  ELSE IF t \in OpToks THEN "op"
  ELSE IF t \in PunctToks THEN "punct"
  ELSE IF t \in TbToks THEN "tb"
  ELSE IF t \in StrToks THEN "str"
  ELSE Assert(FALSE, <<"unknown token", t>>)

(* Must white space or a comment separate two adjacent tokens?  (TRUE where *)
(* gluing them could produce different tokens; may be TRUE more often than  *)
(* strictly necessary, never less.)                                         *)
NeedsSeparator(a, b) ==
  LET ca == TokClass(a)
      cb == TokClass(b) IN
  \/ ca \in {"word", "num"} /\ cb \in {"word", "num"}   \* x y, x in, 1 in, in 1, x 1 ...
  \/ ca = "op" /\ cb = "op"                             \* - -, $ :, : :, ! -, < - ... (maximal munch)
  \/ ca = "num" /\ b = "."                              \* 1 .f  ("1." starts a fraction)
  \/ ca = "op" /\ cb = "tb"                             \* | |||
  \/ ca = "tb" /\ cb = "op"
(* May the separator after token `a` begin with a comment opener "/*" ?     *)
(* Not after an operator token ("/" followed by "/*" would read "//").      *)
BlockCommentAllowedAfter(a) == TokClass(a) # "op"

SepCode(a, b) == (IF NeedsSeparator(a, b) THEN 1 ELSE 0) + (IF BlockCommentAllowedAfter(a) THEN 0 ELSE 2)
SepCodes(toks) == [i \in 1..(IF Len(toks) = 0 THEN 0 ELSE Len(toks) - 1) |-> SepCode(toks[i], toks[i + 1])]

(* Byte offsets of tokens for a layout: lead bytes before the first token,  *)
(* gap[i] bytes between token i and token i+1.  (ASCII only: Len = bytes.)  *)
RECURSIVE StartsFrom(_, _, _, _)
StartsFrom(toks, gap, i, at) ==      \* <<start of token i, start of token i+1, ...>>, token i starting at `at`
  IF i > Len(toks) THEN <<>>
  ELSE <<at>> \o StartsFrom(toks, gap, i + 1, at + Len(toks[i]) + (IF i < Len(toks) THEN gap[i] ELSE 0))
Starts(toks, lead, gap) == StartsFrom(toks, gap, 1, lead)
\* span of a node = [start of its first token, end of its last token)
ByteSpan(n, toks, starts) == <<starts[n.f], starts[n.l] + Len(toks[n.l])>>

(* ------------------------------------------------------------------------ *)
(* Stage 1: where parentheses are needed                                    *)

Atoms == {"null", "true", "false", "self", "dollar", "num", "str", "tb", "var"}
Primaries == Atoms \cup {"paren", "obj", "objcomp", "arr", "arrcomp", "superf", "superi"}
Postfixes == {"field", "index", "slice", "call", "objext"}
Greedy == {"local", "if", "func", "error", "assert", "import"}

(* Par(e, st, mp, fol): e with "paren" nodes inserted.                      *)
(*  st  = "min" | "red"                                                     *)
(*  mp  = the binding level the position demands (0 = any expression)       *)
(*  fol = what follows the position inside the same expression:             *)
(*        "op"   a binary operator or a postfix form  (everything that       *)
(*               consumes tokens to its right must be closed off)            *)
(*        "else" the `else` of an enclosing if  (an else-less `if` at the    *)
(*               right edge would capture it)                                *)
(*        "end"  a token no expression can absorb ( ) ] , ; : then for ...)  *)
NeedParen(e, mp, fol) ==
  LET k == e[1] IN
  IF k = "bin" THEN Level(e[2]) < mp
  ELSE IF k = "insuper" THEN Level("in") < mp
  ELSE IF k = "un" THEN UnaryLevel < mp
  ELSE IF k \in Greedy THEN fol = "op" \/ (fol = "else" /\ k = "if" /\ e[4] = None)
  ELSE FALSE

RECURSIVE Par(_, _, _, _)

Ch(x, st, mp, fol) == IF st = "red" THEN <<"paren", Par(x, st, 0, "end")>> ELSE Par(x, st, mp, fol)
Cl(x, st) == Ch(x, st, 0, "end")
OCl(x, st) == IF x = None THEN None ELSE Cl(x, st)

ParParams(ps, st) ==
  IF ps = None THEN None
  ELSE <<"params", [i \in 1..Len(ps[2]) |-> <<"param", ps[2][i][2], OCl(ps[2][i][3], st)>>], ps[3]>>
ParBind(b, st) == <<"bind", b[2], ParParams(b[3], st), Cl(b[4], st)>>
ParSpec(s, st) == IF s[1] = "for" THEN <<"for", s[2], Cl(s[3], st)>> ELSE <<"cif", Cl(s[2], st)>>
ParFName(n, st) == IF n[1] = "fexpr" THEN <<"fexpr", Cl(n[2], st)>> ELSE n
ParAssertion(a, st) == <<"assertion", Cl(a[2], st), OCl(a[3], st)>>
ParMember(m, st) ==
  CASE m[1] = "mlocal" -> <<"mlocal", ParBind(m[2], st)>>
    [] m[1] = "assertion" -> ParAssertion(m, st)
    [] m[1] = "fvalue" -> <<"fvalue", ParFName(m[2], st), m[3], Cl(m[4], st)>>
    [] m[1] = "ffunc" -> <<"ffunc", ParFName(m[2], st), ParParams(m[3], st), m[4], Cl(m[5], st)>>
ParArg(a, st) == IF a[1] = "pos" THEN <<"pos", Cl(a[2], st)>> ELSE <<"named", a[2], Cl(a[3], st)>>
ParObj(o, st) ==
  IF o[1] = "obj" THEN <<"obj", [i \in 1..Len(o[2]) |-> ParMember(o[2][i], st)], o[3]>>
  ELSE <<"objcomp", [i \in 1..Len(o[2]) |-> ParMember(o[2][i], st)], Cl(o[3], st), o[4], Cl(o[5], st),
         [i \in 1..Len(o[6]) |-> ParMember(o[6][i], st)], [i \in 1..Len(o[7]) |-> ParSpec(o[7][i], st)], o[8]>>

Par(e, st, mp, fol) ==
  LET k == e[1]
      need == st = "min" /\ NeedParen(e, mp, fol)
      f == IF need THEN "end" ELSE fol
      body ==
        CASE k \in Atoms \/ k = "superf" -> e
          [] k = "paren" -> <<"paren", Cl(e[2], st)>>
          [] k \in {"obj", "objcomp"} -> ParObj(e, st)
          [] k = "arr" -> <<"arr", [i \in 1..Len(e[2]) |-> Cl(e[2][i], st)], e[3]>>
          [] k = "arrcomp" -> <<"arrcomp", Cl(e[2], st), [i \in 1..Len(e[3]) |-> ParSpec(e[3][i], st)], e[4]>>
          [] k = "superi" -> <<"superi", Cl(e[2], st)>>
          [] k = "field" -> <<"field", Ch(e[2], st, PostfixLevel, "op"), e[3]>>
          [] k = "index" -> <<"index", Ch(e[2], st, PostfixLevel, "op"), Cl(e[3], st)>>
          [] k = "slice" -> <<"slice", Ch(e[2], st, PostfixLevel, "op"), OCl(e[3], st), OCl(e[4], st),
                              OCl(e[5], st), e[6]>>
          [] k = "call" -> <<"call", Ch(e[2], st, PostfixLevel, "op"),
                             [i \in 1..Len(e[3]) |-> ParArg(e[3][i], st)], e[4], e[5]>>
          [] k = "objext" -> <<"objext", Ch(e[2], st, PostfixLevel, "op"), ParObj(e[3], st)>>
          [] k = "bin" -> <<"bin", e[2], Ch(e[3], st, Level(e[2]), "op"), Ch(e[4], st, Level(e[2]) + 1, f)>>
          [] k = "insuper" -> <<"insuper", Ch(e[2], st, Level("in"), "op")>>
          [] k = "un" -> <<"un", e[2], Ch(e[3], st, UnaryLevel, f)>>
          [] k = "local" -> <<"local", [i \in 1..Len(e[2]) |-> ParBind(e[2][i], st)], Ch(e[3], st, 0, f)>>
          [] k = "if" -> IF e[4] = None THEN <<"if", Cl(e[2], st), Ch(e[3], st, 0, f), None>>
                         ELSE <<"if", Cl(e[2], st), Ch(e[3], st, 0, "else"), Ch(e[4], st, 0, f)>>
          [] k = "func" -> <<"func", ParParams(e[2], st), Ch(e[3], st, 0, f)>>
          [] k = "assert" -> <<"assert", ParAssertion(e[2], st), Ch(e[3], st, 0, f)>>
          [] k = "import" -> <<"import", e[2], Ch(e[3], st, 0, f)>>
          [] k = "error" -> <<"error", Ch(e[2], st, 0, f)>>
  IN IF need THEN <<"paren", body>> ELSE body

Parenthesise(e, st) == Par(e, st, 0, "end")

(* ------------------------------------------------------------------------ *)
(* Stage 2: tokens and the annotated tree of a tree whose parentheses are    *)
(* all explicit                                                              *)

NoneNode == [n |-> "none", v |-> "", c |-> <<>>, f |-> 0, l |-> 0]
Tk(s) == [k |-> "tok", s |-> s]
Sb(x) == [k |-> "sub", x |-> x]
Subs(xs) == [i \in 1..Len(xs) |-> Sb(xs[i])]

RECURSIVE Commas(_, _)
Commas(items, tc) ==
  IF Len(items) = 0 THEN <<>>
  ELSE IF Len(items) = 1 THEN <<Sb(items[1])>> \o (IF tc THEN <<Tk(",")>> ELSE <<>>)
  ELSE <<Sb(items[1]), Tk(",")>> \o Commas(Tail(items), tc)
RECURSIVE EachThenComma(_)
EachThenComma(items) == IF Len(items) = 0 THEN <<>> ELSE <<Sb(items[1]), Tk(",")>> \o EachThenComma(Tail(items))
RECURSIVE CommaThenEach(_)
CommaThenEach(items) == IF Len(items) = 0 THEN <<>> ELSE <<Tk(","), Sb(items[1])>> \o CommaThenEach(Tail(items))
Opt(x, before) == IF x = None THEN <<Sb(None)>> ELSE before \o <<Sb(x)>>

(* The colon layouts of a slice.  b, c absent: ":" (1)  "::" (2)  ": :" (3)  *)
(* b only: ":b" (1) ":b:" (2);  c only: "::c" (2) ": :c" (3);  both: ":b:c"  *)
ValidLay(b, c, lay) ==
  IF b = None /\ c = None THEN lay \in {1, 2, 3}
  ELSE IF c = None THEN lay \in {1, 2}
  ELSE IF b = None THEN lay \in {2, 3}
  ELSE lay = 1
SliceParts(a, b, c, lay) ==
  <<Sb(a)>> \o
  (IF b = None /\ c = None THEN
     (CASE lay = 1 -> <<Tk(":"), Sb(None), Sb(None)>>
        [] lay = 2 -> <<Tk("::"), Sb(None), Sb(None)>>
        [] lay = 3 -> <<Tk(":"), Sb(None), Tk(":"), Sb(None)>>)
   ELSE IF c = None THEN
     (CASE lay = 1 -> <<Tk(":"), Sb(b), Sb(None)>>
        [] lay = 2 -> <<Tk(":"), Sb(b), Tk(":"), Sb(None)>>)
   ELSE IF b = None THEN
     (CASE lay = 2 -> <<Tk("::"), Sb(None), Sb(c)>>
        [] lay = 3 -> <<Tk(":"), Sb(None), Tk(":"), Sb(c)>>)
   ELSE <<Tk(":"), Sb(b), Tk(":"), Sb(c)>>)

RECURSIVE EmitNode(_, _)
RECURSIVE Run(_, _, _)
Run(parts, o, acc) ==
  IF Len(parts) = 0 THEN acc
  ELSE LET p == Head(parts) IN
       IF p.k = "tok" THEN Run(Tail(parts), o, [t |-> Append(acc.t, p.s), c |-> acc.c])
       ELSE LET r == EmitNode(p.x, o + Len(acc.t)) IN
            Run(Tail(parts), o, [t |-> acc.t \o r.t, c |-> Append(acc.c, r.n)])
Mk(kind, v, o, parts) ==
  LET r == Run(parts, o, [t |-> <<>>, c |-> <<>>]) IN
  [t |-> r.t, n |-> [n |-> kind, v |-> v, c |-> r.c, f |-> o + 1, l |-> o + Len(r.t)]]

EmitNode(x, o) ==
  LET k == x[1] IN
  CASE k = "none" -> [t |-> <<>>, n |-> NoneNode]
    [] k \in {"null", "true", "false", "self", "super"} -> Mk(k, "", o, <<Tk(k)>>)
    [] k = "dollar" -> Mk("dollar", "", o, <<Tk("$")>>)
    [] k = "num" -> Mk("num", x[2], o, <<Tk(x[2])>>)
    [] k = "str" -> Mk("str", x[2], o, <<Tk(StrTok(x[2], x[3]))>>)
    [] k = "tb" -> Mk("textblock", x[2] \o "\n", o, <<Tk(TbTok(x[2]))>>)
    [] k = "var" -> Mk("var", x[2], o, <<Tk(x[2])>>)
    [] k = "id" -> Mk("id", x[2], o, <<Tk(x[2])>>)
    [] k = "paren" -> Mk("paren", "", o, <<Tk("("), Sb(x[2]), Tk(")")>>)
    [] k = "obj" -> Mk("object", "", o, <<Tk("{")>> \o Commas(x[2], x[3]) \o <<Tk("}")>>)
    [] k = "objcomp" ->
         Mk("objcomp", IF x[4] THEN "+" ELSE "", o,
            <<Tk("{")>> \o EachThenComma(x[2])
            \o <<Tk("["), Sb(x[3]), Tk("]"), Tk(IF x[4] THEN "+:" ELSE ":"), Sb(x[5])>>
            \o CommaThenEach(x[6]) \o (IF x[8] THEN <<Tk(",")>> ELSE <<>>) \o Subs(x[7]) \o <<Tk("}")>>)
    [] k = "arr" -> Mk("array", "", o, <<Tk("[")>> \o Commas(x[2], x[3]) \o <<Tk("]")>>)
    [] k = "arrcomp" ->
         Mk("arraycomp", "", o, <<Tk("["), Sb(x[2])>> \o (IF x[4] THEN <<Tk(",")>> ELSE <<>>) \o Subs(x[3])
                                 \o <<Tk("]")>>)
    [] k = "field" -> Mk("field", "", o, <<Sb(x[2]), Tk("."), Sb(<<"id", x[3]>>)>>)
    [] k = "index" -> Mk("index", "", o, <<Sb(x[2]), Tk("["), Sb(x[3]), Tk("]")>>)
    [] k = "slice" -> Mk("slice", "", o, <<Sb(x[2]), Tk("[")>> \o SliceParts(x[3], x[4], x[5], x[6]) \o <<Tk("]")>>)
    [] k = "superf" -> Mk("superfield", "", o, <<Sb(<<"super">>), Tk("."), Sb(<<"id", x[2]>>)>>)
    [] k = "superi" -> Mk("superindex", "", o, <<Sb(<<"super">>), Tk("["), Sb(x[2]), Tk("]")>>)
    [] k = "insuper" -> Mk("insuper", "", o, <<Sb(x[2]), Tk("in"), Sb(<<"super">>)>>)
    [] k = "call" ->
         Mk("call", IF x[5] THEN "tailstrict" ELSE "", o,
            <<Sb(x[2]), Tk("(")>> \o Commas(x[3], x[4]) \o <<Tk(")")>>
            \o (IF x[5] THEN <<Tk("tailstrict")>> ELSE <<>>))
    [] k = "pos" -> Mk("pos", "", o, <<Sb(x[2])>>)
    [] k = "named" -> Mk("named", "", o, <<Sb(<<"id", x[2]>>), Tk("="), Sb(x[3])>>)
    [] k = "local" -> Mk("local", "", o, <<Tk("local")>> \o Commas(x[2], FALSE) \o <<Tk(";"), Sb(x[3])>>)
    [] k = "bind" -> Mk("bind", "", o, <<Sb(<<"id", x[2]>>), Sb(x[3]), Tk("="), Sb(x[4])>>)
    [] k = "params" -> Mk("params", "", o, <<Tk("(")>> \o Commas(x[2], x[3]) \o <<Tk(")")>>)
    [] k = "param" -> Mk("param", "", o, <<Sb(<<"id", x[2]>>)>> \o Opt(x[3], <<Tk("=")>>))
    [] k = "if" -> Mk("if", "", o, <<Tk("if"), Sb(x[2]), Tk("then"), Sb(x[3])>> \o Opt(x[4], <<Tk("else")>>))
    [] k = "bin" -> Mk("binary", x[2], o, <<Sb(x[3]), Tk(x[2]), Sb(x[4])>>)
    [] k = "un" -> Mk("unary", x[2], o, <<Tk(x[2]), Sb(x[3])>>)
    [] k = "objext" -> Mk("objext", "", o, <<Sb(x[2]), Sb(x[3])>>)
    [] k = "func" -> Mk("func", "", o, <<Tk("function"), Sb(x[2]), Sb(x[3])>>)
    [] k = "assert" -> Mk("assert", "", o, <<Sb(x[2]), Tk(";"), Sb(x[3])>>)
    [] k = "assertion" -> Mk("assertion", "", o, <<Tk("assert"), Sb(x[2])>> \o Opt(x[3], <<Tk(":")>>))
    [] k = "import" -> Mk("import", x[2], o, <<Tk(x[2]), Sb(x[3])>>)
    [] k = "error" -> Mk("error", "", o, <<Tk("error"), Sb(x[2])>>)
    [] k = "mlocal" -> Mk("mlocal", "", o, <<Tk("local"), Sb(x[2])>>)
    [] k = "fvalue" -> Mk("fvalue", x[3], o, <<Sb(x[2]), Tk(x[3]), Sb(x[4])>>)
    [] k = "ffunc" -> Mk("ffunc", x[4], o, <<Sb(x[2]), Sb(x[3]), Tk(x[4]), Sb(x[5])>>)
    [] k = "fstr" -> Mk("fstr", x[2], o, <<Tk(StrTok(x[2], "\""))>>)
    [] k = "fexpr" -> Mk("fexpr", "", o, <<Tk("["), Sb(x[2]), Tk("]")>>)
    [] k = "for" -> Mk("for", "", o, <<Tk("for"), Sb(<<"id", x[2]>>), Tk("in"), Sb(x[3])>>)
    [] k = "cif" -> Mk("cif", "", o, <<Tk("if"), Sb(x[2])>>)

(* PrintTree(e, st): tokens + annotated tree of e printed in style st.           *)
PrintTree(e, st) ==
  LET pt == Parenthesise(e, st)
      r == EmitNode(pt, 0) IN
  [pt |-> pt, t |-> r.t, n |-> r.n]

(* ------------------------------------------------------------------------ *)
(* Operations on annotated trees                                            *)

RECURSIVE Shape(_)
Shape(n) == [n |-> n.n, v |-> n.v, c |-> [i \in 1..Len(n.c) |-> Shape(n.c[i])]]
RECURSIVE StripN(_)
StripN(n) == IF n.n = "paren" THEN StripN(n.c[1])
             ELSE [n |-> n.n, v |-> n.v, c |-> [i \in 1..Len(n.c) |-> StripN(n.c[i])]]
RECURSIVE ParenNodes(_)
ParenNodes(n) == (IF n.n = "paren" THEN {<<n.f, n.l>>} ELSE {}) \cup UNION {ParenNodes(n.c[i]) : i \in 1..Len(n.c)}

RECURSIVE Nested(_)
Nested(n) ==
  LET real == SelectSeq(n.c, LAMBDA ch : ch.n # "none") IN
  /\ n.f >= 1 /\ n.f <= n.l
  /\ \A i \in 1..Len(real) : n.f <= real[i].f /\ real[i].l <= n.l /\ Nested(real[i])
  /\ \A i \in 1..(Len(real) - 1) : real[i].l < real[i + 1].f

NotParen(t) == t \notin {"(", ")"}
DropAt(s, i) == SubSeq(s, 1, i - 1) \o SubSeq(s, i + 1, Len(s))

(* ------------------------------------------------------------------------ *)
(* Reference parser of the operator core (precedence climbing)              *)

CoreVocab == IdentToks \cup NumToks \cup BinOpSet \cup UnOpSet
             \cup {"null", "true", "false", "self", "$", "(", ")", "[", "]", ".", ",", ":", "::", "super",
                   "tailstrict", "error", "if", "then", "else"}
InCore(toks) == \A i \in 1..Len(toks) : toks[i] \in CoreVocab

T(toks, p) == IF p <= Len(toks) THEN toks[p] ELSE "<eof>"
\* results: ok, tree, next position, g = "the expression ends with a form that consumes as many
\* tokens as possible (if / error ...)": nothing of the enclosing operator expression may follow
\* it ("there cannot be an operator after a greedy parse")
Good(t, p) == [ok |-> TRUE, t |-> t, p |-> p, g |-> FALSE]
GoodG(t, p, g) == [ok |-> TRUE, t |-> t, p |-> p, g |-> g]
Fail(p) == [ok |-> FALSE, t |-> None, p |-> p, g |-> FALSE]

RECURSIVE RpE(_, _, _)
RECURSIVE RpClimb(_, _, _, _, _, _)
RECURSIVE RpU(_, _)
RECURSIVE RpPost(_, _, _)
RECURSIVE RpPrim(_, _)
RECURSIVE RpList(_, _, _, _)
RECURSIVE RpIndex(_, _, _)

\* items separated by commas up to `close`, trailing comma allowed; p is at the first item
RpList(toks, p, close, acc) ==
  LET r == RpE(toks, p, 1) IN
  IF ~r.ok THEN [ok |-> FALSE, items |-> <<>>, tc |-> FALSE, p |-> r.p]
  ELSE LET items == Append(acc, r.t)
           t == T(toks, r.p) IN
       IF t = close THEN [ok |-> TRUE, items |-> items, tc |-> FALSE, p |-> r.p + 1]
       ELSE IF t = "," THEN
              IF T(toks, r.p + 1) = close THEN [ok |-> TRUE, items |-> items, tc |-> TRUE, p |-> r.p + 2]
              ELSE RpList(toks, r.p + 1, close, items)
       ELSE [ok |-> FALSE, items |-> <<>>, tc |-> FALSE, p |-> r.p]

RpPrim(toks, p) ==
  LET t == T(toks, p) IN
  IF t \in IdentToks THEN Good(<<"var", t>>, p + 1)
  ELSE IF t \in NumToks THEN Good(<<"num", t>>, p + 1)
  ELSE IF t \in {"null", "true", "false", "self"} THEN Good(<<t>>, p + 1)
  ELSE IF t = "$" THEN Good(<<"dollar">>, p + 1)
  ELSE IF t = "(" THEN
    LET r == RpE(toks, p + 1, 1) IN
    IF ~r.ok THEN r ELSE IF T(toks, r.p) = ")" THEN Good(<<"paren", r.t>>, r.p + 1) ELSE Fail(r.p)
  ELSE IF t = "[" THEN
    IF T(toks, p + 1) = "]" THEN Good(<<"arr", <<>>, FALSE>>, p + 2)
    ELSE LET r == RpList(toks, p + 1, "]", <<>>) IN
         IF r.ok THEN Good(<<"arr", r.items, r.tc>>, r.p) ELSE Fail(r.p)
  ELSE IF t = "super" THEN
    IF T(toks, p + 1) = "." THEN
      IF T(toks, p + 2) \in IdentToks THEN Good(<<"superf", T(toks, p + 2)>>, p + 3) ELSE Fail(p + 2)
    ELSE IF T(toks, p + 1) = "[" THEN
      LET r == RpE(toks, p + 2, 1) IN
      IF ~r.ok THEN r ELSE IF T(toks, r.p) = "]" THEN Good(<<"superi", r.t>>, r.p + 1) ELSE Fail(r.p)
    ELSE Fail(p + 1)
  ELSE Fail(p)

\* p is just after the "[" of an index or slice applied to lhs
RpIndex(toks, lhs, p) ==
  LET ra == IF T(toks, p) \in {":", "::"} THEN Good(None, p) ELSE RpE(toks, p, 1) IN
  IF ~ra.ok THEN ra
  ELSE
    LET a == ra.t
        pa == ra.p
        u == T(toks, pa)
        Sl(b, c, lay, q) == Good(<<"slice", lhs, a, b, c, lay>>, q)
        Third(b, p3, lay) ==      \* p3 is after the second colon
          IF T(toks, p3) = "]" THEN Sl(b, None, lay, p3 + 1)
          ELSE LET rc == RpE(toks, p3, 1) IN
               IF ~rc.ok THEN rc
               ELSE IF T(toks, rc.p) = "]" THEN Sl(b, rc.t, (IF b = None THEN lay ELSE 1), rc.p + 1)
               ELSE Fail(rc.p)
    IN
    IF u = "]" THEN (IF a = None THEN Fail(pa) ELSE Good(<<"index", lhs, a>>, pa + 1))
    ELSE IF u = "::" THEN Third(None, pa + 1, 2)
    ELSE IF u = ":" THEN
      LET w == T(toks, pa + 1) IN
      IF w = "]" THEN Sl(None, None, 1, pa + 2)
      ELSE IF w = ":" THEN Third(None, pa + 2, 3)
      ELSE LET rb == RpE(toks, pa + 1, 1) IN
           IF ~rb.ok THEN rb
           ELSE IF T(toks, rb.p) = "]" THEN Sl(rb.t, None, 1, rb.p + 1)
           ELSE IF T(toks, rb.p) = ":" THEN Third(rb.t, rb.p + 1, 2)
           ELSE Fail(rb.p)
    ELSE Fail(pa)

RpPost(toks, lhs, p) ==
  LET t == T(toks, p) IN
  IF t = "." THEN
    IF T(toks, p + 1) \in IdentToks THEN RpPost(toks, <<"field", lhs, T(toks, p + 1)>>, p + 2) ELSE Fail(p + 1)
  ELSE IF t = "[" THEN
    LET r == RpIndex(toks, lhs, p + 1) IN IF r.ok THEN RpPost(toks, r.t, r.p) ELSE r
  ELSE IF t = "(" THEN
    LET r == IF T(toks, p + 1) = ")" THEN [ok |-> TRUE, items |-> <<>>, tc |-> FALSE, p |-> p + 2]
             ELSE RpList(toks, p + 1, ")", <<>>) IN
    IF ~r.ok THEN Fail(r.p)
    ELSE LET args == [i \in 1..Len(r.items) |-> <<"pos", r.items[i]>>]
             ts == T(toks, r.p) = "tailstrict" IN
         RpPost(toks, <<"call", lhs, args, r.tc, ts>>, IF ts THEN r.p + 1 ELSE r.p)
  ELSE Good(lhs, p)

\* a unary-level operand: unary operators, then either a greedy form or a primary with its postfixes
RpU(toks, p) ==
  LET t == T(toks, p) IN
  IF t \in UnOpSet THEN
    LET r == RpU(toks, p + 1) IN IF r.ok THEN GoodG(<<"un", t, r.t>>, r.p, r.g) ELSE r
  ELSE IF t = "error" THEN
    LET r == RpE(toks, p + 1, 1) IN IF r.ok THEN GoodG(<<"error", r.t>>, r.p, TRUE) ELSE r
  ELSE IF t = "if" THEN
    LET rc == RpE(toks, p + 1, 1) IN
    IF ~rc.ok THEN rc
    ELSE IF T(toks, rc.p) # "then" THEN Fail(rc.p)
    ELSE LET rt == RpE(toks, rc.p + 1, 1) IN
         IF ~rt.ok THEN rt
         ELSE IF T(toks, rt.p) = "else" THEN
                LET re == RpE(toks, rt.p + 1, 1) IN
                IF re.ok THEN GoodG(<<"if", rc.t, rt.t, re.t>>, re.p, TRUE) ELSE re
         ELSE GoodG(<<"if", rc.t, rt.t, None>>, rt.p, TRUE)
  ELSE LET r == RpPrim(toks, p) IN IF r.ok THEN RpPost(toks, r.t, r.p) ELSE r

\* lhs is a complete operand of level > maxl or an expression of level maxl; absorb binary
\* operators whose level lies in mp..maxl (an operator that binds tighter than maxl cannot
\* follow: the operand to its left would have had to absorb it - this matters after `in super`,
\* whose right-hand side `super` is not an expression: `a in super * b` is not a sentence).
\* g: lhs ends with a greedy form, so nothing can be absorbed any more.
RpClimb(toks, lhs, p, mp, maxl, g) ==
  LET t == T(toks, p) IN
  IF g THEN GoodG(lhs, p, TRUE)
  ELSE IF t \in BinOpSet /\ Level(t) >= mp /\ Level(t) <= maxl THEN
    IF t = "in" /\ T(toks, p + 1) = "super" /\ T(toks, p + 2) \notin {".", "["}
    THEN RpClimb(toks, <<"insuper", lhs>>, p + 2, mp, Level("in"), FALSE)
    ELSE LET r == RpE(toks, p + 1, Level(t) + 1) IN
         IF r.ok THEN RpClimb(toks, <<"bin", t, lhs, r.t>>, r.p, mp, Level(t), r.g) ELSE r
  ELSE Good(lhs, p)

RpE(toks, p, mp) ==
  LET u == RpU(toks, p) IN IF u.ok THEN RpClimb(toks, u.t, u.p, mp, 10, u.g) ELSE u

(* RefParse(toks): [ok, t, p]; on failure p is the index of the token the   *)
(* parse cannot get past (Len(toks)+1 = end of input).                      *)
RefParse(toks) ==
  LET r == RpE(toks, 1, 1) IN
  IF r.ok /\ r.p # Len(toks) + 1 THEN Fail(r.p) ELSE r

(* ------------------------------------------------------------------------ *)
(* Laws (checked by TLC over the universes of MC_Syntax)                    *)

\* e: a tree; pm, pr: PrintTree(e, "min"), PrintTree(e, "red"); plain: EmitNode(e, 0).n
LawSameTreeP(plain, pm, pr) ==     \* the inserted parentheses are the only difference to the tree
  LET s == StripN(plain) IN StripN(pm.n) = s /\ StripN(pr.n) = s
LawSameTree(e, pm, pr) == LawSameTreeP(EmitNode(e, 0).n, pm, pr)
LawOnlyParens(pm, pr) ==           \* the two texts differ only by parentheses
  SelectSeq(pm.t, NotParen) = SelectSeq(pr.t, NotParen)
LawSpans(p) ==                     \* spans: root covers the text, children inside parents, in order
  p.n.f = 1 /\ p.n.l = Len(p.t) /\ Nested(p.n)
RECURSIVE BytesNested(_, _, _)
BytesNested(n, toks, starts) ==
  LET sp == ByteSpan(n, toks, starts) IN
  \A i \in 1..Len(n.c) :
    n.c[i].n # "none" =>
      LET cs == ByteSpan(n.c[i], toks, starts) IN
      sp[1] <= cs[1] /\ cs[1] < cs[2] /\ cs[2] <= sp[2] /\ BytesNested(n.c[i], toks, starts)
LawBytes(p) ==                     \* byte spans (single-space layout): non-empty, children inside parents
  BytesNested(p.n, p.t, Starts(p.t, 0, [i \in 1..Len(p.t) |-> 1]))
LawReparse(p) ==                   \* the reference reading of the text is the tree (core only)
  InCore(p.t) => LET r == RefParse(p.t) IN r.ok /\ r.t = p.pt

RECURSIVE SetToSeq(_)
SetToSeq(S) == IF S = {} THEN <<>> ELSE LET x == CHOOSE x \in S : TRUE IN <<x>> \o SetToSeq(S \ {x})
\* The reference reading of the (core) text pm with one pair of its parentheses removed, for each pair:
\* [at: index of the "(", toks, ok, p: failure position, n: annotated tree of the reading]
Readings(pm) ==
  IF ~InCore(pm.t) THEN <<>>
  ELSE LET pns == SetToSeq(ParenNodes(pm.n)) IN
       [i \in 1..Len(pns) |->
          LET tk == DropAt(DropAt(pm.t, pns[i][2]), pns[i][1])
              r == RefParse(tk) IN
          [at |-> pns[i][1], toks |-> tk, ok |-> r.ok, p |-> r.p,
           n |-> IF r.ok THEN EmitNode(r.t, 0).n ELSE NoneNode]]
\* every parenthesis of the minimal text is required (core, paren-free e): without it the text
\* reads as another tree or is no sentence
LawMinimalR(plain, pm, rd) ==
  (ParenNodes(plain) = {}) => \A i \in 1..Len(rd) : ~rd[i].ok \/ StripN(rd[i].n) # StripN(pm.n)
LawMinimal(e, pm) == LawMinimalR(EmitNode(e, 0).n, pm, Readings(pm))
LawRoundTrip(toks) ==              \* whatever the reference parser accepts prints back to the same tokens
  InCore(toks) => LET r == RefParse(toks) IN r.ok => EmitNode(r.t, 0).t = toks

\* rd = Readings(pm)
TreeLawsR(e, pm, pr, rd) ==
  LET plain == EmitNode(e, 0).n IN
  /\ LawSameTreeP(plain, pm, pr)
  /\ LawOnlyParens(pm, pr)
  /\ LawSpans(pm) /\ LawSpans(pr)
  /\ LawBytes(pm)
  /\ LawReparse(pm) /\ LawReparse(pr)
  /\ LawMinimalR(plain, pm, rd)
TreeLaws(e, pm, pr) == TreeLawsR(e, pm, pr, Readings(pm))
=============================================================================
