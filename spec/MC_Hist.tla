---- MODULE MC_Hist ----
(* Emits every history of length MaxLen (all shorter ones are prefixes) with, for *)
(* each position, the frame limit in force and the fresh-state form of the request. *)
EXTENDS Hist, Json
Emit == Len(hist) = MaxLen =>
  PrintT(<<"CASE", ToJson([hist |-> hist,
                           limits |-> [k \in 1..Len(hist) |-> LimitAt(hist, k - 1)],
                           fresh |-> [k \in 1..Len(hist) |-> FreshForm(hist[k])]])>>)
====
