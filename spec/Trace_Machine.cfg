INIT Init
NEXT Next
INVARIANTS FramesNonNeg
POSTCONDITION Accepted
CHECK_DEADLOCK FALSE
