------------------------------- MODULE Heap -------------------------------
(***************************************************************************)
(* The collector of rsjsonnet-lang (src/gc/mod.rs) as a state machine.     *)
(*                                                                         *)
(* State = what the real GcContext and its clients hold:                   *)
(*   objs   the GcContext.objs vector (order matters to the algorithm)     *)
(*   ext    number of weak handles (Gc<T>) held outside the heap, per id   *)
(*   view   number of strong views (GcView<T>) held outside the heap       *)
(*   edges  the weak handles stored inside each object (a sequence: an     *)
(*          object may hold several handles to the same target)            *)
(*   nalloc number of objects allocated so far (ids are 1..nalloc)         *)
(*                                                                         *)
(* One action per public operation of the collector / its clients.  Gc is  *)
(* the algorithm AS CODED (count, mark, sweep with the vector reordering   *)
(* done by swap and swap_remove), not "delete the unreachable objects";    *)
(* that it has that effect is the invariant GcExact.                       *)
(***************************************************************************)
EXTENDS Naturals, Sequences, FiniteSets, TLC

CONSTANTS N,            \* number of object ids
          MaxHandles,   \* bound on ext[o] and view[o]
          MaxEdges      \* bound on Len(edges[o])

VARIABLES objs, ext, view, edges, nalloc

vars == <<objs, ext, view, edges, nalloc>>

Ids == 1..N

Range(s) == {s[i] : i \in 1..Len(s)}

Live == Range(objs)

Count(s, x) == Cardinality({i \in 1..Len(s) : s[i] = x})

\* Objects reachable from the set S through the handle sequences in E,
\* restricted to objects that exist (set L): upgrading a handle to a
\* destroyed object fails and is skipped by the tracer.
RECURSIVE ReachIn(_, _, _)
ReachIn(E, L, S) ==
  LET S2 == S \cup {t \in L : \E o \in S : t \in Range(E[o])} IN
  IF S2 = S THEN S ELSE ReachIn(E, L, S2)

Roots == {o \in Live : ext[o] > 0 \/ view[o] > 0}

\* What the mutator can get hold of.
MReach == ReachIn(edges, Live, Roots)

TypeOK ==
  /\ objs \in Seq(Ids)
  /\ \A i, j \in 1..Len(objs) : i # j => objs[i] # objs[j]
  /\ ext \in [Ids -> 0..MaxHandles]
  /\ view \in [Ids -> 0..MaxHandles]
  /\ edges \in [Ids -> Seq(Ids)]
  /\ nalloc \in 0..N

Init ==
  /\ objs = <<>>
  /\ ext = [o \in Ids |-> 0]
  /\ view = [o \in Ids |-> 0]
  /\ edges = [o \in Ids |-> <<>>]
  /\ nalloc = 0

-----------------------------------------------------------------------------
(* Mutator actions *)

Alloc(asView) ==
  /\ nalloc < N
  /\ LET o == nalloc + 1 IN
     /\ nalloc' = o
     /\ objs' = Append(objs, o)
     /\ IF asView
        THEN view' = [view EXCEPT ![o] = 1] /\ UNCHANGED ext
        ELSE ext' = [ext EXCEPT ![o] = 1] /\ UNCHANGED view
  /\ UNCHANGED edges

AddEdge(a, b) ==
  /\ a \in MReach /\ b \in MReach
  /\ Len(edges[a]) < MaxEdges
  /\ edges' = [edges EXCEPT ![a] = Append(@, b)]
  /\ UNCHANGED <<objs, ext, view, nalloc>>

RemoveFirst(s, x) ==
  LET i == CHOOSE i \in 1..Len(s) : s[i] = x /\ \A j \in 1..(i-1) : s[j] # x
  IN SubSeq(s, 1, i-1) \o SubSeq(s, i+1, Len(s))

DelEdge(a, b) ==
  /\ a \in MReach
  /\ b \in Range(edges[a])
  /\ edges' = [edges EXCEPT ![a] = RemoveFirst(@, b)]
  /\ UNCHANGED <<objs, ext, view, nalloc>>

AddExt(o) ==
  /\ o \in MReach /\ ext[o] < MaxHandles
  /\ ext' = [ext EXCEPT ![o] = @ + 1]
  /\ UNCHANGED <<objs, view, edges, nalloc>>

AddView(o) ==
  /\ o \in MReach /\ view[o] < MaxHandles
  /\ view' = [view EXCEPT ![o] = @ + 1]
  /\ UNCHANGED <<objs, ext, edges, nalloc>>

DropExt(o) ==
  /\ ext[o] > 0
  /\ ext' = [ext EXCEPT ![o] = @ - 1]
  /\ UNCHANGED <<objs, view, edges, nalloc>>

DropView(o) ==
  /\ view[o] > 0
  /\ view' = [view EXCEPT ![o] = @ - 1]
  /\ UNCHANGED <<objs, ext, edges, nalloc>>

-----------------------------------------------------------------------------
(* GcContext::gc as coded *)

Swap(s, i, j) == [s EXCEPT ![i] = s[j], ![j] = s[i]]

\* Vec::swap_remove with 1-based index
SwapRemove(s, i) ==
  IF i = Len(s) THEN SubSeq(s, 1, Len(s) - 1)
  ELSE SubSeq([s EXCEPT ![i] = s[Len(s)]], 1, Len(s) - 1)

\* Rc::weak_count of o: handles outside the heap plus handles stored in
\* objects that still exist (E maps destroyed objects to <<>>).
Weak(E, o) == LET sum[k \in 0..N] == IF k = 0 THEN 0 ELSE sum[k-1] + Count(E[k], o)
              IN ext[o] + sum[N]

\* Phase 1: st = [v, i, k, mark, visits, E]; i is 1-based, k = known_with_view
RECURSIVE Phase1(_)
Phase1(st) ==
  IF st.i > Len(st.v) THEN st ELSE
  LET o == st.v[st.i] IN
  IF view[o] > 0 THEN
       \* "There is at least one GcView, mark directly"
       LET m2 == IF o \in st.mark THEN st.mark
                 ELSE ReachIn(st.E, Range(st.v), st.mark \cup {o})
           mv == (st.i - 1) > st.k
       IN Phase1([st EXCEPT !.mark = m2,
                            !.v = IF mv THEN Swap(st.v, st.i, st.k + 1) ELSE st.v,
                            !.k = IF mv THEN st.k + 1 ELSE st.k,
                            !.i = st.i + 1])
  ELSE IF Weak(st.E, o) = 0 THEN
       \* "There is not any Gc or GcView, destroy directly"
       Phase1([st EXCEPT !.v = SwapRemove(st.v, st.i), !.E = [st.E EXCEPT ![o] = <<>>]])
  ELSE IF o \notin st.mark THEN
       \* "There is at least one Gc, count"
       Phase1([st EXCEPT !.visits = [t \in Ids |-> st.visits[t] + Count(st.E[o], t)],
                         !.i = st.i + 1])
  ELSE Phase1([st EXCEPT !.i = st.i + 1])

RECURSIVE Sweep(_, _, _)
Sweep(v, i, mark) ==
  IF i > Len(v) THEN v
  ELSE IF v[i] \in mark THEN Sweep(v, i + 1, mark)
  ELSE Sweep(SwapRemove(v, i), i, mark)

GcResult ==
  LET p1 == Phase1([v |-> objs, i |-> 1, k |-> 0, mark |-> {},
                    visits |-> [t \in Ids |-> 0], E |-> edges])
      roots2 == {o \in Range(p1.v) : o \notin p1.mark /\ Weak(p1.E, o) > p1.visits[o]}
      mark2 == ReachIn(p1.E, Range(p1.v), p1.mark \cup roots2)
      v3 == Sweep(p1.v, 1, mark2)
  IN [objs |-> v3,
      edges |-> [o \in Ids |-> IF o \in Range(v3) THEN edges[o] ELSE <<>>]]

Gc ==
  /\ objs # <<>>
  /\ objs' = GcResult.objs
  /\ edges' = GcResult.edges
  /\ UNCHANGED <<ext, view, nalloc>>

Next ==
  \/ \E b \in BOOLEAN : Alloc(b)
  \/ \E a, b \in Ids : AddEdge(a, b) \/ DelEdge(a, b)
  \/ \E o \in Ids : AddExt(o) \/ AddView(o) \/ DropExt(o) \/ DropView(o)
  \/ Gc

Spec == Init /\ [][Next]_vars

-----------------------------------------------------------------------------
(* Properties *)

\* A collection keeps exactly what is reachable from handles held outside.
GcExact == Range(GcResult.objs) = MReach

\* Nothing the mutator can reach is ever missing, and no object that exists
\* holds a handle to a destroyed one (so `view()` on a reachable handle can
\* never hit "attempted to access destroyed object").
NoDangling ==
  /\ \A o \in Ids : (ext[o] > 0 \/ view[o] > 0) => o \in Live
  /\ \A o \in Live : Range(edges[o]) \subseteq Live

\* A second collection right after a collection frees nothing.
GcIdempotent ==
  LET r == GcResult IN
  LET again == Phase1([v |-> r.objs, i |-> 1, k |-> 0, mark |-> {},
                       visits |-> [t \in Ids |-> 0], E |-> r.edges])
  IN Range(again.v) = Range(r.objs)

Inv == TypeOK /\ NoDangling /\ GcExact
=============================================================================
