CONSTANT Mode = "arr3s"
CONSTANT MaxLen = 3
CONSTANT Extended = TRUE
INIT Init
NEXT Next
INVARIANTS Laws Gate Emit
CHECK_DEADLOCK FALSE
