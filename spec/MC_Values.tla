----------------------------- MODULE MC_Values -----------------------------
(* Universe and case emission for C08: every ordered pair of V with the     *)
(* expected result of every comparison operator; laws over pairs/triples.   *)
EXTENDS Values, Json

VARIABLES x, y
CONSTANT Mode   \* "pairs": emit all pairs; "triples": check the triple laws only

\* numbers at the edges of the double grid: neighbours of 1 and of 2^53 (one and two steps apart),
\* whole numbers beyond 2^63 (outside every machine integer), the largest and smallest magnitudes
EdgeNums == { NumD(1, 0, -1), NumD(1, 0, 1), NumD(1, 0, 2), NumD(-1, 0, 1),
              Num(1, 1, 53), NumD(1, 53, 1), NumD(1, 53, -1),
              Num(1, 1, 63), Num(1, 3, 62), Num(1, 1, 64), Num(-1, 1, 63), Num(-1, 1, 64), Num(1, 1, 1000), Num(1, 3, 999),
              Num(1, 1, -1074), Num(1, 1, -1073), Num(-1, 1, -1074) }
Nums == { IntV(-1), Num(-1, 0, 0), IntV(0), Num(1, 1, -1), IntV(1), IntV(2), Num(1, 3, -1) } \cup EdgeNums
Strs == { Str(<<>>), Str(<<97>>), Str(<<97, 98>>), Str(<<98>>), Str(<<233>>), Str(<<122>>),
          Str(<<65535>>), Str(<<119070>>), Str(<<97, 119070>>), Str(<<97, 65535>>) }
Prims == Nums \cup Strs \cup { Null, Bool(TRUE), Bool(FALSE) }

SmallP == { IntV(0), IntV(1), Num(-1, 0, 0), Str(<<97>>), Str(<<>>), Null, Bool(TRUE) }
Arrs1 == { Arr(<<>>) } \cup { Arr(<<p>>) : p \in SmallP }
          \cup { Arr(<<p, q>>) : p \in {IntV(0), IntV(1), Str(<<97>>)}, q \in {IntV(0), IntV(1), ErrElem, Null} }
          \cup { Arr(<<IntV(1), IntV(1), ErrElem>>), Arr(<<IntV(1), IntV(2), ErrElem>>), Arr(<<ErrElem>>),
                 Arr(<<IntV(0), IntV(1), IntV(2)>>) }
          \* an unordered / failing item strictly inside, equal prefixes, deciding item after it
          \cup { Arr(<<IntV(0), m, l>>) : m \in {Null, Bool(TRUE), ErrElem, Obj(<<>>), Func}, l \in {IntV(1), IntV(2)} }
Arrs2 == { Arr(<<Arr(<<>>)>>), Arr(<<Arr(<<IntV(1)>>)>>), Arr(<<Arr(<<IntV(1)>>), ErrElem>>),
           Arr(<<Arr(<<IntV(2)>>), ErrElem>>), Arr(<<Arr(<<IntV(1), IntV(0)>>)>>) }

KA == <<97>>
KB == <<98>>
Objs == { Obj(<<>>),
          Obj(<<Fld(KA, FALSE, IntV(1))>>),
          Obj(<<Fld(KA, FALSE, Num(-1, 0, 0))>>),
          Obj(<<Fld(KA, FALSE, IntV(0))>>),
          Obj(<<Fld(KA, TRUE, IntV(1))>>),
          Obj(<<Fld(KA, FALSE, IntV(1)), Fld(KB, TRUE, IntV(5))>>),
          Obj(<<Fld(KA, FALSE, IntV(1)), Fld(KB, TRUE, ErrElem)>>),
          Obj(<<Fld(KA, FALSE, IntV(1)), Fld(KB, FALSE, IntV(2))>>),
          Obj(<<Fld(KA, FALSE, IntV(2)), Fld(KB, FALSE, ErrElem)>>),
          Obj(<<Fld(KA, FALSE, IntV(1)), Fld(KB, FALSE, ErrElem)>>),
          Obj(<<Fld(KB, FALSE, IntV(1))>>),
          Obj(<<Fld(KA, FALSE, Arr(<<IntV(1)>>))>>),
          Obj(<<Fld(KA, FALSE, Obj(<<Fld(KA, TRUE, IntV(1))>>))>>),
          Obj(<<Fld(KA, FALSE, Obj(<<>>))>>) }

V == Prims \cup Arrs1 \cup Arrs2 \cup Objs \cup { Func }
\* a smaller universe for the (cubic) triple laws
V3 == Nums \cup { Str(<<>>), Str(<<97>>), Str(<<97, 98>>), Str(<<233>>), Str(<<65535>>), Str(<<119070>>),
                  Null, Bool(TRUE) }
      \cup { Arr(<<>>), Arr(<<IntV(0)>>), Arr(<<IntV(1)>>), Arr(<<IntV(0), IntV(1)>>), Arr(<<IntV(1), IntV(0)>>),
             Arr(<<Num(-1, 0, 0)>>), Arr(<<Arr(<<IntV(1)>>)>>), Arr(<<Str(<<97>>)>>) }
      \cup { Obj(<<>>), Obj(<<Fld(KA, FALSE, IntV(1))>>), Obj(<<Fld(KA, FALSE, IntV(1)), Fld(KB, TRUE, IntV(5))>>),
             Obj(<<Fld(KA, FALSE, Num(-1, 0, 0))>>), Obj(<<Fld(KA, FALSE, IntV(0))>>) }

Init == IF Mode = "pairs" THEN x \in V /\ y \in V ELSE x \in V3 /\ y \in V3
Next == UNCHANGED <<x, y>>

Expected == [eq |-> Equal(x, y), ne |-> Not3(Equal(x, y)), equals |-> Equal(x, y),
             lt |-> Lt(x, y), le |-> Le(x, y), gt |-> Gt(x, y), ge |-> Ge(x, y),
             cmp |-> CmpNum(x, y), cmparr |-> CmpArr(x, y), primeq |-> PrimEq(x, y)]

Emit == Mode = "pairs" => PrintT(<<"CASE", ToJson([x |-> x, y |-> y, exp |-> Expected])>>)
PairLaws == LawPair(x, y)
TripleLaws == Mode = "triples" => \A z \in V3 : LawTriple(x, y, z)
=============================================================================
