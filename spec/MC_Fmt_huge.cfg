\* thorough configuration; the check derives the quick one (Seed = VERIF_SEED, Stride > 1)
CONSTANTS
  Mode = "huge"
  Seed = 1
  Stride = 1
  AllForms = TRUE
INIT Init
NEXT Next
INVARIANTS Laws Emit
CHECK_DEADLOCK FALSE
