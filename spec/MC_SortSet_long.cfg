CONSTANTS Mode = "long" MaxLen = 0 NKeys = 5 PermBound = 0
CONSTANT Lens <- LensAll
INIT Init
NEXT Next
INVARIANTS Laws Emit
CHECK_DEADLOCK FALSE
