------------------------------ MODULE Strings ------------------------------
(***************************************************************************)
(* Reference level for property C18: strings are sequences of Unicode code *)
(* points in every string function.                                        *)
(*                                                                         *)
(* A string is a sequence of code points (naturals).  Every operator below *)
(* is written from the Jsonnet language / standard library definition      *)
(* (the language reference for indexing and slices; the documented         *)
(* behaviour and the defining std.jsonnet text for the library functions), *)
(* in terms of positions in that sequence only: no bytes, no UTF-16 units. *)
(*                                                                         *)
(* Numeric arguments (indexes, lengths, limits, widths) are records        *)
(*   [k |-> "int",  n |-> i]   the integer i                               *)
(*   [k |-> "half", n |-> 0]   the fractional number 0.5                   *)
(*   [k |-> "huge", n |-> 0]   the integer 1e20 (larger than every length; *)
(*                             evaluated as Huge below)                    *)
(*   [k |-> "none", n |-> 0]   an omitted slice bound                      *)
(*                                                                         *)
(* Results are records                                                     *)
(*   [r |-> "str",  v |-> code points]      a string                       *)
(*   [r |-> "strs", v |-> seq of strings]   an array of strings            *)
(*   [r |-> "nums", v |-> seq of naturals]  an array of numbers            *)
(*   [r |-> "num",  v |-> natural]                                         *)
(*   [r |-> "bool", v |-> BOOLEAN]                                         *)
(*   [r |-> "error"]     the call must fail with a run-time error          *)
(*   [r |-> "outside"]   not decided here: upstream implementations differ *)
(*                       or the property does not cover the case           *)
(***************************************************************************)
EXTENDS Integers, Sequences, FiniteSets, TLC

RStr(c)  == [r |-> "str",  v |-> c]
RStrs(a) == [r |-> "strs", v |-> a]
RNums(a) == [r |-> "nums", v |-> a]
RNum(n)  == [r |-> "num",  v |-> n]
RBool(b) == [r |-> "bool", v |-> b]
Error    == [r |-> "error"]
Outside  == [r |-> "outside"]

AInt(n) == [k |-> "int",  n |-> n]
AHalf   == [k |-> "half", n |-> 0]
AHuge   == [k |-> "huge", n |-> 0]
ANone   == [k |-> "none", n |-> 0]

\* 1e20 only ever takes part in comparisons with lengths (< 100) and in sums
\* of two arguments; any integer far above every length behaves the same.
Huge == 1000000
Whole(a) == a.k \in {"int", "huge"}
Val(a) == IF a.k = "huge" THEN Huge ELSE a.n

Max(a, b) == IF a > b THEN a ELSE b
Min(a, b) == IF a < b THEN a ELSE b
MaxOf(S) == CHOOSE k \in S : \A j \in S : j <= k
MinOf(S) == CHOOSE k \in S : \A j \in S : k <= j

---------------------------------------------------------------------------
(* Sequence helpers                                                        *)

Rev(s) == [i \in 1..Len(s) |-> s[Len(s) + 1 - i]]
Single(s) == [i \in 1..Len(s) |-> <<s[i]>>]          \* the characters of s as strings
Spaces(n) == [i \in 1..n |-> 32]

RECURSIVE Concat(_)
Concat(ss) == IF ss = <<>> THEN <<>> ELSE Head(ss) \o Concat(Tail(ss))

\* p occurs in s at the 0-based position i
OccursAt(s, p, i) == /\ i >= 0
                     /\ i + Len(p) <= Len(s)
                     /\ SubSeq(s, i + 1, i + Len(p)) = p
Occs(s, p) == {i \in 0..(Len(s) - Len(p)) : OccursAt(s, p, i)}
FirstOcc(s, p) == LET O == Occs(s, p) IN IF O = {} THEN -1 ELSE MinOf(O)
LastOcc(s, p)  == LET O == Occs(s, p) IN IF O = {} THEN -1 ELSE MaxOf(O)

Member(ch, cs) == \E j \in 1..Len(cs) : cs[j] = ch

---------------------------------------------------------------------------
(* std.length, s[i], std.stringChars, std.codepoint, std.char              *)

Length(s) == RNum(Len(s))

\* s[i]: i must be an integer with 0 <= i < length; everything else is an error
Index(s, i) ==
  IF i.k = "int" /\ i.n >= 0 /\ i.n < Len(s) THEN RStr(<<s[i.n + 1]>>) ELSE Error

StringChars(s) == RStrs(Single(s))

Codepoint(s) == IF Len(s) = 1 THEN RNum(s[1]) ELSE Error

\* std.char(n): the one-character string; not a code point => error.  A
\* fractional argument (truncated upstream, not covered by the property) and
\* the surrogate range (not scalar values) are not decided.
Char(a) ==
  CASE a.k = "half" -> Outside
    [] a.k = "huge" -> Error
    [] a.k = "int"  -> IF a.n < 0 \/ a.n > 1114111 THEN Error
                       ELSE IF a.n >= 55296 /\ a.n <= 57343 THEN Outside
                       ELSE RStr(<<a.n>>)

---------------------------------------------------------------------------
(* Slices s[a:b:c] = std.slice(s, a, b, c) (omitted = null):               *)
(*   step:  null -> 1; must be > 0                                         *)
(*   index: null -> 0; negative -> max(0, length + index)                  *)
(*   end:   null -> length; negative -> length + end                       *)
(*   result: the characters at index, index+step, ... below min(end, len)  *)
(* Fractional bounds are not decided (upstream's loop accepts some).       *)

SliceIdx(s, a) == IF a.k = "none" THEN 0
                  ELSE IF Val(a) < 0 THEN Max(0, Len(s) + Val(a)) ELSE Val(a)
SliceEnd(s, b) == IF b.k = "none" THEN Len(s)
                  ELSE IF Val(b) < 0 THEN Len(s) + Val(b) ELSE Val(b)
SliceStep(c) == IF c.k = "none" THEN 1 ELSE Val(c)

Slice(s, a, b, c) ==
  IF a.k = "half" \/ b.k = "half" \/ c.k = "half" THEN Outside
  ELSE IF SliceStep(c) <= 0 THEN Error
  ELSE LET idx == SliceIdx(s, a)
           end == SliceEnd(s, b)
           step == SliceStep(c)
           pos == SelectSeq([p \in 1..Len(s) |-> p - 1],
                            LAMBDA p : p >= idx /\ p < end /\ (p - idx) % step = 0)
       IN RStr([j \in 1..Len(pos) |-> s[pos[j] + 1]])

---------------------------------------------------------------------------
(* std.substr(s, from, len): the part of s that starts at offset from and  *)
(* is len code points long; if s is shorter than from+len, the suffix      *)
(* starting at from.  len < 0 is an error.  from < 0 is an error when      *)
(* anything would have to be taken (len > 0); with len = 0 upstream        *)
(* implementations differ.  Fractional arguments: they differ as well.     *)

Substr(s, from, len) ==
  IF from.k = "half" \/ len.k = "half" THEN Outside
  ELSE IF Val(len) < 0 THEN Error
  ELSE IF Val(from) < 0 THEN (IF Val(len) = 0 THEN Outside ELSE Error)
  ELSE LET lo == Min(Val(from), Len(s))
           hi == Min(Val(from) + Val(len), Len(s))
       IN RStr(SubSeq(s, lo + 1, hi))

---------------------------------------------------------------------------
(* std.findSubstr(pat, str): all 0-based positions where pat occurs,       *)
(* ascending, overlapping occurrences included; empty pattern => [].       *)

FindSubstr(p, s) ==
  IF p = <<>> THEN RNums(<<>>)
  ELSE RNums(SelectSeq([i \in 1..Len(s) |-> i - 1], LAMBDA i : OccursAt(s, p, i)))

StartsWith(a, b) == RBool(Len(b) <= Len(a) /\ SubSeq(a, 1, Len(b)) = b)
EndsWith(a, b) == RBool(Len(b) <= Len(a) /\ SubSeq(a, Len(a) - Len(b) + 1, Len(a)) = b)

---------------------------------------------------------------------------
(* std.reverse(std.stringChars(s)), std.map / std.flatMap over a string    *)
(* (the function receives each character as a one-character string)        *)

ReverseChars(s) == RStrs(Single(Rev(s)))
ReverseJoin(s) == RStr(Rev(s))
MapDup(s) == RStrs([i \in 1..Len(s) |-> <<s[i], s[i]>>])          \* function(c) c + c
MapCp(s) == RNums(s)                                               \* std.codepoint
FlatMapDup(s) == RStr(Concat([i \in 1..Len(s) |-> <<s[i], s[i]>>]))
\* function(c) if c == "a" then "" else c + "é"
FlatMapDrop(s) == RStr(Concat([i \in 1..Len(s) |-> IF s[i] = 97 THEN <<>> ELSE <<s[i], 233>>]))

---------------------------------------------------------------------------
(* Splitting.  SplitL(s, c, n): split at the first n occurrences of c      *)
(* found scanning left to right, each search resuming after the previous   *)
(* separator (n = -1: no limit).  SplitR: the same from the right.         *)

RECURSIVE SplitL(_, _, _)
SplitL(s, c, n) ==
  LET i == FirstOcc(s, c) IN
  IF n = 0 \/ i = -1 THEN <<s>>
  ELSE <<SubSeq(s, 1, i)>>
       \o SplitL(SubSeq(s, i + Len(c) + 1, Len(s)), c, IF n = -1 THEN -1 ELSE n - 1)

RECURSIVE SplitR(_, _, _)
SplitR(s, c, n) ==
  LET i == LastOcc(s, c) IN
  IF n = 0 \/ i = -1 THEN <<s>>
  ELSE SplitR(SubSeq(s, 1, i), c, IF n = -1 THEN -1 ELSE n - 1)
       \o <<SubSeq(s, i + Len(c) + 1, Len(s))>>

\* An empty separator is rejected by some upstream versions only.
Split(s, c) == IF c = <<>> THEN Outside ELSE RStrs(SplitL(s, c, -1))

\* maxsplits: -1 = no limit, n >= 0 = at most n splits.  Fractional limits
\* and limits below -1 are accepted by one upstream implementation and
\* rejected by the other: not decided.
SplitLimit(s, c, n) ==
  IF c = <<>> \/ ~Whole(n) \/ Val(n) < -1 THEN Outside
  ELSE RStrs(SplitL(s, c, Val(n)))

\* With -1 the documentation says "from right to left" while the defining
\* text falls back to the left-to-right split; decided only where both agree.
SplitLimitR(s, c, n) ==
  IF c = <<>> \/ ~Whole(n) \/ Val(n) < -1 THEN Outside
  ELSE IF Val(n) = -1 THEN (IF SplitL(s, c, -1) = SplitR(s, c, -1)
                            THEN RStrs(SplitL(s, c, -1)) ELSE Outside)
  ELSE RStrs(SplitR(s, c, Val(n)))

RECURSIVE JoinSeq(_, _)
JoinSeq(sep, a) == IF a = <<>> THEN <<>>
                   ELSE IF Len(a) = 1 THEN a[1]
                   ELSE a[1] \o sep \o JoinSeq(sep, Tail(a))
Join(sep, a) == RStr(JoinSeq(sep, a))

---------------------------------------------------------------------------
(* Stripping: remove the maximal prefix / suffix made of listed characters *)

LeadCount(s, cs) == MaxOf({k \in 0..Len(s) : \A j \in 1..k : Member(s[j], cs)})
TrailCount(s, cs) == MaxOf({k \in 0..Len(s) : \A j \in (Len(s) - k + 1)..Len(s) : Member(s[j], cs)})
LStripSeq(s, cs) == SubSeq(s, LeadCount(s, cs) + 1, Len(s))
RStripSeq(s, cs) == SubSeq(s, 1, Len(s) - TrailCount(s, cs))
StripSeq(s, cs) == LStripSeq(RStripSeq(s, cs), cs)
LStripChars(s, cs) == RStr(LStripSeq(s, cs))
RStripChars(s, cs) == RStr(RStripSeq(s, cs))
StripChars(s, cs) == RStr(StripSeq(s, cs))

\* std.trim: strip the characters " \t\n\f\r\u0085 "
TrimSet == <<32, 9, 10, 12, 13, 133, 160>>
Trim(s) == RStr(StripSeq(s, TrimSet))

---------------------------------------------------------------------------
(* std.strReplace: replace the occurrences of `from` found scanning left   *)
(* to right, resuming after each replaced occurrence (the replacement is   *)
(* never rescanned).  Empty `from` is rejected upstream: not decided.      *)

RECURSIVE ReplSeq(_, _, _)
ReplSeq(s, f, t) ==
  LET i == FirstOcc(s, f) IN
  IF i = -1 THEN s
  ELSE SubSeq(s, 1, i) \o t \o ReplSeq(SubSeq(s, i + Len(f) + 1, Len(s)), f, t)
StrReplace(s, f, t) == IF f = <<>> THEN Outside ELSE RStr(ReplSeq(s, f, t))

---------------------------------------------------------------------------
(* ASCII case mapping: only a-z / A-Z move                                 *)

UpperSeq(s) == [i \in 1..Len(s) |-> IF s[i] >= 97 /\ s[i] <= 122 THEN s[i] - 32 ELSE s[i]]
LowerSeq(s) == [i \in 1..Len(s) |-> IF s[i] >= 65 /\ s[i] <= 90 THEN s[i] + 32 ELSE s[i]]
AsciiUpper(s) == RStr(UpperSeq(s))
AsciiLower(s) == RStr(LowerSeq(s))

---------------------------------------------------------------------------
(* "%Ns" / "%-Ns": the string padded with spaces to at least N code points *)

PadSeq(s, n, left) == IF left THEN s \o Spaces(Max(0, n - Len(s)))
                      ELSE Spaces(Max(0, n - Len(s))) \o s
FmtPre == <<233>>            \* literal text around the directive: "é" ... "𝄞|"
FmtPost == <<119070, 124>>
FmtWidth(s, n, left) == RStr(FmtPre \o PadSeq(s, n, left) \o FmtPost)

---------------------------------------------------------------------------
(* The identities of the property, as statements about the operators above *)
(* (TLC checks them for every element of the universe of MC_Strings).      *)

IsPrefix(p, s) == Len(p) <= Len(s) /\ SubSeq(s, 1, Len(p)) = p
AllIn(s, cs) == \A j \in 1..Len(s) : Member(s[j], cs)
Ascending(q) == \A j \in 1..(Len(q) - 1) : q[j] < q[j + 1]

\* length / stringChars / index / codepoint / char / reverse / map
LawChars(s) ==
  /\ Len(StringChars(s).v) = Length(s).v
  /\ Concat(StringChars(s).v) = s
  /\ \A i \in 0..(Len(s) - 1) :
       /\ Index(s, AInt(i)) = RStr(StringChars(s).v[i + 1])
       /\ Codepoint(Index(s, AInt(i)).v) = RNum(s[i + 1])
       /\ Char(AInt(s[i + 1])) = Index(s, AInt(i))
       /\ Substr(s, AInt(i), AInt(1)) = Index(s, AInt(i))
       /\ Slice(s, AInt(i), AInt(i + 1), ANone) = Index(s, AInt(i))
  /\ Index(s, AInt(Len(s))) = Error /\ Index(s, AInt(-1)) = Error
  /\ Rev(Rev(s)) = s
  /\ Len(ReverseChars(s).v) = Len(s)
  /\ Concat(ReverseChars(s).v) = ReverseJoin(s).v
  /\ \A i \in 1..Len(s) : ReverseJoin(s).v[i] = s[Len(s) + 1 - i]
  /\ Len(MapDup(s).v) = Len(s)
  /\ FlatMapDup(s).v = Concat(MapDup(s).v)
  /\ Len(FlatMapDup(s).v) = 2 * Len(s)
  /\ MapCp(s).v = s

\* slices (whole-number arguments)
LawSlice(s, a, b, c) ==
  LET r == Slice(s, a, b, c) IN
  r.r = "str" =>
    LET idx == SliceIdx(s, a)
        end == Min(SliceEnd(s, b), Len(s))
        step == SliceStep(c)
        n == IF end <= idx THEN 0 ELSE (end - idx + step - 1) \div step
    IN /\ Len(r.v) = n                                      \* count of selected positions
       /\ \A j \in 1..n : r.v[j] = s[idx + (j - 1) * step + 1]
       /\ (c.k = "none" => r = Slice(s, a, b, AInt(1)))     \* default step
       /\ (a.k = "none" => r = Slice(s, AInt(0), b, c))     \* default start
       /\ (b.k = "none" => r = Slice(s, a, AInt(Len(s)), c))  \* default end
       /\ (step = 1 /\ b.k = "none" /\ c.k = "none" /\ Whole(a) =>
             Slice(s, ANone, a, ANone).v \o r.v = s)        \* s[:k] + s[k:] = s
       /\ (step = 1 /\ a.k = "int" /\ b.k = "int" /\ a.n >= 0 /\ b.n >= a.n =>
             r = Substr(s, a, AInt(b.n - a.n)))             \* slice = substr
       /\ (a.k = "int" /\ a.n < 0 /\ a.n >= -Len(s) => r = Slice(s, AInt(Len(s) + a.n), b, c))
       /\ (b.k = "int" /\ b.n < 0 /\ b.n >= -Len(s) => r = Slice(s, a, AInt(Len(s) + b.n), c))

LawSubstr(s, from, len) ==
  LET r == Substr(s, from, len) IN
  r.r = "str" =>
    /\ Len(r.v) = Max(0, Min(Val(len), Len(s) - Val(from)))
    /\ \A j \in 1..Len(r.v) : r.v[j] = s[Val(from) + j]
    /\ (Val(from) <= Len(s) =>
          Substr(s, AInt(0), from).v \o r.v \o Substr(s, AInt(Val(from) + Len(r.v)), AHuge).v = s)

\* findSubstr reports every and only match position (overlapping included)
LawFind(p, s) ==
  LET q == FindSubstr(p, s).v IN
  /\ Ascending(q)
  /\ p # <<>> =>
       \A i \in -1..(Len(s) + 1) :
          (\E j \in 1..Len(q) : q[j] = i)
            <=> (i >= 0 /\ i + Len(p) <= Len(s) /\ Substr(s, AInt(i), AInt(Len(p))) = RStr(p))
  /\ (p # <<>> => (StartsWith(s, p).v <=> (Len(q) > 0 /\ q[1] = 0)))
  /\ (p # <<>> => (EndsWith(s, p).v <=> (Len(q) > 0 /\ q[Len(q)] = Len(s) - Len(p))))
  /\ StartsWith(s, p).v = (Len(p) <= Len(s) /\ Substr(s, AInt(0), AInt(Len(p))) = RStr(p))
  /\ EndsWith(s, p) = StartsWith(Rev(s), Rev(p))
  /\ StartsWith(s, <<>>).v /\ EndsWith(s, <<>>).v /\ StartsWith(s, s).v /\ EndsWith(s, s).v

\* join . split = id; pieces hold no separator; limits
LawSplit(s, c) ==
  c # <<>> =>
    LET full == SplitL(s, c, -1)
        m == Len(full) - 1            \* number of separators found
    IN /\ JoinSeq(c, full) = s
       /\ JoinSeq(c, SplitR(s, c, -1)) = s
       /\ \A j \in 1..Len(full) : Occs(full[j], c) = {}
       /\ \A j \in 1..Len(SplitR(s, c, -1)) : Occs(SplitR(s, c, -1)[j], c) = {}
       /\ Len(SplitR(s, c, -1)) = m + 1
       /\ (m = 0 <=> Occs(s, c) = {})
       /\ ReplSeq(s, c, c) = s
       /\ \A t \in {<<>>, <<233>>, <<97, 97>>} : ReplSeq(s, c, t) = JoinSeq(t, full)

LawSplitLimit(s, c, n) ==
  (c # <<>> /\ Whole(n) /\ Val(n) >= -1) =>
    LET full == SplitL(s, c, -1)
        m == Len(full) - 1
        k == IF Val(n) = -1 THEN m ELSE Min(Val(n), m)     \* splits actually made
        l == SplitL(s, c, Val(n))
        r == SplitR(s, c, Val(n))
    IN /\ Len(l) = k + 1 /\ Len(r) = k + 1
       /\ JoinSeq(c, l) = s /\ JoinSeq(c, r) = s
       \* first k pieces hold no separator, the rest is untouched
       /\ \A j \in 1..k : Occs(l[j], c) = {} /\ l[j] = full[j]
       /\ \A j \in 2..(k + 1) : Occs(r[j], c) = {}
       \* the last piece of the left split is what follows the k-th separator
       /\ l[k + 1] = JoinSeq(c, SubSeq(full, k + 1, m + 1))
       \* splitLimitR = splitLimit on the reversed string (upstream's definition)
       /\ r = Rev([j \in 1..(k + 1) |-> Rev(SplitL(Rev(s), Rev(c), Val(n))[j])])
       /\ (Val(n) = 0 => l = <<s>> /\ r = <<s>>)
       /\ (Val(n) >= m \/ Val(n) = -1 => l = full)

LawJoin(sep, a) ==
  /\ Len(JoinSeq(sep, a)) = (IF a = <<>> THEN 0
                             ELSE Len(Concat(a)) + (Len(a) - 1) * Len(sep))
  /\ (sep = <<>> => JoinSeq(sep, a) = Concat(a))
  \* split . join = id when no piece holds a character of the separator
  /\ ((sep # <<>> /\ a # <<>> /\ \A j \in 1..Len(a) : \A i \in 1..Len(sep) : ~Member(sep[i], a[j]))
       => SplitL(JoinSeq(sep, a), sep, -1) = a)

\* strip functions remove exactly the maximal prefix / suffix of listed characters
LawStrip(s, cs) ==
  LET l == LStripSeq(s, cs)
      r == RStripSeq(s, cs)
      b == StripSeq(s, cs)
  IN /\ \E pre \in {SubSeq(s, 1, k) : k \in 0..Len(s)} :
          /\ pre \o l = s /\ AllIn(pre, cs) /\ (l = <<>> \/ ~Member(l[1], cs))
     /\ \E post \in {SubSeq(s, k + 1, Len(s)) : k \in 0..Len(s)} :
          /\ r \o post = s /\ AllIn(post, cs) /\ (r = <<>> \/ ~Member(r[Len(r)], cs))
     /\ b = RStripSeq(LStripSeq(s, cs), cs)
     /\ (b = <<>> \/ (~Member(b[1], cs) /\ ~Member(b[Len(b)], cs)))
     /\ (b = <<>> <=> AllIn(s, cs))
     /\ StripSeq(b, cs) = b /\ LStripSeq(l, cs) = l /\ RStripSeq(r, cs) = r
     /\ RStripSeq(s, cs) = Rev(LStripSeq(Rev(s), cs))
     /\ (cs = <<>> => b = s)

LawTrim(s) == /\ Trim(s).v = StripSeq(s, TrimSet)
              /\ (Trim(s).v = <<>> \/ (~Member(Trim(s).v[1], TrimSet)
                                       /\ ~Member(Trim(s).v[Len(Trim(s).v)], TrimSet)))
              /\ \E i \in 0..Len(s) : \E j \in i..Len(s) :
                    /\ Trim(s).v = SubSeq(s, i + 1, j)
                    /\ AllIn(SubSeq(s, 1, i), TrimSet) /\ AllIn(SubSeq(s, j + 1, Len(s)), TrimSet)

LawReplace(s, f, t) ==
  f # <<>> =>
    /\ ReplSeq(s, f, t) = JoinSeq(t, SplitL(s, f, -1))
    /\ (Occs(s, f) = {} => ReplSeq(s, f, t) = s)
    /\ ReplSeq(s, f, f) = s
    /\ Len(ReplSeq(s, f, t)) = Len(s) + (Len(SplitL(s, f, -1)) - 1) * (Len(t) - Len(f))

LawCase(s) ==
  /\ Len(UpperSeq(s)) = Len(s) /\ Len(LowerSeq(s)) = Len(s)
  /\ UpperSeq(UpperSeq(s)) = UpperSeq(s) /\ LowerSeq(LowerSeq(s)) = LowerSeq(s)
  /\ UpperSeq(LowerSeq(s)) = UpperSeq(s) /\ LowerSeq(UpperSeq(s)) = LowerSeq(s)
  /\ \A i \in 1..Len(s) :
       /\ (s[i] > 127 => UpperSeq(s)[i] = s[i] /\ LowerSeq(s)[i] = s[i])
       /\ ~(UpperSeq(s)[i] >= 97 /\ UpperSeq(s)[i] <= 122)
       /\ ~(LowerSeq(s)[i] >= 65 /\ LowerSeq(s)[i] <= 90)

\* field width counts code points
LawFmt(s, n) ==
  /\ Len(PadSeq(s, n, TRUE)) = Max(n, Len(s)) /\ Len(PadSeq(s, n, FALSE)) = Max(n, Len(s))
  /\ IsPrefix(s, PadSeq(s, n, TRUE)) /\ IsPrefix(Rev(s), Rev(PadSeq(s, n, FALSE)))
  /\ LStripSeq(PadSeq(s, n, FALSE), <<32>>) = LStripSeq(s, <<32>>)
  /\ RStripSeq(PadSeq(s, n, TRUE), <<32>>) = RStripSeq(s, <<32>>)
=============================================================================
