----------------------------- MODULE Trace_Diag -----------------------------
(* C15, diagnostic half: "a syntax error points at a token of the input".     *)
(* One NDJSON event (file in IOEnv.TRACE) per syntax error the real parser    *)
(* reported:                                                                  *)
(*   {"es": S, "ee": E, "toks": [[s1,e1],...], "len": N}                      *)
(* es..ee = the byte span of the diagnostic as resolved by SpanManager,       *)
(* toks   = the byte spans of the tokens of the input (white space and        *)
(*          comments are not tokens), len = length of the input in bytes.     *)
(* An event is explained iff the diagnostic span is exactly the span of one   *)
(* token of the input, or the empty span at the end of the input (the         *)
(* end-of-file token).  Acceptance = the whole trace is consumed.             *)
EXTENDS Integers, Sequences, TLC, Json, IOUtils

Rec == ndJsonDeserialize(IOEnv.TRACE)

VARIABLE l

\* the recorded token spans tile the input from left to right
WellFormed(ev) ==
  /\ \A k \in 1..Len(ev.toks) : 0 <= ev.toks[k][1] /\ ev.toks[k][1] < ev.toks[k][2] /\ ev.toks[k][2] <= ev.len
  /\ \A k \in 1..(Len(ev.toks) - 1) : ev.toks[k][2] <= ev.toks[k + 1][1]

AtToken(ev) == \E k \in 1..Len(ev.toks) : ev.toks[k][1] = ev.es /\ ev.toks[k][2] = ev.ee
AtEndOfInput(ev) == ev.es = ev.len /\ ev.ee = ev.len
Located(ev) == WellFormed(ev) /\ (AtToken(ev) \/ AtEndOfInput(ev))

Init == l = 1
Next == l <= Len(Rec) /\ Located(Rec[l]) /\ l' = l + 1

Accepted ==
  LET d == TLCGet("stats").diameter IN
  IF d - 1 = Len(Rec) THEN TRUE
  ELSE Print(<<"REJECT", d, IF d <= Len(Rec) THEN ToJson(Rec[d]) ELSE "end">>, FALSE)
=============================================================================
