CONSTANTS
  Mode = "bytes"
  Alpha = {33, 36, 58, 126, 43, 45, 38, 124, 94, 61, 60, 62, 42, 47, 37}
  MaxLen = 4
  First = {33, 36, 58, 43, 45, 124, 47, 42, 60}
INIT Init
NEXT Next
INVARIANTS Laws Emit
CHECK_DEADLOCK FALSE
