---- MODULE MC_Machine ----
EXTENDS Machine
\* history variables are hidden from the state fingerprint where they do not influence behaviour
====
