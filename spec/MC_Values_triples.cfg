CONSTANT Mode = "triples"
INIT Init
NEXT Next
INVARIANTS PairLaws TripleLaws
CHECK_DEADLOCK FALSE
