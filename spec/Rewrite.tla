------------------------------- MODULE Rewrite -------------------------------
(***************************************************************************)
(* Generic traversal of the AST of Sem.tla (Kids / Rebuild / Sites /        *)
(* ReplaceAt) and the meaning-preserving rewrites of property C04.          *)
(***************************************************************************)
EXTENDS Integers, Sequences, FiniteSets, TLC

IsNone(x) == x = <<"none">> \/ x = <<"nodef">>
OptSeq(x) == IF IsNone(x) THEN <<>> ELSE <<x>>

\* expression children of a member / spec / param, and how to put them back
MemberKids(m) ==
  CASE m[1] = "fld" -> (IF m[2][1] = "expr" THEN <<m[2][2]>> ELSE <<>>) \o <<m[5]>>
    [] m[1] = "olocal" -> <<m[3]>>
    [] m[1] = "oassert" -> <<m[2]>> \o OptSeq(m[3])
MemberRebuild(m, ks) ==
  CASE m[1] = "fld" -> IF m[2][1] = "expr" THEN <<"fld", <<"expr", ks[1]>>, m[3], m[4], ks[2]>>
                       ELSE <<"fld", m[2], m[3], m[4], ks[1]>>
    [] m[1] = "olocal" -> <<"olocal", m[2], ks[1]>>
    [] m[1] = "oassert" -> <<"oassert", ks[1], IF IsNone(m[3]) THEN m[3] ELSE ks[2]>>
SpecKids(s) == IF s[1] = "for" THEN <<s[3]>> ELSE <<s[2]>>
SpecRebuild(s, ks) == IF s[1] = "for" THEN <<"for", s[2], ks[1]>> ELSE <<"cif", ks[1]>>

RECURSIVE Flat(_)
Flat(ss) == IF ss = <<>> THEN <<>> ELSE Head(ss) \o Flat(Tail(ss))

\* split sequence ks into consecutive chunks of the given lengths
RECURSIVE Chunks(_, _)
Chunks(ks, lens) ==
  IF lens = <<>> THEN <<>>
  ELSE <<SubSeq(ks, 1, Head(lens))>> \o Chunks(SubSeq(ks, Head(lens) + 1, Len(ks)), Tail(lens))

Kids(e) ==
  CASE e[1] \in {"null", "true", "false", "num", "str", "var", "self", "dollar", "superf", "textblock"} -> <<>>
    [] e[1] = "local" -> [i \in 1..Len(e[2]) |-> e[2][i][2]] \o <<e[3]>>
    [] e[1] = "if" -> <<e[2], e[3], e[4]>>
    [] e[1] = "if2" -> <<e[2], e[3]>>
    [] e[1] = "bin" -> <<e[3], e[4]>>
    [] e[1] = "un" -> <<e[3]>>
    [] e[1] = "arr" -> e[2]
    [] e[1] = "index" -> <<e[2], e[3]>>
    [] e[1] = "field" -> <<e[2]>>
    [] e[1] = "slice" -> <<e[2]>> \o OptSeq(e[3]) \o OptSeq(e[4]) \o OptSeq(e[5])
    [] e[1] = "func" -> Flat([i \in 1..Len(e[2]) |-> OptSeq(e[2][i][2])]) \o <<e[3]>>
    [] e[1] = "call" -> <<e[2]>> \o e[3] \o [i \in 1..Len(e[4]) |-> e[4][i][2]]
    [] e[1] = "obj" -> Flat([i \in 1..Len(e[2]) |-> MemberKids(e[2][i])])
    [] e[1] = "objcomp" -> <<e[2], e[3]>> \o [i \in 1..Len(e[4]) |-> e[4][i][3]]
                              \o Flat([i \in 1..Len(e[5]) |-> SpecKids(e[5][i])])
    [] e[1] = "arrcomp" -> <<e[2]>> \o Flat([i \in 1..Len(e[3]) |-> SpecKids(e[3][i])])
    [] e[1] \in {"superi", "insuper", "error"} -> <<e[2]>>
    [] e[1] = "assert" -> <<e[2]>> \o OptSeq(e[3]) \o <<e[4]>>
    [] e[1] = "std" -> e[3]

Rebuild(e, ks) ==
  CASE e[1] \in {"null", "true", "false", "num", "str", "var", "self", "dollar", "superf", "textblock"} -> e
    [] e[1] = "local" -> <<"local", [i \in 1..Len(e[2]) |-> <<e[2][i][1], ks[i]>>], ks[Len(ks)]>>
    [] e[1] = "if" -> <<"if", ks[1], ks[2], ks[3]>>
    [] e[1] = "if2" -> <<"if2", ks[1], ks[2]>>
    [] e[1] = "bin" -> <<"bin", e[2], ks[1], ks[2]>>
    [] e[1] = "un" -> <<"un", e[2], ks[1]>>
    [] e[1] = "arr" -> <<"arr", ks>>
    [] e[1] = "index" -> <<"index", ks[1], ks[2]>>
    [] e[1] = "field" -> <<"field", ks[1], e[3]>>
    [] e[1] = "slice" ->
         LET n3 == IF IsNone(e[3]) THEN 0 ELSE 1  n4 == IF IsNone(e[4]) THEN 0 ELSE 1 IN
         <<"slice", ks[1], IF IsNone(e[3]) THEN e[3] ELSE ks[2], IF IsNone(e[4]) THEN e[4] ELSE ks[2 + n3],
           IF IsNone(e[5]) THEN e[5] ELSE ks[2 + n3 + n4]>>
    [] e[1] = "func" ->
         LET nd(i) == Cardinality({j \in 1..(i-1) : ~IsNone(e[2][j][2])}) IN
         <<"func", [i \in 1..Len(e[2]) |-> <<e[2][i][1], IF IsNone(e[2][i][2]) THEN e[2][i][2] ELSE ks[nd(i) + 1]>>],
           ks[Len(ks)]>>
    [] e[1] = "call" ->
         <<"call", ks[1], SubSeq(ks, 2, 1 + Len(e[3])),
           [i \in 1..Len(e[4]) |-> <<e[4][i][1], ks[1 + Len(e[3]) + i]>>], e[5]>>
    [] e[1] = "obj" ->
         LET ch == Chunks(ks, [i \in 1..Len(e[2]) |-> Len(MemberKids(e[2][i]))]) IN
         <<"obj", [i \in 1..Len(e[2]) |-> MemberRebuild(e[2][i], ch[i])]>>
    [] e[1] = "objcomp" ->
         LET nl == Len(e[4])
             ch == Chunks(SubSeq(ks, 3 + nl, Len(ks)), [i \in 1..Len(e[5]) |-> 1]) IN
         <<"objcomp", ks[1], ks[2], [i \in 1..nl |-> <<"olocal", e[4][i][2], ks[2 + i]>>],
           [i \in 1..Len(e[5]) |-> SpecRebuild(e[5][i], ch[i])]>>
    [] e[1] = "arrcomp" ->
         <<"arrcomp", ks[1], [i \in 1..Len(e[3]) |-> SpecRebuild(e[3][i], <<ks[1 + i]>>)]>>
    [] e[1] \in {"superi", "insuper", "error"} -> <<e[1], ks[1]>>
    [] e[1] = "assert" -> <<"assert", ks[1], IF IsNone(e[3]) THEN e[3] ELSE ks[2], ks[Len(ks)]>>
    [] e[1] = "std" -> <<"std", e[2], ks>>

\* every position of e, as a path of child indexes
RECURSIVE Sites(_)
Sites(e) == {<<>>} \cup UNION {{<<i>> \o p : p \in Sites(Kids(e)[i])} : i \in 1..Len(Kids(e))}

RECURSIVE At(_, _)
At(e, p) == IF p = <<>> THEN e ELSE At(Kids(e)[Head(p)], Tail(p))

RECURSIVE ReplaceAt(_, _, _)
ReplaceAt(e, p, new) ==
  IF p = <<>> THEN new
  ELSE LET ks == Kids(e) IN
       Rebuild(e, [i \in 1..Len(ks) |-> IF i = Head(p) THEN ReplaceAt(ks[i], Tail(p), new) ELSE ks[i]])

RECURSIVE Mentions(_, _)
Mentions(e, tags) == e[1] \in tags \/ \E i \in 1..Len(Kids(e)) : Mentions(Kids(e)[i], tags)
SelfTags == {"self", "dollar", "superf", "superi", "insuper"}

\* --- rewrites (fresh names t, u are not used by the program universes) -----
ErrP == <<"error", <<"str", <<112, 114, 111, 98, 101>>>>>>   \* error "probe"
RwKinds == {"local", "ident", "arr1", "objf", "deadlocal", "deadparam", "deadfield"}
Applicable(k, x) == (k \in {"objf", "deadfield"}) => ~Mentions(x, SelfTags)
Rw(k, x) ==
  CASE k = "local" -> <<"local", <<<<"t", x>>>>, <<"var", "t">>>>
    [] k = "ident" -> <<"call", <<"func", <<<<"t", <<"nodef">>>>>>, <<"var", "t">>>>, <<x>>, <<>>, FALSE>>
    [] k = "arr1" -> <<"index", <<"arr", <<x>>>>, <<"num", 0>>>>
    [] k = "objf" -> <<"field", <<"obj", <<<<"fld", <<"id", "t">>, "d", FALSE, x>>>>>>, "t">>
    [] k = "deadlocal" -> <<"local", <<<<"t", ErrP>>>>, x>>
    [] k = "deadparam" -> <<"call", <<"func", <<<<"t", <<"nodef">>>>, <<"u", ErrP>>>>, <<"var", "t">>>>, <<x>>, <<>>, FALSE>>
    [] k = "deadfield" -> <<"field", <<"obj", <<<<"fld", <<"id", "t">>, "d", FALSE, x>>,
                                               <<"fld", <<"id", "u">>, "h", FALSE, ErrP>>>>>>, "t">>

\* --- sites that create exactly one thunk instance in a run ------------------
\* (not under a function, a comprehension, or an object that may be re-instantiated)
RECURSIVE OnceSites(_, _)
OnceSites(e, objOk) ==
  LET ks == Kids(e)
      sub(i) == {<<i>> \o p : p \in OnceSites(ks[i], objOk)} IN
  CASE e[1] = "local" -> {<<i>> : i \in 1..(Len(ks) - 1)} \cup UNION {sub(i) : i \in 1..Len(ks)}
    [] e[1] = "arr" -> {<<i>> : i \in 1..Len(ks)} \cup UNION {sub(i) : i \in 1..Len(ks)}
    [] e[1] = "call" -> {<<i>> : i \in 2..Len(ks)} \cup UNION {sub(i) : i \in 1..Len(ks)}
    [] e[1] = "obj" ->
         IF ~objOk THEN {}
         ELSE LET lens == [i \in 1..Len(e[2]) |-> Len(MemberKids(e[2][i]))]
                  off(i) == LET s[k \in 0..(i-1)] == IF k = 0 THEN 0 ELSE s[k-1] + lens[k] IN s[i-1]
                  bodies == {off(i) + lens[i] : i \in {i \in 1..Len(e[2]) : e[2][i][1] \in {"fld", "olocal"}}} IN
              {<<b>> : b \in bodies} \cup UNION {sub(b) : b \in bodies}
    [] e[1] \in {"func", "objcomp", "arrcomp"} -> {}
    [] OTHER -> UNION {sub(i) : i \in 1..Len(ks)}

RECURSIVE HasPlus(_)
HasPlus(e) == (e[1] = "bin" /\ e[2] = "+") \/ (e[1] = "std") \/ \E i \in 1..Len(Kids(e)) : HasPlus(Kids(e)[i])

TraceSites(e) == OnceSites(e, ~HasPlus(e) /\ ~Mentions(e, {"objcomp"}))
=============================================================================
