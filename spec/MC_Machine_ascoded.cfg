CONSTANTS Thunks = {1, 2} MaxLimit = 1 MaxDeps = 1 MaxReq = 2 RestoreOnFail = FALSE
INIT Init
NEXT Next
INVARIANT Inv
CHECK_DEADLOCK FALSE
