------------------------------ MODULE MC_SemMix ------------------------------
(***************************************************************************)
(* Random deep programs ("mixed" slice of C02): a grammar walk.  The state  *)
(* is a pool of expression fragments; every step builds a bigger fragment   *)
(* from randomly chosen constructor and operands.  Fragments only use the   *)
(* free names x, y (bound at the top, possibly shadowed by inner binders)   *)
(* and self / super / $, which are given a meaning by the fixed wrapper     *)
(*     local x = 2, y = [1, 2, 3];                                          *)
(*     ({a: 10, b:: 20, f(n):: n + 1} + {a+: 1, c: self.a, r: <E>}).r       *)
(* so every generated program is closed and statically valid.  Run with     *)
(* -simulate; one CASE per finished walk, stops after IOEnv.NCASES.         *)
(***************************************************************************)
EXTENDS Sem, Pretty, Json, IOUtils, TLCExt

CONSTANTS Steps, Fuel
VARIABLES pool, n
mvars == <<pool, n>>

N(k) == <<"num", k>>
V(v) == <<"var", v>>
S(cps) == <<"str", cps>>
Bin(o, a, b) == <<"bin", o, a, b>>
ArrE(es) == <<"arr", es>>
Idx(e, i) == <<"index", e, i>>
Dot(e, f) == <<"field", e, f>>
ObjE(ms) == <<"obj", ms>>
Fd(f, vis, e) == <<"fld", <<"id", f>>, vis, FALSE, e>>
FdP(f, vis, e) == <<"fld", <<"id", f>>, vis, TRUE, e>>
Fn(ps, b) == <<"func", ps, b>>
Ap(f, pos) == <<"call", f, pos, <<>>, FALSE>>
Self == <<"self">>
Std(f, as) == <<"std", f, as>>

Leaves == << N(0), N(1), N(2), N(3), S(<<97>>), S(<<98>>), <<"true">>, <<"false">>, <<"null">>,
             V("x"), V("y"), V("x"), V("y"), Dot(Self, "a"), Dot(Self, "c"), <<"superf", "a">>, <<"superf", "b">>,
             Dot(<<"dollar">>, "a"), <<"error", S(<<69>>)>>, ArrE(<<>>), ObjE(<<>>),
             <<"insuper", S(<<97>>)>>, Ap(Dot(Self, "f"), <<N(1)>>) >>

\* operands: built fragments are three times as likely as leaves, so that walks go deep
Pick == LET nl == Len(Leaves)  nb == Len(pool) - nl
            k == RandomElement(1..(Len(pool) + 3 * nb)) IN
        pool[IF k <= Len(pool) THEN k ELSE nl + ((k - Len(pool) - 1) % nb) + 1]
Op == RandomElement({"+", "+", "-", "*", "<", "==", "!=", "&&", "||", "%", "in"})

Build(k) ==
  LET a == Pick  b == Pick  d == Pick IN
  CASE k = 1 -> Bin(Op, a, b)
    [] k = 2 -> <<"if", a, b, d>>
    [] k = 3 -> ArrE(<<a, b>>)
    [] k = 4 -> Idx(a, b)
    [] k = 5 -> <<"local", <<<<"x", a>>>>, b>>
    [] k = 6 -> <<"local", <<<<"y", a>>, <<"x", b>>>>, d>>
    [] k = 7 -> Ap(Fn(<<<<"x", <<"nodef">>>>>>, a), <<b>>)
    [] k = 8 -> Ap(Fn(<<<<"x", <<"nodef">>>>, <<"y", a>>>>, b), <<d>>)
    [] k = 9 -> <<"arrcomp", a, <<<<"for", "x", b>>>>>>
    [] k = 10 -> <<"arrcomp", a, <<<<"for", "x", b>>, <<"cif", d>>>>>>
    [] k = 11 -> Dot(ObjE(<<Fd("a", "d", a), Fd("b", "h", b)>>), "a")
    [] k = 12 -> ObjE(<<Fd("a", "d", a), Fd("d", "d", b)>>)
    [] k = 13 -> Bin("+", ObjE(<<Fd("a", "d", a)>>), ObjE(<<FdP("a", "d", b), Fd("e", "d", <<"superf", "a">>)>>))
    [] k = 14 -> Dot(a, "a")
    [] k = 15 -> Std("length", <<a>>)
    [] k = 16 -> Std("type", <<a>>)
    [] k = 17 -> Std("objectFields", <<a>>)
    [] k = 18 -> <<"objcomp", a, b, <<>>, <<<<"for", "x", d>>>>>>
    [] k = 19 -> ArrE(<<a>>)
    [] k = 20 -> Std("map", <<Fn(<<<<"x", <<"nodef">>>>>>, a), b>>)
    [] k = 21 -> Std("foldl", <<Fn(<<<<"y", <<"nodef">>>>, <<"x", <<"nodef">>>>>>, a), b, d>>)
    [] k = 22 -> <<"un", RandomElement({"-", "!"}), a>>
    [] k = 23 -> <<"slice", a, b, <<"none">>, <<"none">>>>
    [] k = 24 -> <<"assert", a, <<"none">>, b>>
    [] k = 25 -> Bin("+", S(<<115>>), a)
    [] k = 26 -> ObjE(<<<<"olocal", "x", a>>, Fd("a", "d", b), <<"oassert", d, <<"none">>>>>>)

Wrap(e) ==
  <<"local", <<<<"x", N(2)>>, <<"y", ArrE(<<N(1), N(2), N(3)>>)>>>>,
    Dot(Bin("+", ObjE(<<Fd("a", "d", N(10)), Fd("b", "h", N(20)),
                        Fd("f", "h", Fn(<<<<"n", <<"nodef">>>>>>, Bin("+", V("n"), N(1))))>>),
                 ObjE(<<FdP("a", "d", N(1)), Fd("c", "d", Dot(Self, "a")), Fd("r", "d", e)>>)), "r")>>

Init == pool = Leaves /\ n = 0
Next == /\ n < Steps
        /\ pool' = Append(pool, Build(RandomElement(1..26)))
        /\ n' = n + 1

ASSUME TLCSet(1, 0)
Limit == IF "NCASES" \in DOMAIN IOEnv THEN atoi(IOEnv.NCASES) ELSE 200
Emit == n = Steps =>
  LET prog == Wrap(pool[Len(pool)]) IN
  /\ PrintT(<<"CASE", ToJson([src |-> P(prog), res |-> Run(prog, Fuel)])>>)
  /\ TLCSet(1, TLCGet(1) + 1)
  /\ (TLCGet(1) >= Limit => TLCSet("exit", TRUE))
=============================================================================
