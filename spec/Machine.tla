------------------------------ MODULE Machine ------------------------------
(***************************************************************************)
(* The evaluator of rsjsonnet-lang (program/eval/mod.rs) seen as a machine  *)
(* over an ABSTRACT program: a finite graph of thunks.  Exactly the         *)
(* information properties C03/C04/C10/C11 talk about is kept:               *)
(*   - the thunk state machine  Pending -> InProgress -> Done               *)
(*     (ThunkData::switch_state / set_done, State::DoThunk / GotThunk)      *)
(*   - the explicit state stack, projected to do/got/want/frame items       *)
(*   - the logical frame counter (stack_trace_len) maintained by            *)
(*     push_trace_item / State::TraceItem, tested against max_stack after   *)
(*     every step of run()                                                  *)
(*   - requests on one long-lived program state, failing or succeeding      *)
(*   - collections between steps (Collect), which may free what is not      *)
(*     reachable from the request                                           *)
(*                                                                          *)
(* prog[t] is one of                                                        *)
(*   <<"val">>            evaluates to a value at once                      *)
(*   <<"err">>            error "E"                                         *)
(*   <<"needs", deps>>    demands the thunks deps in order, then a value    *)
(*   <<"lazy", deps>>     a container holding deps without demanding them   *)
(***************************************************************************)
EXTENDS Integers, Sequences, FiniteSets, TLC

CONSTANTS Thunks,          \* set of thunk ids
          MaxLimit,        \* frame limits 0..MaxLimit are explored
          MaxDeps,         \* programs with at most this many dependencies per thunk
          MaxReq,          \* number of requests explored on one program state
          RestoreOnFail    \* TRUE: a failing request puts the thunks it left in progress back to
                           \* pending; FALSE: they stay in progress

VARIABLES prog,      \* the abstract program (chosen once, in Init)
          st,        \* st[t] \in {"P", "I", "D"}
          stack,     \* sequence of items, top = last
          frames,    \* stack_trace_len
          limit,     \* max_stack of the running request
          mode,      \* "idle" | "run"
          root,      \* root thunk of the running request
          outcome,   \* outcome of the last finished request: <<root, limit, result>> or <<>>
          alive,     \* thunks not yet reclaimed by a collection
          evals,     \* history: evals[t] = number of Pending -> InProgress switches
          roots,     \* history: roots requested so far
          nreq       \* history: number of requests started

vars == <<prog, st, stack, frames, limit, mode, root, outcome, alive, evals, roots, nreq>>

Range(s) == {s[i] : i \in 1..Len(s)}
Deps(t) == IF prog[t][1] \in {"needs", "lazy"} THEN Range(prog[t][2]) ELSE {}

RECURSIVE ReachFrom(_)
ReachFrom(S) == LET S2 == S \cup UNION {Deps(t) : t \in S} IN IF S2 = S THEN S ELSE ReachFrom(S2)

Nodes(maxDeps) ==
  {<<"val">>, <<"err">>}
  \cup {<<k, d>> : k \in {"needs", "lazy"}, d \in UNION {[1..n -> Thunks] : n \in 1..maxDeps}}

(***************************************************************************)
(* Reference outcome of a request on a FRESH state, as a pure function of   *)
(* (program, root, limit): what HistoryIndependent compares with.           *)
(* Depth-first demand evaluation; vis = thunks in progress, done = finished *)
(* (memoised) thunks, d = current frame depth.  Returns <<result, done>>.   *)
(***************************************************************************)
RECURSIVE Pure(_, _, _, _, _)
RECURSIVE PureSeq(_, _, _, _, _)
Pure(t, vis, done, d, lim) ==
  IF t \in done THEN <<"ok", done>>
  ELSE IF t \in vis THEN <<"infrec", done>>
  ELSE CASE prog[t][1] = "val" -> <<"ok", done \cup {t}>>
         [] prog[t][1] = "lazy" -> <<"ok", done \cup {t}>>
         [] prog[t][1] = "err" -> <<"err", done>>
         [] prog[t][1] = "needs" ->
              LET r == PureSeq(prog[t][2], vis \cup {t}, done, d, lim) IN
              IF r[1] = "ok" THEN <<"ok", r[2] \cup {t}>> ELSE r
PureSeq(ds, vis, done, d, lim) ==
  IF ds = <<>> THEN <<"ok", done>>
  ELSE IF Head(ds) \in done THEN PureSeq(Tail(ds), vis, done, d, lim)
  ELSE IF d + 1 > lim THEN <<"overflow", done>>        \* a frame is opened for a dependency that is not done
  ELSE LET r == Pure(Head(ds), vis, done, d + 1, lim) IN
       IF r[1] = "ok" THEN PureSeq(Tail(ds), vis, r[2], d, lim) ELSE r

Fresh(r, lim) == Pure(r, {}, {}, 0, lim)[1]

-----------------------------------------------------------------------------
Init ==
  /\ prog \in [Thunks -> Nodes(MaxDeps)]
  /\ st = [t \in Thunks |-> "P"]
  /\ stack = <<>> /\ frames = 0 /\ limit = 0 /\ mode = "idle"
  /\ root \in Thunks /\ outcome = <<>>
  /\ alive = Thunks
  /\ evals = [t \in Thunks |-> 0]
  /\ roots = {} /\ nreq = 0

Top == stack[Len(stack)]
Pop == SubSeq(stack, 1, Len(stack) - 1)

BeginRequest(r, lim) ==
  /\ mode = "idle" /\ nreq < MaxReq
  /\ mode' = "run" /\ root' = r /\ limit' = lim
  /\ stack' = <<<<"do", r>>>> /\ frames' = 0
  /\ roots' = roots \cup {r} /\ nreq' = nreq + 1
  /\ UNCHANGED <<prog, st, outcome, alive, evals>>

\* what the evaluator does with a failure: the Evaluator is dropped
FailFrom(kind, s) ==
  /\ mode' = "idle" /\ stack' = <<>> /\ frames' = 0
  /\ outcome' = <<root, limit, kind>>
  /\ st' = IF RestoreOnFail THEN [t \in Thunks |-> IF s[t] = "I" THEN "P" ELSE s[t]] ELSE s
  /\ UNCHANGED <<roots, nreq>>
Fail(kind) == FailFrom(kind, st)

\* The overflow test that run() makes after every step.
AfterStep(newFrames, cont) ==
  IF newFrames > limit THEN Fail("overflow") /\ UNCHANGED <<prog, root, limit, alive, evals, roots, nreq>>
  ELSE cont

\* State::DoThunk on a finished thunk
DoThunkDone ==
  /\ mode = "run" /\ stack # <<>> /\ Top[1] = "do" /\ st[Top[2]] = "D"
  /\ Top[2] \in alive
  /\ stack' = Pop
  /\ UNCHANGED <<prog, st, frames, limit, mode, root, outcome, alive, evals, roots, nreq>>

\* State::DoThunk on a pending thunk: Pending -> InProgress, push GotThunk and the work
DoThunkPending ==
  /\ mode = "run" /\ stack # <<>> /\ Top[1] = "do" /\ st[Top[2]] = "P"
  /\ Top[2] \in alive
  /\ LET t == Top[2]  n == prog[t] IN
     /\ evals' = [evals EXCEPT ![t] = @ + 1]
     /\ IF n[1] = "err"
        THEN /\ FailFrom("err", [st EXCEPT ![t] = "I"]) /\ UNCHANGED <<prog, root, limit, alive>>
        ELSE /\ st' = [st EXCEPT ![t] = "I"]
             /\ stack' = Pop \o <<<<"got", t>>>>
                           \o (IF n[1] = "needs"
                               THEN [i \in 1..Len(n[2]) |-> <<"want", n[2][Len(n[2]) + 1 - i]>>]
                               ELSE <<>>)
             /\ UNCHANGED <<prog, frames, limit, mode, root, outcome, alive, roots, nreq>>

\* State::DoThunk on a thunk that is in progress: infinite recursion
DoThunkInProgress ==
  /\ mode = "run" /\ stack # <<>> /\ Top[1] = "do" /\ st[Top[2]] = "I"
  /\ Fail("infrec")
  /\ UNCHANGED <<prog, root, limit, alive, evals, roots, nreq>>

\* State::GotThunk: InProgress -> Done
GotThunk ==
  /\ mode = "run" /\ stack # <<>> /\ Top[1] = "got"
  /\ st[Top[2]] = "I"
  /\ st' = [st EXCEPT ![Top[2]] = "D"]
  /\ stack' = Pop
  /\ UNCHANGED <<prog, frames, limit, mode, root, outcome, alive, evals, roots, nreq>>

\* want_thunk_direct: a finished thunk is used directly; otherwise a trace frame is
\* pushed (push_trace_item) and the thunk is scheduled; the limit is tested after the step
Want ==
  /\ mode = "run" /\ stack # <<>> /\ Top[1] = "want"
  /\ LET t == Top[2] IN
     IF st[t] = "D"
     THEN /\ stack' = Pop
          /\ UNCHANGED <<prog, st, frames, limit, mode, root, outcome, alive, evals, roots, nreq>>
     ELSE AfterStep(frames + 1,
                    /\ stack' = Pop \o <<<<"frame">>, <<"do", t>>>>
                    /\ frames' = frames + 1
                    /\ UNCHANGED <<prog, st, limit, mode, root, outcome, alive, evals, roots, nreq>>)

\* State::TraceItem popped
PopFrame ==
  /\ mode = "run" /\ stack # <<>> /\ Top[1] = "frame"
  /\ frames > 0
  /\ frames' = frames - 1 /\ stack' = Pop
  /\ UNCHANGED <<prog, st, limit, mode, root, outcome, alive, evals, roots, nreq>>

EndRequest ==
  /\ mode = "run" /\ stack = <<>>
  /\ mode' = "idle" /\ outcome' = <<root, limit, "ok">>
  /\ UNCHANGED <<prog, st, stack, frames, limit, root, alive, evals, roots, nreq>>

\* Program::gc between two steps (or between requests): frees what neither the running
\* request nor anything still referenced from the program state can reach.  Thunks of the
\* abstract program are owned by the program (alive for ever) unless nothing refers to them.
Collect ==
  /\ alive' = alive \cap ReachFrom(Thunks)
  /\ UNCHANGED <<prog, st, stack, frames, limit, mode, root, outcome, evals, roots, nreq>>

Step == DoThunkDone \/ DoThunkPending \/ DoThunkInProgress \/ GotThunk \/ Want \/ PopFrame \/ EndRequest

Next ==
  \/ Step
  \/ Collect
  \/ \E r \in Thunks, lim \in 0..MaxLimit : BeginRequest(r, lim)

Spec == Init /\ [][Next]_vars

-----------------------------------------------------------------------------
(* Properties *)

TypeOK ==
  /\ st \in [Thunks -> {"P", "I", "D"}]
  /\ frames \in Nat /\ mode \in {"idle", "run"}

\* C04: each delayed expression is evaluated at most once
EvalOnce == \A t \in Thunks : evals[t] <= 1 \/ RestoreOnFail

\* C04: only what the request's root transitively demands is ever evaluated
NeedDeps(t) == IF prog[t][1] = "needs" THEN Range(prog[t][2]) ELSE {}
RECURSIVE NeedReach(_)
NeedReach(S) == LET S2 == S \cup UNION {NeedDeps(t) : t \in S} IN IF S2 = S THEN S ELSE NeedReach(S2)
DemandedOnly == \A t \in Thunks : evals[t] > 0 => t \in NeedReach(roots)

\* C10: the counter equals the number of open frames on the stack, never negative, zero at the end
OpenFrames == Cardinality({i \in 1..Len(stack) : stack[i][1] = "frame"})
FramesBalanced == /\ frames = OpenFrames
                  /\ (mode = "idle" => frames = 0)
\* C10: the limit is never exceeded at a step boundary
WithinLimit == mode = "run" => frames <= limit

\* C10/C11: the outcome of a finished request is the outcome on a fresh state -
\* a function of (program, root, limit) alone, whatever happened before.
\* (With RestoreOnFail = FALSE this is violated: a thunk left in progress by a failed
\*  request makes a later request report infinite recursion.)
HistoryIndependent ==
  outcome # <<>> =>
    LET f == Fresh(outcome[1], outcome[2]) IN
    \* memoised results of earlier requests can only remove frames, so an earlier
    \* success may turn an overflow into the value - never anything else
    \/ outcome[3] = f
    \/ (f = "overflow" /\ outcome[3] \in {"ok", "err", "infrec"} /\ Fresh(outcome[1], 1000) = outcome[3])

\* C03: a collection never takes away what a step needs (the guards `\in alive` above never block)
CollectInvisible == mode = "run" /\ stack # <<>> /\ Top[1] \in {"do", "want"} => Top[2] \in alive

Inv == TypeOK /\ EvalOnce /\ DemandedOnly /\ FramesBalanced /\ WithinLimit /\ CollectInvisible /\ HistoryIndependent
=============================================================================
