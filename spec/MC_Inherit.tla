----------------------------- MODULE MC_Inherit -----------------------------
(***************************************************************************)
(* C07: object inheritance is associative, late-bound and visibility-      *)
(* preserving.  TLC enumerates triples (A, B, C) of object expressions,     *)
(* checks the algebra on the reference semantics (Sem) and emits, for each  *)
(* triple, both bracketings with their expected manifestation and           *)
(* reflection results.                                                      *)
(***************************************************************************)
EXTENDS Sem, Pretty, Json, Randomization

CONSTANTS Pool,     \* "small" | "large"
          Mode,     \* "triples" | "identity" | "remove" | "chains4"
          Sample, Fuel

VARIABLE c

N(n) == <<"num", n>>
V(x) == <<"var", x>>
S(cps) == <<"str", cps>>
Bin(o, a, b) == <<"bin", o, a, b>>
Plus(a, b) == Bin("+", a, b)
ArrE(es) == <<"arr", es>>
Idx(e, i) == <<"index", e, i>>
Dot(e, x) == <<"field", e, x>>
ObjE(ms) == <<"obj", ms>>
Fd(x, vis, e) == <<"fld", <<"id", x>>, vis, FALSE, e>>
FdP(x, vis, e) == <<"fld", <<"id", x>>, vis, TRUE, e>>
FdC(ne, vis, e) == <<"fld", <<"expr", ne>>, vis, FALSE, e>>
OLoc(x, e) == <<"olocal", x, e>>
OAs(a, m) == <<"oassert", a, m>>
Self == <<"self">>
Std(f, as) == <<"std", f, as>>
Fn(ps, b) == <<"func", ps, b>>
Pm(x) == <<x, <<"nodef">>>>
SupF(x) == <<"superf", x>>
KA == S(<<97>>)
KB == S(<<98>>)
KC == S(<<99>>)

\* Object expressions. Fields over the names a, b, c.
SmallPool == {
  ObjE(<<>>),
  ObjE(<<Fd("a", "d", N(1))>>),
  ObjE(<<Fd("a", "h", N(2))>>),
  ObjE(<<Fd("a", "v", N(3))>>),
  ObjE(<<FdP("a", "d", N(10))>>),
  ObjE(<<FdP("a", "h", N(20))>>),
  ObjE(<<Fd("a", "d", Plus(SupF("a"), N(100)))>>),
  ObjE(<<Fd("b", "d", Dot(Self, "a"))>>),
  ObjE(<<Fd("b", "h", Plus(Dot(Self, "a"), N(1)))>>),
  ObjE(<<Fd("c", "d", <<"insuper", KA>>)>>),
  ObjE(<<Fd("c", "d", <<"superi", KB>>)>>),
  ObjE(<<Fd("a", "d", N(1)), Fd("b", "d", Dot(Self, "a")), Fd("c", "h", Dot(Self, "b"))>>),
  ObjE(<<OLoc("l", Dot(Self, "a")), Fd("b", "d", V("l"))>>),
  ObjE(<<Fd("a", "d", N(5)), OAs(Bin(">", Dot(Self, "a"), N(4)), <<"none">>)>>),
  ObjE(<<FdC(KA, "d", N(7))>>),
  ObjE(<<FdC(<<"null">>, "d", N(7)), Fd("b", "d", N(8))>>),
  <<"objcomp", V("k"), Plus(V("k"), Std("toString", <<Dot(Self, "a")>>)), <<>>,
    << <<"for", "k", ArrE(<<KB, KC>>)>> >> >>,
  Std("objectRemoveKey", <<ObjE(<<Fd("a", "d", N(1)), Fd("b", "h", N(2)), Fd("c", "d", N(3))>>), KA>>),
  Std("objectRemoveKey", <<ObjE(<<Fd("a", "d", N(1)), Fd("b", "d", Dot(Self, "a"))>>), KB>>),
  ObjE(<<OAs(Bin(">", Dot(Self, "a"), N(2)), <<"none">>)>>),                       \* assert-only object (no fields)
  ObjE(<<OLoc("l", N(1))>>),                                                           \* local-only object
  <<"objcomp", V("k"), Plus(SupF("a"), N(1)), <<>>, << <<"for", "k", ArrE(<<KA, KB>>)>> >> >>,   \* comprehension reading super
  <<"objcomp", V("k"), V("l"), <<OLoc("l", <<"insuper", KA>>)>>, << <<"for", "k", ArrE(<<KC>>)>> >> >>,  \* ... with an object local
  Std("objectRemoveKey", <<ObjE(<<Fd("a", "h", N(1)), Fd("b", "v", N(2)), Fd("c", "d", N(3))>>), KA>>),
  Std("objectRemoveKey", <<ObjE(<<Fd("a", "v", N(1)), Fd("b", "h", N(2))>>), KB>>),
  Std("mergePatch", <<ObjE(<<Fd("a", "d", N(1)), Fd("b", "d", ObjE(<<Fd("c", "d", N(2))>>))>>),
                      ObjE(<<Fd("a", "d", <<"null">>), Fd("b", "d", ObjE(<<Fd("a", "d", N(3))>>))>>)>>),
  Std("prune", <<ObjE(<<Fd("a", "d", <<"null">>), Fd("b", "d", ArrE(<<>>)), Fd("c", "d", N(4))>>)>>),
  Std("mapWithKey", <<Fn(<<Pm("k"), Pm("v")>>, Plus(V("k"), Std("toString", <<V("v")>>))),
                      ObjE(<<Fd("a", "d", N(1)), Fd("b", "h", N(2)), Fd("c", "d", N(3))>>)>>)
}

LargePool == SmallPool \cup {
  ObjE(<<Fd("a", "v", Plus(SupF("a"), N(1)))>>),
  ObjE(<<FdP("a", "v", N(30))>>),
  ObjE(<<FdP("b", "d", ArrE(<<N(1)>>))>>),
  ObjE(<<Fd("b", "d", ArrE(<<N(0)>>))>>),
  ObjE(<<Fd("b", "v", N(2))>>),
  ObjE(<<Fd("b", "h", N(2))>>),
  ObjE(<<Fd("c", "d", <<"insuper", KC>>), Fd("a", "d", N(0))>>),
  ObjE(<<Fd("c", "d", SupF("c"))>>),
  ObjE(<<Fd("a", "d", ObjE(<<Fd("b", "d", Dot(<<"dollar">>, "c"))>>)), Fd("c", "d", N(9))>>),
  ObjE(<<Fd("c", "d", N(1)), OAs(Bin("==", Dot(Self, "c"), N(1)), S(<<109>>))>>),
  ObjE(<<Fd("c", "d", Std("objectFields", <<Self>>))>>),
  ObjE(<<Fd("c", "h", Std("length", <<Self>>))>>),
  ObjE(<<Fd("a", "d", <<"error", S(<<69>>)>>)>>),
  ObjE(<<Fd("a", "h", <<"error", S(<<69>>)>>), Fd("b", "d", N(1))>>),
  ObjE(<<OLoc("l", SupF("a")), Fd("a", "d", Plus(V("l"), N(1)))>>),
  ObjE(<<FdC(Plus(KA, S(<<>>)), "h", N(4))>>),
  <<"objcomp", V("k"), SupF("a"), <<>>, << <<"for", "k", ArrE(<<KB>>)>> >> >>,
  Std("objectRemoveKey", <<ObjE(<<Fd("a", "d", N(1)), Fd("b", "d", N(2))>>), KC>>),
  Std("objectRemoveKey", <<Plus(ObjE(<<Fd("a", "d", N(1)), Fd("b", "d", N(2))>>), ObjE(<<FdP("a", "h", N(5))>>)), KA>>),
  Std("mergePatch", <<ObjE(<<Fd("a", "d", N(1))>>), ObjE(<<Fd("b", "d", ObjE(<<Fd("c", "d", <<"null">>)>>))>>)>>),
  Std("prune", <<ObjE(<<Fd("a", "d", ObjE(<<Fd("b", "d", <<"null">>)>>)), Fd("c", "d", ArrE(<<<<"null">>, N(1)>>))>>)>>),
  Std("mapWithKey", <<Fn(<<Pm("k"), Pm("v")>>, V("v")), ObjE(<<Fd("a", "d", N(1))>>)>>)
}

O == IF Pool = "small" THEN SmallPool ELSE LargePool
SharedModes == {"shared", "sharedA", "sharedB"}

\* Observations on an object expression bound to `o`
Reflect == ObjE(<<
  Fd("l", "d", Std("length", <<V("o")>>)),
  Fd("f", "d", Std("objectFields", <<V("o")>>)),
  Fd("g", "d", Std("objectFieldsAll", <<V("o")>>)),
  Fd("i", "d", ArrE(<<Bin("in", KA, V("o")), Bin("in", KB, V("o")), Bin("in", KC, V("o"))>>)),
  Fd("h", "d", ArrE(<<Std("objectHas", <<V("o"), KA>>), Std("objectHas", <<V("o"), KB>>), Std("objectHas", <<V("o"), KC>>)>>)),
  Fd("j", "d", ArrE(<<Std("objectHasAll", <<V("o"), KA>>), Std("objectHasAll", <<V("o"), KB>>), Std("objectHasAll", <<V("o"), KC>>)>>))
>>)
WithO(obj, body) == <<"local", <<<<"o", obj>>>>, body>>

Universe ==
  CASE Mode = "triples" -> O \X O \X O
    [] Mode = "identity" -> {<<a>> : a \in LargePool}
    [] Mode = "remove" -> (LargePool \X {KA, KB, KC})
    [] Mode = "chains4" -> O \X O \X O \X O
    [] Mode \in SharedModes -> O \X O \X O

BracketsOf(t) ==
  CASE Mode = "triples" -> <<Plus(Plus(t[1], t[2]), t[3]), Plus(t[1], Plus(t[2], t[3]))>>
    [] Mode = "identity" -> <<t[1], Plus(ObjE(<<>>), t[1]), Plus(t[1], ObjE(<<>>))>>
    [] Mode = "remove" -> <<Std("objectRemoveKey", <<t[1], t[2]>>), t[1]>>
    \* sharedA / sharedB: only ONE of the two bracketings after p, q, r have been used, so that a fault of
    \* one bracketing is not masked by the other one failing the same way later in the array
    [] Mode = "sharedA" ->
         << <<"local", << <<"p", t[1]>>, <<"q", Plus(V("p"), t[2])>>, <<"r", t[3]>> >>,
              ArrE(<<V("p"), V("q"), V("r"), Plus(V("q"), V("r"))>>)>> >>
    [] Mode = "sharedB" ->
         << <<"local", << <<"p", t[1]>>, <<"u", t[2]>>, <<"r", t[3]>> >>,
              ArrE(<<V("p"), V("u"), V("r"), Plus(V("p"), Plus(V("u"), V("r"))), Plus(Plus(V("p"), V("u")), V("r"))>>)>> >>
    [] Mode = "shared" ->
         \* the same object VALUE is used (forced) before it is extended: a, then a + B, then (a + B) + C,
         \* then the other bracketing, then a again - a cached per-object environment, assertion flag or field
         \* thunk that survives extension shows up as a wrong element
         << <<"local", << <<"p", t[1]>>, <<"q", Plus(V("p"), t[2])>>, <<"r", t[3]>> >>,
              ArrE(<<V("p"), V("q"), V("r"), Plus(V("q"), V("r")), Plus(V("p"), Plus(t[2], V("r"))), V("p"), V("q"),
                     \* removal from objects whose fields have already been looked into
                     Std("objectRemoveKey", <<V("p"), KA>>), Plus(Std("objectRemoveKey", <<V("q"), KA>>), V("r")),
                     Std("objectRemoveKey", <<V("q"), KB>>)>>)>> >>
    [] Mode = "chains4" -> <<Plus(Plus(Plus(t[1], t[2]), t[3]), t[4]), Plus(t[1], Plus(t[2], Plus(t[3], t[4]))),
                             Plus(Plus(t[1], t[2]), Plus(t[3], t[4])), Plus(t[1], Plus(Plus(t[2], t[3]), t[4])),
                             Plus(Plus(t[1], Plus(t[2], t[3])), t[4])>>

\* Reflection results computed directly on the specification's object value (the
\* implementation runs the Jsonnet program `Reflect`).
JStrs(ss) == [t |-> "arr", a |-> [i \in 1..Len(ss) |-> [t |-> "str", c |-> ss[i]]]]
JBools(bs) == [t |-> "arr", a |-> [i \in 1..Len(bs) |-> [t |-> "bool", b |-> bs[i]]]]
JF(k, v) == [k |-> <<k>>, h |-> FALSE, v |-> v]
RefOf(o) ==
  Bind(Eval(o, <<>>, NoSc, Fuel), LAMBDA v :
    IF v[1] # "obj" THEN RtErr
    ELSE LET vis == VisibleNames(v[2])  all == AllNames(v[2])
             nm == <<<<97>>, <<98>>, <<99>>>> IN
         Ok([t |-> "obj", f |-> <<
               JF(102, JStrs(SortCps(vis))),
               JF(103, JStrs(SortCps(all))),
               JF(104, JBools([n \in 1..3 |-> nm[n] \in vis])),
               JF(105, JBools([n \in 1..3 |-> nm[n] \in all])),
               JF(106, JBools([n \in 1..3 |-> nm[n] \in all])),
               JF(108, [t |-> "num", s |-> 1, m |-> Cardinality(vis), e |-> 0]) >>]))

Mk(t) == LET bs == BracketsOf(t) IN
         [t |-> t, bs |-> bs,
          man |-> [i \in 1..Len(bs) |-> Run(bs[i], Fuel)],
          ref |-> [i \in 1..Len(bs) |-> IF Mode \in SharedModes THEN Outside ELSE RefOf(bs[i])]]

Init == \E t \in (IF Sample = 0 \/ Cardinality(Universe) <= Sample THEN Universe ELSE RandomSubset(Sample, Universe)) :
          c = Mk(t)
Next == UNCHANGED c

Brackets == c.bs
NB == IF Mode = "remove" THEN 1 ELSE Len(Brackets)   \* in "remove" mode bracket 2 is the original object
Man(i) == c.man[i]
Ref(i) == c.ref[i]

\* --- laws on the specification ---------------------------------------------
\* all bracketings have the same manifestation and the same reflection
LawBracket == \A i \in 1..NB : Man(i) = Man(1) /\ Ref(i) = Ref(1)

\* manifestation, length, in, objectHas(All), objectFields(All) agree on which fields exist
KeysOfJson(j) == [i \in 1..Len(j.f) |-> j.f[i].k]
FieldOfJson(j, k) == j.f[CHOOSE i \in 1..Len(j.f) : j.f[i].k = <<k>>].v
StrsOf(a) == [i \in 1..Len(a.a) |-> a.a[i].c]
LawReflect ==
  \A i \in 1..Len(Brackets) :
    LET r == Ref(i) IN
    (Mode \notin SharedModes /\ r[1] = "ok") =>
      LET f == StrsOf(FieldOfJson(r[2], 102))   \* f: objectFields
          g == StrsOf(FieldOfJson(r[2], 103))   \* g: objectFieldsAll
          l == FieldOfJson(r[2], 108)
          inn == FieldOfJson(r[2], 105).a
          has == FieldOfJson(r[2], 104).a
          hasall == FieldOfJson(r[2], 106).a
          names == <<<<97>>, <<98>>, <<99>>>> IN
      /\ l.m = Len(f)
      /\ Range(f) \subseteq Range(g)
      /\ \A n \in 1..3 : /\ has[n].b = (names[n] \in Range(f))
                         /\ hasall[n].b = (names[n] \in Range(g))
                         /\ inn[n].b = hasall[n].b
      /\ LET m == Man(i) IN (m[1] = "ok" /\ m[2].t = "obj") => KeysOfJson(m[2]) = f

\* objectRemoveKey removes exactly the named field and keeps the visibility of the others
LawRemove ==
  Mode = "remove" =>
    LET before == Ref(2)  after == Ref(1) IN
    (before[1] = "ok" /\ after[1] = "ok") =>
      LET fb == StrsOf(FieldOfJson(before[2], 102))  gb == StrsOf(FieldOfJson(before[2], 103))
          fa == StrsOf(FieldOfJson(after[2], 102))   ga == StrsOf(FieldOfJson(after[2], 103)) IN
      /\ Range(fa) = Range(fb) \ {c.t[2][2]}
      /\ Range(ga) = Range(gb) \ {c.t[2][2]}

Laws == LawBracket /\ LawReflect /\ LawRemove

Emit == PrintT(<<"CASE", ToJson([srcs |-> [i \in 1..NB |-> P(Brackets[i])],
                                refs |-> [i \in 1..NB |-> P(WithO(Brackets[i], Reflect))],
                                man |-> Man(1), ref |-> Ref(1)])>>)
=============================================================================
