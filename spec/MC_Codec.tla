----------------------------- MODULE MC_Codec -----------------------------
(* Universes, laws and case emission for C20.  A TLC run covers the set of   *)
(* universes named by the constant Modes; every state with ph = 1 is one     *)
(* case: md names its universe, c is the case (or the symbol indices of its  *)
(* input).                                                                   *)
EXTENDS Codec, Json

CONSTANTS Modes,     \* which universes
          Big        \* FALSE: quick bounds, TRUE: thorough bounds
VARIABLES md, c, ph

SeqsUpTo(S, n) == UNION {[1..k -> S] : k \in 0..n}
Ins(s, i, x) == SubSeq(s, 1, i) \o x \o SubSeq(s, i + 1, Len(s))       \* insert the sequence x after position i
Del(s, i) == SubSeq(s, 1, i - 1) \o SubSeq(s, i + 1, Len(s))
Repl(s, i, x) == SubSeq(s, 1, i - 1) \o x \o SubSeq(s, i + 1, Len(s))

(***************************************************************************)
(* radix: digit strings over {0 1 7 9 f F}, a non-digit at every position   *)
(***************************************************************************)
Digs == {48, 49, 55, 57, 102, 70}
NonDigs == {233, 119070, 103}                       \* e-acute (2 bytes), g-clef (4 bytes), g
OtherNon == {32, 45, 43, 46, 95, 120, 56, 1633, 65297, 0, 10, 8364}
              \* space - + . _ x 8 arabic-indic one, fullwidth one, NUL, LF, euro (3 bytes)
MaxRep == IF Big THEN 100 ELSE 48
RadixPlain ==
  SeqsUpTo(Digs, IF Big THEN 5 ELSE 4)
  \cup {Rep(d, n) : d \in Digs, n \in 1..MaxRep}
  \cup {<<49>> \o Rep(48, n) : n \in 0..MaxRep}
  \cup {Rep(48, z) \o b \o Rep(48, t) : z \in {0, 1, 3}, b \in SeqsUpTo(Digs, 2) \ {<<>>}, t \in {0, 1, 2, 5, 13, 30, 37}}
  \cup {[i \in 1..n |-> IF i % 2 = 1 THEN a ELSE b] : a \in Digs, b \in Digs, n \in {8, 16, 31, 32, 33, 40, 43}}
  \cup {Rep(d, n) : d \in {49, 55, 57, 102}, n \in {100, 200, 255, 256, 257, 300, 307, 308, 309, 310, 311, 340, 341, 342, 343, 344, 400}}
  \cup {<<a, b>> \o Rep(d, n) : a \in {49, 50}, b \in {48, 54, 55, 56}, d \in {48, 55}, n \in {306, 307, 308, 339, 340, 341}}
  \cup {Rep(102, n) \o <<d>> \o Rep(48, 255 - n) : n \in {12, 13, 14}, d \in {48, 101, 102}}
  \* long runs of LEADING zeros before the significant digits (leading zeros never change the value)
  \cup {Rep(48, z) \o b : z \in {10, 20, 30, 31, 32, 33, 39, 40, 41, 42, 43, 47, 48, 64, 130},
                           b \in (SeqsUpTo(Digs, 2) \ {<<>>}) \cup {<<55, 55, 55>>, <<49, 48>>, <<102, 102, 102>>}}
RadixBroken ==
  UNION {{Ins(Rep(49, n), i, <<x>>) : i \in 0..n, x \in NonDigs} : n \in 0..MaxRep}
  \cup UNION {{Ins(Rep(48, n), i, <<x>>) : i \in 0..n, x \in NonDigs} : n \in 0..(IF Big THEN 48 ELSE 6)}
  \cup UNION {{Ins(Rep(d, n), i, <<x>>) : i \in 0..n, x \in OtherNon, d \in {48, 49, 102}} : n \in 0..(IF Big THEN 8 ELSE 3)}
  \cup {Ins(Rep(49, n), i, <<x>>) : n \in {300, 400}, i \in {0, 1, 31, 32, 41, 42, 150, 299, 300}, x \in NonDigs}
RadixSigned == {<<45>> \o s : s \in SeqsUpTo(Digs, 3) \cup {Rep(d, n) : d \in {48, 49, 57}, n \in {10, 16, 17, 20, 40, 309, 310}}
                                 \cup {<<45, 49>>, <<49, 45>>, <<43, 49>>, <<32, 49>>, <<49, 32>>}}
RadixStrings == RadixPlain \cup RadixBroken \cup RadixSigned
RadixU == {[fn |-> f, in |-> s] : f \in {"parseInt", "parseOctal", "parseHex"}, s \in RadixStrings}
RadixExp(x) == CASE x.fn = "parseInt" -> ParseInt(x.in) [] x.fn = "parseOctal" -> ParseOctal(x.in)
                 [] x.fn = "parseHex" -> ParseHex(x.in)
RadixLaw(x) == LawRadix(CASE x.fn = "parseInt" -> 10 [] x.fn = "parseOctal" -> 8 [] x.fn = "parseHex" -> 16, x.in)

(***************************************************************************)
(* json: ALL strings of JMin..JMax symbols over the JSON alphabet            *)
(*   { } [ ] : , " a \ u 0 1 - . e space   (+ the atoms true false null)     *)
(* "json":   all strings of <= JMax symbols, and all strings of <= J16Max    *)
(*           symbols that contain no atom                                    *)
(* "json16": all strings of exactly J16Len symbols that contain no atom      *)
(***************************************************************************)
CONSTANTS JMax,      \* "json": all strings of 0..JMax symbols over all 19 symbols and
          J16Max,    \*         all strings of 0..J16Max symbols over the first 16 symbols (no atoms)
          J16Len,    \* "json16": all strings of exactly J16Len symbols over the first 16 symbols
          YMin, YMax, \* "yamltok": all strings of YMin..YMax YAML tokens, over all tokens up to length YAll
          YAll        \*            and over the tokens YCore beyond
JsonSyms == <<<<123>>, <<125>>, <<91>>, <<93>>, <<58>>, <<44>>, <<34>>, <<97>>, <<92>>, <<117>>,
              <<48>>, <<49>>, <<45>>, <<46>>, <<101>>, <<32>>, LitTrue, LitFalse, LitNull>>
JsonOf(f) == Cat([i \in 1..Len(f) |-> JsonSyms[f[i]]])

(***************************************************************************)
(* jsonmut: structured documents and every single-token mutation of them    *)
(***************************************************************************)
\* ---- generated by lib/c20_util.py (JTok) ----
LB == <<123>>    \* {
RB == <<125>>    \* }
LS == <<91>>    \* [
RS == <<93>>    \* ]
CL == <<58>>    \* :
CM == <<44>>    \* ,
SP == <<32>>    \* ␣
TAB == <<9>>    \* \u0009
LF == <<10>>    \* \u000a
CR == <<13>>    \* \u000d
FF == <<12>>    \* \u000c
NBSP == <<160>>    \* \u00a0
BOM == <<65279>>    \* \ufeff
KA == <<34, 97, 34>>    \* "a"
KB == <<34, 98, 34>>    \* "b"
KAU == <<34, 92, 117, 48, 48, 54, 49, 34>>    \* "\u0061"
KE == <<34, 34>>    \* ""
N0 == <<48>>    \* 0
N1 == <<49>>    \* 1
NM15 == <<45, 49, 46, 53, 101, 49>>    \* -1.5e1
NM0 == <<45, 48>>    \* -0
NE == <<49, 69, 43, 49>>    \* 1E+1
NH == <<48, 46, 53>>    \* 0.5
NT == <<49, 101, 45, 49>>    \* 1e-1
N10 == <<49, 48>>    \* 10
TT == <<116, 114, 117, 101>>    \* true
FF_ == <<102, 97, 108, 115, 101>>    \* false
NL == <<110, 117, 108, 108>>    \* null
SESC == <<34, 97, 92, 110, 92, 34, 92, 92, 92, 47, 92, 98, 92, 102, 92, 114, 92, 116, 92, 117, 48, 48, 101, 57, 233, 119070, 34>>    \* "a\n\"\\\/\b\f\r\t\u00e9\u00e9\U0001d11e"
X01 == <<48, 49>>    \* 01
XMINUS == <<45>>    \* -
XPLUS1 == <<43, 49>>    \* +1
X1DOT == <<49, 46>>    \* 1.
XDOT1 == <<46, 49>>    \* .1
X1E == <<49, 101>>    \* 1e
X0X1 == <<48, 120, 49>>    \* 0x1
XBIG == <<49, 101, 52, 48, 48>>    \* 1e400
XLONG == <<49, 50, 51, 52, 53, 54, 55, 56, 57, 48, 49, 50, 51, 52, 53, 54, 55, 56, 57, 48, 49, 50, 51, 52, 53, 54, 55, 56, 57, 48>>    \* 123456789012345678901234567890
XTRUE == <<84, 114, 117, 101>>    \* True
XNUL == <<110, 117, 108>>    \* nul
XNAN == <<78, 97, 78>>    \* NaN
XINF == <<45, 73, 110, 102, 105, 110, 105, 116, 121>>    \* -Infinity
XSQ == <<39, 97, 39>>    \* 'a'
XQ == <<34>>    \* "
XBS == <<92>>    \* \
XESC == <<34, 92, 120, 34>>    \* "\x"
XLONE == <<34, 92, 117, 100, 56, 48, 48, 34>>    \* "\ud800"
XLOW == <<34, 92, 117, 100, 99, 48, 48, 34>>    \* "\udc00"
XPAIR == <<34, 92, 117, 100, 56, 51, 52, 92, 117, 100, 100, 49, 101, 34>>    \* "\ud834\udd1e"
XPAIR2 == <<34, 92, 117, 100, 56, 52, 48, 92, 117, 100, 99, 48, 48, 34>>    \* "\ud840\udc00" = U+20000 (first code point beyond plane 1)
XPAIR3 == <<34, 92, 117, 100, 98, 102, 102, 92, 117, 100, 102, 102, 102, 34>>    \* "\udbff\udfff" = U+10FFFF
XPAIR4 == <<34, 92, 117, 68, 56, 55, 69, 92, 117, 68, 67, 48, 48, 34>>    \* "\uD87E\uDC00" = U+2F800 (upper-case hex digits)
XPAIR5 == <<34, 92, 117, 100, 56, 51, 102, 92, 117, 100, 102, 102, 102, 34>>    \* "\ud83f\udfff" = U+1FFFF (last of plane 1)
XREV == <<34, 92, 117, 100, 100, 49, 101, 92, 117, 100, 56, 51, 52, 34>>    \* "\udd1e\ud834"
XU2 == <<34, 92, 117, 49, 50, 34>>    \* "\u12"
XUG == <<34, 92, 117, 48, 48, 103, 103, 34>>    \* "\u00gg"
XCTL == <<34, 31, 34>>    \* "\u001f"
XNLS == <<34, 10, 34>>    \* "\u000a"
XDEL == <<34, 127, 34>>    \* "\u007f"
XC1 == <<34, 133, 34>>    \* "\u0085"
XLS == <<34, 8232, 34>>    \* "\u2028"
XNUL0 == <<34, 0, 34>>    \* "\u0000"
XFFFF == <<34, 65535, 34>>    \* "\uffff"
XCOM == <<47, 42, 42, 47>>    \* /**/
XLC == <<47, 47>>    \* //
XHASH == <<35>>    \* #
XA == <<97>>    \* a
JTok == <<LB, RB, LS, RS, CL, CM, SP, TAB, LF, CR, FF, NBSP, BOM, KA, KB, KAU, KE, N0, N1, NM15, NM0, NE, NH, NT, N10, TT, FF_, NL, SESC, X01, XMINUS, XPLUS1, X1DOT, XDOT1, X1E, X0X1, XBIG, XLONG, XTRUE, XNUL, XNAN, XINF, XSQ, XQ, XBS, XESC, XLONE, XLOW, XPAIR, XPAIR2, XPAIR3, XPAIR4, XPAIR5, XREV, XU2, XUG, XCTL, XNLS, XDEL, XC1, XLS, XNUL0, XFFFF, XCOM, XLC, XHASH, XA>>

JBase == <<
  <<LB, KA, CL, N0, CM, KB, CL, LS, N1, CM, TT, CM, NL, RS, RB>>,          \* {"a":0,"b":[1,true,null]}
  <<LS, KA, CM, LB, KA, CL, LB, RB, RB, CM, LS, RS, CM, NM15, RS>>,        \* ["a",{"a":{}},[],-1.5e1]
  <<LB, KE, CL, KE, CM, KB, CL, FF_, RB>>,                                  \* {"":"","b":false}
  <<LS, N0, CM, NM0, CM, NE, CM, NH, CM, NT, CM, N10, RS>>,                 \* [0,-0,1E+1,0.5,1e-1,10]
  <<LB, KA, CL, LB, KA, CL, N0, CM, KB, CL, N1, RB, CM, KB, CL, LB, KA, CL, N0, RB, RB>>,  \* {"a":{"a":0,"b":1},"b":{"a":0}}
  <<SP, SESC, LF>>,                                                          \* a string with every escape
  <<LB, KB, SP, CL, SP, KA, SP, CM, SP, KA, CL, LS, SP, RS, SP, RB>>        \* { "b" : "a" , "a":[ ] }
>>
JBaseBig == <<
  <<LS, LS, LS, N1, RS, CM, LB, KA, CL, LS, LB, RB, RS, RB, RS, CM, SESC, RS>>,
  <<LB, KAU, CL, N1, CM, KB, CL, XPAIR, RB>>,
  <<LS, XDEL, CM, XLS, CM, XFFFF, CM, XC1, RS>>
>>
Flat(d) == Cat(d)
Mut1(d) ==    \* the document and all its single-token mutations (token sequences)
  {d} \cup {Del(d, i) : i \in 1..Len(d)}
      \cup {Ins(d, i, <<JTok[t]>>) : i \in 0..Len(d), t \in 1..Len(JTok)}
      \cup {Repl(d, i, <<JTok[t]>>) : i \in 1..Len(d), t \in 1..Len(JTok)}
      \cup {Ins(d, i, <<d[i]>>) : i \in 1..Len(d)}                                   \* token doubled
      \cup {Repl(Repl(d, i, <<d[i + 1]>>), i + 1, <<d[i]>>) : i \in 1..(Len(d) - 1)} \* neighbours swapped
SmallTok == {1, 2, 4, 5, 6, 7, 14, 16, 18, 44}
Mut2(d) == UNION {{Ins(e, i, <<JTok[t]>>) : i \in 0..Len(e), t \in SmallTok}
                  : e \in {d} \cup {Del(d, i) : i \in 1..Len(d)} \cup {Ins(d, i, <<JTok[t]>>) : i \in 0..Len(d), t \in SmallTok}}
Bases == IF Big THEN JBase \o JBaseBig ELSE JBase
JsonMutU == {Flat(d) : d \in UNION {Mut1(Bases[b]) : b \in 1..Len(Bases)}}
            \cup (IF Big THEN {Flat(d) : d \in UNION {Mut2(JBase[b]) : b \in {1, 6}}} ELSE {})

(***************************************************************************)
(* jsondeep: nesting                                                         *)
(***************************************************************************)
DeepArr(n, core) == Rep(91, n) \o core \o Rep(93, n)
DeepObj(n, core) == Cat([i \in 1..n |-> <<123, 34, 97, 34, 58>>]) \o core \o Rep(125, n)
DeepMix(n, core) == Cat([i \in 1..n |-> <<91, 123, 34, 97, 34, 58>>]) \o core \o Cat([i \in 1..n |-> <<125, 93>>])
Depths == IF Big THEN {1, 2, 10, 49, 50, 98, 99, 100, 101, 127, 128, 129, 200, 500, 1000}
          ELSE {1, 10, 49, 50, 98, 99, 100, 101, 200}
JsonDeepU == {DeepArr(n, k) : n \in Depths, k \in {<<>>, <<49>>}}
             \cup {DeepObj(n, k) : n \in Depths, k \in {<<49>>, <<>>, <<123, 125>>}}
             \cup {DeepMix(n, <<48>>) : n \in Depths}
             \cup {Rep(91, n) \o Rep(93, n - 1) : n \in Depths}
             \cup {Rep(91, n) \o Rep(93, n + 1) : n \in Depths}

JsonExp(s) == [d |-> JsonDecode(s), yaml |-> YamlClaim(s)]

(***************************************************************************)
(* base64                                                                    *)
(***************************************************************************)
B64Bytes == {0, 1, 127, 128, 255}
Sextet(v, p) == LET n == v * PowN(64, 3 - p) IN <<n \div 65536, (n \div 256) % 256, n % 256>>   \* sextet v at position p
B64EncU == SeqsUpTo(B64Bytes, IF Big THEN 6 ELSE 4)
           \cup {Sextet(v, p) : v \in 0..63, p \in 0..3}
           \cup {<<b>> : b \in 0..255} \cup {<<0, b>> : b \in 0..255}
           \cup {Rep(b, n) : b \in {0, 77, 255}, n \in {5, 6, 7, 30, 31, 32, 33, 57, 58, 76, 77}}
\* strings given to std.base64: code points, some above 255
B64StrU == SeqsUpTo({0, 65, 127, 128, 255, 256, 8364, 119070}, IF Big THEN 4 ELSE 3)
B64Text == {65, 66, 81, 47, 61, 45}                        \* A B Q / = -
B64Other == {43, 95, 32, 10, 233, 65313, 0, 64, 91, 96, 123, 58}   \* + _ space LF e-acute fullwidth-A NUL @ [ ` { :
B64Quad == [1..4 -> B64Text]
B64DecU == SeqsUpTo(B64Text, IF Big THEN 5 ELSE 4)
           \cup {<<81, 85, 74, 68>> \o q : q \in B64Quad}                       \* a final quad after "QUJD"
           \cup {q \o <<81, 85, 74, 68>> : q \in B64Quad}                       \* a non-final quad
           \cup {Repl(<<81, 85, 74, 68, 82, 69, 86, 71>>, i, <<x>>) : i \in 1..8, x \in B64Other \cup B64Text}
           \cup {Ins(<<81, 85, 74, 68>>, i, <<x>>) : i \in 0..4, x \in B64Other}
           \* characters beyond U+00FF whose LOW BYTE is an alphabet character (A a 0 + / = D): never base64
           \cup {Repl(<<81, 85, 74, 68>>, i, <<x>>) : i \in 1..4, x \in {321, 353, 304, 299, 303, 317, 324, 8751, 128577}}
           \* non-ASCII characters whose UTF-8 length makes the BYTE length a multiple of four
           \* (the character count is not): 2+2, 1+1+2, 4, 3+1 bytes, alone and after a good quad
           \cup {pre \o x : pre \in {<<>>, <<81, 85, 74, 68>>},
                             x \in {<<233, 233>>, <<65, 65, 233>>, <<233, 65, 65>>, <<65, 233, 65>>, <<128526>>,
                                    <<8364, 65>>, <<65, 8364>>, <<119070>>, <<233, 61, 61>>, <<65, 233, 61>>}}
           \cup {<<B64Char(v), B64Char(w), 61, 61>> : v \in {0, 63}, w \in 0..63}    \* every pad-bit pattern
           \cup {<<65, B64Char(v), B64Char(w), 61>> : v \in {0, 63}, w \in 0..63}
           \cup {<<B64Char(v), B64Char(v), B64Char(v), B64Char(v)>> : v \in 0..63}
           \cup {Base64(b) : b \in B64EncU}                                       \* every encoder image
B64NotBytes == {<<256>>, <<-1>>, <<0, 256>>, <<0, 0, 0, -1>>, <<1000000>>, <<65, 66, 67, 300>>}   \* std.base64 must refuse
B64Exp(x) == CASE x.fn = "base64" -> IF \A i \in 1..Len(x.in) : x.in[i] >= 0 /\ x.in[i] <= 255
                                     THEN [r |-> "ok", v |-> Base64(x.in)] ELSE [r |-> "err"]
               [] x.fn = "base64str" -> Base64Str(x.in)
               [] x.fn = "base64DecodeBytes" -> Base64DecodeBytes(x.in)
               [] x.fn = "base64Decode" -> Base64Decode(x.in)
B64U == {[fn |-> "base64", in |-> b] : b \in B64EncU \cup B64NotBytes}
        \cup {[fn |-> "base64str", in |-> s] : s \in B64StrU}
        \cup {[fn |-> f, in |-> s] : f \in {"base64DecodeBytes", "base64Decode"}, s \in B64DecU}
B64Law(x) == /\ (x.in = <<>> => LawBase64Alphabet)
             /\ (x.fn = "base64" /\ B64Exp(x).r = "ok" => LawBase64(x.in))
             /\ (x.fn = "base64str" /\ Base64Str(x.in).r = "ok" => LawBase64(x.in))
             /\ (x.fn \in {"base64DecodeBytes", "base64Decode"} => LawBase64Text(x.in))

(***************************************************************************)
(* utf8                                                                      *)
(***************************************************************************)
Utf8Cps == {0, 65, 127, 128, 233, 2047, 2048, 8364, 55295, 57344, 65533, 65535, 65536, 119070, 1114111}
Utf8EncU == SeqsUpTo(Utf8Cps, IF Big THEN 3 ELSE 2)
\* one representative per byte class of table 3-7 (and its neighbours)
ByteClasses == {0, 65, 127, 128, 143, 144, 159, 160, 191, 192, 193, 194, 223, 224, 225, 236, 237, 238, 239,
                240, 241, 243, 244, 245, 247, 248, 255}
Trunc(cp, k) == LET e == EncodeCp(cp) IN SubSeq(e, 1, IF k < Len(e) THEN k ELSE Len(e) - 1)   \* a truncated encoding
ByteClassesSmall == {65, 128, 143, 144, 159, 160, 191, 193, 194, 224, 237, 239, 240, 244, 245}
Utf8DecU == (IF Big THEN SeqsUpTo(ByteClasses, 3) \cup [1..4 -> ByteClassesSmall]
             ELSE SeqsUpTo(ByteClasses, 2) \cup [1..3 -> ByteClassesSmall])
            \cup {EncodeCp(cp) \o t : cp \in Utf8Cps, t \in {<<>>, <<128>>, <<65>>, <<240>>}}
            \cup {Trunc(cp, k) \o t : cp \in {233, 8364, 119070, 1114111, 65536}, k \in 1..3, t \in {<<>>, <<65>>, <<233>>, <<240, 159>>}}
            \cup {<<240, 159, 152, 128, 240, 159, 152>>, <<237, 160, 128>>, <<237, 176, 128>>, <<244, 144, 128, 128>>,
                  <<224, 128, 128>>, <<240, 128, 128, 128>>, <<192, 128>>, <<193, 191>>, <<239, 191, 189>>,
                  <<248, 136, 128, 128, 128>>, <<252, 132, 128, 128, 128, 128>>, <<239, 187, 191, 65>>}
\* items that are not bytes: std.decodeUTF8 must refuse them
Utf8BadItems == {<<256>>, <<-1>>, <<65, 256>>, <<65, -1, 66>>, <<1000000>>}
Utf8U == {[fn |-> "encodeUTF8", in |-> s] : s \in Utf8EncU}
         \cup {[fn |-> "decodeUTF8", in |-> b] : b \in Utf8DecU \cup Utf8BadItems}
IsBytes(b) == \A i \in 1..Len(b) : b[i] >= 0 /\ b[i] <= 255
Utf8Exp(x) == IF x.fn = "encodeUTF8" THEN [r |-> "ok", v |-> EncodeUTF8(x.in)]
              ELSE IF IsBytes(x.in) THEN [r |-> "ok", v |-> DecodeUTF8(x.in)] ELSE [r |-> "err"]
Utf8Law(x) == IF x.fn = "encodeUTF8" THEN LawUtf8Str(x.in) ELSE (IsBytes(x.in) => LawUtf8Bytes(x.in))

(***************************************************************************)
(* escape: every code point 0..0xA0 and a few beyond, and short strings      *)
(***************************************************************************)
EscCps == (0..160) \cup {8232, 55295, 57344, 65535, 128512}
EscMix == {34, 92, 39, 36, 60, 62, 38, 97, 10, 26, 127, 233, 59}
EscMixSmall == {34, 92, 39, 36, 60, 38, 97, 31}
EscStrings == {<<cp>> : cp \in EscCps} \cup (IF Big THEN SeqsUpTo(EscMix, 3) \cup [1..4 -> EscMixSmall] ELSE SeqsUpTo(EscMix, 2) \cup [1..3 -> EscMixSmall])
              \cup {<<38, 108, 116, 59>>, <<36, 36, 36>>, <<39, 34, 39, 34, 39>>, <<92, 117, 48, 48, 50, 50>>}
EscFns == {"escapeStringJson", "escapeStringPython", "escapeStringBash", "escapeStringDollars", "escapeStringXML"}
EscU == {[fn |-> f, in |-> s] : f \in EscFns, s \in EscStrings}
EscOf(fn, s) == CASE fn = "escapeStringJson" -> EscapeStringJson(s)
                  [] fn = "escapeStringPython" -> EscapeStringPython(s)
                  [] fn = "escapeStringBash" -> EscapeStringBash(s)
                  [] fn = "escapeStringDollars" -> EscapeStringDollars(s)
                  [] fn = "escapeStringXML" -> EscapeStringXML(s)
\* the expected text, and (for diagnostics) the end offset in it of the image of each input character:
\* all five functions are homomorphic up to a constant prefix/suffix
EscExp(x) == [text |-> EscOf(x.fn, x.in),
              ends |-> [i \in 1..Len(x.in) |-> Len(EscOf(x.fn, SubSeq(x.in, 1, i))) - Len(EscOf(x.fn, <<>>)) \div 2]]
EscHomLaw(x) == \A i \in 0..Len(x.in) :          \* image(s) = pre . image(s[1..i]) . image(s[i+1..]) . post
  LET pre == Len(EscOf(x.fn, <<>>)) \div 2
      strip(t) == SubSeq(t, pre + 1, Len(t) - pre)
  IN strip(EscOf(x.fn, x.in)) = strip(EscOf(x.fn, SubSeq(x.in, 1, i))) \o strip(EscOf(x.fn, SubSeq(x.in, i + 1, Len(x.in))))

(***************************************************************************)
(* digest                                                                    *)
(***************************************************************************)
DigestU == {[fn |-> a, row |-> i] : a \in Algs, i \in 1..Len(DigestTable)}

(***************************************************************************)
(* yamltok: YAML-specific token soup (totality of std.parseYaml only)        *)
(***************************************************************************)
\* ---- generated by lib/c20_util.py (YTok) ----
Y_A == <<97>>    \* a
Y_COL == <<58, 32>>    \* :␣
Y_DASH == <<45, 32>>    \* -␣
Y_NL == <<10>>    \* \u000a
Y_IND == <<32, 32>>    \* ␣␣
Y_ANCH == <<38, 120, 32>>    \* &x␣
Y_ALIAS == <<42, 120>>    \* *x
Y_TSTR == <<33, 33, 115, 116, 114, 32>>    \* !!str␣
Y_TLOC == <<33, 116, 32>>    \* !t␣
Y_DOC == <<45, 45, 45, 10>>    \* ---\u000a
Y_END == <<46, 46, 46, 10>>    \* ...\u000a
Y_LS == <<91>>    \* [
Y_RS == <<93>>    \* ]
Y_LB == <<123>>    \* {
Y_RB == <<125>>    \* }
Y_CM == <<44>>    \* ,
Y_DQ == <<34>>    \* "
Y_SQ == <<39>>    \* '
Y_LIT == <<124, 10>>    \* |\u000a
Y_FOLD == <<62, 45, 10>>    \* >-\u000a
Y_Q == <<63, 32>>    \* ?␣
Y_HASH == <<32, 35>>    \* ␣#
Y_MERGE == <<60, 60>>    \* <<
Y_HEX == <<48, 120, 49, 102>>    \* 0x1f
Y_TILDE == <<126>>    \* ~
Y_DIR == <<37, 89, 65, 77, 76, 32, 49, 46, 50, 10>>    \* %YAML␣1.2\u000a
Y_TAB == <<9>>    \* \u0009
Y_E == <<233>>    \* \u00e9
YTok == <<Y_A, Y_COL, Y_DASH, Y_NL, Y_IND, Y_ANCH, Y_ALIAS, Y_TSTR, Y_TLOC, Y_DOC, Y_END, Y_LS, Y_RS, Y_LB, Y_RB, Y_CM, Y_DQ, Y_SQ, Y_LIT, Y_FOLD, Y_Q, Y_HASH, Y_MERGE, Y_HEX, Y_TILDE, Y_DIR, Y_TAB, Y_E>>

YamlOf(f) == Cat([i \in 1..Len(f) |-> YTok[f[i]]])

(***************************************************************************)
(* One case per state.  Set-shaped universes: the initial states are the     *)
(* cases with ph = 0 and one step moves each to ph = 1, where the laws are   *)
(* checked and the case is emitted (TLC computes initial states on one       *)
(* thread but successor states on all workers).  String-shaped universes     *)
(* (json, json16, yamltok) grow symbol by symbol from the empty string.      *)
(* jsonsim / radixsim are random walks (TLC -simulate, seeded) beyond the    *)
(* enumerated bounds.                                                        *)
(***************************************************************************)
Grown == md \in {"json", "json16", "yamltok"}
GrowMax == CASE md = "json" -> (IF JMax > J16Max THEN JMax ELSE J16Max) [] md = "json16" -> J16Len [] md = "yamltok" -> YMax
GrowMin == CASE md = "json" -> 0 [] md = "json16" -> J16Len [] md = "yamltok" -> YMin
YCore == {1, 2, 3, 4, 5, 6, 7, 8, 10, 12, 13, 14, 15, 16, 17, 19, 21, 23, 24, 27}
GrowSyms ==
  CASE md = "json" -> (IF Len(c) < JMax THEN 1..19 ELSE IF \A i \in 1..Len(c) : c[i] <= 16 THEN 1..16 ELSE {})
    [] md = "json16" -> 1..16
    [] md = "yamltok" -> (IF Len(c) < YAll THEN 1..Len(YTok) ELSE IF \A i \in 1..Len(c) : c[i] \in YCore THEN YCore ELSE {})
SimTok == {1, 2, 3, 4, 5, 6, 7, 8, 9, 14, 15, 16, 17, 18, 19, 20, 26, 28, 29, 30, 37, 44, 45, 47, 49, 53, 55}
SimMut(d) == {Del(d, i) : i \in 1..Len(d)}
             \cup (IF Len(d) < 28 THEN {Ins(d, i, <<JTok[t]>>) : i \in 0..Len(d), t \in SimTok} ELSE {})
             \cup {Repl(d, i, <<JTok[t]>>) : i \in 1..Len(d), t \in SimTok}
             \cup (IF Len(d) < 28 THEN {Ins(d, i, SubSeq(d, j, i)) : i \in 1..Len(d), j \in 1..Len(d)} ELSE {})   \* a stretch repeated
RadixSimNext(x) == {[x EXCEPT !.in = Append(x.in, d)] : d \in Digs}
                   \cup (IF \A i \in 1..Len(x.in) : DigitVal(x.in[i]) < 16
                         THEN {[x EXCEPT !.in = Append(x.in, d)] : d \in {233, 119070}} ELSE {})
Init ==
  /\ md \in Modes
  /\ CASE md = "radix" -> c \in RadixU /\ ph = 0
       [] Grown -> c = <<>> /\ ph = 1
       [] md = "jsonmut" -> c \in JsonMutU /\ ph = 0
       [] md = "jsondeep" -> c \in JsonDeepU /\ ph = 0
       [] md = "b64" -> c \in B64U /\ ph = 0
       [] md = "utf8" -> c \in Utf8U /\ ph = 0
       [] md = "escape" -> c \in EscU /\ ph = 0
       [] md = "digest" -> c \in DigestU /\ ph = 0
       [] md = "jsonsim" -> c \in {JBase[b] : b \in 1..Len(JBase)} \cup {JBaseBig[b] : b \in 1..Len(JBaseBig)} /\ ph = 1
       [] md = "radixsim" -> c \in {[fn |-> f, in |-> p] : f \in {"parseInt", "parseOctal", "parseHex"},
                                                          p \in {<<>>, <<48>>, <<49>>, <<45>>}} /\ ph = 1
Next ==
  /\ md' = md
  /\ IF md = "jsonsim" THEN c' \in SimMut(c) /\ ph' = 1
     ELSE IF md = "radixsim" THEN c' \in RadixSimNext(c) /\ ph' = 1
     ELSE IF Grown THEN Len(c) < GrowMax /\ \E k \in GrowSyms : c' = Append(c, k) /\ ph' = 1
     ELSE ph = 0 /\ ph' = 1 /\ c' = c
Live == ph = 1 /\ (Grown => Len(c) >= GrowMin)       \* this state is a case

Case ==
  CASE md \in {"radix", "radixsim"} -> [u |-> md, fn |-> c.fn, in |-> c.in, exp |-> RadixExp(c)]
    [] md = "jsonsim" -> [u |-> md, fn |-> "parseJson", in |-> Flat(c), exp |-> JsonExp(Flat(c))]
    [] md \in {"json", "json16"} -> [u |-> md, fn |-> "parseJson", in |-> JsonOf(c), exp |-> JsonExp(JsonOf(c))]
    [] md \in {"jsonmut", "jsondeep"} -> [u |-> md, fn |-> "parseJson", in |-> c, exp |-> JsonExp(c)]
    [] md = "b64" -> [u |-> md, fn |-> c.fn, in |-> c.in, exp |-> B64Exp(c)]
    [] md = "utf8" -> [u |-> md, fn |-> c.fn, in |-> c.in, exp |-> Utf8Exp(c)]
    [] md = "escape" -> [u |-> md, fn |-> c.fn, in |-> c.in, exp |-> EscExp(c)]
    [] md = "digest" -> [u |-> md, fn |-> c.fn, in |-> DigestTable[c.row].in, exp |-> DigestOf(c.fn, DigestTable[c.row])]
    [] md = "yamltok" -> [u |-> md, fn |-> "parseYaml", in |-> YamlOf(c), exp |-> "total"]

Laws == Live =>
  CASE md \in {"radix", "radixsim"} -> RadixLaw(c)
    [] md = "jsonsim" -> LawJson(Flat(c))
    [] md \in {"json", "json16"} -> LawJson(JsonOf(c))
    [] md = "jsonmut" -> LawJson(c)
    [] md = "jsondeep" -> JsonDecode(<<32>> \o c) = JsonDecode(c)
    [] md = "b64" -> B64Law(c)
    [] md = "utf8" -> Utf8Law(c)
    [] md = "escape" -> LawEscape(c.in) /\ EscHomLaw(c)
    [] md = "digest" -> LawDigestRow(c.row) /\ (c.row = 1 /\ c.fn = "md5" => LawDigestInputs)
    [] md = "yamltok" -> TRUE

Emit == Live => PrintT(<<"CASE", ToJson(Case)>>)
=============================================================================
