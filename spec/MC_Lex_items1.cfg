CONSTANTS
  Mode = "items1"
  Alpha = {0}
  MaxLen = 2
  First = {0}
INIT Init
NEXT Next
INVARIANTS Laws Emit
CHECK_DEADLOCK FALSE
