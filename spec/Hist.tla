-------------------------------- MODULE Hist --------------------------------
(***************************************************************************)
(* C11: a program state's answers do not depend on its past requests.       *)
(* The request layer of Machine.tla (BeginRequest / EndRequest / Fail,      *)
(* invariant HistoryIndependent) lifted to concrete requests: the outcome   *)
(* of a request is a function of (request, frame limit in force) alone.     *)
(*                                                                          *)
(* Requests are symbolic; the check maps them to concrete sources:          *)
(*   <<"eval", i>>   load source i afresh, evaluate and manifest            *)
(*   <<"again", i>>  evaluate the thunk of the latest load of source i again *)
(*   <<"call", i>>   evaluate source i (a function) and call it             *)
(*   <<"callsrc", i> evaluate source i (a function) and call it with the     *)
(*                   thunks of other sources (their latest loads) as arguments *)
(*   <<"gc">>        explicit collection                                    *)
(*   <<"limit", s>>  set_max_stack(s)                                       *)
(***************************************************************************)
EXTENDS Integers, Sequences, FiniteSets, TLC

CONSTANTS Sources,     \* set of source indexes
          CallSources, \* sources that are functions (called with fresh argument code)
          CallSrcSources, \* functions called with the thunks of other sources as arguments
          Limits,      \* frame limits
          MaxLen       \* history length

Requests ==
  {<<"eval", i>> : i \in Sources} \cup {<<"again", i>> : i \in Sources}
  \cup {<<"call", i>> : i \in CallSources} \cup {<<"callsrc", i>> : i \in CallSrcSources} \cup {<<"gc">>} \cup {<<"limit", s>> : s \in Limits}

VARIABLES hist,     \* requests so far
          limit,    \* frame limit in force
          loaded    \* sources loaded so far (an "again" on a source never loaded is an "eval")

vars == <<hist, limit, loaded>>

DefaultLimit == 500

Init == hist = <<>> /\ limit = DefaultLimit /\ loaded = {}

Do(r) ==
  /\ Len(hist) < MaxLen
  /\ hist' = Append(hist, r)
  /\ limit' = IF r[1] = "limit" THEN r[2] ELSE limit
  /\ loaded' = IF r[1] \in {"eval", "again", "call", "callsrc"} THEN loaded \cup {r[2]} ELSE loaded

Next == \E r \in Requests : Do(r)

\* The request that a fresh state must be asked to obtain the reference outcome of r:
\* "again" of a source is, on a fresh state, its first evaluation.
FreshForm(r) == IF r[1] = "again" THEN <<"eval", r[2]>> ELSE r

\* HistoryIndependent, as a predicate on observed outcomes: obs[k] is the outcome observed for
\* hist[k]; base[<<request, limit>>] the outcome on a fresh state.
RECURSIVE LimitAt(_, _)
LimitAt(h, k) == IF k = 0 THEN DefaultLimit
                 ELSE IF h[k][1] = "limit" THEN h[k][2] ELSE LimitAt(h, k - 1)
=============================================================================
