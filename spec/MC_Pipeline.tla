----------------------------- MODULE MC_Pipeline -----------------------------
(***************************************************************************)
(* Input universes for C01.                                                 *)
(*  "bytes"  all byte strings of length <= MaxLen over byte-class            *)
(*           representatives (every lexical class, UTF-8 lead / continuation *)
(*           / invalid bytes)                                                *)
(*  "std1".."std4"  every standard-library function of that arity applied to *)
(*           every tuple of boundary values                                  *)
(*  "mut"    (simulation) sequences of 1..3 mutations of corpus files        *)
(***************************************************************************)
EXTENDS Pipeline, Json, IOUtils, TLCExt

CONSTANTS Uni, MaxLen, Big, NFiles

VARIABLE c
vars2 == <<pvars, c>>

ByteClasses == {97, 48, 49, 95, 46, 101, 43, 45, 42, 47, 124, 58, 61, 60, 36, 34, 39, 64, 92, 117, 10, 32,
                123, 125, 91, 93, 40, 41, 44, 59, 35, 33, 37, 195, 226, 240, 128, 255, 192, 237, 160, 169}
SmallClasses == {97, 49, 95, 46, 101, 45, 42, 47, 124, 58, 36, 34, 39, 64, 92, 10, 123, 125, 91, 40, 44, 195, 128, 255}

Seqs(S, n) == UNION {[1..k -> S] : k \in 0..n}

\* name -> arity of every member of std (frozen; the check cross-checks it against
\* std.objectFieldsAll(std) of the implementation so that a new builtin cannot be missed)
StdTable == [
  __array_greater |-> 2, __array_greater_or_equal |-> 2, __array_less |-> 2, __array_less_or_equal |-> 2,
  __compare |-> 2, __compare_array |-> 2, abs |-> 1, acos |-> 1, all |-> 1, any |-> 1, asciiLower |-> 1,
  asciiUpper |-> 1, asin |-> 1, assertEqual |-> 2, atan |-> 1, atan2 |-> 2, avg |-> 1, base64 |-> 1,
  base64Decode |-> 1, base64DecodeBytes |-> 1, ceil |-> 1, char |-> 1, clamp |-> 3, codepoint |-> 1,
  contains |-> 2, cos |-> 1, count |-> 2, decodeUTF8 |-> 1, deepJoin |-> 1, deg2rad |-> 1, encodeUTF8 |-> 1,
  endsWith |-> 2, equals |-> 2, equalsIgnoreCase |-> 2, escapeStringBash |-> 1, escapeStringDollars |-> 1,
  escapeStringJson |-> 1, escapeStringPython |-> 1, escapeStringXML |-> 1, exp |-> 1, exponent |-> 1,
  extVar |-> 1, filter |-> 2, filterMap |-> 3, find |-> 2, findSubstr |-> 2, flatMap |-> 2, flattenArrays |-> 1,
  flattenDeepArray |-> 1, floor |-> 1, foldl |-> 3, foldr |-> 3, format |-> 2, get |-> 4, hypot |-> 2,
  isArray |-> 1, isBoolean |-> 1, isDecimal |-> 1, isEmpty |-> 1, isEven |-> 1, isFunction |-> 1,
  isInteger |-> 1, isNull |-> 1, isNumber |-> 1, isObject |-> 1, isOdd |-> 1, isString |-> 1, join |-> 2,
  length |-> 1, lines |-> 1, log |-> 1, log10 |-> 1, log2 |-> 1, lstripChars |-> 2, makeArray |-> 2,
  manifestIni |-> 1, manifestJson |-> 1, manifestJsonEx |-> 4, manifestJsonMinified |-> 1, manifestPython |-> 1,
  manifestPythonVars |-> 1, manifestToml |-> 1, manifestTomlEx |-> 2, manifestXmlJsonml |-> 1,
  manifestYamlDoc |-> 3, manifestYamlStream |-> 4, mantissa |-> 1, map |-> 2, mapWithIndex |-> 2,
  mapWithKey |-> 2, max |-> 2, maxArray |-> 3, md5 |-> 1, member |-> 2, mergePatch |-> 2, min |-> 2,
  minArray |-> 3, mod |-> 2, modulo |-> 2, native |-> 1, objectFields |-> 1, objectFieldsAll |-> 1,
  objectFieldsEx |-> 2, objectHas |-> 2, objectHasAll |-> 2, objectHasEx |-> 3, objectKeysValues |-> 1,
  objectKeysValuesAll |-> 1, objectRemoveKey |-> 2, objectValues |-> 1, objectValuesAll |-> 1, parseHex |-> 1,
  parseInt |-> 1, parseJson |-> 1, parseOctal |-> 1, parseYaml |-> 1, pi |-> -1, pow |-> 2,
  primitiveEquals |-> 2, prune |-> 1, rad2deg |-> 1, range |-> 2, remove |-> 2, removeAt |-> 2, repeat |-> 2,
  resolvePath |-> 2, reverse |-> 1, round |-> 1, rstripChars |-> 2, set |-> 2, setDiff |-> 3, setInter |-> 3,
  setMember |-> 3, setUnion |-> 3, sha1 |-> 1, sha256 |-> 1, sha3 |-> 1, sha512 |-> 1, sign |-> 1, sin |-> 1,
  slice |-> 4, sort |-> 2, split |-> 2, splitLimit |-> 3, splitLimitR |-> 3, sqrt |-> 1, startsWith |-> 2,
  strReplace |-> 3, stringChars |-> 1, stripChars |-> 2, substr |-> 3, sum |-> 1, tan |-> 1, thisFile |-> -1,
  toString |-> 1, trace |-> 2, trim |-> 1, type |-> 1, uniq |-> 2, xnor |-> 2, xor |-> 2 ]

Fns(n) == {f \in DOMAIN StdTable : StdTable[f] = n}

\* boundary values, as Jsonnet expressions
U1 == { "null", "true", "false", "0", "-0", "1", "-1", "0.5", "-2", "3", "2147483648", "4294967296",
        "9007199254740991", "9007199254740993", "1.7976931348623157e308", "-1.7976931348623157e308",
        "5e-324", "65535", "65536", "70000", "1e10", "-1e10", "1e20",
        "\"\"", "\"a\"", "std.char(233)", "std.char(119070)", "\"a,b\"", "\"%s\"", "\"%.70000f\"", "\"%*d\"",
        "(std.repeat(\"1\", 31) + std.char(233))", "std.repeat(\"7\", 400)", "\"{\\\"a\\\": [1, 2]}\"", "\"- &a 1\\n- *a\"",
        "[]", "[1]", "[1, [2, [3]]]", "[null]", "[\"a\", \"b\"]", "[1, 2, 3, 2, 1]", "[[1, \"x\"], [0, \"y\"]]", "[0, 255, 128]",
        "{}", "{a: 1}", "{a:: 1, b: 2}", "{a: 1, assert false}", "{a: {b: null}}",
        "(function(x) x)", "(function(x, y) x)", "(function(x) x == x)", "(function(x) error \"e\")", "(function(x, y) x < y)" }
U2 == IF Big THEN U1
      ELSE { "null", "true", "0", "-1", "0.5", "2147483648", "1.7976931348623157e308", "70000", "\"\"", "\"a\"",
             "std.char(119070)", "(std.repeat(\"1\", 31) + std.char(233))", "[]", "[1, [2, [3]]]", "[\"a\", \"b\"]",
             "{}", "{a:: 1, b: 2}", "(function(x) x)", "(function(x, y) x < y)" }
U3 == IF Big THEN { "null", "true", "0", "-1", "0.5", "1e10", "1.7976931348623157e308", "\"\"", "\"a\"", "std.char(119070)",
                    "[]", "[1, 2, 3, 2, 1]", "[\"a\", \"b\"]", "{a: 1}", "(function(x) x)", "(function(x, y) x < y)" }
      ELSE { "null", "-1", "0.5", "1e10", "\"a\"", "std.char(119070)", "[1, 2, 3, 2, 1]", "{a: 1}", "(function(x) x)" }
U4 == IF Big THEN { "null", "true", "-1", "1e10", "\"\"", "\"a\"", "[1, 2]", "{a: 1}", "(function(x) x)" }
      ELSE { "null", "-1", "\"a\"", "[1, 2]", "{a: 1}" }

Universe ==
  CASE Uni = "bytes" -> {[kind |-> "bytes", bytes |-> s] : s \in Seqs(IF Big THEN SmallClasses ELSE ByteClasses, MaxLen)}
    [] Uni = "nest" -> {[kind |-> "nest", shape |-> sh, depth |-> d] :
                          sh \in {"obj", "arr", "paren", "local", "if", "func", "callarg", "unary", "binary", "index",
                                  "objcomp", "arrcomp", "error", "assert", "field", "fieldplus", "textual"},
                          d \in (IF Big THEN {50, 200, 1000, 5000, 30000, 200000} ELSE {200, 3000, 40000})}
    [] Uni = "utf8" ->
         \* every short sequence of structural UTF-8 bytes inside every construct whose body is decoded
         LET UB == {65, 128, 143, 144, 159, 160, 191, 192, 193, 194, 223, 224, 237, 239, 240, 244, 245, 255}
             Bodies == Seqs(UB, 3) \cup {<<a, b, d, e>> : a \in {240, 244}, b \in {128, 143, 144, 191}, d \in {128, 191, 65}, e \in {128, 191}}
                       \cup (IF Big THEN [1..4 -> UB] ELSE {})
             Wrap == { <<<<34>>, <<34>>>>, <<<<39>>, <<39>>>>, <<<<64, 34>>, <<34>>>>, <<<<124, 124, 124, 10, 32>>, <<10, 124, 124, 124>>>>,
                       <<<<49, 47, 47>>, <<>>>>, <<<<49, 47, 42>>, <<42, 47>>>>, <<<<49, 35>>, <<>>>>, <<<<>>, <<>>>> } IN
         {[kind |-> "bytes", bytes |-> w[1] \o b \o w[2]] : w \in Wrap, b \in Bodies}
    [] Uni = "fmt" ->
         {[kind |-> "std", fn |-> "format",
           args |-> <<"\"%" \o fl \o wd \o pr \o cv \o "\"", v>>] :
            fl \in {"", "-", "0", "+", " ", "#"}, wd \in {"", "5", "*"}, pr \in {"", ".", ".0", ".3", ".*"},
            cv \in {"d", "i", "u", "o", "x", "X", "e", "E", "f", "F", "g", "G", "c", "s", "%"},
            v \in {"0", "1", "-1", "0.5", "1e10", "1e-5", "1.7976931348623157e308", "\"a\"", "[1, 2, 3]", "[5, 2, 7]",
                   "null", "{a: 1}"}}
    [] Uni = "std0" -> {[kind |-> "std", fn |-> f, args |-> <<>>] : f \in DOMAIN StdTable}
    [] Uni = "std1" -> {[kind |-> "std", fn |-> f, args |-> <<a>>] : f \in Fns(1), a \in U1}
    [] Uni = "std2" -> {[kind |-> "std", fn |-> f, args |-> <<a, b>>] : f \in Fns(2), a \in U2, b \in U2}
    [] Uni = "std3" -> {[kind |-> "std", fn |-> f, args |-> <<a, b, d>>] : f \in Fns(3), a \in U3, b \in U3, d \in U3}
    [] Uni = "std4" -> {[kind |-> "std", fn |-> f, args |-> <<a, b, d, e>>] : f \in Fns(4), a \in U4, b \in U4, d \in U4, e \in U4}

Init3 == Init /\ (IF Uni = "mut" THEN c = <<>> ELSE c \in Universe)

\* mutations: positions are per-mille of the file length
Ops == {"delete", "insert", "dup", "splice", "truncate", "replace"}
Pos == {0, 1, 2, 50, 100, 250, 333, 500, 666, 750, 900, 990, 998, 999, 1000}
Mut == [op : Ops, file : 0..(NFiles - 1), other : 0..(NFiles - 1), a : Pos, b : Pos, byte : SmallClasses]

Next3 ==
  IF Uni = "mut"
  THEN /\ Len(c) < 3
       /\ c' = Append(c, [op |-> RandomElement(Ops), file |-> RandomElement(0..(NFiles - 1)),
                          other |-> RandomElement(0..(NFiles - 1)), a |-> RandomElement(Pos),
                          b |-> RandomElement(Pos), byte |-> RandomElement(SmallClasses)])
       /\ UNCHANGED pvars
  ELSE UNCHANGED vars2

ASSUME TLCSet(1, 0)
Limit == IF "NCASES" \in DOMAIN IOEnv THEN atoi(IOEnv.NCASES) ELSE 1000
Emit ==
  IF Uni = "mut"
  THEN (Len(c) > 0 =>
          /\ PrintT(<<"CASE", ToJson([kind |-> "mut", muts |-> c])>>)
          /\ TLCSet(1, TLCGet(1) + 1)
          /\ (TLCGet(1) >= Limit => TLCSet("exit", TRUE)))
  ELSE PrintT(<<"CASE", ToJson(c)>>)
=============================================================================
