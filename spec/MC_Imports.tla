---------------------------- MODULE MC_Imports ----------------------------
(* Scenario universe and case emission for C13.                             *)
(* Tree: main/ (main.jsonnet), main/sub/, L1/, L2/, L2/sub/.                *)
EXTENDS Imports, Json

CONSTANTS Parts,        \* set of scenario families to enumerate
          ContentLen,   \* maximal length of byte strings in the "content" family
          Slices, Slice \* the big families are cut in `Slices` classes (sum of the
                        \* parameter indices modulo Slices); class `Slice` is enumerated
Sel(n) == n % Slices = Slice

A == "a.libsonnet"
LMain == <<"main">>
LSub == <<"main", "sub">>
L1 == <<"L1">>
L2 == <<"L2">>
Locs == {LMain, LSub, L1, L2}
TagOf(loc) == IF loc = LMain THEN 1 ELSE IF loc = LSub THEN 2 ELSE IF loc = L1 THEN 3 ELSE 4
MainPath == <<"main", "main.jsonnet">>
BasePairs == {<<d, DirE>> : d \in {<<>>, LMain, LSub, L1, L2, <<"L2", "sub">>}}
Kinds == {"import", "str", "bin"}
JPs == {<<>>, <<L1>>, <<L2>>, <<L1, L2>>, <<L2, L1>>}
Abs(p) == <<ROOT>> \o p
Ups(loc) == [i \in 1..Len(loc) |-> ".."]

BaseFs == FnOf(BasePairs)
ScenO(f, pairs, jp, main, os) == [fam |-> f, fs |-> FnOf(pairs) @@ BaseFs, jp |-> jp, main |-> main, opts |-> os]
Scen(f, pairs, jp, main) == ScenO(f, pairs, jp, main, <<>>)
Leaf(tag) == Code(tag, <<>>, <<>>, FALSE)
AFiles(pres) == {<<loc \o <<A>>, Leaf(TagOf(loc))>> : loc \in pres}

(* who contains the import under test: the main file, a file in main/sub   *)
(* (imported as "sub/imp.libsonnet") or a file in L1 ("../L1/imp...")       *)
Importers == {"main", "sub", "L1"}
ImpSpell(w) == IF w = "sub" THEN <<"sub", "imp.libsonnet">> ELSE <<"..", "L1", "imp.libsonnet">>
ImpPath(w) == IF w = "sub" THEN LSub \o <<"imp.libsonnet">> ELSE L1 \o <<"imp.libsonnet">>
Prog(w, stmts) ==
  IF w = "main" THEN {<<MainPath, Code(0, stmts, <<>>, FALSE)>>}
  ELSE {<<MainPath, Code(0, <<Stmt("import", ImpSpell(w), 0)>>, <<>>, FALSE)>>,
        <<ImpPath(w), Code(5, stmts, <<>>, FALSE)>>}

(* ---- search: presence x -J order x importer x spelling x kind ----------- *)
SpRel == {<<A>>, <<".", A>>, <<"sub", "..", A>>, <<"..", "L1", A>>}
SpAbs == {Abs(loc \o <<A>>) : loc \in Locs}
PresQ == SetToSeq(SUBSET Locs)
JPQ == SetToSeq(JPs)
ImpQ == SetToSeq(Importers)
SpQ == SetToSeq(SpRel \cup SpAbs)
KindQ == SetToSeq(Kinds)
SearchScen(pres, jp, w, sp, k) == Scen("search", AFiles(pres) \cup Prog(w, <<Stmt(k, sp, 0)>>), jp, MainPath)
SearchPart(z) ==
  {SearchScen(PresQ[u[1]], JPQ[u[2]], ImpQ[u[3]], SpQ[u[4]], KindQ[u[5]]) :
      u \in {v \in (1..16) \X (1..5) \X (1..3) \X (1..8) \X (1..3) : Sel(v[1] + v[2] + v[3] + v[4] + v[5])}}

(* ---- special: one location holds something that is not a plain file ----- *)
Specials == {"dir", "dangling", "link", "linkdir"}
SpecialEntry(x, s) ==
  CASE s = "dir" -> {<<x \o <<A>>, DirE>>}
    [] s = "dangling" -> {<<x \o <<A>>, Link(<<"nowhere">>)>>}
    [] s = "link" -> {<<x \o <<A>>, Link(Ups(x) \o <<"real.libsonnet">>)>>, <<<<"real.libsonnet">>, Leaf(6)>>}
    [] s = "linkdir" -> {<<x \o <<A>>, Link(Ups(x) \o <<"L2", "sub">>)>>}
SpecialSp(v, x) == IF v = "plain" THEN <<A>> ELSE IF v = "dotdot" THEN <<"sub", "..", A>> ELSE Abs(x \o <<A>>)
LocQ == SetToSeq(Locs)
SpecQ == SetToSeq(Specials)
SpVarQ == <<"plain", "dotdot", "abs">>
SpecialScen(x, s, others, jp, w, v, k) ==
  Scen("special", SpecialEntry(x, s) \cup AFiles(IF others THEN Locs \ {x} ELSE {})
                  \cup Prog(w, <<Stmt(k, SpecialSp(v, x), 0)>>), jp, MainPath)
SpecialPart(z) ==
  {SpecialScen(LocQ[u[1]], SpecQ[u[2]], u[3] = 1, JPQ[u[4]], ImpQ[u[5]], SpVarQ[u[6]], KindQ[u[7]]) :
      u \in {v \in (1..4) \X (1..4) \X (1..2) \X (1..5) \X (1..3) \X (1..3) \X (1..3) :
                Sel(v[1] + v[2] + v[3] + v[4] + v[5] + v[6] + v[7])}}

(* ---- laws: the trees on which the algebra of Resolve is checked --------- *)
LawsPartA(z) ==
  {Scen("laws", AFiles(pres) \cup Prog("main", <<Stmt("import", <<A>>, 0)>>), <<L1, L2>>, MainPath) :
      pres \in SUBSET Locs}
LawsPartB(z) ==
  {Scen("laws", SpecialEntry(x, s) \cup AFiles(IF others THEN Locs \ {x} ELSE {})
                \cup Prog("main", <<Stmt("import", <<A>>, 0)>>), <<L2, L1>>, MainPath) :
      x \in Locs, s \in Specials, others \in BOOLEAN}

(* ---- invoc: main file and -J given as absolute paths; odd -J lists ------ *)
JPx == JPs \cup {<<<<"nodir">>, L1>>, <<L1, <<"nodir">>>>, <<L1, L1, L2>>, <<L1, L2, L1>>, <<L2, L1, L2>>}
JPxQ == SetToSeq(JPx)
InvPresQ == <<{L1}, {L1, L2}, {LSub, L2}, Locs>>
InvSpQ == <<<<A>>, <<"sub", "..", A>>, <<"..", "L1", A>>, Abs(L2 \o <<A>>)>>
InvModeQ == <<<<TRUE, FALSE>>, <<FALSE, TRUE>>, <<TRUE, TRUE>>>>
InvocScen(pres, jp, w, sp, m) ==
  Scen("invoc", AFiles(pres) \cup Prog(w, <<Stmt("import", sp, 0)>>),
       [i \in 1..Len(jp) |-> IF m[2] THEN Abs(jp[i]) ELSE jp[i]] \o <<>>,
       IF m[1] THEN Abs(MainPath) ELSE MainPath)
InvocPart(z) ==
  {InvocScen(InvPresQ[u[1]], JPxQ[u[2]], ImpQ[u[3]], InvSpQ[u[4]], InvModeQ[u[5]]) :
      u \in {v \in (1..4) \X (1..10) \X (1..3) \X (1..4) \X (1..3) : Sel(v[1] + v[2] + v[3] + v[4] + v[5])}}

(* ---- virt: the main program is given as text (-e / standard input): it   *)
(* ---- has no directory.  Same trees, -J lists and spellings as "invoc";   *)
(* ---- the import under test is in the program text itself or in a file    *)
(* ---- the program reaches by an absolute path or through -J               *)
VirtImpQ == <<"main", "abs", "jrel">>
VirtProg(w, stmts) ==
  IF w = "main" THEN {<<MainPath, Code(0, stmts, <<>>, FALSE)>>}
  ELSE {<<MainPath, Code(0, <<Stmt("import", IF w = "abs" THEN Abs(ImpPath("sub")) ELSE <<"imp.libsonnet">>, 0)>>, <<>>, FALSE)>>,
        <<ImpPath(IF w = "abs" THEN "sub" ELSE "L1"), Code(5, stmts, <<>>, FALSE)>>}
VirtScen(pres, jp, w, sp, k, absj) ==
  Scen("virt", AFiles(pres) \cup VirtProg(w, <<Stmt(k, sp, 0)>>),
       [i \in 1..Len(jp) |-> IF absj THEN Abs(jp[i]) ELSE jp[i]] \o <<>>, MainPath)
VirtSpQ == <<<<A>>, <<".", A>>, <<"sub", "..", A>>, <<"..", "L1", A>>, Abs(L2 \o <<A>>), Abs(LMain \o <<A>>), Abs(LSub \o <<"..", A>>)>>
VirtPart(z) ==
  {VirtScen(InvPresQ[u[1]], JPxQ[u[2]], VirtImpQ[u[3]], VirtSpQ[u[4]], KindQ[u[5]], u[6] = 1) :
      u \in {v \in (1..4) \X (1..10) \X (1..3) \X (1..7) \X (1..3) \X (1..2) :
                Sel(v[1] + v[2] + v[3] + v[4] + v[5] + v[6])}}

(* ---- pairs: the same file reached twice or three times ------------------ *)
PairFs(mainHasA) ==
  (IF mainHasA THEN {<<LMain \o <<A>>, Leaf(1)>>} ELSE {})
  \cup {<<L1 \o <<A>>, Leaf(3)>>,
        <<LMain \o <<"alias.libsonnet">>, Link(<<A>>)>>,
        <<<<"Lk">>, Link(<<"L1">>)>>,
        <<LSub \o <<"imp.libsonnet">>, Code(5, <<Stmt("import", <<"..", A>>, 0)>>, <<>>, FALSE)>>}
PairSp == {<<A>>, <<".", A>>, <<"sub", "..", A>>, Abs(LMain \o <<A>>), <<"..", "main", A>>,
           <<"alias.libsonnet">>, <<"..", "L1", A>>, <<"..", "Lk", A>>, Abs(L1 \o <<A>>),
           <<"sub", "imp.libsonnet">>}
TripleSp == {<<A>>, <<"sub", "..", A>>, <<"alias.libsonnet">>, <<"..", "Lk", A>>, <<"sub", "imp.libsonnet">>}
PairKinds == {<<"import", "import">>, <<"str", "import">>, <<"import", "bin">>}
PairSpQ == SetToSeq(PairSp)
TripleSpQ == SetToSeq(TripleSp)
PairKindQ == SetToSeq(PairKinds)
PairJQ == <<<<>>, <<L1>>>>
PairScen(h, jp, stmts, strict) == Scen("pairs", PairFs(h) \cup {<<MainPath, Code(0, stmts, <<>>, strict)>>}, jp, MainPath)
PairsPartA(z) ==
  {PairScen(u[1] = 1, PairJQ[u[2]], <<Stmt(PairKindQ[u[5]][1], PairSpQ[u[3]], 0), Stmt(PairKindQ[u[5]][2], PairSpQ[u[4]], 0)>>, FALSE) :
      u \in {v \in (1..2) \X (1..2) \X (1..10) \X (1..10) \X (1..3) : Sel(v[1] + v[2] + v[3] + v[4] + v[5])}}
PairsPartB(z) ==
  {PairScen(u[1] = 1, PairJQ[u[2]], <<Stmt("import", PairSpQ[u[3]], 0), Stmt("import", PairSpQ[u[4]], 0)>>, TRUE) :
      u \in {v \in (1..2) \X (1..2) \X (1..10) \X (1..10) : Sel(v[1] + v[2] + v[3] + v[4])}}
PairsPartC(z) ==
  {PairScen(u[1] = 1, <<L1>>, <<Stmt("import", TripleSpQ[u[2]], 0), Stmt("import", TripleSpQ[u[3]], 0),
                                Stmt("import", TripleSpQ[u[4]], 0)>>, FALSE) :
      u \in {v \in (1..2) \X (1..5) \X (1..5) \X (1..5) : Sel(v[1] + v[2] + v[3] + v[4])}}

(* ---- the SAME spelling used by importers in different directories denotes  *)
(* ---- DIFFERENT files: main/a, main/sub/a (or the -J copy) ---------------- *)
SameSpellScen(k1, k2, mainHasA, subHasA, jp) ==
  Scen("pairs",
       (IF mainHasA THEN {<<LMain \o <<A>>, Leaf(1)>>} ELSE {})
       \cup (IF subHasA THEN {<<LSub \o <<A>>, Leaf(2)>>} ELSE {})
       \cup {<<L1 \o <<A>>, Leaf(3)>>, <<L2 \o <<A>>, Leaf(4)>>,
             <<LSub \o <<"imp.libsonnet">>, Code(5, <<Stmt(k2, <<A>>, 0)>>, <<>>, FALSE)>>,
             <<MainPath, Code(0, <<Stmt(k1, <<A>>, 0), Stmt("import", <<"sub", "imp.libsonnet">>, 0), Stmt(k1, <<".", A>>, 0)>>, <<>>, FALSE)>>},
       jp, MainPath)
PairsPartD(z) ==
  {SameSpellScen(k1, k2, m, sb, jp) : k1 \in Kinds, k2 \in Kinds, m \in BOOLEAN, sb \in BOOLEAN, jp \in {<<L1>>, <<L1, L2>>}}

(* ---- cycles: c1 <-> c2 (and self-import), demanded or not --------------- *)
C1 == LMain \o <<"c1.libsonnet">>
C2 == LMain \o <<"c2.libsonnet">>
LinkKinds == {"eager", "lazy"}
Ends(lk, sp) == [eager |-> IF lk = "eager" THEN <<Stmt("import", sp, 0)>> ELSE <<>>,
                 lazy |-> IF lk = "lazy" THEN <<Stmt("import", sp, 0)>> ELSE <<>>]
MaxChain(k12, k21) == IF k12 = "eager" THEN 0 ELSE IF k21 = "eager" THEN 1 ELSE 3
CyclesPart(z) ==
  {Scen("cycles",
        {<<C1, Code(7, Ends(k12, s12).eager, Ends(k12, s12).lazy, st[1])>>,
         <<C2, Code(8, Ends(k21, s21).eager, Ends(k21, s21).lazy, st[2])>>,
         <<LMain \o <<"k1.libsonnet">>, Link(<<"c1.libsonnet">>)>>,
         <<MainPath, Code(0, <<Stmt("import", <<"c1.libsonnet">>, ch)>>, <<>>, st[3])>>},
        <<>>, MainPath) :
      k12 \in LinkKinds, k21 \in LinkKinds,
      s12 \in {<<"c2.libsonnet">>, <<".", "c2.libsonnet">>, <<"sub", "..", "c2.libsonnet">>},
      s21 \in {<<"c1.libsonnet">>, Abs(C1), <<"k1.libsonnet">>},
      st \in {<<FALSE, FALSE, FALSE>>, <<TRUE, TRUE, FALSE>>, <<TRUE, FALSE, TRUE>>, <<FALSE, TRUE, TRUE>>},
      ch \in 0..3}
(* the chain must exist as hidden fields *)
CyclesOk(s) ==
  LET c1 == s.fs[C1]  c2 == s.fs[C2]  ch == s.fs[MainPath].eager[1].chain
  IN ch <= MaxChain(IF c1.lazy = <<>> THEN "eager" ELSE "lazy", IF c2.lazy = <<>> THEN "eager" ELSE "lazy")
SelfPart(z) ==
  {Scen("cycles",
        {<<MainPath, Code(0, IF lk = "eager" THEN <<Stmt("import", sp, 0)>> ELSE <<Stmt("str", sp, 0)>>,
                          IF lk = "lazy" THEN <<Stmt("import", sp, 0)>> ELSE <<>>, st)>>},
        <<>>, MainPath) :
      lk \in LinkKinds, st \in BOOLEAN,
      sp \in {<<"main.jsonnet">>, <<"..", "main", "main.jsonnet">>, Abs(MainPath)}}

(* ---- codefile: a file handed over with --ext-code-file / --tla-code-file - *)
(* The code file main/sub/cf.libsonnet holds one statement whose sibling    *)
(* spelling also exists next to the main file and in the -J directories, so *)
(* a wrong base directory picks a file with another tag.  The main program  *)
(* demands the variable, imports the same file by another spelling, both,   *)
(* or neither.                                                              *)
CF == LSub \o <<"cf.libsonnet">>
CF2 == L1 \o <<"cf2.libsonnet">>
CfLinks == {<<LMain \o <<"cfl.libsonnet">>, Link(<<"sub", "cf.libsonnet">>)>>,    \* a link to the file, in main/
            <<<<"Lc">>, Link(LSub)>>}                                            \* a link to its directory
VarName(route, i) == IF route = "ext" THEN <<"v1", "v2">>[i] ELSE <<"x1", "x2">>[i]
Dem(o) == Stmt(o.route, <<o.var>>, 0)
RouteQ == <<"ext", "tla">>
CfCmdQ == <<CF, <<"main", "..">> \o CF, Abs(CF), <<"Lc", "cf.libsonnet">>, LMain \o <<"cfl.libsonnet">>, <<".">> \o CF>>
CfMainSpQ == <<<<"sub", "cf.libsonnet">>, <<"..", "Lc", "cf.libsonnet">>, <<"cfl.libsonnet">>, Abs(CF)>>
CfInnerQ == <<Stmt("import", <<A>>, 0), Stmt("import", <<".", A>>, 0), Stmt("str", <<A>>, 0),
              Stmt("bin", <<A>>, 0), Stmt("import", <<"..", A>>, 0)>>
CfPresQ == <<Locs, {LMain, L1, L2}, {LMain}>>
CfJQ == <<<<>>, <<L1>>, <<L1, L2>>>>
CfShape(k, d) ==      \* the main program's statements
  IF k = 1 THEN <<d>> ELSE IF k = 2 THEN <<>> ELSE IF k = 3 THEN <<d, d>>
  ELSE IF k <= 7 THEN <<Stmt("import", CfMainSpQ[k - 3], 0), d>>
  ELSE IF k <= 11 THEN <<d, Stmt("import", CfMainSpQ[k - 7], 0)>>
  ELSE <<Stmt("import", CfMainSpQ[k - 11], 0)>>
CodefileScenA(route, c, inner, pres, jp, k) ==
  LET o == Opt(route, VarName(route, 1), c) IN
  ScenO("codefile", AFiles(pres) \cup CfLinks
                    \cup {<<CF, Code(10, <<inner>>, <<>>, FALSE)>>,
                          <<MainPath, Code(0, CfShape(k, Dem(o)), <<>>, FALSE)>>}, jp, MainPath, <<o>>)
CodefilePartA(z) ==
  {CodefileScenA(RouteQ[u[1]], CfCmdQ[u[2]], CfInnerQ[u[3]], CfPresQ[u[4]], CfJQ[u[5]], u[6]) :
      u \in {v \in (1..2) \X (1..6) \X (1..5) \X (1..3) \X (1..3) \X (1..15) :
                Sel(v[1] + v[2] + v[3] + v[4] + v[5] + v[6])}}

(* a program without a directory that is handed a code file: the code file  *)
(* HAS a directory (that of its command-line path), the program has none    *)
VirtCodefileScen(route, c, inner, pres, jp, k) ==
  LET o == Opt(route, VarName(route, 1), c) IN
  ScenO("virt", AFiles(pres) \cup CfLinks
                \cup {<<CF, Code(10, <<inner>>, <<>>, FALSE)>>,
                      <<MainPath, Code(0, IF k = 1 THEN <<Dem(o)>> ELSE IF k = 2 THEN <<Dem(o), Stmt("import", Abs(CF), 0)>>
                                          ELSE <<Stmt("import", <<A>>, 0), Dem(o)>>, <<>>, FALSE)>>}, jp, MainPath, <<o>>)
VirtCodefilePart(z) ==
  {VirtCodefileScen(RouteQ[u[1]], CfCmdQ[u[2]], CfInnerQ[u[3]], CfPresQ[u[4]], CfJQ[u[5]], u[6]) :
      u \in {v \in (1..2) \X (1..6) \X (1..5) \X (1..3) \X (1..3) \X (1..3) :
                Sel(v[1] + v[2] + v[3] + v[4] + v[5] + v[6])}}

(* a code file that is missing, a directory, a dangling link, below a plain  *)
(* file, a link loop; alone, or before / after an option that is fine        *)
CfBadQ == <<LSub \o <<"nofile.libsonnet">>, LSub, LMain \o <<"dang.libsonnet">>, MainPath \o <<"x">>,
            Abs(LSub \o <<"nofile.libsonnet">>), LMain \o <<"loop.libsonnet">>, <<"Lc">>>>
CfFaultFs == {<<LMain \o <<"dang.libsonnet">>, Link(<<"nowhere">>)>>,
              <<LMain \o <<"loop.libsonnet">>, Link(<<"loop.libsonnet">>)>>}
CodefileScenB(bad, br, g, gr, m) ==
  LET ob == Opt(br, VarName(br, IF g = 1 THEN 2 ELSE 1), bad)
      og == Opt(gr, VarName(gr, IF g = 1 THEN 1 ELSE 2), CF)
      os == IF g = 0 THEN <<ob>> ELSE IF g = 1 THEN <<og, ob>> ELSE <<ob, og>>
      stmts == IF m = 1 THEN <<>> ELSE IF m = 2 THEN <<Dem(ob)>>
               ELSE <<Stmt("import", <<"sub", "cf.libsonnet">>, 0)>> \o (IF g = 0 THEN <<>> ELSE <<Dem(og)>>)
  IN ScenO("codefile", AFiles(Locs) \cup CfLinks \cup CfFaultFs
                       \cup {<<CF, Code(10, <<Stmt("import", <<A>>, 0)>>, <<>>, FALSE)>>,
                             <<MainPath, Code(0, stmts, <<>>, FALSE)>>}, <<L1>>, MainPath, os)
CodefilePartB(z) ==
  {CodefileScenB(bad, br, g, gr, m) :
      bad \in ToSet(CfBadQ), br \in ToSet(RouteQ), g \in 0..2, gr \in ToSet(RouteQ), m \in 1..3}

(* two options: the same file twice (by two spellings, by the same or by    *)
(* different routes), or a second code file that reaches the first one      *)
Cf2Content(c) == IF c = 1 THEN <<Stmt("import", <<"..", "main", "sub", "cf.libsonnet">>, 0)>>
                 ELSE IF c = 2 THEN <<Stmt("ext", <<"v1">>, 0)>>
                 ELSE <<Stmt("import", <<A>>, 0)>>
CodefileScenC(sp1, r1, r2, t, m) ==
  LET o1 == Opt(r1, VarName(r1, 1), sp1)
      sp2 == IF t = 1 THEN <<"main", "..">> \o CF ELSE IF t = 2 THEN LMain \o <<"cfl.libsonnet">>
             ELSE IF t = 5 THEN Abs(CF2) ELSE CF2
      o2 == Opt(r2, VarName(r2, 2), sp2)
      d1 == Dem(o1)  d2 == Dem(o2)
      stmts == IF m = 1 \/ m = 5 THEN <<d1, d2>> ELSE IF m = 2 THEN <<d2, d1>> ELSE IF m = 3 THEN <<d2>>
               ELSE IF m = 4 THEN <<>> ELSE <<d2, Stmt("import", <<"sub", "cf.libsonnet">>, 0)>>
  IN ScenO("codefile", AFiles(Locs) \cup CfLinks
                       \cup {<<CF, Code(10, <<Stmt("import", <<A>>, 0)>>, <<>>, FALSE)>>,
                             <<CF2, Code(11, Cf2Content(IF t > 2 THEN t - 2 ELSE 3), <<>>, FALSE)>>,
                             <<MainPath, Code(0, stmts, <<>>, m = 5)>>}, <<L2>>, MainPath, <<o1, o2>>)
CodefilePartC(z) ==
  {CodefileScenC(u[1], u[2], u[3], u[4], u[5]) :
      u \in {v \in {CF, Abs(CF)} \X ToSet(RouteQ) \X ToSet(RouteQ) \X (1..5) \X (1..6) :
                v[4] = 4 => v[2] = "ext"}}

(* the code file is the main file itself; the code file reads its own        *)
(* external variable                                                         *)
CodefileSelfMain(sp, w) ==
  LET o == Opt("ext", "v1", sp) IN
  ScenO("codefile", CfLinks \cup {<<MainPath,
           IF w = 1 THEN Code(0, <<Dem(o)>>, <<>>, FALSE)
           ELSE IF w = 2 THEN Code(0, <<Dem(o)>>, <<>>, TRUE)
           ELSE IF w = 3 THEN Code(0, <<Stmt("ext", <<"v1">>, 1)>>, <<Stmt("str", <<"main.jsonnet">>, 0)>>, FALSE)
           ELSE Code(0, <<>>, <<>>, FALSE)>>}, <<>>, MainPath, <<o>>)
CodefileSelfVar(sp, w, ch) ==
  LET o == Opt("ext", "v1", sp) IN
  ScenO("codefile", AFiles(Locs) \cup CfLinks
           \cup {<<CF, IF w = 1 THEN Code(10, <<Dem(o)>>, <<>>, FALSE)
                       ELSE IF w = 2 THEN Code(10, <<Dem(o)>>, <<>>, TRUE)
                       ELSE Code(10, <<Stmt("import", <<A>>, 0)>>, <<Dem(o)>>, FALSE)>>,
                 <<MainPath, Code(0, <<Stmt("ext", <<"v1">>, ch)>>, <<>>, FALSE)>>}, <<>>, MainPath, <<o>>)
CodefilePartD(z) ==
  {CodefileSelfMain(sp, w) :
      sp \in {MainPath, <<"main", "..">> \o MainPath, Abs(MainPath), <<"Lc", "..", "main.jsonnet">>}, w \in 1..4}
  \cup {CodefileSelfVar(u[1], u[2], u[3]) :
            u \in {v \in {CF, Abs(CF)} \X (1..3) \X (0..2) : v[3] > 0 => v[2] = 3}}

(* ---- data: binary / text content reached through the search ------------- *)
DataBytes == {<<>>, <<104, 105, 10>>, <<195, 169, 226, 130, 172, 240, 159, 152, 128>>, <<255>>,
              <<97, 226, 130>>, <<0, 65, 0>>, <<240, 159, 152, 128, 128, 97>>, <<237, 160, 128, 237, 176, 128>>,
              <<239, 187, 191, 123, 125>>, <<192, 175, 224, 128, 175, 244, 144, 128, 128>>}
DataPart(z) ==
  {Scen("data", {<<loc \o <<"d.bin">>, Data(9, b)>>,
                 <<LMain \o <<"dl.bin">>, Link(<<"..", "L2", "d.bin">>)>>,
                 <<MainPath, Code(0, <<Stmt("str", sp, 0), Stmt("bin", sp, 0)>>, <<>>, st)>>},
        <<L1>>, MainPath) :
      b \in DataBytes, loc \in {LMain, L1, L2}, sp \in {<<"d.bin">>, <<"dl.bin">>}, st \in BOOLEAN}

(* ---- content: every byte string up to ContentLen over the alphabet ------ *)
Alphabet == {0, 65, 128, 144, 160, 191, 194, 224, 237, 240, 244, 255}
ByteSeqs(z) == UNION {[1..n -> Alphabet] : n \in 0..ContentLen}
ContentPart(z) ==
  {Scen("content", {<<LMain \o <<"d.bin">>, Data(9, b)>>,
                    <<MainPath, Code(0, <<Stmt("str", <<"d.bin">>, 0), Stmt("bin", <<"d.bin">>, 0)>>, <<>>, FALSE)>>},
        <<>>, MainPath) : b \in ByteSeqs(z)}

NSub(m) == CASE m = "laws" -> 2 [] m = "pairs" -> 4 [] m = "cycles" -> 2 [] m = "codefile" -> 4 [] m = "virt" -> 2 [] OTHER -> 1
Part(m, i) ==
  CASE m = "search" -> SearchPart(m)
    [] m = "special" -> SpecialPart(m)
    [] m = "invoc" -> InvocPart(m)
    [] m = "virt" -> IF i = 1 THEN VirtPart(m) ELSE VirtCodefilePart(m)
    [] m = "laws" -> IF i = 1 THEN LawsPartA(m) ELSE LawsPartB(m)
    [] m = "pairs" -> IF i = 1 THEN PairsPartA(m) ELSE IF i = 2 THEN PairsPartB(m) ELSE IF i = 3 THEN PairsPartC(m) ELSE PairsPartD(m)
    [] m = "cycles" -> IF i = 1 THEN {s \in CyclesPart(m) : CyclesOk(s)} ELSE SelfPart(m)
    [] m = "codefile" -> IF i = 1 THEN CodefilePartA(m) ELSE IF i = 2 THEN CodefilePartB(m)
                         ELSE IF i = 3 THEN CodefilePartC(m) ELSE CodefilePartD(m)
    [] m = "data" -> DataPart(m)
    [] m = "content" -> ContentPart(m)

Init == \E m \in Parts : \E i \in 1..NSub(m) : \E s \in Part(m, i) : InitScenario(s)
Next == Step
Spec == Init /\ [][Next]_vars

-----------------------------------------------------------------------------
AsList(f) == SetToSeq({[p |-> p, v |-> f[p]] : p \in DOMAIN f})
HistList == SetToSeq(hist)
CaseRec ==
  [fam |-> fam, fs |-> AsList(fs), jp |-> jpaths, main |-> mainPath, opts |-> opts,
   binds |-> SetToSeq({[i |-> i, n |-> binds[i]] : i \in DOMAIN binds}),
   status |-> status, err |-> err, loads |-> AsList(loads), thisFile |-> AsList(thisFile),
   res |-> AsList(res), hits |-> hits,
   skipped |-> Cardinality({h \in hist : h.idx > 1}), nres |-> Cardinality(hist)]

Emit == (status \notin {"bind", "run"}) => PrintT(<<"CASE", ToJson(CaseRec)>>)

(* Laws of the reference operators.  The algebra of Resolve is checked on   *)
(* the trees of the "laws" family for every importer directory, -J list and *)
(* spelling of the universe; the UTF-8 laws on every data file of every     *)
(* scenario.  (Evaluated in the second state of a behaviour so that TLC's   *)
(* workers share the work.)                                                 *)
LawDirs == {LMain, LSub, <<"main", "..", "L1">>, Abs(L1)}
LawJs == JPs \cup {<<<<"nodir">>, Abs(L1)>>}
LawSps == SpRel \cup SpAbs \cup {<<"..", "main", A>>}
Laws ==
  (TLCGet("level") = 2) =>
     /\ (fam = "laws") => LawResolve(fs, LawDirs, LawJs, {L1, L2}, LawSps)
     /\ \A n \in DOMAIN fs : (fs[n].t = "file" /\ ~fs[n].code) =>
            /\ LawLossy(fs[n].bytes)
            /\ ImportBinOf(fs, n).data = fs[n].bytes
=============================================================================
