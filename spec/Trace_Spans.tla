---------------------------- MODULE Trace_Spans ----------------------------
(* Trace validation for C16 (implementation -> specification).               *)
(* The trace (NDJSON, one event per line, file named by env TRACE) records, *)
(* for every failing program, the sources the real implementation           *)
(* registered and every span carried by the error and by each stack-trace   *)
(* entry, resolved by the real SpanManager:                                 *)
(*   {"ev":"begin"}                      a new program (new span manager)   *)
(*   {"ev":"ctx","len":L}                a source of L bytes was registered *)
(*   {"ev":"span","ctx":k,"s":s,"e":e}   a diagnostic names bytes s..e of   *)
(*                                       the k-th source                    *)
(* Every event must be explained by an action of Spans: "ctx" by            *)
(* InsertContext, "span" by Intern, whose precondition is exactly "the span *)
(* lies inside the source it names": k is a registered source and           *)
(* 0 <= s <= e <= len(k).  A span that no Intern explains rejects the trace *)
(* (REJECT line with its index).  The invariants of Spans are checked along *)
(* the way on the ids the model issues for the observed spans.              *)
EXTENDS Spans, Json, IOUtils, TLCExt

VARIABLE i

Events == ndJsonDeserialize(IOEnv.TRACE)

tvars == <<svars, i>>

TraceInit == Init /\ i = 0

IsNat(x) == x \in Nat

Explains(ev) ==
  CASE ev.ev = "begin" -> TRUE
    [] ev.ev = "ctx"   -> IsNat(ev.len)
    [] ev.ev = "span"  -> /\ IsNat(ev.ctx) /\ IsNat(ev.s) /\ IsNat(ev.e)
                          /\ ev.ctx \in 1..Len(lens)
                          /\ ValidSpan(lens[ev.ctx], Small(ev.s), Small(ev.e))
    [] OTHER           -> FALSE

TraceNext ==
  /\ i < Len(Events)
  /\ i' = i + 1
  /\ LET ev == Events[i + 1] IN
     /\ Explains(ev)
     /\ CASE ev.ev = "begin" -> lens' = <<>> /\ ends' = <<>> /\ table' = <<>> /\ issued' = <<>>
          [] ev.ev = "ctx"   -> InsertContext(Small(ev.len))
          [] ev.ev = "span"  -> Intern(ev.ctx, Small(ev.s), Small(ev.e))

\* the whole trace must be consumed: a state whose next event nothing explains is an error
NotStuck ==
  i < Len(Events) =>
    \/ Explains(Events[i + 1])
    \/ /\ PrintT(<<"REJECT", ToJson([index |-> i + 1, event |-> Events[i + 1]])>>)
       /\ FALSE

Consumed == i = Len(Events) => PrintT(<<"CONSUMED", ToJson([events |-> i])>>)
=============================================================================
