CONSTANTS Variant = "coded"  Mode = "sim"  MaxCtx = 4  MaxSpan = 4
CONSTANTS CtxLens <- CtxLensFull  StartMags <- StartMagsFull  LenMags <- LenMagsFull  Deltas <- Deltas2
INIT SimInit
NEXT SimNext
INVARIANTS TypeOK EndsExact EndsIncreasing RoundTrip Canonical TableTight EmitBehaviour
CHECK_DEADLOCK FALSE
