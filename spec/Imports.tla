------------------------------ MODULE Imports ------------------------------
(* C13 - operational specification of import resolution, the import cache    *)
(* and the content delivered by import / importstr / importbin.             *)
(*                                                                          *)
(* Written from the property text and the Jsonnet language definition       *)
(* (imports are resolved relative to the importing file, then the library   *)
(* path; a file is one value however it is reached; importstr is text,      *)
(* importbin is bytes), POSIX path resolution, and the Unicode Standard      *)
(* ch. 3 (Table 3-6, Table 3-7, "U+FFFD substitution of maximal subparts").  *)
(*                                                                          *)
(* A path is a sequence of components (strings).  The component ROOT marks  *)
(* an absolute path and stands for the root of the modelled tree (the       *)
(* binding substitutes the scratch directory); relative paths are relative  *)
(* to the working directory, which is that same root.  The file system is a *)
(* function from canonical paths (no ROOT, no "." / "..", no links) to       *)
(* entries.                                                                 *)
(*                                                                          *)
(* A file becomes an "importing file" by three routes: it is the program    *)
(* named on the command line, it is imported, or it is a CODE FILE handed   *)
(* to the tool as the value of an external variable (--ext-code-file v=P,   *)
(* read with std.extVar("v")) or of a top-level argument (--tla-code-file   *)
(* x=P, the parameter x of a function program).  All three routes lead to   *)
(* the same cache: a file is one value however it is reached.               *)
EXTENDS Naturals, Sequences, FiniteSets, TLC, SequencesExt, FiniteSetsExt

ROOT == "/"
FUEL == 8          \* bound on symbolic links followed in one resolution

IsAbs(p) == Len(p) > 0 /\ p[1] = ROOT
DirOf(p) == SubSeq(p, 1, Len(p) - 1)

-----------------------------------------------------------------------------
(* File-system entries.  All entries carry the same fields.                  *)
(*  t      "dir" | "file" | "link"                                           *)
(*  tag    distinct number of a file (identifies WHICH file was picked)      *)
(*  code   TRUE: a Jsonnet library whose text the binding generates from     *)
(*         (tag, eager, lazy, strict); FALSE: a data file with `bytes`       *)
(*  eager  import statements forced whenever the file's value is manifested  *)
(*  lazy   <<>> or one import statement in a hidden field (forced on demand) *)
(*  strict the body forces every eager import to a value BEFORE it yields    *)
(*  target link target (a path, relative to the directory of the link)       *)
(* A statement is `import sp` / `importstr sp` / `importbin sp` (kind         *)
(* "import" / "str" / "bin") or the demand of a value bound on the command  *)
(* line: kind "ext" = std.extVar(sp[1]), kind "tla" = the parameter sp[1]   *)
(* of the function program (in scope in the main file only).  `chain` is    *)
(* the number of `.lazy` selections applied to the value.                   *)
Stmt(kind, sp, chain) == [kind |-> kind, sp |-> sp, chain |-> chain]
ImportKinds == {"import", "str", "bin"}
VarKinds == {"ext", "tla"}
(* One code-file option of the command line: route "ext" | "tla", the name  *)
(* it binds, the path as spelled on the command line.                       *)
Opt(route, var, path) == [route |-> route, var |-> var, path |-> path]
DirE == [t |-> "dir", tag |-> 0, code |-> FALSE, bytes |-> <<>>, eager |-> <<>>,
         lazy |-> <<>>, strict |-> FALSE, target |-> <<>>]
Code(tag, eager, lazy, strict) ==
        [t |-> "file", tag |-> tag, code |-> TRUE, bytes |-> <<>>, eager |-> eager,
         lazy |-> lazy, strict |-> strict, target |-> <<>>]
Data(tag, bytes) ==
        [t |-> "file", tag |-> tag, code |-> FALSE, bytes |-> bytes, eager |-> <<>>,
         lazy |-> <<>>, strict |-> FALSE, target |-> <<>>]
Link(target) ==
        [t |-> "link", tag |-> 0, code |-> FALSE, bytes |-> <<>>, eager |-> <<>>,
         lazy |-> <<>>, strict |-> FALSE, target |-> target]

(* explicit (not lazily evaluated) functions from sets of <<key, value>> pairs *)
FnOf(S) == FoldSet(LAMBDA x, acc : (x[1] :> x[2]) @@ acc, <<>>, S)
ConstFn(S, v) == FoldSet(LAMBDA x, acc : (x :> v) @@ acc, <<>>, S)
CodeNodes(f) == {p \in DOMAIN f : f[p].t = "file" /\ f[p].code}

-----------------------------------------------------------------------------
(* POSIX path resolution (physical: ".." is the parent of the directory      *)
(* actually reached, symbolic links are followed, also in the last           *)
(* component).                                                               *)
WFail(e) == [ok |-> FALSE, node |-> <<>>, err |-> e]

RECURSIVE Walk(_, _, _, _)
Walk(f, cur, comps, fuel) ==
  IF comps = <<>> THEN [ok |-> TRUE, node |-> cur, err |-> ""]
  ELSE LET c == Head(comps)
           rest == Tail(comps)
       IN IF c = ROOT THEN Walk(f, <<>>, rest, fuel)
          ELSE IF f[cur].t # "dir" THEN WFail("ENOTDIR")
          ELSE IF c = "." THEN Walk(f, cur, rest, fuel)
          ELSE IF c = ".." THEN
                 IF cur = <<>> THEN WFail("ABOVE")   \* leaves the modelled tree
                 ELSE Walk(f, DirOf(cur), rest, fuel)
          ELSE LET p == Append(cur, c) IN
               IF p \notin DOMAIN f THEN WFail("ENOENT")
               ELSE IF f[p].t = "link" THEN
                      IF fuel = 0 THEN WFail("ELOOP")
                      ELSE Walk(f, cur, f[p].target \o rest, fuel - 1)
               ELSE Walk(f, p, rest, fuel)

Lookup(f, p) == Walk(f, <<>>, p, FUEL)
Exists(f, p) == Lookup(f, p).ok
Canon(f, p)  == Lookup(f, p).node

-----------------------------------------------------------------------------
(* Resolve: the property's search order.                                     *)
(*   absolute spelling          -> itself, nothing else is tried             *)
(*   relative spelling          -> the importing file's directory (as that   *)
(*                                 file's path was spelled), then the -J     *)
(*                                 directories, the RIGHT-MOST one first     *)
(* The first candidate that exists is THE file; whatever it is.  If it       *)
(* cannot be read as a file (it is a directory) the import fails there: it   *)
(* is not skipped.  A dangling link does not exist.                          *)
(* A program given as text on the command line (-e) or on standard input has *)
(* no directory: for the imports it contains itself the search starts with   *)
(* the -J directories; an absolute spelling is still taken as it is.         *)
NoDir == <<"<none>">>
Candidates(dir, jp, sp) ==
  IF IsAbs(sp) THEN <<sp>>
  ELSE (IF dir = NoDir THEN <<>> ELSE <<dir \o sp>>) \o [i \in 1..Len(jp) |-> jp[Len(jp) + 1 - i] \o sp]

RFail(why, p, n, i) == [ok |-> FALSE, why |-> why, path |-> p, node |-> n, idx |-> i]
RECURSIVE FirstHit(_, _, _)
FirstHit(f, cs, i) ==
  IF i > Len(cs) THEN RFail("notfound", <<>>, <<>>, 0)
  ELSE LET w == Lookup(f, cs[i]) IN
       IF w.ok THEN IF f[w.node].t = "dir" THEN RFail("isdir", cs[i], w.node, i)
                    ELSE [ok |-> TRUE, why |-> "", path |-> cs[i], node |-> w.node, idx |-> i]
       ELSE IF w.err = "ABOVE" THEN RFail("above", <<>>, <<>>, 0)   \* left the modelled tree
       ELSE FirstHit(f, cs, i + 1)

Resolve(f, dir, jp, sp) == FirstHit(f, Candidates(dir, jp, sp), 1)

(* A path given on the command line is not searched for: a relative one is  *)
(* relative to the working directory (the root of the tree), an absolute    *)
(* one is taken as it is; there is no importing file and -J plays no part.  *)
CmdResolve(f, p) == FirstHit(f, <<p>>, 1)

(* The options are bound in this order: every --ext-code-file in command-   *)
(* line order, then every --tla-code-file in command-line order.            *)
BindSeq(os) ==
  LET idx == [i \in 1..Len(os) |-> i] IN
  SelectSeq(idx, LAMBDA i : os[i].route = "ext") \o SelectSeq(idx, LAMBDA i : os[i].route = "tla")

-----------------------------------------------------------------------------
(* UTF-8 (Unicode Standard, ch. 3).                                          *)
Cont == <<128, 191>>
(* Table 3-7: well-formed UTF-8 byte sequences, one row per line             *)
Rows == << << <<0, 127>> >>,
           << <<194, 223>>, Cont >>,
           << <<224, 224>>, <<160, 191>>, Cont >>,
           << <<225, 236>>, Cont, Cont >>,
           << <<237, 237>>, <<128, 159>>, Cont >>,
           << <<238, 239>>, Cont, Cont >>,
           << <<240, 240>>, <<144, 191>>, Cont, Cont >>,
           << <<241, 243>>, Cont, Cont, Cont >>,
           << <<244, 244>>, <<128, 143>>, Cont, Cont >> >>
InR(b, r) == r[1] <= b /\ b <= r[2]

(* how many bytes at position i agree with the row (a prefix of a           *)
(* well-formed sequence): the "maximal subpart" when not the whole row      *)
MatchLen(row, bs, i) ==
  LET good == {k \in 0..Len(row) : \A j \in 1..k : i + j - 1 <= Len(bs) /\ InR(bs[i + j - 1], row[j])}
  IN CHOOSE k \in good : \A m \in good : m <= k

RowsAt(b) == {r \in 1..Len(Rows) : InR(b, Rows[r][1])}

(* Table 3-6 read right to left: scalar value of a complete sequence         *)
Scalar(bs, i, n) ==
  CASE n = 1 -> bs[i]
    [] n = 2 -> (bs[i] - 192) * 64 + (bs[i + 1] - 128)
    [] n = 3 -> (bs[i] - 224) * 4096 + (bs[i + 1] - 128) * 64 + (bs[i + 2] - 128)
    [] n = 4 -> (bs[i] - 240) * 262144 + (bs[i + 1] - 128) * 4096 + (bs[i + 2] - 128) * 64 + (bs[i + 3] - 128)

REPL == 65533

(* Lossy decoding: every maximal subpart of an ill-formed subsequence is    *)
(* replaced by one U+FFFD; a byte that starts no sequence is replaced alone *)
RECURSIVE LossyFrom(_, _)
LossyFrom(bs, i) ==
  IF i > Len(bs) THEN <<>>
  ELSE LET rs == RowsAt(bs[i]) IN
       IF rs = {} THEN <<REPL>> \o LossyFrom(bs, i + 1)
       ELSE LET row == Rows[CHOOSE r \in rs : TRUE]
                k == MatchLen(row, bs, i)
            IN IF k = Len(row) THEN <<Scalar(bs, i, k)>> \o LossyFrom(bs, i + k)
               ELSE <<REPL>> \o LossyFrom(bs, i + k)
Utf8Lossy(bs) == LossyFrom(bs, 1)

(* Independent definitions used only by the laws                             *)
RECURSIVE WellFormedFrom(_, _)
WellFormedFrom(bs, i) ==
  i > Len(bs) \/ \E r \in 1..Len(Rows) :
                    /\ i + Len(Rows[r]) - 1 <= Len(bs)
                    /\ \A j \in 1..Len(Rows[r]) : InR(bs[i + j - 1], Rows[r][j])
                    /\ WellFormedFrom(bs, i + Len(Rows[r]))
WellFormed(bs) == WellFormedFrom(bs, 1)

Utf8Encode(cp) ==   \* Table 3-6, left to right
  IF cp < 128 THEN <<cp>>
  ELSE IF cp < 2048 THEN <<192 + (cp \div 64), 128 + (cp % 64)>>
  ELSE IF cp < 65536 THEN <<224 + (cp \div 4096), 128 + ((cp \div 64) % 64), 128 + (cp % 64)>>
  ELSE <<240 + (cp \div 262144), 128 + ((cp \div 4096) % 64), 128 + ((cp \div 64) % 64), 128 + (cp % 64)>>
EncodeAll(cps) == FoldLeft(LAMBDA acc, cp : acc \o Utf8Encode(cp), <<>>, cps)
IsScalar(cp) == (0 <= cp /\ cp <= 55295) \/ (57344 <= cp /\ cp <= 1114111)

LawLossy(bs) ==
  LET out == Utf8Lossy(bs) IN
  /\ WellFormed(bs) <=> (EncodeAll(out) = bs)
  /\ \A i \in 1..Len(out) : IsScalar(out[i])
  /\ ~WellFormed(bs) => \E i \in 1..Len(out) : out[i] = REPL
  /\ Len(out) <= Len(bs) /\ (out = <<>> <=> bs = <<>>)
  /\ \A k \in 0..Len(bs) :      \* a well-formed prefix never influences what follows
        WellFormed(SubSeq(bs, 1, k)) =>
            out = Utf8Lossy(SubSeq(bs, 1, k)) \o Utf8Lossy(SubSeq(bs, k + 1, Len(bs)))
  /\ (\A i \in 1..Len(bs) : bs[i] < 128) => out = bs

(* What the three import forms deliver for a resolved file.  For generated  *)
(* library text (pure ASCII) the result is "the text of file <tag>".        *)
Item(t, file, data) == [t |-> t, file |-> file, data |-> data]
ImportStrOf(f, n) == IF f[n].code THEN Item("text", n, <<>>) ELSE Item("str", n, Utf8Lossy(f[n].bytes))
ImportBinOf(f, n) == IF f[n].code THEN Item("textbytes", n, <<>>) ELSE Item("bin", n, f[n].bytes)

-----------------------------------------------------------------------------
(* The machine.  One run of the command-line tool on one scenario.          *)
(*                                                                          *)
(*   bind   the main file has been loaded (not evaluated); the code-file    *)
(*          options are bound one by one: each names a file by a command-   *)
(*          line path, the file is LOADED (it enters the cache under its    *)
(*          identity, std.thisFile fixed) but not evaluated                 *)
(*   run    the main file is evaluated and its value manifested; files are  *)
(*          evaluated when their value is first demanded, whether by an     *)
(*          import, by std.extVar or by the top-level parameter             *)
VARIABLES fam, fs, jpaths, mainPath, opts,  \* the scenario; never change
          cache,      \* canonical file -> "loaded" (not yet demanded) | "eval" (value being
                      \*                   computed) | "done"
          loads,      \* canonical library file -> number of times evaluated
          thisFile,   \* canonical file -> the path it was loaded by
          binds,      \* index of a code-file option -> the canonical file it is bound to
          res,        \* canonical file -> results of its eager statements (last manifestation)
          stack,      \* evaluation stack
          status,     \* "bind" | "run" | "ok" | "error" | "outside"
          err,        \* where and why the run failed
          hist,       \* every resolution request made so far
          hits        \* number of requests answered from the cache
vars == <<fam, fs, jpaths, mainPath, opts, cache, loads, thisFile, binds, res, stack, status, err, hist, hits>>
scen == <<fam, fs, jpaths, mainPath, opts>>

NoErr == [class |-> "", file |-> <<>>, slot |-> 0, sp |-> <<>>]

(* Frames: TOP (the command line), L (a file body being evaluated: value    *)
(* not yet available), M (a file value being manifested: its eager          *)
(* statements are demanded in order), W (one statement being evaluated,     *)
(* including the `.lazy` selections that follow it).                        *)
Frame(k, file, pc, dir, sp, kind, left, cur, have) ==
  [k |-> k, file |-> file, pc |-> pc, dir |-> dir, sp |-> sp, kind |-> kind,
   left |-> left, cur |-> cur, have |-> have]
TopFrame == Frame("TOP", <<>>, 0, <<>>, <<>>, "", 0, <<>>, FALSE)
LFrame(n) == Frame("L", n, 1, <<>>, <<>>, "", 0, <<>>, FALSE)
MFrame(n) == Frame("M", n, 1, <<>>, <<>>, "", 0, <<>>, FALSE)
(* owner = the file whose text contains the statement; slot = index among   *)
(* its eager statements, 0 = its lazy statement.  Relative spellings are    *)
(* tried first against the directory of the path the owner was loaded by -  *)
(* whichever way it was loaded.                                             *)
MainNode == Canon(fs, mainPath)
(* family "virt": the text of the main file is handed over with -e (or on   *)
(* standard input); it is known as <cmdline> and is not a file of the tree  *)
Virtual == fam = "virt"
VirtualName == <<"<cmdline>">>
ImpDir(n) == IF Virtual /\ n = MainNode THEN NoDir ELSE DirOf(thisFile[n])
WFrame(owner, slot, st) ==
  Frame("W", owner, slot, ImpDir(owner), st.sp, st.kind, st.chain, <<>>, FALSE)

HasTla == \E i \in 1..Len(opts) : opts[i].route = "tla"
(* with top-level arguments the main file's own value is a function: what   *)
(* becomes of that function when the file is reached again is not decided;  *)
(* nor is a virtual main program reached through the file that holds its    *)
(* text (that file would be loaded as a file of its own)                    *)
MainIsFn(n) == (HasTla \/ Virtual) /\ n = MainNode

InitScenario(s) ==
  LET mainNode == Canon(s.fs, s.main) IN
  /\ fam = s.fam /\ fs = s.fs /\ jpaths = s.jp /\ mainPath = s.main /\ opts = s.opts
  /\ cache = (mainNode :> "loaded")
  /\ thisFile = (mainNode :> IF s.fam = "virt" THEN <<"<cmdline>">> ELSE s.main)
  /\ loads = ConstFn(CodeNodes(s.fs), 0)
  /\ binds = <<>>
  /\ res = ConstFn(CodeNodes(s.fs), <<>>)
  /\ stack = <<TopFrame>>
  /\ status = "bind" /\ err = NoErr /\ hist = {} /\ hits = 0

(* --- binding the code-file options ---------------------------------------- *)
Binding == status = "bind"
NBound == Cardinality(DOMAIN binds)

NoteCmd(p, r) == hist' = hist \cup {[via |-> "cmd", dir |-> <<>>, sp |-> p, ok |-> r.ok, why |-> r.why,
                                      path |-> r.path, node |-> r.node, idx |-> r.idx]}
CmdSite(class, i) == [class |-> class, file |-> <<>>, slot |-> i, sp |-> opts[i].path]

BindFail(i, r) ==     \* missing / not a readable file: the run ends before anything is evaluated
  /\ ~r.ok
  /\ status' = IF r.why = "above" THEN "outside" ELSE "error"
  /\ err' = CmdSite(r.why, i)
  /\ UNCHANGED <<scen, cache, loads, thisFile, binds, res, stack, hits>>

BindNotCode(i, r) ==  \* a data file given as a program: not decided here
  /\ r.ok /\ ~fs[r.node].code
  /\ status' = "outside" /\ err' = CmdSite("notcode", i)
  /\ UNCHANGED <<scen, cache, loads, thisFile, binds, res, stack, hits>>

BindLoad(i, r) ==     \* the file is loaded by the command-line path; nothing is evaluated yet
  /\ r.ok /\ fs[r.node].code /\ r.node \notin DOMAIN cache
  /\ cache' = cache @@ (r.node :> "loaded")
  /\ thisFile' = thisFile @@ (r.node :> r.path)
  /\ binds' = binds @@ (i :> r.node)
  /\ UNCHANGED <<scen, loads, res, stack, status, err, hits>>

BindHit(i, r) ==      \* the same file (the main file, or an earlier option's) under another name
  /\ r.ok /\ fs[r.node].code /\ r.node \in DOMAIN cache
  /\ binds' = binds @@ (i :> r.node)
  /\ hits' = hits + 1
  /\ UNCHANGED <<scen, cache, loads, thisFile, res, stack, status, err>>

BindCodeFile ==       \* one --ext-code-file / --tla-code-file option
  /\ Binding /\ NBound < Len(opts)
  /\ LET i == BindSeq(opts)[NBound + 1]
         r == CmdResolve(fs, opts[i].path) IN
       /\ NoteCmd(opts[i].path, r)
       /\ \/ BindFail(i, r) \/ BindNotCode(i, r) \/ BindLoad(i, r) \/ BindHit(i, r)

StartMain ==          \* every option is bound: the main file's value is demanded
  /\ Binding /\ NBound = Len(opts)
  /\ status' = "run"
  /\ cache' = [cache EXCEPT ![MainNode] = "eval"]
  /\ loads' = [loads EXCEPT ![MainNode] = @ + 1]
  /\ stack' = <<TopFrame, LFrame(MainNode)>>
  /\ UNCHANGED <<scen, thisFile, binds, res, err, hist, hits>>

Running == status = "run" /\ Len(stack) > 1
Top == stack[Len(stack)]
Below == stack[Len(stack) - 1]
Popped == SubSeq(stack, 1, Len(stack) - 1)
ReplaceTop(s, fr) == [s EXCEPT ![Len(s)] = fr]
Eager(n) == fs[n].eager

(* --- file bodies ---------------------------------------------------------- *)
ForceStmt ==          \* a strict body forces its next eager statement to a value
  /\ Running /\ Top.k = "L" /\ fs[Top.file].strict /\ Top.pc <= Len(Eager(Top.file))
  /\ stack' = Append(stack, WFrame(Top.file, Top.pc, Eager(Top.file)[Top.pc]))
  /\ UNCHANGED <<scen, cache, loads, thisFile, binds, res, status, err, hist, hits>>

FinishLoad ==         \* the body yields its value: the file is in the cache for good
  /\ Running /\ Top.k = "L"
  /\ ~fs[Top.file].strict \/ Top.pc > Len(Eager(Top.file))
  /\ cache' = [cache EXCEPT ![Top.file] = "done"]
  /\ stack' = IF Below.k = "TOP" THEN <<TopFrame, MFrame(Top.file)>>
              ELSE ReplaceTop(Popped, [Below EXCEPT !.cur = Top.file, !.have = TRUE])
  /\ UNCHANGED <<scen, loads, thisFile, binds, res, status, err, hist, hits>>

(* --- manifestation ------------------------------------------------------- *)
DemandStmt ==
  /\ Running /\ Top.k = "M" /\ Top.pc <= Len(Eager(Top.file))
  /\ stack' = Append(stack, WFrame(Top.file, Top.pc, Eager(Top.file)[Top.pc]))
  /\ UNCHANGED <<scen, cache, loads, thisFile, binds, res, status, err, hist, hits>>

FinishManifest ==
  /\ Running /\ Top.k = "M" /\ Top.pc > Len(Eager(Top.file))
  /\ stack' = Popped
  /\ status' = IF Len(Popped) = 1 THEN "ok" ELSE "run"
  /\ UNCHANGED <<scen, cache, loads, thisFile, binds, res, err, hist, hits>>

(* --- the value of a file that is already in the cache --------------------- *)
Site(class) == [class |-> class, file |-> Top.file, slot |-> Top.pc, sp |-> Top.sp]

StartEval(n) ==       \* loaded when the options were bound, demanded now for the first time
  /\ n \in DOMAIN cache /\ cache[n] = "loaded"
  /\ cache' = [cache EXCEPT ![n] = "eval"]
  /\ loads' = [loads EXCEPT ![n] = @ + 1]
  /\ stack' = Append(stack, LFrame(n))
  /\ UNCHANGED <<scen, thisFile, binds, res, status, err, hits>>

Hit(n) ==             \* any later demand of it, by any route and spelling: the same value
  /\ n \in DOMAIN cache /\ cache[n] = "done" /\ ~MainIsFn(n)
  /\ stack' = ReplaceTop(stack, [Top EXCEPT !.cur = n, !.have = TRUE])
  /\ hits' = hits + 1
  /\ UNCHANGED <<scen, cache, loads, thisFile, binds, res, status, err>>

Cycle(n) ==           \* the value is needed to compute itself
  /\ n \in DOMAIN cache /\ cache[n] = "eval" /\ ~MainIsFn(n)
  /\ status' = "error" /\ err' = Site("cycle")
  /\ UNCHANGED <<scen, cache, loads, thisFile, binds, res, stack, hits>>

FnValue(n) ==         \* the main file of a run with top-level arguments, reached again
  /\ n \in DOMAIN cache /\ MainIsFn(n)
  /\ status' = "outside" /\ err' = Site("mainfn")
  /\ UNCHANGED <<scen, cache, loads, thisFile, binds, res, stack, hits>>

(* --- one import expression ------------------------------------------------ *)
Pending == Running /\ Top.k = "W" /\ ~Top.have
Note(r) == hist' = hist \cup {[via |-> "import", dir |-> Top.dir, sp |-> Top.sp, ok |-> r.ok, why |-> r.why,
                               path |-> r.path, node |-> r.node, idx |-> r.idx]}

ImportFail(r) ==      \* missing file / not a readable file: error at the import site
  /\ ~r.ok
  /\ status' = IF r.why = "above" THEN "outside" ELSE "error"
  /\ err' = Site(r.why)
  /\ UNCHANGED <<scen, cache, loads, thisFile, binds, res, stack, hits>>

DeliverData(d) ==
  /\ stack' = ReplaceTop(Popped, [Below EXCEPT !.pc = @ + 1])
  /\ res' = IF Below.k = "M" THEN [res EXCEPT ![Below.file] = Append(@, d)] ELSE res

ImportStr(r) ==       \* the text of the file
  /\ r.ok /\ Top.kind = "str"
  /\ IF Top.left = 0
       THEN DeliverData(ImportStrOf(fs, r.node)) /\ UNCHANGED <<status, err>>
       ELSE status' = "outside" /\ err' = Site("type") /\ UNCHANGED <<stack, res>>
  /\ UNCHANGED <<scen, cache, loads, thisFile, binds, hits>>

ImportBin(r) ==       \* the bytes of the file
  /\ r.ok /\ Top.kind = "bin"
  /\ IF Top.left = 0
       THEN DeliverData(ImportBinOf(fs, r.node)) /\ UNCHANGED <<status, err>>
       ELSE status' = "outside" /\ err' = Site("type") /\ UNCHANGED <<stack, res>>
  /\ UNCHANGED <<scen, cache, loads, thisFile, binds, hits>>

ImportNotCode(r) ==   \* evaluating a data file as a program: not decided here
  /\ r.ok /\ Top.kind = "import" /\ ~fs[r.node].code
  /\ status' = "outside" /\ err' = Site("notcode")
  /\ UNCHANGED <<scen, cache, loads, thisFile, binds, res, stack, hits>>

ImportLoad(r) ==      \* first time this file (by identity, not by spelling) is reached at all
  /\ r.ok /\ Top.kind = "import" /\ fs[r.node].code
  /\ r.node \notin DOMAIN cache
  /\ cache' = cache @@ (r.node :> "eval")
  /\ thisFile' = thisFile @@ (r.node :> r.path)
  /\ loads' = [loads EXCEPT ![r.node] = @ + 1]
  /\ stack' = Append(stack, LFrame(r.node))
  /\ UNCHANGED <<scen, binds, res, status, err, hits>>

ImportCached(r) ==    \* it is in the cache, put there by an import or by an option
  /\ r.ok /\ Top.kind = "import" /\ fs[r.node].code
  /\ \/ StartEval(r.node) \/ Hit(r.node) \/ Cycle(r.node) \/ FnValue(r.node)

Import ==             \* one import expression reaches the resolver
  /\ Pending /\ Top.kind \in ImportKinds
  /\ LET r == Resolve(fs, Top.dir, jpaths, Top.sp) IN
       /\ Note(r)
       /\ \/ ImportFail(r) \/ ImportStr(r) \/ ImportBin(r) \/ ImportNotCode(r)
          \/ ImportLoad(r) \/ ImportCached(r)

(* --- std.extVar("v") / the top-level parameter x --------------------------- *)
OptsFor(kind, name) == {i \in 1..Len(opts) : opts[i].route = kind /\ opts[i].var = name}

NoVar ==              \* nothing of that name in scope: not decided here
  /\ status' = "outside" /\ err' = Site("novar")
  /\ UNCHANGED <<scen, cache, loads, thisFile, binds, res, stack, hits>>

Demand ==             \* the value bound by an option is demanded: no resolution takes place
  /\ Pending /\ Top.kind \in VarKinds
  /\ LET is == OptsFor(Top.kind, Top.sp[1]) IN
       IF Cardinality(is) # 1 \/ (Top.kind = "tla" /\ Top.file # MainNode) THEN NoVar
       ELSE LET n == binds[CHOOSE i \in is : TRUE] IN
            \/ StartEval(n) \/ Hit(n) \/ Cycle(n) \/ FnValue(n)
  /\ UNCHANGED hist

Have == Running /\ Top.k = "W" /\ Top.have

FollowLazy ==         \* `.lazy` on the file value: its hidden statement is now demanded
  /\ Have /\ Top.left > 0
  /\ IF fs[Top.cur].lazy = <<>>
       THEN status' = "outside" /\ err' = Site("nofield") /\ UNCHANGED stack
       ELSE LET st == fs[Top.cur].lazy[1] IN
            /\ stack' = ReplaceTop(stack, Frame("W", Top.cur, 0, ImpDir(Top.cur), st.sp,
                                                 st.kind, Top.left - 1 + st.chain, <<>>, FALSE))
            /\ UNCHANGED <<status, err>>
  /\ UNCHANGED <<scen, cache, loads, thisFile, binds, res, hist, hits>>

OnManifestStack(n) == \E i \in 1..Len(stack) : stack[i].k = "M" /\ stack[i].file = n

DeliverForced ==      \* value wanted by a strict body: only the value, not its contents
  /\ Have /\ Top.left = 0 /\ Below.k = "L"
  /\ stack' = ReplaceTop(Popped, [Below EXCEPT !.pc = @ + 1])
  /\ UNCHANGED <<scen, cache, loads, thisFile, binds, res, status, err, hist, hits>>

DeliverManifest ==    \* value wanted by the output: manifest it in turn
  /\ Have /\ Top.left = 0 /\ Below.k = "M" /\ ~OnManifestStack(Top.cur)
  /\ res' = [[res EXCEPT ![Below.file] = Append(@, Item("val", Top.cur, <<>>))] EXCEPT ![Top.cur] = <<>>]
  /\ stack' = Append(ReplaceTop(Popped, [Below EXCEPT !.pc = @ + 1]), MFrame(Top.cur))
  /\ UNCHANGED <<scen, cache, loads, thisFile, binds, status, err, hist, hits>>

ManifestCycle ==      \* a value that contains itself has no finite manifestation
  /\ Have /\ Top.left = 0 /\ Below.k = "M" /\ OnManifestStack(Top.cur)
  /\ status' = "error" /\ err' = Site("cycle")
  /\ UNCHANGED <<scen, cache, loads, thisFile, binds, res, stack, hist, hits>>

Step == \/ BindCodeFile \/ StartMain
        \/ ForceStmt \/ FinishLoad \/ DemandStmt \/ FinishManifest
        \/ Import \/ Demand
        \/ FollowLazy \/ DeliverForced \/ DeliverManifest \/ ManifestCycle

-----------------------------------------------------------------------------
(* Invariants                                                                *)
(* a file is evaluated at most once, however many routes (main program,     *)
(* import, external variable, top-level argument) and spellings lead to it  *)
LoadOnce == \A n \in DOMAIN loads : loads[n] <= 1

CacheDomains ==
  /\ DOMAIN cache = DOMAIN thisFile
  /\ DOMAIN cache \subseteq DOMAIN loads
  /\ \A n \in DOMAIN loads : loads[n] = IF n \in DOMAIN cache /\ cache[n] # "loaded" THEN 1 ELSE 0

EvalOnStack ==
  \A n \in DOMAIN cache :
     (cache[n] = "eval") <=> \E i \in 1..Len(stack) : stack[i].k = "L" /\ stack[i].file = n

(* "loaded, not evaluated" is the state of the main file while the options  *)
(* are bound and of a code file nobody has demanded yet - of nothing else   *)
BoundTo(n) == {i \in DOMAIN binds : binds[i] = n}
LoadedState ==
  \A n \in DOMAIN cache : (cache[n] = "loaded") =>
     /\ n = MainNode \/ BoundTo(n) # {}
     /\ (status \in {"run", "ok"}) => n # MainNode

(* options are bound before the program runs; a failure there ends the run  *)
(* with nothing evaluated                                                   *)
BindFirst ==
  /\ (status = "bind") => (stack = <<TopFrame>> /\ \A n \in DOMAIN loads : loads[n] = 0)
  /\ (status \in {"run", "ok"}) => DOMAIN binds = 1..Len(opts)
  /\ \A i \in DOMAIN binds : binds[i] \in DOMAIN cache
  /\ \A k \in 1..Len(opts) : (BindSeq(opts)[k] \in DOMAIN binds) => \A j \in 1..k : BindSeq(opts)[j] \in DOMAIN binds

(* the main file was loaded by the main path; a code file by the path of    *)
(* the FIRST option (in binding order) that names it - whatever imports     *)
(* reach it later, or earlier in evaluation order                           *)
CodeFilePath ==
  /\ thisFile[MainNode] = IF Virtual THEN VirtualName ELSE mainPath
  /\ \A n \in DOMAIN cache : (n # MainNode /\ BoundTo(n) # {}) =>
        \E k \in 1..Len(opts) : /\ BindSeq(opts)[k] \in BoundTo(n)
                                /\ thisFile[n] = opts[BindSeq(opts)[k]].path
                                /\ \A j \in 1..(k - 1) : BindSeq(opts)[j] \notin BoundTo(n)

Finished == status = "ok" => /\ \A n \in DOMAIN cache : cache[n] \in {"done", "loaded"}
                             /\ err = NoErr
ErrorSite ==
  (status = "error") =>
     IF err.file = <<>>      \* the command line
       THEN /\ err.slot \in 1..Len(opts) /\ opts[err.slot].path = err.sp
            /\ \A n \in DOMAIN loads : loads[n] = 0
       ELSE /\ err.file \in DOMAIN cache
            /\ IF err.slot = 0 THEN fs[err.file].lazy # <<>> /\ fs[err.file].lazy[1].sp = err.sp
               ELSE err.slot <= Len(Eager(err.file)) /\ (Eager(err.file)[err.slot].sp = err.sp)

StackBound == Len(stack) <= 40

(* `hist` and `thisFile` only grow, so these are examined when the run ends  *)
CachePaths ==   \* the recorded path of a cached file does lead to that file
  \A n \in DOMAIN cache : (Virtual /\ n = MainNode /\ thisFile[n] = VirtualName)
                           \/ LET w == Lookup(fs, thisFile[n]) IN w.ok /\ w.node = n

NoDirSearch ==  \* a program without a directory: its relative imports are answered by -J alone, the right-most first
  \A h \in hist : (h.via = "import" /\ h.dir = NoDir /\ h.ok /\ ~IsAbs(h.sp)) =>
       \E i \in 1..Len(jpaths) : /\ h.path = jpaths[i] \o h.sp /\ h.idx = Len(jpaths) + 1 - i
                                  /\ \A k \in (i + 1)..Len(jpaths) : ~Exists(fs, jpaths[k] \o h.sp)

BindPaths ==    \* the path of a bound option leads to the file it is bound to
  \A i \in DOMAIN binds : LET w == Lookup(fs, opts[i].path) IN w.ok /\ w.node = binds[i]

Functional ==   \* the answer to (route, importer directory, spelling) never depends on history
  \A h1, h2 \in hist : (h1.via = h2.via /\ h1.dir = h2.dir /\ h1.sp = h2.sp) => h1 = h2

SameFileSameNode ==   \* every successful resolution names an existing regular file by its identity
  \A h \in hist : h.ok => LET w == Lookup(fs, h.path) IN w.ok /\ w.node = h.node /\ fs[h.node].t = "file"

CmdNoSearch ==  \* a command-line path is taken as spelled: never an importer's directory, never -J
  \A h \in hist : (h.via = "cmd" /\ h.ok) => (h.path = h.sp /\ h.idx = 1)

Inv == /\ LoadOnce /\ CacheDomains /\ EvalOnStack /\ LoadedState /\ BindFirst /\ CodeFilePath
       /\ Finished /\ ErrorSite /\ StackBound
       /\ (status \notin {"bind", "run"}) => (CachePaths /\ BindPaths /\ Functional /\ SameFileSameNode /\ CmdNoSearch /\ NoDirSearch)

(* What is in the cache stays as it is: the path a file was loaded by, the  *)
(* file an option is bound to and the evaluation count never change again.  *)
FirstWins ==
  [][/\ \A n \in DOMAIN thisFile : n \in DOMAIN thisFile' /\ thisFile'[n] = thisFile[n]
     /\ \A i \in DOMAIN binds : i \in DOMAIN binds' /\ binds'[i] = binds[i]
     /\ \A n \in DOMAIN loads : loads'[n] >= loads[n]
     /\ \A n \in DOMAIN cache : cache[n] = "done" => cache'[n] = "done"]_vars

(* Laws of Resolve on a file system f, for importer directories ds, -J      *)
(* lists js, additional -J directories ls and spellings sps.                 *)
LawResolve(f, ds, js, ls, sps) ==
  \A sp \in sps :
    /\ IsAbs(sp) =>                     \* absolute paths bypass the search
         \A d \in ds : \A j \in js : Resolve(f, d, j, sp) = Resolve(f, <<>>, <<>>, sp)
    /\ ~IsAbs(sp) => \A d \in ds : \A j \in js :
         LET r == Resolve(f, d, j, sp) IN
         /\ Exists(f, d \o sp) => r.path = d \o sp /\ r.idx = 1      \* importer's directory first
         /\ (r.why = "notfound") <=> (~Exists(f, d \o sp) /\ \A i \in 1..Len(j) : ~Exists(f, j[i] \o sp))
         /\ \A l \in ls :                    \* right-most -J wins
              (~Exists(f, d \o sp) /\ Exists(f, l \o sp)) => Resolve(f, d, Append(j, l), sp).path = l \o sp
         /\ \A l \in ls :                    \* an earlier -J only matters if nothing later has it
              (r.why # "notfound") => Resolve(f, d, <<l>> \o j, sp) = r
         /\ Resolve(f, d, j, <<".">> \o sp).node = r.node              \* "./x" is "x"
    /\ \A j \in js :                       \* no importer directory: exactly the search from a directory without sp
         LET r == Resolve(f, NoDir, j, sp) IN
         /\ IsAbs(sp) => r = Resolve(f, <<>>, <<>>, sp)
         /\ ~IsAbs(sp) => /\ (r.why = "notfound") <=> (\A i \in 1..Len(j) : ~Exists(f, j[i] \o sp))
                          /\ r.ok => \E i \in 1..Len(j) : r.path = j[i] \o sp
                          /\ (j = <<>>) => ~r.ok /\ r.why = "notfound"
    /\ CmdResolve(f, sp) = Resolve(f, <<>>, <<>>, sp)   \* a command-line path: the working directory, no -J
    /\ \A j \in js : LET c == CmdResolve(f, sp) IN
         c.ok => (c.path = sp /\ Resolve(f, <<>>, j, sp) = c)
=============================================================================
