CONSTANTS Variant = "coded"  Mode = "crop"  MaxCtx = 24  MaxSpan = 0
CONSTANTS CtxLens <- CtxLensSmall  StartMags <- StartMagsTiny  LenMags <- LenMagsSmall  Deltas <- Deltas0
INIT CropInit
NEXT CropNext
INVARIANTS CropLaws EmitCrop
CHECK_DEADLOCK FALSE
