------------------------------ MODULE SortSet ------------------------------
(***************************************************************************)
(* Reference level for property C17: std.sort, std.uniq, std.set,          *)
(* std.setUnion / setInter / setDiff / setMember, std.minArray / maxArray. *)
(*                                                                         *)
(* Written from the definitions of the Jsonnet standard library            *)
(* (std.jsonnet) and from the mathematical contracts the property states,  *)
(* NOT from the Rust code.                                                 *)
(*                                                                         *)
(* An array element is a pair <<r, g>>:                                    *)
(*   r  the RANK of its key inside a strictly increasing key table         *)
(*      (KeyTab(kind)[r] is the concrete Jsonnet key: number, string or    *)
(*      array; LawKeyTab ties rank order to Values!Cmp / Values!Equal),    *)
(*   g  a TAG that is unique inside one array, so that stability and       *)
(*      "which of two equal-key elements survives" are observable.         *)
(* The key function is seen through its effect on ranks:                   *)
(*   ord = "asc"   keyF = identity on plain keys, or function(x) x[0]      *)
(*   ord = "desc"  keyF = function(x) -x[0]   (numbers; order reversed)    *)
(***************************************************************************)
EXTENDS Integers, Sequences, FiniteSets, TLC

V == INSTANCE Values

Ords == {"asc", "desc"}
K(ord, e) == IF ord = "desc" THEN 0 - e[1] ELSE e[1]
Tag(e) == e[2]

Idx(s) == 1..Len(s)
Range(s) == {s[i] : i \in Idx(s)}
KeySet(ord, s) == {K(ord, s[i]) : i \in Idx(s)}
MinOf(S) == CHOOSE x \in S : \A y \in S : x <= y
MaxOf(S) == CHOOSE x \in S : \A y \in S : x >= y
Reverse(s) == [i \in Idx(s) |-> s[Len(s) + 1 - i]]

\* the subsequence of s at the index set I (in index order)
RECURSIVE AtFrom(_, _, _)
AtFrom(s, I, i) ==
  IF i > Len(s) THEN <<>>
  ELSE (IF i \in I THEN <<s[i]>> ELSE <<>>) \o AtFrom(s, I, i + 1)
At(s, I) == AtFrom(s, I, 1)

(***************************************************************************)
(* Concrete keys.  Strictly increasing tables; "int" is the unbounded      *)
(* table r |-> r.                                                          *)
(***************************************************************************)
Kinds == {"num", "str", "arr"}
KeyTab(kind) ==
  CASE kind = "num" -> << V!IntV(-1), V!IntV(0), V!IntV(10), V!Num(1, 21, -1), V!IntV(100) >>
    [] kind = "str" -> << V!Str(<<97>>), V!Str(<<97, 98>>), V!Str(<<98>>), V!Str(<<65535>>), V!Str(<<119070>>) >>
    [] kind = "arr" -> << V!Arr(<<>>), V!Arr(<<V!IntV(0), V!IntV(1)>>), V!Arr(<<V!IntV(1)>>),
                          V!Arr(<<V!IntV(1), V!IntV(0)>>), V!Arr(<<V!IntV(2)>>) >>
TabLen == 5
\* A second spelling of the SAME key (equal under ==, "eq" under std.__compare): elements with an odd
\* tag use it, so that equal keys are not always bit-identical (0 and -0, [] and [], [-0, 1] and [0, 1]).
AltTab(kind) ==
  CASE kind = "num" -> << V!IntV(-1), V!Num(-1, 0, 0), V!IntV(10), V!Num(1, 21, -1), V!IntV(100) >>
    [] kind = "str" -> KeyTab("str")
    [] kind = "arr" -> << V!Arr(<<>>), V!Arr(<<V!Num(-1, 0, 0), V!IntV(1)>>), V!Arr(<<V!IntV(1)>>),
                          V!Arr(<<V!IntV(1), V!Num(-1, 0, 0)>>), V!Arr(<<V!IntV(2)>>) >>
LawAltTab == \A kind \in {"num", "str", "arr"} : \A i \in 1..TabLen :
               /\ V!Equal(KeyTab(kind)[i], AltTab(kind)[i]) = "true"
               /\ V!Cmp(KeyTab(kind)[i], AltTab(kind)[i]) = "eq"
KeyVal(kind, r) == IF kind = "int" THEN V!IntV(r) ELSE KeyTab(kind)[r]
NegV(v) == V!Num(0 - v.s, v.m, v.e)          \* unary minus on a number
SymOf(n) == IF n < 0 THEN "lt" ELSE IF n > 0 THEN "gt" ELSE "eq"

\* rank order IS key order (std.__compare), rank equality IS key equality (==);
\* under function(x) -x[0] the order is exactly reversed.
LawKeyTab(maxInt) ==
  /\ \A kind \in Kinds : \A i, j \in 1..TabLen :
        /\ V!Cmp(KeyVal(kind, i), KeyVal(kind, j)) = SymOf(i - j)
        /\ (V!Equal(KeyVal(kind, i), KeyVal(kind, j)) = "true") = (i = j)
  /\ \A i, j \in 1..TabLen :
        /\ V!Cmp(NegV(KeyVal("num", i)), NegV(KeyVal("num", j))) = SymOf(j - i)
        /\ (V!Equal(NegV(KeyVal("num", i)), NegV(KeyVal("num", j))) = "true") = (i = j)
  /\ \A i, j \in 0..maxInt :
        /\ V!Cmp(KeyVal("int", i), KeyVal("int", j)) = SymOf(i - j)
        /\ V!Cmp(NegV(KeyVal("int", i)), NegV(KeyVal("int", j))) = SymOf(j - i)
        /\ (V!Equal(KeyVal("int", i), KeyVal("int", j)) = "true") = (i = j)
        /\ (V!Equal(NegV(KeyVal("int", i)), NegV(KeyVal("int", j))) = "true") = (i = j)

(***************************************************************************)
(* std.sort: for every key in increasing order, the elements that have     *)
(* that key, in input order.                                               *)
(***************************************************************************)
Bucket(ord, s, k) == SelectSeq(s, LAMBDA e : K(ord, e) = k)
RECURSIVE Buckets(_, _, _)
Buckets(ord, s, Ks) ==
  IF Ks = {} THEN <<>>
  ELSE LET m == MinOf(Ks) IN Bucket(ord, s, m) \o Buckets(ord, s, Ks \ {m})
Sort(ord, s) == Buckets(ord, s, KeySet(ord, s))

\* The contract, as predicates on (input s, output r).
\* Elements of one array are pairwise distinct (unique tags), so "same multiset"
\* is "same set and same length"; the third conjunct asserts the distinctness.
IsPermOf(r, s) == Len(r) = Len(s) /\ Range(r) = Range(s) /\ Cardinality(Range(s)) = Len(s)
IsOrdered(ord, r) == \A i \in 1..(Len(r) - 1) : K(ord, r[i]) <= K(ord, r[i + 1])
InIdx(s, e) == CHOOSE i \in Idx(s) : s[i] = e
IsStable(ord, s, r) ==
  \A i, j \in Idx(r) : (i < j /\ K(ord, r[i]) = K(ord, r[j])) => InIdx(s, r[i]) < InIdx(s, r[j])
\* cheap form when tags are input positions and r is ordered (equal keys are contiguous)
TagsArePositions(s) == \A i \in Idx(s) : Tag(s[i]) = i
IsStableAdj(ord, r) ==
  \A i \in 1..(Len(r) - 1) : K(ord, r[i]) = K(ord, r[i + 1]) => Tag(r[i]) < Tag(r[i + 1])

\* A second, independent definition: the output position of input element i is
\* 1 + the number of elements that must come before it.
Before(ord, s, j, i) ==
  K(ord, s[j]) < K(ord, s[i]) \/ (K(ord, s[j]) = K(ord, s[i]) /\ j < i)
PosOf(ord, s, i) == 1 + Cardinality({j \in Idx(s) : Before(ord, s, j, i)})
SortByPos(ord, s) == [p \in Idx(s) |-> s[CHOOSE i \in Idx(s) : PosOf(ord, s, i) = p]]

\* all sequences that are a permutation of s (small s only)
Perms(s) ==
  { [i \in Idx(s) |-> s[p[i]]] : p \in { q \in [Idx(s) -> Idx(s)] : \A a, b \in Idx(s) : a # b => q[a] # q[b] } }

LawSortFast(ord, s) ==
  LET r == Sort(ord, s) IN
  /\ IsPermOf(r, s)
  /\ IsOrdered(ord, r)
  /\ (TagsArePositions(s) => IsStableAdj(ord, r))

LawSortFull(ord, s, permBound) ==
  LET r == Sort(ord, s) IN
  /\ LawSortFast(ord, s)
  /\ IsStable(ord, s, r)
  /\ r = SortByPos(ord, s)
  /\ Sort(ord, r) = r                                                    \* idempotent
  /\ (Len(s) <= permBound =>                                             \* THE unique stable ordered permutation
        \A q \in Perms(s) : (IsOrdered(ord, q) /\ IsStable(ord, s, q)) <=> (q = r))
  \* reversing the key order reverses the order of the buckets, not the order inside a bucket
  /\ \A k \in KeySet(ord, s) : Bucket(ord, r, k) = Bucket(ord, s, k)
  /\ \A k \in KeySet("asc", s) : Bucket("asc", Sort("desc", s), k) = Bucket("asc", Sort("asc", s), k)

(***************************************************************************)
(* std.uniq: drops exactly the elements whose key equals the key of their  *)
(* predecessor (keeps the first of every run).                             *)
(***************************************************************************)
Uniq(ord, s) == At(s, {i \in Idx(s) : i = 1 \/ K(ord, s[i - 1]) # K(ord, s[i])})

\* upstream std.jsonnet: foldl(f, arr, []) with
\*   f(a, b) = if a == [] then [b] else if keyF(a[last]) == keyF(b) then a else a + [b]
RECURSIVE UniqFold(_, _, _)
UniqFold(ord, s, acc) ==
  IF s = <<>> THEN acc
  ELSE LET b == Head(s) IN
       UniqFold(ord, Tail(s),
                IF acc = <<>> THEN <<b>>
                ELSE IF K(ord, acc[Len(acc)]) = K(ord, b) THEN acc ELSE Append(acc, b))

NoAdjacentDup(ord, r) == \A i \in 1..(Len(r) - 1) : K(ord, r[i]) # K(ord, r[i + 1])

LawUniqFast(ord, s) ==
  LET r == Uniq(ord, s) IN
  /\ r = UniqFold(ord, s, <<>>)
  /\ NoAdjacentDup(ord, r)
  /\ (s # <<>> => r # <<>> /\ r[1] = s[1])

LawUniqFull(ord, s) ==
  LET r == Uniq(ord, s) IN
  /\ LawUniqFast(ord, s)
  /\ Uniq(ord, r) = r
  \* every survivor is the first of its run; every first of a run survives; order kept
  /\ \A i, j \in Idx(r) : i < j => InIdx(s, r[i]) < InIdx(s, r[j])
  /\ \A e \in Range(r) : LET i == InIdx(s, e) IN i = 1 \/ K(ord, s[i - 1]) # K(ord, e)
  /\ \A i \in Idx(s) : (i = 1 \/ K(ord, s[i - 1]) # K(ord, s[i])) => s[i] \in Range(r)
  /\ (NoAdjacentDup(ord, s) => r = s)

(***************************************************************************)
(* std.set = std.uniq(std.sort(arr, keyF), keyF)                           *)
(***************************************************************************)
Set(ord, s) == Uniq(ord, Sort(ord, s))
IsSet(ord, r) == \A i \in 1..(Len(r) - 1) : K(ord, r[i]) < K(ord, r[i + 1])
FirstWithKey(ord, s, k) == s[MinOf({i \in Idx(s) : K(ord, s[i]) = k})]

LawSet(ord, s) ==
  LET r == Set(ord, s) IN
  /\ IsSet(ord, r)
  /\ KeySet(ord, r) = KeySet(ord, s)
  /\ Len(r) = Cardinality(KeySet(ord, s))
  /\ \A i \in Idx(r) : r[i] = FirstWithKey(ord, s, K(ord, r[i]))       \* the first duplicate survives
  /\ (IsSet(ord, s) => r = s)
  /\ Set(ord, r) = r

(***************************************************************************)
(* Set operations by key, for inputs that are sets.                        *)
(***************************************************************************)
Union(ord, a, b) == Sort(ord, a \o SelectSeq(b, LAMBDA e : K(ord, e) \notin KeySet(ord, a)))
Inter(ord, a, b) == SelectSeq(a, LAMBDA e : K(ord, e) \in KeySet(ord, b))
Diff(ord, a, b) == SelectSeq(a, LAMBDA e : K(ord, e) \notin KeySet(ord, b))
Member(ord, x, s) == K(ord, x) \in KeySet(ord, s)

\* upstream std.jsonnet two-index walks
Drop(s, n) == SubSeq(s, n + 1, Len(s))       \* s[n:]
RECURSIVE UnionWalk(_, _, _, _, _, _)
UnionWalk(ord, a, b, i, j, acc) ==
  IF i >= Len(a) THEN acc \o Drop(b, j)
  ELSE IF j >= Len(b) THEN acc \o Drop(a, i)
  ELSE LET ak == K(ord, a[i + 1])  bk == K(ord, b[j + 1]) IN
       IF ak = bk THEN UnionWalk(ord, a, b, i + 1, j + 1, Append(acc, a[i + 1]))
       ELSE IF ak < bk THEN UnionWalk(ord, a, b, i + 1, j, Append(acc, a[i + 1]))
       ELSE UnionWalk(ord, a, b, i, j + 1, Append(acc, b[j + 1]))
RECURSIVE InterWalk(_, _, _, _, _, _)
InterWalk(ord, a, b, i, j, acc) ==
  IF i >= Len(a) \/ j >= Len(b) THEN acc
  ELSE LET ak == K(ord, a[i + 1])  bk == K(ord, b[j + 1]) IN
       IF ak = bk THEN InterWalk(ord, a, b, i + 1, j + 1, Append(acc, a[i + 1]))
       ELSE IF ak < bk THEN InterWalk(ord, a, b, i + 1, j, acc)
       ELSE InterWalk(ord, a, b, i, j + 1, acc)
RECURSIVE DiffWalk(_, _, _, _, _, _)
DiffWalk(ord, a, b, i, j, acc) ==
  IF i >= Len(a) THEN acc
  ELSE IF j >= Len(b) THEN acc \o Drop(a, i)
  ELSE LET ak == K(ord, a[i + 1])  bk == K(ord, b[j + 1]) IN
       IF ak = bk THEN DiffWalk(ord, a, b, i + 1, j + 1, acc)
       ELSE IF ak < bk THEN DiffWalk(ord, a, b, i + 1, j, Append(acc, a[i + 1]))
       ELSE DiffWalk(ord, a, b, i, j + 1, acc)
\* upstream: setMember(x, arr, keyF) = length(setInter([x], arr, keyF)) > 0
MemberUp(ord, x, s) == Len(InterWalk(ord, <<x>>, s, 0, 0, <<>>)) > 0

LawSetOps(ord, a, b) ==
  (IsSet(ord, a) /\ IsSet(ord, b)) =>
  LET u == Union(ord, a, b)  n == Inter(ord, a, b)  d == Diff(ord, a, b) IN
  /\ u = UnionWalk(ord, a, b, 0, 0, <<>>)
  /\ n = InterWalk(ord, a, b, 0, 0, <<>>)
  /\ d = DiffWalk(ord, a, b, 0, 0, <<>>)
  /\ IsSet(ord, u) /\ IsSet(ord, n) /\ IsSet(ord, d)
  /\ KeySet(ord, u) = KeySet(ord, a) \cup KeySet(ord, b)
  /\ KeySet(ord, n) = KeySet(ord, a) \cap KeySet(ord, b)
  /\ KeySet(ord, d) = KeySet(ord, a) \ KeySet(ord, b)
  /\ Range(n) \subseteq Range(a) /\ Range(d) \subseteq Range(a)           \* elements of a survive
  /\ Range(a) \subseteq Range(u)                                           \* values in a win
  /\ Range(u) \subseteq Range(a) \cup Range(b)
  /\ Len(u) + Len(n) = Len(a) + Len(b)
  /\ Union(ord, n, d) = a
  /\ Inter(ord, n, d) = <<>>
  /\ KeySet(ord, Union(ord, b, a)) = KeySet(ord, u)
  /\ KeySet(ord, Inter(ord, b, a)) = KeySet(ord, n)
  /\ Union(ord, a, a) = a /\ Inter(ord, a, a) = a /\ Diff(ord, a, a) = <<>>
  /\ Union(ord, a, <<>>) = a /\ Union(ord, <<>>, b) = b
  /\ \A x \in Range(a) \cup Range(b) :
        /\ Member(ord, x, u)
        /\ Member(ord, x, n) = (Member(ord, x, a) /\ Member(ord, x, b))
        /\ Member(ord, x, d) = (Member(ord, x, a) /\ ~Member(ord, x, b))

LawMember(ord, x, s) ==
  IsSet(ord, s) =>
  /\ Member(ord, x, s) = MemberUp(ord, x, s)
  /\ Member(ord, x, s) = (\E i \in Idx(s) : K(ord, s[i]) = K(ord, x))

(***************************************************************************)
(* std.minArray / std.maxArray: the FIRST element whose key is minimal /   *)
(* maximal; onEmpty (lazily) for the empty array, an error when it is      *)
(* omitted.                                                                *)
(***************************************************************************)
MinArray(ord, s) == FirstWithKey(ord, s, MinOf(KeySet(ord, s)))
MaxArray(ord, s) == FirstWithKey(ord, s, MaxOf(KeySet(ord, s)))

\* upstream: foldl(minFn, arr, arr[0]) with minFn(a, b) = if __compare(keyF(a), keyF(b)) > 0 then b else a
RECURSIVE MinFold(_, _, _)
MinFold(ord, s, a) ==
  IF s = <<>> THEN a
  ELSE MinFold(ord, Tail(s), IF K(ord, a) > K(ord, Head(s)) THEN Head(s) ELSE a)
RECURSIVE MaxFold(_, _, _)
MaxFold(ord, s, a) ==
  IF s = <<>> THEN a
  ELSE MaxFold(ord, Tail(s), IF K(ord, a) < K(ord, Head(s)) THEN Head(s) ELSE a)

OnEmptyModes == {"none", "val", "err"}   \* omitted | a value | error "..."
\* result: <<"elem", tag>> | <<"onEmpty">> (the onEmpty value) | <<"error">>
Extremal(which, ord, s, oe) ==
  IF s = <<>> THEN (IF oe = "val" THEN <<"onEmpty">> ELSE <<"error">>)
  ELSE <<"elem", Tag(IF which = "min" THEN MinArray(ord, s) ELSE MaxArray(ord, s))>>

LawMinMax(ord, s) ==
  s # <<>> =>
  LET mn == MinArray(ord, s)  mx == MaxArray(ord, s)
      other == IF ord = "asc" THEN "desc" ELSE "asc" IN
  /\ mn = MinFold(ord, s, s[1])
  /\ mx = MaxFold(ord, s, s[1])
  /\ mn = Sort(ord, s)[1]                                   \* first minimal = head of the stable sort
  /\ mx = Bucket(ord, s, MaxOf(KeySet(ord, s)))[1]
  /\ mx = MinArray(other, s)                                \* duality under key negation
  /\ mn \in Range(s) /\ mx \in Range(s)
  /\ \A e \in Range(s) : K(ord, mn) <= K(ord, e) /\ K(ord, e) <= K(ord, mx)
  /\ (TagsArePositions(s) =>
        /\ \A e \in Range(s) : K(ord, e) = K(ord, mn) => Tag(mn) <= Tag(e)
        /\ \A e \in Range(s) : K(ord, e) = K(ord, mx) => Tag(mx) <= Tag(e))
=============================================================================
