CONSTANTS Variant = "coded"  Mode = "mc"  MaxCtx = 3  MaxSpan = 2
CONSTANTS CtxLens <- CtxLensSmall  StartMags <- StartMagsTiny  LenMags <- LenMagsSmall  Deltas <- Deltas0
INIT MCInit
NEXT MCNext
INVARIANTS TypeOK EndsExact EndsIncreasing RoundTrip Canonical TableTight EmitScript
CHECK_DEADLOCK FALSE
