---------------------------- MODULE MC_Strings ----------------------------
(* Universe and case emission for C18.  One initial state per call          *)
(* (op, s, p, q, a, b, c); `Laws` checks the identities of the property on  *)
(* the specification, `Emit` prints the call with the expected result.      *)
(*                                                                          *)
(* Group  selects the family of functions (one TLC run per group),          *)
(* MaxLen the exhaustive string length bound (3 = quick, 4 = thorough).     *)
(* Beyond the exhaustive bound the check supplies seeded random longer      *)
(* strings in a JSON file {"all": [[cp,...],...], "few": [...]} named by    *)
(* the environment variable C18_EXTRA (absent => none).                     *)
EXTENDS Strings, Json, IOUtils

CONSTANTS Group, MaxLen
VARIABLES op, s, p, q, a, b, c
vars == <<op, s, p, q, a, b, c>>

\* a b , space é € 𝄞 U+0301: 1-, 2-, 3-, 4-byte characters, separators, a combining mark
Alpha == {97, 98, 44, 32, 233, 8364, 119070, 769}
WAlpha == {97, 233, 8364, 119070}              \* one character per UTF-8 width
W5Alpha == WAlpha \cup {769}
\* trim: the seven characters std.trim removes are 32 9 10 12 13 133 160; 11 (VT)
\* and 8195 (EM SPACE) are Unicode white space that it must keep
TrimAlpha == {97, 233, 32, 9, 160, 133, 11, 8195}
\* case: edges of the two ASCII letter ranges, non-ASCII letters that have case
CaseAlpha == {65, 90, 97, 122, 64, 91, 96, 123, 233, 201, 223, 119070}

StrsOver(A, n) == UNION {[1..k -> A] : k \in 0..n}

Params == IF "C18_EXTRA" \in DOMAIN IOEnv THEN JsonDeserialize(IOEnv.C18_EXTRA)
          ELSE [all |-> <<>>, few |-> <<>>]
ExtraAll == {Params.all[i] : i \in DOMAIN Params.all}
ExtraFew == {Params.few[i] : i \in DOMAIN Params.few}

Strs == StrsOver(Alpha, MaxLen) \cup ExtraAll
PosStrs == StrsOver(W5Alpha, MaxLen) \cup ExtraAll       \* substr
SliceStrs == StrsOver(WAlpha, MaxLen) \cup ExtraFew
TrimStrs == StrsOver(TrimAlpha, MaxLen)
CaseStrs == StrsOver(CaseAlpha, 3)

IdxArgs == {AInt(-2), AInt(-1), AInt(0), AInt(1), AInt(2), AInt(3), AInt(5), AHalf, AHuge}
\* the quick bound (MaxLen = 3) leaves out one in-range value of the three largest argument sets
Full == MaxLen >= 4
SliceArgs == (IdxArgs \cup {ANone}) \ (IF Full THEN {} ELSE {AInt(5)})
StepArgs == {ANone, AInt(-1), AInt(0), AInt(1), AInt(2), AHalf, AHuge} \cup (IF Full THEN {AInt(3)} ELSE {})
LimArgs == {AInt(-2), AInt(-1), AInt(0), AInt(1), AInt(2), AHalf, AHuge} \cup (IF Full THEN {AInt(3)} ELSE {})
CharArgs == {AInt(n) : n \in Alpha \cup {-1, 0, 65, 127, 128, 2047, 2048, 65535, 65536, 55295, 55296,
                                         57343, 57344, 1114111, 1114112}} \cup {AHalf, AHuge}
Widths == {AInt(1), AInt(2), AInt(3), AInt(5), AInt(9)}

\* patterns / separators of length 0-3, among them ones that overlap themselves
\* ("aa" in "aaa", ",,"), are parts of each other (",", ", ", ",,") or hold wide characters
Pats == { <<>>, <<97>>, <<44>>, <<32>>, <<233>>, <<8364>>, <<119070>>, <<769>>,
          <<97, 97>>, <<97, 98>>, <<44, 32>>, <<44, 44>>, <<233, 233>>, <<119070, 119070>>,
          <<97, 769>>, <<233, 8364>>, <<97, 97, 97>> }
LimSeps == { <<44>>, <<97, 97>>, <<119070>>, <<44, 32>>, <<233, 233>> }
JoinSeps == { <<>>, <<44>>, <<233>>, <<119070, 44, 32>> }
OtherSeps == { <<>>, <<233, 8364>> }
\* character sets for the strip functions (232 = è shares its first byte with é)
CharSets == { <<>>, <<97>>, <<97, 98>>, <<32>>, <<233>>, <<119070>>, <<769>>, <<44, 32>>,
              <<233, 8364>>, <<97, 119070>>, <<232, 97>>, <<32, 44, 97, 98>> }
Froms == { <<>>, <<97>>, <<97, 97>>, <<97, 98>>, <<44>>, <<233>>, <<119070>>, <<97, 769>> }
Tos == { <<>>, <<97, 97>>, <<233>>, <<119070, 98>> }

UnaryOps == {"length", "stringChars", "reverse", "reverseJoin", "mapDup", "mapCp",
             "flatMapDup", "flatMapDrop", "codepoint"}
FindOps == {"findSubstr", "startsWith", "endsWith"}
StripOps == {"stripChars", "lstripChars", "rstripChars"}
JoinOps == {"joinChars", "joinNull"}
FmtOps == {"fmtArr", "fmtBare", "fmtLeft", "fmtStar", "fmtObj", "fmtObjLeft"}

E == <<>>
Case(o, s0, p0, q0, a0, b0, c0) ==
  op = o /\ s = s0 /\ p = p0 /\ q = q0 /\ a = a0 /\ b = b0 /\ c = c0

Init ==
  \/ /\ Group = "unary"
     /\ \/ op \in UnaryOps /\ s \in Strs /\ p = E /\ q = E /\ a = ANone /\ b = ANone /\ c = ANone
        \/ op = "char" /\ s = E /\ p = E /\ q = E /\ a \in CharArgs /\ b = ANone /\ c = ANone
        \/ op = "trim" /\ s \in TrimStrs /\ p = E /\ q = E /\ a = ANone /\ b = ANone /\ c = ANone
        \/ op \in {"asciiUpper", "asciiLower"} /\ s \in CaseStrs \cup Strs /\ p = E /\ q = E
           /\ a = ANone /\ b = ANone /\ c = ANone
  \/ /\ Group = "index"
     /\ \/ op = "index" /\ s \in Strs /\ p = E /\ q = E /\ a \in IdxArgs /\ b = ANone /\ c = ANone
        \/ op = "substr" /\ s \in PosStrs /\ p = E /\ q = E /\ a \in IdxArgs /\ b \in IdxArgs /\ c = ANone
  \/ /\ Group = "slice"
     /\ op = "slice" /\ s \in SliceStrs /\ p = E /\ q = E
     /\ a \in SliceArgs /\ b \in SliceArgs /\ c \in StepArgs
  \/ /\ Group = "find"
     /\ op \in FindOps /\ s \in Strs /\ p \in Pats /\ q = E /\ a = ANone /\ b = ANone /\ c = ANone
  \/ /\ Group = "split"
     /\ \/ op \in {"split", "joinSplit"} /\ s \in Strs /\ p \in Pats /\ q = E
           /\ a = ANone /\ b = ANone /\ c = ANone
        \/ op \in JoinOps /\ s \in Strs /\ p \in JoinSeps /\ q = E /\ a = ANone /\ b = ANone /\ c = ANone
        \/ op = "joinOther" /\ s \in Strs /\ p = <<44>> /\ q \in OtherSeps
           /\ a = ANone /\ b = ANone /\ c = ANone
  \/ /\ Group = "limit"
     /\ op \in {"splitLimit", "splitLimitR"} /\ s \in Strs /\ p \in LimSeps \cup {E} /\ q = E
     /\ a \in LimArgs /\ b = ANone /\ c = ANone
  \/ /\ Group = "strip"
     /\ op \in StripOps /\ s \in Strs /\ p \in CharSets /\ q = E /\ a = ANone /\ b = ANone /\ c = ANone
  \/ /\ Group = "replace"
     /\ op = "strReplace" /\ s \in Strs /\ p \in Froms /\ q \in Tos /\ a = ANone /\ b = ANone /\ c = ANone
  \/ /\ Group = "fmt"
     /\ op \in FmtOps /\ s \in Strs /\ p = E /\ q = E /\ a \in Widths /\ b = ANone /\ c = ANone

Next == UNCHANGED vars

NoA == SelectSeq(s, LAMBDA ch : ch # 97)       \* joinNull: the "a" elements are null

Expected ==
  CASE op = "length"      -> Length(s)
    [] op = "stringChars" -> StringChars(s)
    [] op = "reverse"     -> ReverseChars(s)
    [] op = "reverseJoin" -> ReverseJoin(s)
    [] op = "mapDup"      -> MapDup(s)
    [] op = "mapCp"       -> MapCp(s)
    [] op = "flatMapDup"  -> FlatMapDup(s)
    [] op = "flatMapDrop" -> FlatMapDrop(s)
    [] op = "codepoint"   -> Codepoint(s)
    [] op = "char"        -> Char(a)
    [] op = "trim"        -> Trim(s)
    [] op = "asciiUpper"  -> AsciiUpper(s)
    [] op = "asciiLower"  -> AsciiLower(s)
    [] op = "index"       -> Index(s, a)
    [] op = "substr"      -> Substr(s, a, b)
    [] op = "slice"       -> Slice(s, a, b, c)
    [] op = "findSubstr"  -> FindSubstr(p, s)
    [] op = "startsWith"  -> StartsWith(s, p)
    [] op = "endsWith"    -> EndsWith(s, p)
    [] op = "split"       -> Split(s, p)
    [] op = "joinSplit"   -> IF p = <<>> THEN Outside ELSE Join(p, Split(s, p).v)
    [] op = "joinChars"   -> Join(p, Single(s))
    [] op = "joinNull"    -> Join(p, Single(NoA))
    [] op = "joinOther"   -> Join(q, Split(s, p).v)
    [] op = "splitLimit"  -> SplitLimit(s, p, a)
    [] op = "splitLimitR" -> SplitLimitR(s, p, a)
    [] op = "stripChars"  -> StripChars(s, p)
    [] op = "lstripChars" -> LStripChars(s, p)
    [] op = "rstripChars" -> RStripChars(s, p)
    [] op = "strReplace"  -> StrReplace(s, p, q)
    [] op \in {"fmtArr", "fmtBare", "fmtStar", "fmtObj"} -> FmtWidth(s, a.n, FALSE)
    [] op \in {"fmtLeft", "fmtObjLeft"} -> FmtWidth(s, a.n, TRUE)

\* The identities, once per distinct argument tuple (under one op of each family)
Laws ==
  CASE op = "length"     -> LawChars(s)
    [] op = "char"       -> (Char(a).r = "str" => Codepoint(Char(a).v) = RNum(a.n))
    [] op = "trim"       -> LawTrim(s) /\ LawStrip(s, TrimSet)
    [] op = "asciiUpper" -> LawCase(s)
    [] op = "index"      -> (Index(s, a).r = "str" <=> (a.k = "int" /\ a.n >= 0 /\ a.n < Len(s)))
    [] op = "substr"     -> LawSubstr(s, a, b)
    [] op = "slice"      -> LawSlice(s, a, b, c)
    [] op = "findSubstr" -> LawFind(p, s)
    [] op = "split"      -> LawSplit(s, p)
    [] op = "joinSplit"  -> (p # <<>> => Expected = RStr(s))
    [] op = "joinChars"  -> LawJoin(p, Single(s))
    [] op = "joinNull"   -> LawJoin(p, Single(NoA))
    [] op = "joinOther"  -> LawJoin(q, Split(s, p).v) /\ Expected.v = ReplSeq(s, p, q)
    [] op = "splitLimit" -> LawSplitLimit(s, p, a)
    [] op = "stripChars" -> LawStrip(s, p)
    [] op = "strReplace" -> LawReplace(s, p, q)
    [] op = "fmtArr"     -> LawFmt(s, a.n)
    [] OTHER -> TRUE

\* 1e20 is no machine integer.  Where the definitions give a value for it (slice bounds,
\* substr, split limits) an implementation that rejects the number outright is not judged
\* (one upstream implementation does); one that answers must give the defined value.
MayReject == /\ a.k = "huge" \/ b.k = "huge" \/ c.k = "huge"
             /\ Expected.r \notin {"error", "outside"}

Emit == PrintT(<<"CASE", ToJson([op |-> op, s |-> s, p |-> p, q |-> q, a |-> a, b |-> b, c |-> c,
                                 exp |-> Expected, lenient |-> MayReject])>>)
=============================================================================
