CONSTANTS N = 3  MaxHandles = 2  MaxEdges = 2  MaxOps = 8
INIT MCInit
NEXT NextPlain
INVARIANTS Inv GcIdempotent
CHECK_DEADLOCK FALSE
