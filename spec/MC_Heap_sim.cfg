CONSTANTS N = 5  MaxHandles = 2  MaxEdges = 3  MaxOps = 24
INIT MCInit
NEXT NextSim
INVARIANTS Inv EmitBehaviour
CHECK_DEADLOCK FALSE
