------------------------------- MODULE Spans -------------------------------
(***************************************************************************)
(* The span table of rsjsonnet-lang (src/span.rs, SpanManager) as a state  *)
(* machine, plus the two notions of C16 that live next to it: "a span      *)
(* lies inside the source it names" (ValidSpan, the precondition of        *)
(* Intern; reused by Trace_Spans) and the cropping of a stack trace by     *)
(* --max-trace (Crop).                                                     *)
(*                                                                         *)
(* State                                                                   *)
(*   lens    the length every context was registered with (specification   *)
(*           level truth, not stored by the code)                          *)
(*   ends    SpanManager.contexts: cumulative end offsets AS CODED, every  *)
(*           context occupies len+1 global offsets (so that a span at end  *)
(*           of file has an offset of its own)                             *)
(*   table   SpanManager.idx_to_span (span_to_idx is its inverse)          *)
(*   issued  every id returned so far with the triple it was made from     *)
(*                                                                         *)
(* Actions: InsertContext(len), Intern(ctx, s, e).  Get(id) does not       *)
(* change the state: it is the operator Decode, and the invariant          *)
(* RoundTrip applies it to every id ever issued in every reachable state.  *)
(*                                                                         *)
(* The packing is modelled AS CODED on a 64-bit word seen as three fields  *)
(* (bit 63 | 25 bits | 38 bits); Pack is total: what would spill out of a  *)
(* field is or-ed into the next one exactly as `(off+1) | len << 38` does, *)
(* so the model with a wrong inline condition fails RoundTrip instead of   *)
(* being undefined (constant Variant selects such deliberately wrong       *)
(* variants; they are used to show that the universe is sharp).            *)
(*                                                                         *)
(* Numbers.  TLC integers are 32-bit and the magnitudes of interest reach  *)
(* 2^42, so a natural number n is the pair <<hi, lo>> with lo < 2^20 and   *)
(* n = hi * 2^20 + lo ("big").  All arithmetic below is exact.             *)
(***************************************************************************)
EXTENDS Integers, Sequences, FiniteSets, TLC

CONSTANT Variant   \* "coded" = the arithmetic of span.rs; other values: deliberately wrong models

VARIABLES lens, ends, table, issued

svars == <<lens, ends, table, issued>>

-----------------------------------------------------------------------------
(* big naturals *)

B == 1048576                                  \* 2^20

Norm(hi, lo) == <<hi + (lo \div B), lo % B>>   \* lo >= 0
Small(n) == Norm(0, n)                         \* n a TLC natural
Zero == <<0, 0>>
One == <<0, 1>>
Pow2(k) == IF k >= 20 THEN <<2^(k - 20), 0>> ELSE <<0, 2^k>>

IsBig(a) == /\ a \in Nat \X Nat
            /\ a[2] < B

Add(a, b) == Norm(a[1] + b[1], a[2] + b[2])
Le(a, b) == a[1] < b[1] \/ (a[1] = b[1] /\ a[2] <= b[2])
Lt(a, b) == a[1] < b[1] \/ (a[1] = b[1] /\ a[2] < b[2])
\* a - b for b <= a
Sub(a, b) == IF a[2] >= b[2] THEN <<a[1] - b[1], a[2] - b[2]>>
             ELSE <<a[1] - b[1] - 1, a[2] + B - b[2]>>

Neg == <<-1, 0>>                               \* "below zero" marker of Shift
\* a + d for a small integer d of either sign
Shift(a, d) == IF d >= 0 THEN Add(a, Small(d))
               ELSE IF Le(Small(-d), a) THEN Sub(a, Small(-d)) ELSE Neg

\* value as a TLC integer, only for a < 2^31
ToSmall(a) == a[1] * B + a[2]

-----------------------------------------------------------------------------
(* the id word: bit 63 (f), bits 38..62 (m), bits 0..37 (l) *)

OffsetBits == 38
LenBits == 63 - OffsetBits                    \* 25
OffHi == 2^(OffsetBits - 20)                   \* 2^38 = <<OffHi, 0>>
LenMod == 2^LenBits                            \* 2^25
OffsetMask == Sub(Pow2(OffsetBits), One)       \* 2^38 - 1
LenMax == Sub(Pow2(LenBits), One)              \* 2^25 - 1

RECURSIVE BitOr(_, _)
BitOr(a, b) == IF a = 0 THEN b ELSE IF b = 0 THEN a
               ELSE (IF a % 2 = 1 \/ b % 2 = 1 THEN 1 ELSE 0) + 2 * BitOr(a \div 2, b \div 2)

\* (off1 | len << 38) as a 64-bit word; bits shifted beyond bit 63 are lost
Pack(off1, len) ==
  LET spill == off1[1] \div OffHi                        \* bits >= 38 of off1
      lenLo == (len[1] % (LenMod \div B)) * B + len[2]    \* len mod 2^25
      lenHi == len[1] \div (LenMod \div B)                \* len div 2^25
  IN [f |-> BitOr(lenHi % 2, (spill \div LenMod) % 2),
      m |-> BitOr(lenLo, spill % LenMod),
      l |-> <<off1[1] % OffHi, off1[2]>>]

\* (i | 1 << 63) for a table index i
PackIndex(i) == [f |-> 1, m |-> 0, l |-> Small(i)]

WordOK(w) == /\ w.f \in {0, 1}
             /\ w.m \in 0..(LenMod - 1)
             /\ IsBig(w.l) /\ Lt(w.l, Pow2(OffsetBits))
             /\ ~(w.f = 0 /\ w.m = 0 /\ w.l = Zero)        \* NonZeroU64

-----------------------------------------------------------------------------
(* contexts *)

\* a span lies inside a source of length L  (the precondition of Intern)
ValidSpan(L, s, e) == Le(s, e) /\ Le(e, L)

Base(en, c) == IF c = 1 THEN Zero ELSE en[c - 1]

\* Rust's binary_search_by_key on a strictly increasing vector:
\* Ok(position of the match) or Err(insertion point); positions 0-based
BinSearch(en, off) ==
  IF \E j \in 1..Len(en) : en[j] = off
  THEN [ok |-> TRUE, i |-> (CHOOSE j \in 1..Len(en) : en[j] = off) - 1]
  ELSE [ok |-> FALSE, i |-> Cardinality({j \in 1..Len(en) : Lt(en[j], off)})]

\* get_context_from_offset, as a 1-based context number
CtxFromOffset(en, off) ==
  LET r == BinSearch(en, off) IN
  IF r.ok THEN (IF Variant = "searchOk" THEN r.i ELSE r.i + 1) + 1
  ELSE r.i + 1

Panic == [panic |-> TRUE]

\* get_span
Decode(w, en, tb) ==
  IF w.f = 1 THEN
    LET i == ToSmall(w.l) IN
    IF w.m = 0 /\ w.l[1] < 1024 /\ i + 1 \in 1..Len(tb) THEN tb[i + 1] ELSE Panic
  ELSE IF w.l = Zero THEN Panic                 \* (inner & MASK) - 1 underflows
  ELSE
    LET off == Sub(w.l, One)
        c == CtxFromOffset(en, off)
    IN IF c < 1 \/ c > Len(en) THEN Panic        \* contexts[i] out of bounds
       ELSE LET min == Base(en, c) IN
            IF ~Le(min, off) THEN Panic          \* start_offset - min_offset underflows
            ELSE LET s == Sub(off, min) IN
                 [ctx |-> c, s |-> s, e |-> Add(s, Small(w.m))]

Get(k) == Decode(issued[k].w, ends, table)

\* the condition under which intern_span uses the table instead of the inline form
UseTable(len, startOff) ==
  CASE Variant = "gtMask" -> Lt(LenMax, len) \/ Lt(OffsetMask, startOff)
    [] Variant = "lenLe"  -> Lt(Pow2(LenBits), len) \/ Le(OffsetMask, startOff)
    [] OTHER              -> Lt(LenMax, len) \/ Le(OffsetMask, startOff)

TableIndex(tb, tr) ==     \* span_to_idx.get(tr), 0-based, or Len(tb) when vacant
  IF \E j \in 1..Len(tb) : tb[j] = tr
  THEN (CHOOSE j \in 1..Len(tb) : tb[j] = tr) - 1
  ELSE Len(tb)

-----------------------------------------------------------------------------
(* actions *)

Init == /\ lens = <<>> /\ ends = <<>> /\ table = <<>> /\ issued = <<>>

InsertContext(len) ==
  /\ lens' = Append(lens, len)
  /\ ends' = Append(ends, Add(Add(Base(ends, Len(ends) + 1), len), One))
  /\ UNCHANGED <<table, issued>>

Intern(c, s, e) ==
  /\ c \in 1..Len(lens)
  /\ ValidSpan(lens[c], s, e)
  /\ LET min == Base(ends, c)
         startOff == Add(min, s)
         endOff == Add(min, e)
         len == Sub(e, s)
         tr == [ctx |-> c, s |-> s, e |-> e]
     IN \* the three assert!s of intern_span never fire under ValidSpan
        /\ Assert(Le(s, e) /\ Lt(startOff, ends[c]) /\ Lt(endOff, ends[c]),
                  <<"intern_span assertion would fail", c, s, e>>)
        /\ IF UseTable(len, startOff)
           THEN LET i == TableIndex(table, tr) IN
                /\ table' = IF i = Len(table) THEN Append(table, tr) ELSE table
                /\ issued' = Append(issued, [w |-> PackIndex(i), tr |-> tr])
           ELSE /\ table' = table
                /\ issued' = Append(issued, [w |-> Pack(Add(startOff, One), len), tr |-> tr])
  /\ UNCHANGED <<lens, ends>>

-----------------------------------------------------------------------------
(* invariants *)

TypeOK ==
  /\ \A j \in 1..Len(lens) : IsBig(lens[j])
  /\ Len(ends) = Len(lens)
  /\ \A j \in 1..Len(ends) : IsBig(ends[j])
  /\ \A k \in 1..Len(issued) : WordOK(issued[k].w)

\* ends[c] = sum of (len+1) of contexts 1..c; hence strictly increasing, which is
\* what makes the binary search meaningful
EndsExact ==
  \A c \in 1..Len(ends) : ends[c] = Add(Add(Base(ends, c), lens[c]), One)
EndsIncreasing ==
  \A c \in 2..Len(ends) : Lt(ends[c - 1], ends[c])

\* THE property: every id ever issued still decodes to the triple it was made from
RoundTrip ==
  \A k \in 1..Len(issued) : Get(k) = issued[k].tr

\* ids are usable as keys: equal ids iff equal spans
Canonical ==
  \A j, k \in 1..Len(issued) : (issued[j].w = issued[k].w) <=> (issued[j].tr = issued[k].tr)

\* the table holds no duplicates and only spans that cannot be inline
TableTight ==
  /\ \A j, k \in 1..Len(table) : j # k => table[j] # table[k]
  /\ \A j \in 1..Len(table) :
       LET t == table[j] IN
       UseTable(Sub(t.e, t.s), Add(Base(ends, t.ctx), t.s))

Inv == TypeOK /\ EndsExact /\ EndsIncreasing /\ RoundTrip /\ Canonical /\ TableTight

-----------------------------------------------------------------------------
(* --max-trace: cropping of a stack trace of n entries to at most t.        *)
(* Entries are numbered 1 (outermost: pushed first) .. n (innermost); the    *)
(* report lists innermost first.  If n <= t everything is shown; otherwise   *)
(* the ceil(t/2) innermost entries, one note "... n-t items hidden ...",     *)
(* then the floor(t/2) outermost entries.                                    *)

Entry(i) == [k |-> "entry", i |-> i]
Hidden(c) == [k |-> "hidden", i |-> c]

Down(hi, lo) == [j \in 1..(IF hi >= lo THEN hi - lo + 1 ELSE 0) |-> Entry(hi - j + 1)]

Crop(n, t) ==
  IF n <= t THEN Down(n, 1)
  ELSE LET outer == t \div 2
           inner == t - outer
       IN Down(n, n - inner + 1) \o <<Hidden(n - t)>> \o Down(outer, 1)

CropShown(n, t) == {Crop(n, t)[j].i : j \in {j \in 1..Len(Crop(n, t)) : Crop(n, t)[j].k = "entry"}}

LawCrop(n, t) ==
  LET cr == Crop(n, t)
      ents == {j \in 1..Len(cr) : cr[j].k = "entry"}
      hids == {j \in 1..Len(cr) : cr[j].k = "hidden"}
      m == IF n < t THEN n ELSE t
  IN /\ Cardinality(ents) = m                                   \* never more than t, all when they fit
     /\ Cardinality(CropShown(n, t)) = m                        \* no entry twice
     /\ CropShown(n, t) \subseteq 1..n
     /\ \A j, k \in ents : j < k => cr[j].i > cr[k].i           \* innermost first
     /\ (n <= t => hids = {})
     /\ (n > t => /\ Cardinality(hids) = 1
                  /\ \A j \in hids : cr[j].i = n - t /\ cr[j].i + m = n)
     /\ (n > t /\ t >= 1 => n \in CropShown(n, t))              \* the failing frame's caller is kept
     /\ (n > t /\ t >= 2 => 1 \in CropShown(n, t))              \* and the entry point
     /\ \A j \in hids : \A a \in ents : \A b \in ents :         \* the hidden ones are the middle
          (a < j /\ j < b) => cr[a].i > cr[b].i + cr[j].i
=============================================================================
