CONSTANTS Steps = 7 Fuel = 60 RmMode = 1
INIT Init
NEXT Next
INVARIANT Emit
CHECK_DEADLOCK FALSE
