CONSTANT Mode = "bin"
CONSTANT MaxLen = 0
CONSTANT Extended = TRUE
INIT Init
NEXT Next
INVARIANTS L1 L2 L3 L4 Gate Emit
CHECK_DEADLOCK FALSE
