CONSTANT Modes = {"radixsim"}
CONSTANT Big = FALSE
CONSTANT JMax = 1
CONSTANT J16Max = 1
CONSTANT J16Len = 1
CONSTANT YMin = 0
CONSTANT YMax = 0
CONSTANT YAll = 0
INIT Init
NEXT Next
INVARIANTS Laws Emit
CHECK_DEADLOCK FALSE
