---------------------------- MODULE SpansArith ----------------------------
(***************************************************************************)
(* The pack / unpack arithmetic of span ids (Spans.tla: Pack, Decode,      *)
(* CtxFromOffset) over UNBOUNDED integers, for Apalache.                   *)
(*                                                                         *)
(* TLC checks Spans.RoundTrip on a table of magnitudes; this module checks *)
(* the same round trip for ALL context lengths l1, l2, l3 >= 0, every      *)
(* context c of the three and every span 0 <= s <= e <= len(c):            *)
(* whenever intern_span chooses the inline form, the 64-bit word is        *)
(* non-zero, has bit 63 clear, and get_span recovers (c, s, e).  Because   *)
(* all initial states are symbolic, Inv on the initial states is the       *)
(* universally quantified lemma (check with --length=0 or 1).              *)
(*                                                                         *)
(* `a | b << 38` is written a + b * 2^38: the two coincide when a < 2^38,  *)
(* which is part of what is proved (LowFits).                              *)
(***************************************************************************)
EXTENDS Integers

VARIABLES
  \* @type: Int;
  l1,
  \* @type: Int;
  l2,
  \* @type: Int;
  l3,
  \* @type: Int;
  c,
  \* @type: Int;
  s,
  \* @type: Int;
  e

P38 == 274877906944               \* 2^38
P25 == 33554432                   \* 2^25
P63 == 9223372036854775808        \* 2^63

End1 == l1 + 1
End2 == End1 + l2 + 1
End3 == End2 + l3 + 1

Base(k) == IF k = 1 THEN 0 ELSE IF k = 2 THEN End1 ELSE End2
LenOf(k) == IF k = 1 THEN l1 ELSE IF k = 2 THEN l2 ELSE l3

StartOff == Base(c) + s
SpanLen == e - s

\* intern_span: inline iff not (len > LEN_MAX or start_offset >= OFFSET_MASK)
Inline == ~(SpanLen > P25 - 1 \/ StartOff >= P38 - 1)

Word == (StartOff + 1) + SpanLen * P38

\* SpanId::expand
OffField == Word % P38
LenField == Word \div P38
Off == OffField - 1

\* get_context_from_offset: Ok(i) -> i + 1, Err(i) -> i on the increasing vector <<End1, End2, End3>>
CtxOf(off) == IF off < End1 THEN 1 ELSE IF off < End2 THEN 2 ELSE IF off < End3 THEN 3 ELSE 4

Init ==
  /\ l1 \in Nat /\ l2 \in Nat /\ l3 \in Nat
  /\ c \in 1..3
  /\ s \in Nat /\ e \in Nat
  /\ s <= e /\ e <= LenOf(c)

Next == UNCHANGED <<l1, l2, l3, c, s, e>>

LowFits == Inline => (StartOff + 1 < P38 /\ SpanLen < P25)

Inv ==
  /\ LowFits
  /\ Inline =>
       /\ Word > 0 /\ Word < P63                      \* NonZeroU64, bit 63 clear
       /\ OffField >= 1                               \* (inner & MASK) - 1 does not underflow
       /\ CtxOf(Off) = c
       /\ Off - Base(CtxOf(Off)) = s
       /\ (Off - Base(CtxOf(Off))) + LenField = e
=============================================================================
