------------------------------ MODULE Pipeline ------------------------------
(***************************************************************************)
(* C01: the outcome protocol of one request.  A source text goes through    *)
(* Lex -> Parse -> Analyze -> Eval -> Manifest; the run ends in exactly one *)
(* of: a manifested value, or a structured error of the stage that failed.  *)
(* There is no action for a panic, an abort, an internal assertion or a     *)
(* timeout: a recorded run that ends that way is not a behaviour of this    *)
(* specification.  The command-line tool maps the outcome to exit status    *)
(* 0 (value), 1 (error) or 2 (usage error).                                 *)
(***************************************************************************)
EXTENDS Integers, Sequences, FiniteSets, TLC

Stages == <<"lex", "parse", "analyze", "eval", "manifest">>

VARIABLES stage,     \* index into Stages of the stage about to run, or 0 = not started, 6 = done
          outcome    \* "" while running; "value" or "error:<stage>" at the end

pvars == <<stage, outcome>>

Init == stage = 0 /\ outcome = ""

Start == stage = 0 /\ stage' = 1 /\ UNCHANGED outcome

StageOk(i) ==
  /\ stage = i /\ i \in 1..5 /\ outcome = ""
  /\ stage' = i + 1
  /\ outcome' = IF i = 5 THEN "value" ELSE ""

StageFails(i) ==
  /\ stage = i /\ i \in 1..5 /\ outcome = ""
  /\ stage' = 6
  /\ outcome' = CASE i = 1 -> "error:lex" [] i = 2 -> "error:parse" [] i = 3 -> "error:analyze"
                  [] i = 4 -> "error:eval" [] i = 5 -> "error:eval"    \* manifestation errors are evaluation errors

Next == Start \/ \E i \in 1..5 : StageOk(i) \/ StageFails(i)

Outcomes == {"value", "error:lex", "error:parse", "error:analyze", "error:eval"}

\* exactly one outcome, of the legal kinds, and only at the end
OneOutcome == (stage = 6 => outcome \in Outcomes) /\ (stage < 6 => outcome = "")

ExitStatus(o) == IF o = "value" THEN 0 ELSE 1
=============================================================================
