"""C11 - a program state's answers do not depend on its past requests.

 (a) spec/Machine.tla: HistoryIndependent model-checked over all abstract thunk graphs and
     all request histories (with RestoreOnFail = FALSE, i.e. thunks left in progress by a
     failed request, TLC produces the 2-request counterexample).
 (b) spec/Hist.tla + MC_Hist.tla: TLC enumerates every history of length <= k over a pool of
     sources sharing library values (an external variable and an imported file), failing
     requests included; each history runs on ONE long-lived Program, each request also on a
     fresh Program; spec/Trace_Hist.tla (TLC) validates that every recorded outcome equals the
     fresh outcome of the same request under the same frame limit."""
import json
import os

import vlib
from vlib import Check, run_tlc, tlc_must_pass, run_cases

PROP = "C11"

LIB = ('{ a: 1, bad: error "bad lib", f(x):: x * 2, '
       'deep: std.foldl(function(a, i) [a], std.range(1, 40), 0), '
       'lazyobj: { p: $.a + 1, q: error "q" }, chain: std.foldl(function(a, i) a + 1, std.range(1, 30), 0), '
       'e_type: 1 - "a", e_field: {}.nope, e_index: [1][5], e_div: 1 / 0, e_arg: std.length(1), '
       'e_call: (function(x) x)(), badmap: std.map(function(x, y) x, [10, 20]), okmap: std.map(function(x) x + 1, [10, 20]), '
       'acct: { user: "u", pw: "p", has: std.objectHasAll(self, "pw"), n: std.length(std.objectFieldsAll(self)) }, '
       'e_import: import "missing.libsonnet", e_assertobj: { assert false : "ao", a: 1 }.a, e_flat: std.flatMap(function(x, y) [x], [1]) }')
FILES = {"lib.libsonnet": '{ f(x):: x + 100, v: std.extVar("lib").a, bad: error "bad import", big: std.makeArray(50, function(i) i) }'}
SOURCES = [
    'std.extVar("lib").a + 1',                                              # 0 uses shared ext var
    '(import "lib.libsonnet").f(2) + (import "lib.libsonnet").v',           # 1 shared import
    'error "boom"',                                                         # 2 explicit error
    'local r(n) = if n == 0 then 0 else 1 + r(n - 1); r(30)',               # 3 overflows under a small limit
    '{ x: std.extVar("lib").bad }',                                         # 4 fails inside the shared value (in manifest)
    'function(a, b=2) [a, b, std.extVar("lib").a]',                         # 5 function: called
    'std.objectRemoveKey({ a: 1, b: 2 }, "q" + "z")',                       # 6 looks a never-interned name up
    '{ qz: 1, r: std.objectHas({ qz: 1 }, "q" + "z") }',                    # 7 interns that name
    'assert std.extVar("lib").a == 2 : "af"; 1',                            # 8 assertion failure
    'std.extVar("lib").deep == std.extVar("lib").deep',                     # 9 deep shared structure: overflows when small
    '(import "lib.libsonnet").bad',                                         # 10 fails inside the shared import
    'std.extVar("lib").lazyobj.p + std.extVar("lib").chain',                # 11 succeeds; shares thunks with 12
    'std.extVar("lib").lazyobj',                                            # 12 manifest fails in q after p was forced
    '{ name: "svc", replicas: 1, assert self.replicas > 0 : "neg" }',         # 13 object with an assertion
    '{ replicas: 0 }',                                                      # 14 overrides what the assertion reads
    'function(a, b) a + b',                                                 # 15 called with the THUNKS of 13 and 14
    'local l = std.extVar("lib"); [l.okmap, l.badmap]',                     # 16 fails while a mapped call is in progress
    'std.extVar("lib").e_type', 'std.extVar("lib").e_field', 'std.extVar("lib").e_index',   # 17 18 19
    'std.extVar("lib").e_div', 'std.extVar("lib").e_arg', 'std.extVar("lib").e_call',       # 20 21 22
    'std.extVar("lib").e_import', 'std.extVar("lib").e_assertobj', 'std.extVar("lib").e_flat',  # 23 24 25
    'std.objectRemoveKey(std.extVar("lib").acct, "pw")',                    # 26 derives an object from a shared one
    'std.extVar("lib").acct',                                               # 27 looks into the shared object
    'std.extVar("lib").acct + { pw: "q" }',                                 # 28 extends the shared object
    # 29: a call that returns a FRESH object whose fields read self / $ / the argument (held by the caller only)
    'function(o, n=1) o + { name: "svc" + n, url: "http://" + self.name + ":" + self.port, nested: { up: $.name, arr: [self.up, n] } }',
]
CALLSRC_ARGS = {15: {"a": 13, "b": 14}}
CALL_ARGS = {5: {"a": "10"}, 29: {"o": "{ port: 80, [\"k\" + 1]: self.port + 1 }"}}


def req_str(r):
    return ":".join(str(x) for x in r)


def concrete(r, hold=False):
    """hold: the harness collects while it holds the request's value, before manifesting it (one more
    point at which Machine's Collect action may fire; it must be as invisible as anywhere else)."""
    if r[0] in ("eval", "again"):
        return {"op": r[0], "src": r[1], "manifest": "multi", "hold_gc": hold}
    if r[0] == "call":
        return {"op": "call", "src": r[1], "args": CALL_ARGS[r[1]], "manifest": "multi", "hold_gc": hold}
    if r[0] == "callsrc":
        return {"op": "call", "src": r[1], "args_src": CALLSRC_ARGS[r[1]], "manifest": "multi", "hold_gc": hold}
    if r[0] == "gc":
        return {"op": "gc"}
    if r[0] == "limit":
        return {"op": "max_stack", "s": r[1]}
    raise ValueError(r)


def digest(o):
    if "ok" in o:
        return "V:" + str(o["ok"]) + "|T:" + ",".join(o.get("traces", []))
    if "err" in o:
        return "E:" + str(o["err"]["kind"]) + ":" + str(o["err"].get("msg"))
    if "gc" in o:
        return "gc"
    if "max_stack" in o:
        return "limit"
    return json.dumps(o)


def hist_case(reqs):
    return {"k": "hist", "ext_code": {"lib": LIB}, "files": FILES, "sources": SOURCES, "reqs": reqs}


def cfg(maxlen, limits):
    path = os.path.join(vlib.workdir("tlc"), f"gen_hist_{maxlen}.cfg")
    with open(path, "w") as f:
        f.write("CONSTANTS Sources = {%s} CallSources = {5, 29} CallSrcSources = {15} Limits = {%s} MaxLen = %d\n"
                "INIT Init\nNEXT Next\nINVARIANT Emit\nCHECK_DEADLOCK FALSE\n"
                % (", ".join(str(i) for i in (range(len(SOURCES)) if maxlen < 4 else LEN4_SOURCES)), ", ".join(map(str, limits)), maxlen))
    return path


# histories of length 4 are enumerated over a part of the pool only (the whole pool gives 16.5 million
# histories): the sources with shared state, the failing kinds and the call sources
LEN4_SOURCES = [0, 3, 4, 5, 9, 10, 11, 12, 13, 14, 15, 16, 27, 28, 29]


BIG = 100000


def run(tier, seed):
    chk = Check(PROP, tier, seed)
    chk.rule = ("every history of length 2 and (quick: a seeded sample of) length 3, thorough also a sample of length 4 (over the sub-pool LEN4_SOURCES), over the symbolic requests (eval, again, call, callsrc, gc, limit) on the 30 sources of the pool "
                "sharing an external variable and an imported file; distinct = history; non-trivial = the history contains a "
                "failing request or a limit change before its last request")
    chk.assumptions = ["the source pool is fixed in checks/c11.py (SOURCES, LIB, FILES)",
                       "memoised results of earlier requests may turn a StackOverflow of a fresh state into the value the "
                       "fresh state gives under a large limit (frames-per-level is implementation defined, see C10)"]
    vlib.build_harness()
    res = run_tlc("MC_Machine", "MC_Machine_quick.cfg" if tier == "quick" else "MC_Machine_thorough.cfg",
                  "c11_machine", workers=8, timeout=3000, coverage=False)
    tlc_must_pass(res, "Machine model (HistoryIndependent)")
    chk.add_tlc(res, "Machine exhaustive (HistoryIndependent, restored thunks)")
    limits = [12, 500]
    hists = []
    rr = vlib.rng(seed, "c11")
    for maxlen, cap in (((2, None), (3, 16000)) if tier == "quick" else ((2, None), (3, None), (4, 60000))):
        res = run_tlc("MC_Hist", cfg(maxlen, limits), f"c11_hist{maxlen}", workers=8, timeout=3000, coverage=False)
        tlc_must_pass(res, "history enumeration")
        chk.add_tlc(res, f"histories of length {maxlen}")
        hs = list(res.lines("CASE"))
        if cap is not None and len(hs) > cap:
            # never sampled away: "use the parts, then combine them" - a call whose arguments are sources that
            # earlier requests of the same history have already evaluated
            def combines(h):
                last = h["hist"][-1]
                if last[0] != "callsrc":
                    return False
                args = set(CALLSRC_ARGS[last[1]].values())
                return any(q[0] in ("eval", "again") and q[1] in args for q in h["hist"][:-1])
            must = [h for h in hs if combines(h)]
            rest = [h for h in hs if not combines(h)]
            hs = must + rr.sample(rest, max(0, cap - len(must)))
        hists += hs

    # fresh baselines
    fresh_keys = sorted({(req_str(f), lim) for h in hists for f, lim in zip(h["fresh"], h["limits"])}
                        | {(req_str(f), BIG) for h in hists for f in h["fresh"]})
    by_str = {req_str(f): f for h in hists for f in h["fresh"]}
    fcases = [hist_case([{"op": "max_stack", "s": lim}, concrete(by_str[rs])]) for rs, lim in fresh_keys]
    fres = run_cases(fcases, "c11_fresh", timeout_ms=30000)
    base = {}
    for (rs, lim), case, r in zip(fresh_keys, fcases, fres):
        if vlib.is_crash(r):
            chk.disagree({"kind": "history", "class": "crash", "req": rs}, f"fresh request {rs} crashed: {vlib.crash_desc(r)}", case)
            base[(rs, lim)] = "CRASH"
        else:
            base[(rs, lim)] = digest(r["outs"][1])

    cases = [hist_case([concrete(q, hold=(q[0] in ("call", "callsrc") and hi % 2 == 0) or (hi + qi) % 3 == 0) for qi, q in enumerate(h["hist"])]) for hi, h in enumerate(hists)]
    results = run_cases(cases, "c11_hist", timeout_ms=60000)

    lines = [{"ev": "fresh", "req": rs, "limit": lim, "out": base[(rs, lim)],
              "ovf": base[(rs, lim)].startswith("E:StackOverflow")} for rs, lim in fresh_keys]
    good_lines = list(lines)
    bad = []
    for h, case, r in zip(hists, cases, results):
        key = json.dumps(h["hist"])
        failing_before = False
        if vlib.is_crash(r):
            chk.count(key=key, nontrivial=True)
            chk.disagree({"kind": "history", "class": "crash"}, f"history {h['hist']} crashed: {vlib.crash_desc(r)}", case)
            continue
        evs = [{"ev": "start"}]
        ok = True
        first_bad = None
        for k, (q, f, lim, o) in enumerate(zip(h["hist"], h["fresh"], h["limits"], r["outs"])):
            d = digest(o)
            evs.append({"ev": "req", "req": req_str(q), "fresh": req_str(f), "limit": lim, "big": BIG, "out": d})
            b = base[(req_str(f), lim)]
            if not (d == b or (b.startswith("E:StackOverflow") and d == base[(req_str(f), BIG)])):
                if ok:
                    first_bad = (k, q, d, b)
                ok = False
            if k < len(h["hist"]) - 1 and (d.startswith("E:") or q[0] == "limit"):
                failing_before = True
        chk.count(key=key, nontrivial=failing_before)
        if ok:
            good_lines.extend(evs)
        else:
            bad.append((h, case, evs, first_bad))
    # TLC validates every history that the condition accepts ...
    d_ = vlib.workdir("traces")
    CH = 400000
    for ci in range(0, len(good_lines), CH):
        chunk = lines + good_lines[max(ci, len(lines)):ci + CH] if ci > 0 else good_lines[:CH]
        path = os.path.join(d_, f"c11_hist_{ci}.ndjson")
        with open(path, "w") as f:
            for rec in chunk:
                f.write(json.dumps(rec) + "\n")
        res = run_tlc("Trace_Hist", "Trace_Hist.cfg", f"c11_trace_{ci}", workers=1, env={"TRACE": path}, timeout=3000,
                      deque=True, coverage=False, heap="6g", stack="1g")
        chk.add_tlc(res, f"history outcomes validated ({len(chunk)} events)")
        if res.rc != 0 or res.error:
            raise vlib.ToolError(f"Trace_Hist rejected a trace the Python evaluation of the same condition accepts: {res.out_path}")
        chk.traces_validated += sum(1 for e in chunk if e["ev"] == "start")
    # ... and must reject a representative of every failing class
    classes = {}
    for h, case, evs, fb in bad:
        k, q, d, b = fb
        prior = "after-failure" if any(e["out"].startswith("E:") for e in evs[1:k + 1]) else "after-success"
        sig = {"kind": "history", "class": "outcome-depends-on-history", "req": q[0], "prior": prior,
               "got": d.split(":")[1] if d.startswith("E:") else "value", "fresh": b.split(":")[1] if b.startswith("E:") else "value"}
        ck = json.dumps(sig, sort_keys=True)
        if ck not in classes:
            classes[ck] = (h, evs)
        chk.disagree(sig, f"history {h['hist']}: request #{k + 1} {q} under limit {h['limits'][k]} gives {d[:120]!r}, "
                          f"on a fresh state it gives {b[:120]!r}", dict(case, hist=h["hist"]))
    for ck, (h, evs) in list(classes.items())[:6]:
        path = os.path.join(d_, "c11_hist_bad.ndjson")
        with open(path, "w") as f:
            for rec in lines + evs:
                f.write(json.dumps(rec) + "\n")
        res = run_tlc("Trace_Hist", "Trace_Hist.cfg", "c11_trace_bad", workers=1, env={"TRACE": path}, timeout=600,
                      deque=True, coverage=False)
        chk.add_tlc(res, "rejection of a history-dependent outcome confirmed by TLC")
        if res.rc == 0 and not res.error:
            raise vlib.ToolError("Trace_Hist accepts a history the Python evaluation rejects")
    session_part(chk, tier, seed)
    chk.extra["histories"] = len(hists)
    chk.extra["histories_rejected"] = len(bad)
    chk.exhaustive = False
    chk.sample({"history": hists[len(hists) // 2]["hist"], "limits": hists[len(hists) // 2]["limits"]})
    chk.sample({"fresh_outcomes": {f"{k[0]}@{k[1]}": v[:60] for k, v in list(base.items())[:8]}})
    return chk.finish()


SESSION_TREE = {
    "d1/main.jsonnet": '{ cfg: import "config.libsonnet", lib: (import "../shared/lib.libsonnet").v, txt: importstr "data.txt" }',
    "d1/config.libsonnet": '{ replicas: 1 }',
    "d1/data.txt": "one",
    "d2/main.jsonnet": '{ cfg: import "config.libsonnet", lib: (import "../shared/lib.libsonnet").v, txt: importstr "data.txt" }',
    "d2/config.libsonnet": '{ replicas: 5 }',
    "d2/data.txt": "two",
    "d3/main.jsonnet": '{ cfg: import "config.libsonnet", bin: importbin "data.txt" }',      # falls through to -J
    "shared/lib.libsonnet": '{ v: std.trace("lib", 42), bad: error "lib bad" }',
    "J/config.libsonnet": '{ replicas: 9 }',
    "J/data.txt": "jay",
    "fail/main.jsonnet": '(import "../shared/lib.libsonnet").bad',
    "fail2/main.jsonnet": 'import "nonexistent.libsonnet"',
    "again/main.jsonnet": '[(import "../d1/config.libsonnet").replicas, (import "../d2/config.libsonnet").replicas]',
}
SESSION_FILES = ["d1/main.jsonnet", "d2/main.jsonnet", "d3/main.jsonnet", "fail/main.jsonnet", "fail2/main.jsonnet",
                 "again/main.jsonnet", "shared/lib.libsonnet"]


def session_part(chk, tier, seed):
    """The same property through rsjsonnet_front::Session (its import resolution and caches)."""
    import shutil
    root = vlib.workdir("c11", f"tmp{os.getpid()}")
    try:
        for rel, text in SESSION_TREE.items():
            pth = os.path.join(root, rel)
            os.makedirs(os.path.dirname(pth), exist_ok=True)
            with open(pth, "w") as f:
                f.write(text)
        path = os.path.join(vlib.workdir("tlc"), "gen_hist_sess.cfg")
        with open(path, "w") as f:
            f.write("CONSTANTS Sources = {%s} CallSources = {} CallSrcSources = {} Limits = {} MaxLen = 3\n"
                    "INIT Init\nNEXT Next\nINVARIANT Emit\nCHECK_DEADLOCK FALSE\n" % ", ".join(str(i) for i in range(len(SESSION_FILES))))
        res = run_tlc("MC_Hist", path, "c11_hist_sess", workers=8, timeout=1800, coverage=False)
        tlc_must_pass(res, "session history enumeration")
        chk.add_tlc(res, "session histories of length 3")
        hists = [h["hist"] for h in res.lines("CASE")]

        def conc(q):
            return {"op": "gc"} if q[0] == "gc" else {"op": "file", "path": os.path.join(root, SESSION_FILES[q[1]])}
        jp = [os.path.join(root, "J")]
        fresh = run_cases([{"k": "sess", "jpaths": jp, "reqs": [{"op": "file", "path": os.path.join(root, fn)}]}
                           for fn in SESSION_FILES], "c11_sess_fresh", timeout_ms=30000)
        base = {}
        for i, r in enumerate(fresh):
            base[i] = "CRASH" if vlib.is_crash(r) else json.dumps(r["outs"][0])
        cases = [{"k": "sess", "jpaths": jp, "reqs": [conc(q) for q in h]} for h in hists]
        results = run_cases(cases, "c11_sess", timeout_ms=60000)
        lines = [{"ev": "fresh", "req": f"file:{i}", "limit": 500, "out": base[i], "ovf": False} for i in base]
        nbad = 0
        for h, case, r in zip(hists, cases, results):
            chk.count(key="sess:" + json.dumps(h), nontrivial=True)
            if vlib.is_crash(r):
                chk.disagree({"kind": "session-history", "class": "crash"}, f"session history {h} crashed: {vlib.crash_desc(r)}", case)
                continue
            evs = [{"ev": "start"}]
            ok = True
            for k, (q, o) in enumerate(zip(h, r["outs"])):
                if q[0] == "gc":
                    continue
                d = json.dumps(o)
                evs.append({"ev": "req", "req": req_str(q), "fresh": f"file:{q[1]}", "limit": 500, "big": 500, "out": d})
                if d != base[q[1]] and ok:
                    ok = False
                    nbad += 1
                    chk.disagree({"kind": "session-history", "class": "outcome-depends-on-history", "file": SESSION_FILES[q[1]]},
                                 f"session history {[ (x[0], SESSION_FILES[x[1]]) if len(x) > 1 else x for x in h]}: request #{k + 1} gives "
                                 f"{d[:160]}, on a fresh session {base[q[1]][:160]}", case)
            if ok:
                lines.extend(evs)
        pth = os.path.join(vlib.workdir("traces"), "c11_sess.ndjson")
        with open(pth, "w") as f:
            for rec in lines:
                f.write(json.dumps(rec) + "\n")
        res = run_tlc("Trace_Hist", "Trace_Hist.cfg", "c11_trace_sess", workers=1, env={"TRACE": pth}, timeout=1800,
                      deque=True, coverage=False, heap="4g", stack="1g")
        chk.add_tlc(res, f"session outcomes validated ({len(lines)} events)")
        if res.rc != 0 or res.error:
            raise vlib.ToolError(f"Trace_Hist rejected session outcomes the Python evaluation accepts: {res.out_path}")
        chk.traces_validated += sum(1 for e in lines if e["ev"] == "start")
        chk.extra["session_histories"] = len(hists)
        chk.extra["session_histories_rejected"] = nbad
    finally:
        shutil.rmtree(root, ignore_errors=True)


def replay(path):
    with open(path) as f:
        rp = json.load(f)
    vlib.build_harness()
    case = {k: v for k, v in rp["case"].items() if k != "hist"}
    r = run_cases([case], "c11_replay")[0]
    print(json.dumps({"what": rp["what"], "outs": [digest(o)[:200] for o in r.get("outs", [])]}, indent=1))
    return 0
