"""C02 - the core language evaluates as the Jsonnet specification defines.

spec/Sem.tla is a big-step call-by-name reference semantics of the core language; TLC
enumerates closed programs of six grammar slices (spec/MC_Sem.tla), evaluates each with
Sem!Run and prints source text + expected outcome; the real implementation must produce
the same JSON / the same error (kind and message for `error` and assertions)."""
import json
import os

import vlib
import semcmp
from vlib import Check, run_tlc, tlc_must_pass, run_cases

PROP = "C02"
SLICES = ["arith", "str", "lazy", "func", "obj", "comp"]
QUICK_SAMPLE = {"arith": 1500, "str": 800, "lazy": 400, "func": 800, "obj": 1500, "comp": 800}


def sem_cfg(slice_, sample, fuel=40, module_consts="", rmmode=1):
    d = vlib.workdir("tlc")
    path = os.path.join(d, f"gen_sem_{slice_}_{sample}_{rmmode}.cfg")
    with open(path, "w") as f:
        f.write(f'CONSTANTS Slice = "{slice_}" Sample = {sample} Fuel = {fuel} RmMode = {rmmode}\n{module_consts}'
                "INIT Init\nNEXT Next\nINVARIANT Emit\nCHECK_DEADLOCK FALSE\n")
    return path


def generate(chk, tier, seed, slices=SLICES, module="MC_Sem", label="c02"):
    """Yields (slice, src, spec result) for every program TLC emitted."""
    out = []
    for sl in slices:
        sample = QUICK_SAMPLE.get(sl, 1000) if tier == "quick" else 0
        cfg = sem_cfg(sl, sample)
        res = run_tlc(module, cfg, f"{label}_{sl}", workers=8, seed=seed, timeout=3000, coverage=False)
        tlc_must_pass(res, f"Sem slice {sl}")
        chk.add_tlc(res, f"slice {sl} (sample={sample})")
        seen = set()
        for c in res.lines("CASE"):
            if c["src"] in seen:
                continue
            seen.add(c["src"])
            out.append((sl, c["src"], c["res"]))
    return out


def generate_mixed(chk, tier, seed, ncases=None, label="c02"):
    """Random deep programs (grammar walk, spec/MC_SemMix.tla, TLC -simulate)."""
    out = []
    seen = set()
    for steps in ((6, 9) if tier == "quick" else (5, 7, 9, 12)):
        n = ncases or (600 if tier == "quick" else 3000)
        path = os.path.join(vlib.workdir("tlc"), f"gen_mix_{steps}.cfg")
        with open(path, "w") as f:
            f.write(f"CONSTANTS Steps = {steps} Fuel = 60 RmMode = 1\nINIT Init\nNEXT Next\nINVARIANT Emit\nCHECK_DEADLOCK FALSE\n")
        res = run_tlc("MC_SemMix", path, f"{label}_mix{steps}", workers=1, seed=seed + steps, depth=steps + 1,
                      env={"NCASES": str(n)}, timeout=3000, coverage=False, extra=["-simulate"])
        tlc_must_pass(res, f"mixed programs, {steps} steps")
        chk.add_tlc(res, f"mixed slice: random walks of {steps} steps")
        for c in res.lines("CASE"):
            if c["src"] not in seen:
                seen.add(c["src"])
                out.append(("mix", c["src"], c["res"]))
    return out


def run(tier, seed):
    chk = Check(PROP, tier, seed)
    chk.rule = ("closed programs of the grammar slices arith/str/lazy/func/obj/comp of spec/MC_Sem.tla and random deep programs (MC_SemMix, simulation) "
                "(quick: seeded random subset per slice part, thorough: all); distinct = source text; "
                "non-trivial = the specification decides the program (not outside, not fuel-exhausted)")
    chk.assumptions = ["Sem.tla is transcribed from the Jsonnet language definition; numbers restricted to "
                       "integers |n| <= 10^6 (anything else is outside the decided domain)",
                       "Pretty.tla prints fully parenthesised source text"]
    vlib.build_harness()
    progs = generate(chk, tier, seed) + generate_mixed(chk, tier, seed)
    cases = [{"k": "eval", "src": src, "manifest": "multi", "max_stack": 200} for _, src, _ in progs]
    results = run_cases(cases, "c02", timeout_ms=20000)
    classes = {}
    for (sl, src, spec), case, r in zip(progs, cases, results):
        verdict, detail = semcmp.compare(spec, r)
        classes[f"{sl}:{verdict}:{detail if verdict == 'agree' else ''}"] = classes.get(f"{sl}:{verdict}:{detail if verdict == 'agree' else ''}", 0) + 1
        chk.count(key=src, nontrivial=(verdict in ("agree", "disagree") and detail != "bottom"))
        if verdict == "outside":
            chk.outside += 1
        elif verdict == "crash":
            chk.disagree({"kind": "sem", "class": "crash", "slice": sl, "msg": detail},
                         f"`{src}` crashed the implementation: {detail}", dict(case, expected=spec))
        elif verdict == "disagree":
            chk.disagree({"kind": "sem", "class": "wrong-outcome", "slice": sl},
                         f"`{src}`: {detail}", dict(case, expected=spec))
    chk.extra["outcome_classes"] = classes
    chk.traces_validated = len(cases)
    chk.exhaustive = (tier == "thorough")
    for i in range(0, len(progs), max(1, len(progs) // 5)):
        chk.sample({"src": progs[i][1], "expected": progs[i][2]})
    return chk.finish()


def replay(path):
    with open(path) as f:
        rp = json.load(f)
    vlib.build_harness()
    case = {k: v for k, v in rp["case"].items() if k != "expected"}
    r = run_cases([case], "c02_replay")[0]
    verdict, detail = semcmp.compare(rp["case"]["expected"], r)
    print(json.dumps({"src": case["src"], "expected": rp["case"]["expected"], "result": r,
                      "verdict": verdict, "detail": detail}, indent=1))
    return 1 if verdict in ("disagree", "crash") else 0
