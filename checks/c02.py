"""C02 - the core language evaluates as the Jsonnet specification defines.

spec/Sem.tla is a big-step call-by-name reference semantics of the core language; TLC
enumerates closed programs of seven grammar slices (spec/MC_Sem.tla), evaluates each with
Sem!Run and prints source text + expected outcome; the real implementation must produce
the same JSON / the same error (kind and message for `error` and assertions).

The slice "lib" covers the library members whose laziness is part of their definition
(Sem!LibCall: which array elements / object fields / arguments are forced, in which order
failures surface).  Members on which rsjsonnet differs from the text of upstream std.jsonnet
are named deviations (Sem!StdReading, DEV-1..DEV-9): the check compares with the "rsjsonnet"
reading and records, as evidence, how many generated programs tell the two readings apart."""
import json
import os
import re

import vlib
import semcmp
from vlib import Check, run_tlc, tlc_must_pass, run_cases

PROP = "C02"
SLICES = ["arith", "str", "lazy", "func", "obj", "comp", "lib"]
# per part of a slice (MC_Sem!Init samples every part separately)
QUICK_SAMPLE = {"arith": 1500, "str": 800, "lazy": 400, "func": 800, "obj": 1500, "comp": 800, "lib": 150}


def sem_cfg(slice_, sample, fuel=40, module_consts="", rmmode=1, tag=""):
    d = vlib.workdir("tlc")
    path = os.path.join(d, f"gen_sem_{slice_}_{sample}_{rmmode}{tag}.cfg")
    with open(path, "w") as f:
        f.write(f'CONSTANTS Slice = "{slice_}" Sample = {sample} Fuel = {fuel} RmMode = {rmmode}\n{module_consts}'
                "INIT Init\nNEXT Next\nINVARIANT Emit\nCHECK_DEADLOCK FALSE\n")
    return path


def generate(chk, tier, seed, slices=SLICES, module="MC_Sem", label="c02"):
    """Yields (slice, src, spec result) for every program TLC emitted."""
    out = []
    for sl in slices:
        sample = QUICK_SAMPLE.get(sl, 1000) if tier == "quick" else 0
        cfg = sem_cfg(sl, sample)
        res = run_tlc(module, cfg, f"{label}_{sl}", workers=8, seed=seed, timeout=3000, coverage=False)
        tlc_must_pass(res, f"Sem slice {sl}")
        chk.add_tlc(res, f"slice {sl} (sample={sample})")
        seen = set()
        for c in res.lines("CASE"):
            if c["src"] in seen:
                continue
            seen.add(c["src"])
            out.append((sl, c["src"], c["res"]))
    return out


STD_CALL = re.compile(r"std\.(\w+)\(")
# the library members specified by Sem!LibCall (the others met in the lib slice are older: length, map, ...)
LIB_MEMBERS = {"foldr", "filterMap", "mapWithIndex", "flatMap", "flattenArrays", "flattenDeepArray", "member", "contains",
               "count", "all", "any", "repeat", "reverse", "range", "remove", "removeAt", "find", "join", "objectValues",
               "objectValuesAll", "objectKeysValues", "objectKeysValuesAll", "objectHasEx", "objectFieldsEx", "isString",
               "isNumber", "isBoolean", "isObject", "isArray", "isFunction", "isNull", "xor", "xnor", "isEven", "isOdd",
               "isInteger", "isDecimal", "__array_less", "__array_less_or_equal", "__array_greater",
               "__array_greater_or_equal", "deepJoin", "avg", "sum", "minArray", "maxArray", "lines", "slice", "abs",
               "sign", "max", "min", "clamp"}


def builtins_of(src):
    return sorted(set(STD_CALL.findall(src)))


def outcome_class(spec):
    return spec[0] if spec[0] != "err" else "err:" + spec[1]


def lib_deviations(chk, tier, seed, progs):
    """Evidence only: the same lib programs under the upstream reading of the named deviations
    (Sem!StdReading); how many programs tell the readings apart, per builtin."""
    sample = QUICK_SAMPLE["lib"] if tier == "quick" else 0
    cfg = sem_cfg("lib", sample, module_consts="CONSTANT StdReading <- UpstreamReading\n", tag="_up")
    res = run_tlc("MC_Sem", cfg, "c02_lib_upstream", workers=8, seed=seed, timeout=3000, coverage=False)
    tlc_must_pass(res, "Sem slice lib, upstream reading")
    chk.add_tlc(res, f"slice lib under StdReading = upstream (sample={sample}; evidence only)")
    up = {c["src"]: c["res"] for c in res.lines("CASE")}
    by, examples, n = {}, {}, 0
    for sl, src, spec in progs:
        if sl != "lib" or src not in up or up[src] == spec:
            continue
        n += 1
        for fn in builtins_of(src):
            k = f"{fn}: rsjsonnet={outcome_class(spec)} upstream={outcome_class(up[src])}"
            by[k] = by.get(k, 0) + 1
            examples.setdefault(k, src)
    chk.extra["lib_named_deviations"] = {"programs_telling_readings_apart": n, "by_builtin": by, "examples": examples}


MIX_TIMEOUT_S = 600      # per simulation run; Sem's fuel bounds the depth of an evaluation, not its work
MIX_MIN_CASES = 200      # a run cut short must have delivered at least this many complete cases


def _complete_cases(out_path):
    """The CASE lines of a TLC output file that parse (a partially written last line is dropped)."""
    prefix = '<<"CASE", '
    cases, has_error = [], False
    with open(out_path, "r", errors="replace") as f:
        for line in f:
            if line.startswith("Error:"):
                has_error = True
            if not line.startswith(prefix):
                continue
            lit = line[len(prefix):].rstrip()
            if lit.endswith(">>"):
                lit = lit[:-2]
            try:
                c = json.loads(json.loads(lit))
                if isinstance(c, dict) and "src" in c and "res" in c:
                    cases.append(c)
            except Exception:
                pass
    return cases, has_error


def generate_mixed(chk, tier, seed, ncases=None, label="c02"):
    """Random deep programs (grammar walk, spec/MC_SemMix.tla, TLC -simulate).

    Every CASE line is complete and independent of the others.  A walk can build a program on which the
    reference semantics does an astronomic amount of work within its fuel (e.g. mutually recursive locals
    that denote an infinitely nested array): a run that exceeds MIX_TIMEOUT_S is cut there and the cases it
    printed so far are its sample (recorded in coverage.mix_runs_cut_short)."""
    out = []
    seen = set()
    for steps in ((6, 9) if tier == "quick" else (5, 7, 9, 12)):
        n = ncases or (600 if tier == "quick" else 3000)
        path = os.path.join(vlib.workdir("tlc"), f"gen_mix_{steps}.cfg")
        with open(path, "w") as f:
            f.write(f"CONSTANTS Steps = {steps} Fuel = 60 RmMode = 1\nINIT Init\nNEXT Next\nINVARIANT Emit\nCHECK_DEADLOCK FALSE\n")
        name = f"{label}_mix{steps}"
        try:
            res = run_tlc("MC_SemMix", path, name, workers=1, seed=seed + steps, depth=steps + 1,
                          env={"NCASES": str(n)}, timeout=MIX_TIMEOUT_S, coverage=False, extra=["-simulate"])
            tlc_must_pass(res, f"mixed programs, {steps} steps")
            chk.add_tlc(res, f"mixed slice: random walks of {steps} steps")
            cases = list(res.lines("CASE"))
        except vlib.ToolError as e:
            if "timed out" not in str(e):
                raise
            cases, has_error = _complete_cases(os.path.join(vlib.workdir("tlc"), name + ".out"))
            if has_error or len(cases) < MIX_MIN_CASES:
                raise vlib.ToolError(f"{e} (only {len(cases)} complete cases before the limit)")
            chk.extra.setdefault("mix_runs_cut_short", {})[f"{steps} steps"] = {
                "limit_s": MIX_TIMEOUT_S, "cases_delivered": len(cases), "cases_requested": n}
            chk.tlc_runs.append({"label": f"mixed slice: random walks of {steps} steps (cut short after {MIX_TIMEOUT_S} s)",
                                 "distinct": 0, "generated": len(cases), "depth": steps + 1,
                                 "wall_s": MIX_TIMEOUT_S, "actions": {}})
            chk.transitions += len(cases)
        for c in cases:
            if c["src"] not in seen:
                seen.add(c["src"])
                out.append(("mix", c["src"], c["res"]))
    return out


def run(tier, seed):
    chk = Check(PROP, tier, seed)
    chk.rule = ("closed programs of the grammar slices arith/str/lazy/func/obj/comp/lib of spec/MC_Sem.tla and random deep programs (MC_SemMix, simulation) "
                "(quick: seeded random subset per slice part, thorough: all); distinct = source text; "
                "non-trivial = the specification decides the program (not outside, not fuel-exhausted)")
    chk.assumptions = ["Sem.tla is transcribed from the Jsonnet language definition; numbers restricted to "
                       "integers |n| <= 10^6 (anything else is outside the decided domain)",
                       "Pretty.tla prints fully parenthesised source text",
                       "library members are compared under Sem!StdReading = rsjsonnet; the deviations from the text of upstream "
                       "std.jsonnet are named in Sem.tla (DEV-1..DEV-9) and counted in coverage.lib_named_deviations"]
    vlib.build_harness()
    progs = generate(chk, tier, seed) + generate_mixed(chk, tier, seed)
    cases = [{"k": "eval", "src": src, "manifest": "multi", "max_stack": 200} for _, src, _ in progs]
    results = run_cases(cases, "c02", timeout_ms=20000)
    classes = {}
    lib = {}      # vacuity: builtin -> how the programs that reach it are decided / compared
    for (sl, src, spec), case, r in zip(progs, cases, results):
        verdict, detail = semcmp.compare(spec, r)
        if sl == "lib":
            for fn in builtins_of(src):
                t = lib.setdefault(fn, {"ok": 0, "err": 0, "outside": 0, "bottom": 0, "agree": 0, "disagree": 0})
                t[spec[0]] += 1
                if verdict == "agree":
                    t["agree"] += 1
                elif verdict in ("disagree", "crash"):
                    t["disagree"] += 1
        classes[f"{sl}:{verdict}:{detail if verdict == 'agree' else ''}"] = classes.get(f"{sl}:{verdict}:{detail if verdict == 'agree' else ''}", 0) + 1
        chk.count(key=src, nontrivial=(verdict in ("agree", "disagree") and detail != "bottom"))
        if verdict == "outside":
            chk.outside += 1
        elif verdict == "crash":
            chk.disagree({"kind": "sem", "class": "crash", "slice": sl, "msg": detail},
                         f"`{src}` crashed the implementation: {detail}", dict(case, expected=spec))
        elif verdict == "disagree":
            sig = {"kind": "sem", "class": "wrong-outcome", "slice": sl}
            if sl == "lib":
                sig["fn"] = "+".join(builtins_of(src))
                sig["dir"] = f"spec-{spec[0]}/impl-{'ok' if 'ok' in r else 'err'}"
            chk.disagree(sig, f"`{src}`: {detail}", dict(case, expected=spec))
    chk.extra["outcome_classes"] = classes
    chk.extra["lib_builtin_outcomes"] = lib
    chk.extra["lib_members_without_ok_or_without_error_programs"] = sorted(
        fn for fn in LIB_MEMBERS if lib.get(fn, {}).get("ok", 0) == 0 or lib.get(fn, {}).get("err", 0) == 0)
    lib_deviations(chk, tier, seed, progs)
    chk.traces_validated = len(cases)
    chk.exhaustive = (tier == "thorough")
    for i in range(0, len(progs), max(1, len(progs) // 5)):
        chk.sample({"src": progs[i][1], "expected": progs[i][2]})
    return chk.finish()


def replay(path):
    with open(path) as f:
        rp = json.load(f)
    vlib.build_harness()
    case = {k: v for k, v in rp["case"].items() if k != "expected"}
    r = run_cases([case], "c02_replay")[0]
    verdict, detail = semcmp.compare(rp["case"]["expected"], r)
    print(json.dumps({"src": case["src"], "expected": rp["case"]["expected"], "result": r,
                      "verdict": verdict, "detail": detail}, indent=1))
    return 1 if verdict in ("disagree", "crash") else 0
