"""C15 - parsing honours the precedence table and is stable under print and re-parse.

spec/Syntax.tla: syntax trees mirroring rsjsonnet_lang::ast, the precedence table of the
Jsonnet specification, Parenthesise/EmitNode = a printer with minimal ("min") or redundant
("red") parentheses that also yields the annotated tree a parser has to return for the
token sequence (every node with its first and last token), NeedsSeparator, and RefParse,
a precedence-climbing reference parser of the operator core.  TLC (spec/MC_Syntax.tla)
enumerates the tree universes, checks the laws on the specification (same tree modulo
parentheses, texts differ only by parentheses, span nesting, RefParse(print) = tree,
every minimal parenthesis is required, print(RefParse(toks)) = toks) and emits one case
per printed text; in mode "mut" it emits the minimal texts with one token deleted /
duplicated / swapped / one required pair of parentheses removed, decided by RefParse
where the sequence stays inside the operator core.

Binding: every case is laid out as text (separators drawn from VERIF_SEED subject to
NeedsSeparator), parsed by the real Lexer + Parser::parse_root_expr through the harness
(case kind "parse") and compared: tree, every span = [first token start, last token end),
child inside parent; accept/reject against the reference parser; every reported syntax
error must carry the span of a token of the input or of the end of input
(spec/Trace_Diag.tla, evaluated by TLC on a sample of the recorded events and in Python
on all of them)."""
import json
import os
import time

import vlib
import syntax_util as su
from vlib import Check, run_tlc, tlc_must_pass, run_cases

PROP = "C15"
BATCH = 30000
GREEDY = {"local", "if", "func", "error", "assert", "import"}


def greedy_cut(n):
    """Does the parser's tree use a form that must extend as far right as possible
    (local/if/function/error/assert/import) as the left operand of a binary operator /
    `in super` or as the target of a postfix form without parentheses around it?"""
    k = n["n"]
    if k in ("binary", "insuper", "field", "index", "slice", "call", "objext") and n["c"][0]["n"] in GREEDY:
        return True
    if k == "binary":
        # ... or somewhere on the right edge of the left operand
        x = n["c"][0]
        while x["n"] in ("binary", "unary"):
            x = x["c"][-1]
            if x["n"] in GREEDY:
                return True
    return any(greedy_cut(c) for c in n["c"])


class Run:
    def __init__(self, chk, tier, seed):
        self.chk = chk
        self.tier = tier
        self.seed = seed
        self.nvar = 1 if tier == "quick" else 2
        self.classes = {}
        self.kinds = set()
        self.styles = {}
        self.events = []          # (es, ee, toks, len, src)
        self.pos_match = [0, 0]   # error token = reference parser's failure token: agree, total
        self.replayed = 0
        self.samples = {}

    def cls(self, name):
        self.classes[name] = self.classes.get(name, 0) + 1

    def variants(self, c):
        toks, sep = c["toks"], c["sep"]
        out = [su.layout(toks, sep, None)]
        key = "\x1f".join(toks)
        for v in range(self.nvar):
            out.append(su.layout(toks, sep, vlib.rng(self.seed, f"c15:{v}:{key}")))
        seen = set()
        for text, spans in out:
            if text not in seen:
                seen.add(text)
                yield text, spans

    def process(self, spec_cases):
        chk = self.chk
        cases, meta = [], []
        for c in spec_cases:
            label = c.get("st") or c.get("kind")
            c["half"] = "trees" if label in ("min", "red", "unparen") else "mut"
            self.styles[label] = self.styles.get(label, 0) + 1
            if c["exp"]["d"] == "accept":
                su.kinds_of(c["exp"]["tree"], self.kinds)
                c["nontrivial"] = su.depth(c["exp"]["tree"]) >= 3
            else:
                c["nontrivial"] = len(c["toks"]) >= 2
            full = label not in ("min", "red")   # printed trees: canonical text (fast path); else structured tree
            for text, spans in self.variants(c):
                cases.append({"k": "parse", "src": text, "full": full})
                meta.append((c, spans, label))
        if not cases:
            return
        t0 = time.time()
        results = run_cases(cases, "c15", timeout_ms=10000)
        vlib.log(f"[C15] parsed {len(cases)} texts of {len(spec_cases)} cases in {time.time() - t0:.1f}s")
        self.replayed += len(cases)
        # fast path: the canonical text of the parser's tree equals the specification's
        redo = []
        for i, (case, (c, spans, label), r) in enumerate(zip(cases, meta, results)):
            if "tree" in r and r["tree"] != su.canon(c["exp"]["tree"], spans):
                redo.append(i)
        if redo:
            again = run_cases([dict(cases[i], full=True) for i in redo], "c15_full", timeout_ms=10000)
            for i, r in zip(redo, again):
                results[i] = r
        flip = os.environ.get("VERIF_C15_FLIP")
        for case, (c, spans, label), r in zip(cases, meta, results):
            src = case["src"]
            q = json.dumps(src)
            exp = c["exp"]
            d = exp["d"]
            half = c["half"]
            fast_ok = "tree" in r
            etree = su.expected_tree(exp["tree"], spans) if d == "accept" and not fast_ok else None
            if flip and d == "accept" and label == "min" and exp["tree"]["c"]:
                etree = su.expected_tree(exp["tree"], spans)
                etree["e"] += 1          # binding demonstration: falsify one expected span
                r = run_cases([dict(case, full=True)], "c15_full", timeout_ms=10000)[0]
                fast_ok = False
                flip = None
            chk.count(key=src, nontrivial=c["nontrivial"])
            payload = {"k": "parse", "src": src, "half": half, "case": label, "expected": d,
                       "expected_tree": su.canon(exp["tree"], spans) if d == "accept" else None,
                       "reject_at_token": exp.get("at")}
            base = {"kind": "syntax", "half": half, "case": label}
            if vlib.is_crash(r):
                self.cls("crash")
                chk.disagree(dict(base, **{"class": "crash"}), f"parsing {q} crashed: {vlib.crash_desc(r)}", payload)
                continue
            err = r.get("err")
            if err is not None and err["stage"] == "lex":
                self.cls("lex-error")
                chk.disagree(dict(base, **{"class": "lex-error", "detail": err["kind"]}),
                             f"{q} is a sequence of valid tokens {c['toks']} but the lexer reports {err['kind']} "
                             f"at [{err['start']},{err['end']})", payload)
                continue
            if [tuple(t) for t in r["tokens"]] != spans or r["eof"] != [len(src), len(src)]:
                self.cls("token-spans")
                chk.disagree(dict(base, **{"class": "token-spans"}),
                             f"{q}: tokens {c['toks']} lie at {spans}, end of input at {len(src)}; the lexer reports "
                             f"{r['tokens']} and {r['eof']}", payload)
                continue
            if err is not None:
                # --- the diagnostic half: where does the error point? ---
                self.events.append((err["start"], err["end"], r["tokens"], len(src), src))
                if not su.located(err["start"], err["end"], [tuple(t) for t in r["tokens"]], len(src)):
                    chk.disagree(dict(base, **{"class": "diagnostic-not-at-token"}),
                                 f"{q}: the syntax error span [{err['start']},{err['end']}) is neither the span of a "
                                 f"token of the input {r['tokens']} nor the end of input", payload)
            if d == "accept":
                if err is not None:
                    self.cls("valid-rejected")
                    chk.disagree(dict(base, **{"class": "rejects-valid", "instead": err["instead"]}),
                                 f"{q} is the {label} print of a syntax tree ({su.canon(exp['tree'], spans)}) but the "
                                 f"parser rejects it at [{err['start']},{err['end']}): instead={err['instead']} "
                                 f"expected={err['expected']}", payload)
                    continue
                if fast_ok:
                    self.cls("accept-agree" if half == "trees" else "mut-accept-agree")
                    if label not in self.samples:
                        self.samples[label] = {"src": src, "case": label, "expected": "tree " + r["tree"][:300]}
                    continue
                got = r["ast"]
                diff = su.compare(etree, got)
                if diff is not None and diff[0] == "tool":
                    raise vlib.ToolError(f"harness/spec tree format mismatch on {q}: {diff}")
                nest = su.nesting_fault(got)
                if diff is not None:
                    klass = "wrong-tree" if diff[0] == "shape" else "wrong-span"
                    self.cls(klass)
                    chk.disagree(dict(base, **{"class": klass, "node": etree["n"] if diff[1] == "root" else diff[1].split("/")[-1]}),
                                 f"{q} ({label} print): at {diff[1]}: {diff[2]}. specification: {su.show(etree)}; "
                                 f"parser: {su.show(got)}", payload)
                elif nest is not None:
                    self.cls("span-nesting")
                    chk.disagree(dict(base, **{"class": "span-nesting"}), f"{q}: {nest}", payload)
                else:
                    self.cls("accept-agree" if half == "trees" else "mut-accept-agree")
                    if label not in self.samples:
                        self.samples[label] = {"src": src, "case": label, "expected": "tree " + su.show(etree)[:300]}
            elif d == "reject":
                if err is None:
                    cut = greedy_cut(r["ast"])
                    self.cls("invalid-accepted")
                    chk.disagree(dict(base, **{"class": "accepts-invalid",
                                               "cause": "greedy-form-ended-early" if cut else "other"}),
                                 f"{q} is not a sentence (the reference parser cannot get past token #{exp['at']} of "
                                 f"{c['toks']}) but the parser accepts it as {su.show(r['ast'])}"
                                 + (" - a form that must extend as far right as possible is used as a left operand/target"
                                    if cut else ""), payload)
                else:
                    self.cls("reject-agree")
                    self.pos_match[1] += 1
                    at = exp["at"]
                    want = tuple(spans[at - 1]) if at <= len(spans) else (len(src), len(src))
                    if (err["start"], err["end"]) == want:
                        self.pos_match[0] += 1
                    if "reject" not in self.samples:
                        self.samples["reject"] = {"src": src, "case": label, "expected": f"syntax error at token #{at}",
                                                  "observed": f"error at [{err['start']},{err['end']})"}
            else:   # outside the core the reference parser decides: only spans / location are checked
                if err is None:
                    nest = su.nesting_fault(r["ast"])
                    root = r["ast"]
                    if nest is None and spans and (root["s"], root["e"]) != (spans[0][0], spans[-1][1]):
                        nest = f"root span [{root['s']},{root['e']}) is not first token start .. last token end"
                    if nest is not None:
                        self.cls("span-nesting")
                        chk.disagree(dict(base, **{"class": "span-nesting"}), f"{q}: {nest}", payload)
                    else:
                        self.cls("undecided-accepted")
                else:
                    self.cls("undecided-rejected")

    def stream(self, res):
        batch = []
        for c in res.lines("CASE"):
            batch.append(c)
            if len(batch) >= BATCH:
                self.process(batch)
                batch = []
        self.process(batch)

    def validate_diagnostics(self):
        """Trace_Diag on a seeded sample of the recorded events; TLC and Python must agree."""
        chk = self.chk
        ev = self.events
        if not ev:
            return
        r = vlib.rng(self.seed, "c15-diag")
        k = 400 if self.tier == "quick" else 3000
        bad = [i for i, e in enumerate(ev) if not su.located(e[0], e[1], [tuple(t) for t in e[2]], e[3])]
        idx = sorted(set(r.sample(range(len(ev)), min(k, len(ev)))) | set(bad[:10]))
        d_ = vlib.workdir("traces")
        for rnd in range(12):
            path = os.path.join(d_, f"c15_diag_{rnd}.ndjson")
            with open(path, "w") as f:
                for i in idx:
                    e = ev[i]
                    f.write(json.dumps({"es": e[0], "ee": e[1], "toks": e[2], "len": e[3]}) + "\n")
            res = run_tlc("Trace_Diag", "Trace_Diag.cfg", f"c15_diag_{rnd}", workers=1, env={"TRACE": path},
                          timeout=900, deque=True, coverage=False, heap="2g")
            chk.add_tlc(res, f"Trace_Diag round {rnd + 1} ({len(idx)} error events)")
            py_first = next((j for j, i in enumerate(idx) if i in set(bad)), None)
            if res.rc == 0 and not res.error:
                if py_first is not None:
                    raise vlib.ToolError(f"Trace_Diag accepts event {py_first + 1} that the Python evaluation rejects: {path}")
                chk.extra["diag_events_validated_by_tlc"] = chk.extra.get("diag_events_validated_by_tlc", 0) + len(idx)
                return
            pos = None
            with open(res.out_path, errors="replace") as f:
                for line in f:
                    if line.startswith('<<"REJECT"'):
                        pos = int(line.split(",")[1].strip())
            if pos is None:
                raise vlib.ToolError(f"Trace_Diag failed without REJECT: {res.out_path} {res.error}")
            if py_first is None or py_first + 1 != pos:
                raise vlib.ToolError(f"Trace_Diag rejects event {pos}, the Python evaluation rejects "
                                     f"{None if py_first is None else py_first + 1}: {path}")
            chk.extra["diag_events_validated_by_tlc"] = chk.extra.get("diag_events_validated_by_tlc", 0) + pos
            idx = idx[pos:]          # the violation itself was already reported by process()
            if not idx:
                return


def run(tier, seed):
    chk = Check(PROP, tier, seed)
    chk.rule = ("trees of spec/MC_Syntax.tla (all ordered pairs of the 19 binary operators + `in super` in both nestings, "
                "triples in the five shapes, unary x binary x postfix in every nesting order, one-hole contexts x contexts x "
                "fillers, postfix chains over all slice colon layouts / call forms, object bodies, comprehensions, binders) "
                "printed with minimal and with redundant parentheses, and the minimal texts with one token deleted / "
                "duplicated / swapped / one required parenthesis pair removed; each text laid out canonically and with "
                "seeded separators; distinct = source text; non-trivial = the expected tree has depth >= 3 "
                "(mutants: at least two tokens)")
    chk.assumptions = [
        "the token sequences are turned into text by lib/syntax_util.layout; NeedsSeparator of Syntax.tla is "
        "conservative (may demand a separator that is not strictly needed, never the converse)",
        "accept/reject and the tree of a mutated sequence are decided only when every token is in the operator "
        "core vocabulary of Syntax.tla (RefParse); other mutated sequences are checked for crash, span nesting and "
        "error location only",
    ]
    vlib.build_harness()
    run_ = Run(chk, tier, seed)
    to = 3000
    res = run_tlc("MC_Syntax", f"MC_Syntax_{tier}.cfg", "c15_trees", workers=8, seed=seed, timeout=to, coverage=False)
    tlc_must_pass(res, "Syntax laws / emission")
    chk.add_tlc(res, "laws on every tree and on the mutants of a seeded sample + case emission")
    ntrees = res.distinct // 2
    vlib.log(f"[C15] TLC: {ntrees} trees in {res.wall:.0f}s")
    run_.stream(res)
    run_.validate_diagnostics()

    missing = su.ALL_KINDS - run_.kinds
    if missing:
        raise vlib.ToolError(f"vacuity: node kinds never produced by the universe: {sorted(missing)}")
    cl = run_.classes
    for need in ("accept-agree", "reject-agree", "mut-accept-agree", "undecided-accepted", "undecided-rejected"):
        if cl.get(need, 0) == 0 and not chk.violations:
            raise vlib.ToolError(f"vacuity: outcome class {need} is empty: {cl}")
    chk.extra["outcome_classes"] = cl
    chk.extra["cases_by_style_or_mutation"] = run_.styles
    chk.extra["trees"] = ntrees
    chk.extra["syntax_error_events"] = len(run_.events)
    chk.extra["error_token_equals_reference_failure_token"] = {"agree": run_.pos_match[0], "of": run_.pos_match[1]}
    chk.extra["node_kinds_covered"] = len(run_.kinds)
    chk.traces_validated = run_.replayed
    chk.exhaustive = False     # depth-2 contexts / chains are sampled in quick, depth 3 in thorough
    for s in list(run_.samples.values())[:6]:
        chk.sample(s)
    return chk.finish()


def replay(path):
    with open(path) as f:
        rp = json.load(f)
    vlib.build_harness()
    case = {"k": "parse", "src": rp["case"]["src"]}
    r = run_cases([case], "c15_replay")[0]
    out = {"src": case["src"], "expected": rp["case"].get("expected"), "expected_tree": rp["case"].get("expected_tree"),
           "reject_at_token": rp["case"].get("reject_at_token")}
    if "ast" in r:
        out["parser_tree"] = su.show(r["ast"])
    else:
        out["result"] = {k: v for k, v in r.items() if k != "tokens"}
    print(json.dumps(out, indent=1))
    return 0
