"""C15 - parsing honours the precedence table and is stable under print and re-parse.

spec/Syntax.tla: syntax trees mirroring rsjsonnet_lang::ast, the precedence table of the
Jsonnet specification, Parenthesise/EmitNode = a printer with minimal ("min") or redundant
("red") parentheses that also yields the annotated tree a parser has to return for the
token sequence (every node with its first and last token), NeedsSeparator, and RefParse,
a precedence-climbing reference parser of the operator core.  TLC (spec/MC_Syntax.tla)
enumerates the tree universes, checks the laws on the specification (same tree modulo
parentheses, texts differ only by parentheses, span nesting, RefParse(print) = tree,
every minimal parenthesis is required, print(RefParse(toks)) = toks) and emits one case
per printed text, one per core text with one pair of its parentheses removed, and - for
a seeded sample of the trees - the minimal text with one token deleted / duplicated /
swapped, decided by RefParse where the sequence stays inside the operator core.

Binding: every case is laid out as text (separators drawn from VERIF_SEED subject to
NeedsSeparator), parsed by the real Lexer + Parser::parse_root_expr through the harness
(case kind "parse") and compared: tree, every span = [first token start, last token end),
child inside parent; accept/reject against the reference parser; every reported syntax
error must carry the span of a token of the input or of the end of input
(spec/Trace_Diag.tla, evaluated by TLC on a sample of the recorded events and in Python
on all of them)."""
import concurrent.futures
import hashlib
import json
import os
import shutil
import time

import vlib
import syntax_util as su
from vlib import Check, run_tlc, tlc_must_pass, run_cases

PROP = "C15"
CHUNK = 12000          # spec cases per work item
PROCS = 4
GREEDY = {"local", "if", "func", "error", "assert", "import"}
PREFIX = '<<"CASE", '


def greedy_cut(n):
    """Does the parser's tree use a form that must extend as far right as possible
    (local/if/function/error/assert/import) as the left operand of a binary operator /
    of "in super" or as the target of a postfix form without parentheses around it?"""
    k = n["n"]
    if k in ("binary", "insuper", "field", "index", "slice", "call", "objext"):
        x = n["c"][0]
        while True:
            if x["n"] in GREEDY:
                return True
            if x["n"] in ("binary", "unary") and k in ("binary", "insuper"):
                x = x["c"][-1]      # ... or somewhere on the right edge of the left operand
            else:
                break
    return any(greedy_cut(c) for c in n["c"])


def decode(line):
    lit = line[len(PREFIX):].rstrip()
    if lit.endswith(">>"):
        lit = lit[:-2]
    return json.loads(json.loads(lit))


def variants(c, seed, nvar):
    toks, sep = c["toks"], c["sep"]
    out = [su.layout(toks, sep, None)]
    key = "\x1f".join(toks)
    for v in range(nvar):
        out.append(su.layout(toks, sep, vlib.rng(seed, f"c15:{v}:{key}")))
    seen = set()
    for text, spans in out:
        if text not in seen:
            seen.add(text)
            yield text, spans


def work(lines, seed, nvar, wid):
    """Decodes one chunk of CASE lines, lays the cases out, parses them with the real
    implementation and compares.  Returns plain data to be merged by the parent."""
    out = {"classes": {}, "styles": {}, "kinds": set(), "violations": [], "events": [], "bad_events": [],
           "n_events": 0, "pos": [0, 0], "replayed": 0, "samples": {}, "digests": set(), "evaluations": 0,
           "tool_error": None}

    def cls(name):
        out["classes"][name] = out["classes"].get(name, 0) + 1

    def disagree(sig, what, payload):
        out["violations"].append((sig, what, payload))

    spec_cases = [decode(l) for l in lines]
    cases, meta = [], []
    for c in spec_cases:
        label = c.get("st") or c.get("kind")
        c["half"] = "trees" if label in ("min", "red", "unparen") else "mut"
        out["styles"][label] = out["styles"].get(label, 0) + 1
        if c["exp"]["d"] == "accept":
            su.kinds_of(c["exp"]["tree"], out["kinds"])
            c["nontrivial"] = su.depth(c["exp"]["tree"]) >= 3
        else:
            c["nontrivial"] = len(c["toks"]) >= 2
        full = label not in ("min", "red")   # printed trees: canonical text (fast path); else structured tree
        for text, spans in variants(c, seed, nvar):
            cases.append({"k": "parse", "src": text, "full": full})
            meta.append((c, spans, label))
    if not cases:
        return out
    name = f"c15_w{wid}"
    results = run_cases(cases, name, timeout_ms=10000, workers=4)
    out["replayed"] = len(cases)
    # fast path: the canonical text of the parser's tree equals the specification's
    redo = [i for i, ((c, spans, label), r) in enumerate(zip(meta, results))
            if "tree" in r and r["tree"] != su.canon(c["exp"]["tree"], spans)]
    if redo:
        again = run_cases([dict(cases[i], full=True) for i in redo], name + "f", timeout_ms=10000, workers=4)
        for i, r in zip(redo, again):
            results[i] = r
    ev_rng = vlib.rng(seed, f"c15-ev:{hashlib.sha1(lines[0].encode()).hexdigest()}")
    for idx, (case, (c, spans, label), r) in enumerate(zip(cases, meta, results)):
        src = case["src"]
        q = json.dumps(src)
        exp = c["exp"]
        d = exp["d"]
        half = c["half"]
        fast_ok = "tree" in r
        etree = su.expected_tree(exp["tree"], spans) if d == "accept" and not fast_ok else None
        out["evaluations"] += 1
        if c["nontrivial"]:
            out["digests"].add(hashlib.blake2b(src.encode(), digest_size=8).digest())
        payload = {"k": "parse", "src": src, "half": half, "case": label, "expected": d,
                   "expected_tree": su.canon(exp["tree"], spans) if d == "accept" else None,
                   "reject_at_token": exp.get("at")}
        base = {"kind": "syntax", "half": half, "case": label}
        if vlib.is_crash(r):
            cls("crash")
            disagree(dict(base, **{"class": "crash"}), f"parsing {q} crashed: {vlib.crash_desc(r)}", payload)
            continue
        err = r.get("err")
        if err is not None and err["stage"] == "lex":
            cls("lex-error")
            disagree(dict(base, **{"class": "lex-error", "detail": err["kind"]}),
                     f"{q} is a sequence of valid tokens {c['toks']} but the lexer reports {err['kind']} "
                     f"at [{err['start']},{err['end']})", payload)
            continue
        if [tuple(t) for t in r["tokens"]] != spans or r["eof"] != [len(src), len(src)]:
            cls("token-spans")
            disagree(dict(base, **{"class": "token-spans"}),
                     f"{q}: tokens {c['toks']} lie at {spans}, end of input at {len(src)}; the lexer reports "
                     f"{r['tokens']} and {r['eof']}", payload)
            continue
        if err is not None:
            # --- the diagnostic half: where does the error point? ---
            out["n_events"] += 1
            ev = (err["start"], err["end"], r["tokens"], len(src))
            if not su.located(err["start"], err["end"], [tuple(t) for t in r["tokens"]], len(src)):
                out["bad_events"].append(ev)
                disagree(dict(base, **{"class": "diagnostic-not-at-token"}),
                         f"{q}: the syntax error span [{err['start']},{err['end']}) is neither the span of a "
                         f"token of the input {r['tokens']} nor the end of input", payload)
            elif ev_rng.random() < 0.08:
                out["events"].append(ev)
        if d == "accept":
            if err is not None:
                cls("valid-rejected")
                disagree(dict(base, **{"class": "rejects-valid", "instead": err["instead"]}),
                         f"{q} is the {label} print of a syntax tree ({su.canon(exp['tree'], spans)}) but the "
                         f"parser rejects it at [{err['start']},{err['end']}): instead={err['instead']} "
                         f"expected={err['expected']}", payload)
                continue
            if fast_ok:
                cls("accept-agree" if half == "trees" else "mut-accept-agree")
                if label not in out["samples"]:
                    out["samples"][label] = {"src": src, "case": label, "expected": "tree " + r["tree"][:300]}
                continue
            got = r["ast"]
            diff = su.compare(etree, got)
            if diff is not None and diff[0] == "tool":
                out["tool_error"] = f"harness/spec tree format mismatch on {q}: {diff}"
                return out
            nest = su.nesting_fault(got)
            if diff is not None:
                klass = "wrong-tree" if diff[0] == "shape" else "wrong-span"
                cls(klass)
                disagree(dict(base, **{"class": klass, "node": etree["n"] if diff[1] == "root" else diff[1].split("/")[-1]}),
                         f"{q} ({label} print): at {diff[1]}: {diff[2]}. specification: {su.show(etree)}; "
                         f"parser: {su.show(got)}", payload)
            elif nest is not None:
                cls("span-nesting")
                disagree(dict(base, **{"class": "span-nesting"}), f"{q}: {nest}", payload)
            else:
                cls("accept-agree" if half == "trees" else "mut-accept-agree")
                if label not in out["samples"]:
                    out["samples"][label] = {"src": src, "case": label, "expected": "tree " + su.show(etree)[:300]}
        elif d == "reject":
            if err is None:
                cut = greedy_cut(r["ast"])
                cls("invalid-accepted")
                disagree(dict(base, **{"class": "accepts-invalid",
                                       "cause": "greedy-form-ended-early" if cut else "other"}),
                         f"{q} is not a sentence (the reference parser cannot get past token #{exp['at']} of "
                         f"{c['toks']}) but the parser accepts it as {su.show(r['ast'])}"
                         + (" - a form that must extend as far right as possible is used as a left operand/target"
                            if cut else ""), payload)
            else:
                cls("reject-agree")
                out["pos"][1] += 1
                at = exp["at"]
                want = tuple(spans[at - 1]) if at <= len(spans) else (len(src), len(src))
                if (err["start"], err["end"]) == want:
                    out["pos"][0] += 1
                if "reject" not in out["samples"]:
                    out["samples"]["reject"] = {"src": src, "case": label, "expected": f"syntax error at token #{at}",
                                                "observed": f"error at [{err['start']},{err['end']})"}
        else:   # outside the core the reference parser decides: only spans / location are checked
            if err is None:
                nest = su.nesting_fault(r["ast"])
                root = r["ast"]
                if nest is None and spans and (root["s"], root["e"]) != (spans[0][0], spans[-1][1]):
                    nest = f"root span [{root['s']},{root['e']}) is not first token start .. last token end"
                if nest is not None:
                    cls("span-nesting")
                    disagree(dict(base, **{"class": "span-nesting"}), f"{q}: {nest}", payload)
                else:
                    cls("undecided-accepted")
            else:
                cls("undecided-rejected")
    return out


class Merge:
    def __init__(self, chk):
        self.chk = chk
        self.classes = {}
        self.styles = {}
        self.kinds = set()
        self.violations = []
        self.events = []
        self.bad_events = []
        self.n_events = 0
        self.pos = [0, 0]
        self.replayed = 0
        self.samples = {}

    def add(self, o):
        if o["tool_error"]:
            raise vlib.ToolError(o["tool_error"])
        for k, v in o["classes"].items():
            self.classes[k] = self.classes.get(k, 0) + v
        for k, v in o["styles"].items():
            self.styles[k] = self.styles.get(k, 0) + v
        self.kinds |= o["kinds"]
        self.violations += o["violations"]
        self.events += o["events"]
        self.bad_events += o["bad_events"]
        self.n_events += o["n_events"]
        self.pos[0] += o["pos"][0]
        self.pos[1] += o["pos"][1]
        self.replayed += o["replayed"]
        for k, v in o["samples"].items():
            if k not in self.samples or v["src"] < self.samples[k]["src"]:
                self.samples[k] = v
        self.chk.evaluations += o["evaluations"]
        self.chk.nontrivial |= o["digests"]


def stream(res, mg, tier, seed):
    nvar = 1
    t0 = time.time()
    with concurrent.futures.ProcessPoolExecutor(max_workers=PROCS) as ex:
        pending = []
        wid = 0

        def drain(limit):
            while len(pending) > limit:
                done, _ = concurrent.futures.wait(pending, return_when=concurrent.futures.FIRST_COMPLETED)
                for f in done:
                    pending.remove(f)
                    mg.add(f.result())

        chunk = []
        with open(res.out_path, "r", errors="replace") as f:
            for line in f:
                if not line.startswith(PREFIX):
                    continue
                chunk.append(line)
                if len(chunk) >= CHUNK:
                    pending.append(ex.submit(work, chunk, seed, nvar, wid))
                    wid += 1
                    chunk = []
                    drain(2 * PROCS - 1)
        if chunk:
            pending.append(ex.submit(work, chunk, seed, nvar, wid))
        drain(0)
    for w in range(wid + 1):
        for suffix in ("", "f"):
            shutil.rmtree(os.path.join(vlib.WORK, "cases", f"c15_w{w}{suffix}"), ignore_errors=True)
    vlib.log(f"[C15] parsed and compared {mg.replayed} texts in {time.time() - t0:.0f}s")


def stretched_layouts(chk, res, seed):
    """Layouts with ONE huge separator (a run of spaces) chosen so that the root node, and the nodes
    that contain the separator, span 2^25-1 .. 2^26 bytes - where the packed span id changes
    representation.  Expected spans are the specification's (first token start, last token end) for
    this layout, exactly as for every other layout."""
    rnd = vlib.rng(seed, "c15-stretch")
    pool = []
    with open(res.out_path, "r", errors="replace") as f:
        for line in f:
            if line.startswith(PREFIX) and len(pool) < 4000:
                c = decode(line)
                if (c.get("st") == "min" and c["exp"]["d"] == "accept" and 4 <= len(c["toks"]) <= 14
                        and su.depth(c["exp"]["tree"]) >= 3):
                    pool.append(c)
    if len(pool) < 10:
        raise vlib.ToolError("stretched layouts: too few printed trees to choose from")
    targets = [2 ** 25 - 1, 2 ** 25, 2 ** 25 + 1, 2 ** 26 - 1, 2 ** 26]
    cases, meta = [], []
    for c in rnd.sample(pool, 12):
        text, spans = su.layout(c["toks"], c["sep"], None)
        for target in rnd.sample(targets, 3):
            slot = rnd.randrange(0, len(c["toks"]) - 1)        # the separator after token `slot`
            n = target - len(text)
            at = spans[slot][1]
            sp2 = [(a + (n if i > slot else 0), b + (n if i > slot else 0)) for i, (a, b) in enumerate(spans)]
            cases.append({"k": "parse", "src": text, "full": False, "stretch": {"at": at, "byte": 32, "count": n}})
            meta.append((c, sp2, target))
    results = run_cases(cases, "c15_stretch", timeout_ms=60000, workers=4, mem_mb=4000)
    agree = 0
    for case, (c, sp2, target), r in zip(cases, meta, results):
        chk.count(key="stretch:" + json.dumps(case, sort_keys=True), nontrivial=True)
        want = su.canon(c["exp"]["tree"], sp2)
        what = f"{json.dumps(case['src'])} laid out with {case['stretch']['count']} spaces at byte {case['stretch']['at']} (root node of {target} bytes)"
        payload = dict(case, half="trees", case="stretch", expected="accept", expected_tree=want)
        base = {"kind": "syntax", "half": "trees", "case": "stretch"}
        if vlib.is_crash(r):
            chk.disagree(dict(base, **{"class": "crash"}), f"parsing {what} crashed: {vlib.crash_desc(r)[:300]}", payload)
        elif r.get("tree") != want:
            chk.disagree(dict(base, **{"class": "wrong-tree-or-span"}),
                         f"{what}: parser built {str(r.get('tree') or r.get('err'))[:300]}, specification: {want[:300]}", payload)
        else:
            agree += 1
    chk.extra["stretched_layouts"] = {"cases": len(cases), "agree": agree}


def validate_diagnostics(chk, mg, tier, seed):
    """Trace_Diag on a seeded sample of the recorded events; TLC and Python must agree."""
    r = vlib.rng(seed, "c15-diag")
    k = 400 if tier == "quick" else 3000
    good = sorted(mg.events, key=lambda e: json.dumps(e))
    good = r.sample(good, min(k, len(good)))
    bad = sorted(mg.bad_events, key=lambda e: json.dumps(e))[:10]
    evs = good + bad
    r.shuffle(evs)
    if not evs:
        return
    isbad = [not su.located(e[0], e[1], [tuple(t) for t in e[2]], e[3]) for e in evs]
    d_ = vlib.workdir("traces")
    start = 0
    for rnd in range(12):
        path = os.path.join(d_, f"c15_diag_{rnd}.ndjson")
        with open(path, "w") as f:
            for e in evs[start:]:
                f.write(json.dumps({"es": e[0], "ee": e[1], "toks": e[2], "len": e[3]}) + "\n")
        res = run_tlc("Trace_Diag", "Trace_Diag.cfg", f"c15_diag_{rnd}", workers=1, env={"TRACE": path},
                      timeout=900, deque=True, coverage=False, heap="2g")
        chk.add_tlc(res, f"Trace_Diag round {rnd + 1} ({len(evs) - start} error events)")
        py_first = next((j for j in range(start, len(evs)) if isbad[j]), None)
        if res.rc == 0 and not res.error:
            if py_first is not None:
                raise vlib.ToolError(f"Trace_Diag accepts event {py_first - start + 1} that the Python evaluation rejects: {path}")
            chk.extra["diag_events_validated_by_tlc"] = chk.extra.get("diag_events_validated_by_tlc", 0) + len(evs) - start
            return
        pos = None
        with open(res.out_path, errors="replace") as f:
            for line in f:
                if line.startswith('<<"REJECT"'):
                    pos = int(line.split(",")[1].strip())
        if pos is None:
            raise vlib.ToolError(f"Trace_Diag failed without REJECT: {res.out_path} {res.error}")
        if py_first is None or py_first - start + 1 != pos:
            raise vlib.ToolError(f"Trace_Diag rejects event {pos}, the Python evaluation rejects "
                                 f"{None if py_first is None else py_first - start + 1}: {path}")
        chk.extra["diag_events_validated_by_tlc"] = chk.extra.get("diag_events_validated_by_tlc", 0) + pos
        start += pos          # the violation itself was already reported by work()
        if start >= len(evs):
            return


def run(tier, seed):
    chk = Check(PROP, tier, seed)
    chk.rule = ("trees of spec/MC_Syntax.tla (all ordered pairs of the 19 binary operators + 'in super' in both nestings, "
                "triples in the five shapes, unary x binary x postfix in every nesting order, one-hole contexts x contexts x "
                "fillers, postfix chains over all slice colon layouts / call forms, object bodies, comprehensions, binders) "
                "printed with minimal and with redundant parentheses; every core text with one pair of parentheses removed; "
                "for a seeded sample of the trees the minimal text with one token deleted / duplicated / swapped; each "
                "token sequence laid out with single spaces and with seeded separators; distinct = source text; "
                "non-trivial = the expected tree has depth >= 3 (rejected / undecided sequences: at least two tokens)")
    chk.assumptions = [
        "the token sequences are turned into text by lib/syntax_util.layout; NeedsSeparator of Syntax.tla is "
        "conservative (may demand a separator that is not strictly needed, never the converse)",
        "accept/reject and the tree of a mutated sequence are decided only when every token is in the operator "
        "core vocabulary of Syntax.tla (RefParse); other mutated sequences are checked for crash, span nesting and "
        "error location only",
    ]
    vlib.build_harness()
    res = run_tlc("MC_Syntax", f"MC_Syntax_{tier}.cfg", "c15_trees", workers=8, seed=seed, timeout=3000, coverage=False)
    tlc_must_pass(res, "Syntax laws / emission")
    chk.add_tlc(res, "laws on every tree and on the mutants of a seeded sample + case emission")
    ntrees = res.distinct // 2
    vlib.log(f"[C15] TLC: {ntrees} trees in {res.wall:.0f}s")
    mg = Merge(chk)
    stream(res, mg, tier, seed)
    for sig, what, payload in sorted(mg.violations, key=lambda v: (json.dumps(v[0], sort_keys=True), len(v[2]["src"]), v[2]["src"])):
        chk.disagree(sig, what, payload)
    stretched_layouts(chk, res, seed)
    validate_diagnostics(chk, mg, tier, seed)

    missing = su.ALL_KINDS - mg.kinds
    if missing:
        raise vlib.ToolError(f"vacuity: node kinds never produced by the universe: {sorted(missing)}")
    cl = mg.classes
    for need in ("accept-agree", "reject-agree", "mut-accept-agree", "undecided-accepted", "undecided-rejected"):
        if cl.get(need, 0) == 0 and not chk.violations:
            raise vlib.ToolError(f"vacuity: outcome class {need} is empty: {cl}")
    chk.extra["outcome_classes"] = dict(sorted(cl.items()))
    chk.extra["cases_by_style_or_mutation"] = dict(sorted(mg.styles.items()))
    chk.extra["trees"] = ntrees
    chk.extra["syntax_error_events"] = mg.n_events
    chk.extra["error_token_equals_reference_failure_token"] = {"agree": mg.pos[0], "of": mg.pos[1]}
    chk.extra["node_kinds_covered"] = len(mg.kinds)
    chk.traces_validated = mg.replayed
    chk.exhaustive = False     # depth-2 contexts / chains are sampled in quick, depth 3 in thorough
    for k in sorted(mg.samples)[:6]:
        chk.sample(mg.samples[k])
    return chk.finish()


def replay(path):
    with open(path) as f:
        rp = json.load(f)
    vlib.build_harness()
    case = {"k": "parse", "src": rp["case"]["src"], "full": True}
    if "stretch" in rp["case"]:
        case["stretch"] = rp["case"]["stretch"]
    r = run_cases([case], "c15_replay", timeout_ms=60000)[0]
    out = {"src": case["src"], "expected": rp["case"].get("expected"), "expected_tree": rp["case"].get("expected_tree"),
           "reject_at_token": rp["case"].get("reject_at_token")}
    if "ast" in r:
        out["parser_tree"] = su.show(r["ast"])
    else:
        out["result"] = {k: v for k, v in r.items() if k != "tokens"}
    print(json.dumps(out, indent=1))
    return 0
