"""C19 - std.format and % follow printf-style formatting for every directive and value.

spec/Fmt.tla is the reference: the format-string parser, the argument consumption of the array,
single-value and object forms, exact renderers for d i u o x X c s %% and - on exact dyadic
values, digit by digit on sequences, rounding half-even on the exact value - for e E f F, and C's
%g as the reference of the value-and-shape invariants for g G.  TLC checks the specification's own
laws (field never shorter than its width, padding placement, aliases, flag overrides, agreement of
the three argument forms, argument counting, exact expansions, parse/print round trip, every proper
prefix of a directive rejected) over the universes of MC_Fmt and prints each case with the expected
result as a rope (so a width of 70000 is one segment).  Every case is evaluated by the real
implementation through `std.format(f, v)` and `f % v` and compared code point by code point.

Spec self-test: wherever Python's % operator follows the same convention, the specification's result
must equal Python's; a difference is a tool error (exit 2), never a verdict about rsjsonnet."""
import json
import os
import re
import zlib

import vlib
import fmt_util as fu
from vlib import Check, run_tlc, tlc_must_pass, run_cases

PROP = "C19"

# (mode of MC_Fmt, quick stride, thorough stride): 1 = the whole universe, n = a seeded 1/n of it
MODES = [("args", 1, 1), ("huge", 27, 4), ("extreme", 25, 2), ("main", 13, 1)]
BATCH = 30000          # cases per harness batch (bounds memory in the thorough tier)


def _cfg(mode, seed, stride, all_forms):
    """Derives a configuration from spec/MC_Fmt_<mode>.cfg (which is the thorough one)."""
    with open(os.path.join(vlib.SPEC, f"MC_Fmt_{mode}.cfg")) as f:
        text = f.read()
    text = re.sub(r"Seed = \d+", f"Seed = {seed % 100000}", text)
    text = re.sub(r"Stride = \d+", f"Stride = {stride}", text)
    text = re.sub(r"AllForms = \w+", "AllForms = " + ("TRUE" if all_forms else "FALSE"), text)
    path = os.path.join(vlib.workdir("c19"), f"MC_Fmt_{mode}.cfg")
    with open(path, "w") as f:
        f.write(text)
    return path


def _classify(want, got, meta):
    """A coarse class for a wrong string (part of the violation signature)."""
    if meta and meta["fw"] >= 0 and len(got) < meta["fw"]:
        return "field-shorter-than-width"
    if got.strip(" 0") == want.strip(" 0"):
        return "padding"
    return "wrong-string"


class _Stats:
    def __init__(self):
        self.outcome = {"string": 0, "error": 0, "shape": 0, "outside": 0}
        self.by_conv = {}
        self.agree = {"ok": 0, "err": 0}
        self.not_shared = 0
        self.shape_ref_equal = 0
        self.shape_total = 0
        self.programs = 0
        self.samples = {}


def _selftest(batch, st):
    """spec/Fmt.tla against Python's % wherever the conventions coincide."""
    for c, fm in batch:
        exp = fm["exp"]
        if exp["k"] == "outside":
            continue
        op = fu.python_opinion(fm["fmt"], fm["vals"])
        if op is None:
            st.not_shared += 1
            continue
        mine = ("err",) if exp["k"] == "err" else ("ok", fu.rope_str(exp["r"]))
        if mine != op:
            raise vlib.ToolError(
                "specification self-test failed (spec/Fmt.tla disagrees with Python's %%): fmt=%r vals=%s spec=%s "
                "python=%s" % (fu.cps(fm["fmt"]["c"]), json.dumps(fm["vals"]), fu.short(str(mine)), fu.short(str(op))))
        st.agree[op[0]] += 1


def _replay(chk, batch, both_surfaces, st, tag):
    progs, meta = [], []
    for c, fm in batch:
        surfaces = fu.programs(fm["fmt"], fm["vals"])
        if not both_surfaces:
            surfaces = [surfaces[zlib.crc32(surfaces[0][1].encode()) % 2]]
        for sname, src in surfaces:
            progs.append({"k": "eval", "src": src, "manifest": "string"})
            meta.append((c, fm, sname))
    results = run_cases(progs, "c19_" + tag, timeout_ms=10000)
    st.programs += len(progs)
    for prog, (c, fm, sname), res in zip(progs, meta, results):
        exp = fm["exp"]
        k = exp["k"]
        m = c.get("meta")
        conv = chr(m["conv"]) if m else "*"
        fmt_text = fu.cps(fm["fmt"]["c"]) if fm["fmt"]["t"] == "str" else "<not a string>"
        nontrivial = k != "outside" and re.search(r"%[^%]", fmt_text) is not None
        chk.count(key=prog["src"], nontrivial=nontrivial)
        sig = {"kind": "format", "universe": c["u"], "conv": conv, "form": fm["form"], "surface": sname,
               "fmt": fmt_text[:40]}
        shown = fu.short(prog["src"], 200)
        if vlib.is_crash(res):
            chk.disagree(dict(sig, **{"class": "crash"}), f"`{shown}` crashed: {vlib.crash_desc(res)}", prog)
            continue
        if "err" in res and res["err"].get("stage") != "eval":
            raise vlib.ToolError(f"generated program is not valid Jsonnet: {prog['src'][:300]!r}: {res['err']}")
        if k == "outside" and fm.get("readings") and all(x["k"] in ("ok", "err") for x in fm["readings"]):
            # undecided between truncation and floor: the result must be the decided result of one of them
            st.outcome["between_two_readings"] = st.outcome.get("between_two_readings", 0) + 1
            allowed = [("err",) if x["k"] == "err" else ("ok", fu.rope_str(x["r"])) for x in fm["readings"]]
            got = ("err",) if "err" in res else ("ok", res.get("ok"))
            if got not in allowed:
                chk.disagree(dict(sig, **{"class": "neither-reading"}),
                             f"`{shown}` gives {fu.short(str(got[-1] if got[0] == 'ok' else 'an error'))}; truncating the "
                             f"argument gives {fu.short(str(allowed[0][-1]))}, flooring it gives {fu.short(str(allowed[1][-1]))}",
                             dict(prog, expected_one_of=[fu.short(str(a_[-1]), 200) for a_ in allowed]))
            continue
        if k == "outside":
            chk.outside += 1
            st.outcome["outside"] += 1
            continue
        st.by_conv[conv] = st.by_conv.get(conv, 0) + 1
        if c["u"] not in st.samples and k in ("ok", "err"):
            st.samples[c["u"]] = {"src": prog["src"] if len(prog["src"]) < 140 else prog["src"][:140] + "...",
                                  "expected": fu.short(fu.rope_str(exp["r"]), 80) if k == "ok"
                                  else "error: " + exp["why"]}
        if k == "err":
            st.outcome["error"] += 1
            if "err" not in res:
                chk.disagree(dict(sig, **{"class": "missing-error"}),
                             f"`{shown}` gives {fu.short(str(res.get('ok')))}, specification says error ({exp['why']})",
                             dict(prog, expected="error: " + exp["why"]))
            continue
        st.outcome["string" if k == "ok" else "shape"] += 1
        want = fu.rope_str(exp["r"])
        if "err" in res or not isinstance(res.get("ok"), str):
            msg = res["err"].get("msg", "") if "err" in res else json.dumps(res)
            chk.disagree(dict(sig, **{"class": "unexpected-error"}),
                         f"`{shown}` fails ({str(msg)[:160]}), specification says {fu.short(want)}",
                         dict(prog, expected=fu.short(want, 300)))
            continue
        got = res["ok"]
        if k == "ok":
            if got != want:
                chk.disagree(dict(sig, **{"class": _classify(want, got, m)}),
                             f"`{shown}` gives {fu.short(got)}, specification says {fu.short(want)}",
                             dict(prog, expected=want if len(want) < 400 else fu.short(want, 300)))
            continue
        # shape: one directive whose digits the specification does not fix
        if not m or fm["form"] == "G" or m["v"]["t"] != "num":
            chk.outside += 1
            continue
        st.shape_total += 1
        if got == want:
            st.shape_ref_equal += 1
        why = fu.shape_problem(m, got)
        if why:
            chk.disagree(dict(sig, **{"class": "shape"}),
                         f"`{shown}` gives {fu.short(got)}: {why} (C reference: {fu.short(want)})",
                         dict(prog, expected="shape: " + why))


def run(tier, seed):
    chk = Check(PROP, tier, seed)
    quick = tier == "quick"
    chk.rule = ("one evaluation = one Jsonnet program (`std.format(f, v)` or `f % v`) built from one case of "
                "MC_Fmt; distinct = program text; non-trivial = the format contains a directive other than a bare "
                "%% and the specification decides the outcome (string, error or shape)")
    chk.assumptions = [
        "rendering of specification values as Jsonnet literals (lib/render.py); numeric literals are read exactly (C06/C14)",
        "digits of e E f F are decided for exact dyadic values m*2^e with m < 2^31 only; g G and magnitudes >= 2^53 "
        "by value-and-shape invariants",
        "where upstream std.jsonnet and C/Python conflict by accident (sign of negative zero and of negative values "
        "printing as zero, negative fractions under o/x, negative or fractional * arguments, %.0g, %c of a fraction) "
        "the case is outside the decided domain",
        "only error-vs-string is compared for failing cases, not the message",
    ]
    vlib.build_harness()
    st = _Stats()
    for mode, qs, ts in MODES:
        stride = qs if quick else ts
        cfg = _cfg(mode, seed, stride, all_forms=not quick)
        res = run_tlc("MC_Fmt", cfg, f"c19_{mode}", workers=8, heap="6g", coverage=False, timeout=2400)
        tlc_must_pass(res, f"Fmt laws / emission ({mode})")
        chk.add_tlc(res, f"{mode}: laws of Fmt.tla + case emission (stride {stride})")
        batch, nb = [], 0
        for c in res.lines("CASE"):
            alts = c.get("alts") or []
            for fi, fm in enumerate(c["forms"]):
                if (alts and fm["exp"]["k"] == "outside" and "negative fraction" in fm["exp"].get("why", "")
                        and all(len(a) == len(c["forms"]) and a[fi]["form"] == fm["form"] for a in alts)):
                    fm = dict(fm, readings=[a[fi]["exp"] for a in alts])
                batch.append((c, fm))
            if len(batch) >= BATCH:
                _selftest(batch, st)
                _replay(chk, batch, not quick, st, f"{mode}{nb}")
                batch, nb = [], nb + 1
        if batch:
            _selftest(batch, st)
            _replay(chk, batch, not quick, st, f"{mode}{nb}")
    chk.traces_validated = st.programs
    # main / args / extreme are enumerated completely in the thorough tier; the huge universe
    # (70000-character results) is always a seeded subset
    chk.exhaustive = False
    vc = {}
    for sig_, what_, _p in chk.violations:
        kk = f"{sig_['class']}|{sig_['universe']}|%{sig_['conv']}"
        vc.setdefault(kk, [0, what_[:240]])[0] += 1
    chk.extra["disagreement_classes"] = {k_: {"count": v_[0], "example": v_[1]} for k_, v_ in sorted(vc.items())}
    chk.extra["universe_complete"] = {m_: (qs_ if quick else ts_) == 1 for m_, qs_, ts_ in MODES}
    chk.extra["outcome_classes"] = st.outcome
    chk.extra["evaluations_by_conversion"] = dict(sorted(st.by_conv.items()))
    chk.extra["spec_selftest_vs_python"] = {"equal_strings": st.agree["ok"], "both_error": st.agree["err"],
                                            "conventions_differ_not_compared": st.not_shared}
    chk.extra["shape_results_equal_to_c_reference"] = {"equal": st.shape_ref_equal, "of": st.shape_total}
    for u in ("main", "huge", "args", "extreme"):
        if u in st.samples:
            chk.sample(st.samples[u])
    if min(st.outcome["string"], st.outcome["error"], st.outcome["shape"]) == 0 or len(st.by_conv) < 16:
        raise vlib.ToolError("vacuous run: an outcome class or a conversion is missing: %r %r"
                             % (st.outcome, sorted(st.by_conv)))
    return chk.finish()


def replay(path):
    with open(path) as f:
        rp = json.load(f)
    vlib.build_harness()
    case = {k: v for k, v in rp["case"].items() if k != "expected"}
    r = run_cases([case], "c19_replay")[0]
    if "ok" in r and isinstance(r["ok"], str) and len(r["ok"]) > 400:
        r = {"ok": fu.short(r["ok"], 300)}
    print(json.dumps({"src": case["src"][:400], "expected": rp["case"].get("expected"), "result": r},
                     indent=1, ensure_ascii=False))
    return 0
