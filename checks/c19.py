"""C19 - std.format and % follow printf-style formatting for every directive and value.

spec/Fmt.tla is the reference: the format-string parser, the argument consumption of the array,
single-value and object forms, exact renderers for d i u o x X c s %% and - on exact dyadic
values, digit by digit on sequences, rounding half-even on the exact value - for e E f F, and C's
%g as the reference of the value-and-shape invariants for g G.  TLC checks the specification's own
laws (field never shorter than its width, padding placement, aliases, flag overrides, agreement of
the three argument forms, argument counting, exact expansions, parse/print round trip, every proper
prefix of a directive rejected) over the universes of MC_Fmt and prints each case with the expected
result as a rope (so a width of 70000 is one segment).  Every case is evaluated by the real
implementation through `std.format(f, v)` and `f % v` and compared code point by code point.

Spec self-test: wherever Python's % operator follows the same convention, the specification's result
must equal Python's; a difference is a tool error (exit 2), never a verdict about rsjsonnet."""
import json
import os
import re

import vlib
import fmt_util as fu
from vlib import Check, run_tlc, tlc_must_pass, run_cases

PROP = "C19"

# (mode, quick stride, thorough stride)
MODES = [("args", 1, 1), ("huge", 27, 4), ("extreme", 25, 1), ("main", 29, 1)]


def _cfg(mode, seed, stride, all_forms):
    """Derives a configuration from spec/MC_Fmt_<mode>.cfg (which is the thorough one)."""
    with open(os.path.join(vlib.SPEC, f"MC_Fmt_{mode}.cfg")) as f:
        text = f.read()
    text = re.sub(r"Seed = \d+", f"Seed = {seed % 100000}", text)
    text = re.sub(r"Stride = \d+", f"Stride = {stride}", text)
    text = re.sub(r"AllForms = \w+", "AllForms = " + ("TRUE" if all_forms else "FALSE"), text)
    path = os.path.join(vlib.workdir("c19"), f"MC_Fmt_{mode}.cfg")
    with open(path, "w") as f:
        f.write(text)
    return path


def _conv_of(case):
    m = case.get("meta")
    return chr(m["conv"]) if m else "*"


def _classify(exp, got_str, meta):
    """A coarse class for a wrong string (part of the violation signature)."""
    if meta and len(got_str) < meta["fw"] >= 0:
        return "field-shorter-than-width"
    if got_str.strip(" 0") == exp.strip(" 0"):
        return "padding"
    return "wrong-string"


def run(tier, seed):
    chk = Check(PROP, tier, seed)
    quick = tier == "quick"
    chk.rule = ("one evaluation = one Jsonnet program (`std.format(f, v)` or `f % v`) built from one case of "
                "MC_Fmt; distinct = program text; non-trivial = the format contains a directive other than a bare "
                "%% and the specification decides the outcome (string, error or shape)")
    chk.assumptions = [
        "rendering of specification values as Jsonnet literals (lib/render.py); numeric literals are read exactly (C06/C14)",
        "digits of e E f F are decided for exact dyadic values m*2^e with m < 2^31 only; g G and magnitudes >= 2^53 "
        "by value-and-shape invariants",
        "where upstream std.jsonnet and C/Python conflict by accident (sign of negative zero, negative fractions "
        "under o/x, negative or fractional * arguments, %.0g) the case is outside the decided domain",
    ]
    vlib.build_harness()
    r = vlib.rng(seed, "c19")
    emitted = []                    # (case, form)
    for mode, qs, ts in MODES:
        stride = qs if quick else ts
        cfg = _cfg(mode, seed, stride, all_forms=not quick)
        res = run_tlc("MC_Fmt", cfg, f"c19_{mode}", workers=8, heap="6g", coverage=False)
        tlc_must_pass(res, f"Fmt laws / emission ({mode})")
        chk.add_tlc(res, f"{mode}: laws of Fmt.tla + case emission (stride {stride})")
        cases = list(res.lines("CASE"))
        for c in cases:
            for fm in c["forms"]:
                emitted.append((c, fm))
    # the huge universe (70000-character results) is always a seeded subset
    exhaustive = False

    # ---- specification self-test against Python's % -----------------------
    agree = {"ok": 0, "err": 0}
    not_shared = 0
    for c, fm in emitted:
        exp = fm["exp"]
        if exp["k"] == "outside":
            continue
        op = fu.python_opinion(fm["fmt"], fm["vals"])
        if op is None:
            not_shared += 1
            continue
        mine = ("err",) if exp["k"] == "err" else ("ok", fu.rope_str(exp["r"]))
        if mine != op:
            raise vlib.ToolError(
                "specification self-test failed (spec/Fmt.tla disagrees with Python's %): fmt=%r vals=%s spec=%s python=%s"
                % (fu.cps(fm["fmt"]["c"]), json.dumps(fm["vals"]), fu.short(str(mine)), fu.short(str(op))))
        agree[op[0]] += 1

    # ---- replay into the implementation ------------------------------------
    progs, meta = [], []
    for n, (c, fm) in enumerate(emitted):
        surfaces = fu.programs(fm["fmt"], fm["vals"])
        if quick:
            surfaces = [surfaces[(c["idx"] + n) % 2]]
        for sname, src in surfaces:
            progs.append({"k": "eval", "src": src, "manifest": "string"})
            meta.append((c, fm, sname))
    results = run_cases(progs, "c19", timeout_ms=10000)
    flip = os.environ.get("C19_DEBUG_FLIP")          # binding demonstration only
    outcome = {"string": 0, "error": 0, "shape": 0, "outside": 0}
    by_conv = {}
    g_ref_equal = 0
    g_total = 0
    for prog, (c, fm, sname), res in zip(progs, meta, results):
        exp = fm["exp"]
        k = exp["k"]
        conv = _conv_of(c)
        fmt_text = fu.cps(fm["fmt"]["c"]) if fm["fmt"]["t"] == "str" else ""
        nontrivial = k != "outside" and re.search(r"%[^%]", fmt_text) is not None
        chk.count(key=prog["src"], nontrivial=nontrivial)
        sig = {"kind": "format", "universe": c["u"], "conv": conv, "form": fm["form"], "surface": sname}
        if vlib.is_crash(res):
            chk.disagree(dict(sig, **{"class": "crash"}),
                         f"`{fu.short(prog['src'], 200)}` crashed: {vlib.crash_desc(res)}", prog)
            continue
        if k == "outside":
            chk.outside += 1
            outcome["outside"] += 1
            continue
        by_conv[conv] = by_conv.get(conv, 0) + 1
        if k == "err":
            outcome["error"] += 1
            if "err" not in res:
                chk.disagree(dict(sig, **{"class": "missing-error"}),
                             f"`{fu.short(prog['src'], 200)}` gives {fu.short(str(res.get('ok')))}, specification "
                             f"says error ({exp['why']})", dict(prog, expected="error: " + exp["why"]))
            continue
        if "err" in res or not isinstance(res.get("ok"), str):
            outcome["string" if k == "ok" else "shape"] += 1
            chk.disagree(dict(sig, **{"class": "unexpected-error"}),
                         f"`{fu.short(prog['src'], 200)}` fails ({json.dumps(res.get('err', res))[:200]}), specification "
                         f"says {fu.short(fu.rope_str(exp['r']))}", dict(prog, expected=fu.rope_str(exp["r"])[:400]))
            continue
        got = res["ok"]
        if k == "ok":
            outcome["string"] += 1
            want = fu.rope_str(exp["r"])
            if flip and flip in prog["src"]:
                want = want + "!"
            if got != want:
                cls = _classify(want, got, c.get("meta"))
                chk.disagree(dict(sig, **{"class": cls}),
                             f"`{fu.short(prog['src'], 200)}` gives {fu.short(got)}, specification says {fu.short(want)}",
                             dict(prog, expected=want if len(want) < 400 else fu.short(want, 300)))
        else:
            outcome["shape"] += 1
            m = c.get("meta")
            if not m or fm["form"] == "G" or m["v"]["t"] != "num":
                chk.outside += 1
                continue
            g_total += 1
            if got == fu.rope_str(exp["r"]):
                g_ref_equal += 1
            why = fu.shape_problem(m, got)
            if why:
                chk.disagree(dict(sig, **{"class": "shape"}),
                             f"`{fu.short(prog['src'], 200)}` gives {fu.short(got)}: {why} (C reference: "
                             f"{fu.short(fu.rope_str(exp['r']))})", dict(prog, expected="shape: " + why))
    chk.traces_validated = len(progs)
    vc = {}
    for sig_, what_, _p in chk.violations:
        kk = f"{sig_['class']}|{sig_['universe']}|%{sig_['conv']}"
        vc.setdefault(kk, [0, what_[:240]])[0] += 1
    chk.extra["disagreement_classes"] = {k_: {"count": v_[0], "example": v_[1]} for k_, v_ in sorted(vc.items())}
    chk.exhaustive = exhaustive
    chk.extra["outcome_classes"] = outcome
    chk.extra["evaluations_by_conversion"] = dict(sorted(by_conv.items()))
    chk.extra["spec_selftest_vs_python"] = {"equal_strings": agree["ok"], "both_error": agree["err"],
                                            "conventions_differ_not_compared": not_shared}
    chk.extra["shape_results_equal_to_c_reference"] = {"equal": g_ref_equal, "of": g_total}
    for want_u in ("main", "huge", "args", "extreme"):
        for prog, (c, fm, _s) in zip(progs, meta):
            if c["u"] == want_u and fm["exp"]["k"] in ("ok", "err"):
                e = fm["exp"]
                chk.sample({"src": fu.short(prog["src"], 120),
                            "expected": fu.short(fu.rope_str(e["r"]), 80) if e["k"] == "ok" else "error: " + e["why"]})
                break
    if outcome["string"] == 0 or outcome["error"] == 0 or outcome["shape"] == 0:
        raise vlib.ToolError("vacuous run: an outcome class is empty: %r" % outcome)
    return chk.finish()


def replay(path):
    with open(path) as f:
        rp = json.load(f)
    vlib.build_harness()
    case = {k: v for k, v in rp["case"].items() if k != "expected"}
    r = run_cases([case], "c19_replay")[0]
    if "ok" in r and isinstance(r["ok"], str) and len(r["ok"]) > 400:
        r = {"ok": fu.short(r["ok"], 300)}
    print(json.dumps({"src": case["src"][:400], "expected": rp["case"].get("expected"), "result": r},
                     indent=1, ensure_ascii=False))
    return 0
