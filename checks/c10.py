"""C10 - recursion depth is bounded by the configured limit and fails gracefully.

 (a) spec/Machine.tla (FramesBalanced, WithinLimit, in-progress => infinite recursion,
     HistoryIndependent w.r.t. the limit) model-checked by TLC.
 (b) spec/Depth.tla: families of recursion shapes x depth d x limit s; the recorded outcome
     matrix of the real implementation is validated by TLC against Trace_Depth (staircase:
     for fixed d success is upward closed in s with the identical value, for fixed s failure
     is upward closed in d, unbounded/cyclic shapes fail for every s, never a crash).
 (c) frame events (hook) of runs at small d, s validated against Trace_Machine: counter =
     open frames, never negative, zero at normal exit, StackOverflow raised at the first
     step boundary where counter > limit and never otherwise."""
import hashlib
import json
import os

import vlib
import machine
from vlib import Check, run_tlc, tlc_must_pass, run_cases

PROP = "C10"


def program(family, d):
    if family == "call":
        return f"local f(n) = if n == 0 then 0 else 1 + f(n - 1); f({d})"
    if family == "tailstrict":
        return f"local f(n, a) = if n == 0 then a else f(n - 1, a + 1) tailstrict; f({d}, 0)"
    if family == "mutual":
        return (f"local f(n) = if n == 0 then 0 else g(n - 1), g(n) = if n == 0 then 1 else 1 + f(n - 1); f({d})")
    if family == "objfield":
        return f"local o = {{ f(n):: if n == 0 then 0 else 1 + self.f(n - 1) }}; o.f({d})"
    if family == "selfchain":
        fields = ", ".join([f"a0: 0"] + [f"a{i}: self.a{i-1} + 1" for i in range(1, d + 1)])
        return "{" + fields + "}" + f".a{d}"
    if family == "localchain":
        binds = ", ".join([f"a0 = 0"] + [f"a{i} = a{i-1} + 1" for i in range(1, d + 1)])
        return f"local {binds}; a{d}"
    nest_arr = f"std.foldl(function(a, i) [a], std.range(1, {d}), 0)"
    nest_obj = f"std.foldl(function(a, i) {{x: a}}, std.range(1, {d}), 0)"
    if family == "nestarr_eq":
        return f"local n = {nest_arr}, m = {nest_arr}; n == m"
    if family == "nestarr_lt":
        return f"local n = {nest_arr}, m = {nest_arr}; n < m"
    if family == "nestarr_str":
        return f"std.length(std.toString({nest_arr}))"
    if family == "nestarr_man":
        return f"std.length(std.manifestJsonMinified({nest_arr}))"
    if family == "nestobj_man":
        return f"std.length(std.manifestJsonMinified({nest_obj}))"
    if family == "nestobj_eq":
        return f"local n = {nest_obj}, m = {nest_obj}; n == m"
    if family == "prune":
        return f"std.length(std.toString(std.prune(std.foldl(function(a, i) [a, null], std.range(1, {d}), 1))))"
    if family == "superchain":
        return "(" + " + ".join(["{a: 0}"] + ["{a: super.a + 1}"] * d) + ").a"
    if family == "arrcomp":
        return f"local f(n) = if n == 0 then [0] else [x + 1 for x in f(n - 1)]; f({d})[0]"
    if family == "inf_call":
        return f"local f(n) = f(n + 1); f({d})"
    if family == "inf_plus":
        return f"local f(n) = 1 + f(n); f({d})"
    if family == "inf_obj":
        return f"local o = {{ f(n):: self.f(n + 1) }}; o.f({d})"
    if family == "pluschain":
        return "(" + " + ".join(["{x: 0}"] + ["{x+: 1}"] * d) + ").x"
    if family == "plusfold":
        return f"std.foldl(function(acc, i) acc + {{ x+: 1 }}, std.range(1, {d}), {{ x: 0 }}).x"
    if family == "nest1_eq":
        return f"local n = {nest_arr}; n == n"
    if family == "nestobj_str":
        return f"std.length(std.toString({nest_obj}))"
    if family == "ts_or":
        return f"local f(n) = n == 0 || f(n - 1) tailstrict; f({d})"
    if family == "ts_and":
        return f"local f(n) = if n == 0 then true else (true && f(n - 1) tailstrict); f({d})"
    if family == "ts_plus":
        return f"local f(n) = if n == 0 then 0 else 1 + f(n - 1) tailstrict; f({d})"
    if family == "ts_arg":
        return f"local id(x) = x, f(n) = if n == 0 then 0 else id(f(n - 1) tailstrict); f({d})"
    if family == "ts_elem":
        return f"local f(n) = if n == 0 then 0 else [f(n - 1) tailstrict][0]; f({d})"
    if family == "cyc_eq":
        return "local a = [a]; a == a"
    if family == "cyc_lt":
        return "local a = [a]; a < a"
    if family == "cyc_str":
        return "local a = [a]; std.toString(a)"
    if family == "cyc_man":
        return "local a = {x: a}; a"
    if family == "cyc_objeq":
        return "local a = {x: a}; a == a"
    if family == "cyc_local":
        return "local x = x; x"
    if family == "cyc_field":
        return "{ x: self.x }.x"
    if family == "cyc_two":
        return "{ a: self.b, b: self.a }.a"
    if family == "cyc_super":
        return "({ a: 1 } + { a: super.a + self.a }).a"
    if family == "cyc_arr":
        return "local a = [a[0]]; a[0]"
    raise ValueError(family)


def outcome(r):
    if vlib.is_crash(r):
        return ("timeout" if "timeout" in r else "crash"), vlib.crash_desc(r)
    if "ok" in r:
        return "value", hashlib.sha1(r["ok"].encode()).hexdigest()[:10]
    k = r["err"]["kind"]
    if r["err"]["stage"] != "eval":
        return "loaderror", k
    if k == "StackOverflow":
        return "overflow", ""
    if k == "InfiniteRecursion":
        return "infrec", ""
    return "othererror", k


def grid_cfg(ds, ss):
    path = os.path.join(vlib.workdir("tlc"), "gen_depth.cfg")
    with open(path, "w") as f:
        f.write("CONSTANTS Ds = {%s} Ss = {%s}\nINIT Init\nNEXT Next\nINVARIANT Emit\nCHECK_DEADLOCK FALSE\n"
                % (", ".join(map(str, ds)), ", ".join(map(str, ss))))
    return path


def sweep_part(chk, tier, seed):
    if tier == "quick":
        ds = [0, 1, 2, 3, 5, 8, 13, 21, 34, 60]
        ss = [0, 1, 2, 3, 4, 6, 9, 14, 22, 35, 60, 120, 500]
    else:
        ds = list(range(0, 24)) + [30, 40, 60, 100, 200, 400]
        ss = list(range(0, 64)) + [80, 100, 150, 250, 500, 1000, 5000]
    res = run_tlc("MC_Depth", grid_cfg(ds, ss), "c10_grid", workers=4, timeout=900, coverage=False)
    tlc_must_pass(res, "Depth grid")
    chk.add_tlc(res, "Depth grid (family x d x s)")
    cells = list(res.lines("CASE"))
    # deep runs: the native stack must never be exhausted by evaluation
    deep = []
    for fam in sorted({c["family"] for c in cells}):
        kind = next(c["kind"] for c in cells if c["family"] == fam)
        if kind == "finite" and fam not in ("selfchain", "localchain", "superchain", "pluschain", "plusfold"):
            for d, s in ((5000, 500), (5000, 1000000)) + (((30000, 1000000),) if tier == "thorough" else ()):
                deep.append({"family": fam, "kind": kind, "d": d, "s": s})
        elif kind != "finite":
            deep.append({"family": fam, "kind": kind, "d": 0, "s": 200000 if tier == "thorough" else 50000})
    # limits far beyond any depth (people "disable" the limit this way): same outcome as any large limit
    for fam in ("call", "nestarr_eq", "selfchain", "cyc_field"):
        kind = next(c["kind"] for c in cells if c["family"] == fam)
        for s_ in (4294967296, 9223372036854775807, 18446744073709551615):
            deep.append({"family": fam, "kind": kind, "d": 21, "s": s_})
    allc = cells + deep
    cases = [{"k": "eval", "src": program(c["family"], c["d"]), "max_stack": c["s"], "manifest": "single"} for c in allc]
    results = run_cases(cases, "c10_sweep", timeout_ms=20000)
    table = {}
    for c, case, r in zip(allc, cases, results):
        out, val = outcome(r)
        table[(c["family"], c["d"], c["s"])] = (out, val, case, c["kind"])
        chk.count(key=f"{c['family']}:{c['d']}:{c['s']}", nontrivial=(c["kind"] != "finite" or c["d"] > 0))
    # TLC integers are 32-bit: limits beyond 2*10^9 are mapped, order preserved, to 2*10^9 + rank
    big = sorted({k[2] for k in table if k[2] > 2_000_000_000})
    def tl(s_):
        return s_ if s_ <= 2_000_000_000 else 2_000_000_001 + big.index(s_)
    # build the trace: row scans and column scans per family
    lines, owners = [], []
    fams = sorted({k[0] for k in table})
    for fam in fams:
        dvals = sorted({k[1] for k in table if k[0] == fam})
        svals = sorted({k[2] for k in table if k[0] == fam})
        for d in dvals:
            row = [(s, table[(fam, d, s)]) for s in svals if (fam, d, s) in table]
            lines.append({"ev": "row", "family": fam}); owners.append(None)
            for s, (out, val, case, kind) in row:
                lines.append({"ev": "cell", "family": fam, "d": d, "s": tl(s), "out": out, "val": val}); owners.append((fam, d, s))
        for s in svals:
            col = [(d, table[(fam, d, s)]) for d in dvals if (fam, d, s) in table]
            if len(col) < 2:
                continue
            lines.append({"ev": "col", "family": fam}); owners.append(None)
            for d, (out, val, case, kind) in col:
                lines.append({"ev": "cell", "family": fam, "d": d, "s": tl(s), "out": out, "val": val}); owners.append((fam, d, s))
    # validate with TLC; on a rejection report the cell, drop its scan, continue
    d_ = vlib.workdir("traces")
    rnd = 0
    while lines:
        path = os.path.join(d_, f"c10_depth_{rnd}.ndjson")
        with open(path, "w") as f:
            for rec in lines:
                f.write(json.dumps(rec) + "\n")
        res = run_tlc("Trace_Depth", "Trace_Depth.cfg", f"c10_depth_{rnd}", workers=1, env={"TRACE": path},
                      timeout=1800, deque=True, coverage=False, heap="3g", stack="1g")
        rnd += 1
        chk.add_tlc(res, f"outcome matrix validation round {rnd} ({len(lines)} events)")
        if res.rc == 0 and not res.error:
            chk.traces_validated += sum(1 for o in owners if o is None)
            break
        pos = None
        with open(res.out_path, errors="replace") as f:
            for line in f:
                if line.startswith('<<"REJECT"'):
                    pos = int(line.split(",")[1].strip())
        if pos is None or rnd > 60:
            raise vlib.ToolError(f"Trace_Depth failed without REJECT: {res.out_path} {res.error}")
        fam, d, s = owners[pos - 1]
        out, val, case, kind = table[(fam, d, s)]
        # find the scan this cell belongs to
        start = pos - 1
        while owners[start] is not None:
            start -= 1
        end = pos
        while end < len(lines) and owners[end] is not None:
            end += 1
        prev = lines[pos - 2] if owners[pos - 2] is not None else None
        chk.disagree({"kind": "depth", "class": out if out in ("crash", "timeout", "othererror", "loaderror") else "staircase",
                      "family": fam},
                     f"family {fam} ({kind}) d={d} s={s}: outcome {out} {val} breaks the depth/limit contract "
                     f"({lines[start]['ev']} scan; previous cell {json.dumps(prev)}): `{case['src'][:200]}`",
                     dict(case, family=fam, d=d, s=s, outcome=out))
        lines = lines[:start] + lines[end:]
        owners = owners[:start] + owners[end:]
    chk.extra["cells"] = len(table)
    chk.extra["families"] = len(fams)
    chk.extra["outcomes"] = {o: sum(1 for v in table.values() if v[0] == o) for o in {v[0] for v in table.values()}}
    k0 = sorted(table)[len(table) // 2]
    chk.sample({"family": k0[0], "d": k0[1], "s": k0[2], "src": table[k0][2]["src"][:200], "outcome": table[k0][0]})
    return cells


def frames_part(chk, tier, seed, cells):
    progs = []
    r = vlib.rng(seed, "c10frames")
    pick = [c for c in cells if c["d"] <= 8 and c["s"] <= 14]
    r.shuffle(pick)
    pick = pick[:250 if tier == "quick" else 2500]
    for c in pick:
        progs.append((f"{c['family']}:d{c['d']}:s{c['s']}", program(c["family"], c["d"]), {"max_stack": c["s"], "manifest": "single"}))
    runs, skipped = machine.record_programs(progs, max_events=6000, label="c10_rec")
    # plus the corpus under small limits (overflow in the middle of arbitrary programs)
    cps = machine.default_programs(tier, seed, want_fail=False)
    r.shuffle(cps)
    extra = []
    for name, data, _ in cps[:120 if tier == "quick" else 600]:
        extra.append((name + ":s" + str(r.choice([0, 1, 2, 3, 5, 8, 40])), data, {"max_stack": r.choice([0, 1, 2, 3, 5, 8, 40])}))
    runs2, skipped2 = machine.record_programs(extra, max_events=4000, label="c10_rec2")
    budget = 120_000 if tier == "quick" else 1_200_000
    sel, n = [], 0
    for run in runs + runs2:
        if n + len(run[2]) > budget:
            continue
        sel.append(run[:3])
        n += len(run[2]) + 1
    nev = machine.validate_runs(chk, sel, "c10", prop_kind="frames")
    chk.extra["frame_trace_runs"] = len(sel)
    chk.extra["frame_trace_events"] = nev
    novf = sum(1 for run in sel if any(e.get("ev") == "overflow" for e in run[2]))
    chk.extra["frame_traces_with_overflow"] = novf
    if novf == 0:
        raise vlib.ToolError("vacuity: no recorded run reached the overflow action")
    if sel:
        chk.sample({"frames_trace_of": sel[0][0], "first_events": sel[0][2][:10]}, limit=8)


def run(tier, seed):
    chk = Check(PROP, tier, seed)
    chk.rule = ("cells (family, d, s) of the depth/limit grid of spec/MC_Depth.tla plus deep runs; distinct = cell; "
                "non-trivial = d > 0 or a non-terminating shape; plus recorded frame-event traces validated against Trace_Machine")
    chk.assumptions = ["frames-per-level is implementation defined: the specification constrains the shape of the outcome "
                       "matrix (staircase), not the threshold",
                       "program text of each family is a Python template (checks/c10.py program())"]
    vlib.build_harness()
    res = run_tlc("MC_Machine", "MC_Machine_quick.cfg" if tier == "quick" else "MC_Machine_thorough.cfg",
                  "c10_machine", workers=8, timeout=3000, coverage=False)
    tlc_must_pass(res, "Machine model (FramesBalanced, WithinLimit, HistoryIndependent)")
    chk.add_tlc(res, "Machine exhaustive")
    cells = sweep_part(chk, tier, seed)
    frames_part(chk, tier, seed, cells)
    # "the native stack is never exhausted by evaluation": deep live data through the real binary, whose
    # default collection heuristic runs collections in the middle of the evaluation
    from checks import c03
    c03.cli_deep_part(chk, tier, seed)
    return chk.finish()


def replay(path):
    with open(path) as f:
        rp = json.load(f)
    vlib.build_harness()
    case = {k: v for k, v in rp["case"].items() if k in ("k", "src", "src_bytes", "max_stack", "manifest", "events", "max_events")}
    r = run_cases([case], "c10_replay")[0]
    r.pop("events", None)
    print(json.dumps({"what": rp["what"], "result": r, "outcome": outcome(r)}, indent=1)[:4000])
    return 0
