"""C20 - parsing, encoding and hashing builtins compute the standard functions.

spec/Codec.tla defines, from the standards the property names, ParseInt/ParseOctal/ParseHex
(positional notation), JsonDecode (RFC 8259 recogniser + decoder, duplicate member names
rejected), Base64/Base64DecodeBytes (RFC 4648), EncodeUTF8/DecodeUTF8 (RFC 3629, lossy
decoding by substitution of maximal subparts), the five escapeString* functions (upstream
std.jsonnet) and a frozen known-answer table for the digests.  TLC (spec/MC_Codec.tla, one
run per universe) enumerates the inputs, checks the laws of the property on the specification
(decoder inverts encoder, white-space insensitivity, re-serialisation, shift/sign laws, ...)
and prints one case per input; every case is evaluated by the real implementation and the
observation is compared with the specification's answer.  std.parseYaml is run on every
JSON-shaped input (equal to the JSON value where the property claims it, total everywhere)
and on a YAML token soup (total)."""
import concurrent.futures
import hashlib
import json
import sys
import time
from fractions import Fraction

import vlib
import render
import c20_util as U
from vlib import Check, run_tlc, tlc_must_pass, run_cases

PROP = "C20"

# (cfg suffix, label, TLC workers, simulate, depth)
PLAN = {
    "quick": [
        ("quick", "exhaustive universes, quick bounds: json (all strings of <= 3 symbols over the 19-symbol alphabet and of "
                  "<= 4 symbols over its 16 characters), radix (<= 48 digits + boundary lengths up to 400, a non-digit at "
                  "every position), jsonmut (7 documents, every single-token mutation), jsondeep (nesting 1..200), b64, "
                  "utf8 (byte classes, <= 3 bytes), escape (every code point 0..0xA0 + 5 beyond, short strings), digest "
                  "table, yamltok (<= 3 YAML tokens)", 8, None, None),
        ("jsonsim", "random walks of token mutations over JSON documents (seeded)", 1, 2, 3),
        ("radixsim", "random digit strings grown digit by digit (seeded)", 1, 12, 70),
    ],
    "thorough": [
        ("thorough_a", "exhaustive universes, thorough bounds: json (all strings of <= 4 symbols over the 19-symbol "
                       "alphabet), radix (<= 100 digits + boundary lengths up to 400), jsonmut (10 documents, single and "
                       "restricted double mutations), jsondeep (nesting 1..1000), b64, utf8 (<= 4 bytes), escape, digest "
                       "table, yamltok (<= 3 YAML tokens)", 5, None, None),
        ("thorough_b", "json16: all strings of exactly 5 symbols over the 16 characters of the JSON alphabet; "
                       "yamltok: all strings of exactly 4 of 20 YAML tokens", 5, None, None),
        ("jsonsim", "random walks of token mutations over JSON documents (seeded)", 1, 30, 6),
        ("radixsim", "random digit strings grown digit by digit (seeded)", 1, 200, 130),
    ],
}
CHUNK = 60000
# vacuity: every builtin must have seen each of these expectation classes
NEED = {"parseInt": ["ok", "err-digit", "err-empty", "finite", "err-overflow"],
        "parseOctal": ["ok", "err-digit", "err-empty", "finite", "err-overflow"],
        "parseHex": ["ok", "err-digit", "err-empty", "finite", "err-overflow"],
        "parseJson": ["accept", "reject", "open"], "parseYaml": ["accept", "total-only"],
        "base64": ["ok", "err"], "base64str": ["ok", "err"], "base64DecodeBytes": ["ok", "err", "open"],
        "base64Decode": ["ok", "err", "open"], "encodeUTF8": ["ok"], "decodeUTF8": ["ok", "err"],
        "escapeStringJson": ["text"], "escapeStringPython": ["text"], "escapeStringBash": ["text"],
        "escapeStringDollars": ["text"], "escapeStringXML": ["text"],
        "md5": ["table"], "sha1": ["table"], "sha256": ["table"], "sha512": ["table"], "sha3": ["table"]}



def _h(*parts):
    return hashlib.blake2b(json.dumps(parts, separators=(",", ":")).encode(), digest_size=8).digest()


class Judge:
    def __init__(self, chk, seed):
        self.chk = chk
        self.seed = seed
        self.classes = {}      # fn -> expected class -> count
        self.observed = {}     # fn -> observed class -> count
        self.replayed = 0
        self.samples = {}
        self.viol = {}         # sig (without message text) -> [count, first example]
        self.pending = {}      # the same key -> disagreements, reported at the end

    def bump(self, table, fn, cls):
        d = table.setdefault(fn, {})
        d[cls] = d.get(cls, 0) + 1

    # -- building harness cases from one specification case -------------------
    def expand(self, c, deep):
        fn, inp = c["fn"], c["in"]
        out = []
        if fn == "parseJson":
            lit = render.str_lit(U.S(inp))
            d = c["exp"]["d"]
            if deep and d["k"] == "ok":
                path, leaf = U.descend(d["v"])
                c["_leaf"] = leaf
                for f, role in (("parseJson", "main"), ("parseYaml", "yaml")):
                    out.append(({"k": "eval", "manifest": "single",
                                 "src": f"local v = std.{f}({lit}); std.foldl(function(x, k) x[k], {U.path_lit(path)}, v)"},
                                role))
            else:
                mani = "none" if deep else "single"
                out.append(({"k": "eval", "src": f"std.parseJson({lit})", "manifest": mani}, "main"))
                # json16 (1 M strings): std.parseYaml on every text inside the claim and on a seeded quarter of the rest
                if c["u"] != "json16" or c["exp"]["yaml"] or _h(self.seed, inp)[0] % 4 == 0:
                    out.append(({"k": "eval", "src": f"std.parseYaml({lit})", "manifest": mani}, "yaml"))
        elif fn == "parseYaml":
            out.append(({"k": "eval", "src": f"std.parseYaml({render.str_lit(U.S(inp))})", "manifest": "single"}, "total"))
        else:
            src, mani = U.program(fn, inp)
            out.append(({"k": "eval", "src": src, "manifest": mani}, "main"))
            if fn in U.RADIX:
                pre = {"parseInt": "", "parseOctal": "0o", "parseHex": "0x"}[fn]
                out.append(({"k": "eval", "src": f"std.parseYaml({render.str_lit(pre + U.S(inp))})",
                             "manifest": "single"}, "total"))
        return out

    # -- verdicts ---------------------------------------------------------------
    def bad(self, kind, fn, cls, what, case, expected, **more):
        sig = {"kind": kind, "fn": fn, "class": cls}
        sig.update(more)
        k = json.dumps({a: b for a, b in sig.items() if a != "msg"}, sort_keys=True)
        self.viol.setdefault(k, [0, what[:300]])[0] += 1
        self.pending.setdefault(k, []).append((sig, what, dict(case, expected=expected)))

    def report(self):
        """Hands the disagreements to the Check, one of every class first (the driver prints the first 25)."""
        groups = [self.pending[k] for k in sorted(self.pending)]
        for g in groups:
            self.chk.disagree(*g[0])
        for g in groups:
            for item in g[1:]:
                self.chk.disagree(*item)

    def judge(self, c, role, case, r, deep):
        fn, inp, exp = c["fn"], c["in"], c["exp"]
        shown = U.show(inp)
        if role == "total" or (role == "yaml" and not exp["yaml"]):
            # std.parseYaml must answer with a value or an error
            self.bump(self.classes, "parseYaml", "total-only")
            if vlib.is_crash(r):
                self.bad("yaml-total", "parseYaml", "crash", f"`{case['src'][:300]}` crashed: {vlib.crash_desc(r)}",
                         case, "a value or an error", msg=vlib.crash_desc(r)[:120])
            else:
                self.bump(self.observed, "parseYaml", "value" if "ok" in r else "error")
            return
        called = "parseYaml" if role == "yaml" else fn
        if vlib.is_crash(r):
            self.bump(self.classes, called, "crash-observed")
            self.bad(self.kind(fn, role), called, "crash", f"`{case['src'][:300]}` crashed: {vlib.crash_desc(r)}",
                     case, exp if not deep else "(deep)", msg=vlib.crash_desc(r)[:120])
            return
        if fn == "parseJson":
            self.judge_json(c, role, case, r, deep, called, shown)
        elif fn in U.RADIX:
            self.judge_radix(c, case, r, shown)
        elif fn in ("base64", "base64str", "base64DecodeBytes", "base64Decode", "encodeUTF8", "decodeUTF8"):
            self.judge_codec(c, case, r, shown)
        elif fn.startswith("escapeString"):
            self.judge_escape(c, case, r, shown)
        elif fn in U.DIGEST_FNS:
            self.bump(self.classes, fn, "table")
            got = r.get("ok")
            want = exp
            if got != want:
                self.bad("digest", fn, "wrong-digest", f"std.{fn}({shown}) = {got!r}, known answer {want}", case, want)
        else:
            raise vlib.ToolError("unknown fn " + fn)

    @staticmethod
    def kind(fn, role):
        if role == "yaml":
            return "yaml-json"
        if fn == "parseJson":
            return "json"
        if fn in U.RADIX:
            return "radix"
        return "codec"

    def judge_json(self, c, role, case, r, deep, called, shown):
        d = c["exp"]["d"]
        kind = self.kind("parseJson", role)
        self.bump(self.classes, called, {"ok": "accept", "bad": "reject", "open": "open"}[d["k"]])
        if d["k"] == "open":
            self.chk.outside += 1
            return
        self.bump(self.observed, called, "value" if "ok" in r else "error")
        if d["k"] == "bad":                       # only the JSON role gets here with a rejected text
            if "ok" in r:
                self.bad(kind, called, "accepts-invalid",
                         f"std.{called}({shown}) returns a value; not an RFC 8259 text without duplicate names",
                         case, "error")
            return
        if "err" in r:
            cls = "rejects-valid" if role == "main" else "yaml-rejects-json"
            self.bad(kind, called, cls, f"std.{called}({shown}) fails ({r['err'].get('msg', '')[:120]}); "
                     "specification: a valid JSON text" + (" inside the parseYaml claim" if role == "yaml" else ""),
                     case, d["v"] if not deep else "(deep)")
            return
        try:
            got = U.norm(U.loads_manifest(r["ok"]))
        except Exception as e:
            raise vlib.ToolError(f"cannot read manifested result of {case['src'][:200]}: {r['ok'][:200]!r}: {e}")
        want = U.spec_value(c["_leaf"] if deep else d["v"])
        want = U.norm(want)
        if not U.same_value(got, want):
            cls = "wrong-value" if role == "main" else "yaml-differs-from-json"
            self.bad(kind, called, cls, f"std.{called}({shown}) = {json.dumps(got)[:200]}, specification: "
                     f"{json.dumps(want)[:200]}", case, want)

    def judge_radix(self, c, case, r, shown):
        fn, exp = c["fn"], c["exp"]
        cls = exp["r"] if exp["r"] != "err" else "err-" + exp["c"]
        self.bump(self.classes, fn, cls)
        if exp["r"] == "outside":
            self.chk.outside += 1
            return
        self.bump(self.observed, fn, "value" if "ok" in r else "error")
        if exp["r"] == "err":
            if "ok" in r:
                self.bad("radix", fn, "accepts-invalid" if exp["c"] != "overflow" else "no-overflow-error",
                         f"std.{fn}({shown}) = {r['ok'][:60]}; specification: error ({exp['c']})", case, exp)
            return
        if "err" in r:
            self.bad("radix", fn, "rejects-valid", f"std.{fn}({shown}) fails ({r['err'].get('msg', '')[:100]}); "
                     "specification: a number", case, exp)
            return
        got = U.loads_manifest(r["ok"])
        if isinstance(got, bool) or not isinstance(got, (int, float)):
            self.bad("radix", fn, "wrong-type", f"std.{fn}({shown}) = {r['ok'][:60]}", case, exp)
            return
        g = Fraction(float(got))      # the double the printed number denotes
        if exp["r"] == "ok":
            want = Fraction(exp["s"] * exp["m"]) * Fraction(2) ** exp["e"]
            if g != want:
                self.bad("radix", fn, "wrong-value", f"std.{fn}({shown}) = {r['ok'][:60]}; specification: {want}",
                         case, str(want))
        else:                                      # bracket p * R^rem <= |value| < (p+1) * R^rem, finite
            lo = exp["p"] * exp["radix"] ** exp["rem"]
            hi = (exp["p"] + 1) * exp["radix"] ** exp["rem"]

            def fl(n):
                try:
                    return Fraction(float(n))     # nearest double (monotone)
                except OverflowError:
                    return None
            flo, fhi = fl(lo), fl(hi)
            okay = (flo is not None and flo <= abs(g) and (fhi is None or abs(g) <= fhi)
                    and ((g < 0) == (exp["s"] < 0)))
            if not okay:
                self.bad("radix", fn, "out-of-bracket",
                         f"std.{fn}({shown}) = {r['ok'][:40]}...; specification: |value| in [{exp['p']}*{exp['radix']}^{exp['rem']}, "
                         f"{exp['p'] + 1}*{exp['radix']}^{exp['rem']}), sign {exp['s']}", case, exp)

    def judge_codec(self, c, case, r, shown):
        fn, inp, exp = c["fn"], c["in"], c["exp"]
        real = "base64" if fn == "base64str" else fn
        self.bump(self.classes, fn, exp["r"])
        if exp["r"] == "open":
            self.chk.outside += 1
            return
        self.bump(self.observed, fn, "value" if "ok" in r else "error")
        arg = U.show(inp) if fn in ("base64str", "base64DecodeBytes", "base64Decode", "encodeUTF8") else str(inp)[:120]
        if exp["r"] == "err":
            if "ok" in r:
                self.bad("codec", real, "accepts-invalid", f"std.{real}({arg}) = {str(r['ok'])[:80]}; specification: error",
                         case, "error")
            return
        if "err" in r:
            self.bad("codec", real, "rejects-valid", f"std.{real}({arg}) fails ({r['err'].get('msg', '')[:100]}); "
                     f"specification: {exp['v']}"[:400], case, exp["v"])
            return
        if case["manifest"] == "string":
            got = U.cps_of(r)
        else:
            got = U.loads_manifest(r["ok"])
        want = list(exp["v"])
        if got != want:
            self.bad("codec", real, "wrong-result", f"std.{real}({arg}) = {str(got)[:160]}; specification: {str(want)[:160]}",
                     case, want)

    def judge_escape(self, c, case, r, shown):
        fn, inp, exp = c["fn"], c["in"], c["exp"]
        self.bump(self.classes, fn, "text")
        got = U.cps_of(r)
        want = list(exp["text"])
        if got is None:
            self.bad("escape", fn, "not-a-string", f"std.{fn}({shown}) -> {json.dumps(r)[:160]}", case, U.S(want))
            return
        if got != want:
            # which input character's image differs first (offsets of the images come from the specification)
            k = 0
            while k < len(got) and k < len(want) and got[k] == want[k]:
                k += 1
            idx = next((i for i, e in enumerate(exp["ends"]) if k < e), None)   # ends: 1-based end offsets in the text
            cp = U.cp_name(inp[idx]) if idx is not None else "end"
            self.bad("escape", fn, "wrong-text", f"std.{fn}({shown}) = {U.show(got)}; specification: {U.show(want)} "
                     f"(first difference at the image of {cp})", case, U.S(want), cp=cp)


def _tlc(cfg, workers, sim, depth, seed):
    kw = dict(workers=workers)
    if sim is not None:
        kw.update(simulate=sim, depth=depth, seed=seed)
    return run_tlc("MC_Codec", f"MC_Codec_{cfg}.cfg", f"c20_{cfg}", timeout=3000, coverage=False, **kw)


def run(tier, seed):
    sys.setrecursionlimit(30000)
    chk = Check(PROP, tier, seed)
    chk.rule = ("one case = (builtin, input); distinct = distinct (builtin, input) pairs; non-trivial = the specification "
                "answers with a value (accepted text / decodable input / escaped text / digest) or the input has at least "
                "2 code points or bytes")
    chk.assumptions = [
        "digests (md5, sha1, sha256, sha512, sha3) are decided only on a frozen known-answer table of "
        f"39 inputs (RFC 1321 A.5, FIPS 180-4, FIPS 202 examples; padding-boundary and non-ASCII rows frozen once from "
        "Python hashlib): TLC cannot do 32/64-bit word arithmetic at useful speed, the functions are not transcribed",
        "numbers outside the exact domain of the specification (naturals >= 2^30 that are not m*2^k / m*10^k with small m) are "
        "compared through a bracket [p*R^k, (p+1)*R^k) and finiteness only; values within rounding distance of 2^1024 are "
        "outside the domain",
        "a decimal JSON number that is not a small dyadic rational is specified as the exact rational s*m*10^e; the binding "
        "compares with the nearest double of that rational (Python float(Fraction))",
        "RFC 8259 leaves open: escapes of lone surrogates, numbers beyond implementation range/precision; RFC 4648 leaves "
        "open: non-zero pad bits; such inputs are counted outside the domain (a crash on them still counts)",
        "inputs reach the builtins through Jsonnet string literals produced by lib/render.py str_lit (lexer trusted, C14)",
        "std.parseYaml: JSON texts, the block-style subset of spec/Yaml.tla (value decided), everything else totality only",
    ]
    vlib.build_harness()
    judge = Judge(chk, seed)
    seen = set()
    plan = PLAN[tier]
    sim_cases = 0
    enumerated = 0
    per_universe = {}
    with concurrent.futures.ThreadPoolExecutor(max_workers=4) as ex:
        futs = [(cfg, label, sim, ex.submit(_tlc, cfg, w, sim, depth, seed)) for cfg, label, w, sim, depth in plan]
        for cfg, label, sim, fut in futs:
            res = fut.result()
            tlc_must_pass(res, f"Codec laws / emission ({cfg})")
            chk.add_tlc(res, f"{cfg}: {label}; laws of Codec.tla + case emission")
            batch = []
            n_here = 0
            t_rep = [0.0, 0.0]

            def flush():
                nonlocal batch
                if not batch:
                    return
                cases, meta = [], []
                for c in batch:
                    for hc, role in judge.expand(c, c["u"] == "jsondeep"):
                        cases.append(hc)
                        meta.append((c, role))
                t0 = time.time()
                results = run_cases(cases, f"c20_{cfg}", timeout_ms=15000)
                t_rep[0] += time.time() - t0
                t_rep[1] += len(cases)
                judge.replayed += len(cases)
                for hc, (c, role), r in zip(cases, meta, results):
                    exp = c["exp"]
                    nontrivial = len(c["in"]) >= 2 or (
                        isinstance(exp, str) or exp.get("r") in ("ok", "finite") or "text" in exp
                        or (exp.get("d") or {}).get("k") == "ok")
                    chk.count(key=hc["src"], nontrivial=nontrivial)
                    judge.judge(c, role, hc, r, c["u"] == "jsondeep")
                    if role == "main" and "ok" in r and len(c["in"]) >= 3:
                        hk = _h(c["fn"], c["in"])           # deterministic choice: smallest hash per universe
                        cur = judge.samples.get(c["u"])
                        if cur is None or hk < cur[0]:
                            judge.samples[c["u"]] = (hk, {"universe": c["u"], "src": hc["src"][:200],
                                                          "observed": str(r["ok"])[:120]})
                batch = []

            for c in res.lines("CASE"):
                key = _h(c["fn"], c["in"])
                if key in seen:
                    continue
                seen.add(key)
                n_here += 1
                per_universe[c["u"]] = per_universe.get(c["u"], 0) + 1
                batch.append(c)
                if len(batch) >= CHUNK:
                    flush()
            flush()
            if n_here == 0 and sim is None:
                raise vlib.ToolError(f"TLC run {cfg} emitted no case")
            if sim is not None:
                sim_cases += n_here
            else:
                enumerated += n_here
            vlib.log(f"[C20] {cfg}: {n_here} cases, TLC {res.wall:.0f}s, harness {t_rep[0]:.0f}s for {int(t_rep[1])} "
                     f"evaluations, total so far {time.time() - chk.t0:.0f}s")

    # auxiliary (not specification-decided): digests of seeded random strings against Python hashlib
    r = vlib.rng(seed, "c20-digest-aux")
    n_aux = 300 if tier == "quick" else 6000
    pool = [0x00, 0x41, 0x7F, 0x80, 0xE9, 0x7FF, 0x800, 0x20AC, 0xFFFF, 0x10000, 0x1D11E, 0x10FFFF, 0x61, 0x62, 0x20]
    hl = {"md5": hashlib.md5, "sha1": hashlib.sha1, "sha256": hashlib.sha256, "sha512": hashlib.sha512,
          "sha3": hashlib.sha3_512}
    cases, meta = [], []
    for _ in range(n_aux):
        n = r.choice([0, 1, 2, 3, 5, 13, 27, 28, 31, 32, 55, 56, 63, 64, 65, 71, 72, 73, 111, 112, 119, 127, 128, 129, 200, 300])
        s = "".join(chr(r.choice(pool)) for _ in range(n))
        fn = r.choice(U.DIGEST_FNS)
        cases.append({"k": "eval", "src": f"std.{fn}({render.str_lit(s)})", "manifest": "string"})
        meta.append((fn, s))
    results = run_cases(cases, "c20_digest_aux", timeout_ms=15000)
    judge.replayed += len(cases)
    for hc, (fn, s), res_ in zip(cases, meta, results):
        chk.count(key=hc["src"], nontrivial=len(s) >= 2)
        want = hl[fn](s.encode("utf-8")).hexdigest()
        if vlib.is_crash(res_):
            judge.bad("digest-aux", fn, "crash", f"`{hc['src'][:200]}` crashed: {vlib.crash_desc(res_)}", hc, want)
        elif res_.get("ok") != want:
            judge.bad("digest-aux", fn, "wrong-digest", f"`{hc['src'][:200]}` = {res_.get('ok')!r}; hashlib: {want}", hc, want)

    # vacuity: every builtin saw both outcomes where both exist
    for fn, classes in NEED.items():
        for cl in classes:
            if judge.classes.get(fn, {}).get(cl, 0) == 0:
                raise vlib.ToolError(f"vacuous universe: no case of class {cl} for {fn}")
    judge.report()
    for u in sorted(judge.samples):
        chk.sample(judge.samples[u][1], limit=12)
    chk.traces_validated = judge.replayed
    chk.exhaustive = True
    chk.extra["expected_classes"] = judge.classes
    chk.extra["observed_outcomes"] = judge.observed
    chk.extra["disagreement_classes"] = [{"sig": json.loads(k), "count": v[0], "example": v[1]}
                                         for k, v in sorted(judge.viol.items())]
    chk.extra["cases_per_universe"] = per_universe
    chk.extra["enumerated_cases"] = enumerated
    chk.extra["simulated_cases_beyond_bounds"] = sim_cases
    chk.extra["digest_aux_hashlib_cases"] = n_aux
    chk.extra["exhaustive_scope"] = ("every universe of MC_Codec.tla named in tlc_runs without '(seeded)' is enumerated "
                                     "completely; the seeded random walks and the auxiliary digest sample are samples")
    import yaml_util                                  # std.parseYaml on the YAML 1.2 subset of spec/Yaml.tla
    yaml_util.yaml_part(chk, tier, seed)
    return chk.finish()


def replay(path):
    with open(path) as f:
        rp = json.load(f)
    vlib.build_harness()
    case = {k: v for k, v in rp["case"].items() if k != "expected"}
    r = run_cases([case], "c20_replay")[0]
    print(json.dumps({"src": case["src"], "expected": rp["case"].get("expected"), "sig": rp.get("sig"),
                      "result": {k: v for k, v in r.items() if k in ("ok", "err", "panic", "crash", "timeout")}},
                     indent=1, ensure_ascii=True))
    return 0
