"""C17 - sorting and set functions meet their mathematical contracts.

spec/SortSet.tla defines std.sort (for each key in increasing order, the elements with
that key in input order), std.uniq, std.set = uniq . sort, the set operations by key,
std.setMember and std.minArray/maxArray (first extremal element), on elements
<<key rank, unique tag>>.  TLC checks on the specification: permutation / ordered /
stable / unique such permutation / agreement with an independent counting definition,
agreement of every operator with the upstream std.jsonnet fold or two-index walk, the
set-algebra identities, min/max duality, and that rank order is std.__compare order
of the concrete key tables (numbers, strings, arrays; reversed under -x[0]).

TLC enumerates every array of length <= 6 (quick) / 8 (thorough) over 3 keys, every
ordered pair of subsets of a 5-key universe, every (subset of 8 keys, probe), and by
-simulate builds long arrays (25..200 elements, few distinct keys, runs, sorted and
reverse sorted stretches).  Each case is rendered with every (key kind, keyF) variant and
evaluated by the real implementation; results are compared exactly through manifested
JSON, including which of several equal-key elements survives."""
import collections
import json
from concurrent.futures import ThreadPoolExecutor

import vlib
import render
from vlib import Check, run_tlc, tlc_must_pass, run_cases

PROP = "C17"

KF_SRC = {"id": "function(x) x", "proj": "function(x) x[0]", "neg": "function(x) -x[0]"}
# (key kind, keyF variant); "neg" needs numbers
RENDERINGS = [("num", "id"), ("num", "proj"), ("num", "neg"), ("str", "id"), ("str", "proj"),
              ("arr", "id"), ("arr", "proj")]
INT_RENDERINGS = [("int", "id"), ("int", "proj"), ("int", "neg")]
ON_EMPTY_SRC = {"val": '"EMPTY"', "err": 'error "OE"'}
LONG_STACK = 100000


def order_of(kf):
    return "desc" if kf == "neg" else "asc"


def val_py(v):
    """Python (JSON) value of a specification value (Values.tla encoding)."""
    t = v["t"]
    if t == "num":
        txt = render.num_text(v["s"], v["m"], v["e"])
        return float(txt) if "." in txt else int(txt)
    if t == "str":
        return render.cps_to_str(v["c"])
    if t == "arr":
        return [val_py(x) for x in v["a"]]
    raise ValueError(t)


def same(a, b):
    """Exact equality of decoded JSON (bool is not a number, list is not a scalar)."""
    if isinstance(a, bool) or isinstance(b, bool):
        return isinstance(a, bool) and isinstance(b, bool) and a == b
    if isinstance(a, (int, float)) and isinstance(b, (int, float)):
        return a == b
    if type(a) is not type(b):
        return False
    if isinstance(a, list):
        return len(a) == len(b) and all(same(x, y) for x, y in zip(a, b))
    return a == b


class Keys:
    """rank -> (Jsonnet expression, JSON value) from the tables TLC printed."""

    def __init__(self, table, alt=None):
        self.tab = {kind: [(render.value_expr(v), val_py(v)) for v in vs] for kind, vs in table.items()}
        # second spelling of the same keys (0 / -0, ...), used by elements with an odd tag
        self.alt = {kind: [(render.value_expr(v), val_py(v)) for v in vs]
                    for kind, vs in (alt or table).items()}

    def key(self, kind, r, g=0):
        if kind == "int":
            if r == 0 and g % 2 == 1:
                return "(-0)", 0
            return ("(%d)" % r if r < 0 else str(r)), r
        return (self.alt if g % 2 == 1 else self.tab)[kind][r - 1]

    def elem(self, kind, kf, r, g):
        ke, kv = self.key(kind, r, g)
        if kf == "id":
            return ke, kv
        return "[%s, %d]" % (ke, g), [kv, g]

    def arr(self, kind, kf, elems):
        es = [self.elem(kind, kf, r, g) for r, g in elems]
        return "[" + ", ".join(e for e, _ in es) + "]", [v for _, v in es]


def call(fn, pos_args, kf, rnd, on_empty=None):
    """Source of std.<fn>(args..., keyF, onEmpty) with a seeded choice of spelling."""
    styles = ["pos", "named"] + (["omit"] if kf == "id" else [])
    style = rnd.choice(styles)
    args = list(pos_args)
    if style == "pos":
        args.append(KF_SRC[kf])
        if on_empty is not None:
            args.append(on_empty if rnd.random() < 0.5 else "onEmpty=" + on_empty)
    elif style == "named":
        args.append("keyF=" + KF_SRC[kf])
        if on_empty is not None:
            args.append("onEmpty=" + on_empty)
    else:
        if on_empty is not None:
            args.append("onEmpty=" + on_empty)
    return "std.%s(%s)" % (fn, ", ".join(args))


class Batch:
    def __init__(self):
        self.cases = []
        self.meta = []

    def add(self, src, fn, kind, kf, exp_type, exp, nontrivial, group, max_stack=None):
        c = {"k": "eval", "src": src, "manifest": "single"}
        if max_stack:
            c["max_stack"] = max_stack
        self.cases.append(c)
        self.meta.append({"fn": fn, "kind": kind, "kf": kf, "exp_type": exp_type, "exp": exp,
                          "nontrivial": nontrivial, "group": group})


def array_cases(batch, keys, c, rnd, group, renderings, max_stack=None):
    ranks = c["s"]
    elems = [(r, i + 1) for i, r in enumerate(ranks)]
    n = len(elems)
    nt = n >= 2
    for kind, kf in renderings:
        exp = c[order_of(kf)]
        asrc, avals = keys.arr(kind, kf, elems)
        for fn in ("sort", "uniq", "set"):
            want = [avals[g - 1] for g in exp[fn]]
            batch.add(call(fn, [asrc], kf, rnd), fn, kind, kf, "json", want, nt, group, max_stack)
        for which, fn in (("min", "minArray"), ("max", "maxArray")):
            modes = ("none", "val", "err") if n == 0 else (rnd.choice(("none", "val", "err")),)
            for oe in modes:
                e = exp[which][oe]
                if e[0] == "elem":
                    et, want = "json", avals[e[1] - 1]
                elif e[0] == "onEmpty":
                    et, want = "json", "EMPTY"
                else:
                    et, want = "error", None
                src = call(fn, [asrc], kf, rnd, on_empty=ON_EMPTY_SRC.get(oe))
                batch.add(src, fn, kind, kf, et, want, nt, group, max_stack)


def pair_cases(batch, keys, c, rnd):
    for kind, kf in RENDERINGS:
        exp = c[order_of(kf)]
        a_el = [tuple(e) for e in exp["a"]]
        b_el = [tuple(e) for e in exp["b"]]
        asrc, _ = keys.arr(kind, kf, a_el)
        bsrc, _ = keys.arr(kind, kf, b_el)
        nt = bool(a_el) and bool(b_el)
        for fn, field in (("setUnion", "union"), ("setInter", "inter"), ("setDiff", "diff")):
            _, want = keys.arr(kind, kf, [tuple(e) for e in exp[field]])
            batch.add(call(fn, [asrc, bsrc], kf, rnd), fn, kind, kf, "json", want, nt, "pairs")
        if not b_el:       # one membership sweep per distinct set a
            for x, want in enumerate(exp["mem"], start=1):
                xsrc, _ = keys.elem(kind, kf, x, 99)
                batch.add(call("setMember", [xsrc, asrc], kf, rnd), "setMember", kind, kf, "bool", want,
                          bool(a_el), "pairs")


def member_cases(batch, keys, c, rnd):
    for kind, kf in INT_RENDERINGS:
        exp = c[order_of(kf)]
        a_el = [tuple(e) for e in exp["a"]]
        asrc, _ = keys.arr(kind, kf, a_el)
        xsrc, _ = keys.elem(kind, kf, c["x"], 99)
        batch.add(call("setMember", [xsrc, asrc], kf, rnd), "setMember", kind, kf, "bool", exp["r"],
                  bool(a_el), "members")


def merge_levels(n):
    """How many nested merge levels an n-element sort has when halves above 30 are merged."""
    lv = 0
    while n > 30:
        lv += 1
        n = n - n // 2
    return lv


def small_universes(tier):
    if tier == "quick":
        return [("MC_SortSet_arrays_quick.cfg", "c17_arrays", 6, 3)]
    return [("MC_SortSet_arrays.cfg", "c17_arrays", 8, 3), ("MC_SortSet_arrays4.cfg", "c17_arrays4", 6, 4)]


def long_jobs(tier, seed):
    """Long arrays by TLC -simulate (one behaviour = one array; one worker => deterministic per seed)."""
    if tier == "quick":
        return [("MC_SortSet_long_quick.cfg", f"c17_long{i}", 300, seed * 2 + i) for i in range(2)]
    return [("MC_SortSet_long.cfg", f"c17_long{i}", 3500, seed * 4 + 100 + i) for i in range(4)]


def run_all_tlc(tier, seed):
    """All TLC runs of the check are independent: run them side by side. name -> TlcResult."""
    jobs = {}
    for cfg, name, _, _ in small_universes(tier):
        jobs[name] = dict(cfg=cfg, workers=4)
    jobs["c17_pairs"] = dict(cfg="MC_SortSet_pairs.cfg", workers=2)
    jobs["c17_members"] = dict(cfg="MC_SortSet_members.cfg", workers=2)
    for cfg, name, num, sd in long_jobs(tier, seed):
        jobs[name] = dict(cfg=cfg, workers=1, simulate=num, depth=210, seed=sd)

    def one(item):
        name, kw = item
        cfg = kw.pop("cfg")
        return name, run_tlc("MC_SortSet", cfg, name, coverage=False, timeout=3000, **kw)
    with ThreadPoolExecutor(max_workers=len(jobs)) as ex:
        return dict(ex.map(one, list(jobs.items())))


def run(tier, seed):
    chk = Check(PROP, tier, seed)
    small = "length <= 6 over 3 keys" if tier == "quick" else "length <= 8 over 3 keys and <= 6 over 4 keys"
    chk.rule = (f"one evaluation = one builtin call on one input under one (key kind, keyF) rendering; distinct = "
                f"source text; inputs: all arrays of {small}, all 1024 ordered pairs of subsets "
                f"of 5 keys, all (subset of 8 keys, probe 0..9), simulated long arrays; non-trivial = array of >= 2 "
                f"elements / both sets non-empty / membership in a non-empty set")
    chk.assumptions = [
        "rendering of specification keys as Jsonnet literals (lib/render.py) and of ranks through the key tables "
        "printed by TLC (rank order = std.__compare order is checked by TLC as LawKeyTab)",
        "long arrays are evaluated with max_stack=100000 (one trace frame per element is an observation, not a violation)",
    ]
    vlib.build_harness()
    rnd = vlib.rng(seed, "c17")
    batch = Batch()
    keys = None

    by_fn = collections.Counter()
    by_outcome = collections.Counter()
    by_group = collections.Counter()
    sampled = set()
    found = []        # disagreements; reported smallest source first so that the minimal reproducers are shown
    total = [0]

    def flush():
        """Evaluate the pending cases on the implementation, judge them, forget them (bounds memory)."""
        if not batch.cases:
            return
        total[0] += len(batch.cases)
        results = run_cases(batch.cases, "c17", timeout_ms=20000)

        def disagree(sig, what, payload):
            found.append((len(payload["src"]), len(found), sig, what, payload))
        for case, m, r in zip(batch.cases, batch.meta, results):
            chk.count(key=case["src"], nontrivial=m["nontrivial"])
            by_fn[m["fn"]] += 1
            by_group[m["group"]] += 1
            sig = {"kind": "sortset", "fn": m["fn"], "keyF": m["kf"], "keys": m["kind"], "input": m["group"]}
            short = case["src"] if len(case["src"]) < 400 else case["src"][:400] + "..."
            payload = dict(case, expected=m["exp"], expected_type=m["exp_type"])
            if vlib.is_crash(r):
                by_outcome["crash"] += 1
                disagree(dict(sig, **{"class": "crash"}), f"`{short}` crashed: {vlib.crash_desc(r)}", payload)
                continue
            if m["exp_type"] == "error":
                by_outcome["expected-error"] += 1
                if "err" not in r or r["err"].get("stage") != "eval":
                    disagree(dict(sig, **{"class": "missing-error"}),
                                 f"`{short}` gives {str(r)[:200]}, specification says: evaluation error", payload)
                continue
            if "ok" not in r:
                by_outcome["unexpected-error"] += 1
                disagree(dict(sig, **{"class": "unexpected-error"}),
                             f"`{short}` fails with {json.dumps(r.get('err'))[:300]}, specification says "
                             f"{json.dumps(m['exp'])[:300]}", payload)
                continue
            if m["exp_type"] == "bool":
                by_outcome["bool-" + str(m["exp"]).lower()] += 1
                ok = r["ok"].strip() == ("true" if m["exp"] else "false")
            else:
                by_outcome["onEmpty-value" if m["exp"] == "EMPTY" else "value"] += 1
                try:
                    ok = same(json.loads(r["ok"]), m["exp"])
                except ValueError:
                    ok = False
            if not ok:
                disagree(dict(sig, **{"class": "wrong-result"}),
                             f"`{short}` gives {r['ok'][:300]}, specification says {json.dumps(m['exp'])[:300]}", payload)
            elif ((m["fn"], m["group"]) not in sampled and m["nontrivial"] and m["kf"] != "id"
                  and 90 < len(case["src"]) < 300):
                sampled.add((m["fn"], m["group"]))
                chk.sample({"src": case["src"], "expected": m["exp"]}, limit=12)
        batch.cases.clear()
        batch.meta.clear()

    tlc = run_all_tlc(tier, seed)

    # exhaustive small arrays
    parts = {}
    seen_small = set()
    for cfg, name, ml, nk in small_universes(tier):
        res = tlc[name]
        tlc_must_pass(res, "SortSet laws over all small arrays")
        chk.add_tlc(res, f"all arrays of length <= {ml} over {nk} keys: full laws + emission")
        alts = list(res.lines("ALTTABLE"))
        for tab in res.lines("TABLE"):
            keys = Keys(tab, alts[0] if alts else None)
        if keys is None:
            raise vlib.ToolError("TLC did not print the key tables")
        n_arrays = 0
        for c in res.lines("CASE"):
            n_arrays += 1
            if tuple(c["s"]) in seen_small:
                continue
            seen_small.add(tuple(c["s"]))
            array_cases(batch, keys, c, rnd, "arrays", RENDERINGS)
        parts[f"arrays of length <= {ml} over {nk} keys"] = n_arrays

    # all pairs of sets
    res = tlc["c17_pairs"]
    tlc_must_pass(res, "SortSet set-operation laws")
    chk.add_tlc(res, "all ordered pairs of subsets of 5 keys: set-operation laws + emission")
    n_pairs = 0
    for c in res.lines("CASE"):
        n_pairs += 1
        pair_cases(batch, keys, c, rnd)

    res = tlc["c17_members"]
    tlc_must_pass(res, "SortSet membership laws")
    chk.add_tlc(res, "all (subset of 8 keys, probe): membership laws + emission")
    for c in res.lines("CASE"):
        member_cases(batch, keys, c, rnd)
    flush()

    # long arrays
    seen = set()
    lens = collections.Counter()
    levels = collections.Counter()
    shapes = collections.Counter()
    for i, (_, name, _, _) in enumerate(long_jobs(tier, seed)):
        res = tlc[name]
        tlc_must_pass(res, "SortSet laws over simulated long arrays")
        chk.add_tlc(res, f"simulated long arrays (run {i}): sort/uniq/set/min/max laws + emission")
        for c in res.lines("CASE"):
            key = tuple(c["s"])
            if key in seen:
                continue
            seen.add(key)
            lens[len(key)] += 1
            levels[merge_levels(len(key))] += 1
            shapes["%s/%dkeys/period%d" % (c["par"]["dir"], c["par"]["nk"], c["par"]["per"])] += 1
            array_cases(batch, keys, c, rnd, "long", RENDERINGS, max_stack=LONG_STACK)
            if len(batch.cases) >= 40000:
                flush()
    flush()
    if not seen:
        raise vlib.ToolError("simulation produced no long array")

    for _, _, sig, what, payload in sorted(found, key=lambda f: f[:2]):
        chk.disagree(sig, what, payload)
    chk.traces_validated = total[0]
    chk.exhaustive = False    # the long arrays are sampled; the other three universes are enumerated completely
    parts["ordered pairs of subsets of 5 keys"] = n_pairs
    parts["(subset of 8 keys, probe 0..9)"] = by_group["members"] // len(INT_RENDERINGS)
    chk.extra["exhaustive_parts"] = parts
    chk.extra["renderings"] = ["%s/%s" % x for x in RENDERINGS + INT_RENDERINGS]
    chk.extra["evaluations_by_builtin"] = dict(by_fn)
    chk.extra["evaluations_by_universe"] = dict(by_group)
    chk.extra["evaluations_by_expected_outcome"] = dict(by_outcome)
    chk.extra["long_arrays"] = {
        "distinct": len(seen), "min_len": min(lens), "max_len": max(lens),
        "distinct_lengths": len(lens),
        "by_merge_levels": {str(k): v for k, v in sorted(levels.items())},
        "at_threshold_lengths": {str(k): lens[k] for k in (30, 31, 60, 61, 62, 120, 121, 122, 123, 124) if lens[k]},
        "by_shape": dict(sorted(shapes.items())),
    }
    return chk.finish()


def replay(path):
    with open(path) as f:
        rp = json.load(f)
    vlib.build_harness()
    case = {k: v for k, v in rp["case"].items() if k not in ("expected", "expected_type")}
    r = run_cases([case], "c17_replay")[0]
    print(json.dumps({"src": case["src"], "expected_type": rp["case"].get("expected_type"),
                      "expected": rp["case"].get("expected"), "result": r}, indent=1))
    return 0
