"""C14 - lexing tiles the input and decodes literals exactly.

spec/Lex.tla is the reference: the Jsonnet lexical grammar as a tokenizer `Lex(bytes)`
(operators with the maximal-munch restrictions, identifiers/keywords, JSON numbers with `_`,
quoted / verbatim strings, text blocks with ||| and |||-, comments, whitespace, UTF-8 with
maximal-subpart replacement) and, independently, a generator/printer of token items with the
value the grammar assigns. TLC (spec/MC_Lex.tla, one cfg per universe) enumerates

  ops / nums / mixed  every byte string up to a length over three alphabets
  items1/2/3          sequences of 1, 2, 3 token items (every literal form, separators)
  frag / tbfrag       quoted strings and text blocks assembled from (also malformed) fragments
  utf8                every UTF-8 prefix class inside " ' @" @' ||| |||- // # /* */
  scalar              every Unicode scalar value (law only)

checks the laws on the specification (expected spans tile the input; print-then-tokenize gives
the generator's tokens; trivia do not change the other tokens; canonical reprint keeps kinds and
values; Utf8Lossy laws) and emits one case per input. Every case is lexed by the real
`Lexer::lex_to_eof(true/false)` (harness case kind "lex") and compared token by token.

Arbitrary bytes (random, lexical soup, the ui-tests corpus, its truncations and mutations) are
checked against the tiling condition of spec/Trace_Lex.tla: by TLC on a sample of the recorded
token streams and by the same condition in Python on all of them."""
import json
import os
from concurrent.futures import ThreadPoolExecutor

import vlib
import lex_util as lu
from vlib import Check, run_tlc, tlc_must_pass, run_cases

PROP = "C14"
BATCH = 100_000
MAX_PER_SIG = 3

# (cfg name, what it is)
QUICK = ["ops_quick", "nums_quick", "mixed_quick", "items1_quick", "items2_quick", "items3",
         "frag_quick", "tbfrag_quick", "utf8", "scalar_quick"]
THOROUGH = ["ops", "nums", "mixed", "items1", "items2", "items3", "frag", "tbfrag", "utf8", "scalar"]


class Run:
    def __init__(self, chk):
        self.chk = chk
        self.by_sig = {}
        self.outcomes = {}
        self.tokkinds = {}
        self.py_codec_checked = 0

    def outcome(self, universe, what):
        d = self.outcomes.setdefault(universe, {})
        d[what] = d.get(what, 0) + 1

    def disagree(self, sig, what, payload):
        key = json.dumps(sig, sort_keys=True)
        n = self.by_sig.get(key, 0)
        self.by_sig[key] = n + 1
        if n < MAX_PER_SIG:
            self.chk.disagree(sig, what, payload)

    def check_batch(self, universe, cases, volume=False):
        """cases: specification cases ({b, st, cls, at, t}) or, for volume, {b} only."""
        chk = self.chk
        hc = [lu.lex_case(c["b"]) for c in cases]
        if volume:
            for h in hc:
                h["values"] = False
        results = run_cases(hc, "c14", timeout_ms=10000)
        for c, r in zip(cases, results):
            bs = c["b"]
            chk.count(key=universe[:3] + bytes(bs).hex(), nontrivial=len(bs) >= 2)
            payload = {"bytes": list(bs), "universe": universe,
                       "expected": None if volume else {k: c[k] for k in ("st", "cls", "at", "t")}}
            if vlib.is_crash(r):
                self.outcome(universe, "crash")
                self.disagree({"kind": "lex", "class": "crash", "universe": universe},
                              f"lexing {lu.show(bs)} crashed: {vlib.crash_desc(r)}", payload)
                continue
            v = lu.tiling_violation(r)
            if v is not None:
                self.outcome(universe, "tiling-violation")
                self.disagree({"kind": "lex", "class": "tiling", "universe": universe},
                              f"{lu.show(bs)}: {v}", payload)
                c["_tiling"] = v
            if volume:
                self.outcome(universe, "error" if "error" in r["all"] else "tokens")
                continue
            st = c["st"]
            self.outcome(universe, "spec-" + (st if st != "err" else "err-" + c["cls"]))
            if st == "outside":
                chk.outside += 1
                continue
            if st == "ok":
                for t in c["t"]:
                    self.tokkinds[t[0]] = self.tokkinds.get(t[0], 0) + 1
            d = lu.compare(c, r)
            if d is not None:
                cls, tok, text, detail = d
                self.disagree({"kind": "lex", "class": cls, "tok": tok, "detail": detail, "universe": universe},
                              text, payload)
        chk.traces_validated += len(cases)
        return results


def tlc_cases(res):
    batch = []
    for c in res.lines("CASE"):
        batch.append(c)
        if len(batch) >= BATCH:
            yield batch
            batch = []
    if batch:
        yield batch


# ---------------------------------------------------------------------------
# universes whose oracle is computed in Python from laws TLC checks on the spec

def str_case(src, cps):
    n = len(src)
    return {"b": list(src), "st": "ok", "cls": "", "at": 0,
            "t": [["String", 0, n, list(cps), 0], ["EndOfFile", n, n, [], 0]]}


def err_case(src, cls, at=0):
    return {"b": list(src), "st": "err", "cls": cls, "at": at, "t": []}


def scalar_cases(tier, rng):
    """Every Unicode scalar value, raw (UTF-8) inside a string literal, 64 per literal; its code
    point is the value (Lex.tla LawScalar, checked by TLC over the same scalars)."""
    scal = [cp for cp in range(0x110000) if not 0xD800 <= cp <= 0xDFFF and cp not in (0x22, 0x5C)]
    chunks = [scal[i:i + 64] for i in range(0, len(scal), 64)]
    if tier == "quick":
        keep = set(range(0, 40)) | {len(chunks) - 1} | set(rng.sample(range(len(chunks)), 700))
        keep |= {k for k in range(len(chunks)) if chunks[k][0] <= 0xFFFF <= chunks[k][-1] + 64}
        chunks = [chunks[k] for k in sorted(keep)]
    out = []
    for ch in chunks:
        src = b'"' + "".join(map(chr, ch)).encode("utf-8") + b'"'
        out.append(str_case(src, ch))
    return out


def escape_cases(tier, rng):
    """\\uXXXX for every code unit (32 per literal; every surrogate alone is an error), and
    surrogate pairs for sampled supplementary code points, in both hex cases."""
    out = []
    units = list(range(0x10000))
    bmp = [u for u in units if not 0xD800 <= u <= 0xDFFF]
    sur = [u for u in units if 0xD800 <= u <= 0xDFFF]
    if tier == "quick":
        bmp = sorted(set(bmp[:256]) | set(rng.sample(bmp, 4000)) | {0xD7FF, 0xE000, 0xFFFF, 0xFFFD, 0xFEFF})
        sur = sorted({0xD800, 0xDBFF, 0xDC00, 0xDFFF} | set(rng.sample(sur, 200)))
    for i in range(0, len(bmp), 32):
        ch = bmp[i:i + 32]
        fmt = "\\u%04x" if (i // 32) % 2 else "\\u%04X"
        out.append(str_case(b"'" + "".join(fmt % u for u in ch).encode() + b"'", ch))
    for u in sur:
        out.append(err_case(b'"\\u%04x"' % u, "string"))
        out.append(err_case(b'"\\u%04X\\u0041"' % u, "string"))
    sup = [0x10000, 0x103FF, 0x10400, 0x1F600, 0x10FC00, 0x10FFFF]
    sup += [rng.randrange(0x10000, 0x110000) for _ in range(2000 if tier == "quick" else 60000)]
    for k, cp in enumerate(sup):
        v = cp - 0x10000
        hi, lo = 0xD800 + (v >> 10), 0xDC00 + (v & 0x3FF)
        fmt = "\"a\\u%04x\\u%04X\"" if k % 2 else "\"a\\u%04X\\u%04x\""
        out.append(str_case((fmt % (hi, lo)).encode(), [97, cp]))
        if k % 16 == 0:     # reversed pair: low surrogate first
            out.append(err_case(("\"\\u%04x\\u%04x\"" % (lo, hi)).encode(), "string"))
    return out


INTERESTING = [0x00, 0x41, 0x7f, 0x80, 0x8f, 0x90, 0x9f, 0xa0, 0xbf, 0xc0, 0xc1, 0xc2, 0xdf, 0xe0, 0xe1, 0xec,
               0xed, 0xee, 0xef, 0xf0, 0xf1, 0xf3, 0xf4, 0xf5, 0xf7, 0xf8, 0xfb, 0xfc, 0xfe, 0xff]


def lossy_cases(tier, rng):
    """String bodies of arbitrary bytes: the value is the lossy decoding of the body. The oracle
    here is CPython's decoder (maximal-subpart replacement); it is cross-checked against
    Lex.tla's Utf8Lossy on every case of the TLC `utf8` universe."""
    bodies = [bytes([a, b]) for a in range(256) for b in range(256)]
    if tier == "quick":
        bodies = rng.sample(bodies, 6000)
    n_rand = 8000 if tier == "quick" else 250000
    for _ in range(n_rand):
        bodies.append(bytes(rng.choice(INTERESTING) for _ in range(rng.randrange(1, 7))))
    out = []
    for k, body in enumerate(bodies):
        c = k % 4
        if c == 0 and not (set(body) & {0x22, 0x5C}):
            src = b'"' + body + b'"'
        elif c == 1 and not (set(body) & {0x27, 0x5C}):
            src = b"'" + body + b"'"
        elif c == 2 and 0x22 not in body:
            src = b'@"' + body + b'"'
        elif c == 3 and not (set(body) & {0x0A, 0x0D}) and body[:1] not in (b" ", b"\t"):
            src = b"|||\n\t" + body + b"\n|||"
            cps = [ord(ch) for ch in body.decode("utf-8", "replace")] + [10]
            n = len(src)
            out.append({"b": list(src), "st": "ok", "cls": "", "at": 0,
                        "t": [["TextBlock", 0, n, cps, 0], ["EndOfFile", n, n, [], 0]]})
            continue
        else:
            continue
        out.append(str_case(src, [ord(ch) for ch in body.decode("utf-8", "replace")]))
    return out


# ---------------------------------------------------------------------------

def volume_inputs(tier, seed):
    """(universe, list of byte strings) for the tiling property on arbitrary bytes."""
    r = vlib.rng(seed, "c14-volume")
    files = lu.corpus()
    n_rand = 45_000 if tier == "quick" else 1_200_000
    n_mut = 12_000 if tier == "quick" else 250_000
    per_file_trunc = 6 if tier == "quick" else 60
    yield "random", lu.gen_random(r, n_rand)
    yield "corpus", [d for (_, d) in files]
    trunc = []
    for _, d in files:
        pts = set(range(0, min(len(d), 24)))
        pts |= {r.randrange(0, len(d) + 1) for _ in range(per_file_trunc)}
        # truncation points just after interesting bytes (inside strings, comments, text blocks)
        hot = [i + 1 for i, ch in enumerate(d) if ch in b"\"'\\|/*@"]
        if hot:
            pts |= set(r.sample(hot, min(len(hot), per_file_trunc)))
        trunc.extend(d[:p] for p in sorted(pts) if len(d[:p]) <= 20000)
    yield "truncated", trunc
    ds = [d for (_, d) in files if d]
    yield "mutated", [lu.mutate(r, r.choice(ds)) for _ in range(n_mut)]


def validate_traces(chk, run, tier, seed, sampled, rejected):
    """TLC (spec/Trace_Lex.tla) over the recorded streams of a sample of the volume inputs; the
    verdict must equal the Python evaluator's."""
    d = vlib.workdir("c14")
    budget = 40_000 if tier == "quick" else 200_000
    path = os.path.join(d, f"trace_{seed}.ndjson")
    n_ev = n_in = 0
    with open(path, "w") as f:
        for r in sampled:
            ev = lu.trace_events(r)
            if n_ev + len(ev) > budget:
                break
            for e in ev:
                f.write(json.dumps(e, separators=(",", ":")) + "\n")
            n_ev += len(ev)
            n_in += 1
    res = run_tlc("Trace_Lex", "Trace_Lex.cfg", "c14_trace", workers=1, deque=True, env={"TRACE": path},
                  coverage=False, timeout=1500)
    chk.add_tlc(res, f"Trace_Lex over {n_in} recorded inputs, {n_ev} events")
    if res.rc != 0 or res.error:
        raise vlib.ToolError(
            f"evaluators disagree: Python accepts all {n_in} sampled streams, TLC rejects the trace at event "
            f"{res.depth} (see {res.out_path})")
    if res.depth != n_ev + 1:
        raise vlib.ToolError(f"Trace_Lex consumed {res.depth - 1} of {n_ev} events")
    # negative control + every stream the Python evaluator rejected must be rejected by TLC as well
    bad = [{"len": 2, "all": {"tokens": [["Ident", 0, 1], ["Ident", 0, 2], ["EndOfFile", 2, 2]]},
            "nows": {"tokens": [["Ident", 0, 1], ["Ident", 0, 2], ["EndOfFile", 2, 2]]}}]
    assert lu.tiling_violation(bad[0]) is not None
    for k, r in enumerate(bad + rejected[:3]):
        p2 = os.path.join(d, f"trace_{seed}_bad{k}.ndjson")
        with open(p2, "w") as f:
            for e in lu.trace_events(r):
                f.write(json.dumps(e, separators=(",", ":")) + "\n")
        res2 = run_tlc("Trace_Lex", "Trace_Lex.cfg", f"c14_trace_bad{k}", workers=1, deque=True,
                       env={"TRACE": p2}, coverage=False, timeout=300)
        if res2.rc == 0 and not res2.error:
            raise vlib.ToolError(f"evaluators disagree: Python rejects {p2}, TLC accepts it")
        os.unlink(p2)
    run.chk.extra["trace_lex"] = {"inputs": n_in, "events": n_ev, "negative_controls_rejected": 1 + len(rejected[:3])}
    os.unlink(path)


def run(tier, seed):
    chk = Check(PROP, tier, seed)
    chk.rule = ("one evaluation = one input byte string lexed by lex_to_eof(true) and lex_to_eof(false); distinct = "
                "(universe, bytes); non-trivial = the input has at least 2 bytes")
    chk.assumptions = [
        "operators: a '//', '/*' or '|||' inside a run of operator characters ends the operator where it starts "
        "(reading of 'not allowed in an operator' shared by both reference implementations)",
        "numbers: scanning is committed - after '.', 'e', a sign or '_' a digit must follow (no backtracking to a "
        "shorter number); '0' directly followed by a digit or '_' is outside the decided domain",
        "a '#'/'//' comment token includes its line terminator; text blocks: only empty lines (LF or CRLF) are "
        "skipped before the first line; '|||-' after a CRLF line end is outside the decided domain",
        "located error: only its class (character/comment/number/string/text block) and start >= offset of the "
        "first token the grammar cannot form are compared",
        "all-scalars, \\u escapes and random string bodies use a Python oracle (code point identity; CPython's "
        "utf-8 'replace' decoder), cross-checked against Lex.tla on the TLC utf8/items universes",
    ]
    vlib.build_harness()
    run_ = Run(chk)
    cfgs = QUICK if tier == "quick" else THOROUGH
    r = vlib.rng(seed, "c14")

    def tlc_job(name):
        return run_tlc("MC_Lex", f"MC_Lex_{name}.cfg", f"c14_{name}", workers=5, coverage=False,
                       timeout=3000, heap="3g")

    total_tlc_cases = 0
    with ThreadPoolExecutor(max_workers=3) as ex:
        futs = [(name, ex.submit(tlc_job, name)) for name in cfgs]
        # meanwhile: the Python-oracle universes
        for uni, gen in (("py-scalars", scalar_cases), ("py-escapes", escape_cases), ("py-lossy", lossy_cases)):
            cases = gen(tier, r)
            for i in range(0, len(cases), BATCH):
                run_.check_batch(uni, cases[i:i + BATCH])
        for name, fut in futs:
            res = fut.result()
            tlc_must_pass(res, f"Lex laws on universe {name}")
            chk.add_tlc(res, f"MC_Lex {name}: laws + case emission")
            uni = name.replace("_quick", "")
            n = 0
            for batch in tlc_cases(res):
                if uni == "utf8":
                    # cross-check of the Python codec oracle with Lex.tla's Utf8Lossy
                    for c in batch:
                        bs = bytes(c["b"])
                        if c["st"] == "ok" and c["t"][0][0] == "String" and bs[:1] in (b'"', b"'") \
                                and b"\\" not in bs:
                            if [ord(ch) for ch in bs[1:-1].decode("utf-8", "replace")] != c["t"][0][3]:
                                raise vlib.ToolError(f"Utf8Lossy of Lex.tla and CPython disagree on {bs!r}")
                            run_.py_codec_checked += 1
                run_.check_batch(uni, batch)
                n += len(batch)
                if len(chk.samples) < 4 and batch:
                    c = batch[len(batch) // 2]
                    chk.sample({"universe": uni, "input": lu.show(c["b"]), "spec": c["st"],
                                "tokens": [[t[0], t[1], t[2]] for t in c["t"]][:8]})
            total_tlc_cases += n
            if name.startswith("scalar"):
                continue
            if n == 0:
                raise vlib.ToolError(f"universe {name} emitted no cases")
    # arbitrary bytes: tiling
    sampled, rejected = [], []
    for uni, inputs in volume_inputs(tier, seed):
        for i in range(0, len(inputs), BATCH):
            cases = [{"b": b} for b in inputs[i:i + BATCH]]
            results = run_.check_batch(uni, cases, volume=True)
            for c, res_ in zip(cases, results):
                if vlib.is_crash(res_):
                    continue
                if "_tiling" in c:
                    rejected.append(res_)
                elif len(sampled) < 60_000 and len(c["b"]) <= 400 and (len(sampled) % 2 == 0 or uni != "random"):
                    sampled.append(res_)
            if len(chk.samples) < 6 and cases:
                c = cases[len(cases) // 3]
                chk.sample({"universe": uni, "input": lu.show(c["b"][:60]), "bytes": len(c["b"])})
    r2 = vlib.rng(seed, "c14-trace")
    r2.shuffle(sampled)
    validate_traces(chk, run_, tier, seed, sampled, rejected)

    chk.exhaustive = True      # every TLC universe is enumerated completely (volume inputs are sampled)
    chk.extra["outcomes_by_universe"] = run_.outcomes
    chk.extra["expected_token_kinds"] = run_.tokkinds
    chk.extra["spec_cases_from_tlc"] = total_tlc_cases
    chk.extra["python_codec_cross_checked"] = run_.py_codec_checked
    chk.extra["disagreements_by_sig"] = run_.by_sig
    # vacuity: both outcome classes present and every token kind expected somewhere
    oc = {}
    for d in run_.outcomes.values():
        for k, v in d.items():
            oc[k] = oc.get(k, 0) + v
    for need in ("spec-ok", "spec-err-char", "spec-err-comment", "spec-err-number", "spec-err-string",
                 "spec-err-textblock", "spec-outside", "tokens", "error"):
        if not oc.get(need):
            raise vlib.ToolError(f"vacuous run: no case with outcome {need}")
    for need in ("EndOfFile", "Whitespace", "Comment", "Ident", "Number", "String", "TextBlock", "OtherOp",
                 "Dollar", "Importbin", "PlusColonColonColon", "Dot"):
        if not run_.tokkinds.get(need):
            raise vlib.ToolError(f"vacuous run: token kind {need} never expected")
    return chk.finish()


def replay(path):
    with open(path) as f:
        rp = json.load(f)
    vlib.build_harness()
    c = rp["case"]
    r = run_cases([lu.lex_case(c["bytes"])], "c14_replay")[0]
    out = {"input": lu.show(c["bytes"]), "universe": c.get("universe"), "result": r,
           "tiling": lu.tiling_violation(r) if not vlib.is_crash(r) else vlib.crash_desc(r)}
    if c.get("expected"):
        spec = dict(c["expected"], b=c["bytes"])
        out["expected"] = c["expected"]
        out["disagreement"] = None if vlib.is_crash(r) else lu.compare(spec, r)
    print(json.dumps(out, indent=1))
    return 0
